import Mhd.Model.ReplyBounds
import Mhd.Proofs.ReplyNum
set_option linter.unusedSimpArgs false
namespace Mhd.ReplyBounds
open Mhd.Reply Mhd.ReplyStr Mhd.Resp

theorem runActs_append (bufSize : Nat) : ∀ (a b : List Act) (w : WB),
    runActs bufSize (a ++ b) w =
      if (runActs bufSize a w).2 then runActs bufSize b (runActs bufSize a w).1 else ((runActs bufSize a w).1, false) := by
  intro a
  induction a with
  | nil => intro b w; simp [runActs]
  | cons x a ih =>
    intro b w
    cases x with
    | check n =>
      simp only [List.cons_append, runActs]
      split
      · simp
      · exact ih b w
    | write bs => simp only [List.cons_append, runActs]; exact ih b _

/-- the actions never write at an index `≥ bufSize` (whether the builder completes or refuses) -/
def InB (acts : List Act) : Prop :=
  ∀ (bufSize : Nat) (w : WB), w.hw ≤ bufSize → (runActs bufSize acts w).1.hw ≤ bufSize

theorem inB_nil : InB [] := fun _ _ h => h

theorem inB_append {a b : List Act} (ha : InB a) (hb : InB b) : InB (a ++ b) := by
  intro bufSize w hw
  rw [runActs_append]
  split
  · exact hb bufSize _ (ha bufSize w hw)
  · exact ha bufSize w hw

theorem inB_flatMap {α} (f : α → List Act) (l : List α) (h : ∀ x ∈ l, InB (f x)) : InB (l.flatMap f) := by
  induction l with
  | nil => exact inB_nil
  | cons x l ih =>
    rw [List.flatMap_cons]
    exact inB_append (h x (List.mem_cons_self ..)) (ih (fun y hy => h y (List.mem_cons_of_mem _ hy)))

/-- a segment whose check covers the bytes it writes -/
theorem inB_seg (s : Seg) (h : s.piece.length ≤ s.need) : InB (segActs s) := by
  intro bufSize w hw
  simp only [segActs, runActs]
  split
  · exact hw
  · simp only; omega

/-- a user header line: the first check covers `name: value CRLF`, the check in front of the token covers the
    token and the rest of the line -/
theorem inB_userField (name pre value : Bytes) : InB (userFieldActs true name pre value) := by
  intro bufSize w hw
  unfold userFieldActs
  by_cases hp : pre.isEmpty = true
  · simp only [hp, if_true, List.append_nil, List.cons_append, List.nil_append, runActs]
    split
    · exact hw
    · simp only [List.length_append, colonSp, crlf, List.length_cons, List.length_nil]; omega
  · simp only [hp, if_false, if_true, List.cons_append, List.nil_append, runActs, Bool.false_eq_true]
    split
    · exact hw
    · split
      · simp only [List.length_append, colonSp, crlf, List.length_cons, List.length_nil] at *; omega
      · simp only [List.length_append, colonSp, crlf, List.length_cons, List.length_nil] at *; omega

theorem inB_userLoop (insanity : Bool) : ∀ (hs : List Hdr) (st : UH), InB (userActsLoop true insanity hs st) := by
  intro hs
  induction hs with
  | nil => intro st; exact inB_nil
  | cons h rest ih =>
    intro st
    unfold userActsLoop
    split
    · exact ih _
    · split
      · exact ih _
      · split
        · exact ih _
        · exact inB_append (inB_userField _ _ _) (ih _)

theorem codeDigits_len (rcode : Nat) (h1 : 100 ≤ rcode) (h2 : rcode ≤ 999) : (codeDigits rcode).length = 3 := by
  obtain ⟨d1, d2, d3, hcd, _⟩ := Mhd.ReplyNum.codeDigits_spec rcode h1 h2
  unfold codeDigits; rw [hcd]; rfl

theorem inB_preSegs (c : Conn) (r : Resp) (rcode : Nat) (icy : Bool) (date : Option Bytes) (ka : KA)
    (h1 : 100 ≤ rcode) (h2 : rcode ≤ 999) (hd : ∀ d, date = some d → d.length ≤ 30) :
    InB ((preSegs c r rcode icy date ka).flatMap segActs) := by
  apply inB_flatMap
  intro s hs
  apply inB_seg
  unfold preSegs at hs
  simp only [List.mem_append, List.mem_cons, List.mem_map, List.not_mem_nil, or_false] at hs
  rcases hs with ((rfl | rfl | rfl | rfl) | hs) | ⟨f, _, rfl⟩
  · simp [segStr]
  · simp [codeDigits_len rcode h1 h2]
  · simp [segStr]
  · simp [crlf]
  · unfold dateSegs at hs
    split at hs
    · simp only [List.mem_cons, List.not_mem_nil, or_false] at hs
      subst hs
      simp only
      unfold dateFields
      split
      · cases date with
        | none => simp
        | some d =>
          have := hd d rfl
          have hl : Mhd.Gen.Reply.hdrDate.length = 4 := by decide
          simp [fieldLine, sDate, colonSp, crlf]; omega
      · contradiction
    · simp at hs
  · simp [fieldSeg, segStr]

theorem inB_postSegs (r : Resp) (props : Props) : InB ((postSegs r props).flatMap segActs) := by
  apply inB_flatMap
  intro s hs
  apply inB_seg
  unfold postSegs bodyHdrSegs at hs
  simp only [List.mem_append, List.mem_cons, List.not_mem_nil, or_false] at hs
  rcases hs with hs | rfl
  · repeat' split at hs
    all_goals first
      | (simp only [List.mem_cons, List.not_mem_nil, or_false] at hs
         rcases hs with rfl | rfl | rfl <;> simp [segStr, crlf])
      | (simp only [List.mem_cons, List.not_mem_nil, or_false] at hs; subst hs; simp [segStr])
      | simp at hs
  · simp [crlf]

/-- **`header_build_in_bounds`** (builder whose token check covers the line): for every connection state, response,
    status code 100…999, Date string (29 bytes from `get_date_str`; anything up to 30 is covered by the 38 bytes
    demanded), keep-alive decision and buffer size — every byte the builder stores lies below `bufSize`, also on
    the runs that end in a refusal. -/
theorem headActs_inB (c : Conn) (r : Resp) (rcode : Nat) (icy : Bool) (date : Option Bytes) (ka : KA) (props : Props)
    (h1 : 100 ≤ rcode) (h2 : rcode ≤ 999) (hd : ∀ d, date = some d → d.length ≤ 30) :
    InB (headActs true c r rcode icy date ka props) :=
  inB_append (inB_append (inB_preSegs c r rcode icy date ka h1 h2 hd) (inB_userLoop _ _ _)) (inB_postSegs r props)

/-! ### the fine model is C04's model: same refusals, same bytes -/

/-- the result without the high-water mark -/
def runB (bufSize : Nat) : List Act → Bytes → Option Bytes
  | [], buf => some buf
  | .check n :: rest, buf => if bufSize < buf.length + n then none else runB bufSize rest buf
  | .write bs :: rest, buf => runB bufSize rest (buf ++ bs)

theorem runActs_runB (bufSize : Nat) : ∀ (acts : List Act) (w : WB),
    (if (runActs bufSize acts w).2 then some (runActs bufSize acts w).1.buf else none) = runB bufSize acts w.buf := by
  intro acts
  induction acts with
  | nil => intro w; rfl
  | cons a rest ih =>
    intro w
    cases a with
    | check n =>
      simp only [runActs, runB]
      split
      · rfl
      · exact ih w
    | write bs => simp only [runActs, runB]; exact ih _

theorem runB_append (bufSize : Nat) : ∀ (a b : List Act) (buf : Bytes),
    runB bufSize (a ++ b) buf = (runB bufSize a buf).bind (runB bufSize b) := by
  intro a
  induction a with
  | nil => intro b buf; rfl
  | cons x a ih =>
    intro b buf
    cases x with
    | check n =>
      simp only [List.cons_append, runB]
      split
      · rfl
      · exact ih b buf
    | write bs => simp only [List.cons_append, runB]; exact ih b _

theorem runSegs_append (bufSize : Nat) : ∀ (a b : List Seg) (buf : Bytes),
    runSegs bufSize (a ++ b) buf = (runSegs bufSize a buf).bind (runSegs bufSize b) := by
  intro a
  induction a with
  | nil => intro b buf; rfl
  | cons x a ih =>
    intro b buf
    simp only [List.cons_append, runSegs]
    cases h : appendChk bufSize buf x with
    | none => rfl
    | some b1 => exact ih b b1

theorem runB_segs (bufSize : Nat) : ∀ (segs : List Seg) (buf : Bytes),
    runB bufSize (segs.flatMap segActs) buf = runSegs bufSize segs buf := by
  intro segs
  induction segs with
  | nil => intro buf; rfl
  | cons s rest ih =>
    intro buf
    simp only [List.flatMap_cons, segActs, List.cons_append, List.nil_append, runB, runSegs, appendChk]
    split
    · rfl
    · exact ih _

theorem runB_userField (bufSize : Nat) (name pre value : Bytes) (tail : List Act) (buf : Bytes) :
    runB bufSize (userFieldActs true name pre value ++ tail) buf =
      (appendChk bufSize buf (fieldSeg ⟨name, pre ++ value⟩)).bind (runB bufSize tail) := by
  unfold userFieldActs appendChk fieldSeg segStr fieldLine
  by_cases hp : pre.isEmpty = true
  · have : pre = [] := List.isEmpty_iff.mp hp
    subst this
    simp only [List.isEmpty_nil, if_true, List.append_nil, List.cons_append, List.nil_append, runB,
      List.length_append, colonSp, crlf, List.length_cons, List.length_nil, List.append_assoc]
    split
    · rename_i h; rw [if_pos (by omega)]; rfl
    · rename_i h; rw [if_neg (by omega)]; rfl
  · simp only [hp, if_false, if_true, List.cons_append, List.nil_append, runB, Bool.false_eq_true,
      List.length_append, colonSp, crlf, List.length_cons, List.length_nil, List.append_assoc]
    split
    · rename_i h; rw [if_pos (by omega)]; rfl
    · split
      · rename_i h1 h2; rw [if_pos (by omega)]; rfl
      · rename_i h1 h2; rw [if_neg (by omega)]; simp [Option.bind, List.append_assoc]

theorem runB_userLoop (bufSize : Nat) (insanity : Bool) (tail : List Act) : ∀ (hs : List Hdr) (st : UH) (buf : Bytes),
    runB bufSize (userActsLoop true insanity hs st ++ tail) buf =
      (runSegs bufSize ((userFieldsLoop insanity hs st).map fieldSeg) buf).bind (runB bufSize tail) := by
  intro hs
  induction hs with
  | nil => intro st buf; simp [userActsLoop, userFieldsLoop, runSegs]
  | cons h rest ih =>
    intro st buf
    unfold userActsLoop userFieldsLoop
    split
    · exact ih _ _
    · split
      · exact ih _ _
      · split
        · exact ih _ _
        · simp only [List.append_assoc, List.map_cons, runSegs]
          rw [runB_userField]
          cases hc : appendChk bufSize buf (fieldSeg ⟨h.name, (if st.addClose = true then sCloseSep else if st.addKA = true then sKeepAliveSep else []) ++ h.value⟩) with
          | none => rfl
          | some b1 => simp only [Option.bind]; exact ih _ _

/-- with the covering token check, the fine model refuses exactly when C04's `headSegs` model does and builds
    the same bytes -/
theorem headActs_refines (c : Conn) (r : Resp) (rcode : Nat) (icy : Bool) (date : Option Bytes) (ka : KA) (props : Props)
    (bufSize : Nat) :
    runB bufSize (headActs true c r rcode icy date ka props) [] = runSegs bufSize (headSegs c r rcode icy date ka props) [] := by
  have e : headSegs c r rcode icy date ka props =
      preSegs c r rcode icy date ka ++ ((userFields c r ka props).map fieldSeg ++ postSegs r props) := by
    simp [headSegs, preSegs, postSegs, List.append_assoc]
  rw [e]
  unfold headActs userActs userFields
  rw [List.append_assoc, runB_append, runB_segs, runSegs_append]
  cases runSegs bufSize (preSegs c r rcode icy date ka) [] with
  | none => rfl
  | some b1 =>
    simp only [Option.bind]
    rw [runB_userLoop, runSegs_append]
    cases runSegs bufSize _ b1 with
    | none => rfl
    | some b2 => simp only [Option.bind]; exact runB_segs _ _ _

/-! ### footers of a chunked reply (`build_connection_chunked_response_footer`): C04's model checks the whole line before it writes -/

theorem footerLoop_in_bounds (bufSize : Nat) : ∀ (hs : List Hdr) (buf b : Bytes), buf.length ≤ bufSize →
    buildFooterLoop bufSize hs buf = some b → b.length ≤ bufSize := by
  intro hs
  induction hs with
  | nil => intro buf b hb h; simp [buildFooterLoop] at h; subst h; exact hb
  | cons h rest ih =>
    intro buf b hb hr
    unfold buildFooterLoop at hr
    split at hr
    · split at hr
      · simp at hr
      · apply ih _ b _ hr
        simp only [List.length_append, colonSp, crlf, List.length_cons, List.length_nil] at *; omega
    · exact ih _ b hb hr

theorem footer_in_bounds (r : Resp) (bufSize : Nat) (b : Bytes) (h : buildFooter r bufSize = some b) : b.length ≤ bufSize := by
  unfold buildFooter at h
  split at h
  · simp at h
  · split at h
    · simp at h
    · rename_i buf hb
      split at h
      · simp at h
      · injection h with h; subst h
        simp only [List.length_append, crlf, List.length_cons, List.length_nil]; omega

/-! ### without the covering check the builder writes behind the buffer -/

/-- `Connection: xxxxxxxx` + merged `close, ` into a 24-byte buffer: the plain line (22 bytes) fits, the token (7)
    fits at position 12, value and CRLF are then stored up to index 29 -/
theorem merge_without_recheck_overflows :
    (runActs 24 (userFieldActs false sConnection sCloseSep (List.replicate 8 120)) ⟨[], 0⟩).1.hw = 29 ∧
    (runActs 24 (userFieldActs true sConnection sCloseSep (List.replicate 8 120)) ⟨[], 0⟩) = (⟨sConnection ++ colonSp, 12⟩, false) := by
  decide


end Mhd.ReplyBounds
