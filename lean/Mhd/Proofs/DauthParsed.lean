/-
  C12 proofs: what `parse_dauth_params` guarantees for *every* input it accepts (not only for
  grammar-conforming renderings): quoted parameters unquote, the qop constant is the one of the stored
  parameter, qop and algorithm constants are in their ranges.
-/
import Mhd.Proofs.DauthReplay
import Mhd.Proofs.AuthSafe
namespace Mhd.Dauth
open Mhd.Auth Mhd.Gen.Auth Mhd.Gen.Dauth

/-- a value scanned between DQUOTEs consists of complete quoted-pairs: it unquotes -/
theorem scanQ_unquotes (t : Option UInt8) (s : Bytes) (x : Bytes × Bool × Bytes) (h : scanQ t s = .ok x) :
    (unquoteLoop x.1).isSome := by
  fun_induction scanQ t s generalizing x
  all_goals first
    | (simp at h; done)
    | (rw [Res.map_eq_ok] at h; obtain ⟨a, ha, rfl⟩ := h; rename_i ih; have := ih a ha
       obtain ⟨v, hv⟩ := Option.isSome_iff_exists.mp this
       rw [unquoteLoop.eq_def]
       simp [hv, *])
    | (simp at h; subst h; simp [unquoteLoop])

theorem valueAt_unquotes (t : Option UInt8) (s : Bytes) (x : Nat × Bytes × Bool × Bytes) (h : valueAt t s = .ok x)
    (hq : x.2.2.1 = true) : (unquoteLoop x.2.1).isSome := by
  unfold valueAt at h
  have htok : ∀ y, (scanTok t s).map (fun x => (s.length, x.1, false, x.2)) = .ok y → y.2.2.1 = true → False := by
    intro y hy hq'
    rw [Res.map_eq_ok] at hy
    obtain ⟨a, _, rfl⟩ := hy
    simp at hq'
  cases s with
  | nil => exact (htok x h hq).elim
  | cons c r =>
    simp only at h
    split at h
    · rw [Res.map_eq_ok] at h
      obtain ⟨a, ha, rfl⟩ := h
      exact scanQ_unquotes t r a ha
    · exact (htok x h hq).elim

theorem knownValue_unquotes (t : Option UInt8) (s : Bytes) (x : Nat × Bytes × Bool × Bytes) (h : knownValue t s = .ok x)
    (hq : x.2.2.1 = true) : (unquoteLoop x.2.1).isSome := by
  unfold knownValue at h
  split at h
  · simp at h
  · split at h
    · simp at h
    · rw [Res.bind_eq_ok] at h
      obtain ⟨a, ha, hb⟩ := h
      split at hb
      · simp at hb; subst hb; exact valueAt_unquotes t _ a ha hq
      · simp at hb

/-- all stored parameters unquote -/
def SlotsWQ (st : Slots) : Prop := ∀ k p, st k = some p → p.quoted = true → (unquoteLoop p.raw).isSome

theorem slotsWQ_set (st : Slots) (k : Nat) (p : Param) (h : SlotsWQ st) (hp : p.quoted = true → (unquoteLoop p.raw).isSome) :
    SlotsWQ (st.set k p) := by
  intro j q hj hq
  unfold Slots.set at hj
  split at hj
  · injection hj with hj; subst hj; exact hp hq
  · exact h j q hj hq

theorem paramLoop_wq (t : Option UInt8) (n fuel : Nat) :
    ∀ (st : Slots) (inp : Bytes) (st' : Slots), SlotsWQ st → paramLoop t n fuel st inp = .ok st' → SlotsWQ st' := by
  induction fuel with
  | zero => intro st inp st' _ h; simp [paramLoop] at h
  | succ f ih =>
    intro st inp st' hst h
    cases inp with
    | nil => rw [paramLoop.eq_2] at h; injection h with h; subst h; exact hst
    | cons c r =>
      rw [paramLoop.eq_3] at h
      split at h
      · cases h
      · split at h
        · rw [Res.bind_eq_ok] at h
          obtain ⟨a, ha, hb⟩ := h
          exact ih _ _ _ (slotsWQ_set st _ _ hst (fun hq => knownValue_unquotes t _ a ha hq)) hb
        · rw [Res.bind_eq_ok] at h
          obtain ⟨r6, _, hb⟩ := h
          exact ih _ _ _ hst hb

/-- every result of `parse_dauth_params` has the properties the theorems of C12 assume -/
theorem parseDigest_props (s : Bytes) (t : Option UInt8) (d : DAuth) (h : parseDigest s t = .ok d) :
    WQ d ∧ QopParsed d := by
  unfold parseDigest at h
  rw [Res.map_eq_ok] at h
  obtain ⟨st, hst, rfl⟩ := h
  exact ⟨paramLoop_wq t _ _ _ _ st (fun _ _ h => by simp [Slots.empty] at h) hst, rfl⟩

theorem qopOf_range (p : Option Param) :
    qopOf p = qopInvalid ∨ qopOf p = qopNone ∨ qopOf p = qopAuth ∨ qopOf p = qopAuthInt := by
  have hc : ∀ (eq : Bytes → Bool) (l : List (Bytes × Nat)), (∀ x ∈ l, x.2 = qopAuth ∨ x.2 = qopAuthInt) →
      chainFind eq l qopNoMatch = qopInvalid ∨ chainFind eq l qopNoMatch = qopAuth ∨ chainFind eq l qopNoMatch = qopAuthInt := by
    intro eq l
    induction l with
    | nil => intro _; left; rfl
    | cons x t ih =>
      intro hx
      obtain ⟨tok, c⟩ := x
      simp only [chainFind]
      split
      · rcases hx (tok, c) (by simp) with h | h
        · right; left; exact h
        · right; right; exact h
      · exact ih (fun y hy => hx y (by simp [hy]))
  cases p with
  | none => right; left; rfl
  | some p =>
    simp only [qopOf]
    by_cases hq : p.quoted = true
    · rw [if_pos hq]
      rcases hc (fun tok => eqQuotedCl p.raw tok) qopQuotedChain (by decide) with h | h | h
      · left; exact h
      · right; right; left; exact h
      · right; right; right; exact h
    · rw [if_neg hq]
      rcases hc (fun tok => eqClS tok p.raw) qopTokenChain (by decide) with h | h | h
      · left; exact h
      · right; right; left; exact h
      · right; right; right; exact h

theorem getParams_props (r : Req) (d : DAuth) (h : getParams r = .ok (some d)) :
    WQ d ∧ QopParsed d ∧ QopRange (semOf d) := by
  unfold getParams at h
  split at h
  · cases h
  · rename_i av _
    split at h
    · rename_i d' hp
      injection h with h; injection h with h; subst h
      obtain ⟨h1, h2⟩ := parseDigest_props _ _ _ hp
      refine ⟨h1, h2, ?_⟩
      unfold QopRange semOf
      simp only
      rw [h2]
      exact qopOf_range _
    · cases h
    · cases h

end Mhd.Dauth
