/-
  Completeness of the timeout scans: an expired connection is closed by the scan that visits it, and
  — because the default-timeout list is ordered by last activity — the epoll loop's
  "stop at the first connection that is not expired" scan does visit every expired connection.
-/
import Mhd.Proofs.TmoApi
namespace Mhd.Tmo
open Mhd.Gen.Tmo

theorem seq2_events (a : Daemon × List Event) (f : Daemon → Daemon × List Event) :
    (seq2 a f).2 = a.2 ++ (f a.1).2 := rfl

theorem idleCheck_closes {d : Daemon} {i : Id} (ht : checkTimedOut d.now (d.c i) = true) :
    Event.tmoClose i (d.c i).aware ∈ (idleCheck d i).2 ∧ ((idleCheck d i).1.c i).closed = true := by
  unfold idleCheck
  simp [ht]

theorem handleIdle_closes {d : Daemon} {i : Id} (hc : (d.c i).closed = false)
    (ht : checkTimedOut d.now (d.c i) = true) :
    Event.tmoClose i (d.c i).aware ∈ (handleIdle d i).2 := by
  unfold handleIdle
  simp only [hc, Bool.false_eq_true, if_false]
  exact (idleCheck_closes ht).1

theorem cleanupConnection_closed (d : Daemon) (i : Id) : ((cleanupConnection d i).c i).closed = (d.c i).closed := by
  unfold cleanupConnection Daemon.remTimeout Daemon.remNormal Daemon.remManual Daemon.remConns Daemon.remSusp
  dsimp only
  repeat' split
  all_goals simp

/-- a connection that is closed or expired is in state CLOSED after `handleIdle` -/
theorem handleIdle_closed_after {d : Daemon} {j : Id}
    (h : (d.c j).closed = true ∨ checkTimedOut d.now (d.c j) = true) : ((handleIdle d j).1.c j).closed = true := by
  unfold handleIdle
  by_cases hc : (d.c j).closed = true
  · simp only [hc, if_true]; rw [cleanupConnection_closed]; exact hc
  · simp only [hc, Bool.false_eq_true, if_false]
    rcases h with x | x
    · exact absurd x hc
    · exact (idleCheck_closes x).2

theorem checkTimedOut_congr {now : Nat} {c c' : Conn} (h1 : c'.la = c.la) (h2 : c'.tmo = c.tmo)
    (h3 : c'.suspended = c.suspended) : checkTimedOut now c' = checkTimedOut now c := by
  unfold checkTimedOut; rw [h1, h2, h3]

theorem handleIdleP_closes {d : Daemon} {i : Id} (hc : (d.c i).closed = false)
    (ht : checkTimedOut d.now (d.c i) = true) :
    Event.tmoClose i (d.c i).aware ∈ (handleIdleP d i).2 := by
  unfold handleIdleP
  have s := procBuf_same d i
  have := handleIdle_closes (d := procBuf d i) (i := i) (by rw [s.2.2.2.1]; exact hc)
    (by rw [s.2.2.1, checkTimedOut_congr s.2.2.2.2.2.1 s.2.2.2.2.2.2.1 s.2.2.2.2.1]; exact ht)
  rw [s.2.2.2.2.2.2.2] at this; exact this

theorem handleIdleP_closed_after {d : Daemon} {j : Id}
    (h : (d.c j).closed = true ∨ checkTimedOut d.now (d.c j) = true) : ((handleIdleP d j).1.c j).closed = true := by
  unfold handleIdleP
  have s := procBuf_same d j
  apply handleIdle_closed_after
  rw [s.2.2.2.1, s.2.2.1, checkTimedOut_congr s.2.2.2.2.2.1 s.2.2.2.2.2.2.1 s.2.2.2.2.1]; exact h

/-- the manual-list scan visits everything: whatever is expired gets closed -/
theorem scanManual_complete : ∀ (l : List Id) (d : Daemon) (i : Id), l.Nodup → i ∈ l →
    (d.c i).closed = false → checkTimedOut d.now (d.c i) = true →
    Event.tmoClose i (d.c i).aware ∈ (scanManual l d).2
  | [], _, _, _, hi, _, _ => absurd hi List.not_mem_nil
  | j :: rest, d, i, hnd, hi, hc, ht => by
    unfold scanManual
    rw [seq2_events]
    have hnd' := List.nodup_cons.1 hnd
    rcases List.mem_cons.1 hi with e | e
    · subst e
      exact List.mem_append_left _ (handleIdleP_closes hc ht)
    · have hij : i ≠ j := fun x => hnd'.1 (x ▸ e)
      have o := others_handleIdleP d j
      have hrec : (handleIdleP d j).1.c i = d.c i := (o.2.2.2.2 i hij).2.2.2
      have hnow : (handleIdleP d j).1.now = d.now := o.2.2.2.1.1
      have := scanManual_complete rest (handleIdleP d j).1 i hnd'.2 e (by rw [hrec]; exact hc)
        (by rw [hrec, hnow]; exact ht)
      rw [hrec] at this
      exact List.mem_append_right _ this

/-- the normal-list scan reaches `i` when everything scanned before it is closed or expired -/
theorem scanNormal_reaches : ∀ (l1 : List Id) (l2 : List Id) (d : Daemon) (i : Id), (l1 ++ i :: l2).Nodup →
    (∀ j, j ∈ l1 → (d.c j).closed = true ∨ checkTimedOut d.now (d.c j) = true) →
    (d.c i).closed = false → checkTimedOut d.now (d.c i) = true →
    Event.tmoClose i (d.c i).aware ∈ (scanNormal (l1 ++ i :: l2) d).2
  | [], l2, d, i, _, _, hc, ht => by
    simp only [List.nil_append]
    unfold scanNormal
    dsimp only
    split
    · rw [seq2_events]; exact List.mem_append_left _ (handleIdleP_closes hc ht)
    · exact handleIdleP_closes hc ht
  | j :: l1, l2, d, i, hnd, hall, hc, ht => by
    simp only [List.cons_append]
    unfold scanNormal
    dsimp only
    have hj := hall j (List.mem_cons_self ..)
    have hcl := handleIdleP_closed_after hj
    simp only [hcl, if_true]
    rw [seq2_events]
    have hnd' : j ∉ l1 ++ i :: l2 ∧ (l1 ++ i :: l2).Nodup := List.nodup_cons.1 hnd
    have hij : i ≠ j := fun x => hnd'.1 (x ▸ (List.mem_append_right _ (List.mem_cons_self ..)))
    have o := others_handleIdleP d j
    have hnow : (handleIdleP d j).1.now = d.now := o.2.2.2.1.1
    have hrec : (handleIdleP d j).1.c i = d.c i := (o.2.2.2.2 i hij).2.2.2
    have := scanNormal_reaches l1 l2 (handleIdleP d j).1 i hnd'.2 (by
        intro k hk
        have hkj : k ≠ j := fun x => hnd'.1 (x ▸ (List.mem_append_left _ hk))
        rw [(o.2.2.2.2 k hkj).2.2.2, hnow]
        exact hall k (List.mem_cons_of_mem _ hk))
      (by rw [hrec]; exact hc) (by rw [hrec, hnow]; exact ht)
    rw [hrec] at this
    exact List.mem_append_right _ this

/-- **Completeness of the epoll scan of the default-timeout list.**  In a state satisfying the
    invariant (in particular: list sorted), an expired connection of the normal list is closed by the
    scan although the scan stops at the first connection that is not expired. -/
theorem scanNormal_complete {d : Daemon} (h : Inv d) (hnow : d.now < 2 ^ 62) (hback : d.back ≤ jumpBackLimit)
    (i : Id) (hi : i ∈ d.normal)
    (hc : (d.c i).closed = false) (ht : checkTimedOut d.now (d.c i) = true) :
    Event.tmoClose i (d.c i).aware ∈ (scanNormal d.normal.reverse d).2 := by
  obtain ⟨l2r, l1r, hsplit⟩ := List.append_of_mem hi
  have hrev : d.normal.reverse = l1r.reverse ++ i :: l2r.reverse := by
    rw [hsplit]; simp
  rw [hrev]
  have hT : ∀ j, (d.c j).tmo < 2 ^ 63 := fun j => by
    have := h.tmoB j; simp only [tmoMax, msPerSec] at this; omega
  have hL : ∀ j, (d.c j).la ≤ d.now + jumpBackLimit := fun j => by have := h.laLe j; omega
  have hti := (checkTimedOut_iff_jump d.now (d.c i) (hL i) hnow (hT i)).1 ht
  have hd0 : d.cfg.dtmo ≠ 0 := by rw [← h.normalT i hi]; exact hti.2.1
  have hso := h.sorted hd0
  rw [hsplit] at hso
  have hafter : ∀ j, j ∈ l1r → (d.c j).la ≤ (d.c i).la := by
    intro j hj
    have := (List.pairwise_append.1 hso).2.1
    exact (List.pairwise_cons.1 this).1 j hj
  refine scanNormal_reaches l1r.reverse l2r.reverse d i ?_ ?_ hc ht
  · rw [← hrev]; exact nodup_reverse' h.ndNormal
  · intro j hj
    have hj' : j ∈ l1r := List.mem_reverse.1 hj
    have hjn : j ∈ d.normal := by rw [hsplit]; exact List.mem_append_right _ (List.mem_cons_of_mem _ hj')
    right
    refine (checkTimedOut_iff_jump d.now (d.c j) (hL j) hnow (hT j)).2 ⟨?_, ?_, ?_⟩
    · exact h.connsS j ((h.connsIff j).2 (Or.inl hjn))
    · rw [h.normalT j hjn]; exact hd0
    · have := hafter j hj'
      have t1 := h.normalT j hjn; have t2 := h.normalT i hi
      have := hti.2.2
      omega

/-- the select loop visits every connection of a round in which no socket is readable and no cleanup
    is outstanding: whatever is expired gets closed (with `savePrev` the side condition is not needed
    for the traversal to go on; this version holds for both settings of the flag) -/
theorem travSel_complete (v : Variant) (rs : List Id) : ∀ (l : List Id) (d : Daemon) (i : Id), l.Nodup → i ∈ l →
    (∀ j, j ∈ l → j ∈ d.conns ∧ (d.c j).closed = false ∧ rs.contains j = false ∧ (d.c j).replying = false) →
    checkTimedOut d.now (d.c i) = true →
    Event.tmoClose i (d.c i).aware ∈ (travSel v rs l d).2
  | [], _, _, _, hi, _, _ => absurd hi List.not_mem_nil
  | j :: rest, d, i, hnd, hi, hall, ht => by
    unfold travSel
    dsimp only
    have hj := hall j (List.mem_cons_self ..)
    have hnr : j ∉ rs := by
      have := hj.2.2.1
      intro hm; rw [List.contains_iff_mem.2 hm] at this; cases this
    have hcall0 : callHandlersSel0 v d j (rs.contains j) = handleIdleP d j := by
      unfold callHandlersSel0
      simp [hj.2.1, hnr, hj.2.2.2]
    have sP := procBuf_same d j
    have hidle : handleIdleP d j = idleCheck (procBuf d j) j := by
      unfold handleIdleP handleIdle
      simp [sP.2.2.2.1, hj.2.1]
    have hev : (callHandlersSel v d j (rs.contains j)).2 = (handleIdleP d j).2 := by
      unfold callHandlersSel; rw [hcall0]
    have hconns : j ∈ (callHandlersSel v d j (rs.contains j)).1.conns := by
      unfold callHandlersSel
      dsimp only
      rw [notePending_eq, hcall0, hidle]
      show j ∈ (idleCheck (procBuf d j) j).1.conns
      rw [(idleCheck_conns _ j).1, sP.1]; exact hj.1
    have hnd' := List.nodup_cons.1 hnd
    have hstay : ¬ (v.savePrev = false ∧ j ∉ (callHandlersSel v d j (rs.contains j)).1.conns) := fun x => x.2 hconns
    simp only [hstay, if_false]
    rw [seq2_events]
    rcases List.mem_cons.1 hi with e | e
    · subst e; rw [hev]; exact List.mem_append_left _ (handleIdleP_closes hj.2.1 ht)
    · have hij : i ≠ j := fun x => hnd'.1 (x ▸ e)
      have o := others_callHandlersSel v d j (rs.contains j)
      have hnow : (callHandlersSel v d j (rs.contains j)).1.now = d.now := o.2.2.2.1.1
      have hrec : (callHandlersSel v d j (rs.contains j)).1.c i = d.c i := (o.2.2.2.2 i hij).2.2.2
      have := travSel_complete v rs rest (callHandlersSel v d j (rs.contains j)).1 i hnd'.2 e (by
          intro k hk
          have hkj : k ≠ j := fun x => hnd'.1 (x ▸ hk)
          have hk' := hall k (List.mem_cons_of_mem _ hk)
          rw [(o.2.2.2.2 k hkj).2.2.2]
          exact ⟨((o.2.2.2.2 k hkj).1).2 hk'.1, hk'.2.1, hk'.2.2.1, hk'.2.2.2⟩)
        (by rw [hrec, hnow]; exact ht)
      rw [hrec] at this
      exact List.mem_append_right _ this

end Mhd.Tmo
