/-
  Specification vocabulary over event logs for C20, with the append lemmas used by the
  invariant proofs.
-/
import Mhd.Model.UpgDaemon

namespace Mhd.Upg

/-- some `upgrade` event occurs in the log -/
def hasUpg (l : List Ev) : Bool := l.any Ev.isUpgrade

/-- no daemon I/O event (recv / send / shutdown on the socket) after an `upgrade` event;
    `seen`: an upgrade event has already been passed -/
def okLog : Bool → List Ev → Bool
  | _, [] => true
  | seen, e :: l => if seen && e.isIo then false else okLog (seen || e.isUpgrade) l

/-- bytes handed to the application according to the log: extra data, then its own reads -/
def handedOf : List Ev → Bytes
  | [] => []
  | .upgrade _ extra :: l => extra ++ handedOf l
  | .appRecv bs :: l => bs ++ handedOf l
  | _ :: l => handedOf l

/-- bytes the daemon wrote to the client according to the log -/
def daemonWire : List Ev → Bytes
  | [] => []
  | .ioSend bs :: l => bs ++ daemonWire l
  | _ :: l => daemonWire l

def cnt (p : Ev → Bool) (l : List Ev) : Nat := l.countP p

def Ev.isStart : Ev → Bool | .start => true | _ => false
def Ev.isConnClose : Ev → Bool | .connClose => true | _ => false
def Ev.isSockClose : Ev → Bool | .sockClose => true | _ => false
def Ev.isCompleted (r : Nat) : Ev → Bool | .completed r' _ => r' == r | _ => false
def Ev.isHandler (r : Nat) : Ev → Bool | .handler r' _ => r' == r | _ => false

@[simp] theorem hasUpg_nil : hasUpg [] = false := rfl
@[simp] theorem hasUpg_append (a b : List Ev) : hasUpg (a ++ b) = (hasUpg a || hasUpg b) := by
  simp [hasUpg]
@[simp] theorem hasUpg_single (e : Ev) : hasUpg [e] = e.isUpgrade := by simp [hasUpg]
@[simp] theorem hasUpg_cons (e : Ev) (l : List Ev) : hasUpg (e :: l) = (e.isUpgrade || hasUpg l) := by simp [hasUpg]

theorem okLog_true_of (l : List Ev) (h : ∀ e ∈ l, e.isIo = false) (b : Bool) : okLog b l = true := by
  induction l generalizing b with
  | nil => rfl
  | cons e l ih =>
    have he := h e (by simp)
    simp only [okLog, he, Bool.and_false]
    exact ih (fun e' h' => h e' (by simp [h'])) _

theorem okLog_append (b : Bool) (a c : List Ev) :
    okLog b (a ++ c) = (okLog b a && okLog (b || hasUpg a) c) := by
  induction a generalizing b with
  | nil => simp [okLog]
  | cons e a ih =>
    simp only [List.cons_append, okLog]
    by_cases hb : (b && e.isIo) = true
    · simp [hb]
    · simp only [hb]
      rw [ih]
      simp [hasUpg, Bool.or_assoc]

theorem okLog_true_imp_false (l : List Ev) (h : okLog true l = true) : okLog false l = true := by
  induction l with
  | nil => rfl
  | cons e l ih =>
    simp only [okLog, Bool.true_and, Bool.true_or, Bool.false_and, Bool.false_or] at *
    by_cases he : e.isIo = true
    · simp [he] at h
    · simp only [he] at h
      by_cases hu : e.isUpgrade = true
      · simpa [hu] using h
      · have : e.isUpgrade = false := by simpa using hu
        rw [this]; exact ih h

@[simp] theorem okLog_single (b : Bool) (e : Ev) : okLog b [e] = !(b && e.isIo) := by
  simp [okLog]

@[simp] theorem handedOf_nil : handedOf [] = [] := rfl
theorem handedOf_append (a b : List Ev) : handedOf (a ++ b) = handedOf a ++ handedOf b := by
  induction a with
  | nil => rfl
  | cons e a ih => cases e <;> simp [handedOf, ih]

theorem daemonWire_append (a b : List Ev) : daemonWire (a ++ b) = daemonWire a ++ daemonWire b := by
  induction a with
  | nil => rfl
  | cons e a ih => cases e <;> simp [daemonWire, ih]

@[simp] theorem cnt_nil (p : Ev → Bool) : cnt p [] = 0 := rfl
@[simp] theorem cnt_append (p : Ev → Bool) (a b : List Ev) : cnt p (a ++ b) = cnt p a + cnt p b := by
  simp [cnt]
@[simp] theorem cnt_single (p : Ev → Bool) (e : Ev) : cnt p [e] = if p e then 1 else 0 := by
  simp [cnt, List.countP_cons]

/-- no daemon I/O in a list of events -/
def noIo (l : List Ev) : Prop := ∀ e ∈ l, e.isIo = false

end Mhd.Upg
