/-
  C07 — try_ready_normal_body and the NORMAL_BODY_READY branch of MHD_connection_handle_write
  preserve the invariant.
-/
import Mhd.Proofs.SendWrite
namespace Mhd.Send
open Mhd.Gen.Send

def isNb (s : St) : Prop := s = .normalBodyReady ∨ s = .normalBodyUnready

theorem isNb.ne_closed {s : St} (h : isNb s) : s ≠ .closed := by
  intro e; rw [e] at h; rcases h with x | x <;> cases x

theorem isNb.not_wb {s : St} (h : isNb s) : ¬ isWbState s := by
  intro x; rcases h with e | e <;> rw [e] at x <;> rcases x with x | x | x <;> cases x

theorem pending_nb {r : Resp} {c : Conn} (h : isNb c.st) : pending r c = r.body.drop c.rp := by
  rcases h with e | e <;> simp only [pending, e]

/-- in the normal-body states only `out` and `rp` matter for the stream equation -/
theorem Inv.nb_update {r : Resp} {c c' : Conn} (h : Inv r c) (hst : isNb c.st) (hst' : isNb c'.st)
    (ho : c'.out = c.out) (hrp : c'.rp = c.rp) (hf : c'.fault = false) (hc : Core r c') : Inv r c' := by
  refine ⟨hf, fun _ => hc, ?_, ?_, ?_, ?_, ?_⟩
  · intro _; rw [pending_nb hst', ho, hrp, ← pending_nb hst]; exact h.eqn hst.ne_closed
  · rw [ho]; exact h.pfx
  · intro x; exact absurd x hst'.not_wb
  · intro _; exact h.stBody (by rcases hst with e | e; exact Or.inr e; exact Or.inl e)
  · intro x; rcases hst' with e | e <;> rw [e] at x <;> rcases x with x | x | x | x <;> cases x

/-- what `try_ready_normal_body` returning MHD_YES has established for the sender that follows -/
def BodyReady (r : Resp) (c : Conn) : Prop :=
  c.rp < c.tot → (c.sf = true ∨ (r.kind = .iovec ∧ c.iovSet = true) ∨
                  (r.kind ≠ .iovec ∧ c.ds ≤ c.rp ∧ c.rp < c.ds + c.dz))

theorem readerGives_data {body : Bytes} {cbMax pos max n : Nat} (h : readerGives body cbMax pos max = .data n) :
    pos < body.length ∧ n ≤ body.length - pos ∧ n ≤ max := by
  unfold readerGives at h
  split at h
  · cases h
  · rename_i hlt
    simp only [CbRes.data.injEq] at h
    subst h
    refine ⟨by omega, ?_, ?_⟩ <;> (unfold capMax; split <;> omega)

theorem readerGives_eos {body : Bytes} {cbMax pos max : Nat} (h : readerGives body cbMax pos max = .eos) : body.length ≤ pos := by
  unfold readerGives at h
  split at h
  · assumption
  · cases h

theorem crcCall_data {r : Resp} {pos max n : Nat} {app : AppAns} (h : crcCall r pos max app = .data n) (hn : n ≠ 0) :
    pos < r.body.length ∧ n ≤ r.body.length - pos ∧ n ≤ max := by
  unfold crcCall at h
  split at h
  · split at h
    · cases h
    · simp only [CbRes.data.injEq] at h; exact absurd h.symm hn
    · exact readerGives_data h
  · exact readerGives_data h

theorem crcCall_eos {r : Resp} {pos max : Nat} {app : AppAns} (h : crcCall r pos max app = .eos) : r.body.length ≤ pos := by
  unfold crcCall at h
  split at h
  · split at h
    · cases h
    · cases h
    · exact readerGives_eos h
  · exact readerGives_eos h

theorem tryReady_spec {r : Resp} {c : Conn} (hw : WF r) (h : Inv r c) (hst : isNb c.st) (app : AppAns) (alloc : Bool)
    (c' : Conn) (ok : Bool) (hres : tryReadyNormalBody r c app alloc = (c', ok)) :
    Inv r c' ∧
    (ok = true → c'.st = c.st ∧ c'.out = c.out ∧ c'.rp = c.rp ∧ c'.tot = c.tot ∧ c'.sf = c.sf ∧ BodyReady r c') ∧
    (ok = false → c'.st = .closed ∨ c'.st = .done ∨ c'.st = .normalBodyUnready) := by
  have hcore := h.core hst.ne_closed
  obtain ⟨hsb, hnc⟩ := h.stBody (by rcases hst with e | e; exact Or.inr e; exact Or.inl e)
  have hrp := hcore.rpLe hsb
  have heq := h.eqn hst.ne_closed
  rw [pending_nb hst] at heq
  unfold tryReadyNormalBody at hres
  split at hres
  · -- 0-byte response or everything sent
    rename_i h0
    simp only [Prod.mk.injEq] at hres; obtain ⟨rfl, rfl⟩ := hres
    refine ⟨h, fun _ => ⟨rfl, rfl, rfl, rfl, rfl, ?_⟩, fun x => by cases x⟩
    intro hlt; rcases h0 with h0 | h0 <;> omega
  · rename_i h0
    split at hres
    · rename_i hk
      split at hres
      · rename_i hset
        simp only [Prod.mk.injEq] at hres; obtain ⟨rfl, rfl⟩ := hres
        refine ⟨h, fun _ => ⟨rfl, rfl, rfl, rfl, rfl, fun _ => Or.inr (Or.inl ⟨hk, hset⟩)⟩, fun x => by cases x⟩
      · rename_i hset
        split at hres
        · -- the iovec is copied into the connection's pool
          simp only [Prod.mk.injEq] at hres; obtain ⟨rfl, rfl⟩ := hres
          have hio := hcore.iovOk hk hsb
          rw [if_neg hset] at hio
          refine ⟨?_, fun _ => ⟨rfl, rfl, rfl, rfl, rfl, fun _ => Or.inr (Or.inl ⟨hk, rfl⟩)⟩, fun x => by cases x⟩
          refine Inv.nb_update h hst (by exact hst) rfl rfl h.nofault ?_
          refine ⟨hcore.rpLe, hcore.win, ?_, hcore.tot, hcore.sfOk, hcore.winChunk, hw.iov_ne, hcore.sfWin⟩
          intro _ _
          simp only [if_true]
          rw [hw.iov_body hk, hio, List.drop_zero]
        · -- not enough memory
          simp only [Prod.mk.injEq] at hres; obtain ⟨rfl, rfl⟩ := hres
          refine ⟨Inv.closed h.nofault rfl h.pfx, (fun x => by cases x), fun _ => Or.inl rfl⟩
    · rename_i hk
      split at hres
      · rename_i hkb
        simp only [Prod.mk.injEq] at hres; obtain ⟨rfl, rfl⟩ := hres
        refine ⟨h, fun _ => ⟨rfl, rfl, rfl, rfl, rfl, ?_⟩, fun x => by cases x⟩
        intro hlt
        have hwin := hcore.win
        rw [if_pos hkb] at hwin
        have ht := hcore.tot
        unfold TotOk at ht
        rw [if_pos (hw.known (Or.inl hkb))] at ht
        exact Or.inr (Or.inr ⟨hk, by omega, by omega⟩)
      · rename_i hkb
        split at hres
        · rename_i hwin
          simp only [Prod.mk.injEq] at hres; obtain ⟨rfl, rfl⟩ := hres
          refine ⟨h, fun _ => ⟨rfl, rfl, rfl, rfl, rfl, fun _ => Or.inr (Or.inr ⟨hk, hwin.1, by omega⟩)⟩, fun x => by cases x⟩
        · rename_i hwin
          split at hres
          · rename_i hsf
            simp only [Prod.mk.injEq] at hres; obtain ⟨rfl, rfl⟩ := hres
            refine ⟨h, fun _ => ⟨rfl, rfl, rfl, rfl, rfl, fun _ => Or.inl hsf⟩, fun x => by cases x⟩
          · rename_i hsf
            -- the content reader is called
            split at hres
            · -- error
              simp only [Prod.mk.injEq] at hres; obtain ⟨rfl, rfl⟩ := hres
              refine ⟨Inv.closed h.nofault rfl h.pfx, (fun x => by cases x), fun _ => Or.inl rfl⟩
            · -- end of stream
              rename_i hcrc
              simp only [Prod.mk.injEq] at hres; obtain ⟨rfl, rfl⟩ := hres
              have hend := crcCall_eos hcrc
              have hrpe : c.rp = r.body.length := by omega
              refine ⟨?_, (fun x => by cases x), fun _ => Or.inr (Or.inl rfl)⟩
              have hdrop : r.body.drop c.rp = [] := List.drop_eq_nil_of_le hend
              rw [hdrop, List.append_nil] at heq
              refine ⟨h.nofault, fun _ => ?_, ?_, ?_, ?_, ?_, ?_⟩
              · refine ⟨hcore.rpLe, hcore.win, hcore.iovOk, ?_, hcore.sfOk, hcore.winChunk, hcore.iovNe, hcore.sfWin⟩
                have ht := hcore.tot
                unfold TotOk at ht ⊢
                split
                · show c.rp = r.body.length; exact hrpe
                · exact Or.inr ⟨hrpe, hrpe⟩
              · intro _; simp only [closeOk, pending, List.append_nil]; exact heq
              · exact h.pfx
              · intro x; simp only [closeOk] at x; rcases x with x | x | x <;> cases x
              · intro x; simp only [closeOk] at x; rcases x with x | x <;> cases x
              · intro x; simp only [closeOk] at x; rcases x with x | x | x | x <;> cases x
            · -- not ready
              simp only [Prod.mk.injEq] at hres; obtain ⟨rfl, rfl⟩ := hres
              refine ⟨?_, (fun x => by cases x), fun _ => Or.inr (Or.inr rfl)⟩
              refine Inv.nb_update h hst (Or.inr rfl) rfl rfl h.nofault ?_
              refine ⟨hcore.rpLe, ?_, hcore.iovOk, hcore.tot, hcore.sfOk, (fun hch => by rw [hnc] at hch; cases hch), hcore.iovNe, fun x => absurd x hsf⟩
              rw [if_neg hkb]; show c.rp + 0 ≤ r.body.length; omega
            · -- data
              rename_i n hn0 hcrc
              simp only [Prod.mk.injEq] at hres; obtain ⟨rfl, rfl⟩ := hres
              have hne : n ≠ 0 := by intro e; exact hn0 (by rw [e])
              have hd := crcCall_data hcrc hne
              refine ⟨?_, fun _ => ⟨rfl, rfl, rfl, rfl, rfl, fun _ => Or.inr (Or.inr ⟨hk, Nat.le_refl _, by show c.rp < c.rp + n; omega⟩)⟩, fun x => by cases x⟩
              refine Inv.nb_update h hst (by exact hst) rfl rfl h.nofault ?_
              refine ⟨hcore.rpLe, ?_, hcore.iovOk, hcore.tot, hcore.sfOk, (fun hch => by rw [hnc] at hch; cases hch), hcore.iovNe, fun x => absurd x hsf⟩
              rw [if_neg hkb]; show c.rp + n ≤ r.body.length; omega


theorem prefix_take_eq {X Y : List α} (h : X <+: Y) (n : Nat) (hn : n ≤ X.length) : X.take n = Y.take n := by
  obtain ⟨t, rfl⟩ := h
  have e : n - X.length = 0 := by omega
  rw [List.take_append, e, List.take_zero, List.append_nil]

/-- `n` more body bytes went out: advance the position, then the `rp == total_size` check -/
theorem nb_ok_step {r : Resp} {c c2 : Conn} (hw : WF r) (h : Inv r c) (hst : isNb c.st) (n : Nat)
    (_hn : n ≤ r.body.length - c.rp)
    (hout : c2.out = c.out ++ (r.body.drop c.rp).take n) (hrp : c2.rp = c.rp + n) (hs2 : c2.st = c.st)
    (hf : c2.fault = false) (hc : Core r c2) :
    Inv r (if c2.rp = c2.tot then { c2 with st := .fullReplySent } else c2) := by
  obtain ⟨hsb, hnc⟩ := h.stBody (by rcases hst with e | e; exact Or.inr e; exact Or.inl e)
  have heq := h.eqn hst.ne_closed
  rw [pending_nb hst] at heq
  have hst2 : isNb c2.st := by rw [hs2]; exact hst
  have key : c2.out ++ r.body.drop c2.rp = stream r := by
    rw [hout, hrp, List.append_assoc, take_append_drop_add]; exact heq
  split
  · rename_i he
    have hend := tot_eq_rp_end hw hc hsb he.symm
    have hdrop : r.body.drop c2.rp = [] := List.drop_eq_nil_of_le hend
    rw [hdrop, List.append_nil] at key
    refine ⟨hf, fun _ => hc.congr rfl rfl rfl rfl rfl rfl, ?_, ⟨[], by rw [List.append_nil]; exact key⟩, ?_, ?_, ?_⟩
    · intro _; simp only [pending, List.append_nil]; exact key
    · intro x; rcases x with x | x | x <;> cases x
    · intro x; rcases x with x | x <;> cases x
    · intro x; rcases x with x | x | x | x <;> cases x
  · refine ⟨hf, fun _ => hc, ?_, ⟨_, key⟩, ?_, ?_, ?_⟩
    · intro _; rw [pending_nb hst2]; exact key
    · intro x; exact absurd x hst2.not_wb
    · intro _; exact ⟨hsb, hnc⟩
    · intro x; rcases hst2 with e | e <;> rw [e] at x <;> rcases x with x | x | x | x <;> cases x

/-- a sender that was offered a prefix `X` of the unsent body -/
theorem nb_wire {r : Resp} {c : Conn} {o : SendOut} {X : Bytes} (hX : X <+: r.body.drop c.rp) (hspec : SendSpec o X) :
    (∀ n, o.ret = .ok n → n ≤ r.body.length - c.rp ∧ o.wire = (r.body.drop c.rp).take n) ∧
    (∀ e, o.ret = .error e → o.wire <+: r.body.drop c.rp) := by
  constructor
  · intro n hn
    obtain ⟨h1, h2⟩ := hspec.ok n hn
    have hl : X.length ≤ r.body.length - c.rp := by
      have := hX.length_le; simpa using this
    exact ⟨by omega, by rw [h2]; exact prefix_take_eq hX n h1⟩
  · intro e he; exact List.IsPrefix.trans (hspec.err e he) hX

theorem nb_err_step {r : Resp} {c c2 : Conn} (h : Inv r c) (hst : isNb c.st) (wire : Bytes)
    (hw : wire <+: r.body.drop c.rp) (hout : c2.out = c.out ++ wire) (hf : c2.fault = false) (hs2 : c2.st = .closed) :
    Inv r c2 := by
  have heq := h.eqn hst.ne_closed
  rw [pending_nb hst] at heq
  exact Inv.closed hf hs2 (by rw [hout]; exact prefix_append_of_prefix heq hw)

theorem spec_fail (e : Err) (X : Bytes) : SendSpec (SendOut.fail e) X := by
  refine ⟨?_, ?_, ?_⟩
  · intro n hn; cases hn
  · intro _; rfl
  · intro _ _; exact List.nil_prefix

theorem sendSendfile_spec (t : Bool) (file : Bytes) (fdOff pos total : Nat) (s : SockRes) :
    ∃ X, X <+: file.drop pos ∧ SendSpec (sendSendfile t file fdOff pos total s).out X := by
  unfold sendSendfile
  simp only []
  split
  · exact ⟨[], List.nil_prefix, spec_fail _ _⟩
  · split
    · rename_i e
      refine ⟨[], List.nil_prefix, ?_⟩
      split
      · exact spec_fail _ _
      · split
        · exact spec_fail _ _
        · split <;> exact spec_fail _ _
    · exact ⟨_, List.take_prefix _ _, sysSend_spec _ _⟩

theorem iovMax_ne_zero : iovMax ≠ 0 := by decide

theorem sendIovec_spec (sent : Nat) (rest : List Bytes) (s : SockRes) :
    ∃ X, X <+: rest.flatten ∧ SendSpec (sendIovec false sent rest s).out X ∧ (sendIovec false sent rest s).fault = false ∧
      (∀ n, (sendIovec false sent rest s).out.ret = .ok n → (sendIovec false sent rest s).rest.flatten = rest.flatten.drop n) ∧
      (∀ e, (sendIovec false sent rest s).out.ret = .error e → (sendIovec false sent rest s).rest = rest) ∧
      ((∀ e ∈ rest, e ≠ []) → ∀ n, (sendIovec false sent rest s).out.ret = .ok n → ∀ e ∈ (sendIovec false sent rest s).rest, e ≠ []) := by
  unfold sendIovec
  simp only [Bool.false_eq_true, if_false]
  have h0 : ¬ (iovMax < rest.length ∧ iovMax = 0) := fun x => iovMax_ne_zero x.2
  rw [if_neg h0]
  generalize hit : (if iovMax < rest.length then iovMax else rest.length) = items
  have hX : (rest.take items).flatten <+: rest.flatten := flatten_take_prefix rest items
  have hspec := sysSend_spec (rest.take items).flatten s
  refine ⟨(rest.take items).flatten, hX, ?_⟩
  cases hr : (sysSend (rest.take items).flatten s).ret with
  | error e =>
    simp only []
    refine ⟨hspec, trivial, ?_, ?_, ?_⟩
    · intro n hn; rw [hr] at hn; cases hn
    · intro _ _; trivial
    · intro _ n hn; rw [hr] at hn; cases hn
  | ok res =>
    simp only []
    obtain ⟨hle, _⟩ := hspec.ok res hr
    have hle2 : res ≤ rest.flatten.length := Nat.le_trans hle hX.length_le
    obtain ⟨k, l', h1, h2, _, h4⟩ := iovAdvance_spec rest res hle2
    rw [h1]
    simp only []
    refine ⟨hspec, trivial, ?_, ?_, ?_⟩
    · intro n hn; rw [hr] at hn; cases hn; exact h2
    · intro e he; rw [hr] at he; cases he
    · intro hne _ _; exact h4 hne

theorem hw_normalBody_inv {r : Resp} {c : Conn} (hw : WF r) (h : Inv r c) (hs : c.st = .normalBodyReady)
    (s : SockRes) (app : AppAns) (alloc : Bool) : Inv r (hwNormalBody r c s app alloc) := by
  have hst : isNb c.st := Or.inl hs
  unfold hwNormalBody
  simp only []
  split
  · -- something is left to send
    rename_i hlt
    cases hres : tryReadyNormalBody r c app alloc with
    | mk c' ok =>
      obtain ⟨hinv', hyes, hno⟩ := tryReady_spec hw h hst app alloc c' ok hres
      cases ok with
      | false => exact hinv'
      | true =>
        obtain ⟨e1, e2, e3, e4, e5, hready⟩ := hyes rfl
        have hst' : isNb c'.st := by rw [e1]; exact hst
        have hcore' := hinv'.core hst'.ne_closed
        obtain ⟨hsb, hnc⟩ := hinv'.stBody (by rcases hst' with e | e; exact Or.inr e; exact Or.inl e)
        have hrple := hcore'.rpLe hsb
        have hlt' : c'.rp < c'.tot := by rw [e3, e4]; exact hlt
        simp only []
        split
        · -- sendfile
          rename_i hsf
          have hkf := hw.sf_kind (hcore'.sfOk hsf)
          obtain ⟨X, hX, hspec⟩ := sendSendfile_spec r.thrPerConn r.body r.fdOff c'.rp c'.tot s
          generalize sendSendfile r.thrPerConn r.body r.fdOff c'.rp c'.tot s = x at *
          obtain ⟨hok, herr⟩ := nb_wire (c := c') hX hspec
          have hki : r.kind ≠ .iovec := by rw [hkf]; decide
          cases hr : x.out.ret with
          | error e =>
            cases e
            case again =>
              simp only []
              have hwz : x.out.wire = [] := hspec.again hr
              rw [hwz, List.append_nil]
              refine Inv.nb_update hinv' hst' (by exact hst') rfl rfl hinv'.nofault ?_
              exact hcore'.congr rfl rfl rfl rfl rfl rfl (fun _ => hsf)
            all_goals
              simp only []
              exact nb_err_step hinv' hst' x.out.wire (herr _ hr) rfl hinv'.nofault rfl
          | ok n =>
            simp only []
            obtain ⟨hn, hwire⟩ := hok n hr
            refine nb_ok_step (c2 := { c' with out := c'.out ++ x.out.wire, sf := x.sf, rp := c'.rp + n })
              hw hinv' hst' n hn (by show c'.out ++ x.out.wire = _; rw [hwire]) rfl rfl hinv'.nofault ?_
            refine ⟨fun _ => by show c'.rp + n ≤ _; omega, hcore'.win, fun hk' => absurd hk' hki, ?_, fun _ => hcore'.sfOk hsf, hcore'.winChunk, hcore'.iovNe, fun _ => hcore'.sfWin hsf⟩
            have ht := hcore'.tot
            unfold TotOk at ht ⊢
            split
            · rename_i hkn; rw [if_pos hkn] at ht; exact ht
            · rename_i hkn; rw [if_neg hkn] at ht
              rcases ht with ht | ht
              · exact Or.inl ht
              · exact Or.inr ⟨ht.1, by show c'.rp + n = _; omega⟩
        · rename_i hsf
          split
          · -- iovec
            rename_i hk
            have hset : c'.iovSet = true := by
              rcases hready hlt' with x | x | x
              · exact absurd x hsf
              · exact x.2
              · exact absurd hk x.1
            have hio := hcore'.iovOk hk hsb
            rw [if_pos hset] at hio
            obtain ⟨X, hX, hspec, hnf, hrest, hsame, hne'⟩ := sendIovec_spec c'.isent c'.irest s
            generalize sendIovec false c'.isent c'.irest s = x at *
            rw [hio] at hX
            obtain ⟨hok, herr⟩ := nb_wire (c := c') hX hspec
            rw [hnf]
            simp only [Bool.false_eq_true, if_false]
            cases hr : x.out.ret with
            | error e =>
              have hre := hsame e hr
              cases e
              case again =>
                simp only []
                have hwz : x.out.wire = [] := hspec.again hr
                rw [hwz, List.append_nil]
                refine Inv.nb_update hinv' hst' (by exact hst') rfl rfl hinv'.nofault ?_
                exact hcore'.congr rfl rfl rfl rfl hre rfl
              all_goals
                simp only []
                exact nb_err_step hinv' hst' x.out.wire (herr _ hr) rfl hinv'.nofault rfl
            | ok n =>
              simp only []
              obtain ⟨hn, hwire⟩ := hok n hr
              refine nb_ok_step (c2 := { c' with out := c'.out ++ x.out.wire, isent := x.sent, irest := x.rest, rp := c'.rp + n })
                hw hinv' hst' n hn (by show c'.out ++ x.out.wire = _; rw [hwire]) rfl rfl hinv'.nofault ?_
              refine ⟨fun _ => by show c'.rp + n ≤ _; omega, hcore'.win, ?_, ?_, hcore'.sfOk, hcore'.winChunk, hne' hcore'.iovNe n hr, hcore'.sfWin⟩
              · intro _ _
                show (if c'.iovSet = true then x.rest.flatten = r.body.drop (c'.rp + n) else c'.rp + n = 0)
                rw [if_pos hset, hrest n hr, hio, List.drop_drop]
              · have ht := hcore'.tot
                unfold TotOk at ht ⊢
                rw [if_pos (hw.known (Or.inr hk))] at ht ⊢
                exact ht
          · -- standard sender
            rename_i hk
            have hwin : c'.ds ≤ c'.rp ∧ c'.rp < c'.ds + c'.dz := by
              rcases hready hlt' with x | x | x
              · exact absurd x hsf
              · exact absurd x.1 hk
              · exact x.2
            have hbound : c'.ds + c'.dz ≤ r.body.length := by
              have := hcore'.win
              split at this
              · omega
              · exact this
            have hnf : ¬ (c'.rp < c'.ds ∨ c'.dz < c'.rp - c'.ds ∨ r.body.length < c'.ds + c'.dz) := by omega
            rw [if_neg hnf]
            have eoff : c'.ds + (c'.rp - c'.ds) = c'.rp := by omega
            rw [eoff]
            have hX : slice r.body c'.rp (c'.dz - (c'.rp - c'.ds)) <+: r.body.drop c'.rp := List.take_prefix _ _
            have hspec := sendData_spec (slice r.body c'.rp (c'.dz - (c'.rp - c'.ds))) s
            generalize sendData false (slice r.body c'.rp (c'.dz - (c'.rp - c'.ds))) s = o at *
            obtain ⟨hok, herr⟩ := nb_wire (c := c') hX hspec
            cases hr : o.ret with
            | error e =>
              cases e
              case again =>
                simp only []
                have hwz : o.wire = [] := hspec.again hr
                rw [hwz, List.append_nil]
                exact hinv'
              all_goals
                simp only []
                exact nb_err_step hinv' hst' o.wire (herr _ hr) rfl hinv'.nofault rfl
            | ok n =>
              simp only []
              obtain ⟨hn, hwire⟩ := hok n hr
              refine nb_ok_step (c2 := { c' with out := c'.out ++ o.wire, rp := c'.rp + n })
                hw hinv' hst' n hn (by show c'.out ++ o.wire = _; rw [hwire]) rfl rfl hinv'.nofault ?_
              refine ⟨fun _ => by show c'.rp + n ≤ _; omega, hcore'.win, fun hk' => absurd hk' hk, ?_, hcore'.sfOk, hcore'.winChunk, hcore'.iovNe, hcore'.sfWin⟩
              have ht := hcore'.tot
              unfold TotOk at ht ⊢
              split
              · rename_i hkn; rw [if_pos hkn] at ht; exact ht
              · rename_i hkn; rw [if_neg hkn] at ht
                rcases ht with ht | ht
                · exact Or.inl ht
                · exact Or.inr ⟨ht.1, by show c'.rp + n = _; omega⟩
  · -- nothing left: only the final check
    rename_i hge
    have hc := h.core hst.ne_closed
    have := nb_ok_step (c2 := c) hw h hst 0 (Nat.zero_le _) (by simp) rfl rfl h.nofault hc
    exact this

end Mhd.Send
