/-
  Safety of the composed model `Mhd.ConnRead` (buffer layer + request-head parsers on one
  arena): the invariant `Safe` — buffer-layer invariant, the window/buffer link, the
  precondition of the parser of the current phase — holds in every state of every run;
  every operation issued to the buffer layer is accepted; no parser access faults.
-/
import Mhd.Proofs.ConnMemSpec
import Mhd.Proofs.ConnReadParse
import Mhd.Proofs.ReqLinePost
import Mhd.Proofs.FramingChunk
namespace Mhd.ConnRead
open Mhd.ConnMem Mhd.Req Mhd.Gen

/-- the read window of the buffer layer and the buffer the parser works on agree:
    the parser's buffer ends where the received data ends -/
structure Link (i : Nat) (c : CM) (rb size : Nat) : Prop where
  recv : Recv c rb
  sz : size = rb + c.rbOff
  inc : c.inc = i

theorem Link.setMem {i : Nat} {c : CM} {rb size : Nat} (h : Link i c rb size) (m : List UInt8) : Link i (setMem c m) rb size :=
  ⟨h.recv.setMem m, h.sz, h.inc⟩

/-- the request strings lie below `read_buffer` (what the trailer parser needs) -/
def RqOk (rb : Nat) (rq : Rq) : Prop := rq.version + Discipline.httpVerLen + 1 ≤ rb

/-- what holds in each phase -/
def PhaseInv (i : Nat) (lvl : Int) (c : CM) : Phase → Prop
  | .reqLine s => Link i c s.rb s.buf.size ∧ RLInvX (RLFlags.ofLevel lvl) s
  | .headers s _ => Link i c s.rb s.buf.size ∧ HSP.Inv s ∧ HSP.Inv2 s
  | .headersDone h rq => Link i c h.rb h.buf.size ∧ RqOk h.rb rq
  | .cont100 b => Link i c b.rb b.buf.size ∧ RqOk b.rb b.rq
  | .body b => Link i c b.rb b.buf.size ∧ RqOk b.rb b.rq
  | .footers s _ => Link i c s.rb s.buf.size ∧ HSP.Inv s
  | .reqDone buf rb _ => Link i c rb buf.size
  | .error _ => CMInv c
  | .fault _ => False
  | .refused _ => False

/-- invariant of the composed run: no fault, no refused operation, buffer-layer invariant,
    parser precondition of the current phase -/
def Safe (i : Nat) (x : CR) : Prop := PhaseInv i x.lvl x.cm x.phase

theorem safe_cminv {i : Nat} {x : CR} (h : Safe i x) : CMInv x.cm := by
  unfold Safe at h
  cases hp : x.phase <;> rw [hp] at h <;> simp only [PhaseInv] at h
  · exact h.1.recv.inv
  · exact h.1.recv.inv
  · exact h.1.recv.inv
  · exact h.1.recv.inv
  · exact h.1.recv.inv
  · exact h.1.recv.inv
  · exact h.recv.inv
  · exact h

theorem errorOut_safe (i : Nat) (x : CR) (k : ErrKind) (r : Nat) (h : Recv x.cm r) :
    Safe i (errorOut x k) ∧ (errorOut x k).lvl = x.lvl ∧ (errorOut x k).reading = false := by
  obtain ⟨c', he, hi⟩ := errRelease_spec h
  cases k with
  | closed => exact ⟨h.inv, rfl, rfl⟩
  | reply code =>
    have e : errorOut x (.reply code) = { x with cm := c', phase := .error (.reply code) } := by
      simp only [errorOut, he]
    rw [e]; exact ⟨hi, rfl, rfl⟩
  | noSpace =>
    have e : errorOut x .noSpace = { x with cm := c', phase := .error .noSpace } := by
      simp only [errorOut, he]
    rw [e]; exact ⟨hi, rfl, rfl⟩

theorem consumeTo_spec {i : Nat} {c : CM} {r size : Nat} (h : Link i c r size) (newRb : Nat) (h1 : r ≤ newRb) (h2 : newRb ≤ size) :
    ∃ c', consumeTo c newRb = some c' ∧ Link i c' newRb size ∧ c'.inc = c.inc ∧ c'.poolSize = c.poolSize := by
  obtain ⟨c', he, hr, ho, _, hinc, hps, _⟩ := consume_spec h.recv (newRb - r) (by have := h.sz; omega)
  refine ⟨c', by simp only [consumeTo, h.recv.rb, he], ⟨?_, ?_, by rw [hinc]; exact h.inc⟩, hinc, hps⟩
  · have e : r + (newRb - r) = newRb := by omega
    rw [e] at hr; exact hr
  · have := h.sz; omega

theorem hdrSize_lt : Mhd.Gen.ConnMem.reqHeaderSize < Mhd.Pool.W := by
  simp [Mhd.Gen.ConnMem.reqHeaderSize, Mhd.Pool.W]

theorem allocN_spec (i : Nat) (n : Nat) : ∀ {c : CM} {r size : Nat}, Link i c r size →
    Link i (allocN n c).1 r size ∧ (allocN n c).1.inc = c.inc ∧ (allocN n c).1.poolSize = c.poolSize := by
  induction n with
  | zero => intro c r size h; exact ⟨h, rfl, rfl⟩
  | succ n ih =>
    intro c r size h
    have a := alloc_spec h.recv _ hdrSize_lt
    have hl : Link i (step c (.alloc Mhd.Gen.ConnMem.reqHeaderSize)).1 r size :=
      ⟨a.1, by rw [a.2.1]; exact h.sz, by rw [a.2.2.2.1]; exact h.inc⟩
    simp only [allocN]
    generalize hst : step c (.alloc Mhd.Gen.ConnMem.reqHeaderSize) = res at a hl
    obtain ⟨c', rr⟩ := res
    cases rr with
    | ptr o =>
      cases o with
      | some v =>
        have := ih hl
        exact ⟨this.1, by rw [this.2.1]; exact a.2.2.2.1, by rw [this.2.2]; exact a.2.2.2.2.1⟩
      | none => exact ⟨hl, a.2.2.2.1, a.2.2.2.2.1⟩
    | ok => exact ⟨hl, a.2.2.2.1, a.2.2.2.2.1⟩
    | bool b => exact ⟨hl, a.2.2.2.1, a.2.2.2.2.1⟩
    | size k => exact ⟨hl, a.2.2.2.1, a.2.2.2.2.1⟩
    | badOp => exact ⟨hl, a.2.2.2.1, a.2.2.2.2.1⟩

/-- the state in which header parsing starts satisfies the header parser's invariants -/
theorem ofTarget_inv (t : Target) (n : Nat) (h1 : t.rb ≤ t.buf.size)
    (h2 : t.version + Discipline.httpVerLen + 1 ≤ t.rb)
    (h3 : ∀ el ∈ t.elems, el.kind ≠ Http.kindHeader) : HSP.Inv (HS.ofTarget t n) :=
  ⟨by simpa [HS.ofTarget] using h1, by show 1 ≤ t.rb; omega, Nat.le_refl _, Nat.le_refl _,
   Nat.le_refl _, h2, fun el hm hk => absurd hk (h3 el hm)⟩

theorem ofTarget_inv2 (t : Target) (n : Nat)
    (h3 : ∀ el ∈ t.elems, el.kind ≠ Http.kindHeader)
    (h4 : ∀ el ∈ t.elems, ∀ sl ∈ HSP.Elem.slices el, sl.region = 0 →
      sl.off + sl.len ≤ t.version + Discipline.httpVerLen) : HSP.Inv2 (HS.ofTarget t n) := by
  have hL : lastElemEnd (HS.ofTarget t n) = t.version + Discipline.httpVerLen := by
    unfold lastElemEnd
    show (match t.elems.getLast? with | some e => _ | none => _) = _
    split
    next e he =>
      have hk := h3 e (List.mem_of_getLast? he)
      rw [if_neg (by simpa using hk)]; rfl
    next => rfl
  exact ⟨fun _ => rfl, fun _ _ => rfl, fun h => absurd rfl h, by rw [hL]; exact Nat.le_refl _,
    by rw [hL]; exact h4⟩

theorem afterLine_safe (i : Nat) (x : CR) (r : ReqLine) (hl : Link i x.cm r.rb r.buf.size) (hp : RLPost r) :
    Safe i (afterLine x r) ∧ (afterLine x r).lvl = x.lvl := by
  unfold afterLine
  cases lineWspCheck (RLFlags.ofLevel x.lvl) x.cm.poolSize r with
  | some e => exact ⟨(errorOut_safe i x _ _ hl.recv).1, (errorOut_safe i x _ _ hl.recv).2.1⟩
  | none =>
    dsimp only
    have hv := hp.hv
    have hlen : r.tgt + r.tgtLen < r.buf.size := by have := hp.htl; have := hp.hrb; omega
    obtain ⟨T, hT, hsz, _, _, _, hel, hrb, _, hver⟩ :=
      TGT.processRequestTarget_no_fault (Discipline.unesc_strict x.lvl) r hlen hp.hnul hp.hq
    rw [hT]
    dsimp only
    have a := allocN_spec i T.elems.length hl
    generalize hst : allocN T.elems.length x.cm = res at a
    obtain ⟨c1, b⟩ := res
    cases b with
    | false =>
      have := errorOut_safe i { x with cm := c1 } (.reply Mhd.Gen.ConnMem.httpHeaderFieldsTooLarge) _ a.1.recv
      exact ⟨this.1, this.2.1⟩
    | true =>
      have hk3 : ∀ el ∈ T.elems, el.kind ≠ Http.kindHeader := by
        intro el hm; rw [(hel el hm).2]; decide
      refine ⟨⟨?_, ?_, ?_⟩, rfl⟩
      · show Link i (writeBack c1 T.buf) T.rb T.buf.size
        rw [hrb, hsz]; exact a.1.setMem _
      · apply ofTarget_inv
        · rw [hrb, hsz]; exact hp.hrb
        · rw [hrb, hver]; exact hv
        · exact hk3
      · apply ofTarget_inv2 _ _ hk3
        intro el hm sl hsl _
        have hin := (hel el hm).1
        have htl := hp.htl
        rw [hver]
        simp only [HSP.Elem.slices, List.mem_cons, Option.mem_toList] at hsl
        rcases hsl with rfl | hv'
        · have := hin.2.1; omega
        · have := (hin.2.2.1 sl (by simpa using hv')).2; omega

theorem idleReqLine_safe (i : Nat) (x : CR) (s : RL) (hl : Link i x.cm s.rb s.buf.size)
    (hi : RLInvX (RLFlags.ofLevel x.lvl) s) :
    Safe i (idleReqLine x s) ∧ (idleReqLine x s).lvl = x.lvl := by
  unfold idleReqLine
  cases hr : (rlScanner (RLFlags.ofLevel x.lvl)).run s with
  | fault f => exact absurd hr (Scanner.run_no_fault (rlLaws _) s hi.toInv f)
  | more s1 =>
    obtain ⟨hi1, hsz, hrb⟩ := rl_run_more _ hi hr
    have hp1 := hi1.toInv.hp
    obtain ⟨c1, hc, hl1, _, _⟩ := consumeTo_spec hl s1.rb hrb (by omega)
    simp only [hc]
    have hl1' : Link i (writeBack c1 s1.buf) s1.rb s1.buf.size := by rw [hsz]; exact hl1.setMem _
    split
    · have := errorOut_safe i { x with cm := writeBack c1 s1.buf, phase := .reqLine s1 } (.reply Http.codeBadRequest) _ hl1'.recv
      exact ⟨this.1, this.2.1⟩
    · exact ⟨⟨hl1', hi1⟩, rfl⟩
  | done d =>
    cases d with
    | err e => exact ⟨(errorOut_safe i x _ _ hl.recv).1, (errorOut_safe i x _ _ hl.recv).2.1⟩
    | ok r =>
      obtain ⟨hp, hsz, hm⟩ := rl_run_done _ hi hr
      have := hp.hm; have := hp.htl; have := hp.hv; have := hp.hrb
      obtain ⟨c1, hc, hl1, _, _⟩ := consumeTo_spec hl r.rb (by omega) (by omega)
      simp only [hc]
      have hl1' : Link i (writeBack c1 r.buf) r.rb r.buf.size := by rw [hsz]; exact hl1.setMem _
      have := afterLine_safe i { x with cm := writeBack c1 r.buf } r hl1' hp
      exact ⟨this.1, this.2⟩

theorem inv_rbSize {s : HS} (h : HSP.Inv s) (n : Nat) : HSP.Inv { s with rbSize := n } :=
  ⟨h.hp, h.hrb, h.hws, h.hname, h.hvs, h.hver, h.helems⟩

theorem inv2_rbSize {s : HS} (h : HSP.Inv2 s) (n : Nat) : HSP.Inv2 { s with rbSize := n } :=
  ⟨h.hn0, h.hv0, h.hvs2, h.hLver, h.hmax⟩

/-- what the lines loop carries: the header parser's invariant, and for the header section (not the
    footers) the second layer (where the strings end) -/
def LinesInv (ft : Option Rq) (s : HS) : Prop := HSP.Inv s ∧ (ft = none → HSP.Inv2 s)

theorem linesPhase_safe (i : Nat) (lvl : Int) (c : CM) (ft : Option Rq) (s : HS) (fs : Nat)
    (hl : Link i c s.rb s.buf.size) (hi : LinesInv ft s) :
    Safe i { cm := c, lvl := lvl, phase := linesPhase ft s fs } := by
  cases ft with
  | none => exact ⟨hl, hi.1, hi.2 rfl⟩
  | some n => exact ⟨hl, hi.1⟩

theorem hdrBody_safe (i : Nat) (lvl : Int) (fs : Nat) (ft : Option Rq) (k : CM → HS → CR) (m : Nat)
    (hk : ∀ (c : CM) (s : HS), Link i c s.rb s.buf.size → LinesInv ft s →
      (hsScanner (FLFlags.ofLevel lvl) fs).measure s < m → Safe i (k c s) ∧ (k c s).lvl = lvl)
    (c : CM) (s0 : HS) (hl0 : Link i c s0.rb s0.buf.size) (hi0' : LinesInv ft s0)
    (hm0 : (hsScanner (FLFlags.ofLevel lvl) fs).measure s0 < m + 1) :
    Safe i (hdrBody lvl fs ft k c s0) ∧ (hdrBody lvl fs ft k c s0).lvl = lvl := by
  have hi0 := hi0'.1
  have L := HSP.hsLaws (FLFlags.ofLevel lvl) fs
  have ok := HSP.hsStep_ok (FLFlags.ofLevel lvl) fs s0 hi0
  unfold hdrBody
  cases hst : hsStep (FLFlags.ofLevel lvl) fs s0 with
  | needMore => exact ⟨linesPhase_safe i lvl _ ft s0 fs (hl0.setMem _) hi0', rfl⟩
  | fault f => exact absurd hst (L.no_fault s0 f hi0)
  | done d =>
    cases d with
    | err k =>
      have := errorOut_safe i { cm := c, lvl := lvl, phase := linesPhase ft s0 fs } (.reply Http.codeBadRequest) _ hl0.recv
      exact ⟨this.1, this.2.1⟩
    | ok h =>
      obtain ⟨g1, g2, g3, g4⟩ := HSP.hsStep_done_shape _ fs s0 hi0 h hst
      obtain ⟨c1, hc, hl1, _, _⟩ := consumeTo_spec hl0 (h.rb + h.shifted) g2 g3
      simp only [hc]
      cases ft with
      | none =>
        obtain ⟨c2, hc2, hr2, ho2, _, hinc2, _⟩ := shiftBack_spec hl1.recv h.shifted (by omega)
        simp only [hc2]
        have hb := ((HSP.hsStep_inv2 _ fs s0 hi0 (hi0'.2 rfl)).2 h hst).1.1
        refine ⟨⟨?_, hb⟩, by first | rfl | trivial⟩
        show Link i (writeBack c2 h.buf) h.rb h.buf.size
        apply Link.setMem
        refine ⟨?_, ?_, by rw [hinc2]; exact hl1.inc⟩
        · have e : h.rb + h.shifted - h.shifted = h.rb := by omega
          rw [e] at hr2; exact hr2
        · have := hl1.sz; rw [ho2]; omega
      | some n =>
        refine ⟨?_, by first | rfl | trivial⟩
        show Link i (writeBack c1 s0.buf) (h.rb + h.shifted) s0.buf.size
        exact hl1.setMem _
  | advance s1 =>
    obtain ⟨hi1, hsz, _⟩ := ok.adv s1 hst
    have hi1' : LinesInv ft s1 := ⟨hi1, fun hf => (HSP.hsStep_inv2 _ fs s0 hi0 (hi0'.2 hf)).1 s1 hst⟩
    have hmono := (HSP.hsStep_mono _ fs s0 s1 hst).rb
    have hp1 := hi1.hp
    obtain ⟨c1, hc, hl1, _, _⟩ := consumeTo_spec hl0 s1.rb hmono (by omega)
    have hl1' : Link i c1 s1.rb s1.buf.size := by rw [hsz]; exact hl1
    have hdec := L.decr s0 s1 hi0 hst
    simp only [hc]
    split
    · have a := alloc_spec hl1'.recv _ hdrSize_lt
      have hl2 : Link i (step c1 (.alloc Mhd.Gen.ConnMem.reqHeaderSize)).1 s1.rb s1.buf.size :=
        ⟨a.1, by rw [a.2.1]; exact hl1'.sz, by rw [a.2.2.2.1]; exact hl1'.inc⟩
      generalize step c1 (.alloc Mhd.Gen.ConnMem.reqHeaderSize) = res at hl2
      obtain ⟨c2, rr⟩ := res
      have er := errorOut_safe i { cm := c2, lvl := lvl, phase := linesPhase ft s1 fs } .noSpace _ hl2.recv
      cases rr with
      | ptr o =>
        cases o with
        | some v => exact hk c2 s1 hl2 hi1' (by omega)
        | none => exact ⟨er.1, er.2.1⟩
      | ok => exact ⟨er.1, er.2.1⟩
      | bool b => exact ⟨er.1, er.2.1⟩
      | size k => exact ⟨er.1, er.2.1⟩
      | badOp => exact ⟨er.1, er.2.1⟩
    · exact hk c1 s1 hl1' hi1' (by omega)

theorem hdrLoop_safe (i : Nat) (lvl : Int) (fs : Nat) (ft : Option Rq) : ∀ (n : Nat) (c : CM) (s : HS),
    Link i c s.rb s.buf.size → LinesInv ft s → (hsScanner (FLFlags.ofLevel lvl) fs).measure s < n →
    Safe i (hdrLoop lvl fs ft n c s) ∧ (hdrLoop lvl fs ft n c s).lvl = lvl := by
  intro n
  induction n with
  | zero => intro c s _ _ hm; omega
  | succ n ih =>
    intro c s hl hi hm
    exact hdrBody_safe i lvl fs ft (hdrLoop lvl fs ft n) n ih c { s with rbSize := c.rbSize } hl
      ⟨inv_rbSize hi.1 _, fun hf => inv2_rbSize (hi.2 hf) _⟩ hm


theorem idleHeaders_safe (i : Nat) (x : CR) (s : HS) (fs : Nat) (hl : Link i x.cm s.rb s.buf.size) (hi : HSP.Inv s)
    (hi2 : HSP.Inv2 s) : Safe i (idleHeaders x s fs) ∧ (idleHeaders x s fs).lvl = x.lvl :=
  hdrLoop_safe i x.lvl fs none _ x.cm s hl ⟨hi, fun _ => hi2⟩ (Nat.lt_succ_self _)

theorem idleFooters_safe (i : Nat) (x : CR) (s : HS) (n : Rq) (hl : Link i x.cm s.rb s.buf.size) (hi : HSP.Inv s) :
    Safe i (idleFooters x s n) ∧ (idleFooters x s n).lvl = x.lvl :=
  hdrLoop_safe i x.lvl 0 (some n) _ x.cm s hl ⟨hi, fun hf => by cases hf⟩ (Nat.lt_succ_self _)

/-! ### request body -/

theorem blres_ok (w : List UInt8) (s : BL) (hs : s.head ≤ w.length) :
    (∀ n, BLRes.ok s ≠ .overrun n) ∧ (∀ s', BLRes.ok s = .ok s' → s'.head ≤ w.length) :=
  ⟨fun n h => (by cases h), fun s' h => (by simp only [BLRes.ok.injEq] at h; subst h; exact hs)⟩

theorem blres_closed (w : List UInt8) :
    (∀ n, BLRes.closed ≠ .overrun n) ∧ (∀ s', BLRes.closed = .ok s' → s'.head ≤ w.length) :=
  ⟨fun n h => (by cases h), fun s' h => (by cases h)⟩

theorem blres_err (w : List UInt8) (st : Nat) :
    (∀ n, BLRes.err st ≠ .overrun n) ∧ (∀ s', BLRes.err st = .ok s' → s'.head ≤ w.length) :=
  ⟨fun n h => (by cases h), fun s' h => (by cases h)⟩

/-- the body loop never claims more bytes than the window holds: every decision of the chunk decoder
    consumes at most the available bytes (C03: `chunkAct_term`, `chunkAct_line`, `chunkAct_data`) -/
theorem bodyLoop_ok (lvl : Int) (take : Nat → Nat → Option Nat) (chunked : Bool) (w : List UInt8) :
    ∀ (f : Nat) (s : BL), s.head ≤ w.length →
      (∀ n, bodyLoop lvl take chunked w f s ≠ .overrun n) ∧
      (∀ s', bodyLoop lvl take chunked w f s = .ok s' → s'.head ≤ w.length) := by
  intro f
  induction f with
  | zero =>
    intro s hs
    simp only [bodyLoop]
    exact blres_ok w s hs
  | succ f ih =>
    intro s hs
    have hbl : (w.drop s.head).length = w.length - s.head := by simp
    simp only [bodyLoop]
    split
    · exact blres_ok w s hs
    · split
      · -- chunked
        cases hact : Mhd.Framing.chunkAct lvl s.cur s.off (w.drop s.head) with
        | needMore => dsimp only; exact blres_ok w s hs
        | err st => dsimp only; exact blres_err w st
        | term n =>
          have hb := (Mhd.Framing.chunkAct_term lvl s.cur s.off _ n hact).2.1
          dsimp only
          rw [if_pos hb]
          exact ih _ (by show s.head + n ≤ w.length; omega)
        | line len size =>
          have hb := (Mhd.Framing.chunkAct_line lvl s.cur s.off _ len size hact).2
          dsimp only
          rw [if_pos hb]
          split
          · exact blres_ok w _ (by show s.head + len ≤ w.length; omega)
          · exact ih _ (by show s.head + len ≤ w.length; omega)
        | data n =>
          have hb : n ≤ (w.drop s.head).length := by
            rw [(Mhd.Framing.chunkAct_data lvl s.cur s.off _ n hact).2.2.2]; exact Nat.min_le_right _ _
          dsimp only
          rw [if_pos hb]
          cases htk : take s.calls n with
          | none => exact blres_closed w
          | some tk =>
            dsimp only
            have ht : min n tk ≤ n := Nat.min_le_left _ _
            split
            · exact blres_ok w _ (by show s.head + min n tk ≤ w.length; omega)
            · exact ih _ (by show s.head + min n tk ≤ w.length; omega)
      · -- identity
        cases htk : take s.calls (min s.remaining (w.drop s.head).length) with
        | none => exact blres_closed w
        | some tk =>
          dsimp only
          have : min (min s.remaining (w.drop s.head).length) tk ≤ (w.drop s.head).length :=
            Nat.le_trans (Nat.min_le_left _ _) (Nat.min_le_right _ _)
          exact blres_ok w _ (by
            show s.head + min (min s.remaining (w.drop s.head).length) tk ≤ w.length
            omega)

theorem processBody_safe (i : Nat) (cfg : Cfg) (x : CR) (b : Body) (hl : Link i x.cm b.rb b.buf.size)
    (hq : RqOk b.rb b.rq) : Safe i (processBody cfg x b) ∧ (processBody cfg x b).lvl = x.lvl := by
  unfold processBody
  have hsz := hl.sz
  have hwl : ((b.buf.extract b.rb b.buf.size).toList).length = x.cm.rbOff := by
    simp only [Array.length_toList, Array.size_extract]; omega
  have bl := bodyLoop_ok x.lvl (fun k n => if cfg.refuse k then none else some (cfg.take k n)) b.chunked (b.buf.extract b.rb b.buf.size).toList
    ((b.buf.extract b.rb b.buf.size).toList.length + 1) ⟨b.cur, b.off, b.remaining, b.calls, b.processed, 0⟩ (Nat.zero_le _)
  dsimp only
  cases hr : bodyLoop x.lvl (fun k n => if cfg.refuse k then none else some (cfg.take k n)) b.chunked (b.buf.extract b.rb b.buf.size).toList
      ((b.buf.extract b.rb b.buf.size).toList.length + 1) ⟨b.cur, b.off, b.remaining, b.calls, b.processed, 0⟩ with
  | overrun n => exact absurd hr (bl.1 n)
  | err st => exact ⟨(errorOut_safe i x _ _ hl.recv).1, (errorOut_safe i x _ _ hl.recv).2.1⟩
  | closed => exact ⟨hl.recv.inv, rfl⟩
  | ok s =>
    have hh := bl.2 s hr
    rw [hwl] at hh
    obtain ⟨c1, hc, hr1, ho1, _, hinc1, _⟩ := bodyDrop_spec hl.recv s.head hh
    simp only [hc]
    refine ⟨⟨?_, hq⟩, by first | rfl | trivial⟩
    apply Link.setMem
    refine ⟨hr1, ?_, by rw [hinc1]; exact hl.inc⟩
    show (b.buf.extract 0 b.rb ++ b.buf.extract (b.rb + s.head) b.buf.size).size = b.rb + c1.rbOff
    simp only [Array.size_append, Array.size_extract]
    rw [ho1]; omega

theorem idleBody_safe (i : Nat) (cfg : Cfg) (x : CR) (b : Body) (hl : Link i x.cm b.rb b.buf.size)
    (hq : RqOk b.rb b.rq) (hp : x.phase = .body b) : Safe i (idleBody cfg x b) ∧ (idleBody cfg x b).lvl = x.lvl := by
  unfold idleBody
  have h1 : Safe i (if x.cm.rbOff ≠ 0 then processBody cfg x b else x) ∧
      (if x.cm.rbOff ≠ 0 then processBody cfg x b else x).lvl = x.lvl := by
    split
    · exact processBody_safe i cfg x b hl hq
    · exact ⟨by unfold Safe; rw [hp]; exact ⟨hl, hq⟩, rfl⟩
  generalize (if x.cm.rbOff ≠ 0 then processBody cfg x b else x) = x1 at h1
  dsimp only
  cases hp1 : x1.phase with
  | body b1 =>
    have h1s := h1.1
    unfold Safe at h1s
    rw [hp1] at h1s
    dsimp only
    split
    · split
      · refine ⟨⟨h1s.1, ?_⟩, h1.2⟩
        have hv : b1.rq.version + Discipline.httpVerLen + 1 ≤ b1.rb := h1s.2
        have hsz := h1s.1.sz
        exact ⟨by show b1.rb + 0 ≤ b1.buf.size; omega, by show 1 ≤ b1.rb; omega, Nat.le_refl _, Nat.le_refl _,
          Nat.le_refl _, hv, fun el hm => by cases hm⟩
      · exact ⟨h1s.1, h1.2⟩
    · exact h1
  | reqLine _ => exact h1
  | headers _ _ => exact h1
  | headersDone _ _ => exact h1
  | cont100 _ => exact h1
  | footers _ _ => exact h1
  | reqDone _ _ _ => exact h1
  | error _ => exact h1
  | fault _ => exact h1
  | refused _ => exact h1

theorem startBody_safe (i : Nat) (cfg : Cfg) (x : CR) (h : Headers) (rq : Rq) (ch : Bool) (n : Nat)
    (hl : Link i x.cm h.rb h.buf.size) (hq : RqOk h.rb rq) :
    Safe i (startBody cfg x h rq ch n) ∧ (startBody cfg x h rq ch n).lvl = x.lvl := by
  unfold startBody
  split
  · exact ⟨hl, rfl⟩
  · dsimp only
    split
    · exact ⟨⟨hl, hq⟩, rfl⟩
    · exact ⟨⟨hl, hq⟩, rfl⟩

theorem afterHeaders_safe (i : Nat) (cfg : Cfg) (x : CR) (h : Headers) (rq : Rq) (hl : Link i x.cm h.rb h.buf.size)
    (hq : RqOk h.rb rq) (hp : x.phase = .headersDone h rq) :
    Safe i (afterHeaders cfg x h rq) ∧ (afterHeaders cfg x h rq).lvl = x.lvl := by
  unfold afterHeaders
  have hx : Safe i x := by unfold Safe; rw [hp]; exact ⟨hl, hq⟩
  have hc : Safe i { x with phase := .error .closed } := hl.recv.inv
  cases hf : cfg.frame h.buf rq with
  | stop => exact ⟨hx, rfl⟩
  | reject code => exact ⟨(errorOut_safe i x _ _ hl.recv).1, (errorOut_safe i x _ _ hl.recv).2.1⟩
  | none =>
    dsimp only
    cases cfg.first h.buf rq with
    | no => exact ⟨hc, rfl⟩
    | reply => exact ⟨hc, rfl⟩
    | cont => exact startBody_safe i cfg x h rq false 0 hl hq
  | len n =>
    dsimp only
    cases cfg.first h.buf rq with
    | no => exact ⟨hc, rfl⟩
    | reply => exact ⟨hc, rfl⟩
    | cont => exact startBody_safe i cfg x h rq false n hl hq
  | chunked =>
    dsimp only
    cases cfg.first h.buf rq with
    | no => exact ⟨hc, rfl⟩
    | reply => exact ⟨hc, rfl⟩
    | cont => exact startBody_safe i cfg x h rq true 1 hl hq

theorem finishRequest_safe (i : Nat) (x : CR) (buf : Bytes) (rb : Nat) (hl : Link i x.cm rb buf.size) :
    Safe i (finishRequest x buf rb).1 ∧ (finishRequest x buf rb).1.lvl = x.lvl := by
  unfold finishRequest
  obtain ⟨c1, c2, h1, h2, hr, ho, hinc⟩ := shrink_reset_spec hl.recv
  simp only [h1, h2]
  refine ⟨⟨?_, RLInvX.init _ _ _ (Nat.zero_le _)⟩, by first | rfl | trivial⟩
  apply Link.setMem
  refine ⟨hr, ?_, by rw [hinc]; exact hl.inc⟩
  show (buf.extract rb buf.size).size = 0 + c2.rbOff
  have := hl.sz
  simp only [Array.size_extract]; rw [ho]; omega

theorem stLine_safe (i : Nat) (x : CR) (h : Safe i x) : Safe i (stLine x) ∧ (stLine x).lvl = x.lvl := by
  unfold stLine
  have h' := h; unfold Safe at h'
  cases hp : x.phase with
  | reqLine s => rw [hp] at h'; exact idleReqLine_safe i x s h'.1 h'.2
  | cont100 b => rw [hp] at h'; exact ⟨h', rfl⟩
  | _ => exact ⟨h, rfl⟩

theorem stHeaders_safe (i : Nat) (x : CR) (h : Safe i x) : Safe i (stHeaders x) ∧ (stHeaders x).lvl = x.lvl := by
  unfold stHeaders
  have h' := h; unfold Safe at h'
  cases hp : x.phase with
  | headers hs fs => rw [hp] at h'; exact idleHeaders_safe i x hs fs h'.1 h'.2.1 h'.2.2
  | _ => exact ⟨h, rfl⟩

theorem stAfter_safe (i : Nat) (cfg : Cfg) (x : CR) (h : Safe i x) : Safe i (stAfter cfg x) ∧ (stAfter cfg x).lvl = x.lvl := by
  unfold stAfter
  have h' := h; unfold Safe at h'
  cases hp : x.phase with
  | headersDone hd rq => rw [hp] at h'; exact afterHeaders_safe i cfg x hd rq h'.1 h'.2 hp
  | _ => exact ⟨h, rfl⟩

theorem stBody_safe (i : Nat) (cfg : Cfg) (x : CR) (h : Safe i x) : Safe i (stBody cfg x) ∧ (stBody cfg x).lvl = x.lvl := by
  unfold stBody
  have h' := h; unfold Safe at h'
  cases hp : x.phase with
  | body b => rw [hp] at h'; exact idleBody_safe i cfg x b h'.1 h'.2 hp
  | _ => exact ⟨h, rfl⟩

theorem stFooters_safe (i : Nat) (x : CR) (h : Safe i x) : Safe i (stFooters x) ∧ (stFooters x).lvl = x.lvl := by
  unfold stFooters
  have h' := h; unfold Safe at h'
  cases hp : x.phase with
  | footers s n => rw [hp] at h'; exact idleFooters_safe i x s n h'.1 h'.2
  | _ => exact ⟨h, rfl⟩

theorem stDone_safe (i : Nat) (cfg : Cfg) (x : CR) (h : Safe i x) : Safe i (stDone cfg x).1 ∧ (stDone cfg x).1.lvl = x.lvl := by
  unfold stDone
  have h' := h; unfold Safe at h'
  cases hp : x.phase with
  | reqDone buf rb rq =>
    rw [hp] at h'
    dsimp only
    split
    · exact finishRequest_safe i x buf rb h'
    · exact ⟨h'.recv.inv, rfl⟩
  | _ => exact ⟨h, rfl⟩

theorem idlePass_safe (i : Nat) (cfg : Cfg) (x : CR) (h : Safe i x) :
    Safe i (idlePass cfg x).1 ∧ (idlePass cfg x).1.lvl = x.lvl := by
  unfold idlePass
  have s1 := stLine_safe i x h
  have s2 := stHeaders_safe i _ s1.1
  have s3 := stAfter_safe i cfg _ s2.1
  have s4 := stBody_safe i cfg _ s3.1
  have s5 := stFooters_safe i _ s4.1
  have s6 := stDone_safe i cfg _ s5.1
  exact ⟨s6.1, by rw [s6.2, s5.2, s4.2, s3.2, s2.2, s1.2]⟩

theorem idleStates_safe (i : Nat) (cfg : Cfg) : ∀ (n : Nat) (x : CR), Safe i x →
    Safe i (idleStates cfg n x) ∧ (idleStates cfg n x).lvl = x.lvl := by
  intro n
  induction n with
  | zero => intro x h; exact ⟨h, rfl⟩
  | succ n ih =>
    intro x h
    have hp := idlePass_safe i cfg x h
    simp only [idleStates]
    generalize idlePass cfg x = res at hp
    obtain ⟨x', b⟩ := res
    cases b with
    | true => have := ih x' hp.1; exact ⟨this.1, by rw [this.2, hp.2]⟩
    | false => exact hp


/-- the window of a connection in one of the receiving states -/
theorem reading_link {i : Nat} {x : CR} (h : Safe i x) (hr : x.reading = true) : ∃ r size, Link i x.cm r size := by
  unfold Safe at h
  cases hp : x.phase <;> rw [hp] at h <;> simp only [CR.reading, hp] at hr
  · exact ⟨_, _, h.1⟩
  · exact ⟨_, _, h.1⟩
  · cases hr
  · exact ⟨_, _, h.1⟩
  · exact ⟨_, _, h.1⟩
  · exact ⟨_, _, h.1⟩
  all_goals cases hr

theorem wantsRead_reading {x : CR} (h : x.wantsRead = true) : x.reading = true := by
  unfold CR.wantsRead at h
  unfold CR.reading
  cases hp : x.phase <;> rw [hp] at h <;> first | rfl | cases h

theorem safe_setCm {i : Nat} {x : CR} (h : Safe i x) (hr : x.reading = true) (c' : CM)
    (hc : ∀ r size, Link i x.cm r size → Link i c' r size) : Safe i { x with cm := c' } := by
  unfold Safe at h ⊢
  cases hp : x.phase <;> rw [hp] at h <;> simp only [CR.reading, hp] at hr
  · exact ⟨hc _ _ h.1, h.2⟩
  · exact ⟨hc _ _ h.1, h.2⟩
  · cases hr
  · exact ⟨hc _ _ h.1, h.2⟩
  · exact ⟨hc _ _ h.1, h.2⟩
  · exact ⟨hc _ _ h.1, h.2⟩
  all_goals cases hr

theorem checkGrow_eq_of_not_wantsRead (x : CR) (h : x.wantsRead = false) : checkGrow x = x := by
  unfold checkGrow; simp [h]

theorem noSpaceOut_safe (i : Nat) (x : CR) (h : Safe i x) (hr : x.reading = true) :
    Safe i (noSpaceOut x) ∧ (noSpaceOut x).lvl = x.lvl ∧ (noSpaceOut x).wantsRead = false := by
  obtain ⟨r, size, hl⟩ := reading_link h hr
  have er := errorOut_safe i x .noSpace _ hl.recv
  have ern : (errorOut x .noSpace).wantsRead = false := by
    cases hh : (errorOut x .noSpace).wantsRead with
    | false => rfl
    | true => have := wantsRead_reading hh; rw [er.2.2] at this; cases this
  unfold noSpaceOut
  cases hp : x.phase with
  | body b =>
    dsimp only
    split
    · refine ⟨?_, rfl, rfl⟩
      have h' := h; unfold Safe at h' ⊢; rw [hp] at h'; exact h'
    · exact ⟨er.1, er.2.1, ern⟩
  | _ => exact ⟨er.1, er.2.1, ern⟩

/-- `check_and_grow_read_buffer_space`: safe, and afterwards a connection that will read has room in its
    window (rests on the guard of fix F32, see `growSize_strict`) -/
theorem checkGrow_safe (i : Nat) (x : CR) (h : Safe i x) :
    Safe i (checkGrow x) ∧ (checkGrow x).lvl = x.lvl ∧
    ((checkGrow x).wantsRead = true → (checkGrow x).cm.rbOff < (checkGrow x).cm.rbSize) := by
  by_cases hw : x.wantsRead = true
  · have hr := wantsRead_reading hw
    obtain ⟨r, size, hl⟩ := reading_link h hr
    have hle := hl.recv.off_le
    unfold checkGrow
    rw [if_neg (by rw [hw]; simp)]
    dsimp only
    by_cases hd : (x.cm.rbOff == x.cm.rbSize || (decide (x.cm.rbOff + x.cm.inc > x.cm.rbSize) && growRefine x)) = true
    · rw [if_neg (by rw [hd]; simp)]
      have g := grow_spec hl.recv (x.cm.rbOff == x.cm.rbSize)
      generalize hst : step x.cm (.grow (x.cm.rbOff == x.cm.rbSize)) = res at g
      obtain ⟨c', rr⟩ := res
      obtain ⟨g1, g2, g3, g4, g5, g6, g7⟩ := g
      dsimp only at g1 g2 g3 g4 g5 g6 g7
      have hs' : Safe i { x with cm := c' } :=
        safe_setCm h hr c' (fun r' size' hl' => by
          have e : r' = r := by have := hl'.recv.rb; rw [hl.recv.rb] at this; exact (Option.some.inj this).symm
          subst e
          exact ⟨g1, by rw [g2]; exact hl'.sz, by rw [g4]; exact hl'.inc⟩)
      rcases g6 with e | ⟨e, ec⟩
      · subst e
        dsimp only
        refine ⟨hs', rfl, fun _ => ?_⟩
        by_cases hf : x.cm.rbOff = x.cm.rbSize
        · exact g7 rfl hf
        · show c'.rbOff < c'.rbSize; omega
      · subst e; subst ec
        dsimp only
        by_cases hq : (x.cm.rbOff == x.cm.rbSize) = true
        · rw [if_neg (by rw [hq]; simp)]
          have := noSpaceOut_safe i { x with cm := x.cm } hs' hr
          exact ⟨this.1, this.2.1, fun hh => by rw [this.2.2] at hh; cases hh⟩
        · rw [if_pos (by simpa using hq)]
          refine ⟨hs', rfl, fun _ => ?_⟩
          simp only [beq_iff_eq] at hq
          show x.cm.rbOff < x.cm.rbSize; omega
    · have hd' : (x.cm.rbOff == x.cm.rbSize || (decide (x.cm.rbOff + x.cm.inc > x.cm.rbSize) && growRefine x)) = false := by
        cases hx : (x.cm.rbOff == x.cm.rbSize || (decide (x.cm.rbOff + x.cm.inc > x.cm.rbSize) && growRefine x)) with
        | false => rfl
        | true => exact absurd hx hd
      rw [if_pos (by rw [hd']; rfl)]
      refine ⟨h, rfl, fun _ => ?_⟩
      simp only [Bool.or_eq_false_iff, beq_eq_false_iff_ne] at hd'
      have := hd'.1; omega
  · have hw' : x.wantsRead = false := by cases hx : x.wantsRead <;> simp_all
    rw [checkGrow_eq_of_not_wantsRead x hw']
    exact ⟨h, rfl, fun hh => by rw [hw'] at hh; cases hh⟩

theorem updateEv_safe (i : Nat) (x : CR) (h : Safe i x) :
    Safe i (updateEv x) ∧ (updateEv x).lvl = x.lvl ∧
    ((updateEv x).wantsRead = true → (updateEv x).cm.rbOff < (updateEv x).cm.rbSize) := by
  unfold updateEv
  cases hp : x.phase with
  | body b =>
    dsimp only
    apply checkGrow_safe
    have h' := h; unfold Safe at h' ⊢; rw [hp] at h'; exact h'
  | _ => exact checkGrow_safe i x h

theorem idle_safe (i : Nat) (cfg : Cfg) (x : CR) (h : Safe i x) :
    Safe i (idle cfg x) ∧ (idle cfg x).lvl = x.lvl ∧
    ((idle cfg x).wantsRead = true → (idle cfg x).cm.rbOff < (idle cfg x).cm.rbSize) := by
  have h1 := idleStates_safe i cfg (x.cm.rbOff + 2) x h
  have h2 := updateEv_safe i _ h1.1
  unfold idle
  exact ⟨h2.1, by rw [h2.2.1, h1.2], h2.2.2⟩

theorem recvBytes_safe (i : Nat) (x : CR) (e : List UInt8) (h : Safe i x) (hr : x.reading = true)
    (hk : e.length ≤ x.space) : Safe i (recvBytes x e) ∧ (recvBytes x e).lvl = x.lvl := by
  obtain ⟨r, size, hl⟩ := reading_link h hr
  obtain ⟨c', he, hr', ho, _, hinc, _⟩ := recv_spec hl.recv e.length hk
  unfold recvBytes
  rw [he]
  dsimp only
  refine ⟨?_, rfl⟩
  unfold Safe at h ⊢
  have key : ∀ r0 size0, Link i x.cm r0 size0 →
      Link i (setMem c' (Mhd.Pool.writeAt c'.p.mem (x.cm.rb.getD 0 + x.cm.rbOff) e)) r0 (size0 + e.length) := by
    intro r0 size0 hl0
    have e0 : r0 = r := by have := hl0.recv.rb; rw [hl.recv.rb] at this; exact (Option.some.inj this).symm
    subst e0
    apply Link.setMem
    exact ⟨hr', by rw [ho]; have := hl0.sz; omega, by rw [hinc]; exact hl0.inc⟩
  cases hp : x.phase with
  | reqLine s =>
    rw [hp] at h
    refine ⟨?_, h.2.ext _⟩
    have := key _ _ h.1
    show Link i _ s.rb (s.buf ++ e.toArray).size
    rw [Array.size_append]; simpa using this
  | headers s fs =>
    rw [hp] at h
    refine ⟨?_, h.2.1.ext _, h.2.2.ext _⟩
    have := key _ _ h.1
    show Link i _ s.rb (s.buf ++ e.toArray).size
    rw [Array.size_append]; simpa using this
  | body b =>
    rw [hp] at h
    refine ⟨?_, h.2⟩
    have := key _ _ h.1
    show Link i _ b.rb (b.buf ++ e.toArray).size
    rw [Array.size_append]; simpa using this
  | cont100 b =>
    rw [hp] at h
    refine ⟨?_, h.2⟩
    have := key _ _ h.1
    show Link i _ b.rb (b.buf ++ e.toArray).size
    rw [Array.size_append]; simpa using this
  | footers s n =>
    rw [hp] at h
    refine ⟨?_, h.2.ext _⟩
    have := key _ _ h.1
    show Link i _ s.rb (s.buf ++ e.toArray).size
    rw [Array.size_append]; simpa using this
  | headersDone _ _ => simp only [CR.reading, hp] at hr; cases hr
  | reqDone _ _ _ => simp only [CR.reading, hp] at hr; cases hr
  | error _ => simp only [CR.reading, hp] at hr; cases hr
  | fault _ => simp only [CR.reading, hp] at hr; cases hr
  | refused _ => simp only [CR.reading, hp] at hr; cases hr

theorem feedFuel_safe (i : Nat) (cfg : Cfg) : ∀ (n : Nat) (x : CR) (bs : List UInt8), Safe i x →
    Safe i (feedFuel cfg n x bs) ∧ (feedFuel cfg n x bs).lvl = x.lvl ∧
    ((x.wantsRead = true → x.cm.rbOff < x.cm.rbSize) →
      (feedFuel cfg n x bs).wantsRead = true → (feedFuel cfg n x bs).cm.rbOff < (feedFuel cfg n x bs).cm.rbSize) := by
  intro n
  induction n with
  | zero => intro x bs h; exact ⟨h, rfl, fun hx => hx⟩
  | succ n ih =>
    intro x bs h
    unfold feedFuel
    split
    · exact ⟨h, rfl, fun hx => hx⟩
    · rename_i hc
      have hr : x.reading = true := by cases hx : x.reading <;> simp_all
      split
      · rename_i hc2
        simp only [Bool.and_eq_true, bne_iff_ne, ne_eq] at hc2
        have h1 := recvBytes_safe i x (bs.take (min bs.length x.space)) h hr
          (by rw [List.length_take]; omega)
        have h2 := idle_safe i cfg _ h1.1
        have h3 := ih (idle cfg (recvBytes x (bs.take (min bs.length x.space)))) (bs.drop (min bs.length x.space)) h2.1
        exact ⟨h3.1, by rw [h3.2.1, h2.2.1, h1.2], fun _ => h3.2.2 h2.2.2⟩
      · have h2 := idle_safe i cfg x h
        have h3 := ih (idle cfg x) bs h2.1
        exact ⟨h3.1, by rw [h3.2.1, h2.2.1], fun _ => h3.2.2 h2.2.2⟩

theorem feed_safe (i : Nat) (cfg : Cfg) (x : CR) (c : List UInt8) (h : Safe i x) :
    Safe i (feed cfg x c) ∧ (feed cfg x c).lvl = x.lvl ∧
    ((x.wantsRead = true → x.cm.rbOff < x.cm.rbSize) →
      (feed cfg x c).wantsRead = true → (feed cfg x c).cm.rbOff < (feed cfg x c).cm.rbSize) := by
  unfold feed
  split
  · split
    · have := idle_safe i cfg x h
      exact ⟨this.1, this.2.1, fun _ => this.2.2⟩
    · exact ⟨h, rfl, fun hx => hx⟩
  · exact feedFuel_safe i cfg _ x c h

theorem init_safe (allocSize poolSize inc : Nat) (lvl : Int) (ha : allocSize % Mhd.Pool.A = 0)
    (hs : allocSize < 2 ^ 62) (hp : poolSize ≤ allocSize) : Safe inc (init allocSize poolSize inc lvl) := by
  have f := init_fields allocSize poolSize inc ha hs hp
  have hi := init_inv allocSize poolSize inc ha hs hp
  refine ⟨⟨⟨hi, f.2.2.2.1, f.1, f.2.2.1⟩, ?_, f.2.2.2.2.2.1⟩, RLInvX.init _ _ _ (Nat.le_refl _)⟩
  show (#[] : Bytes).size = 0 + (ConnMem.init allocSize poolSize inc).rbOff
  rw [f.2.1]; rfl

/-- invariant of every run: all chunk lists -/
theorem run_safe (i : Nat) (cfg : Cfg) (chunks : List (List UInt8)) : ∀ (x : CR), Safe i x → Safe i (run cfg x chunks) := by
  induction chunks with
  | nil => intro x h; exact h
  | cons c cs ih =>
    intro x h
    exact ih (feed cfg x c) (feed_safe i cfg x c h).1

/-- a connection that will read has room in its window -/
theorem run_live (i : Nat) (cfg : Cfg) (chunks : List (List UInt8)) : ∀ (x : CR), Safe i x →
    (x.wantsRead = true → x.cm.rbOff < x.cm.rbSize) →
    (run cfg x chunks).wantsRead = true → (run cfg x chunks).cm.rbOff < (run cfg x chunks).cm.rbSize := by
  induction chunks with
  | nil => intro x _ hx; exact hx
  | cons c cs ih =>
    intro x h hx
    have h1 := feed_safe i cfg x c h
    exact ih (feed cfg x c) h1.1 (h1.2.2 hx)

theorem safe_not_faulty {i : Nat} {x : CR} (h : Safe i x) :
    (∀ f, x.phase ≠ .fault f) ∧ (∀ n, x.phase ≠ .refused n) := by
  unfold Safe at h
  constructor
  · intro f hp; rw [hp] at h; exact h
  · intro n hp; rw [hp] at h; exact h

/-- the buffer of a phase (arena prefix up to the end of the received data) and its `read_buffer` -/
def Phase.view? : Phase → Option (Bytes × Nat)
  | .reqLine s => some (s.buf, s.rb)
  | .headers s _ => some (s.buf, s.rb)
  | .headersDone h _ => some (h.buf, h.rb)
  | .cont100 b => some (b.buf, b.rb)
  | .body b => some (b.buf, b.rb)
  | .footers s _ => some (s.buf, s.rb)
  | .reqDone buf rb _ => some (buf, rb)
  | _ => none

/-- the buffer handed to the parsers is the arena prefix up to the end of the received data:
    it ends inside the read window, which lies inside the arena -/
theorem safe_view {i : Nat} {x : CR} (h : Safe i x) (buf : Bytes) (r : Nat) (hv : x.phase.view? = some (buf, r)) :
    x.cm.rb = some r ∧ x.cm.rbBase = 0 ∧ buf.size = r + x.cm.rbOff ∧ x.cm.rbOff ≤ x.cm.rbSize ∧
      r + x.cm.rbSize ≤ x.cm.p.pos ∧ x.cm.p.pos ≤ x.cm.p.size := by
  have key : ∀ {r size}, Link i x.cm r size → x.cm.rb = some r ∧ x.cm.rbBase = 0 ∧ size = r + x.cm.rbOff ∧
      x.cm.rbOff ≤ x.cm.rbSize ∧ r + x.cm.rbSize ≤ x.cm.p.pos ∧ x.cm.p.pos ≤ x.cm.p.size :=
    fun hl => ⟨hl.recv.rb, hl.recv.base, hl.sz, hl.recv.off_le, hl.recv.inside.1, hl.recv.inside.2⟩
  unfold Safe at h
  cases hp : x.phase <;> rw [hp] at h hv <;> simp only [Phase.view?, Option.some.injEq, Prod.mk.injEq] at hv
  · obtain ⟨rfl, rfl⟩ := hv; exact key h.1
  · obtain ⟨rfl, rfl⟩ := hv; exact key h.1
  · obtain ⟨rfl, rfl⟩ := hv; exact key h.1
  · obtain ⟨rfl, rfl⟩ := hv; exact key h.1
  · obtain ⟨rfl, rfl⟩ := hv; exact key h.1
  · obtain ⟨rfl, rfl⟩ := hv; exact key h.1
  · obtain ⟨rfl, rfl⟩ := hv; exact key h
  all_goals cases hv

end Mhd.ConnRead
