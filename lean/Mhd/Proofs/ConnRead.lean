/-
  Safety of the composed model `Mhd.ConnRead` (buffer layer + request-head parsers on one
  arena): the invariant `Safe` — buffer-layer invariant, the window/buffer link, the
  precondition of the parser of the current phase — holds in every state of every run;
  every operation issued to the buffer layer is accepted; no parser access faults.
-/
import Mhd.Proofs.ConnMemSpec
import Mhd.Proofs.ConnReadParse
import Mhd.Proofs.ReqLinePost
namespace Mhd.ConnRead
open Mhd.ConnMem Mhd.Req Mhd.Gen

/-- the read window of the buffer layer and the buffer the parser works on agree:
    the parser's buffer ends where the received data ends -/
structure Link (i : Nat) (c : CM) (rb size : Nat) : Prop where
  recv : Recv c rb
  sz : size = rb + c.rbOff
  inc : c.inc = i

theorem Link.setMem {i : Nat} {c : CM} {rb size : Nat} (h : Link i c rb size) (m : List UInt8) : Link i (setMem c m) rb size :=
  ⟨h.recv.setMem m, h.sz, h.inc⟩

/-- what holds in each phase -/
def PhaseInv (i : Nat) (lvl : Int) (c : CM) : Phase → Prop
  | .reqLine s => Link i c s.rb s.buf.size ∧ RLInvX (RLFlags.ofLevel lvl) s
  | .headers s _ => Link i c s.rb s.buf.size ∧ HSP.Inv s
  | .headersDone h => Link i c h.rb h.buf.size
  | .error _ => CMInv c
  | .fault _ => False
  | .refused _ => False

/-- invariant of the composed run: no fault, no refused operation, buffer-layer invariant,
    parser precondition of the current phase -/
def Safe (i : Nat) (x : CR) : Prop := PhaseInv i x.lvl x.cm x.phase

theorem safe_cminv {i : Nat} {x : CR} (h : Safe i x) : CMInv x.cm := by
  unfold Safe at h
  cases hp : x.phase <;> rw [hp] at h <;> simp only [PhaseInv] at h
  · exact h.1.recv.inv
  · exact h.1.recv.inv
  · exact h.recv.inv
  · exact h

theorem errorOut_safe (i : Nat) (x : CR) (k : ErrKind) (r : Nat) (h : Recv x.cm r) :
    Safe i (errorOut x k) ∧ (errorOut x k).lvl = x.lvl ∧ (errorOut x k).reading = false := by
  obtain ⟨c', he, hi⟩ := errRelease_spec h
  cases k with
  | closed => exact ⟨h.inv, rfl, rfl⟩
  | reply code =>
    have e : errorOut x (.reply code) = { x with cm := c', phase := .error (.reply code) } := by
      simp only [errorOut, he]
    rw [e]; exact ⟨hi, rfl, rfl⟩
  | noSpace =>
    have e : errorOut x .noSpace = { x with cm := c', phase := .error .noSpace } := by
      simp only [errorOut, he]
    rw [e]; exact ⟨hi, rfl, rfl⟩

theorem consumeTo_spec {i : Nat} {c : CM} {r size : Nat} (h : Link i c r size) (newRb : Nat) (h1 : r ≤ newRb) (h2 : newRb ≤ size) :
    ∃ c', consumeTo c newRb = some c' ∧ Link i c' newRb size ∧ c'.inc = c.inc ∧ c'.poolSize = c.poolSize := by
  obtain ⟨c', he, hr, ho, _, hinc, hps, _⟩ := consume_spec h.recv (newRb - r) (by have := h.sz; omega)
  refine ⟨c', by simp only [consumeTo, h.recv.rb, he], ⟨?_, ?_, by rw [hinc]; exact h.inc⟩, hinc, hps⟩
  · have e : r + (newRb - r) = newRb := by omega
    rw [e] at hr; exact hr
  · have := h.sz; omega

theorem hdrSize_lt : Mhd.Gen.ConnMem.reqHeaderSize < Mhd.Pool.W := by
  simp [Mhd.Gen.ConnMem.reqHeaderSize, Mhd.Pool.W]

theorem allocN_spec (i : Nat) (n : Nat) : ∀ {c : CM} {r size : Nat}, Link i c r size →
    Link i (allocN n c).1 r size ∧ (allocN n c).1.inc = c.inc ∧ (allocN n c).1.poolSize = c.poolSize := by
  induction n with
  | zero => intro c r size h; exact ⟨h, rfl, rfl⟩
  | succ n ih =>
    intro c r size h
    have a := alloc_spec h.recv _ hdrSize_lt
    have hl : Link i (step c (.alloc Mhd.Gen.ConnMem.reqHeaderSize)).1 r size :=
      ⟨a.1, by rw [a.2.1]; exact h.sz, by rw [a.2.2.2.1]; exact h.inc⟩
    simp only [allocN]
    generalize hst : step c (.alloc Mhd.Gen.ConnMem.reqHeaderSize) = res at a hl
    obtain ⟨c', rr⟩ := res
    cases rr with
    | ptr o =>
      cases o with
      | some v =>
        have := ih hl
        exact ⟨this.1, by rw [this.2.1]; exact a.2.2.2.1, by rw [this.2.2]; exact a.2.2.2.2.1⟩
      | none => exact ⟨hl, a.2.2.2.1, a.2.2.2.2.1⟩
    | ok => exact ⟨hl, a.2.2.2.1, a.2.2.2.2.1⟩
    | bool b => exact ⟨hl, a.2.2.2.1, a.2.2.2.2.1⟩
    | size k => exact ⟨hl, a.2.2.2.1, a.2.2.2.2.1⟩
    | badOp => exact ⟨hl, a.2.2.2.1, a.2.2.2.2.1⟩

/-- the state in which header parsing starts satisfies the header parser's invariant -/
theorem ofTarget_inv (t : Target) (n : Nat) (h1 : t.rb ≤ t.buf.size)
    (h2 : t.version + Discipline.httpVerLen + 1 ≤ t.rb)
    (h3 : ∀ el ∈ t.elems, el.kind ≠ Http.kindHeader) : HSP.Inv (HS.ofTarget t n) :=
  ⟨by simpa [HS.ofTarget] using h1, by show 1 ≤ t.rb; omega, Nat.le_refl _, Nat.le_refl _,
   Nat.le_refl _, h2, fun el hm hk => absurd hk (h3 el hm)⟩

theorem afterLine_safe (i : Nat) (x : CR) (r : ReqLine) (hl : Link i x.cm r.rb r.buf.size) (hp : RLPost r) :
    Safe i (afterLine x r) ∧ (afterLine x r).lvl = x.lvl := by
  unfold afterLine
  cases lineWspCheck (RLFlags.ofLevel x.lvl) x.cm.poolSize r with
  | some e => exact ⟨(errorOut_safe i x _ _ hl.recv).1, (errorOut_safe i x _ _ hl.recv).2.1⟩
  | none =>
    dsimp only
    have hv := hp.hv
    have hlen : r.tgt + r.tgtLen < r.buf.size := by have := hp.htl; have := hp.hrb; omega
    obtain ⟨T, hT, hsz, _, _, _, hel, hrb, _, hver⟩ :=
      TGT.processRequestTarget_no_fault (Discipline.unesc_strict x.lvl) r hlen hp.hnul hp.hq
    rw [hT]
    dsimp only
    have a := allocN_spec i T.elems.length hl
    generalize hst : allocN T.elems.length x.cm = res at a
    obtain ⟨c1, b⟩ := res
    cases b with
    | false =>
      have := errorOut_safe i { x with cm := c1 } (.reply Mhd.Gen.ConnMem.httpHeaderFieldsTooLarge) _ a.1.recv
      exact ⟨this.1, this.2.1⟩
    | true =>
      refine ⟨⟨?_, ?_⟩, rfl⟩
      · show Link i (writeBack c1 T.buf) T.rb T.buf.size
        rw [hrb, hsz]; exact a.1.setMem _
      · apply ofTarget_inv
        · rw [hrb, hsz]; exact hp.hrb
        · rw [hrb, hver]; exact hv
        · intro el hm; rw [(hel el hm).2]; decide

theorem idleReqLine_safe (i : Nat) (x : CR) (s : RL) (hl : Link i x.cm s.rb s.buf.size)
    (hi : RLInvX (RLFlags.ofLevel x.lvl) s) :
    Safe i (idleReqLine x s) ∧ (idleReqLine x s).lvl = x.lvl := by
  unfold idleReqLine
  cases hr : (rlScanner (RLFlags.ofLevel x.lvl)).run s with
  | fault f => exact absurd hr (Scanner.run_no_fault (rlLaws _) s hi.toInv f)
  | more s1 =>
    obtain ⟨hi1, hsz, hrb⟩ := rl_run_more _ hi hr
    have hp1 := hi1.toInv.hp
    obtain ⟨c1, hc, hl1, _, _⟩ := consumeTo_spec hl s1.rb hrb (by omega)
    simp only [hc]
    have hl1' : Link i (writeBack c1 s1.buf) s1.rb s1.buf.size := by rw [hsz]; exact hl1.setMem _
    split
    · have := errorOut_safe i { x with cm := writeBack c1 s1.buf, phase := .reqLine s1 } (.reply Http.codeBadRequest) _ hl1'.recv
      exact ⟨this.1, this.2.1⟩
    · exact ⟨⟨hl1', hi1⟩, rfl⟩
  | done d =>
    cases d with
    | err e => exact ⟨(errorOut_safe i x _ _ hl.recv).1, (errorOut_safe i x _ _ hl.recv).2.1⟩
    | ok r =>
      obtain ⟨hp, hsz, hm⟩ := rl_run_done _ hi hr
      have := hp.hm; have := hp.htl; have := hp.hv; have := hp.hrb
      obtain ⟨c1, hc, hl1, _, _⟩ := consumeTo_spec hl r.rb (by omega) (by omega)
      simp only [hc]
      have hl1' : Link i (writeBack c1 r.buf) r.rb r.buf.size := by rw [hsz]; exact hl1.setMem _
      have := afterLine_safe i { x with cm := writeBack c1 r.buf } r hl1' hp
      exact ⟨this.1, this.2⟩

theorem inv_rbSize {s : HS} (h : HSP.Inv s) (n : Nat) : HSP.Inv { s with rbSize := n } :=
  ⟨h.hp, h.hrb, h.hws, h.hname, h.hvs, h.hver, h.helems⟩

theorem hdrBody_safe (i : Nat) (lvl : Int) (fs : Nat) (k : CM → HS → CR) (m : Nat)
    (hk : ∀ (c : CM) (s : HS), Link i c s.rb s.buf.size → HSP.Inv s →
      (hsScanner (FLFlags.ofLevel lvl) fs).measure s < m → Safe i (k c s) ∧ (k c s).lvl = lvl)
    (c : CM) (s0 : HS) (hl0 : Link i c s0.rb s0.buf.size) (hi0 : HSP.Inv s0)
    (hm0 : (hsScanner (FLFlags.ofLevel lvl) fs).measure s0 < m + 1) :
    Safe i (hdrBody lvl fs k c s0) ∧ (hdrBody lvl fs k c s0).lvl = lvl := by
  have L := HSP.hsLaws (FLFlags.ofLevel lvl) fs
  have ok := HSP.hsStep_ok (FLFlags.ofLevel lvl) fs s0 hi0
  unfold hdrBody
  cases hst : hsStep (FLFlags.ofLevel lvl) fs s0 with
  | needMore => exact ⟨⟨hl0.setMem _, hi0⟩, rfl⟩
  | fault f => exact absurd hst (L.no_fault s0 f hi0)
  | done d =>
    cases d with
    | err k =>
      have := errorOut_safe i { cm := c, lvl := lvl, phase := .headers s0 fs } (.reply Http.codeBadRequest) _ hl0.recv
      exact ⟨this.1, this.2.1⟩
    | ok h =>
      obtain ⟨g1, g2, g3, g4⟩ := HSP.hsStep_done_shape _ fs s0 hi0 h hst
      obtain ⟨c1, hc, hl1, _, _⟩ := consumeTo_spec hl0 (h.rb + h.shifted) g2 g3
      obtain ⟨c2, hc2, hr2, ho2, _, hinc2, _⟩ := shiftBack_spec hl1.recv h.shifted (by omega)
      simp only [hc, hc2]
      refine ⟨?_, by first | rfl | trivial⟩
      show Link i (writeBack c2 h.buf) h.rb h.buf.size
      apply Link.setMem
      refine ⟨?_, ?_, by rw [hinc2]; exact hl1.inc⟩
      · have e : h.rb + h.shifted - h.shifted = h.rb := by omega
        rw [e] at hr2; exact hr2
      · have := hl1.sz; rw [ho2]; omega
  | advance s1 =>
    obtain ⟨hi1, hsz, _⟩ := ok.adv s1 hst
    have hmono := (HSP.hsStep_mono _ fs s0 s1 hst).rb
    have hp1 := hi1.hp
    obtain ⟨c1, hc, hl1, _, _⟩ := consumeTo_spec hl0 s1.rb hmono (by omega)
    have hl1' : Link i c1 s1.rb s1.buf.size := by rw [hsz]; exact hl1
    have hdec := L.decr s0 s1 hi0 hst
    simp only [hc]
    split
    · have a := alloc_spec hl1'.recv _ hdrSize_lt
      have hl2 : Link i (step c1 (.alloc Mhd.Gen.ConnMem.reqHeaderSize)).1 s1.rb s1.buf.size :=
        ⟨a.1, by rw [a.2.1]; exact hl1'.sz, by rw [a.2.2.2.1]; exact hl1'.inc⟩
      generalize step c1 (.alloc Mhd.Gen.ConnMem.reqHeaderSize) = res at hl2
      obtain ⟨c2, rr⟩ := res
      have er := errorOut_safe i { cm := c2, lvl := lvl, phase := .headers s1 fs } .noSpace _ hl2.recv
      cases rr with
      | ptr o =>
        cases o with
        | some v => exact hk c2 s1 hl2 hi1 (by omega)
        | none => exact ⟨er.1, er.2.1⟩
      | ok => exact ⟨er.1, er.2.1⟩
      | bool b => exact ⟨er.1, er.2.1⟩
      | size k => exact ⟨er.1, er.2.1⟩
      | badOp => exact ⟨er.1, er.2.1⟩
    · exact hk c1 s1 hl1' hi1 (by omega)

theorem hdrLoop_safe (i : Nat) (lvl : Int) (fs : Nat) : ∀ (n : Nat) (c : CM) (s : HS), Link i c s.rb s.buf.size → HSP.Inv s →
    (hsScanner (FLFlags.ofLevel lvl) fs).measure s < n →
    Safe i (hdrLoop lvl fs n c s) ∧ (hdrLoop lvl fs n c s).lvl = lvl := by
  intro n
  induction n with
  | zero => intro c s _ _ hm; omega
  | succ n ih =>
    intro c s hl hi hm
    exact hdrBody_safe i lvl fs (hdrLoop lvl fs n) n ih c { s with rbSize := c.rbSize } hl (inv_rbSize hi _) hm

theorem idleHeaders_safe (i : Nat) (x : CR) (s : HS) (fs : Nat) (hl : Link i x.cm s.rb s.buf.size) (hi : HSP.Inv s) :
    Safe i (idleHeaders x s fs) ∧ (idleHeaders x s fs).lvl = x.lvl :=
  hdrLoop_safe i x.lvl fs _ x.cm s hl hi (Nat.lt_succ_self _)

theorem idleStates_safe (i : Nat) (x : CR) (h : Safe i x) : Safe i (idleStates x) ∧ (idleStates x).lvl = x.lvl := by
  unfold idleStates
  unfold Safe at h
  cases hp : x.phase with
  | reqLine s =>
    rw [hp] at h
    have h1 := idleReqLine_safe i x s h.1 h.2
    dsimp only
    cases hp1 : (idleReqLine x s).phase with
    | headers hs fs =>
      dsimp only
      have h1s := h1.1
      unfold Safe at h1s
      rw [hp1] at h1s
      have := idleHeaders_safe i (idleReqLine x s) hs fs h1s.1 h1s.2
      exact ⟨this.1, by rw [this.2, h1.2]⟩
    | reqLine _ => exact h1
    | headersDone _ => exact h1
    | error _ => exact h1
    | fault _ => exact h1
    | refused _ => exact h1
  | headers hs fs =>
    rw [hp] at h
    exact idleHeaders_safe i x hs fs h.1 h.2
  | headersDone _ => exact ⟨by unfold Safe; rw [hp]; rw [hp] at h; exact h, rfl⟩
  | error _ => exact ⟨by unfold Safe; rw [hp]; rw [hp] at h; exact h, rfl⟩
  | fault _ => rw [hp] at h; exact absurd h (by simp [PhaseInv])
  | refused _ => rw [hp] at h; exact absurd h (by simp [PhaseInv])

/-- the window of a reading connection -/
theorem reading_link {i : Nat} {x : CR} (h : Safe i x) (hr : x.reading = true) : ∃ r size, Link i x.cm r size := by
  unfold Safe at h
  cases hp : x.phase <;> rw [hp] at h <;> simp only [CR.reading, hp] at hr
  · exact ⟨_, _, h.1⟩
  · exact ⟨_, _, h.1⟩
  all_goals cases hr

theorem safe_setCm {i : Nat} {x : CR} (h : Safe i x) (hr : x.reading = true) (c' : CM)
    (hc : ∀ r size, Link i x.cm r size → Link i c' r size) : Safe i { x with cm := c' } := by
  unfold Safe at h ⊢
  cases hp : x.phase <;> rw [hp] at h <;> simp only [CR.reading, hp] at hr
  · exact ⟨hc _ _ h.1, h.2⟩
  · exact ⟨hc _ _ h.1, h.2⟩
  all_goals cases hr

theorem checkGrow_eq_of_not_reading (x : CR) (h : x.reading = false) : checkGrow x = x := by
  unfold checkGrow; simp [h]

/-- `check_and_grow_read_buffer_space`: safe, and afterwards a connection that still wants to
    read has room in its window (unless `pool_increment` is 1 … 7, see `growSize_strict`) -/
theorem checkGrow_safe (i : Nat) (x : CR) (h : Safe i x) :
    Safe i (checkGrow x) ∧ (checkGrow x).lvl = x.lvl ∧
    ((checkGrow x).reading = true → (checkGrow x).cm.rbOff < (checkGrow x).cm.rbSize) := by
  by_cases hr : x.reading = true
  · obtain ⟨r, size, hl⟩ := reading_link h hr
    have hle := hl.recv.off_le
    have hinc := hl.inc
    by_cases hd : ((x.cm.rbOff == x.cm.rbSize) || decide (x.cm.rbOff + x.cm.inc > x.cm.rbSize)) = true
    · have g := grow_spec hl.recv (x.cm.rbOff == x.cm.rbSize)
      generalize hst : step x.cm (.grow (x.cm.rbOff == x.cm.rbSize)) = res at g
      obtain ⟨c', rr⟩ := res
      obtain ⟨g1, g2, g3, g4, g5, g6, g7⟩ := g
      have hs' : Safe i { x with cm := c' } :=
        safe_setCm h hr c' (fun r' size' hl' => by
          have e : r' = r := by have := hl'.recv.rb; rw [hl.recv.rb] at this; exact (Option.some.inj this).symm
          subst e
          exact ⟨g1, by rw [g2]; exact hl'.sz, by rw [g4]; exact hl'.inc⟩)
      rcases g6 with e | ⟨e, ec⟩
      · dsimp only at e; subst e
        have ee : checkGrow x = { x with cm := c' } := by
          unfold checkGrow
          rw [if_neg (by rw [hr]; simp)]
          dsimp only
          rw [if_neg (by rw [hd]; simp), hst]
        rw [ee]
        refine ⟨hs', rfl, ?_⟩
        intro _
        by_cases hf : x.cm.rbOff = x.cm.rbSize
        · exact g7 rfl hf
        · show c'.rbOff < c'.rbSize
          dsimp only at g2 g3; omega
      · dsimp only at e ec; subst e; subst ec
        by_cases hq : (x.cm.rbOff == x.cm.rbSize) = true
        · have ee : checkGrow x = errorOut x .noSpace := by
            unfold checkGrow
            rw [if_neg (by rw [hr]; simp)]
            dsimp only
            rw [if_neg (by rw [hd]; simp), hst]
            dsimp only
            rw [if_neg (by rw [hq]; simp)]
          rw [ee]
          have er := errorOut_safe i x .noSpace _ hl.recv
          refine ⟨er.1, er.2.1, ?_⟩
          intro hrd; rw [er.2.2] at hrd; cases hrd
        · have ee : checkGrow x = x := by
            unfold checkGrow
            rw [if_neg (by rw [hr]; simp)]
            dsimp only
            rw [if_neg (by rw [hd]; simp), hst]
            dsimp only
            rw [if_pos (by simpa using hq)]
          rw [ee]
          refine ⟨h, rfl, ?_⟩
          intro _
          simp only [beq_iff_eq] at hq
          omega
    · have ee : checkGrow x = x := by
        unfold checkGrow
        rw [if_neg (by rw [hr]; simp)]
        dsimp only
        rw [if_pos (by simpa using hd)]
      rw [ee]
      refine ⟨h, rfl, ?_⟩
      intro _
      simp only [Bool.or_eq_true, beq_iff_eq, decide_eq_true_eq, not_or] at hd
      omega
  · have hr' : x.reading = false := by cases hx : x.reading <;> simp_all
    rw [checkGrow_eq_of_not_reading x hr']
    exact ⟨h, rfl, fun hh => by rw [hr'] at hh; cases hh⟩

theorem idle_safe (i : Nat) (x : CR) (h : Safe i x) :
    Safe i (idle x) ∧ (idle x).lvl = x.lvl ∧
    ((idle x).reading = true → (idle x).cm.rbOff < (idle x).cm.rbSize) := by
  have h1 := idleStates_safe i x h
  have h2 := checkGrow_safe i (idleStates x) h1.1
  unfold idle
  exact ⟨h2.1, by rw [h2.2.1, h1.2], h2.2.2⟩

theorem recvBytes_safe (i : Nat) (x : CR) (e : List UInt8) (h : Safe i x) (hr : x.reading = true)
    (hk : e.length ≤ x.space) : Safe i (recvBytes x e) ∧ (recvBytes x e).lvl = x.lvl := by
  obtain ⟨r, size, hl⟩ := reading_link h hr
  obtain ⟨c', he, hr', ho, _, hinc, _⟩ := recv_spec hl.recv e.length hk
  unfold recvBytes
  rw [he]
  dsimp only
  refine ⟨?_, rfl⟩
  unfold Safe at h ⊢
  have key : ∀ r0 size0, Link i x.cm r0 size0 →
      Link i (setMem c' (Mhd.Pool.writeAt c'.p.mem (x.cm.rb.getD 0 + x.cm.rbOff) e)) r0 (size0 + e.length) := by
    intro r0 size0 hl0
    have e0 : r0 = r := by have := hl0.recv.rb; rw [hl.recv.rb] at this; exact (Option.some.inj this).symm
    subst e0
    apply Link.setMem
    exact ⟨hr', by rw [ho]; have := hl0.sz; omega, by rw [hinc]; exact hl0.inc⟩
  cases hp : x.phase with
  | reqLine s =>
    rw [hp] at h
    refine ⟨?_, h.2.ext _⟩
    have := key _ _ h.1
    show Link i _ s.rb (s.buf ++ e.toArray).size
    rw [Array.size_append]; simpa using this
  | headers s fs =>
    rw [hp] at h
    refine ⟨?_, h.2.ext _⟩
    have := key _ _ h.1
    show Link i _ s.rb (s.buf ++ e.toArray).size
    rw [Array.size_append]; simpa using this
  | headersDone _ => simp only [CR.reading, hp] at hr; cases hr
  | error _ => simp only [CR.reading, hp] at hr; cases hr
  | fault _ => simp only [CR.reading, hp] at hr; cases hr
  | refused _ => simp only [CR.reading, hp] at hr; cases hr

theorem feedFuel_safe (i : Nat) : ∀ (n : Nat) (x : CR) (bs : List UInt8), Safe i x →
    Safe i (feedFuel n x bs) ∧ (feedFuel n x bs).lvl = x.lvl ∧
    ((x.reading = true → x.cm.rbOff < x.cm.rbSize) →
      (feedFuel n x bs).reading = true → (feedFuel n x bs).cm.rbOff < (feedFuel n x bs).cm.rbSize) := by
  intro n
  induction n with
  | zero => intro x bs h; exact ⟨h, rfl, fun hx => hx⟩
  | succ n ih =>
    intro x bs h
    unfold feedFuel
    split
    · exact ⟨h, rfl, fun hx => hx⟩
    · rename_i hc
      simp only [Bool.or_eq_true, Bool.not_eq_true', not_or, beq_iff_eq] at hc
      have hr : x.reading = true := by cases hx : x.reading <;> simp_all
      have h1 := recvBytes_safe i x (bs.take (min bs.length x.space)) h hr
        (by rw [List.length_take]; omega)
      have h2 := idle_safe i _ h1.1
      have h3 := ih (idle (recvBytes x (bs.take (min bs.length x.space)))) (bs.drop (min bs.length x.space)) h2.1
      exact ⟨h3.1, by rw [h3.2.1, h2.2.1, h1.2], fun _ => h3.2.2 h2.2.2⟩

theorem init_safe (allocSize poolSize inc : Nat) (lvl : Int) (ha : allocSize % Mhd.Pool.A = 0)
    (hs : allocSize < 2 ^ 62) (hp : poolSize ≤ allocSize) : Safe inc (init allocSize poolSize inc lvl) := by
  have f := init_fields allocSize poolSize inc ha hs hp
  have hi := init_inv allocSize poolSize inc ha hs hp
  refine ⟨⟨⟨hi, f.2.2.2.1, f.1, f.2.2.1⟩, ?_, f.2.2.2.2.2.1⟩, RLInvX.init _ _ _ (Nat.le_refl _)⟩
  show (#[] : Bytes).size = 0 + (ConnMem.init allocSize poolSize inc).rbOff
  rw [f.2.1]; rfl

/-- invariant of every run: all chunk lists -/
theorem run_safe (i : Nat) (chunks : List (List UInt8)) : ∀ (x : CR), Safe i x → Safe i (run x chunks) := by
  induction chunks with
  | nil => intro x h; exact h
  | cons c cs ih =>
    intro x h
    exact ih (feed x c) (feedFuel_safe i (c.length + 1) x c h).1

/-- a connection that still wants to read has room in its window -/
theorem run_live (i : Nat) (chunks : List (List UInt8)) : ∀ (x : CR), Safe i x →
    (x.reading = true → x.cm.rbOff < x.cm.rbSize) →
    (run x chunks).reading = true → (run x chunks).cm.rbOff < (run x chunks).cm.rbSize := by
  induction chunks with
  | nil => intro x _ hx; exact hx
  | cons c cs ih =>
    intro x h hx
    have h1 := feedFuel_safe i (c.length + 1) x c h
    exact ih (feed x c) h1.1 (h1.2.2 hx)

theorem safe_not_faulty {i : Nat} {x : CR} (h : Safe i x) :
    (∀ f, x.phase ≠ .fault f) ∧ (∀ n, x.phase ≠ .refused n) := by
  unfold Safe at h
  constructor
  · intro f hp; rw [hp] at h; exact h
  · intro n hp; rw [hp] at h; exact h

/-- the buffer handed to the parsers is the arena prefix up to the end of the received data:
    it ends inside the read window, which lies inside the arena -/
theorem safe_view {i : Nat} {x : CR} (h : Safe i x) (hr : x.reading = true) :
    ∃ r, x.cm.rb = some r ∧ x.cm.rbBase = 0 ∧ x.cm.rbOff ≤ x.cm.rbSize ∧ r + x.cm.rbSize ≤ x.cm.p.pos ∧
      x.cm.p.pos ≤ x.cm.p.size ∧
      (match x.phase with
       | .reqLine s => s.rb = r ∧ s.buf.size = r + x.cm.rbOff
       | .headers s _ => s.rb = r ∧ s.buf.size = r + x.cm.rbOff
       | _ => True) := by
  unfold Safe at h
  cases hp : x.phase with
  | reqLine s =>
    rw [hp] at h
    exact ⟨s.rb, h.1.recv.rb, h.1.recv.base, h.1.recv.off_le, h.1.recv.inside.1, h.1.recv.inside.2, rfl, h.1.sz⟩
  | headers s fs =>
    rw [hp] at h
    exact ⟨s.rb, h.1.recv.rb, h.1.recv.base, h.1.recv.off_le, h.1.recv.inside.1, h.1.recv.inside.2, rfl, h.1.sz⟩
  | headersDone _ => simp only [CR.reading, hp] at hr; cases hr
  | error _ => simp only [CR.reading, hp] at hr; cases hr
  | fault _ => simp only [CR.reading, hp] at hr; cases hr
  | refused _ => simp only [CR.reading, hp] at hr; cases hr

end Mhd.ConnRead
