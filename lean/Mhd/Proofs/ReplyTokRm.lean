import Mhd.Proofs.ReplyTokens
set_option linter.unusedSimpArgs false
set_option linter.unusedVariables false
namespace Mhd.Tok
open Mhd.ReplyStr Mhd.Resp
open Mhd.Http (splitComma trimOWS ciEq hasToken isOWS vClose lower)

/-! ### specification of `MHD_str_remove_token_caseless_` (model copy `removeTokenCaseless`) -/

def nonSep (c : UInt8) : Bool := !(c == 44 || c == 32 || c == 9)

theorem copyWord_spec (bs : Nat) : ∀ (s out s' out' : Bytes), copyWord bs s out = some (s', out') →
    out' = out ++ s.takeWhile nonSep ∧ s' = s.dropWhile nonSep
  | [], out, s', out', h => by simp [copyWord] at h; simp [h.1, h.2]
  | c :: s, out, s', out', h => by
    simp only [copyWord] at h
    by_cases hc : (c == 44 || c == 32 || c == 9) = true
    · simp only [hc, if_true] at h
      simp at h
      have : nonSep c = false := by simp [nonSep, hc]
      simp [List.takeWhile, List.dropWhile, this, h.1, h.2]
    · simp only [hc, Bool.false_eq_true, if_false] at h
      have hn : nonSep c = true := by simp [nonSep, hc]
      split at h
      · simp at h
      · obtain ⟨h1, h2⟩ := copyWord_spec bs s (out ++ [c]) s' out' h
        simp [List.takeWhile, List.dropWhile, hn, h1, h2]

theorem mem_takeWhile_p (p : UInt8 → Bool) : ∀ (l : Bytes) (b : UInt8), b ∈ l.takeWhile p → p b = true
  | [], b, h => by simp at h
  | x :: l, b, h => by
    simp only [List.takeWhile] at h
    split at h
    · rename_i hx
      rcases List.mem_cons.1 h with rfl | h'
      · exact hx
      · exact mem_takeWhile_p p l b h'
    · cases h

theorem length_dropWhile_le' (p : UInt8 → Bool) : ∀ (l : Bytes), (l.dropWhile p).length ≤ l.length
  | [] => by simp
  | x :: l => by
    simp only [List.dropWhile]
    split
    · have := length_dropWhile_le' p l; simp; omega
    · simp

theorem dropWhile_head_not (p : UInt8 → Bool) : ∀ (l : Bytes) (c : UInt8) (rest : Bytes), l.dropWhile p = c :: rest → p c = false
  | [], c, rest, h => by simp at h
  | x :: l, c, rest, h => by
    simp only [List.dropWhile] at h
    split at h
    · exact dropWhile_head_not p l c rest h
    · rename_i hx
      simp at h; rw [← h.1]; simpa using hx

theorem ws_of_not_nonSep (c : UInt8) (h1 : nonSep c = false) (h2 : c ≠ 44) : isWs c = true := by
  simp only [nonSep, Bool.not_eq_false', Bool.or_eq_true, beq_iff_eq] at h1
  simp only [isWs, Bool.or_eq_true, beq_iff_eq]
  rcases h1 with (h | h) | h
  · exact absurd h h2
  · exact Or.inl h
  · exact Or.inr h

/-- last element is not whitespace -/
def LastOK (R : Bytes) : Prop := R = [] ∨ ∃ pre x, R = pre ++ [x] ∧ isWs x = false
def NoComma (R : Bytes) : Prop := ∀ b ∈ R, b ≠ 44

theorem takeWhile_nonSep_props (s : Bytes) :
    NoComma (s.takeWhile nonSep) ∧ (∀ b ∈ s.takeWhile nonSep, isWs b = false) := by
  constructor
  · intro b hb
    have := mem_takeWhile_p _ _ _ hb
    intro h; subst h; simp [nonSep] at this
  · intro b hb
    have := mem_takeWhile_p _ _ _ hb
    simp [nonSep] at this
    simp [isWs, this]

theorem lastOK_append_ne (a b : Bytes) (hb : b ≠ []) (h : LastOK b) : LastOK (a ++ b) := by
  rcases h with h | ⟨pre, x, h1, h2⟩
  · exact absurd h hb
  · right; exact ⟨a ++ pre, x, by rw [h1]; simp, h2⟩

theorem lastOK_of_all (w : Bytes) (h : ∀ b ∈ w, isWs b = false) : LastOK w := by
  rcases List.eq_nil_or_concat w with hw | ⟨pre, x, hw⟩
  · left; exact hw
  · right; exact ⟨pre, x, by simpa using hw, h x (by rw [hw]; simp)⟩

/-- what `copyTokenRest` appends for the rest of the current element -/
theorem copyTokenRest_spec (bs : Nat) : ∀ (fuel : Nat) (s acc s'' out2 : Bytes), s.length < fuel →
    copyTokenRest bs fuel s acc = some (s'', out2) →
    ∃ R, out2 = acc ++ R ∧ NoComma R ∧ LastOK R ∧
      (R = [] ∨ R.head? = some 32 ∨ R.head? = s.head?) ∧
      (∀ c t, s = c :: t → nonSep c = true → R ≠ [] ∧ R.head? = some c) ∧
      (∀ c t, s.dropWhile isWs = c :: t → c ≠ 44 → R ≠ [])
  | 0, s, acc, s'', out2, hf, h => by omega
  | fuel + 1, [], acc, s'', out2, hf, h => by
    simp [copyTokenRest] at h
    refine ⟨[], (by simp [h.2]), (by intro b hb; cases hb), Or.inl rfl, Or.inl rfl, ?_, ?_⟩
    · intro c t hs; cases hs
    · intro c t hs; simp at hs
  | fuel + 1, c :: t, acc, s'', out2, hf, h => by
    simp only [copyTokenRest] at h
    by_cases hc : (c == 44) = true
    · simp [hc] at h
      have hc' : c = 44 := by simpa using hc
      refine ⟨[], (by simp [h.2]), (by intro b hb; cases hb), Or.inl rfl, Or.inl rfl, ?_, ?_⟩
      · intro c2 t2 hs hn; simp at hs; rw [← hs.1, hc'] at hn; simp [nonSep] at hn
      · intro c2 t2 hs hne
        subst hc'
        have : isWs 44 = false := by decide
        simp [List.dropWhile, this] at hs
        exact absurd hs.1.symm hne
    · simp only [hc] at h
      cases hcw : copyWord bs (c :: t) acc with
      | none => rw [hcw] at h; simp at h
      | some p =>
        obtain ⟨s1, out1⟩ := p
        rw [hcw] at h; simp only at h
        obtain ⟨ho1, hs1⟩ := copyWord_spec bs _ _ _ _ hcw
        obtain ⟨wNC, wNW⟩ := takeWhile_nonSep_props (c :: t)
        have hlen1 : s1.length ≤ (c :: t).length := by
          rw [hs1]; exact length_dropWhile_le' _ _
        cases hsw : s1.dropWhile isWs with
        | nil =>
          rw [hsw] at h; simp at h
          refine ⟨(c :: t).takeWhile nonSep, by rw [← h.2, ho1], wNC, lastOK_of_all _ wNW, ?_, ?_, ?_⟩
          · by_cases hn : nonSep c = true
            · right; right; simp [List.takeWhile, hn]
            · left; simp [List.takeWhile, hn]
          · intro c2 t2 hs hn
            simp at hs; obtain ⟨rfl, rfl⟩ := hs
            simp [List.takeWhile, hn]
          · intro c2 t2 hs hne
            by_cases hn : nonSep c = true
            · simp [List.takeWhile, hn]
            · -- c is whitespace: the remainder after whitespace is s1.dropWhile isWs = []
              exfalso
              have hws : isWs c = true := ws_of_not_nonSep c (by simpa using hn) (by simpa using hc)
              have : s1 = c :: t := by rw [hs1]; simp [List.dropWhile, hn]
              rw [this] at hsw
              rw [hsw] at hs; cases hs
        | cons c2 rest =>
          rw [hsw] at h; simp only at h
          have hlen2 : (c2 :: rest).length ≤ s1.length := by
            rw [← hsw]; exact length_dropWhile_le' _ _
          by_cases hc2 : (c2 == 44) = true
          · simp [hc2] at h
            refine ⟨(c :: t).takeWhile nonSep, by rw [← h.2, ho1], wNC, lastOK_of_all _ wNW, ?_, ?_, ?_⟩
            · by_cases hn : nonSep c = true
              · right; right; simp [List.takeWhile, hn]
              · left; simp [List.takeWhile, hn]
            · intro c3 t3 hs hn
              simp at hs; obtain ⟨rfl, rfl⟩ := hs
              simp [List.takeWhile, hn]
            · intro c3 t3 hs hne
              by_cases hn : nonSep c = true
              · simp [List.takeWhile, hn]
              · exfalso
                have : s1 = c :: t := by rw [hs1]; simp [List.dropWhile, hn]
                rw [this] at hsw
                rw [hsw] at hs
                simp at hs
                have : c2 = 44 := by simpa using hc2
                exact hne (by rw [← hs.1, this])
          · simp only [hc2] at h
            by_cases hsz : bs ≤ out1.length
            · simp [hsz] at h
            · simp only [hsz] at h
              -- c2 is a word character: not whitespace (dropWhile), not comma
              have hc2ws : isWs c2 = false := dropWhile_head_not isWs s1 c2 rest hsw
              have hc2n : nonSep c2 = true := by
                have h44 : c2 ≠ 44 := by simpa using hc2
                simp [isWs] at hc2ws
                simp [nonSep, h44, hc2ws.1, hc2ws.2]
              -- progress: either the word or the whitespace consumed something
              have hprog : (c2 :: rest).length < (c :: t).length := by
                by_cases hn : nonSep c = true
                · have : s1.length ≤ t.length := by
                    rw [hs1]; simp only [List.dropWhile, hn]
                    exact length_dropWhile_le' _ _
                  simp at hlen2 ⊢; omega
                · have e1 : s1 = c :: t := by rw [hs1]; simp [List.dropWhile, hn]
                  have hws : isWs c = true := ws_of_not_nonSep c (by simpa using hn) (by simpa using hc)
                  rw [e1] at hsw
                  simp only [List.dropWhile, hws] at hsw
                  have : (c2 :: rest).length ≤ t.length := by rw [← hsw]; exact length_dropWhile_le' _ _
                  simp at this ⊢; omega
              obtain ⟨R', r1, r2, r3, r4, r5, r6⟩ := copyTokenRest_spec bs fuel (c2 :: rest) (out1 ++ [32]) s'' out2
                (by simp at hprog hf ⊢; omega) h
              obtain ⟨r5a, r5b⟩ := r5 c2 rest rfl hc2n
              refine ⟨(c :: t).takeWhile nonSep ++ 32 :: R', by rw [r1, ho1]; simp [List.append_assoc], ?_, ?_, ?_, ?_, ?_⟩
              · intro b hb
                simp only [List.mem_append, List.mem_cons] at hb
                rcases hb with hb | rfl | hb
                · exact wNC b hb
                · decide
                · exact r2 b hb
              · have : (c :: t).takeWhile nonSep ++ 32 :: R' = ((c :: t).takeWhile nonSep ++ [32]) ++ R' := by simp
                rw [this]; exact lastOK_append_ne _ _ r5a r3
              · by_cases hn : nonSep c = true
                · right; right; simp [List.takeWhile, hn]
                · right; left; simp [List.takeWhile, hn]
              · intro c3 t3 hs hn
                simp at hs; obtain ⟨rfl, rfl⟩ := hs
                simp [List.takeWhile, hn]
              · intro c3 t3 hs hne; simp

/-! #### the token comparison -/

/-- `pre` matches the first `pre.length` characters of `tok` -/
def PrefixMatch : Bytes → Bytes → Prop
  | [], _ => True
  | _ :: _, [] => False
  | c :: p, t :: ts => charsEqCaseless c t = true ∧ PrefixMatch p ts

theorem matchTok_spec : ∀ (s tok : Bytes), ∃ pre, s = pre ++ (matchTok s tok).2 ∧ pre.length = (matchTok s tok).1 ∧
    PrefixMatch pre tok ∧
    ((matchTok s tok).1 < tok.length → (matchTok s tok).2 = [] ∨
       ∃ x rest, (matchTok s tok).2 = x :: rest ∧ ∃ t, tok[(matchTok s tok).1]? = some t ∧ charsEqCaseless x t = false)
  | [], tok => by
    refine ⟨[], ?_, ?_, trivial, fun _ => Or.inl ?_⟩ <;> cases tok <;> simp [matchTok]
  | c :: s, [] => ⟨[], by simp [matchTok], by simp [matchTok], trivial, fun h => by simp [matchTok] at h⟩
  | c :: s, t :: ts => by
    by_cases hc : charsEqCaseless c t = true
    · obtain ⟨pre, h1, h2, h3, h4⟩ := matchTok_spec s ts
      refine ⟨c :: pre, ?_, ?_, ⟨hc, h3⟩, ?_⟩
      · simp only [matchTok, hc, if_true, List.cons_append]; rw [← h1]
      · simp [matchTok, hc, h2]
      · intro hlt
        simp only [matchTok, hc, if_true] at hlt ⊢
        have : (matchTok s ts).1 < ts.length := by simp at hlt; omega
        rcases h4 this with h | ⟨x, rest, e1, t', e2, e3⟩
        · left; exact h
        · right; exact ⟨x, rest, e1, t', by simpa using e2, e3⟩
    · refine ⟨[], by simp [matchTok, hc], by simp [matchTok, hc], trivial, ?_⟩
      intro _
      right
      exact ⟨c, s, by simp [matchTok, hc], t, by simp [matchTok, hc], by simpa using hc⟩

/-! #### a copied element is never the token -/

theorem strEq_prefix_short : ∀ (pre tok : Bytes), PrefixMatch pre tok → pre.length < tok.length → strEqCaseless pre tok = false
  | [], tok, _, hl => by cases tok <;> simp_all [strEqCaseless]
  | c :: p, [], h, _ => by cases h
  | c :: p, t :: ts, h, hl => by
    simp only [strEqCaseless, h.1, if_true]
    exact strEq_prefix_short p ts h.2 (by simp at hl; omega)

theorem strEq_prefix_mismatch : ∀ (pre tok : Bytes) (x : UInt8) (R : Bytes) (t : UInt8), PrefixMatch pre tok →
    tok[pre.length]? = some t → charsEqCaseless x t = false → strEqCaseless (pre ++ x :: R) tok = false
  | [], [], x, R, t, _, ht, _ => by simp at ht
  | [], t0 :: ts, x, R, t, _, ht, hx => by
    simp at ht; subst ht
    simp [strEqCaseless, hx]
  | c :: p, [], x, R, t, h, _, _ => by cases h
  | c :: p, t0 :: ts, x, R, t, h, ht, hx => by
    simp only [List.cons_append, strEqCaseless, h.1, if_true]
    exact strEq_prefix_mismatch p ts x R t h.2 (by simpa using ht) hx

theorem strEq_longer (e tok : Bytes) (h : tok.length < e.length) : strEqCaseless e tok = false := by
  cases hx : strEqCaseless e tok with
  | false => rfl
  | true => have := strEqCaseless_length e tok hx; omega

theorem prefixMatch_length : ∀ (pre tok : Bytes), PrefixMatch pre tok → pre.length ≤ tok.length
  | [], _, _ => by simp
  | _ :: _, [], h => by cases h
  | c :: p, t :: ts, h => by have := prefixMatch_length p ts h.2; simp; omega

/-- characters that match a word character of the token are word characters -/
theorem nonSep_of_match (c t : UInt8) (h : charsEqCaseless c t = true) (ht : nonSep t = true) : nonSep c = true := by
  have hl := (Mhd.Bridge.charsEq_iff c t).1 h
  have e1 := Mhd.Bridge.lower_toNat c
  have e2 := Mhd.Bridge.lower_toNat t
  have hl' : (lower c).toNat = (lower t).toNat := by rw [hl]
  simp only [nonSep, Bool.not_eq_true', Bool.or_eq_false_iff, beq_eq_false_iff_ne, ne_eq] at ht ⊢
  obtain ⟨⟨t1, t2⟩, t3⟩ := ht
  have n1 : t.toNat ≠ 44 := fun h => t1 (UInt8.toNat_inj.1 (by simpa using h))
  have n2 : t.toNat ≠ 32 := fun h => t2 (UInt8.toNat_inj.1 (by simpa using h))
  have n3 : t.toNat ≠ 9 := fun h => t3 (UInt8.toNat_inj.1 (by simpa using h))
  refine ⟨⟨?_, ?_⟩, ?_⟩ <;> (intro hc; subst hc; simp at e1; rw [e1] at hl'; rw [e2] at hl'; split at hl' <;> omega)

theorem prefixMatch_nonSep : ∀ (pre tok : Bytes), PrefixMatch pre tok → (∀ t ∈ tok, nonSep t = true) →
    ∀ c ∈ pre, nonSep c = true
  | [], _, _, _, c, hc => by cases hc
  | _ :: _, [], h, _, _, _ => by cases h
  | c0 :: p, t :: ts, h, ht, c, hc => by
    rcases List.mem_cons.1 hc with rfl | hc'
    · exact nonSep_of_match _ t h.1 (ht t (by simp))
    · exact prefixMatch_nonSep p ts h.2 (fun x hx => ht x (by simp [hx])) c hc'

theorem space_no_match (t : UInt8) (ht : nonSep t = true) : charsEqCaseless 32 t = false := by
  cases hx : charsEqCaseless 32 t with
  | false => rfl
  | true =>
    have := nonSep_of_match 32 t hx ht
    simp [nonSep] at this

/-! #### the elements written to the output -/

/-- an output element: non-empty, no comma, no whitespace at either end, and not the token -/
structure Good (tok e : Bytes) : Prop where
  headOK : ∃ c t, e = c :: t ∧ isWs c = false
  noComma : NoComma e
  lastOK : LastOK e
  notTok : strEqCaseless e tok = false

def TokOK (tok : Bytes) : Prop := tok ≠ [] ∧ ∀ t ∈ tok, nonSep t = true

theorem isWs_false_of_nonSep (c : UInt8) (h : nonSep c = true) : isWs c = false := by
  simp [nonSep] at h; simp [isWs, h]

theorem sepBefore_spec (bs cs : Nat) (out out1 : Bytes) (h : sepBefore bs cs out = some out1) :
    out1 = if out = [] then [] else out ++ [44, 32] := by
  unfold sepBefore at h
  by_cases he : out = []
  · subst he; simp at h; simp [h.2]
  · have : out.isEmpty = false := by cases out <;> simp_all
    simp only [this, Bool.false_eq_true, if_false] at h
    split at h
    · cases h
    · simp at h; simp [he, h]

theorem copyOneToken_spec (bs : Nat) (tok s1 out s'' out2 : Bytes) (c1 : UInt8) (t1 : Bytes) (htok : TokOK tok)
    (hs1 : s1 = c1 :: t1) (hc1 : nonSep c1 = true)
    (hnot : ¬ (((matchTok s1 tok).1 == tok.length && tok.length != 0) &&
              atEndOrComma ((matchTok s1 tok).2.dropWhile isWs)) = true)
    (h : copyOneToken bs s1 (matchTok s1 tok).2 out = some (s'', out2)) :
    ∃ e, Good tok e ∧ out2 = (if out = [] then e else out ++ 44 :: 32 :: e) := by
  obtain ⟨pre, hp1, hp2, hp3, hp4⟩ := matchTok_spec s1 tok
  have hlen : s1.length - (matchTok s1 tok).2.length = pre.length := by
    have := congrArg List.length hp1; simp at this; omega
  have htake : s1.take pre.length = pre := by
    rw [hp1]; simp
  unfold copyOneToken at h
  simp only [hlen, htake] at h
  cases hsb : sepBefore bs pre.length out with
  | none => rw [hsb] at h; simp at h
  | some out1 =>
    rw [hsb] at h; simp only at h
    have ho1 := sepBefore_spec _ _ _ _ hsb
    obtain ⟨R, r1, r2, r3, r4, r5, r6⟩ := copyTokenRest_spec bs _ _ _ _ _ (by omega) h
    have hpns := prefixMatch_nonSep pre tok hp3 htok.2
    have hple := prefixMatch_length pre tok hp3
    have htl : tok.length ≠ 0 := by
      intro hh; exact htok.1 (List.length_eq_zero_iff.1 hh)
    -- when nothing matched, the rest starts with the first character of the element
    have hR0 : pre = [] → R ≠ [] ∧ R.head? = some c1 := by
      intro hpe
      have : (matchTok s1 tok).2 = c1 :: t1 := by rw [hpe] at hp1; simp at hp1; rw [← hp1, hs1]
      exact r5 c1 t1 this hc1
    refine ⟨pre ++ R, ⟨?_, ?_, ?_, ?_⟩, ?_⟩
    · cases pre with
      | nil =>
        obtain ⟨hr, hh⟩ := hR0 rfl
        cases R with
        | nil => exact absurd rfl hr
        | cons x R' => simp at hh; subst hh; exact ⟨x, R', rfl, isWs_false_of_nonSep _ hc1⟩
      | cons p ps => exact ⟨p, ps ++ R, rfl, isWs_false_of_nonSep _ (hpns p (by simp))⟩
    · intro b hb
      rcases List.mem_append.1 hb with hb | hb
      · have := hpns b hb; intro h44; subst h44; simp [nonSep] at this
      · exact r2 b hb
    · by_cases hR : R = []
      · subst hR
        simp only [List.append_nil]
        exact lastOK_of_all pre (fun b hb => isWs_false_of_nonSep _ (hpns b hb))
      · exact lastOK_append_ne _ _ hR r3
    · -- not the token
      by_cases hk : pre.length < tok.length
      · rcases r4 with hR | hR | hR
        · subst hR; simp only [List.append_nil]; exact strEq_prefix_short pre tok hp3 hk
        · cases R with
          | nil => simp at hR
          | cons x R' =>
            simp at hR; subst hR
            obtain ⟨t, ht⟩ : ∃ t, tok[pre.length]? = some t := ⟨tok[pre.length], by simp [hk]⟩
            have htm : t ∈ tok := List.mem_of_getElem? ht
            exact strEq_prefix_mismatch pre tok 32 R' t hp3 ht (space_no_match t (htok.2 t htm))
        · cases R with
          | nil => simp only [List.append_nil]; exact strEq_prefix_short pre tok hp3 hk
          | cons x R' =>
            rcases hp4 (by omega) with hm | ⟨y, rest, e1, t, e2, e3⟩
            · rw [hm] at hR; simp at hR
            · rw [e1] at hR; simp at hR; subst hR
              rw [← hp2] at e2
              exact strEq_prefix_mismatch pre tok x R' t hp3 e2 e3
      · have hfull : pre.length = tok.length := by omega
        have hfb : ((matchTok s1 tok).1 == tok.length && tok.length != 0) = true := by
          rw [← hp2]; simp [hfull, htl]
        rw [hfb] at hnot
        simp only [Bool.true_and] at hnot
        have hne : R ≠ [] := by
          cases hd : (matchTok s1 tok).2.dropWhile isWs with
          | nil => rw [hd] at hnot; simp [atEndOrComma] at hnot
          | cons c t =>
            rw [hd] at hnot
            simp only [atEndOrComma] at hnot
            exact r6 c t hd (by simpa using hnot)
        apply strEq_longer
        have : 0 < R.length := by cases R with
          | nil => exact absurd rfl hne
          | cons _ _ => simp
        simp; omega
    · rw [r1, ho1]
      by_cases he : out = []
      · simp [he]
      · simp [he, List.append_assoc]

/-- the output of the whole loop -/
theorem removeTokenLoop_spec (bs : Nat) (tok : Bytes) (htok : TokOK tok) :
    ∀ (fuel : Nat) (s out : Bytes) (rem : Bool) (res : RemoveRes) (es : List Bytes),
    out = joinE es → (∀ e ∈ es, Good tok e) → removeTokenLoop bs tok fuel s out rem = some res →
    ∃ es', res.out = joinE es' ∧ ∀ e ∈ es', Good tok e
  | 0, s, out, rem, res, es, ho, hg, h => by
    simp [removeTokenLoop] at h; subst h; exact ⟨es, ho, hg⟩
  | fuel + 1, s, out, rem, res, es, ho, hg, h => by
    simp only [removeTokenLoop] at h
    by_cases he : (s.dropWhile isWsComma).isEmpty = true
    · simp [he] at h; subst h; exact ⟨es, ho, hg⟩
    · simp only [he] at h
      by_cases hf : (((matchTok (s.dropWhile isWsComma) tok).1 == tok.length && tok.length != 0) &&
          atEndOrComma ((matchTok (s.dropWhile isWsComma) tok).2.dropWhile isWs)) = true
      · simp only [hf] at h
        exact removeTokenLoop_spec bs tok htok fuel _ _ _ res es ho hg h
      · simp only [hf] at h
        cases hc : copyOneToken bs (s.dropWhile isWsComma) (matchTok (s.dropWhile isWsComma) tok).2 out with
        | none => rw [hc] at h; simp at h
        | some p =>
          obtain ⟨s'', out2⟩ := p
          rw [hc] at h; simp only [] at h
          -- first character of the element
          obtain ⟨c1, t1, hs1⟩ : ∃ c1 t1, s.dropWhile isWsComma = c1 :: t1 := by
            cases hx : s.dropWhile isWsComma with
            | nil => rw [hx] at he; simp at he
            | cons a b => exact ⟨a, b, rfl⟩
          have hc1 : nonSep c1 = true := by
            have := dropWhile_head_not isWsComma s c1 t1 hs1
            simp [isWsComma] at this
            simp [nonSep, this]
          obtain ⟨e, hge, hoe⟩ := copyOneToken_spec bs tok _ out s'' out2 c1 t1 htok hs1 hc1 hf hc
          have hne : ∀ x ∈ es, x ≠ [] := by
            intro x hx hxe
            obtain ⟨c, t, h1, _⟩ := (hg x hx).headOK
            rw [hxe] at h1; cases h1
          have hokes : ∀ x ∈ es, ElemOK x := fun x hx => ⟨hne x hx, (hg x hx).noComma⟩
          have ho2 : out2 = joinE (es ++ [e]) := by
            rw [hoe]
            by_cases hes : es = []
            · subst hes; simp [ho, joinE]
            · have : out ≠ [] := by
                rw [ho]; intro hh; exact hes ((joinE_eq_nil es hokes).1 hh)
              simp only [this, if_false]
              rw [joinE_append es [e] hes (by simp), ho]; simp [joinE]
          exact removeTokenLoop_spec bs tok htok fuel _ _ _ res (es ++ [e]) ho2
            (by intro x hx
                rcases List.mem_append.1 hx with hx | hx
                · exact hg x hx
                · simp at hx; subst hx; exact hge) h

theorem isOWS_eq (b : UInt8) : isOWS b = isWs b := by
  unfold isOWS isWs
  by_cases h1 : b = 32 <;> by_cases h2 : b = 9 <;> simp [h1, h2]

theorem trimOWS_id (e : Bytes) (h1 : ∃ c t, e = c :: t ∧ isWs c = false) (h2 : LastOK e) : trimOWS e = e := by
  obtain ⟨c, t, rfl, hc⟩ := h1
  rcases h2 with h2 | ⟨pre, x, hx, hxw⟩
  · cases h2
  · unfold trimOWS
    have d1 : (c :: t).dropWhile isOWS = c :: t := by simp [List.dropWhile, isOWS_eq, hc]
    rw [d1, hx]
    simp [List.dropWhile, isOWS_eq, hxw]

theorem lower_sClose : sClose.map lower = vClose := by decide
theorem tokOK_sClose : TokOK sClose := ⟨by decide, by decide⟩

/-- SPEC of `MHD_str_remove_token_caseless_ (…, "close", …)`: the output is a `", "`-list of elements
    none of which is a `close` token for the grammar's tokenizer -/
theorem removeToken_close_spec (value : Bytes) (n : Nat) (out : Bytes) (rem : Bool)
    (h : removeTokenCaseless value sClose n = some ⟨out, rem⟩) :
    ∃ es, out = joinE es ∧ (∀ e ∈ es, ElemOK e) ∧ CloseFree es := by
  obtain ⟨es, h1, h2⟩ := removeTokenLoop_spec n sClose tokOK_sClose _ _ [] false ⟨out, rem⟩ [] rfl
    (by intro e he; cases he) h
  refine ⟨es, h1, ?_, ?_⟩
  · intro e he
    obtain ⟨c, t, hc, _⟩ := (h2 e he).headOK
    exact ⟨by rw [hc]; simp, (h2 e he).noComma⟩
  · intro e he
    unfold isTok
    rw [trimOWS_id e (h2 e he).headOK (h2 e he).lastOK]
    unfold ciEq
    rw [← lower_sClose]
    have := (h2 e he).notTok
    cases hx : decide (e.map lower = sClose.map lower) with
    | false => rfl
    | true =>
      have hx' : e.map lower = sClose.map lower := by simpa using hx
      rw [(Mhd.Bridge.strEq_iff e sClose).2 hx'] at this; cases this
end Mhd.Tok
