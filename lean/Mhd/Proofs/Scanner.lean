/-
  Split independence of an incremental scanner, proved once (DESIGN.md A.2).

  A scanner state contains its buffer; `extend` = "more bytes arrived".  If, on
  states satisfying an invariant, a step that advanced or finished does the
  same on the extended state (`adv_ext`, `done_ext`: the decision never looked
  beyond the bytes it had), the measure decreases and no step faults, then
  feeding any segmentation equals feeding the concatenation.
-/
import Mhd.Model.ReqBase

namespace Mhd.Req
namespace Scanner
variable {σ ρ : Type}

/-- the laws a concrete parser owes -/
structure Laws (sc : Scanner σ ρ) (Inv : σ → Prop) : Prop where
  decr : ∀ s s', Inv s → sc.step s = .advance s' → sc.measure s' < sc.measure s
  inv_step : ∀ s s', Inv s → sc.step s = .advance s' → Inv s'
  inv_ext : ∀ s e, Inv s → Inv (sc.extend s e)
  no_fault : ∀ s f, Inv s → sc.step s ≠ .fault f
  adv_ext : ∀ s s' e, Inv s → sc.step s = .advance s' →
    sc.step (sc.extend s e) = .advance (sc.extend s' e)
  done_ext : ∀ s r e, Inv s → sc.step s = .done r →
    sc.step (sc.extend s e) = .done (sc.extendR r e)
  ext_nil : ∀ s, sc.extend s #[] = s
  ext_ext : ∀ s a b, sc.extend (sc.extend s a) b = sc.extend s (a ++ b)
  extR_extR : ∀ r a b, sc.extendR (sc.extendR r a) b = sc.extendR r (a ++ b)

variable {sc : Scanner σ ρ} {Inv : σ → Prop}

/-- more fuel than the measure changes nothing -/
theorem runFuel_mono (L : Laws sc Inv) :
    ∀ (n : Nat) (s : σ) (m : Nat), Inv s → sc.measure s < n → n ≤ m →
      sc.runFuel m s = sc.runFuel n s := by
  intro n
  induction n with
  | zero => intro s m _ h _; omega
  | succ n ih =>
    intro s m hi hm hle
    obtain ⟨m', rfl⟩ : ∃ m', m = m' + 1 := ⟨m - 1, by omega⟩
    simp only [runFuel]
    cases hs : sc.step s with
    | advance s' =>
      have hd := L.decr s s' hi hs
      exact ih s' m' (L.inv_step s s' hi hs) (by omega) (by omega)
    | done r => rfl
    | needMore => rfl
    | fault f => rfl

theorem run_advance (L : Laws sc Inv) (s s' : σ) (hi : Inv s) (hs : sc.step s = .advance s') :
    sc.run s = sc.run s' := by
  have hd := L.decr s s' hi hs
  unfold run
  rw [show sc.runFuel (sc.measure s + 1) s = sc.runFuel (sc.measure s) s' by simp only [runFuel, hs]]
  exact runFuel_mono L (sc.measure s' + 1) s' (sc.measure s) (L.inv_step s s' hi hs) (by omega) (by omega)

theorem run_done (s : σ) (r : ρ) (hs : sc.step s = .done r) : sc.run s = .done r := by
  simp only [run, runFuel, hs]

theorem run_needMore (s : σ) (hs : sc.step s = .needMore) : sc.run s = .more s := by
  simp only [run, runFuel, hs]

/-- the three facts about a run, by induction on the fuel -/
theorem runFuel_spec (L : Laws sc Inv) (e : Bytes) :
    ∀ (n : Nat) (s : σ), Inv s → sc.measure s < n →
      (∀ s₁, sc.runFuel n s = .more s₁ → Inv s₁ ∧ sc.run (sc.extend s e) = sc.run (sc.extend s₁ e)) ∧
      (∀ r, sc.runFuel n s = .done r → sc.run (sc.extend s e) = .done (sc.extendR r e)) ∧
      (∀ f, sc.runFuel n s ≠ .fault f) := by
  intro n
  induction n with
  | zero => intro s _ h; omega
  | succ n ih =>
    intro s hi hm
    simp only [runFuel]
    cases hs : sc.step s with
    | advance s' =>
      have hd := L.decr s s' hi hs
      have hi' := L.inv_step s s' hi hs
      have h := ih s' hi' (by omega)
      have hx : sc.run (sc.extend s e) = sc.run (sc.extend s' e) :=
        run_advance L _ _ (L.inv_ext s e hi) (L.adv_ext s s' e hi hs)
      dsimp only
      refine ⟨fun s₁ h1 => ?_, fun r h1 => ?_, fun f h1 => ?_⟩
      · have := h.1 s₁ h1
        exact ⟨this.1, hx.trans this.2⟩
      · exact hx.trans (h.2.1 r h1)
      · exact h.2.2 f h1
    | done r =>
      dsimp only
      refine ⟨?_, ?_, ?_⟩
      · intro s₁ h1; cases h1
      · intro r' h1; cases h1
        exact run_done _ _ (L.done_ext s r e hi hs)
      · intro f h1; cases h1
    | needMore =>
      dsimp only
      refine ⟨?_, ?_, ?_⟩
      · intro s₁ h1; cases h1
        exact ⟨hi, rfl⟩
      · intro r h1; cases h1
      · intro f h1; cases h1
    | fault f => exact absurd hs (L.no_fault s f hi)

/-- induction along a run: a property kept by every advancing step holds in the state
    in which the run stops, and a finished run finished from such a state -/
theorem runFuel_induct (L : Laws sc Inv) (P : σ → Prop)
    (hP : ∀ s s', Inv s → P s → sc.step s = .advance s' → P s') :
    ∀ (n : Nat) (s : σ), Inv s → P s → sc.measure s < n →
      (∀ s₁, sc.runFuel n s = .more s₁ → Inv s₁ ∧ P s₁) ∧
      (∀ r, sc.runFuel n s = .done r → ∃ s₁, Inv s₁ ∧ P s₁ ∧ sc.step s₁ = .done r) := by
  intro n
  induction n with
  | zero => intro s _ _ h; omega
  | succ n ih =>
    intro s hi hp hm
    simp only [runFuel]
    cases hs : sc.step s with
    | advance s' =>
      have hd := L.decr s s' hi hs
      exact ih s' (L.inv_step s s' hi hs) (hP s s' hi hp hs) (by omega)
    | done r =>
      dsimp only
      refine ⟨?_, ?_⟩
      · intro s₁ h1; cases h1
      · intro r' h1; cases h1; exact ⟨s, hi, hp, hs⟩
    | needMore =>
      dsimp only
      refine ⟨?_, ?_⟩
      · intro s₁ h1; cases h1; exact ⟨hi, hp⟩
      · intro r h1; cases h1
    | fault f => exact absurd hs (L.no_fault s f hi)

theorem run_induct (L : Laws sc Inv) (P : σ → Prop)
    (hP : ∀ s s', Inv s → P s → sc.step s = .advance s' → P s') (s : σ) (hi : Inv s) (hp : P s) :
    (∀ s₁, sc.run s = .more s₁ → Inv s₁ ∧ P s₁) ∧
    (∀ r, sc.run s = .done r → ∃ s₁, Inv s₁ ∧ P s₁ ∧ sc.step s₁ = .done r) :=
  runFuel_induct L P hP (sc.measure s + 1) s hi hp (by omega)

/-- a run never faults -/
theorem run_no_fault (L : Laws sc Inv) (s : σ) (hi : Inv s) (f : Fault) : sc.run s ≠ .fault f :=
  (runFuel_spec L #[] (sc.measure s + 1) s hi (by omega)).2.2 f

/-- the state in which a run stops waiting for data satisfies the invariant -/
theorem run_more_inv (L : Laws sc Inv) (s s₁ : σ) (hi : Inv s) (h : sc.run s = .more s₁) : Inv s₁ :=
  ((runFuel_spec L #[] (sc.measure s + 1) s hi (by omega)).1 s₁ h).1

/-- feeding a chunk to the outcome of a run = running on the extended start state -/
theorem feed_run (L : Laws sc Inv) (s : σ) (hi : Inv s) (e : Bytes) :
    sc.feed (sc.run s) e = sc.run (sc.extend s e) := by
  have h := runFuel_spec L e (sc.measure s + 1) s hi (by omega)
  cases hr : sc.run s with
  | more s₁ => exact ((h.1 s₁ hr).2).symm
  | done r => exact (h.2.1 r hr).symm
  | fault f => exact absurd hr (h.2.2 f)

/-- **split independence for two chunks** -/
theorem feed_append (L : Laws sc Inv) (s : σ) (hi : Inv s) (a b : Bytes) :
    sc.feed (sc.feed (sc.run s) a) b = sc.feed (sc.run s) (a ++ b) := by
  rw [feed_run L s hi a, feed_run L _ (L.inv_ext s a hi) b, feed_run L s hi (a ++ b), L.ext_ext]

/-- concatenation of a segmentation -/
def flatten (chunks : List Bytes) : Bytes := chunks.foldr (· ++ ·) #[]

/-- **split independence for any segmentation**: feeding the chunks one after the
    other, calling the parser after each, equals calling it once on everything -/
theorem feedAll_flatten (L : Laws sc Inv) (chunks : List Bytes) :
    ∀ (s : σ), Inv s → sc.feedAll (sc.run s) chunks = sc.run (sc.extend s (flatten chunks)) := by
  induction chunks with
  | nil => intro s _; simp only [feedAll, List.foldl, flatten, List.foldr, L.ext_nil]
  | cons c cs ih =>
    intro s hi
    simp only [feedAll, List.foldl] at *
    rw [feed_run L s hi c, ih _ (L.inv_ext s c hi), L.ext_ext]
    rfl

/-- two segmentations of the same byte stream give the same outcome -/
theorem feedAll_eq_of_flatten_eq (L : Laws sc Inv) (s : σ) (hi : Inv s) (c₁ c₂ : List Bytes)
    (h : flatten c₁ = flatten c₂) : sc.feedAll (sc.run s) c₁ = sc.feedAll (sc.run s) c₂ := by
  rw [feedAll_flatten L c₁ s hi, feedAll_flatten L c₂ s hi, h]

end Scanner
end Mhd.Req
