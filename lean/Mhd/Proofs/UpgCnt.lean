/-
  C20: notification accounting (completed / started / closed / socket closed counters) and the
  full per-connection invariant `FI`, preserved by every primitive of the model.
-/
import Mhd.Proofs.UpgInv
namespace Mhd.Upg

/-- notification accounting of one connection -/
structure CntI (x : Conn) : Prop where
  completed : ∀ r, cnt (Ev.isCompleted r) x.log = if r < x.reqNo then 1 else 0
  handler : ∀ r, 0 < cnt (Ev.isHandler r) x.log → r < x.reqNo ∨ (r = x.reqNo ∧ x.clientAware = true)
  start0 : (x.loc = .none ∨ x.loc = .new) → cnt Ev.isStart x.log = 0
  start1 : (x.loc = .active ∨ x.loc = .suspended ∨ x.loc = .cleanup) → cnt Ev.isStart x.log = 1
  startle : cnt Ev.isStart x.log ≤ 1
  close : cnt Ev.isConnClose x.log = if x.loc = .freed then cnt Ev.isStart x.log else 0
  sockc : cnt Ev.isSockClose x.log = if x.loc = .freed then 1 else 0

theorem cntI_init : CntI {} := by constructor <;> simp

/-- events that no counter looks at -/
def Ev.uncounted : Ev → Bool
  | .start | .handler _ _ | .completed _ _ | .connClose | .sockClose => false
  | _ => true

theorem cntI_of_eq {x y : Conn} (h : CntI x) (hl : y.log = x.log) (hr : y.reqNo = x.reqNo)
    (ha : y.clientAware = x.clientAware) (hloc : y.loc = x.loc) : CntI y := by
  obtain ⟨a, b, c, d, e, f, g⟩ := h
  exact ⟨by rw [hl, hr]; exact a, by rw [hl, hr, ha]; exact b, by rw [hl, hloc]; exact c,
         by rw [hl, hloc]; exact d, by rw [hl]; exact e, by rw [hl, hloc]; exact f, by rw [hl, hloc]; exact g⟩

/-- same counters, log extended by events nobody counts -/
theorem cntI_ext {x y : Conn} (h : CntI x) (l : List Ev) (hl : y.log = x.log ++ l)
    (hu : ∀ e ∈ l, e.uncounted = true) (hr : y.reqNo = x.reqNo)
    (ha : y.clientAware = x.clientAware) (hloc : y.loc = x.loc) : CntI y := by
  have z : ∀ p : Ev → Bool, (∀ e, e.uncounted = true → p e = false) → cnt p y.log = cnt p x.log := by
    intro p hp
    rw [hl, cnt_append]
    have : cnt p l = 0 := by
      simp only [cnt, List.countP_eq_zero]
      intro e he; simp [hp e (hu e he)]
    omega
  have z1 := fun r => z (Ev.isCompleted r) (by intro e he; cases e <;> simp_all [Ev.uncounted, Ev.isCompleted])
  have z2 := fun r => z (Ev.isHandler r) (by intro e he; cases e <;> simp_all [Ev.uncounted, Ev.isHandler])
  have z3 := z Ev.isStart (by intro e he; cases e <;> simp_all [Ev.uncounted, Ev.isStart])
  have z4 := z Ev.isConnClose (by intro e he; cases e <;> simp_all [Ev.uncounted, Ev.isConnClose])
  have z5 := z Ev.isSockClose (by intro e he; cases e <;> simp_all [Ev.uncounted, Ev.isSockClose])
  obtain ⟨a, b, c, d, e, f, g⟩ := h
  exact ⟨by intro r; rw [z1, hr]; exact a r, by intro r; rw [z2, hr, ha]; exact b r, by rw [z3, hloc]; exact c,
         by rw [z3, hloc]; exact d, by rw [z3]; exact e, by rw [z4, z3, hloc]; exact f, by rw [z5, hloc]; exact g⟩

theorem cntI_emit {x : Conn} (h : CntI x) {e : Ev} (he : e.uncounted = true) : CntI (x.emit e) :=
  cntI_ext h [e] rfl (by intro e' h'; simp at h'; rw [h']; exact he) rfl rfl rfl

/-- moves between the lists connections / suspended / cleanup -/
theorem cntI_move {x y : Conn} (h : CntI x) (hl : y.log = x.log) (hr : y.reqNo = x.reqNo)
    (ha : y.clientAware = x.clientAware)
    (hx : x.loc = .active ∨ x.loc = .suspended ∨ x.loc = .cleanup)
    (hy : y.loc = .active ∨ y.loc = .suspended ∨ y.loc = .cleanup) : CntI y := by
  have s1 := h.start1 hx
  have hxf : x.loc ≠ .freed := by rcases hx with hx | hx | hx <;> simp [hx]
  have hyf : y.loc ≠ .freed := by rcases hy with hy | hy | hy <;> simp [hy]
  obtain ⟨a, b, c, d, e, f, g⟩ := h
  refine ⟨by rw [hl, hr]; exact a, by rw [hl, hr, ha]; exact b, ?_, by intro _; rw [hl]; exact s1,
          by rw [hl]; exact e, ?_, ?_⟩
  · intro h0; rcases hy with hy | hy | hy <;> rcases h0 with h0 | h0 <;> simp_all
  · rw [hl, f]; simp [hxf, hyf]
  · rw [hl, g]; simp [hxf, hyf]

theorem cntI_notifyCompleted {x} (h : CntI x) (code : Nat) : CntI (notifyCompleted x code) := by
  unfold notifyCompleted
  split
  · rename_i haw
    obtain ⟨a, b, c, d, e, f, g⟩ := h
    refine ⟨?_, ?_, ?_, ?_, ?_, ?_, ?_⟩
    · intro r
      simp only [cnt_append, cnt_single, Ev.isCompleted, a r]
      by_cases hr : r = x.reqNo
      · subst hr; simp
      · have : (x.reqNo == r) = false := by simp; omega
        simp only [this]
        by_cases h1 : r < x.reqNo
        · have : r < x.reqNo + 1 := by omega
          simp [h1, this]
        · have : ¬ r < x.reqNo + 1 := by omega
          simp [h1, this]
    · intro r h0
      simp only [cnt_append, cnt_single, Ev.isHandler] at h0
      rcases b r (by simpa using h0) with h1 | h1
      · left; show r < x.reqNo + 1; omega
      · left; show r < x.reqNo + 1; omega
    · intro h0; simp only [cnt_append, cnt_single, Ev.isStart]; simpa using c h0
    · intro h0; simp only [cnt_append, cnt_single, Ev.isStart]; simpa using d h0
    · simp only [cnt_append, cnt_single, Ev.isStart]; simpa using e
    · simp only [cnt_append, cnt_single, Ev.isStart, Ev.isConnClose]; simpa using f
    · simp only [cnt_append, cnt_single, Ev.isSockClose]; simpa using g
  · exact h


@[simp] theorem notifyCompleted_st (x : Conn) (c : Nat) : (notifyCompleted x c).st = x.st := by
  unfold notifyCompleted; split <;> rfl

theorem cntI_closeConn {x} (h : CntI x) (ha : x.loc = .active) (code : Nat) : CntI (closeConn x code) := by
  have h1 := cntI_notifyCompleted (cntI_emit h (e := .ioShutdown) rfl) code
  exact cntI_move (x := notifyCompleted (x.emit .ioShutdown) code) h1 rfl rfl rfl
    (by left; simp [ha]) (by right; right; rfl)

theorem cntI_queueResponse {x} (h : CntI x) (cfg sh) (rid : Nat) : CntI (queueResponse cfg sh x rid).1 := by
  unfold queueResponse
  split
  · exact h
  · exact cntI_of_eq h rfl rfl rfl rfl

theorem cntI_tryQueue (cfg) (sh : Bool) (l : List Nat) : ∀ {x}, CntI x → CntI (tryQueue cfg sh x l) := by
  induction l with
  | nil => intro x h; exact h
  | cons rid rest ih =>
    intro x h
    simp only [tryQueue]
    split
    · exact cntI_emit (cntI_queueResponse h cfg sh rid) rfl
    · exact ih (cntI_emit (cntI_queueResponse h cfg sh rid) rfl)

theorem cntI_startReply {x} (h : CntI x) (cfg) : CntI (startReply cfg x) := by
  unfold startReply
  split
  · exact h
  · exact cntI_of_eq h rfl rfl rfl rfl

theorem cnt_snoc_false {p : Ev → Bool} {e : Ev} (l : List Ev) (h : p e = false) : cnt p (l ++ [e]) = cnt p l := by
  rw [cnt_append, cnt_single, h]; rfl

theorem cntI_handlerEntered {x} (h : CntI x) (fin : Bool) : CntI (handlerEntered x fin) := by
  obtain ⟨a, b, c, d, e, f, g⟩ := h
  have k1 : ∀ r, cnt (Ev.isCompleted r) (handlerEntered x fin).log = cnt (Ev.isCompleted r) x.log :=
    fun r => cnt_snoc_false _ rfl
  have k3 : cnt Ev.isStart (handlerEntered x fin).log = cnt Ev.isStart x.log := cnt_snoc_false _ rfl
  have k4 : cnt Ev.isConnClose (handlerEntered x fin).log = cnt Ev.isConnClose x.log := cnt_snoc_false _ rfl
  have k5 : cnt Ev.isSockClose (handlerEntered x fin).log = cnt Ev.isSockClose x.log := cnt_snoc_false _ rfl
  refine ⟨?_, ?_, ?_, ?_, ?_, ?_, ?_⟩
  · intro r; rw [k1]; exact a r
  · intro r h0
    by_cases hr : r = x.reqNo
    · right; exact ⟨hr, rfl⟩
    · have hf : Ev.isHandler r (Ev.handler x.reqNo fin) = false := by
        simp only [Ev.isHandler]; simp; omega
      have h0' : 0 < cnt (Ev.isHandler r) x.log := by
        have : cnt (Ev.isHandler r) (handlerEntered x fin).log = cnt (Ev.isHandler r) x.log := cnt_snoc_false _ hf
        rw [this] at h0; exact h0
      rcases b r h0' with h1 | h1
      · left; exact h1
      · omega
  · intro h0; rw [k3]; exact c h0
  · intro h0; rw [k3]; exact d h0
  · rw [k3]; exact e
  · rw [k4, k3]; exact f
  · rw [k5]; exact g

theorem cntI_firstCallOnly {x} (h : CntI x) : CntI (firstCallOnly x) :=
  cntI_of_eq (cntI_handlerEntered h false) rfl rfl rfl rfl

theorem cntI_replyCall {x} (h : CntI x) (ha : x.loc = .active) (cfg) (sh fin : Bool) :
    CntI (replyCall cfg sh x fin) := by
  unfold replyCall
  simp only
  split
  · exact cntI_closeConn (cntI_tryQueue cfg sh _ (cntI_handlerEntered h fin)) (by simp [ha]) _
  · exact cntI_startReply (cntI_tryQueue cfg sh _ (cntI_handlerEntered h fin)) cfg

theorem cntI_handlerCalls {x} (h : CntI x) (ha : x.loc = .active) (cfg) (sh : Bool) :
    CntI (handlerCalls cfg sh x) := by
  unfold handlerCalls
  split
  · exact cntI_replyCall h ha cfg sh false
  · exact cntI_replyCall (cntI_firstCallOnly h) (by simp [ha]) cfg sh true

theorem cntI_tryRequest {x} (h : CntI x) (cfg) (sh : Bool) : CntI (tryRequest cfg sh x) := by
  unfold tryRequest
  split
  · rename_i hg
    split
    · exact h
    · exact cntI_handlerCalls (cntI_of_eq (y := consumeHead x _) h rfl rfl rfl rfl) (by simp [hg.1]) cfg sh
  · exact h

theorem cntI_handleRead {x} (h : CntI x) (n : Nat) : CntI (handleRead x n) := by
  unfold handleRead
  split
  · exact cntI_of_eq (cntI_emit h (e := .ioRecv (min n x.sockIn.length)) rfl) rfl rfl rfl rfl
  · exact h

theorem cntI_handleWrite {x} (h : CntI x) (n : Nat) : CntI (handleWrite x n) := by
  unfold handleWrite
  split
  · exact cntI_of_eq (cntI_emit h (e := .ioSend (x.wbuf.take (min n x.wbuf.length))) rfl) rfl rfl rfl rfl
  · exact h

theorem cntI_replyDone {x} (h : CntI x) : CntI (replyDone x) :=
  cntI_of_eq (cntI_notifyCompleted h Mhd.Gen.Upg.termOk) rfl rfl rfl rfl

theorem cntI_finishOrdinary {x} (h : CntI x) (ha : x.loc = .active) : CntI (finishOrdinary x) := by
  unfold finishOrdinary
  split
  · exact cntI_of_eq (cntI_replyDone h) rfl rfl rfl rfl
  · exact cntI_closeConn (cntI_replyDone h) (by simp [ha]) _

theorem cntI_upgradeActionClose {x} (h : CntI x) : CntI (upgradeActionClose x).1 := by
  unfold upgradeActionClose
  split
  · exact cntI_emit h rfl
  · split
    · exact cntI_emit h rfl
    · exact cntI_emit (cntI_of_eq (y := markAppClosed x) h rfl rfl rfl rfl) rfl

theorem cntI_executeUpgrade {cfg x} (hl : Life cfg x) (h : CntI x) (ha : x.loc = .active) (rid : Nat) :
    CntI (executeUpgrade cfg x rid).1 := by
  have hr := hl.active_resuming ha
  have h1 : CntI (internalSuspend (takeExtra x)) := by
    unfold internalSuspend
    simp only [takeExtra, hr]
    exact cntI_move h rfl rfl rfl (Or.inl ha) (Or.inr (Or.inl rfl))
  have h2 : CntI (handOver (internalSuspend (takeExtra x)) rid x.rbuf) :=
    cntI_ext h1 [.upgrade rid x.rbuf] rfl (by intro e he; simp at he; rw [he]; rfl) rfl rfl rfl
  unfold executeUpgrade
  simp only
  split
  · exact cntI_of_eq (cntI_upgradeActionClose h2) rfl rfl rfl rfl
  · exact cntI_of_eq h2 rfl rfl rfl rfl

theorem cntI_afterSend {cfg x} (hl : Life cfg x) (h : CntI x) : CntI (afterSend cfg x).1 := by
  unfold afterSend
  split
  · rename_i hg
    split
    · exact h
    · split
      · exact cntI_executeUpgrade hl h hg.1 _
      · exact cntI_finishOrdinary h hg.1
  · exact h


theorem cntI_idle {cfg x} (hl : Life cfg x) (h : CntI x) (sh : Bool) : CntI (idle cfg sh x).1 := by
  unfold idle
  exact cntI_tryRequest (cntI_afterSend hl h) cfg sh

/-- everything that is proved about one connection -/
structure FI (cfg : Cfg) (x : Conn) : Prop where
  ci : CI cfg x
  cn : CntI x

theorem fi_init (cfg : Cfg) : FI cfg {} := ⟨ci_init cfg, cntI_init⟩

theorem fi_idleP {cfg} {p : CB} (h : FI cfg p.1) (sh : Bool) : FI cfg (idleP cfg sh p).1 :=
  ⟨ci_idleP h.ci sh, cntI_idle h.ci.life h.cn sh⟩

theorem fi_handleRead {cfg x} (h : FI cfg x) (n : Nat) : FI cfg (handleRead x n) :=
  ⟨ci_handleRead h.ci n, cntI_handleRead h.cn n⟩
theorem fi_handleWrite {cfg x} (h : FI cfg x) (n : Nat) : FI cfg (handleWrite x n) :=
  ⟨ci_handleWrite h.ci n, cntI_handleWrite h.cn n⟩

theorem fi_rdStage {cfg} {p : CB} (h : FI cfg p.1) (sh : Bool) (a : IoAct) : FI cfg (rdStage cfg sh a p).1 := by
  unfold rdStage
  split
  · exact fi_idleP (p := (handleRead p.1 a.rdMax, p.2)) (fi_handleRead h _) sh
  · exact h

theorem fi_wrStage {cfg} {p : CB} (h : FI cfg p.1) (sh : Bool) (a : IoAct) : FI cfg (wrStage cfg sh a p).1 := by
  unfold wrStage
  split
  · exact fi_idleP (p := (handleWrite p.1 a.wrMax, p.2)) (fi_handleWrite h _) sh
  · exact h

theorem fi_callHandlers {cfg x} (h : FI cfg x) (sh : Bool) (a : IoAct) : FI cfg (callHandlers cfg sh x a).1 := by
  unfold callHandlers
  split
  · exact h
  · have h2 := fi_wrStage (fi_rdStage (p := (x, false)) h sh a) sh a
    simp only
    split
    · exact fi_idleP h2 sh
    · split
      · exact fi_idleP (p := (handleWrite _ a.wrMax, _)) (fi_handleWrite h2 _) sh
      · exact h2

theorem cntI_resumeOne {cfg x} (_hl : Life cfg x) (h : CntI x) : CntI (resumeOne x) := by
  unfold resumeOne
  split
  · rename_i hg
    split
    · exact cntI_move h rfl rfl rfl (Or.inr (Or.inl hg.1)) (Or.inl rfl)
    · split
      · exact cntI_move (x := notifyCompleted x Mhd.Gen.Upg.termOk) (cntI_notifyCompleted h _) rfl rfl rfl
          (by right; left; simp [hg.1]) (Or.inr (Or.inr rfl))
      · exact h
  · exact h

theorem fi_resumeOne {cfg x} (h : FI cfg x) : FI cfg (resumeOne x) :=
  ⟨⟨life_resumeOne h.ci.life, logI_resumeOne h.ci.life h.ci.logi⟩, cntI_resumeOne h.ci.life h.cn⟩

theorem cntI_newToActive {x} (h : CntI x) : CntI (newToActive x) := by
  unfold newToActive
  split
  · rename_i hn
    have s0 := h.start0 (Or.inr hn)
    obtain ⟨a, b, c, d, e, f, g⟩ := h
    have k1 : ∀ r, cnt (Ev.isCompleted r) (x.log ++ [Ev.start]) = cnt (Ev.isCompleted r) x.log :=
      fun r => cnt_snoc_false _ rfl
    have k2 : ∀ r, cnt (Ev.isHandler r) (x.log ++ [Ev.start]) = cnt (Ev.isHandler r) x.log :=
      fun r => cnt_snoc_false _ rfl
    have k3 : cnt Ev.isStart (x.log ++ [Ev.start]) = 1 := by rw [cnt_append, cnt_single, s0]; rfl
    have k4 : cnt Ev.isConnClose (x.log ++ [Ev.start]) = cnt Ev.isConnClose x.log := cnt_snoc_false _ rfl
    have k5 : cnt Ev.isSockClose (x.log ++ [Ev.start]) = cnt Ev.isSockClose x.log := cnt_snoc_false _ rfl
    refine ⟨?_, ?_, ?_, ?_, ?_, ?_, ?_⟩
    · intro r; show cnt _ (x.log ++ [Ev.start]) = _; rw [k1]; exact a r
    · intro r h0; exact b r (by rw [← k2]; exact h0)
    · intro h0; simp at h0
    · intro _; exact k3
    · show cnt _ (x.log ++ [Ev.start]) ≤ 1; omega
    · show cnt _ (x.log ++ [Ev.start]) = _
      rw [k4, f]; simp [hn]
    · show cnt _ (x.log ++ [Ev.start]) = _
      rw [k5, g]; simp [hn]
  · exact h

theorem fi_newToActive {cfg x} (h : FI cfg x) : FI cfg (newToActive x) :=
  ⟨⟨life_newToActive h.ci.life, logI_newToActive h.ci.life h.ci.logi⟩, cntI_newToActive h.cn⟩

theorem cntI_cleanupOne {cfg x} (hl : Life cfg x) (h : CntI x) : CntI (cleanupOne x) := by
  unfold cleanupOne
  split
  · rename_i hc
    have hso : x.sockOpen = true := hl.sock.mpr (Or.inr (Or.inr (Or.inr hc)))
    have s1 := h.start1 (Or.inr (Or.inr hc))
    obtain ⟨a, b, c, d, e, f, g⟩ := h
    simp only [Conn.emit, hso, if_true]
    have k1 : ∀ r, cnt (Ev.isCompleted r) (x.log ++ [Ev.connClose] ++ [Ev.sockClose]) = cnt (Ev.isCompleted r) x.log :=
      fun r => by rw [cnt_snoc_false _ rfl, cnt_snoc_false _ rfl]
    have k2 : ∀ r, cnt (Ev.isHandler r) (x.log ++ [Ev.connClose] ++ [Ev.sockClose]) = cnt (Ev.isHandler r) x.log :=
      fun r => by rw [cnt_snoc_false _ rfl, cnt_snoc_false _ rfl]
    have k3 : cnt Ev.isStart (x.log ++ [Ev.connClose] ++ [Ev.sockClose]) = cnt Ev.isStart x.log := by
      rw [cnt_snoc_false _ rfl, cnt_snoc_false _ rfl]
    have k4 : cnt Ev.isConnClose (x.log ++ [Ev.connClose] ++ [Ev.sockClose]) = cnt Ev.isConnClose x.log + 1 := by
      rw [cnt_snoc_false _ rfl, cnt_append, cnt_single]; rfl
    have k5 : cnt Ev.isSockClose (x.log ++ [Ev.connClose] ++ [Ev.sockClose]) = cnt Ev.isSockClose x.log + 1 := by
      rw [cnt_append, cnt_single, cnt_snoc_false _ rfl]; rfl
    have f0 : cnt Ev.isConnClose x.log = 0 := by rw [f]; simp [hc]
    have g0 : cnt Ev.isSockClose x.log = 0 := by rw [g]; simp [hc]
    refine ⟨?_, ?_, ?_, ?_, ?_, ?_, ?_⟩
    · intro r; show cnt _ (x.log ++ [Ev.connClose] ++ [Ev.sockClose]) = _; rw [k1]; exact a r
    · intro r h0; exact b r (by rw [← k2]; exact h0)
    · intro h0; simp at h0
    · intro h0; simp at h0
    · show cnt _ (x.log ++ [Ev.connClose] ++ [Ev.sockClose]) ≤ 1; rw [k3]; exact e
    · show cnt _ (x.log ++ [Ev.connClose] ++ [Ev.sockClose]) = if Loc.freed = Loc.freed then cnt _ (x.log ++ [Ev.connClose] ++ [Ev.sockClose]) else 0
      rw [k4, k3, f0, s1]; rfl
    · show cnt _ (x.log ++ [Ev.connClose] ++ [Ev.sockClose]) = if Loc.freed = Loc.freed then 1 else 0
      rw [k5, g0]; rfl
  · exact h

theorem fi_cleanupOne {cfg x} (h : FI cfg x) : FI cfg (cleanupOne x) :=
  ⟨ci_cleanupOne h.ci, cntI_cleanupOne h.ci.life h.cn⟩

theorem fi_roundConn {cfg x} (h : FI cfg x) (sh scan : Bool) (a : Option IoAct) :
    FI cfg (roundConn cfg sh scan a x).1 := by
  unfold roundConn
  have h1 : FI cfg (if scan = true then resumeOne x else x) := by
    split
    · exact fi_resumeOne h
    · exact h
  have h2 := fi_newToActive h1
  simp only
  split
  · exact fi_cleanupOne (fi_callHandlers h2 sh _)
  · exact fi_cleanupOne h2


theorem cntI_stopNew {cfg x} (hl : Life cfg x) (h : CntI x) (hn : x.loc = .new) : CntI (stopNew x) := by
  have hso : x.sockOpen = true := hl.sock.mpr (Or.inl hn)
  have s0 := h.start0 (Or.inr hn)
  obtain ⟨a, b, c, d, e, f, g⟩ := h
  unfold stopNew
  simp only [Conn.emit, hso, if_true]
  have k1 : ∀ r, cnt (Ev.isCompleted r) (x.log ++ [Ev.sockClose]) = cnt (Ev.isCompleted r) x.log :=
    fun r => cnt_snoc_false _ rfl
  have k2 : ∀ r, cnt (Ev.isHandler r) (x.log ++ [Ev.sockClose]) = cnt (Ev.isHandler r) x.log :=
    fun r => cnt_snoc_false _ rfl
  have k3 : cnt Ev.isStart (x.log ++ [Ev.sockClose]) = cnt Ev.isStart x.log := cnt_snoc_false _ rfl
  have k4 : cnt Ev.isConnClose (x.log ++ [Ev.sockClose]) = cnt Ev.isConnClose x.log := cnt_snoc_false _ rfl
  have k5 : cnt Ev.isSockClose (x.log ++ [Ev.sockClose]) = cnt Ev.isSockClose x.log + 1 := by
    rw [cnt_append, cnt_single]; rfl
  have f0 : cnt Ev.isConnClose x.log = 0 := by rw [f]; simp [hn]
  have g0 : cnt Ev.isSockClose x.log = 0 := by rw [g]; simp [hn]
  refine ⟨?_, ?_, ?_, ?_, ?_, ?_, ?_⟩
  · intro r; show cnt _ (x.log ++ [Ev.sockClose]) = _; rw [k1]; exact a r
  · intro r h0; exact b r (by rw [← k2]; exact h0)
  · intro h0; simp at h0
  · intro h0; simp at h0
  · show cnt _ (x.log ++ [Ev.sockClose]) ≤ 1; rw [k3]; exact e
  · show cnt _ (x.log ++ [Ev.sockClose]) = if Loc.freed = Loc.freed then cnt _ (x.log ++ [Ev.sockClose]) else 0
    rw [k4, k3, f0, s0]; rfl
  · show cnt _ (x.log ++ [Ev.sockClose]) = if Loc.freed = Loc.freed then 1 else 0
    rw [k5, g0]; rfl

theorem fi_emit_plain {cfg x} (h : FI cfg x) {e : Ev} (he : e.plain = true) (hu : e.uncounted = true) :
    FI cfg (x.emit e) := ⟨ci_emit_plain h.ci he, cntI_emit h.cn hu⟩

theorem fi_resumeIf {cfg x} (h : FI cfg x) : FI cfg (resumeIf cfg x) := by
  unfold resumeIf; split
  · exact fi_resumeOne h
  · exact h

theorem fi_stopMarkSuspended {cfg x} (h : FI cfg x) : FI cfg (stopMarkSuspended cfg x) := by
  refine ⟨ci_stopMarkSuspended h.ci, ?_⟩
  unfold stopMarkSuspended
  split
  · split
    · split
      · exact cntI_emit h.cn rfl
      · exact cntI_of_eq h.cn rfl rfl rfl rfl
    · exact cntI_emit h.cn rfl
  · exact h.cn

theorem fi_stopShutdownActive {cfg x} (h : FI cfg x) : FI cfg (stopShutdownActive x) := by
  refine ⟨ci_stopShutdownActive h.ci, ?_⟩
  unfold stopShutdownActive; split
  · exact cntI_emit h.cn rfl
  · exact h.cn

theorem fi_stopCloseActive {cfg x} (h : FI cfg x) : FI cfg (stopCloseActive x) := by
  refine ⟨ci_stopCloseActive h.ci, ?_⟩
  unfold stopCloseActive; split
  · rename_i ha; exact cntI_closeConn h.cn ha _
  · exact h.cn

theorem fi_stopConn {cfg x} (h : FI cfg x) : FI cfg (stopConn cfg x) := by
  refine ⟨ci_stopConn h.ci, ?_⟩
  unfold stopConn
  split
  · rename_i hn
    have h1 := fi_emit_plain h (e := .stopMark) rfl rfl
    exact cntI_stopNew h1.ci.life h1.cn hn
  · exact (fi_cleanupOne (fi_stopCloseActive (fi_resumeIf (fi_stopShutdownActive
      (fi_stopMarkSuspended (fi_resumeIf (fi_emit_plain h (e := .stopMark) rfl rfl))))))).cn

theorem fi_arriveConn {cfg x} (h : FI cfg x) : FI cfg (arriveConn x) := by
  refine ⟨ci_arriveConn h.ci, ?_⟩
  unfold arriveConn
  split
  · rename_i hn
    have s0 := h.cn.start0 (Or.inl hn)
    obtain ⟨a, b, c, d, e, f, g⟩ := h.cn
    refine ⟨a, b, fun _ => s0, ?_, e, ?_, ?_⟩
    · intro h0; simp at h0
    · show cnt Ev.isConnClose x.log = if Loc.new = Loc.freed then _ else 0
      rw [f]; simp [hn]
    · show cnt Ev.isSockClose x.log = if Loc.new = Loc.freed then 1 else 0
      rw [g]; simp [hn]
  · exact cntI_emit h.cn rfl

theorem fi_clientSendConn {cfg x} (h : FI cfg x) (bs : Bytes) : FI cfg (clientSendConn x bs) := by
  refine ⟨ci_clientSendConn h.ci bs, ?_⟩
  unfold clientSendConn
  split
  · exact cntI_of_eq h.cn rfl rfl rfl rfl
  · exact h.cn

theorem fi_appRecvConn {cfg x} (h : FI cfg x) (hu : x.urh.isSome = true) (n : Nat) : FI cfg (appRecvConn x n) :=
  ⟨ci_appRecvConn h.ci hu n,
   cntI_of_eq (cntI_emit h.cn (e := .appRecv (x.sockIn.take (min n x.sockIn.length))) rfl) rfl rfl rfl rfl⟩

theorem fi_appSendConn {cfg x} (h : FI cfg x) (bs : Bytes) : FI cfg (appSendConn x bs) :=
  fi_emit_plain h rfl rfl

theorem fi_upgradeActionClose {cfg x} (h : FI cfg x) (hs : x.urh.isSome = true → x.loc = .suspended) :
    FI cfg (upgradeActionClose x).1 :=
  ⟨ci_upgradeActionClose h.ci hs, cntI_upgradeActionClose h.cn⟩

end Mhd.Upg
