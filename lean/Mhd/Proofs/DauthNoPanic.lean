/-
  C12 proofs: a client cannot make the check call MHD_PANIC (fix F25): for every algorithm constant
  `get_rq_dauth_algo` can produce the result is never `panic`.
-/
import Mhd.Proofs.DauthParsed
namespace Mhd.Dauth
open Mhd.Auth Mhd.Gen.Auth Mhd.Gen.Dauth

/-- an `Except Res` computation never fails with `MHD_PANIC` -/
def NoPanic {α : Type} (x : Except Res α) : Prop := ∀ e, x = .error e → e ≠ .panic

theorem NoPanic.bind {α β : Type} {x : Except Res α} {f : α → Except Res β} (hx : NoPanic x) (hf : ∀ a, NoPanic (f a)) :
    NoPanic (x >>= f) := by
  intro e h
  cases x with
  | error e' => simp [Bind.bind, Except.bind] at h; subst h; exact hx e' rfl
  | ok a => exact hf a e h

theorem np_ok {α : Type} (a : α) : NoPanic (Except.ok a : Except Res α) := by intro e h; cases h
theorem np_err {α : Type} (r : Res) (h : r ≠ .panic) : NoPanic (Except.error r : Except Res α) := by
  intro e he; cases he; exact h

macro "nopanic" : tactic => `(tactic| (intro e h; repeat' split at h; all_goals (first | (cases h; done) | (injection h with h; subst h; simp) | skip)))

/-- the values `get_rq_dauth_algo` can produce -/
abbrev AlgoRange (x : Nat) : Prop :=
  x = algoInvalid ∨ x = algoMd5 ∨ x = algoSha256 ∨ x = algoSha512 ∨ x = algoMd5Sess ∨ x = algoSha256Sess ∨ x = algoSha512Sess

theorem stageAlgoN_np (call : Call) (x : Nat) (hx : AlgoRange x) : NoPanic (stageAlgoN call x) := by
  unfold stageAlgoN
  intro e h
  split at h
  · injection h with h; subst h; simp
  · split at h
    · injection h with h; subst h; simp
    · split at h
      · injection h with h; subst h; simp
      · rename_i h1 _ h3
        have : (baseAlgo x).isSome := by
          rcases hx with hx | hx | hx | hx | hx | hx | hx <;> subst hx
          · exact absurd rfl h1
          · decide
          · decide
          · decide
          · exact absurd (by decide) h3
          · exact absurd (by decide) h3
          · exact absurd (by decide) h3
        obtain ⟨a, ha⟩ := Option.isSome_iff_exists.mp this
        rw [ha] at h
        cases h

theorem stageQopN_np (call : Call) (x : Nat) : NoPanic (stageQopN call x) := by unfold stageQopN; nopanic
theorem presUsername_np (ds : Nat) (lv : LenView) (uh : Bool) : NoPanic (presUsername ds lv uh) := by unfold presUsername; nopanic
theorem presRealm_np (call : Call) (lv : LenView) (uh : Bool) : NoPanic (presRealm call lv uh) := by unfold presRealm; nopanic
theorem presNcCnonce_np (lv : LenView) (q : Nat) : NoPanic (presNcCnonce lv q) := by unfold presNcCnonce; nopanic
theorem presUri_np (lv : LenView) : NoPanic (presUri lv) := by unfold presUri; nopanic
theorem presNonce_np (a : Algo) (lv : LenView) : NoPanic (presNonce a lv) := by unfold presNonce; nopanic
theorem presResponse_np (ds : Nat) (lv : LenView) : NoPanic (presResponse ds lv) := by unfold presResponse; nopanic
theorem needV_np (o : Option Bytes) : NoPanic (needV o) := by unfold needV; nopanic

theorem presenceV_np (a : Algo) (call : Call) (lv : LenView) (q : Nat) (uh : Bool) : NoPanic (presenceV a call lv q uh) := by
  unfold presenceV
  exact (presUsername_np _ _ _).bind fun _ => (presRealm_np _ _ _).bind fun _ => (presNcCnonce_np _ _).bind fun _ =>
    (presUri_np _).bind fun _ => (presNonce_np _ _).bind fun _ => presResponse_np _ _

theorem specRealm_np (call : Call) (c : Cred) : NoPanic (specRealm call c) := by
  unfold specRealm; exact (needV_np _).bind fun v => by nopanic

theorem specUsername_np (a : Algo) (call : Call) (c : Cred) : NoPanic (specUsername a call c) := by
  unfold specUsername
  split
  · split
    · nopanic
    · exact (needV_np _).bind fun e => by nopanic
  · exact (needV_np _).bind fun u => by nopanic

theorem specNc_np (m : Nat) (c : Cred) : NoPanic (specNc m c) := by
  unfold specNc
  split
  · exact (needV_np _).bind fun u => by nopanic
  · exact np_ok _

theorem specNonce_np (a : Algo) (now t : Nat) (c : Cred) : NoPanic (specNonce a now t c) := by
  unfold specNonce; exact (needV_np _).bind fun u => by nopanic

theorem specPre_np (now timeout maxNc : Nat) (call : Call) (c : Cred) (lv : LenView) (hx : AlgoRange c.algo3) :
    NoPanic (specPre now timeout maxNc call c lv) := by
  unfold specPre
  exact (stageAlgoN_np _ _ hx).bind fun a => (stageQopN_np _ _).bind fun _ => (presenceV_np _ _ _ _ _).bind fun _ =>
    (specRealm_np _ _).bind fun _ => (specUsername_np _ _ _).bind fun _ => (specNc_np _ _).bind fun _ =>
    (specNonce_np _ _ _ _).bind fun _ => np_ok _

theorem specUri_np (cfg : Cfg) (r : Req) (c : Cred) (lv : LenView) : NoPanic (specUri cfg r c lv) := by
  unfold specUri; exact (needV_np _).bind fun u => by nopanic

theorem ha1Hex_np (a : Algo) (call : Call) : NoPanic (ha1Hex a call) := by unfold ha1Hex; nopanic

theorem specQopPart_np (c : Cred) : NoPanic (specQopPart c) := by
  unfold specQopPart
  split
  · exact (needV_np _).bind fun _ => (needV_np _).bind fun _ => (needV_np _).bind fun _ => np_ok _
  · exact np_ok _

theorem specResponse_np (a : Algo) (r : Req) (call : Call) (c : Cred) (uri : Bytes) : NoPanic (specResponse a r call c uri) := by
  unfold specResponse
  refine (ha1Hex_np _ _).bind fun h1 => (needV_np _).bind fun resp => ?_
  split
  · exact np_err _ (by simp)
  · split
    · exact np_err _ (by simp)
    · split
      · exact np_err _ (by simp)
      · exact (needV_np _).bind fun _ => (specQopPart_np _).bind fun _ => by nopanic

theorem specBind_np (cfg : Cfg) (a : Algo) (r : Req) (call : Call) (c : Cred) (t : Nat) : NoPanic (specBind cfg a r call c t) := by
  unfold specBind
  split
  · split
    · exact np_err _ (by simp)
    · exact (needV_np _).bind fun _ => by nopanic
  · exact np_ok _

theorem specPost_np (cfg : Cfg) (r : Req) (call : Call) (c : Cred) (lv : LenView) (a : Algo) (t : Nat) :
    specPost cfg r call c lv a t ≠ .panic := by
  have hs : NoPanic (do
      let uri ← specUri cfg r c lv
      specResponse a r call c uri
      specBind cfg a r call c t : Except Res Unit) :=
    (specUri_np _ _ _ _).bind fun uri => (specResponse_np _ _ _ _ _).bind fun _ => specBind_np _ _ _ _ _ _
  unfold specPost
  split
  · simp
  · rename_i e he; exact hs e he

theorem expectedClass_no_panic (cfg : Cfg) (tbl : Mhd.Nonce.Table) (now : Nat) (r : Req) (call : Call) (timeout maxNc : Nat)
    (c : Cred) (lv : LenView) (hx : AlgoRange c.algo3) :
    (expectedClass cfg tbl now r call timeout maxNc c lv).2 ≠ .panic := by
  unfold expectedClass
  cases hS : specPre now timeout maxNc call c lv with
  | error e => exact specPre_np _ _ _ _ _ _ hx e hS
  | ok x =>
    obtain ⟨a, nci, n, t⟩ := x
    simp only
    split
    · exact specPost_np _ _ _ _ _ _ _
    · generalize (Mhd.Nonce.checkNonceNc tbl n t nci).2 = o
      cases o <;> simp [ofNc]

theorem algoOf_range (p : Option Param) : AlgoRange (algoOf p) := by
  have hc : ∀ (eq : Bytes → Bool) (l : List (Bytes × Nat)), (∀ x ∈ l, AlgoRange x.2) → AlgoRange (chainFind eq l algoNoMatch) := by
    intro eq l
    induction l with
    | nil => intro _; left; rfl
    | cons x t ih =>
      intro hx
      obtain ⟨tok, c⟩ := x
      simp only [chainFind]
      split
      · exact hx (tok, c) (by simp)
      · exact ih (fun y hy => hx y (by simp [hy]))
  cases p with
  | none => right; left; rfl
  | some p =>
    simp only [algoOf]
    by_cases hq : p.quoted = true
    · rw [if_pos hq]; exact hc _ _ (by decide)
    · rw [if_neg hq]; exact hc _ _ (by decide)

end Mhd.Dauth
