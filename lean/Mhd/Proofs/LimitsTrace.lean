/-
  C09 helper lemmas, part 4: conservation laws for the observable life-cycle
  events (socket close, connection-start and connection-close notification).
-/
import Mhd.Proofs.LimitsStep

namespace Mhd.Limits


/-- members of `l` with connection index `c` -/
def nu (c : Nat) (l : List Conn) : Nat := l.countP (fun x => x.id == c)

@[simp] theorem nu_nil (c) : nu c [] = 0 := rfl
@[simp] theorem nu_cons (c) (x : Conn) (l) : nu c (x :: l) = nu c l + if x.id = c then 1 else 0 := by
  simp [nu, List.countP_cons]
@[simp] theorem nu_append (c) (l₁ l₂ : List Conn) : nu c (l₁ ++ l₂) = nu c l₁ + nu c l₂ := by
  simp [nu, List.countP_append]
@[simp] theorem nu_reverse (c) (l : List Conn) : nu c l.reverse = nu c l := by
  simp [nu, List.countP_reverse]

theorem nu_map (c) (f : Conn → Conn) (hf : ∀ x, (f x).id = x.id) (l : List Conn) : nu c (l.map f) = nu c l := by
  induction l with
  | nil => rfl
  | cons x l ih => simp [ih, hf]

theorem nu_filter_split (c) (q : Conn → Bool) (l : List Conn) :
    nu c (l.filter q) + nu c (l.filter (fun x => !q x)) = nu c l := by
  induction l with
  | nil => rfl
  | cons x l ih =>
    by_cases h : q x = true
    · simp [h]; omega
    · simp [h]; omega

theorem nu_updConn (c id : Nat) (f : Conn → Conn) (hf : ∀ x, (f x).id = x.id) (l : List Conn) :
    nu c (updConn id f l) = nu c l := by
  unfold updConn
  apply nu_map
  intro x
  by_cases h : x.id = id <;> simp [h, hf]

def fdc (c : Nat) (evs : List Ev) : Nat := evs.count (.fdClose c)
def stc (c : Nat) (evs : List Ev) : Nat := evs.count (.connStart c)
def clc (c : Nat) (evs : List Ev) : Nat := evs.count (.connClose c)

@[simp] theorem fdc_nil (c) : fdc c [] = 0 := rfl
@[simp] theorem stc_nil (c) : stc c [] = 0 := rfl
@[simp] theorem clc_nil (c) : clc c [] = 0 := rfl
@[simp] theorem fdc_append (c) (a b : List Ev) : fdc c (a ++ b) = fdc c a + fdc c b := by simp [fdc]
@[simp] theorem stc_append (c) (a b : List Ev) : stc c (a ++ b) = stc c a + stc c b := by simp [stc]
@[simp] theorem clc_append (c) (a b : List Ev) : clc c (a ++ b) = clc c a + clc c b := by simp [clc]
@[simp] theorem fdc_cons (c) (e : Ev) (l) : fdc c (e :: l) = fdc c l + if e = .fdClose c then 1 else 0 := by
  simp [fdc, List.count_cons]
@[simp] theorem stc_cons (c) (e : Ev) (l) : stc c (e :: l) = stc c l + if e = .connStart c then 1 else 0 := by
  simp [stc, List.count_cons]
@[simp] theorem clc_cons (c) (e : Ev) (l) : clc c (e :: l) = clc c l + if e = .connClose c then 1 else 0 := by
  simp [clc, List.count_cons]

/-- no socket-close / start / close-notification event -/
def Quiet (evs : List Ev) : Prop := ∀ c, fdc c evs = 0 ∧ stc c evs = 0 ∧ clc c evs = 0

theorem quiet_nil : Quiet [] := fun _ => ⟨rfl, rfl, rfl⟩
theorem quiet_append {a b : List Ev} (ha : Quiet a) (hb : Quiet b) : Quiet (a ++ b) := by
  intro c; have := ha c; have := hb c; simp; omega

theorem release_quiet (R : RespTab) (r : Nat) : Quiet (release R r).2 := by
  unfold release
  intro c
  split
  · simp
  · split
    · simp
    · split
      · simp
      · split
        · split <;> simp
        · simp

theorem closeConn_quiet (R : RespTab) (x : Conn) : Quiet (closeConn R x).2.2 := by
  unfold closeConn
  split
  · exact release_quiet _ _
  · exact quiet_nil

theorem finishReply_quiet (R : RespTab) (x : Conn) : Quiet (finishReply R x).2.2.2 := by
  unfold finishReply; exact closeConn_quiet R x

theorem runReply_quiet (R : RespTab) (x : Conn) (r : Nat) (cl : Bool) : Quiet (runReply R x r cl).2.2.2 := by
  unfold runReply
  split
  · exact closeConn_quiet _ _
  · split
    · exact quiet_append (fun c => by simp) (closeConn_quiet _ _)
    · split
      · exact quiet_nil
      · exact finishReply_quiet _ _

theorem doReply_quiet (cfg : Cfg) (R : RespTab) (x : Conn) (r : Nat) (cl : Bool) : Quiet (doReply cfg R x r cl).2.2.2 := by
  unfold doReply
  split
  · intro c; simp
  · split
    · intro c; simp
    · split
      · intro c; simp
      · exact quiet_append (fun c => by simp) (runReply_quiet _ _ _ _)

theorem interimOne_quiet (R : RespTab) (x : Conn) (r : Nat) : Quiet (interimOne R x r).2.2 := by
  unfold interimOne
  split
  · intro c; simp
  · split
    · intro c; simp
    · exact quiet_append (fun c => by simp) (release_quiet _ _)

theorem interims_quiet (x : Conn) (l : List Nat) : ∀ (R : RespTab), Quiet (interims R x l).2.2 := by
  induction l with
  | nil => intro R; exact quiet_nil
  | cons r rest ih =>
    intro R
    unfold interims
    have h1 := interimOne_quiet R x r
    generalize interimOne R x r = q at h1 ⊢
    obtain ⟨R1, ok, e⟩ := q
    cases ok with
    | false => exact h1
    | true => exact quiet_append h1 (ih R1)

theorem replyPre_quiet (cfg : Cfg) (R : RespTab) (x : Conn) (r : Nat) (cl : Bool) (pre : List Nat) :
    Quiet (replyPre cfg R x r cl pre).2.2.2 := by
  unfold replyPre
  have h1 := interims_quiet x pre R
  generalize interims R x pre = q at h1 ⊢
  obtain ⟨R1, ok, e⟩ := q
  cases ok with
  | false => exact h1
  | true => exact quiet_append h1 (doReply_quiet _ _ _ _ _)

theorem handleReq_quiet (cfg : Cfg) (R : RespTab) (x : Conn) : Quiet (handleReq cfg R x).2.2.2 := by
  unfold handleReq
  split
  · exact quiet_nil
  · split <;> (intro c; simp)
  · exact replyPre_quiet _ _ _ _ _ _
  · exact quiet_nil
  · exact replyPre_quiet _ _ _ _ _ _
  · split
    · exact runReply_quiet _ _ _ _
    · exact quiet_nil

theorem afterReq_quiet (R : RespTab) (x : Conn) : Quiet (afterReq R x).2.2.2 := by
  unfold afterReq
  split
  · exact closeConn_quiet _ _
  · split
    · exact finishReply_quiet _ _
    · exact quiet_nil

theorem handleConn_quiet (cfg : Cfg) (R : RespTab) (x : Conn) : Quiet (handleConn cfg R x).2.2.2 := by
  unfold handleConn
  have h1 := handleReq_quiet cfg R x
  generalize handleReq cfg R x = q at h1 ⊢
  obtain ⟨R1, c1, d, e⟩ := q
  simp only at h1 ⊢
  cases d with
  | keep => exact quiet_append h1 (afterReq_quiet _ _)
  | clean => exact h1
  | susp => exact h1



/-- connections with index `c` that are not yet started: `new_connections` + prepared ones -/
def NN (c : Nat) (s : St) (pi : List Conn) : Nat := nu c s.newL + nu c pi
/-- started connections with index `c`: the three counted lists + detached ones being disposed -/
def LL (c : Nat) (s : St) (pc : List Conn) : Nat := nu c s.active + nu c s.susp + nu c s.cleanup + nu c pc

/-- balance of one function application for connection index `c`:
    `b` connections are born, every connection that disappears has its socket closed exactly once,
    every start notification creates a started connection, every close notification removes one and is
    accompanied by the socket close -/
structure Bal (c : Nat) (b Nb Lb Na La : Nat) (evs : List Ev) : Prop where
  F : fdc c evs + Na + La = Nb + Lb + b
  S : stc c evs + Lb = La + clc c evs
  C : clc c evs ≤ fdc c evs

theorem Bal.trans {c b1 b2 N0 L0 N1 L1 N2 L2 : Nat} {e1 e2 : List Ev}
    (h1 : Bal c b1 N0 L0 N1 L1 e1) (h2 : Bal c b2 N1 L1 N2 L2 e2) : Bal c (b1 + b2) N0 L0 N2 L2 (e1 ++ e2) := by
  obtain ⟨f1, s1, c1⟩ := h1
  obtain ⟨f2, s2, c2⟩ := h2
  refine ⟨?_, ?_, ?_⟩ <;> simp <;> omega

theorem Bal.quiet {c N L : Nat} {e : List Ev} (h : Quiet e) : Bal c 0 N L N L e := by
  have := h c
  refine ⟨?_, ?_, ?_⟩ <;> omega

theorem Bal.congr {c b Nb Lb Na La Nb' Lb' Na' La' : Nat} {e : List Ev} (h : Bal c b Nb Lb Na La e)
    (h1 : Nb' = Nb) (h2 : Lb' = Lb) (h3 : Na' = Na) (h4 : La' = La) : Bal c b Nb' Lb' Na' La' e := by
  subst h1 h2 h3 h4; exact h

/-! ### admission -/

theorem process_bal (c : Nat) (s : St) (cn : Conn) (pi pc : List Conn) :
    Bal c 0 (NN c s (cn :: pi)) (LL c s pc) (NN c (process s cn).1 pi) (LL c (process s cn).1 pc) (process s cn).2.2 ∧
    (process s cn).1.nextId = s.nextId := by
  unfold process
  by_cases hp : s.armed = some .pool
  · simp only [hp, if_true]
    have hf := ipDel_fields { s with armed := none } cn.addr
    simp only [NN, LL, hf, nu_cons]
    refine ⟨⟨?_, ?_, ?_⟩, ?_⟩
    all_goals first | trivial | omega | (simp; done) | (simp; omega)
  · simp only [hp, if_false]
    by_cases hl : s.connections ≥ s.cfg.limit
    · simp only [hl, if_true]
      have hf := ipDel_fields s cn.addr
      simp only [NN, LL, hf, nu_cons]
      refine ⟨⟨?_, ?_, ?_⟩, ?_⟩
      all_goals first | trivial | omega | (simp; done) | (simp; omega)
    · simp only [hl, if_false]
      have hf := lateFail_fields { s with connections := s.connections + 1, active := cn :: s.active }
      have hq : Quiet (lateFail { s with connections := s.connections + 1, active := cn :: s.active }).2.2 := by
        unfold lateFail; intro c; split
        · split <;> simp
        · split
          · split <;> simp
          · simp
      generalize lateFail { s with connections := s.connections + 1, active := cn :: s.active } = r at hf hq ⊢
      obtain ⟨s2, fl, e⟩ := r
      simp only at hf hq
      obtain ⟨f1, f2, f3, f4, f5, f6, f7, f8, f9, f10, _⟩ := hf
      have hqc := hq c
      cases fl with
      | false =>
        simp only [NN, LL, f4, f5, f6, f7, f10, nu_cons]
        refine ⟨⟨?_, ?_, ?_⟩, ?_⟩
        all_goals first | trivial | omega | (simp; done) | (simp; omega)
      | true =>
        have hd := ipDel_fields { s2 with connections := s2.connections - 1, active := s2.active.tail } cn.addr
        simp only [NN, LL, hd]
        simp only [f4, f5, f6, f7, f10, nu_cons, List.tail_cons]
        refine ⟨⟨?_, ?_, ?_⟩, ?_⟩
        all_goals first | trivial | omega | (simp; done) | (simp; omega)

theorem processList_bal (c : Nat) (l : List Conn) : ∀ (s : St) (pi pc : List Conn),
    Bal c 0 (NN c s (l ++ pi)) (LL c s pc) (NN c (processList s l).1 pi) (LL c (processList s l).1 pc) (processList s l).2 ∧
    (processList s l).1.nextId = s.nextId := by
  induction l with
  | nil => intro s pi pc; exact ⟨Bal.quiet quiet_nil, rfl⟩
  | cons cn rest ih =>
    intro s pi pc
    unfold processList
    have h1 := process_bal c s cn (rest ++ pi) pc
    generalize process s cn = r at h1 ⊢
    obtain ⟨s1, ok, e1⟩ := r
    simp only at h1 ⊢
    have h2 := ih s1 pi pc
    exact ⟨(h1.1.trans h2.1), h2.2.trans h1.2⟩

theorem processNew_bal (c : Nat) (s : St) (pc : List Conn) :
    Bal c 0 (NN c s []) (LL c s pc) (NN c (processNew s).1 []) (LL c (processNew s).1 pc) (processNew s).2 ∧
    (processNew s).1.nextId = s.nextId := by
  unfold processNew
  have h := processList_bal c s.newL.reverse { s with newL := [] } [] pc
  refine ⟨h.1.congr ?_ rfl rfl rfl, h.2⟩
  simp [NN]


/-! ### disposal -/

theorem releaseOpt_quiet (R : RespTab) (o : Option Nat) : Quiet (releaseOpt R o).2 := by
  cases o with
  | none => exact quiet_nil
  | some r => exact release_quiet R r

theorem cleanupOne_bal (c : Nat) (s : St) (x : Conn) (pi pc : List Conn) :
    Bal c 0 (NN c s pi) (LL c s (x :: pc)) (NN c (cleanupOne s x).1 pi) (LL c (cleanupOne s x).1 pc) (cleanupOne s x).2 ∧
    (cleanupOne s x).1.nextId = s.nextId := by
  have hf := ipDel_fields s x.addr
  obtain ⟨f1, f2, f3, f4, f5, f6, f7, f8, _⟩ := hf
  have hqc := releaseOpt_quiet { tab := (ipDel s x.addr).resps, fault := none } x.resp c
  unfold cleanupOne
  simp only
  generalize releaseOpt { tab := (ipDel s x.addr).resps, fault := none } x.resp = rr at hqc ⊢
  split
  · simp only [NN, LL, f3, f4, f5, f6, f8, nu_cons]
    refine ⟨⟨?_, ?_, ?_⟩, ?_⟩
    all_goals first | trivial | omega | (simp; done) | (simp; omega)
  · simp only [NN, LL, f3, f4, f5, f6, f8, nu_cons]
    refine ⟨⟨?_, ?_, ?_⟩, ?_⟩
    all_goals first | trivial | omega | (simp; done) | (simp; omega)

theorem cleanupList_bal (c : Nat) (l : List Conn) : ∀ (s : St) (pi pc : List Conn),
    Bal c 0 (NN c s pi) (LL c s (l ++ pc)) (NN c (cleanupList s l).1 pi) (LL c (cleanupList s l).1 pc) (cleanupList s l).2 ∧
    (cleanupList s l).1.nextId = s.nextId := by
  induction l with
  | nil => intro s pi pc; exact ⟨Bal.quiet quiet_nil, rfl⟩
  | cons x rest ih =>
    intro s pi pc
    unfold cleanupList
    have h1 := cleanupOne_bal c s x pi (rest ++ pc)
    generalize cleanupOne s x = r at h1 ⊢
    obtain ⟨s1, e1⟩ := r
    simp only at h1 ⊢
    have h2 := ih s1 pi pc
    exact ⟨h1.1.trans h2.1, h2.2.trans h1.2⟩

theorem cleanupAll_bal (c : Nat) (s : St) (pi : List Conn) :
    Bal c 0 (NN c s pi) (LL c s []) (NN c (cleanupAll s).1 pi) (LL c (cleanupAll s).1 []) (cleanupAll s).2 ∧
    (cleanupAll s).1.nextId = s.nextId := by
  unfold cleanupAll
  have h := cleanupList_bal c s.cleanup.reverse { s with cleanup := [] } pi []
  refine ⟨h.1.congr rfl ?_ rfl rfl, h.2⟩
  simp [LL]

theorem closeNewList_bal (c : Nat) (l : List Conn) : ∀ (s : St) (pi pc : List Conn),
    Bal c 0 (NN c s (l ++ pi)) (LL c s pc) (NN c (closeNewList s l).1 pi) (LL c (closeNewList s l).1 pc) (closeNewList s l).2 ∧
    (closeNewList s l).1.nextId = s.nextId := by
  induction l with
  | nil => intro s pi pc; exact ⟨Bal.quiet quiet_nil, rfl⟩
  | cons x rest ih =>
    intro s pi pc
    unfold closeNewList
    have hf := ipDel_fields s x.addr
    obtain ⟨f1, f2, f3, f4, f5, f6, f7, f8, _⟩ := hf
    have h2 := ih (ipDel s x.addr) pi pc
    obtain ⟨⟨a1, a2, a3⟩, a4⟩ := h2
    simp only [NN, LL, f3, f4, f5, f6, nu_append] at a1 a2 a3
    simp only [NN, LL, List.cons_append, nu_cons, nu_append]
    refine ⟨⟨?_, ?_, ?_⟩, a4.trans f8⟩
    all_goals first | omega | (simp; omega)

/-! ### passes that only move connections between lists -/

theorem clearResuming_id (x : Conn) : (clearResuming x).id = x.id := rfl
theorem markAppClosed_id (x : Conn) : (markAppClosed x).id = x.id := rfl

theorem resumePass_bal (c : Nat) (s : St) (pi pc : List Conn) :
    Bal c 0 (NN c s pi) (LL c s pc) (NN c (resumePass s).1 pi) (LL c (resumePass s).1 pc) (resumePass s).2 ∧
    (resumePass s).1.nextId = s.nextId := by
  unfold resumePass
  by_cases hr : (!s.resuming) = true
  · rw [if_pos hr]; exact ⟨Bal.quiet quiet_nil, rfl⟩
  · rw [if_neg hr]
    refine ⟨(Bal.quiet quiet_nil).congr rfl ?_ rfl rfl, rfl⟩
    simp only [LL, nu_append, nu_map c _ clearResuming_id]
    have h1 := nu_filter_split c canResume s.susp
    have h2 := nu_filter_split c (fun x => x.urh) (s.susp.filter canResume)
    omega

theorem handleList_nu (cfg : Cfg) (c : Nat) (l : List Conn) : ∀ (acc : HAcc), CountFaultFree acc.R.fault →
    nu c (handleList cfg acc l).kept + nu c (handleList cfg acc l).clean + nu c (handleList cfg acc l).susp
        = nu c acc.kept + nu c acc.clean + nu c acc.susp + nu c l ∧
    (Quiet acc.evs → Quiet (handleList cfg acc l).evs) := by
  induction l with
  | nil => intro acc _; exact ⟨by simp [handleList], fun h => h⟩
  | cons x rest ih =>
    intro acc hcf
    unfold handleList
    have hk := handleConn_ok cfg acc.R x hcf
    have hq := handleConn_quiet cfg acc.R x
    generalize handleConn cfg acc.R x = q at hk hq ⊢
    obtain ⟨R1, c1, d, e⟩ := q
    obtain ⟨a1, a2, a3⟩ := hk
    simp only at hq a1 a2 a3
    cases d with
    | keep =>
      simp only
      have := ih { acc with R := R1, kept := c1 :: acc.kept, evs := acc.evs ++ e } a3
      refine ⟨?_, fun h => this.2 (quiet_append h hq)⟩
      have := this.1; simp only [nu_cons, a2] at this ⊢; omega
    | clean =>
      simp only
      have := ih { acc with R := R1, clean := c1 :: acc.clean, evs := acc.evs ++ e } a3
      refine ⟨?_, fun h => this.2 (quiet_append h hq)⟩
      have := this.1; simp only [nu_cons, a2] at this ⊢; omega
    | susp =>
      simp only
      have := ih { acc with R := R1, susp := c1 :: acc.susp, evs := acc.evs ++ e } a3
      refine ⟨?_, fun h => this.2 (quiet_append h hq)⟩
      have := this.1; simp only [nu_cons, a2] at this ⊢; omega

theorem handlePass_bal (c : Nat) (s : St) (pi pc : List Conn) :
    Bal c 0 (NN c s pi) (LL c s pc) (NN c (handlePass s).1 pi) (LL c (handlePass s).1 pc) (handlePass s).2 ∧
    (handlePass s).1.nextId = s.nextId := by
  unfold handlePass
  have hs := handleList_nu s.cfg c s.active.reverse
    { R := { tab := s.resps, fault := none }, kept := [], clean := [], susp := [], evs := [] } cf_none
  generalize handleList s.cfg _ s.active.reverse = acc at hs ⊢
  obtain ⟨hnu, hq⟩ := hs
  refine ⟨(Bal.quiet (hq quiet_nil)).congr rfl ?_ rfl rfl, rfl⟩
  simp only [LL, nu_append, nu_nil, nu_reverse] at hnu ⊢; omega

theorem closeList_nu (c : Nat) (l : List Conn) : ∀ (acc : CAcc),
    nu c (closeList acc l).moved = nu c acc.moved + nu c l ∧ (Quiet acc.evs → Quiet (closeList acc l).evs) := by
  induction l with
  | nil => intro acc; exact ⟨by simp [closeList], fun h => h⟩
  | cons x rest ih =>
    intro acc
    unfold closeList
    have h1 := closeConn_addr acc.R x
    have hq := closeConn_quiet acc.R x
    generalize closeConn acc.R x = q at h1 hq ⊢
    obtain ⟨R1, c1, e⟩ := q
    simp only at h1 hq ⊢
    have := ih { R := R1, moved := c1 :: acc.moved, evs := acc.evs ++ e }
    refine ⟨?_, fun h => this.2 (quiet_append h hq)⟩
    have := this.1; simp only [nu_cons, h1.2] at this ⊢; omega

theorem closeActive_bal (c : Nat) (s : St) (pi pc : List Conn) :
    Bal c 0 (NN c s pi) (LL c s pc) (NN c (closeActive s).1 pi) (LL c (closeActive s).1 pc) (closeActive s).2 ∧
    (closeActive s).1.nextId = s.nextId := by
  unfold closeActive
  have hs := closeList_nu c s.active.reverse { R := { tab := s.resps, fault := none }, moved := [], evs := [] }
  generalize closeList _ s.active.reverse = acc at hs ⊢
  obtain ⟨hnu, hq⟩ := hs
  refine ⟨(Bal.quiet (hq quiet_nil)).congr rfl ?_ rfl rfl, rfl⟩
  simp only [LL, nu_append, nu_nil, nu_reverse] at hnu ⊢; omega

theorem markUpgraded_bal (c : Nat) (s : St) (pi pc : List Conn) :
    NN c (markUpgraded s) pi = NN c s pi ∧ LL c (markUpgraded s) pc = LL c s pc ∧ (markUpgraded s).nextId = s.nextId := by
  unfold markUpgraded
  split
  · simp [NN, LL, nu_map c _ markAppClosed_id]
  · exact ⟨rfl, rfl, rfl⟩

theorem forceResume_bal (c : Nat) (flag : Bool) (s : St) (pi pc : List Conn) :
    Bal c 0 (NN c s pi) (LL c s pc) (NN c (forceResume flag s).1 pi) (LL c (forceResume flag s).1 pc) (forceResume flag s).2 ∧
    (forceResume flag s).1.nextId = s.nextId := by
  unfold forceResume
  split
  · exact resumePass_bal c { s with resuming := true } pi pc
  · exact ⟨Bal.quiet quiet_nil, rfl⟩

theorem Bal.zero_add {c N0 L0 N1 L1 : Nat} {e : List Ev} (h : Bal c (0 + 0) N0 L0 N1 L1 e) : Bal c 0 N0 L0 N1 L1 e := h

theorem round_bal (c : Nat) (s : St) :
    Bal c 0 (NN c s []) (LL c s []) (NN c (round s).1 []) (LL c (round s).1 []) (round s).2 ∧
    (round s).1.nextId = s.nextId := by
  unfold round
  have h1 : Bal c 0 (NN c s []) (LL c s []) (NN c (if s.cfg.allowSuspend then resumePass s else (s, [])).1 [])
      (LL c (if s.cfg.allowSuspend then resumePass s else (s, [])).1 []) (if s.cfg.allowSuspend then resumePass s else (s, [])).2 ∧
      (if s.cfg.allowSuspend then resumePass s else (s, [])).1.nextId = s.nextId := by
    split
    · exact resumePass_bal c s [] []
    · exact ⟨Bal.quiet quiet_nil, rfl⟩
  generalize (if s.cfg.allowSuspend then resumePass s else (s, [])) = r1 at h1 ⊢
  have h2 := processNew_bal c r1.1 []
  have h3 := handlePass_bal c (processNew r1.1).1 [] []
  have h4 := cleanupAll_bal c (handlePass (processNew r1.1).1).1 []
  simp only
  refine ⟨?_, ?_⟩
  · have := ((h1.1.trans h2.1).trans h3.1).trans h4.1
    simpa [List.append_assoc] using this
  · rw [h4.2, h3.2, h2.2, h1.2]

theorem stopTail_bal (c : Nat) (s : St) :
    Bal c 0 (NN c s []) (LL c s []) (NN c (stopTail s).1 []) (LL c (stopTail s).1 []) (stopTail s).2 ∧
    (stopTail s).1.nextId = s.nextId := by
  unfold stopTail
  have h0 := markUpgraded_bal c s [] []
  have h1 := forceResume_bal c s.cfg.allowUpgrade (markUpgraded s) [] []
  generalize forceResume s.cfg.allowUpgrade (markUpgraded s) = r4 at h1 ⊢
  have h2 := closeActive_bal c r4.1 [] []
  have h3 := cleanupAll_bal c (closeActive r4.1).1 []
  simp only
  refine ⟨?_, ?_⟩
  · have := (h1.1.trans h2.1).trans h3.1
    rw [h0.1, h0.2.1] at this
    simpa [List.append_assoc] using this
  · rw [h3.2, h2.2, h1.2, h0.2.2]

theorem stop_bal (c : Nat) (s : St) :
    Bal c 0 (NN c s []) (LL c s []) (NN c (stop s).1 []) (LL c (stop s).1 []) (stop s).2 ∧
    (stop s).1.nextId = s.nextId := by
  unfold stop
  have h1 := closeNewList_bal c s.newL.reverse { s with shutdown := true, newL := [] } [] []
  simp only
  generalize closeNewList { s with shutdown := true, newL := [] } s.newL.reverse = r1 at h1 ⊢
  have h2 := forceResume_bal c r1.1.cfg.allowSuspend r1.1 [] []
  generalize forceResume r1.1.cfg.allowSuspend r1.1 = r2 at h2 ⊢
  have h12 := h1.1.trans h2.1
  have hN : NN c { s with shutdown := true, newL := [] } (s.newL.reverse ++ []) = NN c s [] := by simp [NN]
  have hL : LL c { s with shutdown := true, newL := [] } [] = LL c s [] := rfl
  rw [hN, hL] at h12
  split
  · refine ⟨?_, ?_⟩
    · have hp : Bal c 0 (NN c r2.1 []) (LL c r2.1 []) (NN c r2.1 []) (LL c r2.1 []) [Ev.panic .stopSuspended] :=
        Bal.quiet (fun _ => by simp)
      have := h12.trans hp
      simpa [List.append_assoc, NN, LL] using this
    · simp only; rw [h2.2, h1.2]
  · have h3 := stopTail_bal c r2.1
    refine ⟨?_, ?_⟩
    · have := h12.trans h3.1
      simpa [List.append_assoc] using this
    · rw [h3.2, h2.2, h1.2]


/-! ### arrivals -/

@[simp] theorem ipDel_newL (s : St) (a : Nat) : (ipDel s a).newL = s.newL := (ipDel_fields s a).2.2.1
@[simp] theorem ipDel_active (s : St) (a : Nat) : (ipDel s a).active = s.active := (ipDel_fields s a).2.2.2.1
@[simp] theorem ipDel_susp (s : St) (a : Nat) : (ipDel s a).susp = s.susp := (ipDel_fields s a).2.2.2.2.1
@[simp] theorem ipDel_cleanup (s : St) (a : Nat) : (ipDel s a).cleanup = s.cleanup := (ipDel_fields s a).2.2.2.2.2.1
@[simp] theorem ipDel_nextId (s : St) (a : Nat) : (ipDel s a).nextId = s.nextId := (ipDel_fields s a).2.2.2.2.2.2.2.1
@[simp] theorem ipDel_cfg (s : St) (a : Nat) : (ipDel s a).cfg = s.cfg := (ipDel_fields s a).1

theorem ipAdd_quiet (s : St) (a : Nat) : Quiet (ipAdd s a).2.2 := by
  unfold ipAdd
  intro c
  split
  · simp
  · split
    · simp
    · split
      · simp
      · split <;> simp

theorem prepare_bal (c : Nat) (s : St) (c0 a : Nat) (v : Bool) :
    (prepare s c0 a v).1.newL = s.newL ∧ (prepare s c0 a v).1.active = s.active ∧ (prepare s c0 a v).1.susp = s.susp ∧
    (prepare s c0 a v).1.cleanup = s.cleanup ∧ (prepare s c0 a v).1.nextId = s.nextId ∧
    (prepare s c0 a v).1.cfg = s.cfg ∧
    stc c (prepare s c0 a v).2.2 = 0 ∧ clc c (prepare s c0 a v).2.2 = 0 ∧
    ((prepare s c0 a v).2.1 = none → fdc c (prepare s c0 a v).2.2 = if c0 = c then 1 else 0) ∧
    (∀ cn, (prepare s c0 a v).2.1 = some cn → fdc c (prepare s c0 a v).2.2 = 0 ∧ cn.id = c0) := by
  unfold prepare
  by_cases hl : s.connections = s.cfg.limit
  · simp [hl]
  · simp only [hl, if_false]
    have hf := ipAdd_fields s a
    have hq := ipAdd_quiet s a c
    generalize ipAdd s a = r at hf hq ⊢
    obtain ⟨s1, ok, e1⟩ := r
    simp only at hf hq
    obtain ⟨f1, f2, f3, f4, f5, f6, f7, f8, f9, _⟩ := hf
    obtain ⟨q1, q2, q3⟩ := hq
    cases ok with
    | false => simp [f1, f3, f4, f5, f6, f9, q1, q2, q3]
    | true =>
      simp only
      by_cases hv : (!v) = true
      · simp [hv, f1, f3, f4, f5, f6, f9, q1, q2, q3]
      · simp only [hv]
        by_cases hc : s1.armed = some .conn
        · simp [hc, f1, f3, f4, f5, f6, f9, q1, q2, q3]
        · simp only [hc, if_false]
          by_cases ha : s1.armed = some .addr
          · simp [ha, f1, f3, f4, f5, f6, f9, q1, q2, q3]
          · simp [ha, f1, f3, f4, f5, f6, f9, q1, q2, q3]

theorem admitConn_bal (c : Nat) (s : St) (c0 a : Nat) (v ext : Bool) :
    Bal c (if c0 = c then 1 else 0) (NN c s []) (LL c s []) (NN c (admitConn s c0 a v ext).1 [])
      (LL c (admitConn s c0 a v ext).1 []) (admitConn s c0 a v ext).2 ∧
    (admitConn s c0 a v ext).1.nextId = s.nextId := by
  unfold admitConn
  have hp := prepare_bal c s c0 a v
  generalize prepare s c0 a v = p at hp ⊢
  obtain ⟨s1, oc, e1⟩ := p
  simp only at hp ⊢
  obtain ⟨p1, p2, p3, p4, p5, p6, p7, p8, p9, p10⟩ := hp
  cases oc with
  | none =>
    have := p9 rfl
    simp only [NN, LL, p1, p2, p3, p4, p5]
    refine ⟨⟨?_, ?_, ?_⟩, trivial⟩
    all_goals first | omega | (simp; omega)
  | some cn =>
    have := p10 cn rfl
    obtain ⟨g1, g2⟩ := this
    simp only
    by_cases ht : (ext && s1.cfg.threadSafe) = true
    · rw [if_pos ht]
      simp only [NN, LL, p1, p2, p3, p4, p5, nu_cons, g2]
      refine ⟨⟨?_, ?_, ?_⟩, trivial⟩
      all_goals first | omega | (simp; omega)
    · rw [if_neg ht]
      have hb := process_bal c s1 cn [] []
      obtain ⟨⟨b1, b2, b3⟩, b4⟩ := hb
      simp only [NN, LL, p1, p2, p3, p4, nu_cons, nu_nil, g2] at b1 b2 b3
      simp only [NN, LL, nu_nil]
      refine ⟨⟨?_, ?_, ?_⟩, b4.trans p5⟩
      all_goals first | omega | (simp; omega)

theorem arrive_bal (c : Nat) (s : St) (a : Nat) (v ext : Bool) :
    Bal c (if s.nextId = c then 1 else 0) (NN c s []) (LL c s []) (NN c (arrive s a v ext).1 [])
      (LL c (arrive s a v ext).1 []) (arrive s a v ext).2 ∧
    (arrive s a v ext).1.nextId = s.nextId + 1 := by
  unfold arrive
  simp only
  have h0 : Bal c 0 (NN c s []) (LL c s [])
      (NN c (if ext && !s.cfg.threadSafe && decide (s.cfg.limit ≤ s.connections) then cleanupAll { s with nextId := s.nextId + 1 }
              else ({ s with nextId := s.nextId + 1 }, [])).1 [])
      (LL c (if ext && !s.cfg.threadSafe && decide (s.cfg.limit ≤ s.connections) then cleanupAll { s with nextId := s.nextId + 1 }
              else ({ s with nextId := s.nextId + 1 }, [])).1 [])
      (if ext && !s.cfg.threadSafe && decide (s.cfg.limit ≤ s.connections) then cleanupAll { s with nextId := s.nextId + 1 }
              else ({ s with nextId := s.nextId + 1 }, [])).2 ∧
      (if ext && !s.cfg.threadSafe && decide (s.cfg.limit ≤ s.connections) then cleanupAll { s with nextId := s.nextId + 1 }
              else ({ s with nextId := s.nextId + 1 }, [])).1.nextId = s.nextId + 1 := by
    split
    · exact cleanupAll_bal c { s with nextId := s.nextId + 1 } []
    · exact ⟨Bal.quiet quiet_nil, rfl⟩
  generalize (if ext && !s.cfg.threadSafe && decide (s.cfg.limit ≤ s.connections) then cleanupAll { s with nextId := s.nextId + 1 }
              else ({ s with nextId := s.nextId + 1 }, [])) = r0 at h0 ⊢
  have h1 := admitConn_bal c r0.1 s.nextId a v ext
  refine ⟨?_, h1.2.trans h0.2⟩
  have := h0.1.trans h1.1
  simpa using this


/-! ### every operation, every history -/

theorem nu_queueFirst (c id r : Nat) (l : List Conn) : nu c (queueFirst id r l) = nu c l := by
  induction l with
  | nil => rfl
  | cons x l ih =>
    unfold queueFirst
    split
    · simp only [nu_cons, setQueued]
    · simp [ih]

theorem mapAll_bal (c : Nat) (s : St) (id : Nat) (f : Conn → Conn) (hf : ∀ x, (f x).id = x.id) :
    NN c (mapAll s (updConn id f)) [] = NN c s [] ∧ LL c (mapAll s (updConn id f)) [] = LL c s [] := by
  simp [mapAll, NN, LL, nu_updConn c id f hf]

/-- the life-cycle bookkeeping over a whole trace: every connection index below `nextId` is either
    still in a list or its socket has been closed exactly once; started = still served + closed -/
def TInv (s : St) (tr : List Ev) : Prop := ∀ c,
  fdc c tr + NN c s [] + LL c s [] = (if c < s.nextId then 1 else 0) ∧
  stc c tr = LL c s [] + clc c tr ∧ clc c tr ≤ fdc c tr

theorem TInv.of_bal0 {s s' : St} {tr e : List Ev} (h : TInv s tr) (hn : s'.nextId = s.nextId)
    (hb : ∀ c, Bal c 0 (NN c s []) (LL c s []) (NN c s' []) (LL c s' []) e) : TInv s' (tr ++ e) := by
  intro c
  obtain ⟨a1, a2, a3⟩ := h c
  obtain ⟨b1, b2, b3⟩ := hb c
  rw [hn]
  refine ⟨?_, ?_, ?_⟩ <;> simp <;> omega

theorem TInv.same {s s' : St} {tr : List Ev} (h : TInv s tr) (hn : s'.nextId = s.nextId)
    (h1 : ∀ c, NN c s' [] = NN c s []) (h2 : ∀ c, LL c s' [] = LL c s []) : TInv s' (tr ++ []) := by
  intro c
  have := h c
  rw [hn, h1, h2]; simpa using this

theorem step_tinv (s : St) (o : Op) (tr : List Ev) (h : TInv s tr) : TInv (step s o).1 (tr ++ (step s o).2) := by
  unfold step
  split
  · exact h.same rfl (fun _ => rfl) (fun _ => rfl)
  · cases o with
    | arrive a v ext =>
      intro c
      obtain ⟨a1, a2, a3⟩ := h c
      obtain ⟨⟨b1, b2, b3⟩, b4⟩ := arrive_bal c s a v ext
      simp only
      rw [b4]
      refine ⟨?_, ?_, ?_⟩
      · simp only [fdc_append]
        by_cases hc : s.nextId = c
        · subst hc; simp at a1 b1 ⊢; omega
        · simp only [hc, if_false] at b1
          by_cases hlt : c < s.nextId
          · have : c < s.nextId + 1 := by omega
            simp only [hlt, this, if_true] at a1 ⊢; omega
          · have : ¬ c < s.nextId + 1 := by omega
            simp only [hlt, this, if_false] at a1 ⊢; omega
      · simp only [stc_append, clc_append]; omega
      · simp only [fdc_append, clc_append]; omega
    | armFail site => exact h.same rfl (fun _ => rfl) (fun _ => rfl)
    | disarm => exact h.same rfl (fun _ => rfl) (fun _ => rfl)
    | req c b => exact h.same rfl (fun x => (mapAll_bal x s c (setReq b) (fun _ => rfl)).1) (fun x => (mapAll_bal x s c (setReq b) (fun _ => rfl)).2)
    | clientClose c => exact h.same rfl (fun x => (mapAll_bal x s c (setClientClosed) (fun _ => rfl)).1) (fun x => (mapAll_bal x s c (setClientClosed) (fun _ => rfl)).2)
    | hold c => exact h.same rfl (fun x => (mapAll_bal x s c (setNodrain true) (fun _ => rfl)).1) (fun x => (mapAll_bal x s c (setNodrain true) (fun _ => rfl)).2)
    | drain c => exact h.same rfl (fun x => (mapAll_bal x s c (setNodrain false) (fun _ => rfl)).1) (fun x => (mapAll_bal x s c (setNodrain false) (fun _ => rfl)).2)
    | resume c =>
      refine h.same rfl (fun _ => rfl) (fun x => ?_)
      simp [LL, nu_updConn x c setResuming (fun _ => rfl)]
    | upClose c =>
      refine h.same rfl (fun _ => rfl) (fun x => ?_)
      simp [LL, nu_updConn x c markAppClosed (fun _ => rfl)]
    | round => exact h.of_bal0 (round_bal 0 s).2 (fun c => (round_bal c s).1)
    | query =>
      simp only
      split
      · exact h.same rfl (fun _ => rfl) (fun _ => rfl)
      · exact h.of_bal0 (cleanupAll_bal 0 s []).2 (fun c => (cleanupAll_bal c s []).1)
    | stop => exact h.of_bal0 (stop_bal 0 s).2 (fun c => (stop_bal c s).1)
    | respCreate r big hasCb upg => exact h.same rfl (fun _ => rfl) (fun _ => rfl)
    | respDrop r =>
      simp only
      split
      · exact h.same rfl (fun _ => rfl) (fun _ => rfl)
      · refine h.of_bal0 rfl (fun c => Bal.quiet (release_quiet _ _))
    | extQueue c r =>
      simp only
      unfold extQueue
      split
      · exact h.of_bal0 rfl (fun x => Bal.quiet (fun y => by simp))
      · split
        · exact h.of_bal0 rfl (fun x => Bal.quiet (fun y => by simp))
        · rename_i R1 _
          refine TInv.of_bal0 (s' := { s with resps := R1.tab, susp := queueFirst c r s.susp }) h rfl (fun x => ?_)
          have e1 : LL x { s with resps := R1.tab, susp := queueFirst c r s.susp } [] = LL x s [] := by
            simp [LL, nu_queueFirst]
          rw [e1]
          exact Bal.quiet (fun y => by simp)
    | acceptFail => exact h.same rfl (fun _ => rfl) (fun _ => rfl)

theorem init_tinv (cfg : Cfg) : TInv (St.init cfg) [] := by
  intro c; simp [St.init, NN, LL]

theorem run_tinv (ops : List Op) : ∀ (s : St) (tr : List Ev), TInv s tr → TInv (run s ops).1 (tr ++ (run s ops).2) := by
  induction ops with
  | nil => intro s tr h; simpa [run] using h
  | cons o os ih =>
    intro s tr h
    unfold run
    have h1 := step_tinv s o tr h
    have h2 := ih (step s o).1 (tr ++ (step s o).2) h1
    simpa [List.append_assoc] using h2



/-! ### after a stop that did not panic every list is empty -/

theorem cleanupAll_lists (s : St) :
    (cleanupAll s).1.newL = s.newL ∧ (cleanupAll s).1.active = s.active ∧ (cleanupAll s).1.susp = s.susp ∧
    (cleanupAll s).1.cleanup = [] := by
  unfold cleanupAll
  have := cleanupList_lists s.cleanup.reverse { s with cleanup := [] }
  exact ⟨this.1, this.2.1, this.2.2.1, this.2.2.2.1⟩

theorem closeNewList_lists (l : List Conn) : ∀ (s : St),
    (closeNewList s l).1.newL = s.newL ∧ (closeNewList s l).1.active = s.active ∧ (closeNewList s l).1.susp = s.susp ∧
    (closeNewList s l).1.cleanup = s.cleanup ∧ (closeNewList s l).1.cfg = s.cfg := by
  induction l with
  | nil => intro s; simp [closeNewList]
  | cons x rest ih =>
    intro s
    unfold closeNewList
    have := ih (ipDel s x.addr)
    simpa using this

theorem resumePass_fields (s : St) : (resumePass s).1.newL = s.newL ∧ (resumePass s).1.cfg = s.cfg ∧
    (resumePass s).1.susp = (if s.resuming then s.susp.filter (fun c => !canResume c) else s.susp) := by
  unfold resumePass
  cases h : s.resuming <;> simp

theorem forceResume_fields (flag : Bool) (s : St) : (forceResume flag s).1.newL = s.newL ∧ (forceResume flag s).1.cfg = s.cfg ∧
    (forceResume flag s).1.susp = (if flag then s.susp.filter (fun c => !canResume c) else s.susp) := by
  unfold forceResume
  cases flag with
  | false => simp
  | true =>
    have := resumePass_fields { s with resuming := true }
    simpa using this

theorem stopTail_empties (s : St) (hnew : s.newL = []) (hp : stopPanics s = false) :
    (stopTail s).1.newL = [] ∧ (stopTail s).1.active = [] ∧ (stopTail s).1.susp = [] ∧ (stopTail s).1.cleanup = [] := by
  unfold stopTail
  simp only
  have hc := cleanupAll_lists (closeActive (forceResume s.cfg.allowUpgrade (markUpgraded s)).1).1
  obtain ⟨c1, c2, c3, c4⟩ := hc
  rw [c1, c2, c3, c4]
  have hf := forceResume_fields s.cfg.allowUpgrade (markUpgraded s)
  obtain ⟨f1, f2, f3⟩ := hf
  have ha : (closeActive (forceResume s.cfg.allowUpgrade (markUpgraded s)).1).1.newL = (forceResume s.cfg.allowUpgrade (markUpgraded s)).1.newL ∧
      (closeActive (forceResume s.cfg.allowUpgrade (markUpgraded s)).1).1.active = [] ∧
      (closeActive (forceResume s.cfg.allowUpgrade (markUpgraded s)).1).1.susp = (forceResume s.cfg.allowUpgrade (markUpgraded s)).1.susp := by
    unfold closeActive; simp
  rw [ha.1, ha.2.1, ha.2.2, f1, f3]
  refine ⟨?_, rfl, ?_, rfl⟩
  · unfold markUpgraded; split <;> exact hnew
  · unfold stopPanics at hp
    unfold markUpgraded
    cases hu : s.cfg.allowUpgrade with
    | false =>
      simp [hu] at hp ⊢
      exact hp
    | true =>
      simp only [hu, if_true] at hp ⊢
      rw [List.filter_eq_nil_iff]
      intro c hc
      simp only [List.mem_map] at hc
      obtain ⟨x, hx, rfl⟩ := hc
      have hux : x.urh = true := by
        have := List.any_eq_false.mp hp x hx
        simpa using this
      simp [canResume, markAppClosed, hux]

theorem stop_empties (s : St) (hp : (stop s).1.fault ≠ some .stopSuspended) :
    (stop s).1.newL = [] ∧ (stop s).1.active = [] ∧ (stop s).1.susp = [] ∧ (stop s).1.cleanup = [] := by
  unfold stop at hp ⊢
  simp only at hp ⊢
  have h1 := closeNewList_lists s.newL.reverse { s with shutdown := true, newL := [] }
  generalize closeNewList { s with shutdown := true, newL := [] } s.newL.reverse = r1 at h1 hp ⊢
  have h2 := forceResume_fields r1.1.cfg.allowSuspend r1.1
  generalize forceResume r1.1.cfg.allowSuspend r1.1 = r2 at h2 hp ⊢
  cases hpan : stopPanics r2.1 with
  | true => simp [hpan] at hp
  | false =>
    exact stopTail_empties r2.1 (by rw [h2.1, h1.1]) hpan


theorem step_stop_eq (s : St) (h1 : s.shutdown = false) (h2 : s.fault = none) : step s .stop = stop s := by
  unfold step
  simp [h1, h2, Op.legal]



theorem handleConn_closed (cfg : Cfg) (R : RespTab) (c : Conn) (h1 : c.req = none) (h2 : c.clientClosed = true) :
    (handleConn cfg R c).2.2.1 = .clean := by
  unfold handleConn handleReq
  simp [h1, afterReq, h2]

theorem handleList_allclosed (cfg : Cfg) (l : List Conn) : ∀ (acc : HAcc),
    (∀ c ∈ l, c.req = none ∧ c.clientClosed = true) →
    (handleList cfg acc l).kept = acc.kept ∧ (handleList cfg acc l).susp = acc.susp := by
  induction l with
  | nil => intro acc _; exact ⟨rfl, rfl⟩
  | cons x rest ih =>
    intro acc h
    unfold handleList
    have hx := h x (List.mem_cons_self ..)
    have hk := handleConn_closed cfg acc.R x hx.1 hx.2
    generalize handleConn cfg acc.R x = q at hk ⊢
    obtain ⟨R1, c1, d, e⟩ := q
    simp only at hk
    subst hk
    simp only
    exact ih _ (fun c hc => h c (List.mem_cons_of_mem _ hc))

/-- after every client has closed (no connection waiting, suspended or with an unanswered
    request), one event-loop round disposes of every connection -/
theorem round_closes_all (s : St) (h1 : s.newL = []) (h2 : s.susp = [])
    (h3 : ∀ c ∈ s.active, c.req = none ∧ c.clientClosed = true) :
    (round s).1.newL = [] ∧ (round s).1.active = [] ∧ (round s).1.susp = [] ∧ (round s).1.cleanup = [] := by
  unfold round
  have hr : (if s.cfg.allowSuspend then resumePass s else (s, [])).1.newL = [] ∧
      (if s.cfg.allowSuspend then resumePass s else (s, [])).1.susp = [] ∧
      (if s.cfg.allowSuspend then resumePass s else (s, [])).1.active = s.active := by
    split
    · unfold resumePass
      split
      · exact ⟨h1, h2, rfl⟩
      · simp [h1, h2]
    · exact ⟨h1, h2, rfl⟩
  generalize (if s.cfg.allowSuspend then resumePass s else (s, [])) = r1 at hr ⊢
  obtain ⟨a1, a2, a3⟩ := hr
  have hp : processNew r1.1 = (r1.1, []) := by
    unfold processNew; rw [a1]; simp only [List.reverse_nil, processList]
    have : ({ r1.1 with newL := [] } : St) = r1.1 := by
      cases hh : r1.1 with
      | mk _ _ _ nl _ _ _ _ _ _ _ _ _ => rw [hh] at a1; simp at a1; subst a1; rfl
    rw [this]
  simp only
  rw [hp]
  simp only
  have hc := cleanupAll_lists (handlePass r1.1).1
  obtain ⟨c1, c2, c3, c4⟩ := hc
  rw [c1, c2, c3, c4]
  unfold handlePass
  have hl := handleList_allclosed r1.1.cfg r1.1.active.reverse
    { R := { tab := r1.1.resps, fault := none }, kept := [], clean := [], susp := [], evs := [] }
    (fun c hc => h3 c (by rw [← a3]; exact List.mem_reverse.mp hc))
  generalize handleList r1.1.cfg _ r1.1.active.reverse = acc at hl ⊢
  simp only
  exact ⟨a1, hl.1, by rw [hl.2, a2]; rfl, trivial⟩

end Mhd.Limits
