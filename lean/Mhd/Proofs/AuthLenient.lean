/-
  C14, soundness half: the language `parse_dauth_params` accepts, as a grammar (`Lenient`), and the proof that
  whatever the scanner accepts is a sentence of that grammar with the values it reports.

  `Lenient` is the RFC 7235 / 7616 credentials grammar relaxed by exactly these leniencies:
    (1) an unquoted value may be empty and may contain any byte but NUL SP HT , ; DQUOTE (so also '=');
    (2) a quoted-string may contain any byte but NUL (control bytes too); a backslash quotes any byte but NUL;
    (3) an element whose name is not one of the twelve known names (compared caselessly, the name ending at
        '=' SP HT , ; or the end) is any text free of NUL, ';' and top-level ',' in which DQUOTE-delimited
        parts (with backslash pairs) may stand anywhere — no "=" needed, also empty (F36);
    (4) parameter names are not restricted to `tchar` (a known name is matched as a prefix followed by a
        delimiter; everything else falls under (3)).
-/
import Mhd.Proofs.AuthCorrupt
import Mhd.Proofs.AuthHdr
import Mhd.Proofs.AuthSafe
import Mhd.Proofs.AuthExt
import Mhd.Proofs.AuthRef
namespace Mhd.Auth.Lenient
open Mhd.Auth Mhd.Gen.Auth

/-- value of a known parameter as written -/
inductive LVal
  | tok (v : Bytes)
  | quoted (raw : Bytes)
  deriving DecidableEq, Repr

def LVal.render : LVal → Bytes
  | .tok v => v
  | .quoted raw => 34 :: (raw ++ [34])

def LVal.wf : LVal → Bool
  | .tok v => v.all tokByte                 -- leniency (1)
  | .quoted raw => QBody raw                -- leniency (2)

/-- the slice and the `quoted` flag the scanner records -/
def LVal.rawq : LVal → Bytes × Bool
  | .tok v => (v, false)
  | .quoted raw => (raw, raw.any (· = 92))

/-- unknown element, leniency (3): `inQ` = inside a DQUOTE part -/
def junk : Bool → Bytes → Bool
  | false, [] => true
  | false, c :: r => c ≠ 44 && c ≠ 0 && c ≠ 59 && (if c = 34 then junk true r else junk false r)
  | true, [] => false
  | true, c :: r =>
    if c = 34 then junk false r
    else c ≠ 0 &&
      (if c = 92 then
        match r with
        | [] => false
        | _ :: r2 => junk true r2
       else junk true r)

inductive LElem
  | known (k : Nat) (name ws1 ws2 : Bytes) (val : LVal) (ws3 : Bytes)
  | other (u : Bytes)
  deriving DecidableEq, Repr

def LElem.render : LElem → Bytes
  | .known _ name ws1 ws2 val ws3 => name ++ (ws1 ++ 61 :: (ws2 ++ (val.render ++ ws3)))
  | .other u => u

def LElem.wf : LElem → Bool
  | .known k name ws1 ws2 val ws3 =>
    decide (k < paramNames.length) && name.map toLowerB == nameOf k && allWs ws1 && allWs ws2 && allWs ws3 && val.wf
  | .other u => junk false u && (u.head? != some 61)

/-- list elements with the OWS that follows their comma -/
def renderL : List (LElem × Bytes) → Bytes
  | [] => []
  | [x] => x.1.render
  | x :: y :: t => x.1.render ++ 44 :: (x.2 ++ renderL (y :: t))

/-- (slice, flag) recorded for parameter `k`: last occurrence wins -/
def lview (ls : List (LElem × Bytes)) (init : Option (Bytes × Bool)) (k : Nat) : Option (Bytes × Bool) :=
  ls.foldl (fun acc x => match x.1 with
    | .known k' _ _ _ val _ => if k' = k then some val.rawq else acc
    | .other _ => acc) init

/-- `s` is a sentence of the lenient grammar with derivation `(lead, ls)` -/
def Derives (lead : Bytes) (ls : List (LElem × Bytes)) (s : Bytes) : Prop :=
  s = lead ++ renderL ls ∧ allWs lead = true ∧ (∀ x ∈ ls, x.1.wf = true ∧ allWs x.2 = true)

/-! ### what the sub-scanners accept -/

theorem scanQ_sound (t : UInt8) : ∀ (n : Nat) (s : Bytes) (x : Bytes × Bool × Bytes), s.length ≤ n →
    scanQ (some t) s = .ok x → s = x.1 ++ 34 :: x.2.2 ∧ QBody x.1 = true ∧ x.2.1 = x.1.any (· = 92) := by
  intro n
  induction n with
  | zero =>
    intro s x hl h
    have : s = [] := List.length_eq_zero_iff.mp (by omega)
    subst this; rw [scanQ_nil] at h; simp at h
  | succ n ih =>
    intro s x hl h
    cases s with
    | nil => rw [scanQ_nil] at h; simp at h
    | cons c r =>
      by_cases h34 : c = 34
      · subst h34; rw [scanQ_quote] at h
        simp only [Res.ok.injEq] at h; subst h
        simp [QBody_nil]
      by_cases h92 : c = 92
      · subst h92
        cases r with
        | nil => rw [scanQ_bs_end_some] at h; simp at h
        | cons c2 r2 =>
          by_cases h0 : c2 = 0
          · subst h0; rw [scanQ_esc0] at h; simp at h
          · rw [scanQ_esc _ _ _ h0, Res.map_eq_ok] at h
            obtain ⟨y, hy, hx⟩ := h
            obtain ⟨e1, e2, e3⟩ := ih r2 y (by simp at hl; omega) hy
            subst hx
            refine ⟨by simp; exact e1, by simp [QBody_esc, h0, e2], by simp⟩
      · by_cases h0 : c = 0
        · subst h0; rw [scanQ_zero] at h; simp at h
        · rw [scanQ_plain _ _ _ h34 h92 h0, Res.map_eq_ok] at h
          obtain ⟨y, hy, hx⟩ := h
          obtain ⟨e1, e2, e3⟩ := ih r y (by simp at hl; omega) hy
          subst hx
          refine ⟨by simp; exact e1, by simp [QBody_plain _ _ h34 h92, h0, e2], by simp [h92, e3]⟩

theorem scanTok_sound (t : UInt8) (s : Bytes) (x : Bytes × Bytes) (h : scanTok (some t) s = .ok x) :
    s = x.1 ++ x.2 ∧ x.1.all tokByte = true := by
  induction s generalizing x with
  | nil =>
    rw [scanTok_nil_some] at h
    split at h
    · simp at h
    · simp only [Res.ok.injEq] at h; subst h; simp
  | cons c r ih =>
    rw [scanTok_cons] at h
    split at h
    · simp only [Res.ok.injEq] at h; subst h; simp
    · rename_i hd
      split at h
      · simp at h
      · rename_i h59
        split at h
        · simp at h
        · rename_i h0
          split at h
          · simp at h
          · rename_i h34
            rw [Res.map_eq_ok] at h
            obtain ⟨y, hy, hx⟩ := h
            obtain ⟨e1, e2⟩ := ih y hy
            subst hx
            refine ⟨by simp; exact e1, ?_⟩
            simp only [not_or] at hd
            simp [tokByte, h34, h0, h59, hd.1, hd.2.1, hd.2.2, e2]

theorem valueAt_sound (t : UInt8) (r3 : Bytes) (x : Nat × Bytes × Bool × Bytes) (h : valueAt (some t) r3 = .ok x) :
    ∃ val : LVal, r3 = val.render ++ x.2.2.2 ∧ val.wf = true ∧ val.rawq = (x.2.1, x.2.2.1) := by
  unfold valueAt at h
  have htok : ∀ y, (scanTok (some t) r3).map (fun x => (r3.length, x.1, false, x.2)) = .ok y →
      ∃ val : LVal, r3 = val.render ++ y.2.2.2 ∧ val.wf = true ∧ val.rawq = (y.2.1, y.2.2.1) := by
    intro y hy
    rw [Res.map_eq_ok] at hy
    obtain ⟨a, ha, hx⟩ := hy
    obtain ⟨e1, e2⟩ := scanTok_sound t r3 a ha
    subst hx
    exact ⟨.tok a.1, by simpa [LVal.render] using e1, by simpa [LVal.wf] using e2, rfl⟩
  cases r3 with
  | nil => exact htok x h
  | cons c r4 =>
    simp only at h
    split at h
    · rename_i hc
      rw [Res.map_eq_ok] at h
      obtain ⟨a, ha, hx⟩ := h
      obtain ⟨e1, e2, e3⟩ := scanQ_sound t _ r4 a (Nat.le_refl _) ha
      subst hx
      refine ⟨.quoted a.1, ?_, by simpa [LVal.wf] using e2, by simp [LVal.rawq, e3]⟩
      simp [LVal.render, hc, e1]
    · exact htok x h

theorem knownValue_sound (t : UInt8) (s : Bytes) (x : Nat × Bytes × Bool × Bytes) (h : knownValue (some t) s = .ok x) :
    ∃ (ws1 ws2 ws3 : Bytes) (val : LVal), s = ws1 ++ 61 :: (ws2 ++ (val.render ++ ws3)) ++ x.2.2.2 ∧
      allWs ws1 = true ∧ allWs ws2 = true ∧ allWs ws3 = true ∧ val.wf = true ∧ val.rawq = (x.2.1, x.2.2.1) ∧
      (x.2.2.2 = [] ∨ ∃ m, x.2.2.2 = 44 :: m) := by
  unfold knownValue at h
  obtain ⟨w1, hs1, hw1, _⟩ := skipWs_split s
  split at h
  · simp at h
  · rename_i c r2 heq
    split at h
    · simp at h
    · rename_i hc
      have hc61 : c = 61 := by simpa using hc
      subst hc61
      rw [Res.bind_eq_ok] at h
      obtain ⟨a, ha, h⟩ := h
      obtain ⟨w2, hs2, hw2, _⟩ := skipWs_split r2
      obtain ⟨val, hv1, hv2, hv3⟩ := valueAt_sound t _ a ha
      obtain ⟨w3, hs3, hw3, _⟩ := skipWs_split a.2.2.2
      split at h
      · rename_i r6 h6
        simp only [Res.ok.injEq] at h
        subst h
        unfold afterValue at h6
        have htail : skipWs a.2.2.2 = r6 ∧ (r6 = [] ∨ ∃ m, r6 = 44 :: m) := by
          split at h6
          · rename_i hnil; simp at h6; subst h6; exact ⟨hnil, Or.inl rfl⟩
          · rename_i c' r' hcons
            split at h6
            · simp at h6
            · rename_i hc'
              have : c' = 44 := by simpa using hc'
              subst this
              simp at h6; subst h6; exact ⟨hcons, Or.inr ⟨r', rfl⟩⟩
        refine ⟨w1, w2, w3, val, ?_, hw1, hw2, hw3, hv2, hv3, htail.2⟩
        rw [hs1, heq, hs2, hv1, hs3, htail.1]
        simp [List.append_assoc]
      · simp at h

theorem skipU_true_nil : skipU true [] = .reject := by rw [skipU.eq_def]
theorem skipU_true_zero (r : Bytes) : skipU true (0 :: r) = .reject := by rw [skipU.eq_def]; simp
theorem skipU_true_bs_end : skipU true [92] = .reject := by rw [skipU.eq_def]; simp

theorem skipU_sound : ∀ (n : Nat) (b : Bool) (inp rest : Bytes), inp.length ≤ n → skipU b inp = .ok rest →
    ∃ u, inp = u ++ rest ∧ junk b u = true ∧ (rest = [] ∨ ∃ m, rest = 44 :: m) := by
  intro n
  induction n with
  | zero =>
    intro b inp rest hl h
    have : inp = [] := List.length_eq_zero_iff.mp (by omega)
    subst this
    cases b with
    | false => rw [skipU_false_nil] at h; simp at h; subst h; exact ⟨[], rfl, by simp [junk], Or.inl rfl⟩
    | true => rw [skipU_true_nil] at h; simp at h
  | succ n ih =>
    intro b inp rest hl h
    cases inp with
    | nil =>
      cases b with
      | false => rw [skipU_false_nil] at h; simp at h; subst h; exact ⟨[], rfl, by simp [junk], Or.inl rfl⟩
      | true => rw [skipU_true_nil] at h; simp at h
    | cons c r =>
      have hl' : r.length ≤ n := by simp at hl; omega
      cases b with
      | false =>
        rw [skipU_false_cons] at h
        by_cases h44 : c = 44
        · subst h44
          simp only [if_true, Res.ok.injEq] at h; subst h
          exact ⟨[], rfl, by simp [junk], Or.inr ⟨r, rfl⟩⟩
        simp only [h44, if_false] at h
        by_cases hbad : c = 0 ∨ c = 59
        · simp [hbad] at h
        simp only [hbad, if_false] at h
        simp only [not_or] at hbad
        by_cases hq : c = 34
        · simp only [hq, if_true] at h
          obtain ⟨u, e1, e2, e3⟩ := ih true r rest hl' h
          exact ⟨c :: u, by simp [e1], by simp [junk, h44, hbad.1, hbad.2, hq, e2], e3⟩
        · simp only [hq, if_false] at h
          obtain ⟨u, e1, e2, e3⟩ := ih false r rest hl' h
          exact ⟨c :: u, by simp [e1], by simp [junk, h44, hbad.1, hbad.2, hq, e2], e3⟩
      | true =>
        by_cases hq : c = 34
        · subst hq
          rw [skipU_true_quote] at h
          obtain ⟨u, e1, e2, e3⟩ := ih false r rest hl' h
          exact ⟨34 :: u, by rw [e1]; rfl, by rw [junk.eq_def]; simp [e2], e3⟩
        by_cases h0 : c = 0
        · subst h0; rw [skipU_true_zero] at h; simp at h
        by_cases hbs : c = 92
        · subst hbs
          cases r with
          | nil => rw [skipU_true_bs_end] at h; simp at h
          | cons c2 r2 =>
            rw [skipU_true_esc] at h
            obtain ⟨u, e1, e2, e3⟩ := ih true r2 rest (by simp at hl'; omega) h
            exact ⟨92 :: c2 :: u, by simp [e1], by simp [junk, e2], e3⟩
        · rw [skipU_true_plain _ _ hq h0 hbs] at h
          obtain ⟨u, e1, e2, e3⟩ := ih true r rest hl' h
          exact ⟨c :: u, by rw [e1]; rfl, by rw [junk.eq_def]; simp [hq, h0, hbs, e2], e3⟩

theorem findName_sound : ∀ (names : List Bytes) (k : Nat) (inp : Bytes) (p len : Nat),
    findName names k inp = some (p, len) →
    k ≤ p ∧ ∃ nm, names[p - k]? = some nm ∧ len = nm.length ∧ nameMatches nm inp = true := by
  intro names
  induction names with
  | nil => intro k inp p len h; simp [findName] at h
  | cons nm t ih =>
    intro k inp p len h
    simp only [findName] at h
    by_cases hm : nameMatches nm inp = true
    · simp only [hm, if_true, Option.some.injEq, Prod.mk.injEq] at h
      obtain ⟨h1, h2⟩ := h
      subst h1; subst h2
      exact ⟨Nat.le_refl _, nm, by simp, rfl, hm⟩
    · simp only [hm, Bool.false_eq_true, if_false] at h
      obtain ⟨h1, nm', h2, h3, h4⟩ := ih (k + 1) inp p len h
      refine ⟨by omega, nm', ?_, h3, h4⟩
      have : p - k = (p - (k + 1)) + 1 := by omega
      rw [this]; simpa using h2

theorem findName_known (inp : Bytes) (p len : Nat) (h : findName paramNames 0 inp = some (p, len)) :
    p < paramNames.length ∧ len ≤ inp.length ∧ (inp.take len).map toLowerB = nameOf p := by
  obtain ⟨_, nm, h2, h3, h4⟩ := findName_sound paramNames 0 inp p len h
  simp only [Nat.sub_zero] at h2
  have hlt : p < paramNames.length := by
    rcases Nat.lt_or_ge p paramNames.length with hge | hge
    · exact hge
    · rw [List.getElem?_eq_none hge] at h2; simp at h2
  have hname : nameOf p = nm := by simp [nameOf, List.getD, h2]
  have hmem : nm ∈ paramNames := List.mem_of_getElem? h2
  simp only [nameMatches, Bool.and_eq_true] at h4
  obtain ⟨hl, hpre⟩ := (prefixCl_iff inp nm).mp h4.1
  subst h3
  exact ⟨hlt, hl, by rw [hpre, Ref.paramNames_lower_all nm hmem, hname]⟩

def stepL (e : LElem) (acc : Option (Bytes × Bool)) (k : Nat) : Option (Bytes × Bool) :=
  match e with
  | .known k' _ _ _ val _ => if k' = k then some val.rawq else acc
  | .other _ => acc

theorem lview_cons (x : LElem × Bytes) (ls : List (LElem × Bytes)) (init : Option (Bytes × Bool)) (k : Nat) :
    lview (x :: ls) init k = lview ls (stepL x.1 init k) k := by
  simp only [lview, List.foldl_cons, stepL]
  first | done | (cases x.1 <;> rfl)

theorem renderL_cons_ne (x : LElem × Bytes) (l : List (LElem × Bytes)) (h : l ≠ []) :
    renderL (x :: l) = x.1.render ++ 44 :: (x.2 ++ renderL l) := by
  cases l with
  | nil => exact absurd rfl h
  | cons a b => rfl

/-- whatever the main loop accepts from `inp` on is a list of lenient elements, and the slots are those of the list -/
theorem paramLoop_sound (t : UInt8) (n : Nat) : ∀ (fuel : Nat) (st : Slots) (inp : Bytes) (st' : Slots),
    paramLoop (some t) n fuel st inp = .ok st' →
    ∃ ls : List (LElem × Bytes), ls ≠ [] ∧ renderL ls = inp ∧ (∀ x ∈ ls, x.1.wf = true ∧ allWs x.2 = true) ∧
      ∀ k, (st' k).map pr = lview ls ((st k).map pr) k := by
  intro fuel
  induction fuel with
  | zero => intro st inp st' h; simp [paramLoop] at h
  | succ fuel ih =>
    intro st inp st' h
    cases inp with
    | nil =>
      simp only [paramLoop, Res.ok.injEq] at h
      subst h
      exact ⟨[(.other [], [])], by simp, rfl, by simp [LElem.wf, junk, allWs], fun k => rfl⟩
    | cons c r =>
      -- continuation after one element
      have cont : ∀ (e : LElem) (st2 : Slots) (rest : Bytes), e.wf = true → c :: r = e.render ++ rest →
          (rest = [] ∨ ∃ m, rest = 44 :: m) → paramLoop (some t) n fuel st2 (nextParam rest) = .ok st' →
          (∀ k, (st2 k).map pr = stepL e ((st k).map pr) k) →
          ∃ ls : List (LElem × Bytes), ls ≠ [] ∧ renderL ls = c :: r ∧ (∀ x ∈ ls, x.1.wf = true ∧ allWs x.2 = true) ∧
            ∀ k, (st' k).map pr = lview ls ((st k).map pr) k := by
        intro e st2 rest hwf hsh hrest hrun hst
        rcases hrest with hr | ⟨m, hr⟩
        · subst hr
          have hst' : st' = st2 := by
            cases fuel with
            | zero => simp [nextParam, paramLoop] at hrun
            | succ f => simp only [nextParam, paramLoop, Res.ok.injEq] at hrun; exact hrun.symm
          subst hst'
          refine ⟨[(e, [])], by simp, by simp [renderL, hsh], by simp [hwf, allWs], fun k => ?_⟩
          rw [lview_cons]; simp only [lview, List.foldl_nil]; exact hst k
        · subst hr
          obtain ⟨w, hw1, hw2, _⟩ := skipWs_split m
          simp only [nextParam] at hrun
          obtain ⟨ls', hne, hrend, hwfs, hview⟩ := ih st2 (skipWs m) st' hrun
          refine ⟨(e, w) :: ls', by simp, ?_, ?_, fun k => ?_⟩
          · rw [renderL_cons_ne _ _ hne, hrend, hsh]; simp only; rw [← hw1]
          · intro x hx
            rcases List.mem_cons.mp hx with hx | hx
            · subst hx; exact ⟨hwf, hw2⟩
            · exact hwfs x hx
          · rw [lview_cons, hview k, hst k]
      simp only [paramLoop] at h
      by_cases hc : c = 61
      · simp [hc] at h
      simp only [hc, if_false] at h
      cases hf : findName paramNames 0 (c :: r) with
      | some pl =>
        obtain ⟨p, nmLen⟩ := pl
        simp only [hf] at h
        rw [Res.bind_eq_ok] at h
        obtain ⟨x, hx, hrun⟩ := h
        obtain ⟨hp, hlen, hname⟩ := findName_known _ p nmLen hf
        obtain ⟨ws1, ws2, ws3, val, hs, hw1, hw2, hw3, hv, hrq, hrest⟩ := knownValue_sound t _ x hx
        refine cont (.known p ((c :: r).take nmLen) ws1 ws2 val ws3) _ x.2.2.2 ?_ ?_ hrest hrun ?_
        · simp [LElem.wf, hp, hname, hw1, hw2, hw3, hv]
        · have hsplit := (List.take_append_drop nmLen (c :: r)).symm
          rw [hs] at hsplit
          exact hsplit.trans (by simp [LElem.render, List.append_assoc])
        · intro k
          simp only [stepL, Slots.set]
          by_cases hk : k = p
          · subst hk; simp [pr, hrq]
          · have : ¬ p = k := fun h => hk h.symm
            simp [hk, this]
      | none =>
        simp only [hf] at h
        rw [Res.bind_eq_ok] at h
        obtain ⟨r6, h6, hrun⟩ := h
        obtain ⟨u, hu1, hu2, hu3⟩ := skipU_sound _ false (c :: r) r6 (Nat.le_refl _) h6
        refine cont (.other u) st r6 ?_ hu1 hu3 hrun (fun k => rfl)
        simp only [LElem.wf, hu2, Bool.true_and, bne_iff_ne, ne_eq]
        cases u with
        | nil => simp
        | cons c' u' =>
          simp only [List.cons_append, List.cons.injEq] at hu1
          simp [← hu1.1, hc]

/-- `parse_dauth_params` accepts only sentences of the lenient grammar, with the values of their derivation -/
theorem parseDigest_sound (s : Bytes) (t : UInt8) (d : DAuth) (h : parseDigest s (some t) = .ok d) :
    ∃ lead ls, Derives lead ls s ∧ ∀ k, (d.slots k).map pr = lview ls none k := by
  unfold parseDigest at h
  rw [Res.map_eq_ok] at h
  obtain ⟨st, hst, hd⟩ := h
  obtain ⟨w, hw1, hw2, _⟩ := skipWs_split s
  obtain ⟨ls, _, hrend, hwf, hview⟩ := paramLoop_sound t _ _ _ _ _ hst
  refine ⟨w, ls, ⟨by rw [hrend]; exact hw1, hw2, hwf⟩, fun k => ?_⟩
  subst hd
  simpa [Slots.empty] using hview k

end Mhd.Auth.Lenient
