/-
  C14 helper lemmas, part 12: the public API functions on a real header value.
-/
import Mhd.Proofs.AuthBasic
import Mhd.Proofs.AuthHdr
import Mhd.Proofs.AuthInfo
namespace Mhd.Auth
open Mhd.Gen.Auth

theorem b64Char_tok68 (v : Nat) : tok68Byte (b64Char v) = true := by
  by_cases h : v < 64
  · have : ∀ w : Fin 64, tok68Byte (b64Char w.val) = true := by decide
    exact this ⟨v, h⟩
  · have : b64Char v = 61 := by
      unfold b64Char
      have hl : b64Alphabet.length = 64 := by decide
      simp [List.getD, List.getElem?_eq_none (by omega : b64Alphabet.length ≤ v)]
    rw [this]; decide

theorem b64Enc_tok68 : ∀ (n : Nat) (bs : Bytes), bs.length ≤ n → (b64Enc bs).all tok68Byte = true := by
  intro n
  induction n with
  | zero => intro bs h; cases bs <;> simp_all [b64Enc]
  | succ n ih =>
    intro bs h
    match bs, h with
    | [], _ => simp [b64Enc]
    | [a], _ => simp [b64Enc, b64Char_tok68]; decide
    | [a, b], _ => simp [b64Enc, b64Char_tok68]; decide
    | a :: b :: c :: r, h =>
      have := ih r (by simp at h ⊢; omega)
      simp [b64Enc, b64Char_tok68, this]

/-- a connection carrying `Authorization: <scheme> <value>`: scheme token in any letter case followed by
    SP or HT; `find_auth_rq_header_` hands the bytes after that separator to the parser -/
theorem findAuthHeader_single (tok sch : Bytes) (sp : UInt8) (rest : Bytes)
    (hs : sch.map toLowerB = tok.map toLowerB) (hsp : sp = 32 ∨ sp = 9) :
    findAuthHeader true tok [⟨headerKind, authHeader, sch ++ sp :: rest⟩] = some (0, tok.length + 1, rest) := by
  have hlen : sch.length = tok.length := by simpa using congrArg List.length hs
  have hm : hdrMatch tok ⟨headerKind, authHeader, sch ++ sp :: rest⟩ = some (tok.length + 1, rest) := by
    rw [hdrMatch_exact]
    have hc : ((⟨headerKind, authHeader, sch ++ sp :: rest⟩ : Hdr).kind = headerKind ∧
        (⟨headerKind, authHeader, sch ++ sp :: rest⟩ : Hdr).name.map toLowerB = authHeader.map toLowerB ∧
        tok.length ≤ (⟨headerKind, authHeader, sch ++ sp :: rest⟩ : Hdr).value.length ∧
        ((⟨headerKind, authHeader, sch ++ sp :: rest⟩ : Hdr).value.take tok.length).map toLowerB = tok.map toLowerB) := by
      refine ⟨rfl, rfl, by simp; omega, ?_⟩
      simp only [← hlen, List.take_left', hs]
    rw [if_pos hc]
    simp only [← hlen, List.drop_left', hsp, if_true]
  simp [findAuthHeader, findHdrLoop, hm]

/-- the public Basic API on a real header value: scheme in any case, SP or HT, optional further white space
    around the token68 — user-id and password come back exactly -/
theorem basicApi_roundtrip (sch : Bytes) (sp : UInt8) (w1 w2 u pw : Bytes)
    (hs : sch.map toLowerB = basicBase.map toLowerB) (hsp : sp = 32 ∨ sp = 9)
    (h1 : allWs w1 = true) (h2 : allWs w2 = true) (hu : ∀ c ∈ u, c ≠ 58) :
    basicApi (sch ++ sp :: (w1 ++ b64Enc (u ++ 58 :: pw) ++ w2)) = some (u, some pw) := by
  unfold basicApi
  rw [findAuthHeader_single basicBase sch sp _ hs hsp]
  have hne : b64Enc (u ++ 58 :: pw) ≠ [] := by
    have := (b64Enc_length _ _ (Nat.le_refl (u ++ 58 :: pw).length)).2 (by simp)
    intro h; rw [h] at this; simp at this
  have htok := b64Enc_tok68 _ (u ++ 58 :: pw) (Nat.le_refl _)
  simp only [basicInfo, parseBasic_ok w1 _ w2 h1 h2 hne htok]
  have : (b64Enc (u ++ 58 :: pw)).length ≠ 0 := by simpa using hne
  simp [this, basicDecode_enc u pw hu]

/-- the public Digest API on a real header value (scheme in any letter case, SP or HT, then any rendering of
    the parameters): both calls return the structures of the canonical parameters -/
theorem digestApi_roundtrip (sch : Bytes) (sp : UInt8) (lead : Bytes) (es : List Elem)
    (hs : sch.map toLowerB = digestBase.map toLowerB) (hsp : sp = 32 ∨ sp = 9)
    (hwf : WF lead es = true) (hinfo : es.all Elem.infoWf = true) (s' : Bytes) (term' : Option UInt8) :
    ∃ i u, digestApi (sch ++ sp :: render lead es) = .ok (some (i, u)) ∧
      eraseCnl i = eraseCnl (requestInfo s' term' (canon (view es))) ∧
      u = usernameInfo s' term' (canon (view es)) := by
  obtain ⟨d, hp, hi, hu, _⟩ := info_render lead es 0 (by decide) hwf hinfo s' term'
  refine ⟨_, _, ?_, hi, hu⟩
  unfold digestApi
  rw [findAuthHeader_single digestBase sch sp _ hs hsp]
  simp only [hp]

end Mhd.Auth
