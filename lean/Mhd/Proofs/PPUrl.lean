/-
  `post_process_urlencoded` on well-formed input: what remains of a call after the loop
  (`tail_spec`), one whole call (`feed_good`), a list of calls (`feedAll_good`) and the complete
  life of a post processor (`url_roundtrip_tok`).
-/
import Mhd.Proofs.PPUrlInv
namespace Mhd.PP

/-- invariant between two calls of `MHD_post_process`: `F` is the input still to come -/
def Good (F : Bytes) (N : Nat) (all : List FieldT) (nl : Bytes) (pp : PP) : Prop :=
  Base [] N pp {} ∧ LInv [] F N all nl pp {}

theorem good_start {d F : Bytes} {N : Nat} {all : List FieldT} {nl : Bytes} {pp : PP}
    (h : Good (d ++ F) N all nl pp) : Base d N pp {} ∧ LInv d F N all nl pp {} := by
  obtain ⟨hB, hI⟩ := h
  refine ⟨⟨hB.fault, hB.size, Nat.zero_le _, hB.url⟩, ?_⟩
  cases hI with
  | init done rem hst hall hR hev hbp hvo hxb hmu hsk hek hsv hev' hle =>
    exact LInv.init _ _ done rem hst hall (by simpa using hR) hev hbp hvo hxb hmu hsk hek hsv hev' hle
  | key done f rest kd kr hst hall hk hkd hR hev hkey hptr hek hsv hev' hmi hvo hxb hle =>
    refine LInv.key _ _ done f rest kd kr hst hall hk hkd (by simpa using hR) hev ?_ hptr hek hsv hev' hmi hvo hxb hle
    exact ⟨by simpa [pendKey] using hkey.content, hkey.inbuf, hkey.must⟩
  | val done f rest wrest hst hall hR hval hkey hev' hsv hle hlast =>
    refine LInv.val _ _ done f rest wrest hst hall (by simpa using hR) (by simpa [scanned] using hval) ?_ hev'
      (by intro sv h; cases h) (by intro x h; cases h) (by intro sv h; cases h)
    rcases hkey with ⟨hkr, a, b, c⟩ | h
    · left
      refine ⟨⟨by simpa [pendKey] using hkr.content, hkr.inbuf, hkr.must⟩, a, b, Or.inl ⟨rfl, rfl⟩⟩
    · right; exact h
  | cb done f rest sv ev hst hall hR hsv hev' hse hep hval hkey hle => cases hsv
  | done pre hst hnle hev hxb hsk =>
    exact LInv.done _ _ pre hst (by simpa using hnle) hev hxb hsk

theorem tail_key_append {d : Bytes} {N : Nat} {pp : PP} {l : UL} {kd : Bytes} {sk : Nat}
    (hB : Base d N pp l) (hkr : KeyRaw d pp l kd) (hs : l.startKey = some sk) (hske : sk ≤ l.endKey.getD l.poff)
    (hed : l.endKey.getD l.poff ≤ d.length) (hfit : kd.length < N) :
    ∃ B, appendKey d pp sk (l.endKey.getD l.poff - sk)
        = { pp with buf := B, bufferPos := pp.bufferPos + (l.endKey.getD l.poff - sk), mustUnescapeKey := true } ∧
      B.take (pp.bufferPos + (l.endKey.getD l.poff - sk)) = kd ∧
      pp.bufferPos + (l.endKey.getD l.poff - sk) ≤ B.length ∧
      ¬ (pp.bufferPos + (l.endKey.getD l.poff - sk) ≥ pp.bufferSize) ∧
      pp.bufferPos + (l.endKey.getD l.poff - sk) = kd.length := by
  have hpend : pendKey d l = slice d sk (l.endKey.getD l.poff) := by simp [pendKey, hs]
  have hpl : (slice d sk (l.endKey.getD l.poff)).length = l.endKey.getD l.poff - sk := slice_length d sk _ hed
  have hklen : kd.length = pp.bufferPos + (l.endKey.getD l.poff - sk) := by
    have := keyRaw_len hkr; rw [hpend, hpl] at this; exact this
  have hadd : sk + (l.endKey.getD l.poff - sk) = l.endKey.getD l.poff := by omega
  obtain ⟨B, h1, h2, h3⟩ := appendKey_spec d pp sk (l.endKey.getD l.poff - sk) kd (by omega)
    (by rw [hadd, ← hpend]; exact hkr.content) hkr.inbuf
  exact ⟨B, h1, h2, h3, by rw [hB.size]; omega, hklen.symm⟩

theorem tail_spec {d F : Bytes} {N : Nat} {all : List FieldT} {nl : Bytes} {pp : PP} {l : UL}
    (hd : 0 < d.length) (hok : ∀ f ∈ all, f.Ok N)
    (hB : Base d N pp l) (hI : LInv d F N all nl pp l) (hend : l.poff = d.length) (hncb : pp.state ≠ .callback) :
    (urlTail d pp l).2 = true ∧ Good F N all nl (urlTail d pp l).1 := by
  have hdrop : d.drop l.poff = [] := by rw [hend]; simp
  have hfs : pp.fault.isSome = false := by rw [hB.fault]; rfl
  have hne := hI.state_ne_error
  cases hI with
  | init done rem hst hall hR hev hbp hvo hxb hmu hsk hek hsv hev' hle =>
    have e : urlTail d pp l = (pp, true) := by
      simp [urlTail, urlTailKey, urlTailValue, hst, hsk, hsv, hfs]
    rw [e]
    exact ⟨rfl, ⟨hB.fault, hB.size, Nat.le_refl _, hB.url⟩,
      LInv.init _ _ done rem hst hall (by simpa [hdrop] using hR) hev hbp hvo hxb hmu rfl rfl rfl rfl (by intro x h; cases h)⟩
  | done pre hst hnle hev hxb hsk =>
    have e : urlTail d pp l = (pp, true) := by
      simp [urlTail, urlTailKey, urlTailValue, hst, hsk, hfs]
    rw [e]
    exact ⟨rfl, ⟨hB.fault, hB.size, Nat.le_refl _, hB.url⟩,
      LInv.done _ _ pre hst (by simpa [hdrop] using hnle) hev hxb rfl⟩
  | cb done f rest sv ev hst hall hR hsv hev' hse hep hval hkey hle => exact absurd hst hncb
  | key done f rest kd kr hst hall hk hkd hR hev hkey hptr hek hsv hev' hmi hvo hxb hle =>
    have hf : f.Ok N := hok f (by simp [hall])
    rcases hptr with ⟨_, h0⟩ | ⟨sk, hs, hlt⟩
    · omega
    · have hkdlen : kd.length < N := by
        have := congrArg List.length hk
        simp at this; have := hf.2.2.2; omega
      obtain ⟨B, a1, a2, a3, a4, a5⟩ := tail_key_append hB hkey hs (by simp [hek]; omega) (by simp [hek]; exact hB.poff) hkdlen
      simp only [hek, Option.getD_none] at a1 a2 a3 a4 a5
      have hnlt : ¬ l.poff < sk := by omega
      have e : urlTail d pp l = ({ pp with buf := B, bufferPos := pp.bufferPos + (l.poff - sk), mustUnescapeKey := true }, true) := by
        simp only [urlTail, hne, if_false, urlTailKey, hs, hek, Option.getD_none, hnlt, a4, a1]
        simp [urlTailValue, hsv, hfs, hst]
      rw [e]
      refine ⟨rfl, ⟨hB.fault, hB.size, Nat.le_refl _, hB.url⟩, ?_⟩
      refine LInv.key _ _ done f rest kd kr hst hall hk hkd (by simpa [hdrop] using hR) hev ?_ (Or.inl ⟨rfl, rfl⟩) rfl rfl rfl hmi hvo hxb
        (by intro x h; cases h)
      exact ⟨by simpa [pendKey] using a2, a3, fun _ => rfl⟩
  | val done f rest wrest hst hall hR hval hkey hev' hsv hle hlast =>
    have hf : f.Ok N := hok f (by simp [hall])
    have hR' : F = wrest ++ tailF rest nl := by simpa [hdrop] using hR
    -- first the key part
    have hkeypart : ∃ pp1, urlTailKey d pp l = (pp1, true) ∧ pp1.fault = none ∧ pp1.state = pp.state ∧
        pp1.bufferSize = pp.bufferSize ∧ pp1.isUrl = pp.isUrl ∧ pp1.xbuf = pp.xbuf ∧ pp1.valueOffset = pp.valueOffset ∧ pp1.evs = pp.evs ∧
        pp1.mustIkvi = pp.mustIkvi ∧ KeySt [] pp1 {} f ∧
        ((pp1.mustUnescapeKey = true ∧ pp1.buf.take pp1.bufferPos = rawOf f.k ∧ pp1.bufferPos ≤ pp1.buf.length ∧
            pp1.bufferPos ≤ pp1.bufferSize) ∨
         (pp1.mustUnescapeKey = false ∧ cstr pp1.buf = cstr (decOf f.k))) := by
      have hrawne : rawOf f.k ≠ [] := fun h => hf.1 (rawOf_eq_nil h)
      rcases hkey with ⟨hkr, a, b, hptr⟩ | ⟨a, b, c, e, g⟩
      · rcases hptr with ⟨p1, p2⟩ | ⟨sk, ek, p1, p2, p3, p4⟩
        · have hpend : pendKey d l = [] := by simp [pendKey, p1]
          have hc : pp.buf.take pp.bufferPos = rawOf f.k := by simpa [hpend] using hkr.content
          have h1 := keyRaw_len hkr
          rw [hpend] at h1
          simp only [List.length_nil, Nat.add_zero] at h1
          have h2 : (rawOf f.k).length ≠ 0 := fun h => hrawne (List.length_eq_zero_iff.mp h)
          have hbp : 0 < pp.bufferPos := by omega
          refine ⟨pp, by simp [urlTailKey, p1], hB.fault, rfl, rfl, rfl, rfl, rfl, rfl, rfl, ?_, ?_⟩
          · left; exact ⟨⟨by simpa [pendKey] using hc, hkr.inbuf, hkr.must⟩, a, b, Or.inl ⟨rfl, rfl⟩⟩
          · left; exact ⟨hkr.must hbp, hc, hkr.inbuf, by rw [hB.size]; have := hf.2.2.2; omega⟩
        · obtain ⟨B, a1, a2, a3, a4, a5⟩ := tail_key_append hB hkr p1 (by simp [p2]; omega)
            (by simp [p2]; exact Nat.le_trans p4 hB.poff) hf.2.2.2
          simp only [p2, Option.getD_some] at a1 a2 a3 a4 a5
          have hnlt : ¬ ek < sk := by omega
          refine ⟨{ pp with buf := B, bufferPos := pp.bufferPos + (ek - sk), mustUnescapeKey := true },
            by simp only [urlTailKey, p1, p2, Option.getD_some, hnlt, if_false, a4, a1], hB.fault, rfl, rfl, rfl, rfl, rfl, rfl, rfl, ?_, ?_⟩
          · left; exact ⟨⟨by simpa [pendKey] using a2, a3, fun _ => rfl⟩, a, b, Or.inl ⟨rfl, rfl⟩⟩
          · left; exact ⟨rfl, a2, a3, by show pp.bufferPos + (ek - sk) ≤ pp.bufferSize; rw [hB.size, a5]; have := hf.2.2.2; omega⟩
      · refine ⟨pp, by simp [urlTailKey, a], hB.fault, rfl, rfl, rfl, rfl, rfl, rfl, rfl, ?_, Or.inr ⟨c, e⟩⟩
        right; exact ⟨rfl, rfl, c, e, g⟩
    obtain ⟨pp1, e1, q1, q2, q3, q0, q4, q5, q6, q7, hk1, hk2⟩ := hkeypart
    have hfs1 : pp1.fault.isSome = false := by rw [q1]; rfl
    have hst1 : pp1.state = .processValue := by rw [q2, hst]
    have hval1 : ValSt done f pp1 (scanned d l ++ wrest) := valSt_congr hval rfl q4 q5 q6 q7
    cases hsv' : l.startValue with
    | none =>
      have e : urlTail d pp l = (pp1, true) := by
        simp [urlTail, hne, e1, hfs1, urlTailValue, hsv', hst1]
      rw [e]
      refine ⟨rfl, ⟨q1, by rw [q3]; exact hB.size, Nat.le_refl _, by rw [q0]; exact hB.url⟩, ?_⟩
      refine LInv.val _ _ done f rest wrest hst1 hall (by simpa using hR') ?_ hk1 rfl
        (by intro sv h; cases h) (by intro x h; cases h) (by intro sv h; cases h)
      simpa [scanned, hsv'] using hval1
    | some sv =>
      have hsvp := hsv sv hsv'
      have hsc : scanned d l = slice d sv l.poff := by simp [scanned, hsv', hev']
      rw [hsc] at hval1
      -- unescape the key if that is still to be done
      have hunesc : ∃ pp1a, (if pp1.mustUnescapeKey = true then unescapeKey pp1 else pp1) = pp1a ∧ pp1a.fault = none ∧
          pp1a.state = pp1.state ∧ pp1a.bufferSize = pp1.bufferSize ∧ pp1a.isUrl = pp1.isUrl ∧ pp1a.xbuf = pp1.xbuf ∧
          pp1a.valueOffset = pp1.valueOffset ∧ pp1a.evs = pp1.evs ∧ pp1a.mustIkvi = pp1.mustIkvi ∧
          pp1a.mustUnescapeKey = false ∧ cstr pp1a.buf = cstr (decOf f.k) := by
        rcases hk2 with ⟨m1, m2, m3, m4⟩ | ⟨m1, m2⟩
        · obtain ⟨B, u1, u2⟩ := unescapeKey_spec pp1 f.k hf.2.1 m2 m3 m4
          exact ⟨{ pp1 with buf := B, mustUnescapeKey := false }, by rw [m1, if_pos rfl, u1], q1, rfl, rfl, rfl, rfl, rfl, rfl, rfl, rfl, u2⟩
        · exact ⟨pp1, by rw [m1]; rfl, q1, rfl, rfl, rfl, rfl, rfl, rfl, rfl, m1, m2⟩
      obtain ⟨pp1a, ua, u1, u2, u3, u0, u4, u5, u6, u7, u8, u9⟩ := hunesc
      have hval2 : ValSt done f pp1a (slice d sv l.poff ++ wrest) := valSt_congr hval1 rfl u4 u5 u6 u7
      -- the `last_escape` argument
      obtain ⟨p, vo, es, hpv, hval3⟩ := value_process (tailEscape l.lastEscape l.poff) wrest false hval2 u9 hf.2.2.1 hsvp hB.poff (by intro h; cases h)
      have hfs1a : pp1a.fault.isSome = false := by rw [u1]; rfl
      have e : urlTail d pp l = ({ pp1a with xbuf := p, valueOffset := vo, mustIkvi := false, evs := es }, true) := by
        simp only [urlTail, hne, if_false, e1, hfs1, Bool.false_eq_true, or_self, urlTailValue, hsv', Option.isSome_some,
          hst1, and_self, if_true, ua, hfs1a, hev', Option.getD_none, hpv]
        have : pp1a.state ≠ .error := by rw [u2, hst1]; decide
        simp [this]
      rw [e]
      refine ⟨rfl, ⟨u1, by show pp1a.bufferSize = N; rw [u3, q3]; exact hB.size, Nat.le_refl _, by show pp1a.isUrl = true; rw [u0, q0]; exact hB.url⟩, ?_⟩
      refine LInv.val _ _ done f rest wrest (by show pp1a.state = _; rw [u2, hst1]) hall (by simpa using hR')
        (by simpa [scanned] using hval3) ?_ rfl
        (by intro sv h; cases h) (by intro x h; cases h) (by intro sv h; cases h)
      right; exact ⟨rfl, rfl, u8, u9, rfl⟩

theorem feed_good {d F : Bytes} {N : Nat} {all : List FieldT} {nl : Bytes} {pp : PP}
    (hok : ∀ f ∈ all, f.Ok N) (hnl : IsNl nl) (hG : Good (d ++ F) N all nl pp) :
    (feed pp d).2 = true ∧ Good F N all nl (feed pp d).1 := by
  have hfs : pp.fault.isSome = false := by rw [hG.1.fault]; rfl
  by_cases hd : d.length = 0
  · have : d = [] := List.length_eq_zero_iff.mp hd
    subst this
    simp only [feed, hfs, Bool.false_eq_true, if_false, List.length_nil, if_true]
    exact ⟨trivial, by simpa using hG⟩
  · obtain ⟨hB, hI⟩ := good_start hG
    have hmu : mu d pp {} < 3 * d.length + 4 := by
      simp only [mu]
      have : rank pp.state ≤ 2 := by cases pp.state <;> simp [rank]
      omega
    obtain ⟨hB', hI', hend, hncb⟩ := loop_inv hok hnl (3 * d.length + 4) pp {} hB hI hmu
    have hfs' : (urlLoop (3 * d.length + 4) d pp {}).1.fault.isSome = false := by rw [hB'.fault]; rfl
    have := tail_spec (by omega) hok hB' hI' hend hncb
    simp only [feed, hfs, Bool.false_eq_true, if_false, hd, hB.url, if_true, postProcessUrlencoded, hfs']
    exact this

theorem feedAll_good {N : Nat} {all : List FieldT} {nl : Bytes} (hok : ∀ f ∈ all, f.Ok N) (hnl : IsNl nl) :
    ∀ (chunks : List Bytes) (F : Bytes) (pp : PP), Good (chunks.flatten ++ F) N all nl pp →
      Good F N all nl (feedAll pp chunks) := by
  intro chunks
  induction chunks with
  | nil => intro F pp h; simpa [feedAll] using h
  | cons c cs ih =>
    intro F pp h
    have h' : Good (c ++ (cs.flatten ++ F)) N all nl pp := by simpa using h
    obtain ⟨_, hg⟩ := feed_good hok hnl h'
    simpa [feedAll] using ih F _ hg

/-- every call of `MHD_post_process` on well-formed input returns `MHD_YES` -/
theorem feedAll_rets {N : Nat} {all : List FieldT} {nl : Bytes} (hok : ∀ f ∈ all, f.Ok N) (hnl : IsNl nl) :
    ∀ (chunks : List Bytes) (F : Bytes) (pp : PP), Good (chunks.flatten ++ F) N all nl pp →
      ∀ (pre : List Bytes) (c : Bytes) (post : List Bytes), chunks = pre ++ c :: post →
        (feed (feedAll pp pre) c).2 = true := by
  intro chunks F pp hG pre c post hc
  subst hc
  have h1 : Good (c ++ ((post.flatten) ++ F)) N all nl (feedAll pp pre) := by
    apply feedAll_good hok hnl pre
    simpa using hG
  exact (feed_good hok hnl h1).1

theorem good_init (n : Nat) (all : List FieldT) (nl : Bytes) :
    Good (encF all ++ nl) (n + Mhd.Gen.PP.bufferSlack) all nl { isUrl := true, bufferSize := n + Mhd.Gen.PP.bufferSlack } :=
  ⟨⟨rfl, rfl, Nat.le_refl _, rfl⟩,
    LInv.init _ _ [] all rfl rfl (by simp) (by simp [Delivers]) rfl rfl rfl rfl rfl rfl rfl rfl (by intro x h; cases h)⟩

theorem create_url (n : Nat) : create n Mhd.Gen.PP.encUrl = some { isUrl := true, bufferSize := n + Mhd.Gen.PP.bufferSlack } := by
  have : eqCaselessN Mhd.Gen.PP.encUrl Mhd.Gen.PP.encUrl Mhd.Gen.PP.encUrl.length = true := by decide
  simp [create, this]

theorem eq_in_raw_key_false {kr X : Bytes} {c : UInt8} (h : kr ++ cEq :: X = [c]) (hc : c ≠ cEq) : False := by
  have : cEq ∈ kr ++ cEq :: X := by simp
  rw [h] at this
  simp at this
  exact hc this.symm

theorem encF_eq_nil {fs : List FieldT} (h : encF fs = []) : fs = [] := by
  cases fs with
  | nil => rfl
  | cons f fs => simp [encF] at h

/-- the state after the last chunk, when the input ended with at least one newline -/
theorem good_end_nl {N : Nat} {all : List FieldT} {nl : Bytes} {pp : PP} (hne : nl ≠ [])
    (hG : Good [] N all nl pp) :
    pp.state = .done ∧ pp.xbuf = [] ∧ pp.fault = none ∧ Delivers pp.evs (all.map fld) := by
  obtain ⟨hB, hI⟩ := hG
  cases hI with
  | init done rem hst hall hR hev hbp hvo hxb hmu hsk hek hsv hev' hle =>
    simp at hR
    exact absurd hR.2 hne
  | key done f rest kd kr hst hall hk hkd hR hev hkey hptr hek hsv hev' hmi hvo hxb hle =>
    simp at hR
  | val done f rest wrest hst hall hR hval hkey hev' hsv hle hlast =>
    simp at hR
    cases rest with
    | nil => simp [tailF] at hR; exact absurd hR.2 hne
    | cons g r => simp [tailF] at hR
  | cb done f rest sv ev hst hall hR hsv hev' hse hep hval hkey hle => cases hsv
  | done pre hst hnle hev hxb hsk => exact ⟨hst, hxb, hB.fault, hev⟩

theorem destroy_idle (pp : PP) (hst : pp.state = .done ∨ pp.state = .init) (hx : pp.xbuf = []) (hf : pp.fault = none) :
    destroy pp = (pp, true) := by
  have hfs : pp.fault.isSome = false := by rw [hf]; rfl
  rcases hst with h | h <;> simp [destroy, hfs, h, hx]

theorem isNl_lf : IsNl [cLF] := by
  intro c hc; simp at hc; exact Or.inr hc

/-- Round trip, token form: every conforming rendering `fields` (lists of literal / escape tokens),
    optionally followed by newlines `nl`, fed in any split `chunks` to a post processor created with
    any buffer size `n`, then destroyed: every call returns `MHD_YES`, nothing faults, and the
    iterator calls deliver exactly the decoded fields in order. -/
theorem url_roundtrip_tok (n : Nat) (fields : List FieldT) (nl : Bytes) (chunks : List Bytes)
    (hok : ∀ f ∈ fields, f.Ok (n + Mhd.Gen.PP.bufferSlack)) (hnl : IsNl nl)
    (hc : chunks.flatten = encF fields ++ nl) :
    ∃ pp, run n Mhd.Gen.PP.encUrl chunks = some (pp, true) ∧ pp.fault = none ∧
      Delivers pp.evs (fields.map fld) := by
  simp only [run, create_url, Option.map_some]
  by_cases hne : nl = []
  · -- no newline in the input: `MHD_destroy_post_processor` supplies one if a value is open
    subst hne
    have G0 := good_init n fields [cLF]
    have G1 : Good [cLF] (n + Mhd.Gen.PP.bufferSlack) fields [cLF]
        (feedAll { isUrl := true, bufferSize := n + Mhd.Gen.PP.bufferSlack } chunks) := by
      apply feedAll_good hok isNl_lf chunks
      rw [hc]; simpa using G0
    generalize feedAll { isUrl := true, bufferSize := n + Mhd.Gen.PP.bufferSlack } chunks = ppE at G1
    obtain ⟨hB, hI⟩ := G1
    cases hI with
    | init done rem hst hall hR hev hbp hvo hxb hmu hsk hek hsv hev' hle =>
      have hrem : rem = [] := by
        apply encF_eq_nil
        have h2 : ([] : Bytes) ++ [cLF] = encF rem ++ [cLF] := by simpa using hR
        exact (List.append_cancel_right h2).symm
      subst hrem
      simp at hall; subst hall
      exact ⟨ppE, by rw [destroy_idle ppE (Or.inr hst) hxb hB.fault], hB.fault, hev⟩
    | key done f rest kd kr hst hall hk hkd hR hev hkey hptr hek hsv hev' hmi hvo hxb hle =>
      exact (eq_in_raw_key_false (by simpa using hR.symm) (by decide)).elim
    | val done f rest wrest hst hall hR hval hkey hev' hsv hle hlast =>
      have hG : Good ([cLF] ++ []) (n + Mhd.Gen.PP.bufferSlack) fields [cLF] ppE :=
        ⟨hB, by simpa using LInv.val _ _ done f rest wrest hst hall hR hval hkey hev' hsv hle hlast⟩
      obtain ⟨_, hG2⟩ := feed_good hok isNl_lf hG
      obtain ⟨s1, s2, s3, s4⟩ := good_end_nl (by simp) hG2
      have hfs : ppE.fault.isSome = false := by rw [hB.fault]; rfl
      have hfeed : (feed ppE [cLF]).1 = (postProcessUrlencoded ppE [cLF]).1 := by
        simp [feed, hfs, hB.url]
      rw [hfeed] at s1 s2 s3 s4
      refine ⟨(postProcessUrlencoded ppE [cLF]).1, ?_, s3, s4⟩
      simp [destroy, hfs, hst, s1, s2]
    | cb done f rest sv ev hst hall hR hsv hev' hse hep hval hkey hle => cases hsv
    | done pre hst hnle hev hxb hsk =>
      exact ⟨ppE, by rw [destroy_idle ppE (Or.inl hst) hxb hB.fault], hB.fault, hev⟩
  · have G0 := good_init n fields nl
    have G1 : Good [] (n + Mhd.Gen.PP.bufferSlack) fields nl
        (feedAll { isUrl := true, bufferSize := n + Mhd.Gen.PP.bufferSlack } chunks) := by
      apply feedAll_good hok hnl chunks
      rw [hc]; simpa using G0
    obtain ⟨s1, s2, s3, s4⟩ := good_end_nl hne G1
    exact ⟨_, by rw [destroy_idle _ (Or.inl s1) s2 s3], s3, s4⟩


/-! ### The reference encoder produces well-formed token text -/


/-- the token the reference encoder `encByte` emits for a byte -/
def tokOf (c : UInt8) : Tok :=
  if isUnreserved c then .lit c
  else if c = cSp then .lit cPlus
  else .esc (hexDigitU (c.toNat / 16)) (hexDigitU (c.toNat % 16))

theorem tokOf_table : ∀ n, n < 256 →
    (tokOf (UInt8.ofNat n)).ok = true ∧ (tokOf (UInt8.ofNat n)).dec = UInt8.ofNat n ∧
    (tokOf (UInt8.ofNat n)).raw = encByte (UInt8.ofNat n) := by
  decide +kernel

theorem tokOf_spec (c : UInt8) : (tokOf c).ok = true ∧ (tokOf c).dec = c ∧ (tokOf c).raw = encByte c := by
  have h := tokOf_table c.toNat (UInt8.toNat_lt c)
  simpa using h

def tokField (kv : Bytes × Bytes) : FieldT := ⟨kv.1.map tokOf, kv.2.map tokOf⟩

theorem rawOf_map_tokOf (s : Bytes) : rawOf (s.map tokOf) = encStr s := by
  induction s with
  | nil => rfl
  | cons c s ih => simp [encStr, (tokOf_spec c).2.2] at ih ⊢; rw [← ih]

theorem decOf_map_tokOf (s : Bytes) : decOf (s.map tokOf) = s := by
  induction s with
  | nil => rfl
  | cons c s ih => simp [(tokOf_spec c).2.1, ih]

theorem allOk_map_tokOf (s : Bytes) : AllOk (s.map tokOf) := by
  intro t ht
  simp at ht
  obtain ⟨c, _, rfl⟩ := ht
  exact (tokOf_spec c).1

theorem encodeUrl_eq (fields : List (Bytes × Bytes)) : encodeUrl fields = encF (fields.map tokField) := by
  induction fields with
  | nil => rfl
  | cons kv rest ih =>
    cases rest with
    | nil => simp [encodeUrl, encF, tokField, rawOf_map_tokOf]
    | cons kv2 rest2 =>
      simp only [encodeUrl, List.map_cons, encF] at ih ⊢
      simp [tokField, rawOf_map_tokOf, ih]

end Mhd.PP
