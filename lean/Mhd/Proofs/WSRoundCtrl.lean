/-
  C19 helper lemmas, part 17: round trip of ping / pong / close frames, and what their
  encoders produce.
-/
import Mhd.Proofs.WSRound
namespace Mhd.WS

/-- the fields a control frame leaves alone: the message under assembly and the configuration -/
def SameData (a b : WS) : Prop :=
  b.dataType = a.dataType ∧ b.dataBuf = a.dataBuf ∧ b.dataSize = a.dataSize ∧ b.dataUtf8 = a.dataUtf8 ∧
  b.flags = a.flags ∧ b.maxPayload = a.maxPayload ∧ b.allocLimit = a.allocLimit

theorem SameData.refl (a : WS) : SameData a a := ⟨rfl, rfl, rfl, rfl, rfl, rfl, rfl⟩

theorem SameData.trans {a b c : WS} (h1 : SameData a b) (h2 : SameData b c) : SameData a c :=
  ⟨h2.1.trans h1.1, h2.2.1.trans h1.2.1, h2.2.2.1.trans h1.2.2.1, h2.2.2.2.1.trans h1.2.2.2.1,
   h2.2.2.2.2.1.trans h1.2.2.2.2.1, h2.2.2.2.2.2.1.trans h1.2.2.2.2.2.1, h2.2.2.2.2.2.2.trans h1.2.2.2.2.2.2⟩

/-- a complete control frame (ping, pong, close; FIN) from `HeaderCompleted` on -/
theorem ctrl_body_run {ws : WS} (h : Inv ws) (hs : ws.step = 0) (b0 : UInt8) (t : List UInt8) (ht : t.length ≤ 13)
    (key : List UInt8) (v : Nat) (hv : v ≠ 0) (hop : opcodeOf b0 = 8 ∨ opcodeOf b0 = 9 ∨ opcodeOf b0 = 10)
    (hfin : finBit b0 = true) (payload body : List UInt8) (hn : payload.length < 2 ^ 63)
    (hal : payload.length + 1 ≤ ws.allocLimit)
    (hutf : opcodeOf b0 = 8 → 2 < payload.length → checkUtf8 (payload.drop 2) 0 0 = .ok 0)
    (hbody : copyPayload body key 0 = payload) (hne : payload ≠ []) :
    ∃ ws', Run (hdrPhase ws (b0 :: t) 16 payload.length key v) body
      [(Int.ofNat (opcodeOf b0), some (payload ++ [0]), payload.length)] (.more ws') ∧
      SameData ws ws' ∧ ws'.validity = v ∧ ws'.step = 0 := by
  have hbl : body.length = payload.length := by rw [← hbody, copyPayload_length]
  have hok : OkOp b0 := ⟨by omega, fun _ => hfin⟩
  have hi16 := phase16_inv h hs b0 t ht payload.length key v hok hn (fun hh => by omega)
  have hn0 : payload.length ≠ 0 := by intro h0; exact hne (List.length_eq_zero_iff.mp h0)
  have hi0 : ws.payloadIndex = 0 := h.idx0 (by omega)
  cases hb : body with
  | nil => rw [hb] at hbl; simp at hbl; omega
  | cons x r =>
    have hW : (payload.length + 1) % W = payload.length + 1 := Nat.mod_eq_of_lt (by rw [W_eq]; omega)
    have hhc : headerComplete false (hdrPhase ws (b0 :: t) 16 payload.length key v) =
        .cont ({ hdrPhase ws (b0 :: t) 16 payload.length key v with
                ctrlBuf := some ((List.replicate (payload.length + 1) (0 : UInt8)).set payload.length 0),
                ctrlUtf8 := 0, step := 18 } : WS) 0 := by
      unfold headerComplete
      rw [phase_hdr0]
      have hps : (hdrPhase ws (b0 :: t) 16 payload.length key v).payloadSize = payload.length := rfl
      have hall : alloc (hdrPhase ws (b0 :: t) 16 payload.length key v) (payload.length + 1) =
          some (List.replicate (payload.length + 1) 0) := by
        unfold alloc; exact if_pos (show payload.length + 1 ≤ (hdrPhase ws (b0 :: t) 16 payload.length key v).allocLimit from hal)
      have hterm : termAt (List.replicate (payload.length + 1) (0 : UInt8)) payload.length =
          some ((List.replicate (payload.length + 1) (0 : UInt8)).set payload.length 0) := by
        unfold termAt; rw [if_pos (by simp)]
      rcases hop with h1 | h1 | h1
      all_goals simp only [h1, hps, hn0, ne_eq, not_false_eq_true, if_true, hW, hall, hterm, Bool.false_eq_true,
        if_false]
    have hv16 : (hdrPhase ws (b0 :: t) 16 payload.length key v).validity ≠ 0 := hv
    generalize hS18 : ({ hdrPhase ws (b0 :: t) 16 payload.length key v with
                ctrlBuf := some ((List.replicate (payload.length + 1) (0 : UInt8)).set payload.length 0),
                ctrlUtf8 := 0, step := 18 } : WS) = S18 at hhc
    have hok16 := iter_ok hi16 hv16 (x :: r) (by simp)
    have hit16 : iter false (hdrPhase ws (b0 :: t) 16 payload.length key v) (x :: r) = .cont S18 0 := by
      rw [iter_step16 _ _ _ rfl, hhc]
    rw [hit16] at hok16
    obtain ⟨hi18, hv18, _, _⟩ := hok16
    have e_step : S18.step = 18 := by rw [← hS18]
    have e_buf : S18.ctrlBuf = some ((List.replicate (payload.length + 1) (0 : UInt8)).set payload.length 0) := by
      rw [← hS18]
    have e_idx : S18.payloadIndex = 0 := by rw [← hS18]; exact hi0
    have e_psz : S18.payloadSize = payload.length := by rw [← hS18]; rfl
    have e_key : S18.maskKey = key := by rw [← hS18]; rfl
    have e_cu : S18.ctrlUtf8 = 0 := by rw [← hS18]
    have e_h0 : S18.hdr[0]? = some b0 := by rw [← hS18]; exact phase_hdr0 ws b0 t 16 payload.length key v
    have hk : payload.length = min (S18.payloadSize - S18.payloadIndex) (x :: r).length := by
      rw [e_psz, e_idx, ← hb, hbl]; omega
    obtain ⟨h0', buf, buf', hh0', hbuf, hw, hsp⟩ := (stepPayload_ctrl_eq hi18 e_step (x :: r) payload.length hk).2 hn0
    rw [e_h0] at hh0'; injection hh0' with hh0'; subst hh0'
    rw [e_buf] at hbuf; injection hbuf with hbuf; subst hbuf
    have htake : (x :: r).take payload.length = body := by
      rw [← hb, ← hbl, List.take_length]
    rw [htake, e_key, e_idx, Nat.zero_mod, hbody, writeAt_fresh] at hw
    injection hw with hw; subst hw
    rw [htake, e_key, e_idx, Nat.zero_mod, hbody, e_cu, Nat.zero_add, Nat.sub_zero] at hsp
    have e_sd : SameData ws S18 := by rw [← hS18]; exact ⟨rfl, rfl, rfl, rfl, rfl, rfl, rfl⟩
    have e_val : S18.validity = v := by rw [← hS18]; rfl
    have hfinal : ∃ ws', iter false S18 (x :: r) =
        .ret ws' (Int.ofNat (opcodeOf b0)) payload.length (some (payload ++ [0])) payload.length ∧ ws'.step = 0 ∧
        SameData S18 ws' ∧ ws'.validity = S18.validity := by
      rw [iter_payload _ _ (by simp) (Or.inr e_step), hsp]
      have hpc : ∀ w : WS, w.hdr[0]? = some b0 → w.step = 18 → w.ctrlUtf8 = 0 →
          w.payloadSize = w.payloadIndex → w.ctrlBuf = some (payload ++ [0]) → w.payloadSize = payload.length →
          ∃ ws', payloadFinish false payload.length w =
            .ret ws' (Int.ofNat (opcodeOf b0)) payload.length (some (payload ++ [0])) payload.length ∧ ws'.step = 0 ∧
            SameData w ws' ∧ ws'.validity = w.validity := by
        intro w h0 hs18 hu hsz hbf hps
        unfold payloadFinish
        rw [if_pos hsz]
        unfold payloadComplete
        have h17 : ¬ w.step = 17 := by omega
        simp only [h0, hfin, if_true, h17, if_false, hu, ne_eq, not_true_eq_false, and_false, hbf, hps]
        exact ⟨_, rfl, rfl, ⟨rfl, rfl, rfl, rfl, rfl, rfl, rfl⟩, rfl⟩
      by_cases hc : opcodeOf b0 = 8 ∧ 2 < payload.length
      · rw [if_pos hc, hutf hc.1 hc.2]
        exact hpc _ e_h0 e_step rfl (by show S18.payloadSize = _; rw [e_psz]) rfl e_psz
      · rw [if_neg hc]
        exact hpc _ e_h0 e_step rfl (by show S18.payloadSize = _; rw [e_psz]) rfl e_psz
    obtain ⟨ws', hfi, hst', hsd', hval'⟩ := hfinal
    refine ⟨ws', ?_, e_sd.trans hsd', by rw [hval', e_val], hst'⟩
    have hq' : sil ws' = 0 := by unfold sil; rw [hst']; simp
    have hev : evOf (Int.ofNat (opcodeOf b0)) (some (payload ++ [0])) payload.length =
        [(Int.ofNat (opcodeOf b0), some (payload ++ [0]), payload.length)] := by
      have hne0 : ¬ Int.ofNat (opcodeOf b0) = 0 := by
        intro h0
        have : opcodeOf b0 = 0 := by simpa using h0
        omega
      unfold evOf; rw [if_neg hne0]
    have hdrop : (x :: r).drop payload.length = [] := by
      rw [← hb, ← hbl]; exact List.drop_length
    refine Run.cont _ (x :: r) S18 0 _ _ (by simp) hit16 ?_
    rw [List.drop_zero]
    have := Run.emit S18 (x :: r) ws' (Int.ofNat (opcodeOf b0)) payload.length (some (payload ++ [0])) payload.length
      [] (.more ws') (by simp) hfi (Int.natCast_nonneg _) (by rw [hdrop]; exact Run.done _ _ _ (settle_quiet hq'))
    rw [hev, List.append_nil] at this
    exact this

end Mhd.WS
namespace Mhd.WS

theorem ctrl_body_run_empty {ws : WS} (h : Inv ws) (hs : ws.step = 0) (b0 : UInt8) (t : List UInt8)
    (key : List UInt8) (v : Nat) (hop : opcodeOf b0 = 8 ∨ opcodeOf b0 = 9 ∨ opcodeOf b0 = 10) (hfin : finBit b0 = true) :
    ∃ ws', Run (hdrPhase ws (b0 :: t) 16 0 key v) [] [(Int.ofNat (opcodeOf b0), none, 0)] (.more ws') ∧
      SameData ws ws' ∧ ws'.validity = v ∧ ws'.step = 0 := by
  have hi0 : ws.payloadIndex = 0 := h.idx0 (by omega)
  have hne0 : ¬ Int.ofNat (opcodeOf b0) = 0 := by
    intro h0; have : opcodeOf b0 = 0 := by simpa using h0
    omega
  have hhc : headerComplete false (hdrPhase ws (b0 :: t) 16 0 key v) =
      .cont ({ hdrPhase ws (b0 :: t) 16 0 key v with ctrlBuf := none, ctrlUtf8 := 0, step := 18 } : WS) 0 := by
    unfold headerComplete
    rw [phase_hdr0]
    have hps : (hdrPhase ws (b0 :: t) 16 0 key v).payloadSize = 0 := rfl
    rcases hop with h1 | h1 | h1
    all_goals simp only [h1, hps, ne_eq, not_true_eq_false, if_false, Bool.false_eq_true]
  have htail : ∃ ws', tail false (hdrPhase ws (b0 :: t) 16 0 key v) 0 = .ret ws' (Int.ofNat (opcodeOf b0)) 0 none 0 ∧
      SameData ws ws' ∧ ws'.validity = v ∧ ws'.step = 0 := by
    unfold tail
    rw [if_pos (show (hdrPhase ws (b0 :: t) 16 0 key v).step = 16 from rfl), hhc]
    simp only []
    unfold tailAfter
    rw [if_pos ⟨Or.inr rfl, by show (0 : Nat) = ws.payloadIndex; omega⟩]
    unfold payloadComplete
    have h0 : ({ hdrPhase ws (b0 :: t) 16 0 key v with ctrlBuf := none, ctrlUtf8 := 0, step := 18 } : WS).hdr[0]? =
        some b0 := phase_hdr0 ws b0 t 16 0 key v
    simp only [h0, hfin, if_true, ne_eq, not_true_eq_false, and_false, if_false]
    rw [if_neg (by decide)]
    exact ⟨_, rfl, ⟨rfl, rfl, rfl, rfl, rfl, rfl, rfl⟩, rfl, rfl⟩
  obtain ⟨ws', ht, hsd, hval, hst⟩ := htail
  refine ⟨ws', Run.done _ _ _ ⟨ws', _, _, _, _, ht, ?_, ?_⟩, hsd, hval, hst⟩
  · unfold evOf; rw [if_neg hne0]
  · have hnn : ¬ Int.ofNat (opcodeOf b0) < 0 := Int.not_lt.mpr (Int.natCast_nonneg _)
    rw [if_neg hnn]

/-- **(ii) round trip, control frames**: ping, pong and close frames (payload ≤ 125 bytes, a
    close payload of ≠ 1 byte whose reason text is complete valid UTF-8) are returned unchanged;
    the receiver's validity becomes "only control frames" after a close frame. -/
theorem roundtrip_ctrl_run (ws : WS) (h : Inv ws) (hs : ws.step = 0) (hv : ws.validity ≠ 0)
    (op : Nat) (hop : op = 8 ∨ op = 9 ∨ op = 10) (payload : List UInt8) (hn : payload.length ≤ 125)
    (hclose : op = 8 → payload.length ≠ 1)
    (hmax : ws.maxPayload = 0 ∨ payload.length ≤ ws.maxPayload) (hal : payload.length + 1 ≤ ws.allocLimit)
    (hutf : op = 8 → 2 < payload.length → checkUtf8 (payload.drop 2) 0 0 = .ok 0) (m1 m2 m3 m4 : UInt8) (masked : Bool)
    (hm : masked = !ws.isClient) (key : List UInt8) (hkey : key = if masked then [m1, m2, m3, m4] else [0, 0, 0, 0]) :
    ∃ ws', Run ws (frameBytes masked (UInt8.ofNat (0x80 + op)) payload.length key (copyPayload payload key 0))
      [(Int.ofNat op, plOf payload, payload.length)] (.more ws') ∧
      SameData ws ws' ∧ ws'.validity = (if op = 8 then 2 else ws.validity) ∧ ws'.step = 0 := by
  have hl := h.hdrLen
  have hb0 : (UInt8.ofNat (0x80 + op)).toNat = 0x80 + op := by
    rw [UInt8.toNat_ofNat']; omega
  have hopc : opcodeOf (UInt8.ofNat (0x80 + op)) = op := by unfold opcodeOf; rw [hb0]; omega
  have hrsv : rsvBits (UInt8.ofNat (0x80 + op)) = 0 := by unfold rsvBits; rw [hb0]; omega
  have hfin : finBit (UInt8.ofNat (0x80 + op)) = true := by unfold finBit; rw [hb0]; simp
  generalize hB0 : UInt8.ofNat (0x80 + op) = b0 at *
  generalize hv' : (if opcodeOf b0 = 8 then 2 else ws.validity) = v'
  have hv'' : v' = if op = 8 then 2 else ws.validity := by rw [← hv', hopc]
  have hv'0 : v' ≠ 0 := by rw [← hv']; split <;> omega
  have hwire : frameBytes masked b0 payload.length key (copyPayload payload key 0) =
      b0 :: (hdrTail masked payload.length [m1, m2, m3, m4] ++ copyPayload payload key 0) := by
    unfold frameBytes hdrTail
    rw [hkey]
    cases masked <;> simp
  rw [hwire]
  have hstart : iter false ws (b0 :: (hdrTail masked payload.length [m1, m2, m3, m4] ++ copyPayload payload key 0)) =
      .cont (hdrPhase ws [b0] 1 ws.payloadSize ws.maskKey v') 1 := by
    rw [iter_step0 _ _ _ hs]
    conv => lhs; rw [phase_base h hs]
    rw [← hv']
    exact stepStart_ctrl ws ws.payloadSize ws.maskKey ws.validity b0 hl hv hrsv hfin (by rw [hopc]; exact hop)
  by_cases hne : payload = []
  · subst hne
    obtain ⟨ws', hrun, hsd, hval, hst⟩ := ctrl_body_run_empty h hs b0 (hdrTail masked 0 [m1, m2, m3, m4]) key v'
      (by rw [hopc]; exact hop) hfin
    refine ⟨ws', run_step hstart ?_, hsd, by rw [hval, hv''], hst⟩
    have hce : copyPayload ([] : List UInt8) key 0 = [] := by unfold copyPayload xorMask; simp
    rw [hce]
    apply header_run ws b0 0 ws.payloadSize ws.maskKey v' m1 m2 m3 m4 masked hm hl hv'0 (by omega)
      (fun _ => by omega) (by intro _; omega) (by omega)
    rw [hopc] at hrun
    subst hkey
    simpa [plOf] using hrun
  · obtain ⟨ws', hrun, hsd, hval, hst⟩ := ctrl_body_run h hs b0 (hdrTail masked payload.length [m1, m2, m3, m4])
      (hdrTail_length_le _ _ _ _ _ _) key v' hv'0 (by rw [hopc]; exact hop) hfin payload
      (copyPayload payload key 0) (by omega) hal (by rw [hopc]; exact hutf) (copyPayload_involutive _ _ _) hne
    refine ⟨ws', run_step hstart ?_, hsd, by rw [hval, hv''], hst⟩
    apply header_run ws b0 payload.length ws.payloadSize ws.maskKey v' m1 m2 m3 m4 masked hm hl hv'0 (by omega)
      (fun _ => hn) (by rw [hopc]; exact hclose) hmax
    rw [hopc] at hrun
    subst hkey
    simpa [plOf, hne] using hrun

end Mhd.WS
namespace Mhd.WS

/-- what the common tail of the encoders produces when the allocation succeeds -/
theorem encodeFrame_ok (wsS : WS) (b0 : UInt8) (n : Nat) (body : List UInt8 → List UInt8)
    (hb : ∀ m, (body m).length = n) (hal : overheadSize wsS n + n + 1 ≤ wsS.allocLimit) :
    ∃ m1 m2 m3 m4,
      (encodeFrame wsS b0 n body).st = 0 ∧ (encodeFrame wsS b0 n body).fault = false ∧
      (encodeFrame wsS b0 n body).frame =
        some (frameBytes wsS.isClient b0 n (if wsS.isClient then [m1, m2, m3, m4] else [0, 0, 0, 0])
              (body (if wsS.isClient then [m1, m2, m3, m4] else [0, 0, 0, 0])) ++ [0]) := by
  obtain ⟨m1, m2, m3, m4, hmk⟩ := maskFor_snd wsS
  refine ⟨m1, m2, m3, m4, ?_⟩
  have hal' : alloc (maskFor wsS).1 (overheadSize wsS n + n + 1) =
      some (List.replicate (overheadSize wsS n + n + 1) 0) := by
    obtain ⟨r, hr⟩ := maskFor_ws wsS
    unfold alloc
    rw [hr]
    exact if_pos hal
  have hlen : (frameBytes wsS.isClient b0 n (if wsS.isClient then [m1, m2, m3, m4] else [0, 0, 0, 0])
      (body (if wsS.isClient then [m1, m2, m3, m4] else [0, 0, 0, 0]))).length = overheadSize wsS n + n := by
    unfold frameBytes overheadSize
    simp only [List.length_cons, List.length_append, lenBytes_length, hb]
    cases wsS.isClient <;> simp <;> omega
  unfold encodeFrame
  simp only [hal', hmk, hlen, if_true]
  exact ⟨trivial, trivial, trivial⟩

theorem copyPayload_code_reason (code : Nat) (reason mask : List UInt8) :
    copyPayload (beBytes 2 code) mask 0 ++ (if reason.length ≠ 0 then copyPayload reason mask 2 else []) =
      copyPayload (beBytes 2 code ++ reason) mask 0 := by
  have h := copyPayload_append mask 0 (beBytes 2 code) reason
  rw [beBytes_length] at h
  simp only [Nat.zero_mod, Nat.zero_add] at h
  have h2 : (2 : Nat) % 4 = 2 := rfl
  rw [h2] at h
  rw [h]
  by_cases hr : reason.length ≠ 0
  · rw [if_pos hr]
  · rw [if_neg hr]
    have : reason = [] := List.length_eq_zero_iff.mp (by omega)
    subst this
    unfold copyPayload xorMask; simp

end Mhd.WS
