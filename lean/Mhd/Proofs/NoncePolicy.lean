/-
  Time-stamp round trip (calculate_nonce prints, get_nonce_timestamp reads),
  the stale / wrong classification of a nonce that is not in its slot, and the
  registration policy of is_slot_available — helper lemmas for `Mhd.Props.C13`.
-/
import Mhd.Proofs.NonceInv
namespace Mhd.Nonce
open Mhd.Gen.Nonce

theorem hexVal_hexChar : ∀ d, d < 16 → hexVal (hexChar d) = some d := by decide

theorem pow16_le (k : Nat) (h : k ≤ 14) : 16 ^ k ≤ 72057594037927936 := by
  have : (16:Nat) ^ k ≤ 16 ^ 14 := Nat.pow_le_pow_right (by omega) h
  have e : (16:Nat) ^ 14 = 72057594037927936 := by decide
  omega

theorem strxGo_digits (rest : Bytes) : ∀ (ds : List Nat) (i r k : Nat), (∀ d ∈ ds, d < 16) → r < 16 ^ k →
    k + ds.length ≤ 15 →
    strxGo (ds.map hexChar ++ rest) i r = strxGo rest (i + ds.length) (ds.foldl (fun a d => a * 16 + d) r) := by
  intro ds
  induction ds with
  | nil => intro i r k _ _ _; simp
  | cons d ds ih =>
    intro i r k hd hr hk
    have hd16 : d < 16 := hd d (by simp)
    simp only [List.map_cons, List.cons_append, strxGo, hexVal_hexChar d hd16, List.length_cons, List.foldl_cons]
    have hk14 : k ≤ 14 := by simp only [List.length_cons] at hk; omega
    have hp := pow16_le k hk14
    have hW : (W64 - 1) / 16 = 1152921504606846975 := by decide
    rw [hW]
    rw [if_neg (by omega)]
    have hr' : r * 16 + d < 16 ^ (k + 1) := by rw [Nat.pow_succ]; omega
    rw [ih (i + 1) (r * 16 + d) (k + 1) (fun x hx => hd x (by simp [hx])) hr' (by simp only [List.length_cons] at hk; omega)]
    congr 1; omega

def tsDigits (x : Nat) : List Nat := (List.range tsChars).map fun j => (x / 16 ^ (tsChars - 1 - j)) % 16

theorem hexTs_eq (ts : Nat) : hexTs ts = (tsDigits (trim ts)).map hexChar := by
  simp [hexTs, tsDigits, List.map_map, Function.comp_def]

theorem tsDigits_lt (x : Nat) : ∀ d ∈ tsDigits x, d < 16 := by
  intro d hd
  simp only [tsDigits, List.mem_map] at hd
  obtain ⟨j, _, rfl⟩ := hd
  exact Nat.mod_lt _ (by omega)

/-- big-endian base-16 digits, `k` of them -/
def digitsBE : Nat → Nat → List Nat
  | 0, _ => []
  | k + 1, x => digitsBE k (x / 16) ++ [x % 16]

theorem digitsBE_val : ∀ (k x : Nat), x < 16 ^ k → (digitsBE k x).foldl (fun a d => a * 16 + d) 0 = x := by
  intro k
  induction k with
  | zero => intro x hx; simp at hx; simp [digitsBE, hx]
  | succ k ih =>
    intro x hx
    simp only [digitsBE, List.foldl_append, List.foldl_cons, List.foldl_nil]
    rw [ih (x / 16) (by rw [Nat.pow_succ] at hx; omega)]
    omega

theorem tsDigits_eq (x : Nat) : tsDigits x = digitsBE 12 x := by
  have hr : List.range tsChars = [0,1,2,3,4,5,6,7,8,9,10,11] := by decide
  unfold tsDigits
  rw [hr]
  simp only [digitsBE, List.map_cons, List.map_nil, tsChars, timestampBinSize, Nat.div_div_eq_div_mul,
    Nat.reduceMul, Nat.reduceSub, Nat.reducePow, Nat.div_one, List.nil_append, List.cons_append]

theorem tsDigits_val (x : Nat) (hx : x < 2 ^ 48) : (tsDigits x).foldl (fun a d => a * 16 + d) 0 = x := by
  rw [tsDigits_eq]
  exact digitsBE_val 12 x (by have : (16:Nat) ^ 12 = 2 ^ 48 := by decide
                              omega)

theorem tsDigits_length (x : Nat) : (tsDigits x).length = 12 := by
  simp [tsDigits, tsChars, timestampBinSize]

theorem trim_lt (v : Nat) : trim v < 2 ^ 48 := by
  unfold trim tsBits timestampBinSize
  exact Nat.mod_lt _ (by decide)

/-- `MHD_strx_to_uint64_n_` reads back what `MHD_bin_to_hex` printed -/
theorem strx_hexTs (ts : Nat) (rest : Bytes) :
    strxToUint64N (hexTs ts ++ rest) tsChars = (tsChars, some (trim ts)) := by
  have hl : (hexTs ts).length = tsChars := by simp [hexTs]
  unfold strxToUint64N
  rw [List.take_left' hl]
  have := strxGo_digits [] (tsDigits (trim ts)) 0 0 0 (tsDigits_lt _) (by simp) (by rw [tsDigits_length]; omega)
  rw [List.append_nil] at this
  rw [hexTs_eq, this, tsDigits_val _ (trim_lt ts), tsDigits_length]
  simp [strxGo, tsChars, timestampBinSize]

/-- get_nonce_timestamp on a nonce made by calculate_nonce (whatever follows it
    in the buffer) returns the 48-bit trimmed time it was made for -/
theorem getNonceTimestamp_mkNonce (hh rest : Bytes) (ts : Nat)
    (hl : (mkNonce hh ts).length = stdLenMd5 ∨ (mkNonce hh ts).length = stdLenSha) :
    getNonceTimestamp (mkNonce hh ts ++ rest) (mkNonce hh ts).length = .ts (trim ts) := by
  have hts : (hexTs ts).length = 12 := by simp [hexTs, tsChars, timestampBinSize]
  have hlen : (mkNonce hh ts).length = hh.length + 12 := by simp [mkNonce, hts]
  unfold getNonceTimestamp
  have hne : (mkNonce hh ts).length ≠ 0 := by omega
  rw [if_neg hne]
  simp only []
  rw [if_neg (by intro h; rcases hl with h1 | h1 <;> omega), if_neg (by simp)]
  have hd : (mkNonce hh ts ++ rest).drop ((mkNonce hh ts).length - tsChars) = hexTs ts ++ rest := by
    have : (mkNonce hh ts).length - tsChars = hh.length := by
      rw [hlen]; simp [tsChars, timestampBinSize]
    rw [this, mkNonce, List.append_assoc, List.drop_left]
  rw [hd, strx_hexTs]
  simp


/-! ### classification of a presented nonce that is not in its slot -/

theorem strlen_holds : ∀ (m rest : Bytes), NoNul m → strlen (m ++ 0 :: rest) = some m.length := by
  intro m
  induction m with
  | nil => intro rest _; simp [strlen]
  | cons a as ih =>
    intro rest hn
    have ha : a ≠ 0 := hn a (by simp)
    simp only [List.cons_append, strlen, if_neg ha, List.length_cons]
    rw [ih rest (fun b hb => hn b (by simp [hb]))]
    rfl

theorem holds_getElem_len (nn : Slot) (m : Bytes) (h : Holds nn m) : nn.nonce[m.length]? = some 0 := by
  obtain ⟨rest, hr⟩ := h
  rw [hr]; simp

theorem holds_getElem_zero (nn : Slot) (m : Bytes) (h : Holds nn m) (hn : NoNul m) (hne : m ≠ []) :
    ∃ b, nn.nonce[0]? = some b ∧ b ≠ 0 := by
  obtain ⟨rest, hr⟩ := h
  cases m with
  | nil => exact (hne rfl).elim
  | cons a as => exact ⟨a, by rw [hr]; simp, hn a (by simp)⟩

/-- the slot holds the issued nonce `mkNonce hm tm`; a different nonce of the same
    length is presented: the answer depends only on the two time stamps -/
theorem classify_same_length (nn : Slot) (hm : Bytes) (tm : Nat) (n : Bytes) (t : Nat)
    (hh : Holds nn (mkNonce hm tm)) (hnn : NoNul (mkNonce hm tm))
    (hstd : (mkNonce hm tm).length = stdLenMd5 ∨ (mkNonce hm tm).length = stdLenSha)
    (hlen : n.length = (mkNonce hm tm).length) (hne : n ≠ mkNonce hm tm) :
    slotMatches nn n = some false ∧
    classifyMismatch nn n.length t =
      (if reuseTimeout * 1000 ≥ trim (sub64 t (trim tm)) then .stale
       else if trim (W64 - 1) / 2 ≥ trim (sub64 t (trim tm)) then .stale else .wrong) := by
  have hz := holds_getElem_len nn _ hh
  have hmne : mkNonce hm tm ≠ [] := by
    intro h; rw [h] at hstd; simp [stdLenMd5, stdLenSha] at hstd
  obtain ⟨b0, hb0, hb0n⟩ := holds_getElem_zero nn _ hh hnn hmne
  obtain ⟨rest, hr⟩ := hh
  constructor
  · unfold slotMatches
    rw [hlen, hz]
    simp only [Option.some.injEq, decide_eq_false_iff_not, and_true]
    rw [hr, List.take_left]
    exact fun h => hne h.symm
  · unfold classifyMismatch
    rw [hlen, hz, hb0]
    simp only []
    rw [if_neg hb0n, if_neg (by simp), hr, getNonceTimestamp_mkNonce hm _ tm hstd]

/-- nothing was ever registered in the slot: a (NUL-free) nonce is `wrong` -/
theorem classify_empty (nn : Slot) (n : Bytes) (t : Nat) (h0 : nn.nonce[0]? = some 0)
    (hl : nn.nonce.length = nonceBufSize) (hn : n.length ≤ maxNonceLen) :
    classifyMismatch nn n.length t = .wrong := by
  unfold classifyMismatch
  have : ∃ z, nn.nonce[n.length]? = some z :=
    ⟨nn.nonce[n.length]'(by simp only [nonceBufSize, maxNonceLen] at *; omega),
     List.getElem?_eq_getElem _⟩
  obtain ⟨z, hz⟩ := this
  rw [h0, hz]
  simp

/-! ### the registration policy (is_slot_available) in terms of the abstract view -/

theorem avail_empty (nn : Slot) (ts : Nat) (n : Bytes) (h0 : nn.nonce[0]? = some 0) :
    isSlotAvailable nn ts n = some true := by
  unfold isSlotAvailable; rw [h0]; simp

theorem avail_same (nn : Slot) (ts : Nat) (n : Bytes) (hh : Holds nn n) (hn : NoNul n) (hne : n ≠ []) :
    isSlotAvailable nn ts n = some false := by
  obtain ⟨b0, hb0, hb0n⟩ := holds_getElem_zero nn n hh hn hne
  obtain ⟨rest, hr⟩ := hh
  unfold isSlotAvailable
  rw [hb0]
  simp only []
  rw [if_neg hb0n, if_neg (by rw [hr]; simp), if_pos (by rw [hr]; simp)]

theorem avail_used (nn : Slot) (ts : Nat) (m n : Bytes) (hh : Holds nn m) (hm : NoNul m) (hme : m ≠ [])
    (hl : nn.nonce.length = nonceBufSize) (hn : n.length ≤ maxNonceLen)
    (hdiff : nn.nonce.take n.length ≠ n) (hnc : nn.nc ≠ 0) :
    isSlotAvailable nn ts n = some true := by
  obtain ⟨b0, hb0, hb0n⟩ := holds_getElem_zero nn m hh hm hme
  unfold isSlotAvailable
  rw [hb0]
  simp only []
  rw [if_neg hb0n, if_neg (by simp only [nonceBufSize, maxNonceLen] at *; omega), if_neg hdiff, if_pos hnc]

theorem avail_unused (nn : Slot) (ts : Nat) (hm : Bytes) (tm : Nat) (n : Bytes)
    (hh : Holds nn (mkNonce hm tm)) (hnn : NoNul (mkNonce hm tm))
    (hstd : (mkNonce hm tm).length = stdLenMd5 ∨ (mkNonce hm tm).length = stdLenSha)
    (hl : nn.nonce.length = nonceBufSize) (hlast : nn.nonce[nonceBufSize - 1]? = some 0)
    (hn : n.length ≤ maxNonceLen) (hdiff : nn.nonce.take n.length ≠ n) (hnc : nn.nc = 0) :
    isSlotAvailable nn ts n = some (decide (reuseTimeout * 1000 < trim (sub64 ts (trim tm)))) := by
  have hmne : mkNonce hm tm ≠ [] := by
    intro h; rw [h] at hstd; simp [stdLenMd5, stdLenSha] at hstd
  obtain ⟨b0, hb0, hb0n⟩ := holds_getElem_zero nn _ hh hnn hmne
  obtain ⟨rest, hr⟩ := hh
  unfold isSlotAvailable
  rw [hb0]
  simp only []
  rw [if_neg hb0n, if_neg (by simp only [nonceBufSize, maxNonceLen] at *; omega), if_neg hdiff,
    if_neg (by simp [hnc]), hlast]
  simp only []
  rw [if_neg (by simp)]
  have hts : getNonceTimestamp nn.nonce 0 = .ts (trim tm) := by
    have h1 := getNonceTimestamp_mkNonce hm (0 :: rest) tm hstd
    unfold getNonceTimestamp at h1 ⊢
    rw [hr, if_pos rfl, strlen_holds _ _ hnn]
    have hne : (mkNonce hm tm).length ≠ 0 := by rcases hstd with h | h <;> rw [h] <;> simp [stdLenMd5, stdLenSha]
    rw [if_neg hne] at h1
    exact h1
  rw [hts]

/-! ### no read outside a buffer -/

theorem strlen_of_zero : ∀ (buf : Bytes) (k : Nat), buf[k]? = some 0 → ∃ j, strlen buf = some j ∧ j ≤ k := by
  intro buf
  induction buf with
  | nil => intro k h; simp at h
  | cons a as ih =>
    intro k h
    by_cases ha : a = 0
    · exact ⟨0, by simp [strlen, ha], by omega⟩
    · cases k with
      | zero => simp at h; exact (ha h).elim
      | succ k =>
        simp only [List.getElem?_cons_succ] at h
        obtain ⟨j, hj, hjk⟩ := ih k h
        exact ⟨j + 1, by simp [strlen, ha, hj], by omega⟩

theorem getTs_no_fault (buf : Bytes) (len : Nat) (h0 : len ≠ 0) (hl : len ≤ buf.length) :
    getNonceTimestamp buf len ≠ .fault := by
  unfold getNonceTimestamp
  rw [if_neg h0]
  simp only []
  split
  · simp
  · rw [if_neg (by omega)]
    split
    · split <;> simp
    · simp

theorem getTs0_no_fault (buf : Bytes) (k : Nat) (hz : buf[k]? = some 0) : getNonceTimestamp buf 0 ≠ .fault := by
  obtain ⟨j, hj, hjk⟩ := strlen_of_zero buf k hz
  have hk : k < buf.length := by
    rcases Nat.lt_or_ge k buf.length with h | h
    · exact h
    · rw [List.getElem?_eq_none h] at hz; cases hz
  unfold getNonceTimestamp
  rw [if_pos rfl, hj]
  simp only []
  split
  · simp
  · rw [if_neg (by omega)]
    split
    · split <;> simp
    · simp

theorem getElem?_some_of_lt {α} (l : List α) (i : Nat) (h : i < l.length) : ∃ z, l[i]? = some z :=
  ⟨l[i], List.getElem?_eq_getElem h⟩

theorem classify_no_fault (nn : Slot) (len t : Nat) (hl : nn.nonce.length = nonceBufSize) (hlen : len ≤ maxNonceLen) :
    classifyMismatch nn len t ≠ .fault := by
  simp only [nonceBufSize, maxNonceLen] at hl hlen
  obtain ⟨b0, hb0⟩ := getElem?_some_of_lt nn.nonce 0 (by omega)
  obtain ⟨z, hz⟩ := getElem?_some_of_lt nn.nonce len (by omega)
  unfold classifyMismatch
  rw [hb0, hz]
  simp only []
  by_cases h1 : b0 = 0
  · rw [if_pos h1]; simp
  rw [if_neg h1]
  by_cases h2 : z ≠ 0
  · rw [if_pos h2]; simp
  rw [if_neg h2]
  have hlen0 : len ≠ 0 := by
    intro h; subst h
    rw [hb0] at hz
    have : b0 = z := Option.some.inj hz
    simp only [ne_eq, Decidable.not_not] at h2
    exact h1 (this.trans h2)
  have := getTs_no_fault nn.nonce len hlen0 (by omega)
  cases hts : getNonceTimestamp nn.nonce len with
  | fault => exact (this hts).elim
  | invalid => simp
  | ts s =>
    simp only []
    split
    · simp
    · split <;> simp

def BufOk (tbl : Table) : Prop := ∀ (i : Nat) (nn : Slot), tbl[i]? = some nn → nn.nonce.length = nonceBufSize

theorem check_no_fault (tbl : Table) (n : Bytes) (t c : Nat) (hs : BufOk tbl) :
    (checkNonceNc tbl n t c).2 ≠ .fault := by
  unfold checkNonceNc
  by_cases h1 : maxNonceLen < n.length
  · rw [if_pos h1]; simp
  rw [if_neg h1]
  by_cases h2 : tbl.length = 0
  · rw [if_pos h2]; simp
  rw [if_neg h2]
  by_cases h3 : c ≥ ncGuard
  · rw [if_pos h3]; simp
  rw [if_neg h3]
  simp only []
  have hi : slotIdx tbl.length n < tbl.length := Nat.mod_lt _ (by omega)
  obtain ⟨nn, hnn⟩ := getElem?_some_of_lt tbl _ hi
  have hl := hs _ nn hnn
  rw [hnn]
  simp only []
  have hm : ∃ b, slotMatches nn n = some b := by
    unfold slotMatches
    obtain ⟨z, hz⟩ := getElem?_some_of_lt nn.nonce n.length (by simp only [nonceBufSize, maxNonceLen] at *; omega)
    rw [hz]; exact ⟨_, rfl⟩
  obtain ⟨b, hb⟩ := hm
  rw [hb]
  cases b with
  | false => exact classify_no_fault nn n.length t hl (by omega)
  | true =>
    simp only []
    split <;> simp

theorem avail_no_fault (nn : Slot) (ts : Nat) (n : Bytes) (hl : nn.nonce.length = nonceBufSize)
    (hn : n.length ≤ maxNonceLen) : isSlotAvailable nn ts n ≠ none := by
  simp only [nonceBufSize, maxNonceLen] at hl hn
  obtain ⟨b0, hb0⟩ := getElem?_some_of_lt nn.nonce 0 (by omega)
  obtain ⟨e, he⟩ := getElem?_some_of_lt nn.nonce (nonceBufSize - 1) (by simp only [nonceBufSize]; omega)
  unfold isSlotAvailable
  rw [hb0]
  simp only []
  by_cases h1 : b0 = 0
  · rw [if_pos h1]; simp
  rw [if_neg h1, if_neg (by omega)]
  by_cases h2 : nn.nonce.take n.length = n
  · rw [if_pos h2]; simp
  rw [if_neg h2]
  by_cases h3 : nn.nc ≠ 0
  · rw [if_pos h3]; simp
  rw [if_neg h3, he]
  simp only []
  by_cases h4 : e ≠ 0
  · rw [if_pos h4]; simp
  rw [if_neg h4]
  simp only [ne_eq, Decidable.not_not] at h4
  subst h4
  have := getTs0_no_fault nn.nonce _ he
  cases hts : getNonceTimestamp nn.nonce 0 with
  | fault => exact (this hts).elim
  | invalid => simp
  | ts s => simp

theorem add_no_fault (tbl : Table) (ts : Nat) (n : Bytes) (hs : BufOk tbl) (hn : n.length ≤ maxNonceLen) :
    (addNonce tbl ts n).2 ≠ .fault := by
  unfold addNonce
  by_cases h2 : tbl.length = 0
  · rw [if_pos h2]; simp
  rw [if_neg h2]
  simp only []
  have hi : slotIdx tbl.length n < tbl.length := Nat.mod_lt _ (by omega)
  obtain ⟨nn, hnn⟩ := getElem?_some_of_lt tbl _ hi
  have hl := hs _ nn hnn
  rw [hnn]
  simp only []
  have := avail_no_fault nn ts n hl hn
  cases ha : isSlotAvailable nn ts n with
  | none => exact (this ha).elim
  | some b =>
    cases b with
    | false => simp
    | true =>
      simp only []
      rw [if_neg (by simp only [nonceBufSize, maxNonceLen] at *; omega)]
      simp

theorem ofNc_fault (r : NcRes) : Out.ofNc r = .fault ↔ r = .fault := by cases r <;> simp [Out.ofNc]
theorem ofAdd_fault (r : AddRes) : Out.ofAdd r = .fault ↔ r = .fault := by cases r <;> simp [Out.ofAdd]

theorem present_no_fault (tbl : Table) (now tmo mx sl : Nat) (n : Bytes) (c : Nat) (hs : BufOk tbl)
    (hsl : sl = stdLenMd5 ∨ sl = stdLenSha) : (present tbl now tmo mx sl n c).2 ≠ .fault := by
  unfold present
  simp only []
  generalize (if mx = 0 then defMaxNc else mx) = mx'
  generalize (if tmo = 0 then defTimeout else tmo) = tmo'
  by_cases h1 : c = 0
  · rw [if_pos h1]; simp
  rw [if_neg h1]
  by_cases h2 : mx' ≠ 0 ∧ mx' < c
  · rw [if_pos h2]; simp
  rw [if_neg h2]
  by_cases h3 : sl ≠ n.length
  · rw [if_pos h3]; simp
  rw [if_neg h3]
  have hn0 : n.length ≠ 0 := by
    simp only [ne_eq, Decidable.not_not] at h3
    rw [← h3]; rcases hsl with h | h <;> rw [h] <;> simp [stdLenMd5, stdLenSha]
  have := getTs_no_fault n n.length hn0 (Nat.le_refl _)
  cases hts : getNonceTimestamp n n.length with
  | fault => exact (this hts).elim
  | invalid => simp
  | ts s =>
    simp only []
    split
    · simp
    · simp only [ne_eq, ofNc_fault]; exact check_no_fault tbl n s c hs

/-- no step of a well-formed operation reads outside a buffer -/
theorem step_no_fault (size : Nat) (tbl : Table) (h : List Ev) (o : Op) (hr : TblRel size tbl h) (ho : o.Wf) :
    (step tbl o).2 ≠ .fault := by
  have hs : BufOk tbl := fun i nn hnn => (hr.2.2 i nn hnn).2.2.1
  cases o with
  | add ts n => simp only [step, ne_eq, ofAdd_fault]; exact add_no_fault tbl ts n hs ho.2.2
  | check n t c => simp only [step, ne_eq, ofNc_fault]; exact check_no_fault tbl n t c hs
  | present now tmo mx sl n c => exact present_no_fault tbl now tmo mx sl n c hs ho


theorem runH_no_fault (size : Nat) (ops : List Op) : ∀ (tbl : Table) (h : List Ev), TblRel size tbl h →
    (∀ e ∈ h, e.out ≠ .fault) → (∀ o ∈ ops, o.Wf) → ∀ e ∈ (runH tbl h ops).2, e.out ≠ .fault := by
  induction ops with
  | nil => intro tbl h _ hh _; exact hh
  | cons o os ih =>
    intro tbl h hr hh hwf
    simp only [runH]
    refine ih _ _ (tblRel_step size tbl h o hr (hwf o (by simp))) ?_ (fun o' ho' => hwf o' (by simp [ho']))
    intro e he
    rcases List.mem_cons.mp he with rfl | he
    · exact step_no_fault size tbl h o hr (hwf o (by simp))
    · exact hh e he

/-! ### helpers for the history-level statements -/

/-- the slot of a nonce whose slot has a registered nonce exists -/
theorem slot_of_lastAdd (size : Nat) (tbl : Table) (h : List Ev) (i : Nat) (m : Bytes) (hr : TblRel size tbl h)
    (hla : lastAdd size h i = some m) :
    ∃ nn, tbl[i]? = some nn ∧ SlotRel nn (some m) (usedSince size h i) := by
  obtain ⟨hlen, hbound, hslots⟩ := hr
  have hi := hbound _ _ hla
  obtain ⟨nn, hnn⟩ := getElem?_some_of_lt tbl i (by omega)
  exact ⟨nn, hnn, hla ▸ hslots i nn hnn⟩

theorem slot_of_lt (size : Nat) (tbl : Table) (h : List Ev) (i : Nat) (hr : TblRel size tbl h) (hi : i < size) :
    ∃ nn, tbl[i]? = some nn ∧ SlotRel nn (lastAdd size h i) (usedSince size h i) := by
  obtain ⟨hlen, hbound, hslots⟩ := hr
  obtain ⟨nn, hnn⟩ := getElem?_some_of_lt tbl i (by omega)
  exact ⟨nn, hnn, hslots i nn hnn⟩

theorem check_mismatch (tbl : Table) (n : Bytes) (t c : Nat) (nn : Slot)
    (hl : n.length ≤ maxNonceLen) (hc : c < ncGuard) (hs : tbl[slotIdx tbl.length n]? = some nn)
    (hm : slotMatches nn n = some false) :
    checkNonceNc tbl n t c = (tbl, classifyMismatch nn n.length t) := by
  have hne : tbl.length ≠ 0 := by
    intro h0
    have : tbl = [] := List.eq_nil_of_length_eq_zero h0
    subst this; simp at hs
  unfold checkNonceNc
  rw [if_neg (by omega), if_neg hne, if_neg (by omega)]
  simp only [hs, hm]

theorem add_result (tbl : Table) (ts : Nat) (n : Bytes) (nn : Slot) (b : Bool)
    (hs : tbl[slotIdx tbl.length n]? = some nn) (hl : n.length + 1 ≤ nn.nonce.length)
    (ha : isSlotAvailable nn ts n = some b) :
    (addNonce tbl ts n).2 = (if b then .added else .refused) := by
  have hne : tbl.length ≠ 0 := by
    intro h0
    have : tbl = [] := List.eq_nil_of_length_eq_zero h0
    subst this; simp at hs
  unfold addNonce
  rw [if_neg hne]
  simp only [hs, ha]
  cases b with
  | false => simp
  | true => simp only []; rw [if_neg (by omega)]; simp

theorem take_ne_of_not_prefix (m rest n : Bytes) (hn : NoNul n) (hp : ¬ n <+: m) :
    (m ++ 0 :: rest).take n.length ≠ n := by
  intro h
  rcases Nat.lt_or_ge m.length n.length with hgt | hle
  · have h0 : n[m.length]? = some 0 := by
      rw [← h, List.getElem?_take, if_pos hgt]; simp
    rw [List.getElem?_eq_getElem hgt] at h0
    exact hn _ (List.getElem_mem hgt) (Option.some.inj h0)
  · apply hp
    rw [List.take_append_of_le_length hle] at h
    have e : n ++ m.drop n.length = m := by
      have := List.take_append_drop n.length m
      rw [h] at this; exact this
    exact ⟨m.drop n.length, e⟩

end Mhd.Nonce
