/-
  SPECIFICATION (hand-written, part of the trusted base of C04): a strict HTTP/1.x
  response grammar as an executable parser.  `WellFramed req bytes` holds when `bytes` is
  exactly one response message whose body delimitation is self-consistent for the request
  `req` (RFC 7230 §3, §3.3.3, §4.1).  Independent of the model: nothing of `Mhd.Model.*` is used.
  An independent Python twin lives in tools/props/C04.py (`parse_reply`).
-/
namespace Mhd.Http

abbrev Bytes := List UInt8

/-- what the grammar needs to know about the request -/
structure Req where
  /-- the request method is HEAD -/
  head : Bool
  /-- the client speaks HTTP/1.1 (or a later 1.x) -/
  http11 : Bool
deriving Repr, DecidableEq

structure Field where
  name : Bytes
  value : Bytes
deriving Repr, DecidableEq

inductive Framing where
  | none            -- no body allowed (HEAD, 1xx, 204, 304)
  | length (n : Nat)
  | chunked
  | close           -- delimited by closing the connection
deriving Repr, DecidableEq

structure Parsed where
  version : Bytes
  code : Nat
  reason : Bytes
  fields : List Field
  framing : Framing
  body : Bytes
  trailers : List Field
deriving Repr, DecidableEq

/-- one line up to CRLF; a bare CR or a bare LF is an error -/
def takeLine : Bytes → Option (Bytes × Bytes)
  | [] => none
  | b :: rest =>
    if b = 13 then
      (match rest with
       | c :: rest' => if c = 10 then some ([], rest') else none
       | [] => none)
    else if b = 10 then none
    else match takeLine rest with
      | some (l, r) => some (b :: l, r)
      | none => none

def isOWS (b : UInt8) : Bool := b = 32 || b = 9

/-- `field-name ":" OWS field-value`; the name is non-empty and contains no whitespace -/
def parseField (line : Bytes) : Option Field :=
  let name := line.takeWhile (fun b => b ≠ 58)
  match line.drop name.length with
  | [] => none
  | _ :: v => if name.isEmpty || name.any isOWS then none else some ⟨name, v.dropWhile isOWS⟩

/-- field lines up to the empty line -/
def parseFields : Nat → Bytes → Option (List Field × Bytes)
  | 0, _ => none
  | fuel + 1, bs =>
    match takeLine bs with
    | none => none
    | some (l, rest) =>
      if l.isEmpty then some ([], rest) else
      match parseField l, parseFields fuel rest with
      | some f, some (fs, r) => some (f :: fs, r)
      | _, _ => none

def isDigit (b : UInt8) : Bool := 48 ≤ b.toNat && b.toNat ≤ 57

def decValue (ds : Bytes) : Nat := ds.foldl (fun acc d => acc * 10 + (d.toNat - 48)) 0

/-- `1*DIGIT` -/
def parseDec (ds : Bytes) : Option Nat :=
  if ds.isEmpty || ! ds.all isDigit then none else some (decValue ds)

def hexDigitVal (b : UInt8) : Option Nat :=
  let n := b.toNat
  if 48 ≤ n && n ≤ 57 then some (n - 48)
  else if 65 ≤ n && n ≤ 70 then some (n - 55)
  else if 97 ≤ n && n ≤ 102 then some (n - 87)
  else none

/-- `1*HEXDIG` -/
def parseHex : Bytes → Option Nat
  | [] => none
  | ds => ds.foldl (fun acc d => match acc, hexDigitVal d with
                      | some a, some v => some (a * 16 + v)
                      | _, _ => none) (some 0)

def lower (b : UInt8) : UInt8 := if 65 ≤ b.toNat && b.toNat ≤ 90 then b + 32 else b

/-- case-insensitive comparison with a lower-case literal -/
def ciEq (s lit : Bytes) : Bool := s.map lower = lit

/-- "content-length" -/
def nContentLength : Bytes := [99, 111, 110, 116, 101, 110, 116, 45, 108, 101, 110, 103, 116, 104]
/-- "transfer-encoding" -/
def nTransferEncoding : Bytes := [116, 114, 97, 110, 115, 102, 101, 114, 45, 101, 110, 99, 111, 100, 105, 110, 103]
/-- "connection" -/
def nConnection : Bytes := [99, 111, 110, 110, 101, 99, 116, 105, 111, 110]
/-- "date" -/
def nDate : Bytes := [100, 97, 116, 101]
/-- "chunked" -/
def vChunked : Bytes := [99, 104, 117, 110, 107, 101, 100]
/-- "close" -/
def vClose : Bytes := [99, 108, 111, 115, 101]

/-- split a list at every comma -/
def splitComma : Bytes → List Bytes
  | [] => [[]]
  | b :: rest =>
    match splitComma rest with
    | [] => [[b]]            -- unreachable
    | t :: ts => if b = 44 then [] :: t :: ts else (b :: t) :: ts

def trimOWS (s : Bytes) : Bytes := ((s.dropWhile isOWS).reverse.dropWhile isOWS).reverse

/-- the comma separated list `value` has the token `lit` (lower-case literal) -/
def hasToken (value lit : Bytes) : Bool := (splitComma value).any fun t => ciEq (trimOWS t) lit

/-- the reply announces that the connection will be closed -/
def announcesClose (fields : List Field) : Bool :=
  fields.any fun f => ciEq f.name nConnection && hasToken f.value vClose

/-- "HTTP/1.0" | "HTTP/1.1" | "ICY" -/
def okVersion (v : Bytes) : Bool :=
  v = [72, 84, 84, 80, 47, 49, 46, 48] || v = [72, 84, 84, 80, 47, 49, 46, 49] || v = [73, 67, 89]

/-- `version SP 3DIGIT SP reason-phrase` with a non-empty reason phrase -/
def parseStatusLine (l : Bytes) : Option (Bytes × Nat × Bytes) :=
  let v := l.takeWhile (fun b => b ≠ 32)
  match l.drop v.length with
  | _ :: d1 :: d2 :: d3 :: sp :: reason =>
    if okVersion v && isDigit d1 && isDigit d2 && isDigit d3 && sp = 32 && ! reason.isEmpty && d1 ≠ 48 then
      some (v, decValue [d1, d2, d3], reason)
    else none
  | _ => none

/-- chunks up to and including the last-chunk line; returns the decoded body and the rest -/
def parseChunks : Nat → Bytes → Option (Bytes × Bytes)
  | 0, _ => none
  | fuel + 1, bs =>
    match takeLine bs with
    | none => none
    | some (l, rest) =>
      match parseHex l with
      | none => none
      | some 0 => some ([], rest)
      | some n =>
        if rest.length < n + 2 then none
        else if (rest.drop n).take 2 ≠ [13, 10] then none
        else match parseChunks fuel (rest.drop (n + 2)) with
          | some (b, r) => some (rest.take n ++ b, r)
          | none => none

/-- the four header names the server manages itself -/
def managedName (n : Bytes) : Bool :=
  ciEq n nConnection || ciEq n nTransferEncoding || ciEq n nContentLength || ciEq n nDate

def clsOf (fields : List Field) : List Field := fields.filter fun f => ciEq f.name nContentLength
def tesOf (fields : List Field) : List Field := fields.filter fun f => ciEq f.name nTransferEncoding
def connsOf (fields : List Field) : List Field := fields.filter fun f => ciEq f.name nConnection

/-- the framing rules of RFC 7230 §3.3.3 applied to a parsed head and the bytes that follow it;
    every byte must be accounted for -/
def frameReply (req : Req) (ver : Bytes) (code : Nat) (reason : Bytes) (fields : List Field) (bodyBytes : Bytes) :
    Option Parsed :=
  let cls := clsOf fields
  let tes := tesOf fields
  let conns := connsOf fields
  -- at most one of each framing header, never both, well-formed values
  if cls.length > 1 || tes.length > 1 || conns.length > 1 then none
  else if ! cls.isEmpty && ! tes.isEmpty then none
  else if ! (cls.all fun f => (parseDec f.value).isSome) then none
  else if ! (tes.all fun f => ciEq f.value vChunked) then none
  else if ! tes.isEmpty && ! req.http11 then none                 -- chunked only to HTTP/1.1 clients
  else
    let noBodyHdrs := code < 200 || code = 204
    let noBody := noBodyHdrs || req.head || code = 304
    if noBodyHdrs && (! cls.isEmpty || ! tes.isEmpty) then none    -- RFC 7230 §3.3.1, §3.3.2
    else if noBody then
      if bodyBytes.isEmpty then some ⟨ver, code, reason, fields, .none, [], []⟩ else none
    else if ! tes.isEmpty then
      match parseChunks (bodyBytes.length + 1) bodyBytes with
      | none => none
      | some (body, rest2) =>
        match parseFields (rest2.length + 1) rest2 with
        | some (trailers, []) => some ⟨ver, code, reason, fields, .chunked, body, trailers⟩
        | _ => none
    else match cls with
      | f :: _ =>
        (match parseDec f.value with
         | some n => if bodyBytes.length = n then some ⟨ver, code, reason, fields, .length n, bodyBytes, []⟩ else none
         | none => none)
      | [] =>
        if announcesClose fields then some ⟨ver, code, reason, fields, .close, bodyBytes, []⟩ else none

/-- parse exactly one response -/
def parseReply (req : Req) (bs : Bytes) : Option Parsed :=
  match takeLine bs with
  | none => none
  | some (sl, rest) =>
    match parseStatusLine sl with
    | none => none
    | some (ver, code, reason) =>
      match parseFields (rest.length + 1) rest with
      | none => none
      | some (fields, bodyBytes) => frameReply req ver code reason fields bodyBytes

/-- `bytes` is one well-formed, self-consistently framed response to `req` -/
def WellFramed (req : Req) (bytes : Bytes) : Prop := (parseReply req bytes).isSome = true

instance (req : Req) (bytes : Bytes) : Decidable (WellFramed req bytes) := by
  unfold WellFramed; infer_instance

end Mhd.Http
