/-
  C17 reference specifications: short recursive functions on byte lists that
  say what each codec *means*.  They are independent of the model (no indices,
  no buffers, no loops) and are cross-checked by the Python references of
  tools/props/C17.py on every run.  Each comes with its unfolding lemmas and
  the specification-level round-trip facts.
-/
import Mhd.Proofs.StrBase

namespace Mhd.Str

/-! ### percent-decoding (RFC 3986 section 2.1) -/

/-- strict: every '%' must be followed by two hexadecimal digits -/
def pctStrict : Bytes → Option Bytes
  | [] => some []
  | c :: t =>
    if c = 0x25 then
      match t with
      | a :: b :: rest =>
        match xval a, xval b with
        | some h, some l => (pctStrict rest).map (UInt8.ofNat (h * 16 + l) :: ·)
        | _, _ => none
      | _ => none
    else (pctStrict t).map (c :: ·)

/-- lenient: a '%' not followed by two hexadecimal digits is copied as is
    (and only that '%': the following characters are decoded normally);
    the flag says whether that happened -/
def pctLenient : Bytes → Bytes × Bool
  | [] => ([], false)
  | c :: t =>
    if c = 0x25 then
      match t with
      | a :: b :: rest =>
        match xval a, xval b with
        | some h, some l => (UInt8.ofNat (h * 16 + l) :: (pctLenient rest).1, (pctLenient rest).2)
        | _, _ => (c :: (pctLenient (a :: b :: rest)).1, true)
      | [x] => (c :: (pctLenient [x]).1, true)
      | [] => ([c], true)
    else (c :: (pctLenient t).1, (pctLenient t).2)

theorem pctStrict_nil : pctStrict [] = some [] := by rw [pctStrict.eq_def]

theorem pctStrict_cons_ne (c : UInt8) (t : Bytes) (h : c ≠ 0x25) :
    pctStrict (c :: t) = (pctStrict t).map (c :: ·) := by
  rw [pctStrict.eq_def]; simp [h]

theorem pctStrict_pct (a b : UInt8) (rest : Bytes) :
    pctStrict (0x25 :: a :: b :: rest) =
      match xval a, xval b with
      | some h, some l => (pctStrict rest).map (UInt8.ofNat (h * 16 + l) :: ·)
      | _, _ => none := by
  rw [pctStrict.eq_def]; simp

theorem pctStrict_pct_short (t : Bytes) (h : t.length < 2) : pctStrict (0x25 :: t) = none := by
  rw [pctStrict.eq_def]
  match t, h with
  | [], _ => simp
  | [_], _ => simp

theorem pctStrict_cons_pos (c : UInt8) (t d : Bytes) (h : pctStrict (c :: t) = some d) : 0 < d.length := by
  by_cases hc : c = 0x25
  · subst hc
    match t with
    | [] => simp [pctStrict_pct_short] at h
    | [_] => simp [pctStrict_pct_short] at h
    | a :: b :: rest =>
      rw [pctStrict_pct] at h
      split at h
      · simp only [Option.map_eq_some_iff] at h
        obtain ⟨d', _, rfl⟩ := h; simp
      · simp at h
  · rw [pctStrict_cons_ne _ _ hc] at h
    simp only [Option.map_eq_some_iff] at h
    obtain ⟨d', _, rfl⟩ := h; simp

theorem pctLenient_nil : pctLenient [] = ([], false) := by rw [pctLenient.eq_def]

theorem pctLenient_cons_ne (c : UInt8) (t : Bytes) (h : c ≠ 0x25) :
    pctLenient (c :: t) = (c :: (pctLenient t).1, (pctLenient t).2) := by
  rw [pctLenient.eq_def]; simp [h]

theorem pctLenient_pct_ok (a b : UInt8) (rest : Bytes) (h l : Nat) (ha : xval a = some h) (hb : xval b = some l) :
    pctLenient (0x25 :: a :: b :: rest) = (UInt8.ofNat (h * 16 + l) :: (pctLenient rest).1, (pctLenient rest).2) := by
  rw [pctLenient.eq_def]; simp [ha, hb]

theorem pctLenient_pct_bad (a b : UInt8) (rest : Bytes) (h : xval a = none ∨ xval b = none) :
    pctLenient (0x25 :: a :: b :: rest) = (0x25 :: (pctLenient (a :: b :: rest)).1, true) := by
  rw [pctLenient.eq_def]
  rcases h with h | h
  · simp [h]
  · cases ha : xval a <;> simp [h]

theorem pctLenient_pct_short (t : Bytes) (h : t.length < 2) :
    pctLenient (0x25 :: t) = (0x25 :: (pctLenient t).1, true) := by
  rw [pctLenient.eq_def]
  match t, h with
  | [], _ => simp [pctLenient_nil]
  | [_], _ => simp

theorem pctLenient_cons_pos (c : UInt8) (t : Bytes) : 0 < (pctLenient (c :: t)).1.length := by
  rw [pctLenient.eq_def]
  simp only
  split
  · split
    · split <;> simp
    · simp
    · simp
  · simp

/-- on inputs without broken sequences the two decoders agree -/
theorem pctLenient_of_strict (s d : Bytes) (h : pctStrict s = some d) : pctLenient s = (d, false) := by
  induction s using pctStrict.induct generalizing d with
  | case1 => rw [pctStrict_nil] at h; injection h with h; subst h; exact pctLenient_nil
  | case2 a b rest hh l hb ha ih =>
    rw [pctStrict_pct, ha, hb] at h
    simp only [Option.map_eq_some_iff] at h
    obtain ⟨d', hd', rfl⟩ := h
    rw [pctLenient_pct_ok a b rest hh l ha hb, ih d' hd']
  | case3 a b rest hx =>
    rw [pctStrict_pct] at h
    split at h
    · rename_i h1 l1 ha hb; exact (hx _ _ ha hb).elim
    · simp at h
  | case4 t ht =>
    have : t.length < 2 := by
      match t, ht with
      | [], _ => simp
      | [_], _ => simp
      | a :: b :: r, ht => exact absurd rfl (ht a b r)
    rw [pctStrict_pct_short t this] at h; simp at h
  | case5 c t hc ih =>
    rw [pctStrict_cons_ne c t hc] at h
    simp only [Option.map_eq_some_iff] at h
    obtain ⟨d', hd', rfl⟩ := h
    rw [pctLenient_cons_ne c t hc, ih d' hd']

/-! ### quoted strings (RFC 7230 section 3.2.6) -/

def quoteSpec : Bytes → Bytes
  | [] => []
  | c :: t => if c = 0x5c ∨ c = 0x22 then 0x5c :: c :: quoteSpec t else c :: quoteSpec t

/-- a backslash makes the next character literal; a trailing lone backslash is an error -/
def unquoteSpec : Bytes → Option Bytes
  | [] => some []
  | c :: t =>
    if c = 0x5c then
      match t with
      | x :: rest => (unquoteSpec rest).map (x :: ·)
      | [] => none
    else (unquoteSpec t).map (c :: ·)

theorem unquoteSpec_nil : unquoteSpec [] = some [] := by rw [unquoteSpec.eq_def]

theorem unquoteSpec_cons_ne (c : UInt8) (t : Bytes) (h : c ≠ 0x5c) :
    unquoteSpec (c :: t) = (unquoteSpec t).map (c :: ·) := by
  rw [unquoteSpec.eq_def]; simp [h]

theorem unquoteSpec_bs (x : UInt8) (rest : Bytes) :
    unquoteSpec (0x5c :: x :: rest) = (unquoteSpec rest).map (x :: ·) := by
  rw [unquoteSpec.eq_def]; simp

theorem unquoteSpec_bs_end : unquoteSpec [0x5c] = none := by
  rw [unquoteSpec.eq_def]; simp

/-- unquoting undoes quoting -/
theorem unquote_quote (s : Bytes) : unquoteSpec (quoteSpec s) = some s := by
  induction s with
  | nil => simp [quoteSpec, unquoteSpec_nil]
  | cons c t ih =>
    by_cases h : c = 0x5c ∨ c = 0x22
    · simp only [quoteSpec, h, if_true]
      rw [unquoteSpec_bs, ih]; simp
    · simp only [quoteSpec, h, if_false]
      rw [unquoteSpec_cons_ne c _ (by intro hc; exact h (Or.inl hc)), ih]; simp

theorem quoteSpec_length_le (s : Bytes) : s.length ≤ (quoteSpec s).length ∧ (quoteSpec s).length ≤ 2 * s.length := by
  induction s with
  | nil => simp [quoteSpec]
  | cons c t ih =>
    by_cases h : c = 0x5c ∨ c = 0x22 <;> simp [quoteSpec, h] <;> omega

theorem unquoteSpec_length_le (q u : Bytes) (h : unquoteSpec q = some u) : u.length ≤ q.length ∧ q.length ≤ 2 * u.length := by
  induction q using unquoteSpec.induct generalizing u with
  | case1 => rw [unquoteSpec_nil] at h; injection h with h; subst h; simp
  | case2 x rest ih =>
    rw [unquoteSpec_bs] at h
    simp only [Option.map_eq_some_iff] at h
    obtain ⟨u', hu', rfl⟩ := h
    have := ih u' hu'; simp; omega
  | case3 => rw [unquoteSpec_bs_end] at h; simp at h
  | case4 c t hc ih =>
    rw [unquoteSpec_cons_ne c t hc] at h
    simp only [Option.map_eq_some_iff] at h
    obtain ⟨u', hu', rfl⟩ := h
    have := ih u' hu'; simp; omega

end Mhd.Str
