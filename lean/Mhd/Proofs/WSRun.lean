/-
  C19 helper lemmas, part 8: composition of payload copy / buffer writes over concatenation,
  and the flat big-step view `Run` of a decoding session (used for split independence).
-/
import Mhd.Proofs.WSErr2
namespace Mhd.WS

theorem xorMask_append (m : List UInt8) (off : Nat) (a b : List UInt8) :
    xorMask m off (a ++ b) = xorMask m off a ++ xorMask m (off + a.length) b := by
  unfold xorMask
  rw [List.mapIdx_append]
  congr 1
  congr 1
  funext i x
  have : i + a.length + off = i + (off + a.length) := by omega
  rw [this]

theorem xorMask_mod (m : List UInt8) (off : Nat) (a : List UInt8) : xorMask m (off % 4) a = xorMask m off a := by
  unfold xorMask
  congr 1
  funext i x
  have : (i + off % 4) % 4 = (i + off) % 4 := by omega
  rw [this]

theorem copyPayload_append (m : List UInt8) (off : Nat) (a b : List UInt8) :
    copyPayload (a ++ b) m (off % 4) = copyPayload a m (off % 4) ++ copyPayload b m ((off + a.length) % 4) := by
  unfold copyPayload
  split
  · rfl
  · rw [xorMask_mod, xorMask_mod, xorMask_mod, xorMask_append]

theorem writeAt_append (buf : List UInt8) (off : Nat) (x y r1 : List UInt8) (h1 : writeAt buf off x = some r1) :
    writeAt buf off (x ++ y) = writeAt r1 (off + x.length) y := by
  have hl := writeAt_length _ _ _ _ h1
  unfold writeAt at h1 ⊢
  split at h1
  · rename_i hle
    injection h1 with h1
    subst h1
    simp only [List.length_append] at hl ⊢
    by_cases hc : off + (x.length + y.length) ≤ buf.length
    · rw [if_pos hc, if_pos (by simp only [List.length_take, List.length_drop]; omega)]
      congr 1
      have e1 : (buf.take off ++ x ++ buf.drop (off + x.length)).take (off + x.length) = buf.take off ++ x := by
        rw [List.take_append_of_le_length (by simp only [List.length_append, List.length_take]; omega)]
        rw [List.take_of_length_le (by simp only [List.length_append, List.length_take]; omega)]
      have e2 : (buf.take off ++ x ++ buf.drop (off + x.length)).drop (off + x.length + y.length) =
          buf.drop (off + (x.length + y.length)) := by
        have hl1 : (buf.take off ++ x).length = off + x.length := by
          simp only [List.length_append, List.length_take]; omega
        rw [List.drop_append, List.drop_of_length_le (by omega), hl1, List.nil_append, List.drop_drop]
        congr 1; omega
      rw [e1, e2]; simp [List.append_assoc]
    · rw [if_neg hc, if_neg (by simp only [List.length_take, List.length_drop]; omega)]
  · exact absurd h1 (by simp)

end Mhd.WS
namespace Mhd.WS

/-! ### the flat view of a session: loop trips, silent trips at the end of the input -/

/-- what the application sees of one frame or error: status, returned allocation, length -/
abbrev Ev := Int × Option (List UInt8) × Nat

inductive Out where
  | more (ws : WS)      -- all input consumed, the stream can take more
  | stop                -- a negative status ended the session

def evOf (st : Int) (pl : Option (List UInt8)) (plen : Nat) : List Ev := if st = 0 then [] else [(st, pl, plen)]

/-- the trips that need no input, as performed after the `while` loop -/
def Settle (ws : WS) (E : List Ev) (out : Out) : Prop :=
  ∃ ws' st c pl plen, tail false ws 0 = .ret ws' st c pl plen ∧ E = evOf st pl plen ∧
    out = (if st < 0 then .stop else .more ws')

/-- big-step run of the decoder over `rest`, ignoring where one `MHD_websocket_decode` call
    ends and the next begins -/
inductive Run : WS → List UInt8 → List Ev → Out → Prop
  | done (ws : WS) (E : List Ev) (out : Out) : Settle ws E out → Run ws [] E out
  | cont (ws : WS) (rest : List UInt8) (ws' : WS) (k : Nat) (E : List Ev) (out : Out) :
      rest ≠ [] → iter false ws rest = .cont ws' k → Run ws' (rest.drop k) E out → Run ws rest E out
  | emit (ws : WS) (rest : List UInt8) (ws' : WS) (st : Int) (k : Nat) (pl : Option (List UInt8)) (plen : Nat)
      (E : List Ev) (out : Out) :
      rest ≠ [] → iter false ws rest = .ret ws' st k pl plen → 0 ≤ st → Run ws' (rest.drop k) E out →
      Run ws rest (evOf st pl plen ++ E) out
  | err (ws : WS) (rest : List UInt8) (ws' : WS) (st : Int) (k : Nat) (pl : Option (List UInt8)) (plen : Nat) :
      rest ≠ [] → iter false ws rest = .ret ws' st k pl plen → st < 0 → Run ws rest [(st, pl, plen)] .stop

theorem Settle.det {ws : WS} {E E' : List Ev} {o o' : Out} (h : Settle ws E o) (h' : Settle ws E' o') :
    E = E' ∧ o = o' := by
  obtain ⟨w1, s1, c1, p1, l1, e1, rfl, rfl⟩ := h
  obtain ⟨w2, s2, c2, p2, l2, e2, rfl, rfl⟩ := h'
  rw [e1] at e2
  injection e2 with a b c d e
  subst a b d e
  exact ⟨rfl, rfl⟩

theorem Run.det {ws : WS} {rest : List UInt8} {E E' : List Ev} {o o' : Out} (h : Run ws rest E o)
    (h' : Run ws rest E' o') : E = E' ∧ o = o' := by
  induction h generalizing E' o' with
  | done ws E out hs =>
    cases h' with
    | done _ _ _ hs' => exact hs.det hs'
    | cont _ _ _ _ _ _ hne => exact absurd rfl hne
    | emit _ _ _ _ _ _ _ _ _ hne => exact absurd rfl hne
    | err _ _ _ _ _ _ _ hne => exact absurd rfl hne
  | cont ws rest ws' k E out hne hi _ ih =>
    cases h' with
    | done _ _ _ _ => exact absurd rfl hne
    | cont _ _ ws2 k2 _ _ _ hi2 hr2 =>
      rw [hi] at hi2; injection hi2 with a b; subst a b; exact ih hr2
    | emit _ _ _ _ _ _ _ _ _ _ hi2 => rw [hi] at hi2; exact absurd hi2 (by simp)
    | err _ _ _ _ _ _ _ _ hi2 => rw [hi] at hi2; exact absurd hi2 (by simp)
  | emit ws rest ws' st k pl plen E out hne hi h0 _ ih =>
    cases h' with
    | done _ _ _ _ => exact absurd rfl hne
    | cont _ _ _ _ _ _ _ hi2 => rw [hi] at hi2; exact absurd hi2 (by simp)
    | emit _ _ _ _ _ _ _ _ _ _ hi2 _ hr2 =>
      rw [hi] at hi2; injection hi2 with a b c d e; subst a b c d e
      obtain ⟨e1, e2⟩ := ih hr2
      exact ⟨by rw [e1], e2⟩
    | err _ _ _ _ _ _ _ _ hi2 hneg =>
      rw [hi] at hi2; injection hi2 with a b c d e; subst a b c d e; omega
  | err ws rest ws' st k pl plen hne hi hneg =>
    cases h' with
    | done _ _ _ _ => exact absurd rfl hne
    | cont _ _ _ _ _ _ _ hi2 => rw [hi] at hi2; exact absurd hi2 (by simp)
    | emit _ _ _ _ _ _ _ _ _ _ hi2 h0 =>
      rw [hi] at hi2; injection hi2 with a b c d e; subst a b c d e; omega
    | err _ _ _ _ _ _ _ _ hi2 _ =>
      rw [hi] at hi2; injection hi2 with a b c d e; subst a b c d e; exact ⟨rfl, rfl⟩

end Mhd.WS
