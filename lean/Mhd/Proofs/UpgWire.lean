/-
  C20: the reply built last before a hand-over is the 101 head of the accepted upgrade response
  (invariant `WI`), lifted to all histories of the daemon model.
-/
import Mhd.Proofs.UpgHead
namespace Mhd.Upg

/-! ### the last reply built before a hand-over is the 101 head of the accepted response -/

/-- response ids of the `upgrade` events of a log -/
def upgRids : List Ev → List Nat
  | [] => []
  | .upgrade rid _ :: l => rid :: upgRids l
  | _ :: l => upgRids l

theorem upgRids_append (a b : List Ev) : upgRids (a ++ b) = upgRids a ++ upgRids b := by
  induction a with
  | nil => rfl
  | cons e a ih => cases e <;> simp [upgRids, ih]

theorem upgRids_nil_of_noUpg : ∀ (l : List Ev), hasUpg l = false → upgRids l = [] := by
  intro l
  induction l with
  | nil => intro _; rfl
  | cons e l ih =>
    intro h
    simp only [hasUpg_cons, Bool.or_eq_false_iff] at h
    cases e <;> simp_all [upgRids, Ev.isUpgrade]

structure WI (cfg : Cfg) (x : Conn) : Prop where
  d : x.st = .sending → ∀ rid, x.rp = some rid → ∃ pre, x.outq = pre ++ [replyBytes cfg rid]
  c : ∀ rid, rid ∈ upgRids x.log → ∃ pre, x.outq = pre ++ [head101 cfg (cfg.resp rid)]

theorem wi_init (cfg) : WI cfg {} := ⟨(by intro h; cases h), (by intro rid h; simp [upgRids] at h)⟩

/-- nothing relevant for `WI` changes -/
def Keep (x y : Conn) : Prop :=
  y.outq = x.outq ∧ upgRids y.log = upgRids x.log ∧ (y.st = .sending → x.st = .sending ∧ y.rp = x.rp)

theorem Keep.refl (x : Conn) : Keep x x := ⟨rfl, rfl, fun h => ⟨h, rfl⟩⟩
theorem Keep.trans {x y z : Conn} (a : Keep x y) (b : Keep y z) : Keep x z :=
  ⟨b.1.trans a.1, b.2.1.trans a.2.1, fun h => ⟨(a.2.2 (b.2.2 h).1).1, (b.2.2 h).2.trans (a.2.2 (b.2.2 h).1).2⟩⟩

theorem wi_keep {cfg} {x y : Conn} (h : WI cfg x) (k : Keep x y) : WI cfg y := by
  refine ⟨?_, ?_⟩
  · intro hs rid hr
    obtain ⟨h1, h2⟩ := k.2.2 hs
    rw [k.1]; exact h.d h1 rid (by rw [← h2]; exact hr)
  · intro rid hr
    rw [k.1]; exact h.c rid (by rw [← k.2.1]; exact hr)

theorem keep_emit (x : Conn) {e : Ev} (he : e.isUpgrade = false) : Keep x (x.emit e) := by
  refine ⟨rfl, ?_, fun h => ⟨h, rfl⟩⟩
  show upgRids (x.log ++ [e]) = _
  rw [upgRids_append]
  cases e <;> simp_all [upgRids, Ev.isUpgrade]

theorem keep_notifyCompleted (x : Conn) (c : Nat) : Keep x (notifyCompleted x c) := by
  unfold notifyCompleted; split
  · refine ⟨rfl, ?_, fun h => ⟨h, rfl⟩⟩
    show upgRids (x.log ++ [_]) = _
    rw [upgRids_append]; simp [upgRids]
  · exact Keep.refl x

theorem keep_closeConn (x : Conn) (c : Nat) : Keep x (closeConn x c) := by
  have a := (keep_emit x (e := .ioShutdown) rfl).trans (keep_notifyCompleted _ c)
  exact ⟨a.1, a.2.1, fun h => by cases h⟩

theorem keep_queueResponse (cfg sh) (x : Conn) (rid : Nat) : Keep x (queueResponse cfg sh x rid).1 := by
  unfold queueResponse; split
  · exact Keep.refl x
  · exact ⟨rfl, rfl, fun h => by cases h⟩

theorem keep_tryQueue (cfg sh) (l : List Nat) : ∀ (x : Conn), Keep x (tryQueue cfg sh x l) := by
  induction l with
  | nil => intro x; exact Keep.refl x
  | cons rid rest ih =>
    intro x; simp only [tryQueue]
    have a := keep_queueResponse cfg sh x rid
    split
    · exact a.trans (keep_emit _ rfl)
    · exact (a.trans (keep_emit _ rfl)).trans (ih _)

theorem keep_handlerEntered (x : Conn) (f : Bool) : Keep x (handlerEntered x f) := by
  refine ⟨rfl, ?_, fun h => ⟨h, rfl⟩⟩
  show upgRids (x.log ++ [_]) = _
  rw [upgRids_append]; simp [upgRids]

theorem keep_handleRead (x : Conn) (n : Nat) : Keep x (handleRead x n) := by
  unfold handleRead; split
  · have a := keep_emit x (e := .ioRecv (min n x.sockIn.length)) rfl
    exact ⟨a.1, a.2.1, a.2.2⟩
  · exact Keep.refl x

theorem keep_handleWrite (x : Conn) (n : Nat) : Keep x (handleWrite x n) := by
  unfold handleWrite; split
  · have a := keep_emit x (e := .ioSend (x.wbuf.take (min n x.wbuf.length))) rfl
    exact ⟨a.1, a.2.1, a.2.2⟩
  · exact Keep.refl x

theorem keep_finishOrdinary (x : Conn) : Keep x (finishOrdinary x) := by
  have a := keep_notifyCompleted x Mhd.Gen.Upg.termOk
  unfold finishOrdinary; split
  · exact ⟨a.1, a.2.1, fun h => by cases h⟩
  · have b := keep_closeConn (replyDone x) Mhd.Gen.Upg.termOk
    exact ⟨b.1.trans a.1, b.2.1.trans a.2.1, fun h => by cases h⟩

theorem keep_upgradeActionClose (x : Conn) : Keep x (upgradeActionClose x).1 := by
  unfold upgradeActionClose; split
  · exact keep_emit x rfl
  · split
    · exact keep_emit x rfl
    · have a := keep_emit (markAppClosed x) (e := .upClose true) rfl
      exact ⟨a.1, a.2.1, a.2.2⟩

theorem keep_resumeOne (x : Conn) : Keep x (resumeOne x) := by
  unfold resumeOne; split
  · split
    · exact ⟨rfl, rfl, fun h => ⟨h, rfl⟩⟩
    · split
      · have a := keep_notifyCompleted x Mhd.Gen.Upg.termOk
        exact ⟨a.1, a.2.1, fun h => a.2.2 (by simpa using h)⟩
      · exact Keep.refl x
  · exact Keep.refl x

theorem keep_newToActive (x : Conn) : Keep x (newToActive x) := by
  unfold newToActive; split
  · have a := keep_emit x (e := .start) rfl
    exact ⟨a.1, a.2.1, a.2.2⟩
  · exact Keep.refl x

theorem keep_cleanupOne (x : Conn) : Keep x (cleanupOne x) := by
  unfold cleanupOne; split
  · simp only
    split
    · refine ⟨rfl, ?_, fun h => ⟨h, rfl⟩⟩
      show upgRids (x.log ++ [Ev.connClose] ++ [Ev.sockClose]) = _
      rw [upgRids_append, upgRids_append]; simp [upgRids]
    · refine ⟨rfl, ?_, fun h => ⟨h, rfl⟩⟩
      show upgRids (x.log ++ [Ev.connClose]) = _
      rw [upgRids_append]; simp [upgRids]
  · exact Keep.refl x

/-- START_REPLY appends the reply of the queued response -/
theorem wi_startReply {cfg x} (h : WI cfg x) (hl : LogI x) (ha : x.loc = .active) (_hs : x.st ≠ .sending) :
    WI cfg (startReply cfg x) := by
  unfold startReply
  split
  · exact h
  · rename_i rid hr
    refine ⟨?_, ?_⟩
    · intro _ rid' hr'
      have : rid' = rid := by
        have : some rid' = some rid := by rw [← hr', ← hr]
        exact (Option.some.inj this)
      subst this
      exact ⟨x.outq, rfl⟩
    · intro rid' hm
      have := upgRids_nil_of_noUpg _ (hl.active_noUpg (Or.inl ha))
      rw [show (upgRids x.log) = [] from this] at hm
      cases hm

theorem tryQueue_st_ne_sending (cfg sh) (l : List Nat) : ∀ (x : Conn), x.st ≠ .sending → (tryQueue cfg sh x l).st ≠ .sending := by
  induction l with
  | nil => intro x h; exact h
  | cons rid rest ih =>
    intro x h
    simp only [tryQueue]
    have hq : (queueResponse cfg sh x rid).1.st ≠ .sending := by
      unfold queueResponse; split
      · exact h
      · simp
    split
    · exact hq
    · exact ih _ hq

theorem wi_replyCall {cfg x} (h : WI cfg x) (hl : LogI x) (ha : x.loc = .active) (hs : x.st ≠ .sending) (sh f : Bool) :
    WI cfg (replyCall cfg sh x f) := by
  unfold replyCall; simp only
  have k := (keep_handlerEntered x f).trans (keep_tryQueue cfg sh (cfg.beh x.reqNo).tries (handlerEntered x f))
  have h1 := wi_keep h k
  split
  · exact wi_keep h1 (keep_closeConn _ _)
  · exact wi_startReply h1 (logI_tryQueue cfg sh _ (logI_handlerEntered hl f)) (by simp [ha])
      (tryQueue_st_ne_sending cfg sh _ _ (by simpa [handlerEntered] using hs))

theorem wi_handlerCalls {cfg x} (h : WI cfg x) (hl : LogI x) (ha : x.loc = .active) (hs : x.st ≠ .sending) (sh : Bool) :
    WI cfg (handlerCalls cfg sh x) := by
  unfold handlerCalls; split
  · exact wi_replyCall h hl ha hs sh false
  · have k : Keep x (firstCallOnly x) := by
      have a := keep_handlerEntered x false
      exact ⟨a.1, a.2.1, fun h => by cases h⟩
    exact wi_replyCall (wi_keep h k) (logI_firstCallOnly hl) (by simp [ha]) (by simp [firstCallOnly]) sh true

theorem wi_tryRequest {cfg x} (h : WI cfg x) (hl : LogI x) (sh : Bool) : WI cfg (tryRequest cfg sh x) := by
  unfold tryRequest; split
  · rename_i hg
    split
    · exact h
    · rename_i hd _
      have k : Keep x (consumeHead x hd) := ⟨rfl, rfl, fun h => by cases h⟩
      exact wi_handlerCalls (wi_keep h k) (logI_consumeHead hl hg.1 hd) (by simp [hg.1]) (by simp [consumeHead]) sh
  · exact h

/-- the hand-over: the reply that was just sent completely is the 101 head of `rid` -/
theorem wi_executeUpgrade {cfg x} (h : WI cfg x) (hl : LogI x) (ha : x.loc = .active) (hs : x.st = .sending)
    (rid : Nat) (hr : x.rp = some rid) (hu : (cfg.resp rid).upgrade = true) :
    WI cfg (executeUpgrade cfg x rid).1 := by
  obtain ⟨pre, hpre⟩ := h.d hs rid hr
  have hb : replyBytes cfg rid = head101 cfg (cfg.resp rid) := by simp [replyBytes, hu]
  have hno := upgRids_nil_of_noUpg _ (hl.active_noUpg (Or.inl ha))
  have y0 : (handOver (internalSuspend (takeExtra x)) rid x.rbuf).outq = x.outq := by
    unfold internalSuspend; split <;> rfl
  have y1 : upgRids (handOver (internalSuspend (takeExtra x)) rid x.rbuf).log = [rid] := by
    have : (handOver (internalSuspend (takeExtra x)) rid x.rbuf).log = x.log ++ [.upgrade rid x.rbuf] := by
      unfold internalSuspend; split <;> rfl
    rw [this, upgRids_append, hno]; rfl
  have y2 : (handOver (internalSuspend (takeExtra x)) rid x.rbuf).st = .upgrade := by
    unfold internalSuspend; split <;> rfl
  have hy : WI cfg (handOver (internalSuspend (takeExtra x)) rid x.rbuf) := by
    refine ⟨(by intro h; rw [y2] at h; cases h), ?_⟩
    intro rid' hm
    rw [y1] at hm
    have : rid' = rid := by simpa using hm
    subst this
    exact ⟨pre, by rw [y0, hpre, hb]⟩
  unfold executeUpgrade; simp only
  split
  · have k := keep_upgradeActionClose (handOver (internalSuspend (takeExtra x)) rid x.rbuf)
    have hz := wi_keep hy k
    refine ⟨?_, hz.c⟩
    intro h
    have := (k.2.2 (by simpa using h)).1
    rw [y2] at this; cases this
  · refine ⟨?_, hy.c⟩
    intro h
    have h' : (handOver (internalSuspend (takeExtra x)) rid x.rbuf).st = .sending := h
    rw [y2] at h'; cases h' 

theorem wi_afterSend {cfg x} (h : WI cfg x) (hl : LogI x) : WI cfg (afterSend cfg x).1 := by
  unfold afterSend; split
  · rename_i hg
    split
    · exact h
    · rename_i rid hr
      split
      · rename_i hu
        exact wi_executeUpgrade h hl hg.1 hg.2.1 rid hr hu
      · exact wi_keep h (keep_finishOrdinary x)
  · exact h


/-- `CI` and `WI` together, for the composite steps -/
structure CW (cfg : Cfg) (x : Conn) : Prop where
  ci : CI cfg x
  wi : WI cfg x

theorem cw_idle {cfg x} (h : CW cfg x) (sh : Bool) : CW cfg (idle cfg sh x).1 := by
  refine ⟨ci_idle h.ci sh, ?_⟩
  unfold idle
  exact wi_tryRequest (wi_afterSend h.wi h.ci.logi) (logI_afterSend h.ci.life h.ci.logi) sh

theorem cw_idleP {cfg} {p : CB} (h : CW cfg p.1) (sh : Bool) : CW cfg (idleP cfg sh p).1 := cw_idle h sh

theorem cw_handleRead {cfg x} (h : CW cfg x) (n : Nat) : CW cfg (handleRead x n) :=
  ⟨ci_handleRead h.ci n, wi_keep h.wi (keep_handleRead x n)⟩
theorem cw_handleWrite {cfg x} (h : CW cfg x) (n : Nat) : CW cfg (handleWrite x n) :=
  ⟨ci_handleWrite h.ci n, wi_keep h.wi (keep_handleWrite x n)⟩

theorem cw_rdStage {cfg} {p : CB} (h : CW cfg p.1) (sh : Bool) (a : IoAct) : CW cfg (rdStage cfg sh a p).1 := by
  unfold rdStage
  split
  · exact cw_idleP (p := (handleRead p.1 a.rdMax, p.2)) (cw_handleRead h _) sh
  · exact h

theorem cw_wrStage {cfg} {p : CB} (h : CW cfg p.1) (sh : Bool) (a : IoAct) : CW cfg (wrStage cfg sh a p).1 := by
  unfold wrStage
  split
  · exact cw_idleP (p := (handleWrite p.1 a.wrMax, p.2)) (cw_handleWrite h _) sh
  · exact h

theorem cw_callHandlers {cfg x} (h : CW cfg x) (sh : Bool) (a : IoAct) : CW cfg (callHandlers cfg sh x a).1 := by
  unfold callHandlers
  split
  · exact h
  · have h2 := cw_wrStage (cw_rdStage (p := (x, false)) h sh a) sh a
    simp only
    split
    · exact cw_idleP h2 sh
    · split
      · exact cw_idleP (p := (handleWrite _ a.wrMax, _)) (cw_handleWrite h2 _) sh
      · exact h2

theorem cw_roundConn {cfg x} (h : CW cfg x) (sh scan : Bool) (a : Option IoAct) :
    CW cfg (roundConn cfg sh scan a x).1 := by
  unfold roundConn
  have h1 : CW cfg (if scan = true then resumeOne x else x) := by
    split
    · exact ⟨⟨life_resumeOne h.ci.life, logI_resumeOne h.ci.life h.ci.logi⟩, wi_keep h.wi (keep_resumeOne x)⟩
    · exact h
  have h2 : CW cfg (newToActive (if scan = true then resumeOne x else x)) :=
    ⟨⟨life_newToActive h1.ci.life, logI_newToActive h1.ci.life h1.ci.logi⟩, wi_keep h1.wi (keep_newToActive _)⟩
  simp only
  split
  · have h3 := cw_callHandlers h2 sh (by assumption)
    exact ⟨ci_cleanupOne h3.ci, wi_keep h3.wi (keep_cleanupOne _)⟩
  · exact ⟨ci_cleanupOne h2.ci, wi_keep h2.wi (keep_cleanupOne _)⟩

theorem keep_stopConn (cfg) (x : Conn) : Keep x (stopConn cfg x) := by
  unfold stopConn
  split
  · unfold stopNew; split
    · refine ⟨rfl, ?_, fun h => ⟨h, rfl⟩⟩
      show upgRids (x.log ++ [Ev.stopMark] ++ [Ev.sockClose]) = _
      rw [upgRids_append, upgRids_append]; simp [upgRids]
    · have a := keep_emit x (e := .stopMark) rfl
      exact ⟨a.1, a.2.1, a.2.2⟩
  · have a0 := keep_emit x (e := .stopMark) rfl
    have a4 : ∀ y : Conn, Keep y (resumeIf cfg y) := by
      intro y; unfold resumeIf; split
      · exact keep_resumeOne _
      · exact Keep.refl _
    have a2 : ∀ y : Conn, Keep y (stopMarkSuspended cfg y) := by
      intro y; unfold stopMarkSuspended; split
      · split
        · split
          · exact keep_emit y rfl
          · exact ⟨rfl, rfl, fun h => ⟨h, rfl⟩⟩
        · exact keep_emit y rfl
      · exact Keep.refl _
    have a3 : ∀ y : Conn, Keep y (stopShutdownActive y) := by
      intro y; unfold stopShutdownActive; split
      · exact keep_emit y rfl
      · exact Keep.refl _
    have a5 : ∀ y : Conn, Keep y (stopCloseActive y) := by
      intro y; unfold stopCloseActive; split
      · exact keep_closeConn _ _
      · exact Keep.refl _
    exact a0.trans ((a4 _).trans ((a2 _).trans ((a3 _).trans ((a4 _).trans ((a5 _).trans (keep_cleanupOne _))))))

theorem keep_arriveConn (x : Conn) : Keep x (arriveConn x) := by
  unfold arriveConn; split
  · exact ⟨rfl, rfl, fun h => ⟨h, rfl⟩⟩
  · exact keep_emit x rfl

theorem keep_clientSendConn (x : Conn) (bs : Bytes) : Keep x (clientSendConn x bs) := by
  unfold clientSendConn; split
  · exact ⟨rfl, rfl, fun h => ⟨h, rfl⟩⟩
  · exact Keep.refl x

theorem keep_appRecvConn (x : Conn) (n : Nat) : Keep x (appRecvConn x n) := by
  have a := keep_emit x (e := .appRecv (x.sockIn.take (min n x.sockIn.length))) rfl
  exact ⟨a.1, a.2.1, a.2.2⟩

/-- the wire invariant over all histories -/
theorem wi_step (d : Daemon) (op : Op) (hi : DInv d) (h : ∀ c, WI (d.cfg c) (d.conn c)) :
    ∀ c, WI ((step d op).cfg c) ((step d op).conn c) := by
  intro k
  cases op with
  | arrive c =>
    simp only [step]; split
    · exact h k
    · by_cases hk : k = c
      · subst hk; show WI _ (setConn _ _ _ _); rw [setConn_same]; exact wi_keep (h k) (keep_arriveConn _)
      · show WI _ (setConn _ _ _ _); rw [setConn_other _ _ hk]; exact h k
  | clientSend c bs =>
    simp only [step]
    by_cases hk : k = c
    · subst hk; show WI _ (setConn _ _ _ _); rw [setConn_same]; exact wi_keep (h k) (keep_clientSendConn _ bs)
    · show WI _ (setConn _ _ _ _); rw [setConn_other _ _ hk]; exact h k
  | round sched =>
    simp only [step]; split
    · exact h k
    · exact (cw_roundConn ⟨(hi.conns k).ci, h k⟩ _ _ _).wi
  | upClose c =>
    simp only [step]; split
    · exact h k
    · by_cases hk : k = c
      · subst hk; show WI _ (setConn _ _ _ _); rw [setConn_same]
        exact wi_keep (h k) (keep_upgradeActionClose _)
      · show WI _ (setConn _ _ _ _); rw [setConn_other _ _ hk]; exact h k
  | upRecv c mx =>
    simp only [step]; split
    · by_cases hk : k = c
      · subst hk; show WI _ (setConn _ _ _ _); rw [setConn_same]
        exact wi_keep (h k) (keep_appRecvConn _ mx)
      · show WI _ (setConn _ _ _ _); rw [setConn_other _ _ hk]; exact h k
    · by_cases hk : k = c
      · subst hk; show WI _ (setConn _ _ _ _); rw [setConn_same]
        exact wi_keep (h k) (keep_emit _ rfl)
      · show WI _ (setConn _ _ _ _); rw [setConn_other _ _ hk]; exact h k
  | upSend c bs =>
    simp only [step]; split
    · by_cases hk : k = c
      · subst hk; show WI _ (setConn _ _ _ _); rw [setConn_same]
        exact wi_keep (h k) (keep_emit _ rfl)
      · show WI _ (setConn _ _ _ _); rw [setConn_other _ _ hk]; exact h k
    · by_cases hk : k = c
      · subst hk; show WI _ (setConn _ _ _ _); rw [setConn_same]
        exact wi_keep (h k) (keep_emit _ rfl)
      · show WI _ (setConn _ _ _ _); rw [setConn_other _ _ hk]; exact h k
  | stop =>
    simp only [step]; split
    · exact h k
    · exact wi_keep (h k) (keep_stopConn _ _)

theorem wi_run (d : Daemon) (ops : List Op) (hi : DInv d) (h : ∀ c, WI (d.cfg c) (d.conn c)) :
    ∀ c, WI ((run d ops).cfg c) ((run d ops).conn c) := by
  induction ops generalizing d with
  | nil => exact h
  | cons op ops ih => exact ih (step d op) (dinv_step d op hi) (wi_step d op hi h)

theorem mem_upgRids_of_mem {rid : Nat} {extra : Bytes} : ∀ {l : List Ev}, Ev.upgrade rid extra ∈ l → rid ∈ upgRids l := by
  intro l
  induction l with
  | nil => intro h; cases h
  | cons e l ih =>
    intro h
    rcases List.mem_cons.mp h with h1 | h1
    · subst h1; simp [upgRids]
    · have := ih h1
      cases e <;> simp_all [upgRids]

end Mhd.Upg
