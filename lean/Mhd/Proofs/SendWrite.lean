/-
  C07 — the invariant is preserved by the write-buffer branches of MHD_connection_handle_write
  (HEADERS_SENDING, CHUNKED_BODY_READY, FOOTERS_SENDING).
-/
import Mhd.Proofs.SendInv
namespace Mhd.Send
open Mhd.Gen.Send

theorem frames_end (r : Resp) (p : Nat) (h : r.body.length ≤ p) : frames r p = [] := by
  unfold frames
  have : r.body.length - p = 0 := by omega
  rw [this]; rfl

/-- more fuel than positions left changes nothing -/
theorem framesAux_fuel (r : Resp) : ∀ (f p : Nat), r.body.length - p ≤ f →
    framesAux r f p = framesAux r (r.body.length - p) p
  | 0, p, h => by
    have : r.body.length - p = 0 := by omega
    rw [this]
  | f + 1, p, h => by
    by_cases hlt : p < r.body.length
    · have hs : r.body.length - p = (r.body.length - p - 1) + 1 := by omega
      rw [hs]
      simp only [framesAux, hlt, if_true]
      generalize capMax r.cbMax (min (sizeToFill0 r) (r.body.length - p)) = n
      by_cases hn : n = 0
      · simp only [hn, if_true]
      · simp only [hn, if_false]
        congr 1
        have hpos : 1 ≤ n := Nat.pos_of_ne_zero hn
        rw [framesAux_fuel r f (p + n) (by omega), framesAux_fuel r (r.body.length - p - 1) (p + n) (by omega)]
    · have : r.body.length - p = 0 := by omega
      rw [this]
      simp only [framesAux, hlt, if_false]

theorem framesAux_succ (r : Resp) (f p : Nat) (h : p < r.body.length)
    (hn : capMax r.cbMax (min (sizeToFill0 r) (r.body.length - p)) ≠ 0) :
    framesAux r (f + 1) p = chunkFrame (slice r.body p (capMax r.cbMax (min (sizeToFill0 r) (r.body.length - p))))
                 ++ framesAux r f (p + capMax r.cbMax (min (sizeToFill0 r) (r.body.length - p))) := by
  simp only [framesAux, h, if_true, hn, if_false]

theorem frames_step (r : Resp) (p : Nat) (h : p < r.body.length)
    (hn : capMax r.cbMax (min (sizeToFill0 r) (r.body.length - p)) ≠ 0) :
    frames r p = chunkFrame (slice r.body p (capMax r.cbMax (min (sizeToFill0 r) (r.body.length - p))))
                 ++ frames r (p + capMax r.cbMax (min (sizeToFill0 r) (r.body.length - p))) := by
  unfold frames
  have hs : r.body.length - p = (r.body.length - p - 1) + 1 := by omega
  conv => lhs; rw [hs]
  rw [framesAux_succ r _ p h hn]
  congr 1
  have hpos : 1 ≤ capMax r.cbMax (min (sizeToFill0 r) (r.body.length - p)) := Nat.pos_of_ne_zero hn
  generalize capMax r.cbMax (min (sizeToFill0 r) (r.body.length - p)) = n at *
  exact framesAux_fuel r (r.body.length - p - 1) (p + n) (by omega)

theorem sizeUnknown_big : maxChunk < sizeUnknown := by decide

/-- when `total_size == rsp_write_position` nothing of the body is left -/
theorem tot_eq_rp_end {r : Resp} {c : Conn} (hw : WF r) (hc : Core r c) (hsb : r.sendBody = true)
    (h : c.tot = c.rp) : r.body.length ≤ c.rp := by
  have ht := hc.tot
  have hr := hc.rpLe hsb
  have hs := hw.size
  unfold TotOk at ht
  split at ht
  · omega
  · rcases ht with ht | ht <;> omega

theorem hw_chunkedReady_inv {r : Resp} {c : Conn} (hw : WF r) (h : Inv r c) (hs : c.st = .chunkedBodyReady)
    (s1 s2 : SockRes) (app : AppAns) (alloc : Bool) : Inv r (handleWrite r c s1 s2 app alloc) := by
  have hwb : isWbState c.st := Or.inr (Or.inl hs)
  obtain ⟨hsb, hch⟩ := h.stChunk (Or.inr (Or.inl hs))
  unfold handleWrite
  rw [hs]
  simp only [(wbPending_some h hwb).1]
  by_cases ht : c.tot = c.rp
  · rw [if_pos ht]
    apply wbAccount_inv h hwb (frames r c.rp ++ r.footer) _ _ (sendData_spec _ s1)
    · intro so' out'; simp only [pending, hs, List.append_assoc]
    · intro out'; simp only [pending]
      rw [frames_end r c.rp (tot_eq_rp_end hw (h.core (by rw [hs]; decide)) hsb ht)]; rfl
    · exact ⟨(by intro x; rcases x with x | x | x <;> cases x), (by decide)⟩
    · intro x; rcases x with x | x <;> cases x
    · intro _; exact ⟨hsb, hch⟩
  · rw [if_neg ht]
    apply wbAccount_inv h hwb (frames r c.rp ++ r.footer) _ _ (sendData_spec _ s1)
    · intro so' out'; simp only [pending, hs, List.append_assoc]
    · intro out'; simp only [pending]
    · exact ⟨(by intro x; rcases x with x | x | x <;> cases x), (by decide)⟩
    · intro x; rcases x with x | x <;> cases x
    · intro _; exact ⟨hsb, hch⟩

theorem hw_footers_inv {r : Resp} {c : Conn} (h : Inv r c) (hs : c.st = .footersSending)
    (s1 s2 : SockRes) (app : AppAns) (alloc : Bool) : Inv r (handleWrite r c s1 s2 app alloc) := by
  have hwb : isWbState c.st := Or.inr (Or.inr hs)
  unfold handleWrite
  rw [hs]
  simp only [(wbPending_some h hwb).1]
  apply wbAccount_inv h hwb [] _ _ (sendData_spec _ s1)
  · intro so' out'; simp only [pending, hs, List.append_nil]
  · intro out'; simp only [pending]
  · exact ⟨(by intro x; rcases x with x | x | x <;> cases x), (by decide)⟩
  · intro x; rcases x with x | x <;> cases x
  · intro x; rcases x with x | x | x | x <;> cases x


theorem not_wb_headersSent : ¬ isWbState St.headersSent ∧ St.headersSent ≠ St.closed :=
  ⟨(by intro x; rcases x with x | x | x <;> cases x), (by decide)⟩

theorem hw_headers_inv {r : Resp} {c : Conn} (hw : WF r) (h : Inv r c) (hs : c.st = .headersSending)
    (s1 s2 : SockRes) (h2 : s2.Legal) : Inv r (hwHeaders r c s1 s2) := by
  have hwb : isWbState c.st := Or.inl hs
  obtain ⟨hlt, hle⟩ := h.wbuf hwb
  have hlen := (wbPending_some h hwb).2
  have hstne : c.st ≠ .closed := by rw [hs]; decide
  have heq := h.eqn hstne
  have hpend : ∀ so' out', pending r { c with so := so', out := out' } =
      slice c.wb so' (c.ao - so') ++ afterHeaders r c.rp := by
    intro so' out'; simp only [pending, hs]
  have hnextp : ∀ out', pending r { c with so := 0, ao := 0, st := .headersSent, out := out' } = afterHeaders r c.rp := by
    intro out'; simp only [pending]
  have hn2 : (St.headersSent = .normalBodyUnready ∨ St.headersSent = .normalBodyReady) → r.sendBody = true ∧ r.chunked = false := by
    intro x; rcases x with x | x <;> cases x
  have hn3 : (St.headersSent = .chunkedBodyUnready ∨ St.headersSent = .chunkedBodyReady ∨ St.headersSent = .chunkedBodySent ∨ St.headersSent = .footersSending) →
          r.sendBody = true ∧ r.chunked = true := by
    intro x; rcases x with x | x | x | x <;> cases x
  unfold hwHeaders
  simp only [(wbPending_some h hwb).1]
  generalize hpart : slice c.wb c.so (c.ao - c.so) = part at *
  by_cases hco : r.sendBody = true ∧ r.kind = .buffer ∧ c.rp = 0 ∧ ¬ r.chunked = true
  · -- header and body in one call
    rw [if_pos hco]
    obtain ⟨hsb, hk, hrp, hnc⟩ := hco
    have hwin := (h.core hstne).win
    rw [if_pos hk] at hwin
    have hbody : slice r.body 0 c.dz = r.body := by
      simp only [slice, List.drop_zero, hwin.2, List.take_length]
    rw [hbody]
    have hspec := sendHdrAndBody_spec r.noVec r.nonblk part r.body s1 s2 h2
    generalize sendHdrAndBody false r.noVec r.nonblk part r.body s1 s2 = o at *
    have haft : afterHeaders r c.rp = r.body := by
      simp only [afterHeaders, hsb, if_true, hrp, List.drop_zero]
      simp only [Bool.not_eq_true] at hnc
      simp [hnc]
    cases hr : o.ret with
    | error e =>
      have hpre : o.wire <+: part ++ afterHeaders r c.rp := by rw [haft]; exact hspec.err e hr
      cases e
      case again =>
        have hwz : o.wire = [] := hspec.again hr
        simp only [hwz, List.append_nil]
        exact h
      all_goals
        simp only []
        have := wb_err_step h hwb (afterHeaders r c.rp) o.wire (hpend c.so c.out) (by rw [hpart]; exact hpre)
        exact this
    | ok ret =>
      simp only []
      obtain ⟨hn, hwire⟩ := hspec.ok ret hr
      by_cases hbig : c.ao - c.so < ret
      · rw [if_pos hbig]
        -- complete header and some of the body
        simp only [checkWriteDone]
        have e1 : c.so + (c.ao - c.so) = c.ao := by omega
        rw [e1]
        simp only [ne_eq, not_true_eq_false, if_false]
        have hrle : ret - (c.ao - c.so) ≤ r.body.length := by
          simp only [List.length_append, hlen] at hn; omega
        have hcore : Core r { c with out := c.out ++ o.wire, so := 0, ao := 0, rp := ret - (c.ao - c.so), st := .headersSent } := by
          refine ⟨fun _ => hrle, (h.core hstne).win, ?_, ?_, (h.core hstne).sfOk, (h.core hstne).winChunk, (h.core hstne).iovNe, (h.core hstne).sfWin⟩
          · intro hk'; rw [hk] at hk'; cases hk'
          · have := (h.core hstne).tot
            unfold TotOk at this ⊢
            have hkn := hw.known (Or.inl hk)
            simp only [hkn, if_true] at this ⊢
            exact this
        have hfin : (c.out ++ o.wire) ++ afterHeaders r (ret - (c.ao - c.so)) = stream r := by
          have ha2 : afterHeaders r (ret - (c.ao - c.so)) = r.body.drop (ret - (c.ao - c.so)) := by
            simp only [afterHeaders, hsb, if_true]
            simp only [Bool.not_eq_true] at hnc
            simp [hnc]
          rw [ha2, hwire, ← heq, ← hlen]
          have hp : pending r c = part ++ r.body := by
            have := hpend c.so c.out
            rw [hpart, haft] at this; exact this
          rw [hp, List.append_assoc]
          congr 1
          exact prefix_take_app part r.body ret (by rw [hlen]; omega)
        refine ⟨h.nofault, fun _ => hcore, ?_, ⟨_, hfin⟩, ?_, hn2, hn3⟩
        · intro _; simp only [pending]; exact hfin
        · intro x; exact absurd x not_wb_headersSent.1
      · rw [if_neg hbig]
        have hle' : ret ≤ c.ao - c.so := by omega
        have hw' : o.wire = part.take ret := by
          rw [hwire, List.take_append]
          have : ret - part.length = 0 := by rw [hlen]; omega
          rw [this]; simp
        have := wb_ok_step h hwb (afterHeaders r c.rp) .headersSent o.wire ret hpend hnextp not_wb_headersSent hn2 hn3 hle'
          (by rw [hpart]; exact hw')
        exact this
  · -- header alone
    rw [if_neg hco]
    have hspec := sendHdrAndBody_spec r.noVec r.nonblk part [] s1 s2 h2
    rw [List.append_nil] at hspec
    generalize sendHdrAndBody false r.noVec r.nonblk part [] s1 s2 = o at *
    cases hr : o.ret with
    | error e =>
      have hpre : o.wire <+: part ++ afterHeaders r c.rp := List.IsPrefix.trans (hspec.err e hr) (List.prefix_append _ _)
      cases e
      case again =>
        have hwz : o.wire = [] := hspec.again hr
        simp only [hwz, List.append_nil]
        exact h
      all_goals
        simp only []
        exact wb_err_step h hwb (afterHeaders r c.rp) o.wire (hpend c.so c.out) (by rw [hpart]; exact hpre)
    | ok ret =>
      simp only []
      obtain ⟨hn, hwire⟩ := hspec.ok ret hr
      rw [hlen] at hn
      have hbig : ¬ c.ao - c.so < ret := by omega
      rw [if_neg hbig]
      exact wb_ok_step h hwb (afterHeaders r c.rp) .headersSent o.wire ret hpend hnextp not_wb_headersSent hn2 hn3 hn
          (by rw [hpart]; exact hwire)

end Mhd.Send
