/-
  C19 helper lemmas, part 11: silent trips commute with more input; the flat run over
  `a ++ b` is the run over `a` followed by the run over `b` (`Run.append`).
-/
import Mhd.Proofs.WSMerge
namespace Mhd.WS

theorem tailAfter_cur (ws : WS) (cur : Nat) :
    tailAfter false ws cur = match tailAfter false ws 0 with
      | .ret ws' st _ pl plen => .ret ws' st cur pl plen
      | r => r := by
  unfold tailAfter
  split
  · cases payloadComplete false ws <;> rfl
  · rfl

theorem tail_cur (ws : WS) (cur : Nat) :
    tail false ws cur = match tail false ws 0 with
      | .ret ws' st _ pl plen => .ret ws' st cur pl plen
      | r => r := by
  unfold tail
  split
  · cases headerComplete false ws with
    | cont ws' k => simp only []; rw [tailAfter_cur]
    | ret => rfl
    | fault => rfl
  · rw [tailAfter_cur]

/-- a state with nothing pending settles to itself without an event -/
theorem settle_quiet {ws : WS} (hq : sil ws = 0) : Settle ws [] (.more ws) := by
  have h16 : ws.step ≠ 16 := by
    intro h; unfold sil at hq; rw [if_pos h] at hq; omega
  have hc : ¬ ((ws.step = 17 ∨ ws.step = 18) ∧ ws.payloadSize = ws.payloadIndex) := by
    intro h; unfold sil at hq; rw [if_neg h16, if_pos h] at hq; omega
  refine ⟨ws, 0, 0, none, 0, ?_, rfl, rfl⟩
  unfold tail
  rw [if_neg h16]
  unfold tailAfter
  rw [if_neg hc]

end Mhd.WS
namespace Mhd.WS

/-- what a list of pending silent trips does, seen from a run that has more input -/
def SilentThen (ws : WS) (b : List UInt8) (E1 : List Ev) (out1 : Out) : Prop :=
  (out1 = .stop → Run ws b E1 .stop) ∧
  (∀ ws1, out1 = .more ws1 → ∀ E2 out, Run ws1 b E2 out → Run ws b (E1 ++ E2) out)

theorem evOf_neg {st : Int} (h : st < 0) (pl : Option (List UInt8)) (plen : Nat) : evOf st pl plen = [(st, pl, plen)] := by
  unfold evOf; rw [if_neg (by omega)]

/-- a silent trip that returns: the same return is seen as the first loop trip on `b` -/
theorem silent_ret {ws ws' : WS} {b : List UInt8} (hb : b ≠ []) {st : Int} {k : Nat} {pl : Option (List UInt8)}
    {plen : Nat} (hi : iter false ws b = .ret ws' st k pl plen) (hk : k = 0) :
    SilentThen ws b (evOf st pl plen) (if st < 0 then .stop else .more ws') := by
  subst hk
  constructor
  · intro hstop
    by_cases hneg : st < 0
    · rw [evOf_neg hneg]; exact Run.err ws b ws' st 0 pl plen hb hi hneg
    · rw [if_neg hneg] at hstop; cases hstop
  · intro ws1 hmore E2 out hr
    by_cases hneg : st < 0
    · rw [if_pos hneg] at hmore; cases hmore
    · rw [if_neg hneg] at hmore
      injection hmore with hmore; subst hmore
      exact Run.emit ws b ws' st 0 pl plen E2 out hb hi (by omega) (by simpa using hr)

theorem silentAfter {ws : WS} (h : Inv ws) (_hv : ws.validity ≠ 0) (_h16 : ws.step ≠ 16) (b : List UInt8) (hb : b ≠ [])
    {ws' : WS} {st : Int} {c : Nat} {pl : Option (List UInt8)} {plen : Nat}
    (ht : tailAfter false ws 0 = .ret ws' st c pl plen) :
    SilentThen ws b (evOf st pl plen) (if st < 0 then .stop else .more ws') := by
  unfold tailAfter at ht
  split at ht
  · rename_i hc
    have hidx : min (ws.payloadSize - ws.payloadIndex) b.length = 0 := by omega
    have hit : iter false ws b = payloadFinish false 0 ws := by
      rw [iter_payload _ _ hb hc.1]
      rcases hc.1 with h17 | h18
      · exact (stepPayload_data_eq h h17 b 0 hidx.symm).1 rfl
      · exact (stepPayload_ctrl_eq h h18 b 0 hidx.symm).1 rfl
    unfold payloadFinish at hit
    rw [if_pos hc.2] at hit
    revert ht hit
    cases payloadComplete false ws with
    | cont ws_c k =>
      intro ht hit
      injection ht with e1 e2 e3 e4 e5
      subst e1 e2 e4 e5
      simp only [evOf, if_true]
      refine ⟨fun hs => by simp at hs, ?_⟩
      intro ws1 hmore E2 out hr
      rw [if_neg (by omega)] at hmore
      injection hmore with hmore; subst hmore
      have hd : b.drop 0 = b := List.drop_zero
      exact Run.cont ws b _ 0 E2 out hb hit (by rw [hd]; exact hr)
    | ret w s k p l =>
      intro ht hit
      injection ht with e1 e2 e3 e4 e5
      subst e1 e2 e4 e5
      exact silent_ret hb hit rfl
    | fault s => intro ht; exact absurd ht (by simp)
  · injection ht with e1 e2 e3 e4 e5
    subst e1 e2 e4 e5
    simp only [evOf, if_true]
    refine ⟨fun hs => by simp at hs, ?_⟩
    intro ws1 hmore E2 out hr
    rw [if_neg (by omega)] at hmore
    injection hmore with hmore; subst hmore
    simpa using hr

theorem silent_then_run {ws : WS} (h : Inv ws) (hv : ws.validity ≠ 0) (b : List UInt8) (hb : b ≠ [])
    {E1 : List Ev} {out1 : Out} (hs : Settle ws E1 out1) : SilentThen ws b E1 out1 := by
  obtain ⟨ws', st, c, pl, plen, ht, rfl, rfl⟩ := hs
  unfold tail at ht
  split at ht
  · rename_i h16
    have hhc := headerComplete_ok h hv h16
    have hit : iter false ws b = match headerComplete false ws with
        | .cont ws' _ => .cont ws' 0
        | r => r := by
      unfold iter
      cases b with
      | nil => exact absurd rfl hb
      | cons x r => simp only [h16]; try rfl
    revert ht hit hhc
    cases headerComplete false ws with
    | cont ws_h k =>
      intro ht hhc hit
      obtain ⟨hi, hv', hst⟩ := hhc
      have h16' : ws_h.step ≠ 16 := by have : ws_h.step = 17 ∨ ws_h.step = 18 := hst; omega
      have ht' : tailAfter false ws_h 0 = .ret ws' st c pl plen := ht
      have hit' : iter false ws b = .cont ws_h 0 := hit
      have hd : b.drop 0 = b := List.drop_zero
      obtain ⟨s1, s2⟩ := silentAfter hi hv' h16' b hb ht'
      constructor
      · intro hstop; exact Run.cont ws b ws_h 0 _ _ hb hit' (by rw [hd]; exact s1 hstop)
      · intro ws1 hmore E2 out hr
        exact Run.cont ws b ws_h 0 _ _ hb hit' (by rw [hd]; exact s2 ws1 hmore E2 out hr)
    | ret w s k p l =>
      intro ht hhc hit
      injection ht with e1 e2 e3 e4 e5
      subst e1 e2 e4 e5
      exact silent_ret hb hit hhc.2.1
    | fault s => intro ht; exact absurd ht (by simp)
  · rename_i h16
    exact silentAfter h hv h16 b hb ht

end Mhd.WS
namespace Mhd.WS

/-- a settled live state satisfies the invariant and has nothing pending -/
theorem Settle.more_quiet {ws ws1 : WS} {E : List Ev} (hs : Settle ws E (.more ws1)) (h : Inv ws)
    (hv : ws.validity ≠ 0) : Inv ws1 ∧ sil ws1 = 0 ∧ ws1.validity ≠ 0 := by
  obtain ⟨ws', st, c, pl, plen, ht, _, ho⟩ := hs
  obtain ⟨w2, s2, p2, l2, ht2, hc⟩ := tail_ok h hv 0
  rw [ht] at ht2
  injection ht2 with e1 e2 e3 e4 e5
  subst e1 e2 e4 e5
  by_cases hneg : st < 0
  · rw [if_pos hneg] at ho; cases ho
  · rw [if_neg hneg] at ho
    injection ho with ho; subst ho
    obtain ⟨hq, hv'⟩ := hc.quiet (by omega)
    exact ⟨hc.inv hv', hq, hv'⟩

theorem Run.more_quiet {ws ws1 : WS} {a : List UInt8} {E : List Ev} {out : Out} (hr : Run ws a E out)
    (h : Inv ws) (hv : ws.validity ≠ 0) (ho : out = .more ws1) : Inv ws1 ∧ sil ws1 = 0 ∧ ws1.validity ≠ 0 := by
  induction hr with
  | done ws E out hs => subst ho; exact hs.more_quiet h hv
  | cont ws rest ws' k E out hne hi _ ih =>
    have hn : 1 ≤ rest.length := by cases rest with | nil => exact absurd rfl hne | cons _ _ => simp
    have hok := iter_ok h hv rest hn
    rw [hi] at hok
    exact ih hok.1 hok.2.1 ho
  | emit ws rest ws' st k pl plen E out hne hi h0 _ ih =>
    have hn : 1 ≤ rest.length := by cases rest with | nil => exact absurd rfl hne | cons _ _ => simp
    have hok := iter_ok h hv rest hn
    rw [hi] at hok
    have hv' := (hok.2.2.2 h0).2.1
    exact ih (hok.1 hv') hv' ho
  | err => cases ho

/-- running on nothing from a settled state does nothing -/
theorem Run.nil_quiet {ws : WS} {E : List Ev} {out : Out} (hr : Run ws [] E out) (hq : sil ws = 0) :
    E = [] ∧ out = .more ws := by
  cases hr with
  | done _ _ _ hs => exact hs.det (settle_quiet hq)
  | cont _ _ _ _ _ _ hne => exact absurd rfl hne
  | emit _ _ _ _ _ _ _ _ _ hne => exact absurd rfl hne
  | err _ _ _ _ _ _ _ hne => exact absurd rfl hne

end Mhd.WS
namespace Mhd.WS

theorem rsim_ret_left {ws' : WS} {st : Int} {k : Nat} {pl : Option (List UInt8)} {plen : Nat} {r : R}
    (h : RSim (.ret ws' st k pl plen) r) : st < 0 ∧ ∃ w k', r = .ret w st k' pl plen := by
  cases r with
  | ret w st' k' pl' plen' =>
    obtain ⟨h1, h2, h3, h4⟩ := h
    subst h2 h3 h4
    exact ⟨h1, w, k', rfl⟩
  | cont => exact absurd h id
  | fault => exact absurd h id

theorem rsim_ret_right {ws' : WS} {st : Int} {k : Nat} {pl : Option (List UInt8)} {plen : Nat} {r : R}
    (h : RSim r (.ret ws' st k pl plen)) : st < 0 ∧ ∃ w k', r = .ret w st k' pl plen := by
  cases r with
  | ret w st' k' pl' plen' =>
    obtain ⟨h1, h2, h3, h4⟩ := h
    subst h2 h3 h4
    exact ⟨h1, w, k', rfl⟩
  | cont => exact absurd h id
  | fault => exact absurd h id

theorem rsim_cont_right (r : R) (w : WS) (k : Nat) : ¬ RSim r (shiftR n (.cont w k)) := by
  cases r <;> exact id

/-- **Split independence, flat form**: running over `a ++ b` is running over `a` and, if the
    session is still alive, over `b` from the state reached. -/
theorem Run.append {ws : WS} {a : List UInt8} {E1 : List Ev} {out1 : Out} (hr : Run ws a E1 out1)
    (h : Inv ws) (hv : ws.validity ≠ 0) (b : List UInt8) (hb : b ≠ []) :
    (out1 = .stop → Run ws (a ++ b) E1 .stop) ∧
    (∀ ws1, out1 = .more ws1 → ∀ E2 out, Run ws1 b E2 out → Run ws (a ++ b) (E1 ++ E2) out) := by
  induction hr with
  | done ws E out hs =>
    have := silent_then_run h hv b hb hs
    rw [List.nil_append]
    exact this
  | cont ws rest ws' k E out hne hi hrun ih =>
    have hn : 1 ≤ rest.length := by cases rest with | nil => exact absurd rfl hne | cons _ _ => simp
    have hok := iter_ok h hv rest hn
    rw [hi] at hok
    obtain ⟨hi', hv', hk, _⟩ := hok
    have hidx := h.idx
    have hpsz := h.psz
    have hneed : (ws.payloadSize + W - ws.payloadIndex) % W = ws.payloadSize - ws.payloadIndex := by
      rw [W_eq]; omega
    have hne2 : rest ++ b ≠ [] := by simp [hne]
    by_cases hp : (ws.step = 17 ∨ ws.step = 18) ∧ rest.length < ws.payloadSize - ws.payloadIndex
    · -- partial payload copy: merge with the next trip
      have hm : RSim (iter false ws rest) (iter false ws (rest ++ b)) ∨
          (∃ ws1, iter false ws rest = .cont ws1 rest.length ∧ Inv ws1 ∧ ws1.validity ≠ 0 ∧ sil ws1 = 0 ∧
            RSimEq (iter false ws (rest ++ b)) (shiftR rest.length (iter false ws1 b))) := by
        rcases hp.1 with h17 | h18
        · exact merge_data h hv h17 rest b hne hb hp.2
        · exact merge_ctrl h hv h18 rest b hne hb hp.2
      rcases hm with hE | ⟨w1, hc1, _, _, hq1, hsim⟩
      · rw [hi] at hE; exact absurd hE id
      · rw [hi] at hc1
        injection hc1 with e1 e2
        subst e1 e2
        rw [List.drop_length] at hrun
        obtain ⟨hE1, ho1⟩ := hrun.nil_quiet hq1
        subst hE1 ho1
        refine ⟨fun hs => Out.noConfusion hs, ?_⟩
        intro ws1 hmore E2 out2 hr2
        injection hmore with hmore; subst hmore
        rw [List.nil_append]
        cases hr2 with
        | done _ _ _ _ => exact absurd rfl hb
        | cont _ _ w2 k2 _ _ _ hi2 hr2' =>
          rw [hi2] at hsim
          rcases hsim with he | hs
          · refine Run.cont ws (rest ++ b) w2 (rest.length + k2) E2 out2 hne2 he ?_
            rw [List.drop_length_add_append]; exact hr2'
          · exact absurd hs (rsim_cont_right _ _ _)
        | emit _ _ w2 st k2 pl plen E2' _ _ hi2 h0 hr2' =>
          rw [hi2] at hsim
          rcases hsim with he | hs
          · refine Run.emit ws (rest ++ b) w2 st (rest.length + k2) pl plen E2' out2 hne2 he h0 ?_
            rw [List.drop_length_add_append]; exact hr2'
          · obtain ⟨hneg, _⟩ := rsim_ret_right (by simpa [shiftR] using hs)
            omega
        | err _ _ w2 st k2 pl plen _ hi2 hneg =>
          rw [hi2] at hsim
          rcases hsim with he | hs
          · exact Run.err ws (rest ++ b) w2 st (rest.length + k2) pl plen hne2 he hneg
          · obtain ⟨_, w, k', hx⟩ := rsim_ret_right (by simpa [shiftR] using hs)
            exact Run.err ws (rest ++ b) w st k' pl plen hne2 hx hneg
    · -- the trip does not depend on what follows
      have hst : iter false ws (rest ++ b) = iter false ws rest := by
        apply iter_stable rest b hne
        by_cases hs : ws.step = 17 ∨ ws.step = 18
        · right; rw [hneed]; have := fun hh => hp ⟨hs, hh⟩; omega
        · left; omega
      have hd : (rest ++ b).drop k = rest.drop k ++ b := List.drop_append_of_le_length hk
      obtain ⟨i1, i2⟩ := ih hi' hv'
      constructor
      · intro hs
        refine Run.cont ws (rest ++ b) ws' k E .stop hne2 (by rw [hst, hi]) ?_
        rw [hd]; exact i1 hs
      · intro ws1 hmore E2 out2 hr2
        refine Run.cont ws (rest ++ b) ws' k (E ++ E2) out2 hne2 (by rw [hst, hi]) ?_
        rw [hd]; exact i2 ws1 hmore E2 out2 hr2
  | emit ws rest ws' st k pl plen E out hne hi h0 hrun ih =>
    have hn : 1 ≤ rest.length := by cases rest with | nil => exact absurd rfl hne | cons _ _ => simp
    have hok := iter_ok h hv rest hn
    rw [hi] at hok
    obtain ⟨hinv', hk, _, hq⟩ := hok
    have hv' := (hq h0).2.1
    have hi' := hinv' hv'
    have hidx := h.idx
    have hpsz := h.psz
    have hneed : (ws.payloadSize + W - ws.payloadIndex) % W = ws.payloadSize - ws.payloadIndex := by
      rw [W_eq]; omega
    have hne2 : rest ++ b ≠ [] := by simp [hne]
    have hst : iter false ws (rest ++ b) = iter false ws rest := by
      by_cases hp : (ws.step = 17 ∨ ws.step = 18) ∧ rest.length < ws.payloadSize - ws.payloadIndex
      · have hm : RSim (iter false ws rest) (iter false ws (rest ++ b)) ∨
            (∃ ws1, iter false ws rest = .cont ws1 rest.length ∧ Inv ws1 ∧ ws1.validity ≠ 0 ∧ sil ws1 = 0 ∧
              RSimEq (iter false ws (rest ++ b)) (shiftR rest.length (iter false ws1 b))) := by
          rcases hp.1 with h17 | h18
          · exact merge_data h hv h17 rest b hne hb hp.2
          · exact merge_ctrl h hv h18 rest b hne hb hp.2
        rcases hm with hE | ⟨w1, hc1, _⟩
        · rw [hi] at hE
          have := (rsim_ret_left hE).1
          omega
        · rw [hi] at hc1; exact absurd hc1 (by simp)
      · apply iter_stable rest b hne
        by_cases hs : ws.step = 17 ∨ ws.step = 18
        · right; rw [hneed]; have := fun hh => hp ⟨hs, hh⟩; omega
        · left; omega
    have hd : (rest ++ b).drop k = rest.drop k ++ b := List.drop_append_of_le_length hk
    obtain ⟨i1, i2⟩ := ih hi' hv'
    constructor
    · intro hs
      refine Run.emit ws (rest ++ b) ws' st k pl plen E .stop hne2 (by rw [hst, hi]) h0 ?_
      rw [hd]; exact i1 hs
    · intro ws1 hmore E2 out2 hr2
      rw [List.append_assoc]
      refine Run.emit ws (rest ++ b) ws' st k pl plen (E ++ E2) out2 hne2 (by rw [hst, hi]) h0 ?_
      rw [hd]; exact i2 ws1 hmore E2 out2 hr2
  | err ws rest ws' st k pl plen hne hi hneg =>
    have hidx := h.idx
    have hpsz := h.psz
    have hneed : (ws.payloadSize + W - ws.payloadIndex) % W = ws.payloadSize - ws.payloadIndex := by
      rw [W_eq]; omega
    have hne2 : rest ++ b ≠ [] := by simp [hne]
    refine ⟨fun _ => ?_, fun ws1 hmore => Out.noConfusion hmore⟩
    by_cases hp : (ws.step = 17 ∨ ws.step = 18) ∧ rest.length < ws.payloadSize - ws.payloadIndex
    · have hm : RSim (iter false ws rest) (iter false ws (rest ++ b)) ∨
          (∃ ws1, iter false ws rest = .cont ws1 rest.length ∧ Inv ws1 ∧ ws1.validity ≠ 0 ∧ sil ws1 = 0 ∧
            RSimEq (iter false ws (rest ++ b)) (shiftR rest.length (iter false ws1 b))) := by
        rcases hp.1 with h17 | h18
        · exact merge_data h hv h17 rest b hne hb hp.2
        · exact merge_ctrl h hv h18 rest b hne hb hp.2
      rcases hm with hE | ⟨w1, hc1, _⟩
      · rw [hi] at hE
        obtain ⟨_, w, k', hx⟩ := rsim_ret_left hE
        exact Run.err ws (rest ++ b) w st k' pl plen hne2 hx hneg
      · rw [hi] at hc1; exact absurd hc1 (by simp)
    · have hst : iter false ws (rest ++ b) = iter false ws rest := by
        apply iter_stable rest b hne
        by_cases hs : ws.step = 17 ∨ ws.step = 18
        · right; rw [hneed]; have := fun hh => hp ⟨hs, hh⟩; omega
        · left; omega
      exact Run.err ws (rest ++ b) ws' st k pl plen hne2 (by rw [hst, hi]) hneg

end Mhd.WS
