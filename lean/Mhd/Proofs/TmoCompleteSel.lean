/-
  Completeness of a whole select round, for a select loop that saves `pos->prev` before calling the
  handlers (F10 repaired): every live, expired connection whose socket is not readable is closed.
-/
import Mhd.Proofs.TmoCompleteRound
namespace Mhd.Tmo
open Mhd.Gen.Tmo

theorem travSel_complete_all (v : Variant) (hsp : v.savePrev = true) (rs : List Id) :
    ∀ (l : List Id) (d : Daemon) (i : Id), l.Nodup → i ∈ l → (d.c i).closed = false → (d.c i).replying = false →
    (rs.contains i = false ∨ ((d.c i).unread = false ∧ (d.c i).peerClosed = false)) →
    checkTimedOut d.now (d.c i) = true →
    Event.tmoClose i (d.c i).aware ∈ (travSel v rs l d).2
  | [], _, _, _, hi, _, _, _, _ => absurd hi List.not_mem_nil
  | j :: rest, d, i, hnd, hi, hc, hr, hq, ht => by
    unfold travSel
    dsimp only
    have hnd' := List.nodup_cons.1 hnd
    have hstay : ¬ (v.savePrev = false ∧ j ∉ (callHandlersSel v d j (rs.contains j)).1.conns) := by
      intro x; rw [hsp] at x; cases x.1
    simp only [hstay, if_false]
    rw [seq2_events]
    rcases List.mem_cons.1 hi with e | e
    · subst e
      refine List.mem_append_left _ ?_
      have hcall : callHandlersSel0 v d i (rs.contains i) = handleIdleP d i := by
        unfold callHandlersSel0
        rcases hq with q | q
        · have hnr : i ∉ rs := by
            intro hm; rw [List.contains_iff_mem.2 hm] at q; cases q
          simp [hc, hnr, hr]
        · simp [hc, q.1, q.2, hr]
      have hev : (callHandlersSel v d i (rs.contains i)).2 = (handleIdleP d i).2 := by
        unfold callHandlersSel; rw [hcall]
      rw [hev]
      exact handleIdleP_closes hc ht
    · have hij : i ≠ j := fun x => hnd'.1 (x ▸ e)
      have o := others_callHandlersSel v d j (rs.contains j)
      have hnow : (callHandlersSel v d j (rs.contains j)).1.now = d.now := o.2.2.2.1.1
      have hrec : (callHandlersSel v d j (rs.contains j)).1.c i = d.c i := (o.2.2.2.2 i hij).2.2.2
      have := travSel_complete_all v hsp rs rest (callHandlersSel v d j (rs.contains j)).1 i hnd'.2 e
        (by rw [hrec]; exact hc) (by rw [hrec]; exact hr) (by rw [hrec]; exact hq) (by rw [hrec, hnow]; exact ht)
      rw [hrec] at this
      exact List.mem_append_right _ this

theorem roundSelect_complete {v : Variant} (hv : Fixed v) (hsp : v.savePrev = true) {d : Daemon} (h : Inv d)
    (i : Id) (hi : i ∈ d.conns) (hc : (d.c i).closed = false)
    (hq : (d.c i).unread = false ∧ (d.c i).peerClosed = false) (hr : (d.c i).replying = false)
    (ht : checkTimedOut d.now (d.c i) = true) :
    Event.tmoClose i (d.c i).aware ∈ (roundSelect v d).2 := by
  let d1 := if d.cfg.allowSuspend then resumeSuspended v d else d
  let d2 : Daemon := { d1 with dataPending := false }
  let d3 := (processNew v d2).1
  have h1 : Inv d1 := by
    show Inv (if d.cfg.allowSuspend then resumeSuspended v d else d); split; exact inv_resumeSuspended hv.2.2.2.2 h; exact h
  have h2 : Inv d2 := inv_flag h1 false
  have h3 : Inv d3 := inv_processNew hv h2
  have k2 : Keep i d d2 := Keep.trans (keep_resume v h i hi) (keep_flags i d1 d2 rfl rfl rfl rfl rfl)
  have k3 : Keep i d d3 := Keep.trans k2 (keep_processNew v h2 i (k2.2.2.2.1 hi))
  obtain ⟨n1, _, _, n3, n4⟩ := k3
  have hc3 : (d3.c i).closed = false := by rw [n4.2.2.2.1]; exact hc
  have ht3 : checkTimedOut d3.now (d3.c i) = true := by
    rw [n1]; unfold checkTimedOut at ht ⊢; rw [n4.1, n4.2.1, n4.2.2.1]; exact ht
  have hnr : (d.conns.filter fun j => !(d.c j).closed && ((d.c j).unread || (d.c j).peerClosed) && (d.c j).buf == 0).contains i = false := by
    cases hx : (d.conns.filter fun j => !(d.c j).closed && ((d.c j).unread || (d.c j).peerClosed) && (d.c j).buf == 0).contains i with
    | false => rfl
    | true =>
      have := (List.mem_filter.1 (List.contains_iff_mem.1 hx)).2
      simp [hq.1, hq.2] at this
  have := travSel_complete_all v hsp _ d3.conns.reverse d3 i (nodup_reverse' h3.ndConns)
    (List.mem_reverse.2 (n3 hi)) hc3 (by rw [n4.2.2.2.2.2]; exact hr) (Or.inl hnr) ht3
  rw [n4.2.2.2.2.1] at this
  unfold roundSelect
  simp only [seq2_events, List.mem_append]
  left; right; exact this

end Mhd.Tmo
