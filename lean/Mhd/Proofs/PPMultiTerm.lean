/-
  Termination of the loop of `post_process_multipart`: a potential `phi` that every iteration
  lowers (consumed bytes / rank-lowering state change / input copied / state_changed cleared).
-/
import Mhd.Proofs.PPMultiInv
namespace Mhd.PP

/-- how many state changes without consuming a byte can still follow -/
def rankM : St → Nat
  | .performCleanup => 3
  | .nestedPerformCleanup => 3
  | .nestedPerformMarking => 3
  | .processEntryHeaders => 2
  | .nestedProcessEntryHeaders => 2
  | .performCheckMultipart => 1
  | _ => 0

theorem rankM_le (s : St) : rankM s ≤ 3 := by cases s <;> simp [rankM]

theorem fb_prog (pp : PP) (b : Bytes) (ioff : Nat) (next nd : St) :
    ((findBoundary pp b ioff next nd).2.2 = true → ioff < (findBoundary pp b ioff next nd).2.1) ∧
    ((findBoundary pp b ioff next nd).2.2 = false →
      (findBoundary pp b ioff next nd).1.state = pp.state ∨ (findBoundary pp b ioff next nd).1.state = .error) := by
  unfold findBoundary
  by_cases h1 : pp.buf.length < 2 + b.length
  · simp only [h1, if_true]
    by_cases h2 : pp.buf.length = pp.bufferSize <;> simp only [h2, if_true, if_false] <;> simp
  · simp only [h1, if_false]
    by_cases h2 : slice pp.buf 0 2 ≠ sDashDash ∨ slice pp.buf 2 (2 + b.length) ≠ b
    · simp only [h2, if_true]
      by_cases h3 : pp.state ≠ .init
      · simp [h3]
      · simp only [h3, if_false]
        cases hf : findByte cDash pp.buf with
        | none => simp
        | some k => cases k <;> simp
    · simp only [h2, if_false]
      simp; omega

theorem pmh_prog (pp : PP) (ioff : Nat) (next : St) :
    (processMultipartHeaders pp ioff next).2.2 = true →
      ioff < (processMultipartHeaders pp ioff next).2.1 ∨ (processMultipartHeaders pp ioff next).1.state = next := by
  unfold processMultipartHeaders
  by_cases h1 : lineEnd pp.buf = pp.bufferSize
  · simp [h1]
  · simp only [h1, if_false]
    by_cases h2 : lineEnd pp.buf = pp.buf.length
    · simp [h2]
    · simp only [h2, if_false]
      by_cases h3 : lineEnd pp.buf = 0
      · simp [h3]
      · simp only [h3, if_false]
        have hlt : lineEnd pp.buf < pp.buf.length := by have := lineEnd_le pp.buf; omega
        rw [List.getElem?_eq_getElem hlt]
        intro _
        left
        simp only
        omega

theorem pvtb_prog (pp : PP) (ioff : Nat) (b : Bytes) (next nd : St) :
    ioff < (processValueToBoundary pp ioff b next nd).2.1 ∨
    (processValueToBoundary pp ioff b next nd).1.state = pp.state ∨
    (processValueToBoundary pp ioff b next nd).1.state = .error := by
  unfold processValueToBoundary
  have hb := scanBoundary_bound pp.buf b pp.bufferSize 0 (Nat.zero_le _)
  cases hs : scanBoundary pp.buf b pp.bufferSize 0 with
  | oom => simp
  | partialAt nl =>
    rw [hs] at hb
    simp only at hb ⊢
    obtain ⟨_, s1, _⟩ := pvtbDeliver_spec pp ioff nl hb
    exact Or.inr (Or.inl s1)
  | found nl =>
    rw [hs] at hb
    simp only at hb ⊢
    have hl : nl ≤ ({ pp with skipRn := .dash, state := next, dashState := nd, buf := pp.buf.set nl 0 } : PP).buf.length := by
      simp; omega
    obtain ⟨_, _, _, _, s4, _⟩ := pvtbDeliver_spec
      { pp with skipRn := .dash, state := next, dashState := nd, buf := pp.buf.set nl 0 } (ioff + b.length + 4) nl hl
    left; rw [s4]; omega



/-- progress of one pass through the main `switch` from a state of rank `k`: bytes consumed, or a
    state change that lowers the rank, or nothing changed (then `state_changed` is untouched and
    the rank does not grow) -/
def ProgK (k : Nat) (l : ML) (r : PP × ML × Flow) : Prop :=
  r.2.2 = .again →
    (l.ioff < r.2.1.ioff ∨ (r.2.1.stateChanged = true ∧ rankM r.1.state < k) ∨
      (r.2.1.stateChanged = l.stateChanged ∧ rankM r.1.state ≤ k))

def Prog (pp : PP) (l : ML) (r : PP × ML × Flow) : Prop := ProgK (rankM pp.state) l r

theorem progK_flowFound (k : Nat) (l : ML) (r : PP × Nat × Bool) (h : r.2.2 = true → l.ioff < r.2.1) :
    ProgK k l (flowFound r l) := by
  unfold ProgK flowFound
  split
  · rename_i hok; intro _; exact Or.inl (h hok)
  · split <;> (intro hh; cases hh)

theorem progK_flowHeaders (k : Nat) (l : ML) (r : PP × Nat × Bool) (next : St) (hr : rankM next < k)
    (h : r.2.2 = true → l.ioff < r.2.1 ∨ r.1.state = next) : ProgK k l (flowHeaders r l) := by
  unfold ProgK flowHeaders
  split
  · rename_i hok
    intro _
    rcases h hok with h1 | h1
    · exact Or.inl h1
    · exact Or.inr (Or.inl ⟨rfl, by show rankM r.1.state < _; rw [h1]; exact hr⟩)
  · split <;> (intro hh; cases hh)

theorem progK_flowValue (s : St) (l : ML) (r : PP × Nat × Bool)
    (h : l.ioff < r.2.1 ∨ r.1.state = s ∨ r.1.state = .error) : ProgK (rankM s) l (flowValue r l) := by
  unfold ProgK flowValue
  split
  · intro hh; cases hh
  · intro _
    rcases h with h1 | h1 | h1
    · exact Or.inl h1
    · exact Or.inr (Or.inr ⟨rfl, by show rankM r.1.state ≤ _; rw [h1]; exact Nat.le_refl _⟩)
    · exact Or.inr (Or.inr ⟨rfl, by show rankM r.1.state ≤ _; rw [h1]; simp [rankM]⟩)

theorem progK_pcm (pp : PP) (l : ML) : ProgK 1 l (performCheckMultipart pp l) := by
  unfold ProgK performCheckMultipart
  split
  · split
    · split
      · intro hh; cases hh
      · intro _; exact Or.inr (Or.inl ⟨rfl, by simp [rankM]⟩)
    · intro _; exact Or.inr (Or.inl ⟨rfl, by simp [rankM]⟩)
  · intro _; exact Or.inr (Or.inl ⟨rfl, by simp [rankM]⟩)

theorem mainSwitch_prog (pp : PP) (l : ML) : Prog pp l (mainSwitch pp l) := by
  unfold Prog
  cases hs : pp.state <;> simp only [mainSwitch, hs]
  case error => intro hh; cases hh
  case done => intro hh; cases hh
  case init =>
    obtain ⟨p1, p2⟩ := fb_prog pp pp.boundary l.ioff .processEntryHeaders .done
    intro _
    cases hf : (findBoundary pp pp.boundary l.ioff .processEntryHeaders .done).2.2 with
    | true => exact Or.inl (p1 hf)
    | false =>
      right; right
      refine ⟨rfl, ?_⟩
      rcases p2 hf with h | h
      · show rankM (findBoundary pp pp.boundary l.ioff .processEntryHeaders .done).1.state ≤ _
        rw [h, hs]; exact Nat.le_refl _
      · show rankM (findBoundary pp pp.boundary l.ioff .processEntryHeaders .done).1.state ≤ _
        rw [h]; simp [rankM]
  case nextBoundary => exact progK_flowFound _ l _ (fb_prog pp pp.boundary l.ioff .performCleanup .done).1
  case processKey => intro hh; cases hh
  case processValue => intro hh; cases hh
  case callback => intro hh; cases hh
  case processEntryHeaders =>
    exact progK_flowHeaders _ l _ .performCheckMultipart (by simp [rankM]) (pmh_prog _ l.ioff .performCheckMultipart)
  case performCheckMultipart => exact progK_pcm pp l
  case processValueToBoundary =>
    have := progK_flowValue .processValueToBoundary l _
      (by rw [← hs]; exact pvtb_prog pp l.ioff pp.boundary .performCleanup .done)
    exact this
  case performCleanup => intro _; exact Or.inr (Or.inl ⟨rfl, by simp [rankM]⟩)
  case nestedInit =>
    cases hn : pp.nested with
    | none => intro hh; cases hh
    | some nb => exact progK_flowFound _ l _ (fb_prog pp nb l.ioff .nestedPerformMarking .nextBoundary).1
  case nestedPerformMarking => intro _; exact Or.inr (Or.inl ⟨rfl, by simp [rankM]⟩)
  case nestedProcessEntryHeaders =>
    exact progK_flowHeaders _ l _ .nestedProcessValueToBoundary (by simp [rankM])
      (pmh_prog _ l.ioff .nestedProcessValueToBoundary)
  case nestedProcessValueToBoundary =>
    cases hn : pp.nested with
    | none => intro hh; cases hh
    | some nb =>
      exact progK_flowValue .nestedProcessValueToBoundary l _
        (by rw [← hs]; exact pvtb_prog pp l.ioff nb .nestedPerformCleanup .nextBoundary)
  case nestedPerformCleanup => intro _; exact Or.inr (Or.inl ⟨rfl, by simp [rankM]⟩)


theorem rnFull_prog (q : PP) (l : ML) : (rnFull q l).2.2 = some .again → l.ioff < (rnFull q l).2.1.ioff := by
  unfold rnFull
  split
  · intro h; cases h
  · split
    · split <;> (intro _; simp)
    · split
      · intro _; simp
      · intro h; cases h

theorem rnDash_prog (q : PP) (l : ML) : (rnDash q l).2.2 = some .again → l.ioff < (rnDash q l).2.1.ioff := by
  unfold rnDash
  split
  · intro h; cases h
  · split
    · intro _; simp
    · exact rnFull_prog _ l

theorem rn_prog (pp : PP) (l : ML) :
    ((rnMachine pp l).2.2 = some .again → l.ioff < (rnMachine pp l).2.1.ioff) ∧
    ((rnMachine pp l).2.2 = none →
      ((rnMachine pp l).1.state = pp.state ∨ (rnMachine pp l).1.state = .error) ∧
      (rnMachine pp l).2.1.stateChanged = l.stateChanged) := by
  unfold rnMachine
  cases hr : pp.skipRn with
  | inactive => exact ⟨(fun h => by cases h), fun _ => ⟨Or.inl rfl, rfl⟩⟩
  | full => exact ⟨rnFull_prog pp l, fun h => absurd h (rnFull_some _ _)⟩
  | dash => exact ⟨rnDash_prog pp l, fun h => absurd h (rnDash_some _ _)⟩
  | optN =>
    simp only
    unfold rnOptN
    split
    · exact ⟨(fun h => by cases h), (fun h => by cases h)⟩
    · split
      · exact ⟨(fun _ => by simp), (fun h => by cases h)⟩
      · exact ⟨rnDash_prog pp l, fun h => absurd h (rnDash_some _ _)⟩
  | dash2 =>
    simp only
    unfold rnDash2
    split
    · exact ⟨(fun h => by cases h), (fun h => by cases h)⟩
    · split
      · exact ⟨(fun _ => by simp), (fun h => by cases h)⟩
      · exact ⟨(fun h => by cases h), fun _ => ⟨Or.inr rfl, rfl⟩⟩

/-- potential of the loop of `post_process_multipart`: strictly decreases with every iteration -/
def phi (d : Bytes) (pp : PP) (l : ML) : Nat :=
  16 * ((d.length - l.poff) + pp.buf.length) + 2 * rankM pp.state + l.stateChanged.toNat +
    (decide (l.poff < d.length ∧ pp.buf.length < pp.bufferSize)).toNat

theorem toNat_le_one (b : Bool) : b.toNat ≤ 1 := by cases b <;> simp

theorem again_len (pp : PP) (l : ML) (h : l.ioff ≤ pp.buf.length) :
    (again pp l).1.buf.length = pp.buf.length - l.ioff ∧ (again pp l).1.state = pp.state ∧
    (again pp l).1.bufferSize = pp.bufferSize ∧ (again pp l).2.poff = l.poff := by
  unfold again
  by_cases h0 : l.ioff > 0
  · have hn : ¬ l.ioff > pp.buf.length := by omega
    simp [h0, hn]
  · have : l.ioff = 0 := by omega
    simp [h0, this]

/-- an iteration that consumed at least one byte lowers the potential, whatever else happened -/
theorem phi_consume (d : Bytes) (pp pp' : PP) (l l' : ML) (mx io : Nat) (hmx : mx ≤ d.length - l.poff)
    (hio : 1 ≤ io) (hio2 : io ≤ pp.buf.length + mx)
    (hb : pp'.buf.length = pp.buf.length + mx - io) (hpo : l'.poff = l.poff + mx) : phi d pp' l' < phi d pp l := by
  unfold phi
  have h1 := rankM_le pp'.state
  have h2 := toNat_le_one l'.stateChanged
  generalize (decide (l'.poff < d.length ∧ pp'.buf.length < pp'.bufferSize)) = b1
  generalize (decide (l.poff < d.length ∧ pp.buf.length < pp.bufferSize)) = b2
  have h3 := toNat_le_one b1
  rw [hb, hpo]
  omega


/-- an iteration that only copied input and/or changed the state lowers the potential -/
theorem phi_idle (d : Bytes) (pp pp' : PP) (l l' : ML) (mx : Nat)
    (hmax : min (pp.bufferSize - pp.buf.length) (d.length - l.poff) = mx) (hsz : pp.buf.length ≤ pp.bufferSize)
    (hp : l.poff ≤ d.length) (hb : pp'.buf.length = pp.buf.length + mx) (hpo : l'.poff = l.poff + mx)
    (hs : pp'.bufferSize = pp.bufferSize)
    (hcond : l.poff < d.length ∨ (0 < pp.buf.length ∧ l.stateChanged = true))
    (hnerr : ¬ (mx = 0 ∧ l.stateChanged = false ∧ l.poff + mx < d.length))
    (hprog : (l'.stateChanged = true ∧ rankM pp'.state < rankM pp.state) ∨
      (l'.stateChanged = false ∧ rankM pp'.state ≤ rankM pp.state)) : phi d pp' l' < phi d pp l := by
  unfold phi
  have hind' : decide (l'.poff < d.length ∧ pp'.buf.length < pp'.bufferSize) = false := by
    rw [hb, hpo, hs]
    simp only [decide_eq_false_iff_not, not_and, Nat.not_lt]
    intro h1
    omega
  rw [hind', hb, hpo]
  rcases hprog with ⟨h1, h2⟩ | ⟨h1, h2⟩
  · rw [h1]
    have := toNat_le_one l.stateChanged
    simp only [Bool.toNat_true, Bool.toNat_false]
    omega
  · rw [h1]
    simp only [Bool.toNat_false]
    by_cases hsc : l.stateChanged = true
    · rw [hsc]; simp only [Bool.toNat_true]; omega
    · have hsc' : l.stateChanged = false := by cases h : l.stateChanged <;> simp_all
      have hlt : l.poff < d.length := by
        rcases hcond with h | h
        · exact h
        · rw [hsc'] at h; cases h.2
      have hmx0 : mx ≠ 0 := by
        intro h0
        apply hnerr
        exact ⟨h0, hsc', by omega⟩
      have hind : decide (l.poff < d.length ∧ pp.buf.length < pp.bufferSize) = true := by
        simp only [decide_eq_true_eq]
        constructor
        · exact hlt
        · omega
      rw [hind, hsc']
      simp only [Bool.toNat_true, Bool.toNat_false]
      omega
end Mhd.PP
