/-
  C07 — upload side (recv_param_adapter, MHD_connection_handle_read, process_request_body without
  chunked encoding): the bytes handed to the application are a prefix of the request body.
-/
import Mhd.Proofs.SendLemmas
namespace Mhd.Send
open Mhd.Gen.Send

/-- upload side: nothing is lost, duplicated or reordered between the socket and the handler -/
structure UpInv (body rest : Bytes) (u : Up) : Prop where
  stream : u.handed ++ u.buf ++ u.pendingIn = body ++ rest
  count : u.handed.length + u.remaining = body.length

theorem upInit_inv (cap : Nat) (body rest : Bytes) : UpInv body rest (upInit cap body rest) := by
  constructor <;> simp [upInit]

theorem recvAdapter_ok {space : Nat} {pend : Bytes} {r : RecvRes} {n : Nat} {got : Bytes}
    (h : recvAdapter false space pend r = (.ok n, got)) : got = pend.take n ∧ n ≤ pend.length := by
  unfold recvAdapter at h
  simp only [Bool.false_eq_true, if_false] at h
  split at h
  · cases h
  · simp only [Prod.mk.injEq, Except.ok.injEq] at h
    obtain ⟨rfl, rfl⟩ := h
    exact ⟨rfl, Nat.zero_le _⟩
  · simp only [Prod.mk.injEq, Except.ok.injEq] at h
    obtain ⟨rfl, rfl⟩ := h
    exact ⟨rfl, Nat.min_le_right _ _⟩

theorem upRead_inv {body rest : Bytes} {u : Up} (h : UpInv body rest u) (r : RecvRes) : UpInv body rest (upRead u r) := by
  unfold upRead
  split
  · exact h
  · split
    · exact h
    · split
      · exact h
      · exact ⟨h.stream, h.count⟩
      · exact ⟨h.stream, h.count⟩
      · rename_i n got _ heq
        obtain ⟨hg, _⟩ := recvAdapter_ok heq
        refine ⟨?_, h.count⟩
        show u.handed ++ (u.buf ++ got) ++ u.pendingIn.drop n = body ++ rest
        rw [hg, ← h.stream]
        simp only [List.append_assoc, List.take_append_drop]

theorem upProcess_inv {body rest : Bytes} {u : Up} (h : UpInv body rest u) (take : Nat) :
    UpInv body rest (upProcess u take) := by
  unfold upProcess
  split
  · exact h
  · rename_i hc
    simp only []
    generalize hp : min take (if u.remaining < u.buf.length then u.remaining else u.buf.length) = p
    have hpr : p ≤ u.remaining ∧ p ≤ u.buf.length := by
      rw [← hp]; split <;> omega
    constructor
    · show (u.handed ++ u.buf.take p) ++ u.buf.drop p ++ u.pendingIn = body ++ rest
      rw [← h.stream]
      simp only [List.append_assoc]
      rw [← List.append_assoc (u.buf.take p), List.take_append_drop]
    · show (u.handed ++ u.buf.take p).length + (u.remaining - p) = body.length
      rw [← h.count]
      simp only [List.length_append, List.length_take]
      omega

theorem upRun_inv {body rest : Bytes} : ∀ (ops : List UpOp) (u : Up), UpInv body rest u → UpInv body rest (upRun u ops)
  | [], _, h => h
  | op :: ops, u, h => by
    unfold upRun
    simp only [List.foldl_cons]
    apply upRun_inv ops
    cases op with
    | read r => exact upRead_inv h r
    | process t => exact upProcess_inv h t

theorem UpInv.handed_prefix {body rest : Bytes} {u : Up} (h : UpInv body rest u) : u.handed <+: body := by
  have hs := h.stream
  have hc := h.count
  have hle : u.handed.length ≤ body.length := by omega
  have : u.handed = (body ++ rest).take u.handed.length := by
    rw [← hs, List.append_assoc, List.take_append, List.take_length, Nat.sub_self, List.take_zero, List.append_nil]
  rw [this, List.take_append, Nat.sub_eq_zero_of_le hle, List.take_zero, List.append_nil]
  exact List.take_prefix _ _

end Mhd.Send
