/-
  The multipart machine for ARBITRARY input and arbitrary splits: one loop iteration
  (`mpIter_spec`), the loop (`mpLoop_spec`), one call (`postProcessMultipart_spec`), all calls
  (`feedAll_mgood`) and the complete life of a post processor (`multipart_all_inputs`):
  no out-of-object access, nothing delivered that was not received.
-/
import Mhd.Proofs.PPMultiInv
import Mhd.Proofs.PPMultiTerm
import Mhd.Proofs.PPValue
namespace Mhd.PP

theorem flow_poff (r : PP × Nat × Bool) (l : ML) :
    (flowFound r l).2.1.poff = l.poff ∧ (flowHeaders r l).2.1.poff = l.poff ∧ (flowValue r l).2.1.poff = l.poff := by
  unfold flowFound flowHeaders flowValue
  refine ⟨?_, ?_, ?_⟩
  · split <;> (try split) <;> rfl
  · split <;> (try split) <;> rfl
  · split <;> rfl

theorem mainSwitch_poff (pp : PP) (l : ML) : (mainSwitch pp l).2.1.poff = l.poff := by
  unfold mainSwitch
  split <;> (try exact (flow_poff _ l).1) <;> (try exact (flow_poff _ l).2.1) <;> (try exact (flow_poff _ l).2.2) <;> (try rfl)
  · unfold performCheckMultipart
    split <;> (try split) <;> (try split) <;> rfl
  · split
    · rfl
    · exact (flow_poff _ l).1
  · split
    · rfl
    · exact (flow_poff _ l).2.2

/-- invariant of the multipart machine for arbitrary input; `T` = everything received so far,
    `ioff` = bytes at the front of the window that are consumed but not yet moved away -/
structure MPend (pp : PP) (T : Bytes) (ioff : Nat) : Prop where
  ctl : Ctl pp
  size : pp.buf.length ≤ pp.bufferSize
  pos : 0 < pp.bufferSize
  win : ∃ pre, T = pre ++ pp.buf
  evs : ∀ e ∈ pp.evs, e.data <:+: T
  io : ioff ≤ pp.buf.length

theorem again_spec (pp : PP) (l : ML) (T : Bytes) (h : MPend pp T l.ioff) :
    MPend (again pp l).1 T 0 ∧ (again pp l).2.ioff = 0 ∧ (again pp l).2.poff = l.poff ∧
      (again pp l).1.bufferSize = pp.bufferSize := by
  unfold again
  by_cases h0 : l.ioff > 0
  · have hn : ¬ l.ioff > pp.buf.length := by have := h.io; omega
    simp only [h0, if_true, hn, if_false]
    refine ⟨⟨⟨h.ctl.fault, h.ctl.url, h.ctl.st, h.ctl.dst, h.ctl.nest⟩, ?_, h.pos, ?_, h.evs, Nat.zero_le _⟩, trivial, trivial, trivial⟩
    · have := h.size; simp; omega
    · obtain ⟨pre, hp⟩ := h.win
      exact ⟨pre ++ pp.buf.take l.ioff, by simp [hp]⟩
  · simp only [h0, if_false]
    have : l.ioff = 0 := by omega
    exact ⟨⟨h.ctl, h.size, h.pos, h.win, h.evs, Nat.zero_le _⟩, this, trivial, trivial⟩



theorem infix_append_right {a T : Bytes} (s : Bytes) (h : a <:+: T) : a <:+: T ++ s := by
  obtain ⟨x, y, hxy⟩ := h
  exact ⟨x, y ++ s, by simp [← hxy]⟩

theorem take_infix_of_suffix {T pre buf : Bytes} (n : Nat) (h : T = pre ++ buf) : buf.take n <:+: T :=
  ⟨pre, buf.drop n, by rw [h]; simp⟩

theorem mpIter_spec (d : Bytes) (pp : PP) (l : ML) (T : Bytes) (h : MPend pp T 0) (hl : l.ioff = 0)
    (hp : l.poff ≤ d.length) (hne : l.poff < d.length ∨ (0 < pp.buf.length ∧ l.stateChanged = true)) :
    (mpIter d pp l).2.1.poff ≤ d.length ∧ l.poff ≤ (mpIter d pp l).2.1.poff ∧
    MPend (mpIter d pp l).1 (T ++ slice d l.poff (mpIter d pp l).2.1.poff) (mpIter d pp l).2.1.ioff ∧
    ((mpIter d pp l).2.2 = .again → (mpIter d pp l).2.1.ioff = 0) ∧
    (mpIter d pp l).1.bufferSize = pp.bufferSize ∧
    ((mpIter d pp l).2.2 = .again → phi d (mpIter d pp l).1 (mpIter d pp l).2.1 < phi d pp l) := by
  have hg : ¬ pp.buf.length > pp.bufferSize := by have := h.size; omega
  generalize hmax : min (pp.bufferSize - pp.buf.length) (d.length - l.poff) = mx
  have hmx1 : mx ≤ pp.bufferSize - pp.buf.length := by rw [← hmax]; exact Nat.min_le_left _ _
  have hmx2 : mx ≤ d.length - l.poff := by rw [← hmax]; exact Nat.min_le_right _ _
  have hsl : (slice d l.poff (l.poff + mx)).length = mx := by
    rw [slice_length d l.poff (l.poff + mx) (by omega)]; omega
  -- the state after the copy
  have hC1 : Ctl { pp with buf := pp.buf ++ slice d l.poff (l.poff + mx) } :=
    ⟨h.ctl.fault, h.ctl.url, h.ctl.st, h.ctl.dst, h.ctl.nest⟩
  obtain ⟨pre, hpre⟩ := h.win
  have hwin1 : T ++ slice d l.poff (l.poff + mx) = pre ++ (pp.buf ++ slice d l.poff (l.poff + mx)) := by
    rw [hpre]; simp
  have hsize1 : (pp.buf ++ slice d l.poff (l.poff + mx)).length ≤ pp.bufferSize := by
    rw [List.length_append, hsl]; have := h.size; omega
  have hne1 : 0 < (pp.buf ++ slice d l.poff (l.poff + mx)).length := by
    rw [List.length_append, hsl]
    rcases hne with hlt | ⟨hb, _⟩
    · have := h.pos
      by_cases hfull : pp.buf.length = pp.bufferSize
      · omega
      · have : 0 < mx := by rw [← hmax]; have := h.size; omega
        omega
    · omega
  have hevs1 : ∀ e ∈ pp.evs, e.data <:+: T ++ slice d l.poff (l.poff + mx) :=
    fun e he => infix_append_right _ (h.evs e he)
  have base : ∀ (q : PP) (io : Nat), Ctl q → q.bufferSize = pp.bufferSize →
      q.buf = pp.buf ++ slice d l.poff (l.poff + mx) → q.evs = pp.evs → io ≤ q.buf.length →
      MPend q (T ++ slice d l.poff (l.poff + mx)) io := by
    intro q io hq hs hb he hio
    exact ⟨hq, by rw [hb, hs]; exact hsize1, by rw [hs]; exact h.pos, ⟨pre, by rw [hb]; exact hwin1⟩,
      by rw [he]; exact hevs1, hio⟩
  unfold mpIter
  simp only [hg, if_false, hmax]
  by_cases herr : mx = 0 ∧ l.stateChanged = false ∧ l.poff + mx < d.length
  · rw [if_pos herr]
    refine ⟨by show l.poff + mx ≤ d.length; omega, by show l.poff ≤ l.poff + mx; omega, ?_, nofun, rfl, nofun⟩
    show MPend { pp with buf := pp.buf ++ slice d l.poff (l.poff + mx), state := .error }
      (T ++ slice d l.poff (l.poff + mx)) l.ioff
    rw [hl]
    exact base { pp with buf := pp.buf ++ slice d l.poff (l.poff + mx), state := .error } 0
      ⟨h.ctl.fault, h.ctl.url, by simp [MpState], h.ctl.dst, by intro hh; simp [NeedsNested] at hh⟩ rfl rfl rfl
      (Nat.zero_le _)
  · rw [if_neg herr]
    obtain ⟨r1, r2, r3, r4, r5, r6, r7⟩ := rnMachine_spec { pp with buf := pp.buf ++ slice d l.poff (l.poff + mx) }
      { l with poff := l.poff + mx, stateChanged := false } hC1 hne1
    have rnone := rnMachine_none { pp with buf := pp.buf ++ slice d l.poff (l.poff + mx) }
      { l with poff := l.poff + mx, stateChanged := false }
    have rnp := rn_prog { pp with buf := pp.buf ++ slice d l.poff (l.poff + mx) }
      { l with poff := l.poff + mx, stateChanged := false }
    generalize hrn : rnMachine { pp with buf := pp.buf ++ slice d l.poff (l.poff + mx) }
      { l with poff := l.poff + mx, stateChanged := false } = rr at r1 r2 r3 r4 r5 r6 r7 rnone rnp
    obtain ⟨pp2, l3, fo⟩ := rr
    simp only at r1 r2 r3 r4 r5 r6 r7 rnone rnp
    have hio3 : l3.ioff ≤ pp2.buf.length := by rw [r2]; simp only [hl] at r6; omega
    have hP2 : MPend pp2 (T ++ slice d l.poff (l.poff + mx)) l3.ioff := base pp2 l3.ioff r1 r4 r2 r3 hio3
    cases fo with
    | some f =>
      cases f with
      | again =>
        simp only
        obtain ⟨a1, a2, a3, a4⟩ := again_spec pp2 l3 _ hP2
        have hf : (again pp2 l3).1.fault.isSome = false := by rw [a1.ctl.fault]; rfl
        simp only [hf, Bool.false_eq_true, if_false]
        obtain ⟨g1, _, _, g4⟩ := again_len pp2 l3 hio3
        have hcons : l.ioff < l3.ioff := rnp.1 rfl
        refine ⟨by rw [a3, r7]; show l.poff + mx ≤ d.length; omega, by rw [a3, r7]; show l.poff ≤ l.poff + mx; omega,
          by rw [a2, a3, r7]; exact a1, fun _ => a2, by rw [a4, r4], fun _ => ?_⟩
        exact phi_consume d pp _ l _ mx l3.ioff hmx2 (by omega) (by rw [r2, List.length_append, hsl] at hio3; exact hio3)
          (by rw [g1, r2, List.length_append, hsl]) (by rw [g4, r7])
      | gotoEnd =>
        simp only
        exact ⟨by rw [r7]; show l.poff + mx ≤ d.length; omega, by rw [r7]; show l.poff ≤ l.poff + mx; omega,
          by rw [r7]; exact hP2, nofun, r4, nofun⟩
      | ret =>
        simp only
        exact ⟨by rw [r7]; show l.poff + mx ≤ d.length; omega, by rw [r7]; show l.poff ≤ l.poff + mx; omega,
          by rw [r7]; exact hP2, nofun, r4, nofun⟩
    | none =>
      simp only
      have hio0 : l3.ioff = 0 := by rw [rnone rfl]; exact hl
      obtain ⟨o1, o2, o3, o4, o5, o6⟩ := mainSwitch_spec pp2 l3 r1
      have hpo := mainSwitch_poff pp2 l3
      have hpr := mainSwitch_prog pp2 l3
      obtain ⟨rs1, rs2⟩ := rnp.2 rfl
      generalize hms : mainSwitch pp2 l3 = mr at o1 o2 o3 o4 o5 o6 hpo hpr
      obtain ⟨pp3, l4, fl⟩ := mr
      simp only at o1 o2 o3 o4 o5 o6 hpo
      simp only [Prog, ProgK] at hpr
      rw [hio0] at o3 o4 o5
      have hlen3 : pp3.buf.length = pp2.buf.length := by
        rcases o5 with hb | ⟨nl, _, hb, _⟩ <;> rw [hb]
        simp
      have hevs3 : ∀ e ∈ pp3.evs, e.data <:+: T ++ slice d l.poff (l.poff + mx) := by
        intro e he
        rcases o6 e he with h1 | ⟨nl, h1⟩
        · exact hP2.evs e h1
        · rw [h1]
          obtain ⟨pre2, hp2⟩ := hP2.win
          exact take_infix_of_suffix nl hp2
      have hio4 : l4.ioff ≤ pp3.buf.length := by rw [hlen3]; omega
      cases fl with
      | again =>
        simp only
        -- the window after `memmove`
        have hP3 : MPend { pp3 with buf := pp2.buf } (T ++ slice d l.poff (l.poff + mx)) l4.ioff :=
          ⟨⟨o1.fault, o1.url, o1.st, o1.dst, o1.nest⟩, by show pp2.buf.length ≤ pp3.bufferSize; rw [o2]; exact hP2.size,
            by show 0 < pp3.bufferSize; rw [o2]; exact hP2.pos, hP2.win, hevs3, by show l4.ioff ≤ pp2.buf.length; omega⟩
        have hdrop : pp3.buf.drop l4.ioff = pp2.buf.drop l4.ioff := by
          rcases o5 with hb | ⟨nl, _, hb, hlt, _⟩
          · rw [hb]
          · rw [hb, List.drop_set_of_lt (by omega)]
        have hag : again pp3 l4 = (if l4.ioff > 0 then ({ pp3 with buf := pp3.buf.drop l4.ioff }, { l4 with ioff := 0, stateChanged := true }) else (pp3, l4)) := by
          unfold again
          have : ¬ l4.ioff > pp3.buf.length := by omega
          by_cases h0 : l4.ioff > 0 <;> simp [h0, this]
        rw [hag]
        by_cases h0 : l4.ioff > 0
        · simp only [h0, if_true]
          have hf : pp3.fault.isSome = false := by rw [o1.fault]; rfl
          simp only [hf, Bool.false_eq_true, if_false]
          refine ⟨by rw [hpo, r7]; show l.poff + mx ≤ d.length; omega, by rw [hpo, r7]; show l.poff ≤ l.poff + mx; omega,
            ?_, by first | trivial | exact fun _ => rfl, by rw [o2, r4], fun _ =>
              phi_consume d pp _ l _ mx l4.ioff hmx2 (by omega)
                (by rw [hlen3, r2, List.length_append, hsl] at hio4; exact hio4)
                (by show (pp3.buf.drop l4.ioff).length = _; rw [List.length_drop, hlen3, r2, List.length_append, hsl])
                (by show l4.poff = _; rw [hpo, r7])⟩
          rw [hpo, r7]
          refine ⟨⟨o1.fault, o1.url, o1.st, o1.dst, o1.nest⟩, ?_, by show 0 < pp3.bufferSize; rw [o2]; exact hP2.pos, ?_, hevs3,
            Nat.zero_le _⟩
          · show (pp3.buf.drop l4.ioff).length ≤ pp3.bufferSize
            rw [List.length_drop, hlen3, o2]; have := hP2.size; omega
          · obtain ⟨pre2, hp2⟩ := hP2.win
            exact ⟨pre2 ++ pp2.buf.take l4.ioff, by show _ = _ ++ pp3.buf.drop l4.ioff; rw [hdrop, hp2]; simp⟩
        · simp only [h0, if_false]
          have hz : l4.ioff = 0 := by omega
          have hb3 : pp3.buf = pp2.buf := by
            rcases o5 with hb | ⟨nl, _, _, hlt, _⟩
            · exact hb
            · omega
          have hf : pp3.fault.isSome = false := by rw [o1.fault]; rfl
          simp only [hf, Bool.false_eq_true, if_false]
          refine ⟨by rw [hpo, r7]; show l.poff + mx ≤ d.length; omega, by rw [hpo, r7]; show l.poff ≤ l.poff + mx; omega,
            ?_, fun _ => hz, by rw [o2, r4], fun _ => ?_⟩
          · rw [hpo, r7]
            exact ⟨o1, by rw [hb3, o2]; exact hP2.size, by rw [o2]; exact hP2.pos, by rw [hb3]; exact hP2.win, hevs3, hio4⟩
          · have hrk2 : rankM pp2.state ≤ rankM pp.state := by
              rcases rs1 with hh | hh <;> rw [hh]
              · exact Nat.le_refl _
              · simp [rankM]
            have hsc3 : l3.stateChanged = false := rs2
            apply phi_idle d pp pp3 l l4 mx hmax h.size hp (by rw [hlen3, r2, List.length_append, hsl])
              (by rw [hpo, r7]) (by rw [o2, r4]) hne herr
            rcases hpr rfl with hh | ⟨hh1, hh2⟩ | ⟨hh1, hh2⟩
            · omega
            · exact Or.inl ⟨hh1, by omega⟩
            · exact Or.inr ⟨by rw [hh1, hsc3], by omega⟩
      | gotoEnd =>
        simp only
        have hb3 : pp3.buf = pp2.buf := by
          rcases o5 with hb | ⟨nl, _, _, _, hfl⟩
          · exact hb
          · cases hfl
        refine ⟨by rw [hpo, r7]; show l.poff + mx ≤ d.length; omega, by rw [hpo, r7]; show l.poff ≤ l.poff + mx; omega,
          ?_, nofun, by rw [o2, r4], nofun⟩
        rw [hpo, r7]
        exact ⟨o1, by rw [hb3, o2]; exact hP2.size, by rw [o2]; exact hP2.pos, by rw [hb3]; exact hP2.win, hevs3, hio4⟩
      | ret =>
        simp only
        have hb3 : pp3.buf = pp2.buf := by
          rcases o5 with hb | ⟨nl, _, _, _, hfl⟩
          · exact hb
          · cases hfl
        refine ⟨by rw [hpo, r7]; show l.poff + mx ≤ d.length; omega, by rw [hpo, r7]; show l.poff ≤ l.poff + mx; omega,
          ?_, nofun, by rw [o2, r4], nofun⟩
        rw [hpo, r7]
        exact ⟨o1, by rw [hb3, o2]; exact hP2.size, by rw [o2]; exact hP2.pos, by rw [hb3]; exact hP2.win, hevs3, hio4⟩


theorem mpLoop_spec (d : Bytes) : ∀ (fuel : Nat) (pp : PP) (l : ML) (T : Bytes), MPend pp T 0 → l.ioff = 0 →
    l.poff ≤ d.length → phi d pp l < fuel →
    (l.poff ≤ (mpLoop fuel d pp l).2.1.poff ∧ (mpLoop fuel d pp l).2.1.poff ≤ d.length ∧
      MPend (mpLoop fuel d pp l).1 (T ++ slice d l.poff (mpLoop fuel d pp l).2.1.poff) (mpLoop fuel d pp l).2.1.ioff) := by
  intro fuel
  induction fuel with
  | zero => intro pp l T _ _ _ h; omega
  | succ n ih =>
    intro pp l T h hl hp hphi
    rw [mpLoop]
    by_cases hc : l.poff < d.length ∨ (pp.buf.length > 0 ∧ l.stateChanged = true)
    · rw [if_pos hc]
      obtain ⟨i1, i2, i3, i4, i5, i6⟩ := mpIter_spec d pp l T h hl hp hc
      generalize hit : mpIter d pp l = r at i1 i2 i3 i4 i5 i6
      obtain ⟨pp1, l1, fl⟩ := r
      simp only at i1 i2 i3 i4 i5 i6
      cases fl with
      | again =>
        simp only
        have hz := i4 rfl
        have hlt := i6 rfl
        rw [hz] at i3
        obtain ⟨j1, j2, j3⟩ := ih pp1 l1 _ i3 hz i1 (by omega)
        refine ⟨by omega, j2, ?_⟩
        rw [List.append_assoc, ← slice_split d l.poff l1.poff _ i2 j1] at j3
        exact j3
      | gotoEnd => exact ⟨i2, i1, i3⟩
      | ret => exact ⟨i2, i1, i3⟩
    · rw [if_neg hc]
      refine ⟨Nat.le_refl _, hp, ?_⟩
      have : slice d l.poff l.poff = [] := by simp [slice]
      simp only [this, List.append_nil, hl]
      exact h

theorem slice_zero (d : Bytes) (p : Nat) : slice d 0 p = d.take p := by simp [slice]

theorem MPend.drop {pp : PP} {T : Bytes} {io : Nat} (h : MPend pp T io) :
    MPend (if io ≠ 0 then { pp with buf := pp.buf.drop io } else pp) T 0 := by
  by_cases h0 : io ≠ 0
  · rw [if_pos h0]
    refine ⟨⟨h.ctl.fault, h.ctl.url, h.ctl.st, h.ctl.dst, h.ctl.nest⟩, ?_, h.pos, ?_, h.evs, Nat.zero_le _⟩
    · have := h.size; simp; omega
    · obtain ⟨pre, hp⟩ := h.win
      exact ⟨pre ++ pp.buf.take io, by simp [hp]⟩
  · rw [if_neg h0]
    exact ⟨h.ctl, h.size, h.pos, h.win, h.evs, Nat.zero_le _⟩

theorem MPend.error {pp : PP} {T : Bytes} (h : MPend pp T 0) : MPend { pp with state := .error } T 0 :=
  ⟨⟨h.ctl.fault, h.ctl.url, by simp [MpState], h.ctl.dst, by intro hh; simp [NeedsNested] at hh⟩, h.size, h.pos, h.win,
    h.evs, Nat.zero_le _⟩

theorem phi_init_lt (d : Bytes) (pp : PP) : phi d pp {} < 16 * (d.length + pp.buf.length) + 16 := by
  unfold phi
  have h1 := rankM_le pp.state
  generalize (decide ((({} : ML).poff) < d.length ∧ pp.buf.length < pp.bufferSize)) = b1
  have h3 := toNat_le_one b1
  show 16 * (d.length - 0 + pp.buf.length) + 2 * rankM pp.state + true.toNat + b1.toNat < _
  simp only [Bool.toNat_true]
  omega

/-- one multipart call: the invariant holds again for the input received so far extended by the
    part `d.take p` of the chunk that was copied; the call returns `MHD_YES` only if the whole
    chunk was copied -/
theorem postProcessMultipart_spec (pp : PP) (d T : Bytes) (h : MPend pp T 0) :
    ∃ p, p ≤ d.length ∧ MPend (postProcessMultipart pp d).1 (T ++ d.take p) 0 ∧
      ((postProcessMultipart pp d).2 = true → p = d.length) := by
  unfold postProcessMultipart
  have key := mpLoop_spec d (16 * (d.length + pp.buf.length) + 16) pp {} T h rfl (Nat.zero_le _) (phi_init_lt d pp)
  generalize mpLoop (16 * (d.length + pp.buf.length) + 16) d pp {} = r at key
  obtain ⟨pp1, l1, fl⟩ := r
  simp only at key
  obtain ⟨_, j2, j3⟩ := key
  rw [slice_zero] at j3
  have tail : ∀ (_ : fl ≠ .ret),
      ∃ p, p ≤ d.length ∧
        MPend (if l1.ioff > pp1.buf.length then (pp1.setFault "memmove-oob", false) else
          if l1.poff < d.length then
            ({ (if l1.ioff ≠ 0 then { pp1 with buf := pp1.buf.drop l1.ioff } else pp1) with state := .error }, false)
          else ((if l1.ioff ≠ 0 then { pp1 with buf := pp1.buf.drop l1.ioff } else pp1), true)).1 (T ++ d.take p) 0 ∧
        ((if l1.ioff > pp1.buf.length then (pp1.setFault "memmove-oob", false) else
          if l1.poff < d.length then
            ({ (if l1.ioff ≠ 0 then { pp1 with buf := pp1.buf.drop l1.ioff } else pp1) with state := .error }, false)
          else ((if l1.ioff ≠ 0 then { pp1 with buf := pp1.buf.drop l1.ioff } else pp1), true)).2 = true → p = d.length) := by
    intro _
    have hio : ¬ l1.ioff > pp1.buf.length := by have := j3.io; omega
    rw [if_neg hio]
    by_cases hp : l1.poff < d.length
    · rw [if_pos hp]
      exact ⟨l1.poff, j2, j3.drop.error, nofun⟩
    · rw [if_neg hp]
      exact ⟨l1.poff, j2, j3.drop, fun _ => by omega⟩
  cases fl with
  | ret => exact ⟨l1.poff, j2, ⟨j3.ctl, j3.size, j3.pos, j3.win, j3.evs, Nat.zero_le _⟩, nofun⟩
  | again => exact tail (by decide)
  | gotoEnd => exact tail (by decide)

/-- invariant between two `MHD_post_process` calls in multipart mode.  `input` = all bytes handed
    to the post processor so far, `T` = the part of it that was accepted (calls that return `MHD_NO`
    drop the rest of their chunk), `allYes` = every call so far returned `MHD_YES`. -/
def MGood (pp : PP) (input : Bytes) (allYes : Bool) : Prop :=
  ∃ T, List.Sublist T input ∧ (allYes = true → T = input) ∧ MPend pp T 0

theorem feed_mgood (pp : PP) (d input : Bytes) (ay : Bool) (h : MGood pp input ay) :
    MGood (feed pp d).1 (input ++ d) (ay && (feed pp d).2) := by
  obtain ⟨T, hsub, hall, hP⟩ := h
  have hfs : pp.fault.isSome = false := by rw [hP.ctl.fault]; rfl
  by_cases hd : d.length = 0
  · have : d = [] := List.length_eq_zero_iff.mp hd
    subst this
    refine ⟨T, by simpa using hsub, ?_, by simpa [feed, hfs] using hP⟩
    intro hh
    have : ay = true := by
      cases ay <;> simp_all
    simpa using hall this
  · have hu : pp.isUrl = false := hP.ctl.url
    have hfeed : feed pp d = postProcessMultipart pp d := by
      simp [feed, hfs, hd, hu]
    rw [hfeed]
    obtain ⟨p, hp, hP', hyes⟩ := postProcessMultipart_spec pp d T hP
    refine ⟨T ++ d.take p, List.Sublist.append hsub (List.take_sublist p d), ?_, hP'⟩
    intro hh
    have h1 : ay = true := by cases ay <;> simp_all
    have h2 : (postProcessMultipart pp d).2 = true := by cases ay <;> simp_all
    rw [hall h1, hyes h2]
    simp

/-- fold of `feed` that also records whether every call returned `MHD_YES` -/
def feedAllYes (pp : PP) : List Bytes → PP × Bool
  | [] => (pp, true)
  | c :: cs => let r := feedAllYes (feed pp c).1 cs; (r.1, (feed pp c).2 && r.2)

theorem feedAllYes_fst (pp : PP) (chunks : List Bytes) : (feedAllYes pp chunks).1 = feedAll pp chunks := by
  induction chunks generalizing pp with
  | nil => rfl
  | cons c cs ih => simp [feedAllYes, feedAll, ih]

theorem feedAll_mgood : ∀ (chunks : List Bytes) (pp : PP) (input : Bytes) (ay : Bool), MGood pp input ay →
    MGood (feedAllYes pp chunks).1 (input ++ chunks.flatten) (ay && (feedAllYes pp chunks).2) := by
  intro chunks
  induction chunks with
  | nil => intro pp input ay h; simpa [feedAllYes] using h
  | cons c cs ih =>
    intro pp input ay h
    have h1 := feed_mgood pp c input ay h
    have h2 := ih _ _ _ h1
    simp only [feedAllYes, List.flatten_cons]
    rw [← List.append_assoc, Bool.and_assoc] at *
    exact h2

theorem create_multipart_mpend (n : Nat) (ctype : Bytes) (pp0 : PP) (hc : create n ctype = some pp0)
    (hu : pp0.isUrl = false) : MPend pp0 [] 0 := by
  unfold create at hc
  simp only at hc
  split at hc
  · cases hc; cases hu
  · split at hc
    · cases hc
    · split at hc
      · cases hc
      · split at hc
        · cases hc
        · cases hc
          refine ⟨⟨rfl, rfl, by simp [MpState], Or.inl rfl, by intro h; simp [NeedsNested] at h⟩, Nat.zero_le _, ?_, ⟨[], rfl⟩,
            (by intro e he; simp at he), Nat.le_refl _⟩
          show 0 < n + Mhd.Gen.PP.bufferSlack
          have : Mhd.Gen.PP.bufferSlack = 4 := by decide
          omega

theorem mem_of_infix {a T : Bytes} (h : a <:+: T) {b : UInt8} (hb : b ∈ a) : b ∈ T := by
  obtain ⟨x, y, hxy⟩ := h
  rw [← hxy]; simp [hb]

/-- Multipart, **all inputs and all splits**: no access leaves an object, the loop of the model ends
    within its fuel, every delivered value byte is a byte of the input, and if every call returned
    `MHD_YES` every delivered piece is a contiguous piece of the input. -/
theorem multipart_all_inputs (n : Nat) (ctype : Bytes) (pp0 : PP) (chunks : List Bytes)
    (hc : create n ctype = some pp0) (hu : pp0.isUrl = false) :
    (destroy (feedAll pp0 chunks)).1.fault = none ∧
      (∀ e ∈ (destroy (feedAll pp0 chunks)).1.evs, ∀ b ∈ e.data, b ∈ chunks.flatten) ∧
      ((feedAllYes pp0 chunks).2 = true →
        ∀ e ∈ (destroy (feedAll pp0 chunks)).1.evs, e.data <:+: chunks.flatten) := by
  have h0 : MGood pp0 [] true := ⟨[], List.Sublist.refl _, fun _ => rfl, create_multipart_mpend n ctype pp0 hc hu⟩
  have h1 := feedAll_mgood chunks pp0 [] true h0
  rw [feedAllYes_fst] at h1
  simp only [List.nil_append, Bool.true_and] at h1
  obtain ⟨T, hsub, hall, hP⟩ := h1
  have hfs : (feedAll pp0 chunks).fault.isSome = false := by rw [hP.ctl.fault]; rfl
  have hst : (feedAll pp0 chunks).state ≠ .processValue := hP.ctl.st.2.1
  have hd : (destroy (feedAll pp0 chunks)).1 = feedAll pp0 chunks := by
    simp [destroy, hfs, hst]
  rw [hd]
  refine ⟨hP.ctl.fault, ?_, ?_⟩
  · intro e he b hb
    exact hsub.subset (mem_of_infix (hP.evs e he) hb)
  · intro hyes e he
    rw [← hall hyes]
    exact hP.evs e he

end Mhd.PP
