/- Number printing: the decimal digits of Content-Length / the status code and the hexadecimal chunk size
   read back (with the parser of the specification) as the number printed. -/
import Mhd.Proofs.ReplyGrammar
import Mhd.Model.ReplyStr
set_option linter.unusedSimpArgs false
set_option linter.unusedVariables false
namespace Mhd.ReplyNum
open Mhd.ReplyStr
open Mhd.Http (decValue isDigit parseDec parseHex hexDigitVal)
abbrev Bytes := List UInt8

def decFold (acc : Nat) (ds : Bytes) : Nat := ds.foldl (fun acc d => acc * 10 + (d.toNat - 48)) acc

theorem decValue_eq (ds : Bytes) : decValue ds = decFold 0 ds := rfl
theorem decFold_append (acc : Nat) (a b : Bytes) : decFold acc (a ++ b) = decFold (decFold acc a) b := by
  simp [decFold, List.foldl_append]

theorem digitChar_toNat (d : Nat) (h : d < 10) : (digitChar d).toNat = 48 + d := by
  unfold digitChar
  simp [UInt8.toNat_ofNat']
  omega

theorem digitChar_isDigit (d : Nat) (h : d < 10) : isDigit (digitChar d) = true := by
  unfold isDigit; rw [digitChar_toNat d h]; simp; omega

/-- printing `val < 10^(k+1)` with divisor `10^k` appends exactly the `k+1` decimal digits of `val` -/
theorem printDigits_spec : ∀ (k fuel val bufSize : Nat) (out : Bytes), val < 10 ^ (k + 1) → k < fuel → k < bufSize →
    ∃ ds, printDigits fuel val (10 ^ k) bufSize out = some (out ++ ds) ∧ ds.length = k + 1 ∧
      ds.all isDigit = true ∧ (∀ acc, decFold acc ds = acc * 10 ^ (k + 1) + val) ∧
      (ds.head? = some (digitChar (val / 10 ^ k)))
  | 0, fuel, val, bufSize, out, hv, hf, hb => by
    cases fuel with
    | zero => omega
    | succ f =>
      have hb0 : (bufSize == 0) = false := by simp; omega
      refine ⟨[digitChar val], ?_, rfl, ?_, ?_, ?_⟩
      · simp [printDigits, hb0]
      · simp [digitChar_isDigit val (by simpa using hv)]
      · intro acc; simp [decFold, digitChar_toNat val (by simpa using hv)]
      · simp
  | k + 1, fuel, val, bufSize, out, hv, hf, hb => by
    cases fuel with
    | zero => omega
    | succ f =>
      have hb0 : (bufSize == 0) = false := by simp; omega
      have hpos : 0 < 10 ^ (k + 1) := Nat.pow_pos (by omega)
      have h10 : 10 ≤ 10 ^ (k + 1) := by
        have : 0 < 10 ^ k := Nat.pow_pos (by omega)
        rw [Nat.pow_succ]; omega
      have hd1 : (10 ^ (k + 1) == 1) = false := by
        cases hx : (10 ^ (k + 1) == 1) with
        | false => rfl
        | true => have hx' : 10 ^ (k + 1) = 1 := by simpa using hx
                  omega
      have hdiv : 10 ^ (k + 1) / 10 = 10 ^ k := by
        rw [Nat.pow_succ]; exact Nat.mul_div_cancel _ (by omega)
      have hq : val / 10 ^ (k + 1) < 10 := by
        rw [Nat.div_lt_iff_lt_mul hpos]
        have : 10 ^ (k + 1 + 1) = 10 * 10 ^ (k + 1) := by rw [Nat.pow_succ]; omega
        omega
      have hr : val % 10 ^ (k + 1) < 10 ^ (k + 1) := Nat.mod_lt _ hpos
      obtain ⟨ds, h1, h2, h3, h4, h5⟩ := printDigits_spec k f (val % 10 ^ (k + 1)) (bufSize - 1)
        (out ++ [digitChar (val / 10 ^ (k + 1))]) hr (by omega) (by omega)
      refine ⟨digitChar (val / 10 ^ (k + 1)) :: ds, ?_, by simp [h2], ?_, ?_, by simp⟩
      · simp only [printDigits, hb0, hd1, hdiv, Bool.false_eq_true, if_false]
        rw [h1]; simp
      · simp [h3, digitChar_isDigit _ hq]
      · intro acc
        have : decFold acc (digitChar (val / 10 ^ (k + 1)) :: ds)
            = decFold (acc * 10 + (val / 10 ^ (k + 1))) ds := by
          simp [decFold, digitChar_toNat _ hq]
        rw [this, h4]
        have hm := Nat.div_add_mod val (10 ^ (k + 1))
        have e : 10 ^ (k + 1 + 1) = 10 * 10 ^ (k + 1) := by rw [Nat.pow_succ]; omega
        rw [e]
        generalize 10 ^ (k + 1) = P at *
        generalize val / P = q at *
        generalize val % P = m at *
        subst hm
        rw [Nat.add_mul, Nat.mul_assoc, Nat.mul_comm q P, Nat.add_assoc]

theorem skipZeros_spec : ∀ (j fuel val : Nat), val < 10 ^ (j + 1) → j ≤ fuel →
    ∃ i, i ≤ j ∧ skipZeros val fuel (10 ^ j) = 10 ^ i ∧ val < 10 ^ (i + 1) ∧ (i = 0 ∨ val / 10 ^ i ≠ 0)
  | 0, fuel, val, hv, hf => by
    refine ⟨0, Nat.le_refl _, ?_, hv, Or.inl rfl⟩
    cases fuel with
    | zero => rfl
    | succ f => simp [skipZeros]
  | j + 1, fuel, val, hv, hf => by
    cases fuel with
    | zero => omega
    | succ f =>
      have hpos : 0 < 10 ^ (j + 1) := Nat.pow_pos (by omega)
      have h10 : 1 < 10 ^ (j + 1) := by
        have : 0 < 10 ^ j := Nat.pow_pos (by omega)
        rw [Nat.pow_succ]; omega
      have hdiv : 10 ^ (j + 1) / 10 = 10 ^ j := by
        rw [Nat.pow_succ]; exact Nat.mul_div_cancel _ (by omega)
      by_cases hz : val / 10 ^ (j + 1) = 0
      · have hlt : val < 10 ^ (j + 1) := by
          rcases Nat.div_eq_zero_iff.1 hz with h | h
          · omega
          · exact h
        obtain ⟨i, hi, h1, h2, h3⟩ := skipZeros_spec j f val hlt (by omega)
        refine ⟨i, by omega, ?_, h2, h3⟩
        simp only [skipZeros, hz, hdiv]
        simp [h10, h1]
      · refine ⟨j + 1, Nat.le_refl _, ?_, hv, Or.inr hz⟩
        simp [skipZeros, hz]

theorem pow19 : (10000000000000000000 : Nat) = 10 ^ 19 := by decide
theorem pow4 : (10000 : Nat) = 10 ^ 4 := by decide

/-- the decimal digits printed for the body size: non-empty, only digits, and they read back as the size -/
theorem sizeDigits_spec (n : Nat) (h : n < 2 ^ 64) :
    ∃ ds, uint64ToStr n 20 = some ds ∧ ds ≠ [] ∧ ds.all isDigit = true ∧ decValue ds = n := by
  have hn : n < 10 ^ (19 + 1) := by
    have : (2:Nat) ^ 64 < 10 ^ 20 := by decide
    omega
  obtain ⟨i, hi, h1, h2, h3⟩ := skipZeros_spec 19 21 n hn (by omega)
  obtain ⟨ds, p1, p2, p3, p4, p5⟩ := printDigits_spec i 21 n 20 [] h2 (by omega) (by omega)
  refine ⟨ds, ?_, ?_, p3, ?_⟩
  · unfold uint64ToStr; rw [pow19, h1]; simpa using p1
  · intro hh; subst hh; simp at p2
  · rw [decValue_eq, p4 0]; simp

/-- the three digits of a status code -/
theorem codeDigits_spec (c : Nat) (h1 : 100 ≤ c) (h2 : c ≤ 999) :
    ∃ d1 d2 d3, uint16ToStr c 4 = some [d1, d2, d3] ∧ isDigit d1 = true ∧ isDigit d2 = true ∧ isDigit d3 = true ∧
      d1 ≠ 48 ∧ decValue [d1, d2, d3] = c := by
  have hn : c < 10 ^ (4 + 1) := by have : (10:Nat) ^ 5 = 100000 := by decide
                                   omega
  obtain ⟨i, hi, e1, e2, e3⟩ := skipZeros_spec 4 6 c hn (by omega)
  have hi2 : i = 2 := by
    have p2 : (10:Nat) ^ 2 = 100 := by decide
    have p3 : (10:Nat) ^ 3 = 1000 := by decide
    rcases Nat.lt_or_ge i 2 with hlt | hge
    · have : (10:Nat) ^ (i + 1) ≤ 10 ^ 2 := Nat.pow_le_pow_right (by omega) (by omega)
      omega
    · rcases Nat.lt_or_ge 2 i with hgt | hle
      · rcases e3 with e3 | e3
        · omega
        · have : (10:Nat) ^ 3 ≤ 10 ^ i := Nat.pow_le_pow_right (by omega) (by omega)
          have : c / 10 ^ i = 0 := Nat.div_eq_of_lt (by omega)
          exact absurd this e3
      · omega
  subst hi2
  obtain ⟨ds, p1, p2, p3, p4, p5⟩ := printDigits_spec 2 6 c 4 [] e2 (by omega) (by omega)
  match ds, p2 with
  | [d1, d2, d3], _ =>
    refine ⟨d1, d2, d3, ?_, ?_, ?_, ?_, ?_, ?_⟩
    · unfold uint16ToStr; rw [pow4, e1]; simpa using p1
    · simp at p3; exact p3.1
    · simp at p3; exact p3.2.1
    · simp at p3; exact p3.2.2
    · simp at p5
      have hq : c / 10 ^ 2 < 10 := by
        have p2' : (10:Nat) ^ 2 = 100 := by decide
        rw [p2']; omega
      have hq1 : 1 ≤ c / 10 ^ 2 := by
        have p2' : (10:Nat) ^ 2 = 100 := by decide
        rw [p2']; omega
      intro hh
      have := congrArg UInt8.toNat p5
      rw [hh, digitChar_toNat _ hq] at this
      simp at this; omega
    · rw [decValue_eq, p4 0]; simp

/-! ### hexadecimal chunk sizes -/

def hexFold (acc : Option Nat) (ds : Bytes) : Option Nat :=
  ds.foldl (fun acc d => match acc, hexDigitVal d with
                      | some a, some v => some (a * 16 + v)
                      | _, _ => none) acc

theorem parseHex_eq (ds : Bytes) (h : ds ≠ []) : parseHex ds = hexFold (some 0) ds := by
  cases ds with
  | nil => exact absurd rfl h
  | cons a t => rfl

theorem hexChar_val (d : Nat) (h : d < 16) : hexDigitVal (hexChar d) = some d := by
  have : d = 0 ∨ d = 1 ∨ d = 2 ∨ d = 3 ∨ d = 4 ∨ d = 5 ∨ d = 6 ∨ d = 7 ∨ d = 8 ∨ d = 9 ∨ d = 10 ∨ d = 11 ∨
      d = 12 ∨ d = 13 ∨ d = 14 ∨ d = 15 := by omega
  rcases this with h | h | h | h | h | h | h | h | h | h | h | h | h | h | h | h <;> (subst h; decide)

theorem hexChar_noCRLF (d : Nat) (h : d < 16) : hexChar d ≠ 13 ∧ hexChar d ≠ 10 := by
  have : d = 0 ∨ d = 1 ∨ d = 2 ∨ d = 3 ∨ d = 4 ∨ d = 5 ∨ d = 6 ∨ d = 7 ∨ d = 8 ∨ d = 9 ∨ d = 10 ∨ d = 11 ∨
      d = 12 ∨ d = 13 ∨ d = 14 ∨ d = 15 := by omega
  rcases this with h | h | h | h | h | h | h | h | h | h | h | h | h | h | h | h <;> (subst h; decide)

theorem hexFold_cons (acc d : Nat) (t : Bytes) (h : d < 16) :
    hexFold (some acc) (hexChar d :: t) = hexFold (some (acc * 16 + d)) t := by
  simp [hexFold, hexChar_val d h]

/-- printing: `digit` is the nibble to print now, `m < 16^dp` the `dp` nibbles still held (left-aligned) in `val` -/
theorem strxPrint_spec : ∀ (dp fuel digit val bufSize m : Nat) (out : Bytes), dp ≤ 7 → digit < 16 →
    val = m * 16 ^ (8 - dp) → m < 16 ^ dp → dp < fuel → out.length + dp < bufSize →
    ∃ hs, strxPrint fuel dp digit val bufSize out = some (out ++ hs) ∧ hs.length = dp + 1 ∧
      (∀ acc, hexFold (some acc) hs = some ((acc * 16 + digit) * 16 ^ dp + m)) ∧
      (∀ b ∈ hs, b ≠ 13 ∧ b ≠ 10)
  | 0, fuel, digit, val, bufSize, m, out, hdp, hd, hv, hm, hf, hb => by
    cases fuel with
    | zero => omega
    | succ f =>
      have hm0 : m = 0 := by simpa using hm
      refine ⟨[hexChar digit], ?_, rfl, ?_, ?_⟩
      · have : out.length < bufSize := by omega
        simp [strxPrint, this]
      · intro acc; rw [hexFold_cons _ _ _ hd]; simp [hexFold, hm0]
      · intro b hb; simp at hb; subst hb; exact hexChar_noCRLF _ hd
  | dp + 1, fuel, digit, val, bufSize, m, out, hdp, hd, hv, hm, hf, hb => by
    cases fuel with
    | zero => omega
    | succ f =>
      have hlt : out.length < bufSize := by omega
      have hne : (dp + 1 == 0) = false := by simp
      -- next nibble and remaining value, by the concrete value of dp
      have key : val / 2 ^ 28 < 16 ∧ (val * 16) % 2 ^ 32 = (m % 16 ^ dp) * 16 ^ (8 - dp) ∧
          m = (val / 2 ^ 28) * 16 ^ dp + m % 16 ^ dp ∧ m % 16 ^ dp < 16 ^ dp := by
        have hc : dp = 0 ∨ dp = 1 ∨ dp = 2 ∨ dp = 3 ∨ dp = 4 ∨ dp = 5 ∨ dp = 6 := by omega
        rcases hc with h | h | h | h | h | h | h <;> (subst h; simp at hv hm ⊢; omega)
      obtain ⟨k1, k2, k3, k4⟩ := key
      obtain ⟨hs, p1, p2, p3, p4⟩ := strxPrint_spec dp f (val / 2 ^ 28) ((val * 16) % 2 ^ 32) bufSize (m % 16 ^ dp)
        (out ++ [hexChar digit]) (by omega) k1 k2 k4 (by omega) (by simp; omega)
      refine ⟨hexChar digit :: hs, ?_, by simp [p2], ?_, ?_⟩
      · simp only [strxPrint, hlt, if_true, hne, Bool.false_eq_true, if_false]
        simp only [Nat.add_sub_cancel]
        rw [p1]; simp
      · intro acc
        rw [hexFold_cons _ _ _ hd, p3]
        have e : 16 ^ (dp + 1) = 16 * 16 ^ dp := by rw [Nat.pow_succ]; omega
        rw [e]
        generalize 16 ^ dp = P at *
        generalize m % P = r at *
        generalize val / 2 ^ 28 = q at *
        subst k3
        generalize acc * 16 + digit = X
        rw [Nat.add_mul, Nat.mul_assoc, Nat.add_assoc]
      · intro b hb
        rcases List.mem_cons.1 hb with rfl | hb'
        · exact hexChar_noCRLF _ hd
        · exact p4 b hb'

/-- skipping leading zero nibbles -/
theorem strxSkip_spec : ∀ (dp fuel val m : Nat), 1 ≤ dp → dp ≤ 8 → val = m * 16 ^ (8 - dp) → m < 16 ^ dp → dp ≤ fuel →
    ∃ dp' digit m', strxSkip fuel dp val = (dp', digit, m' * 16 ^ (8 - dp')) ∧ dp' < dp ∧
      m = digit * 16 ^ dp' + m' ∧ m' < 16 ^ dp' ∧ digit < 16 ∧ (digit ≠ 0 ∨ dp' = 0)
  | dp, 0, val, m, h1, h8, hv, hm, hf => by omega
  | dp, fuel + 1, val, m, h1, h8, hv, hm, hf => by
    have key : val / 2 ^ 28 < 16 ∧ (val * 16) % 2 ^ 32 = (m % 16 ^ (dp - 1)) * 16 ^ (8 - (dp - 1)) ∧
        m = (val / 2 ^ 28) * 16 ^ (dp - 1) + m % 16 ^ (dp - 1) ∧ m % 16 ^ (dp - 1) < 16 ^ (dp - 1) := by
      have hc : dp = 1 ∨ dp = 2 ∨ dp = 3 ∨ dp = 4 ∨ dp = 5 ∨ dp = 6 ∨ dp = 7 ∨ dp = 8 := by omega
      rcases hc with h | h | h | h | h | h | h | h <;> (subst h; simp at hv hm ⊢; omega)
    obtain ⟨k1, k2, k3, k4⟩ := key
    by_cases hz : (val / 2 ^ 28 == 0 && dp - 1 != 0) = true
    · -- another round
      have hzb := hz
      rw [Bool.and_eq_true, beq_iff_eq, bne_iff_ne] at hz
      obtain ⟨i1, i2, i3, i4, i5, i6, i7⟩ := strxSkip_spec (dp - 1) fuel ((val * 16) % 2 ^ 32) (m % 16 ^ (dp - 1))
        (by omega) (by omega) k2 k4 (by omega)
      obtain ⟨dp', digit, m', j1, j2, j3, j4, j5, j6⟩ := (⟨i1, i2, i3, i4, i5, i6, i7⟩ :
        ∃ dp' digit m', strxSkip fuel (dp - 1) (val * 16 % 2 ^ 32) = (dp', digit, m' * 16 ^ (8 - dp')) ∧ dp' < dp - 1 ∧
          m % 16 ^ (dp - 1) = digit * 16 ^ dp' + m' ∧ m' < 16 ^ dp' ∧ digit < 16 ∧ (digit ≠ 0 ∨ dp' = 0))
      refine ⟨dp', digit, m', ?_, by omega, ?_, j4, j5, j6⟩
      · simp only [strxSkip, hzb, if_true]
        exact j1
      · rw [k3, hz.1, j3]; simp
    · refine ⟨dp - 1, val / 2 ^ 28, m % 16 ^ (dp - 1), ?_, by omega, k3, k4, k1, ?_⟩
      · simp only [strxSkip]
        simp only [hz, Bool.false_eq_true, if_false, k2]
      · by_cases h0 : val / 2 ^ 28 = 0
        · right
          by_cases h1' : dp - 1 = 0
          · exact h1'
          · exfalso; apply hz
            rw [Bool.and_eq_true, beq_iff_eq, bne_iff_ne]; exact ⟨h0, h1'⟩
        · left; exact h0

/-- a chunk size `0 < n < 16^6` is printed as hex digits that read back as `n` -/
theorem strx_spec (n : Nat) (h0 : 0 < n) (h : n < 16 ^ 6) :
    ∃ hs, uint32ToStrx n 6 = some hs ∧ hs ≠ [] ∧ parseHex hs = some n ∧ (∀ b ∈ hs, b ≠ 13 ∧ b ≠ 10) := by
  have h8 : n < 16 ^ 8 := by
    have : (16:Nat) ^ 6 < 16 ^ 8 := by decide
    omega
  obtain ⟨dp', digit, m', j1, j2, j3, j4, j5, j6⟩ := strxSkip_spec 8 9 n n (by omega) (by omega) (by simp) h8 (by omega)
  -- at most six digits: dp' ≤ 5
  have hdp : dp' ≤ 5 := by
    rcases Nat.lt_or_ge dp' 6 with hl | hg
    · omega
    · exfalso
      rcases j6 with j6 | j6
      · have : 16 ^ 6 ≤ 16 ^ dp' := Nat.pow_le_pow_right (by omega) hg
        have : 1 * 16 ^ dp' ≤ digit * 16 ^ dp' := Nat.mul_le_mul_right _ (by omega)
        omega
      · omega
  obtain ⟨hs, p1, p2, p3, p4⟩ := strxPrint_spec dp' 9 digit (m' * 16 ^ (8 - dp')) 6 m' [] (by omega) j5 rfl j4
    (by omega) (by simp; omega)
  refine ⟨hs, ?_, ?_, ?_, p4⟩
  · unfold uint32ToStrx; rw [j1]; simpa using p1
  · intro hh; subst hh; simp at p2
  · rw [parseHex_eq _ (by intro hh; subst hh; simp at p2), p3 0]; simp [j3]
end Mhd.ReplyNum
