/-
  C07 — try_ready_chunked_body and the reply states of MHD_connection_handle_idle preserve the invariant.
-/
import Mhd.Proofs.SendBody
namespace Mhd.Send
open Mhd.Gen.Send

theorem maxChunk_lt_16_6 : maxChunk < 16777216 := by decide

/-- a chunk size has at most six hex digits -/
theorem hexOf_length (n : Nat) (h : n ≤ maxChunk) : 1 ≤ (hexOf n).length ∧ (hexOf n).length ≤ chunkHdrDigits := by
  have hlt : n < 16777216 := Nat.lt_of_le_of_lt h maxChunk_lt_16_6
  have h1 : n / 268435456 % 16 = 0 := by omega
  have h2 : n / 16777216 % 16 = 0 := by omega
  have hd : chunkHdrDigits = 6 := by decide
  unfold hexOf leadNibbles
  rw [h1, h2, hd]
  simp only [List.length_map, List.length_append, List.length_cons, List.length_nil]
  have hdw : ∀ (l : List Nat), (List.dropWhile (fun x => decide (x = 0)) l).length ≤ l.length := by
    intro l
    induction l with
    | nil => simp
    | cons a t ih => simp only [List.dropWhile_cons]; split <;> simp <;> omega
  have := hdw [n / 1048576 % 16, n / 65536 % 16, n / 4096 % 16, n / 256 % 16, n / 16 % 16]
  simp only [List.dropWhile_cons, decide_true, if_true] at *
  simp only [List.length_cons, List.length_nil] at this
  omega

theorem sizeToFill0_le (r : Resp) : sizeToFill0 r ≤ maxChunk ∧ sizeToFill0 r ≤ r.wbSize - maxChunkOverhead := by
  unfold sizeToFill0; simp only []; split <;> omega

theorem capMax_le (m n : Nat) : capMax m n ≤ n := by unfold capMax; split <;> omega

theorem capMax_zero (n : Nat) : capMax 0 n = n := by simp [capMax]

theorem slice_length (l : Bytes) (a n : Nat) (h : a + n ≤ l.length) : (slice l a n).length = n := by
  simp only [slice, List.length_take, List.length_drop]; omega

/-- the frame that try_ready_chunked_body writes into the write buffer -/
theorem chunk_in_wb (hx d : Bytes) (so : Nat) :
    slice (List.replicate so 0 ++ hx ++ crlf ++ d ++ crlf) so (hx.length + 2 + d.length + 2) = hx ++ crlf ++ d ++ crlf := by
  unfold slice
  have e : List.replicate so (0 : UInt8) ++ hx ++ crlf ++ d ++ crlf = List.replicate so 0 ++ (hx ++ crlf ++ d ++ crlf) := by
    simp only [List.append_assoc]
  rw [e, List.drop_append]
  have hl : (List.replicate so (0 : UInt8)).length = so := List.length_replicate
  rw [List.drop_of_length_le (by rw [hl]; exact Nat.le_refl _), hl, Nat.sub_self, List.drop_zero, List.nil_append]
  apply List.take_of_length_le
  simp [crlf]; omega


theorem minChunkBuf_val : minChunkBuf = 128 := by decide
theorem chunkHdrDigits_val : chunkHdrDigits = 6 := by decide

/-- CHUNKED_BODY_UNREADY → CHUNKED_BODY_READY with the next chunk framed in the write buffer -/
theorem chunk_data_inv {r : Resp} {c : Conn} (h : Inv r c) (hs : c.st = .chunkedBodyUnready) (n : Nat)
    (hlt : c.rp < r.body.length) (hn0 : n ≠ 0)
    (hn : n = capMax r.cbMax (min (sizeToFill0 r) (r.body.length - c.rp))) (hki : r.kind ≠ .iovec) :
    Inv r { c with wb := List.replicate (maxChunkHdrLen - ((hexOf n).length + 2)) 0 ++ hexOf n ++ crlf ++ slice r.body c.rp n ++ crlf,
                   so := maxChunkHdrLen - ((hexOf n).length + 2), ao := maxChunkHdrLen + n + 2, rp := c.rp + n,
                   st := .chunkedBodyReady } := by
  have hne : c.st ≠ .closed := by rw [hs]; decide
  have hcore := h.core hne
  obtain ⟨hsb, hch⟩ := h.stChunk (Or.inl hs)
  have heq := h.eqn hne
  simp only [pending, hs] at heq
  have hnle : n ≤ r.body.length - c.rp := by
    rw [hn]; exact Nat.le_trans (capMax_le _ _) (Nat.min_le_right _ _)
  have hnmax : n ≤ maxChunk := by
    rw [hn]; exact Nat.le_trans (capMax_le _ _) (Nat.le_trans (Nat.min_le_left _ _) (sizeToFill0_le r).1)
  obtain ⟨hh1, hh2⟩ := hexOf_length n hnmax
  have hdl : (slice r.body c.rp n).length = n := slice_length _ _ _ (by omega)
  have hmc : maxChunkHdrLen = chunkHdrDigits + 2 := rfl
  have hso : maxChunkHdrLen - ((hexOf n).length + 2) + ((hexOf n).length + 2) = maxChunkHdrLen := by omega
  have haosub : maxChunkHdrLen + n + 2 - (maxChunkHdrLen - ((hexOf n).length + 2)) = (hexOf n).length + 2 + (slice r.body c.rp n).length + 2 := by
    rw [hdl]; omega
  have hframe : slice (List.replicate (maxChunkHdrLen - ((hexOf n).length + 2)) 0 ++ hexOf n ++ crlf ++ slice r.body c.rp n ++ crlf)
        (maxChunkHdrLen - ((hexOf n).length + 2)) (maxChunkHdrLen + n + 2 - (maxChunkHdrLen - ((hexOf n).length + 2)))
        = chunkFrame (slice r.body c.rp n) := by
    rw [haosub, chunk_in_wb]; unfold chunkFrame; rw [hdl]
  have hfr := frames_step r c.rp hlt (by rw [← hn]; exact hn0)
  rw [← hn] at hfr
  refine ⟨h.nofault, fun _ => ?_, ?_, ?_, ?_, ?_, ?_⟩
  · refine ⟨fun _ => by show c.rp + n ≤ _; omega, hcore.win, ?_, ?_, hcore.sfOk, hcore.winChunk, hcore.iovNe, hcore.sfWin⟩
    · intro hk _; exact absurd hk hki
    · have ht := hcore.tot
      unfold TotOk at ht ⊢
      split
      · rename_i hkn; rw [if_pos hkn] at ht; exact ht
      · rename_i hkn; rw [if_neg hkn] at ht
        rcases ht with ht | ht
        · exact Or.inl ht
        · omega
  · intro _
    simp only [pending]
    rw [hframe, ← heq, hfr]
    try simp only [List.append_assoc]
  · exact h.pfx
  · intro _
    refine ⟨by show maxChunkHdrLen - ((hexOf n).length + 2) < maxChunkHdrLen + n + 2; omega, ?_⟩
    show maxChunkHdrLen + n + 2 ≤ _
    simp only [List.length_append, List.length_replicate, hdl, crlf, List.length_cons, List.length_nil]
    omega
  · intro x; rcases x with x | x <;> cases x
  · intro _; exact ⟨hsb, hch⟩


theorem sizeUnknown_ne_zero : sizeUnknown ≠ 0 := by decide

theorem tot_zero_empty {r : Resp} {c : Conn} (_hw : WF r) (hc : Core r c) (hsb : r.sendBody = true) (h0 : c.tot = 0) :
    r.body.length ≤ c.rp := by
  have ht := hc.tot
  have := hc.rpLe hsb
  have hu := sizeUnknown_ne_zero
  unfold TotOk at ht
  split at ht
  · omega
  · rcases ht with ht | ht <;> omega

/-- the final state after `try_ready_chunked_body` as `MHD_connection_handle_idle` sets it -/
def afterChunkTry (c' : Conn) : Option Bool → Conn
  | some fin => { c' with st := if fin then St.chunkedBodySent else St.chunkedBodyReady }
  | none => c'

theorem tryChunk_spec {r : Resp} {c : Conn} (hw : WF r) (h : Inv r c) (hs : c.st = .chunkedBodyUnready)
    (app : AppAns) (c' : Conn) (res : Option Bool) (hres : tryReadyChunkedBody r c app = (c', res)) :
    Inv r (afterChunkTry c' res) := by
  have hne : c.st ≠ .closed := by rw [hs]; decide
  have hcore := h.core hne
  obtain ⟨hsb, hch⟩ := h.stChunk (Or.inl hs)
  have hrp := hcore.rpLe hsb
  have heq := h.eqn hne
  simp only [pending, hs] at heq
  have hsent : r.body.length ≤ c.rp → ∀ t, (t = c.tot ∨ t = c.rp) →
      Inv r { c with tot := t, st := .chunkedBodySent } := by
    intro hend t ht
    have hfe := frames_end r c.rp hend
    rw [hfe, List.nil_append] at heq
    refine ⟨h.nofault, fun _ => ?_, ?_, h.pfx, ?_, ?_, ?_⟩
    · refine ⟨hcore.rpLe, hcore.win, hcore.iovOk, ?_, hcore.sfOk, hcore.winChunk, hcore.iovNe, hcore.sfWin⟩
      rcases ht with ht | ht
      · rw [ht]; exact hcore.tot
      · have := hcore.tot
        unfold TotOk at this ⊢
        split
        · show t = _; omega
        · exact Or.inr ⟨by show t = _; omega, by show c.rp = _; omega⟩
    · intro _; simp only [pending]; exact heq
    · intro x; rcases x with x | x | x <;> cases x
    · intro x; rcases x with x | x <;> cases x
    · intro _; exact ⟨hsb, hch⟩
  unfold tryReadyChunkedBody at hres
  split at hres
  · -- the buffer cannot be made large enough
    simp only [Prod.mk.injEq] at hres; obtain ⟨rfl, rfl⟩ := hres
    exact Inv.closed h.nofault rfl h.pfx
  · rename_i hwb
    simp only [] at hres
    generalize hleft : (if c.tot = sizeUnknown then sizeUnknown else c.tot - c.rp) = left at hres
    generalize hstf : (if left < sizeToFill0 r then left else sizeToFill0 r) = stf at hres
    -- `left` is at least what the content still holds
    have hleft_ge : r.body.length - c.rp ≤ left := by
      have ht := hcore.tot
      have hsz := hw.size
      unfold TotOk at ht
      rw [← hleft]
      split at ht <;> split <;> omega
    have hmin : min stf (r.body.length - c.rp) = min (sizeToFill0 r) (r.body.length - c.rp) := by
      rw [← hstf]; split <;> omega
    have hstf_le : stf ≤ r.wbSize - maxChunkOverhead := by
      rw [← hstf]; have := (sizeToFill0_le r).2; split <;> omega
    have hov : maxChunkOverhead = chunkHdrDigits + 2 + 2 := rfl
    have hmc : maxChunkHdrLen = chunkHdrDigits + 2 := rfl
    have h128 := minChunkBuf_val
    have h6 := chunkHdrDigits_val
    -- the data case, once the size of the chunk is known to be the one `frames` uses
    have hdata : ∀ n, n ≠ 0 → c.rp < r.body.length → n = capMax r.cbMax (min stf (r.body.length - c.rp)) →
        r.kind ≠ .iovec →
        (if stf < n then (closeErr c, (none : Option Bool))
         else if r.wbSize < maxChunkHdrLen + n + 2 then (setFault c, none)
         else ({ c with wb := List.replicate (maxChunkHdrLen - ((hexOf n).length + 2)) 0 ++ hexOf n ++ crlf ++ slice r.body c.rp n ++ crlf,
                        so := maxChunkHdrLen - ((hexOf n).length + 2), ao := maxChunkHdrLen + n + 2, rp := c.rp + n }, some false))
          = (c', res) → Inv r (afterChunkTry c' res) := by
      intro n hn0 hlt hn hki hres'
      have hnstf : n ≤ stf := by
        rw [hn]; exact Nat.le_trans (capMax_le _ _) (Nat.min_le_left _ _)
      rw [if_neg (by omega), if_neg (by omega)] at hres'
      simp only [Prod.mk.injEq] at hres'; obtain ⟨rfl, rfl⟩ := hres'
      rw [hmin] at hn
      exact chunk_data_inv h hs n hlt hn0 hn hki
    by_cases hl0 : left = 0
    · -- left_to_send = 0
      rw [if_pos hl0] at hres
      simp only [Prod.mk.injEq] at hres; obtain ⟨rfl, rfl⟩ := hres
      have hend : r.body.length ≤ c.rp := by omega
      exact hsent hend c.rp (Or.inr rfl)
    · rw [if_neg hl0] at hres
      by_cases hwin : c.ds ≤ c.rp ∧ c.rp < c.ds + c.dz
      · -- the data buffer of the response covers the position
        rw [if_pos hwin] at hres
        have hkb : r.kind = .buffer := by
          by_cases hkb : r.kind = .buffer
          · exact hkb
          · have := hcore.winChunk hch hkb; omega
        have hwin2 := hcore.win
        rw [if_pos hkb] at hwin2
        have hcb := hw.cb_max (by rw [hkb]; decide)
        have hlt : c.rp < r.body.length := by omega
        generalize hn : (if stf < c.dz - (c.rp - c.ds) then stf else c.dz - (c.rp - c.ds)) = n at hres
        have hnval : n = capMax r.cbMax (min stf (r.body.length - c.rp)) := by
          rw [hcb, capMax_zero, ← hn]; split <;> omega
        have hn0 : n ≠ 0 := by
          rw [hnval, hcb, capMax_zero, hmin]
          have hs0 : 1 ≤ sizeToFill0 r := by
            unfold sizeToFill0; simp only []
            have : 0 < maxChunk := by decide
            split <;> omega
          omega
        cases n with
        | zero => exact absurd rfl hn0
        | succ m =>
          simp only [] at hres
          exact hdata (m + 1) hn0 hlt hnval (by rw [hkb]; decide) hres
      · rw [if_neg hwin] at hres
        by_cases hk : r.kind = .buffer ∨ r.kind = .iovec
        · -- no content reader
          rw [if_pos hk] at hres
          simp only [Prod.mk.injEq] at hres; obtain ⟨rfl, rfl⟩ := hres
          exact Inv.closed h.nofault rfl h.pfx
        · rw [if_neg hk] at hres
          have hki : r.kind ≠ .iovec := fun e => hk (Or.inr e)
          cases hcrc : crcCall r c.rp stf app with
          | err =>
            rw [hcrc] at hres; simp only [Prod.mk.injEq] at hres; obtain ⟨rfl, rfl⟩ := hres
            exact Inv.closed h.nofault rfl h.pfx
          | eos =>
            rw [hcrc] at hres; simp only [Prod.mk.injEq] at hres; obtain ⟨rfl, rfl⟩ := hres
            exact hsent (crcCall_eos hcrc) c.rp (Or.inr rfl)
          | data n =>
            rw [hcrc] at hres
            cases n with
            | zero =>
              simp only [Prod.mk.injEq] at hres; obtain ⟨rfl, rfl⟩ := hres
              have : ({ c with st := St.chunkedBodyUnready } : Conn) = c := by
                cases c; simp only [] at hs; subst hs; rfl
              show Inv r { c with st := St.chunkedBodyUnready }
              rw [this]; exact h
            | succ m =>
              simp only [] at hres
              have hd := crcCall_data hcrc (Nat.succ_ne_zero m)
              refine hdata (m + 1) (Nat.succ_ne_zero m) hd.1 ?_ hki hres
              -- what the reader handed out is what `frames` expects
              unfold crcCall at hcrc
              split at hcrc
              · split at hcrc
                · cases hcrc
                · cases hcrc
                · unfold readerGives at hcrc
                  split at hcrc
                  · cases hcrc
                  · simp only [CbRes.data.injEq] at hcrc; exact hcrc.symm
              · rename_i hkc
                have hcb := hw.cb_max (by intro e; exact hkc e)
                unfold readerGives at hcrc
                split at hcrc
                · cases hcrc
                · simp only [CbRes.data.injEq] at hcrc; rw [hcb]; exact hcrc.symm


theorem idleStep_inv {r : Resp} {c : Conn} (hw : WF r) (h : Inv r c) (app : AppAns) (alloc : Bool) :
    Inv r (idleStep r c app alloc) := by
  cases hs : c.st with
  | headersSent =>
    have hne : c.st ≠ .closed := by rw [hs]; decide
    have hcore := h.core hne
    have heq := h.eqn hne
    simp only [pending, hs] at heq
    unfold idleStep; rw [hs]; simp only []
    by_cases hsb : r.sendBody = true
    · rw [if_pos hsb]
      simp only [afterHeaders, hsb, if_true] at heq
      by_cases hch : r.chunked = true
      · rw [if_pos hch]
        rw [if_pos hch] at heq
        refine ⟨h.nofault, fun _ => hcore.congr rfl rfl rfl rfl rfl rfl, ?_, h.pfx, ?_, ?_, ?_⟩
        · intro _; simp only [pending]; exact heq
        · intro x; rcases x with x | x | x <;> cases x
        · intro x; rcases x with x | x <;> cases x
        · intro _; exact ⟨hsb, hch⟩
      · rw [if_neg hch]
        rw [if_neg hch] at heq
        refine ⟨h.nofault, fun _ => hcore.congr rfl rfl rfl rfl rfl rfl, ?_, h.pfx, ?_, ?_, ?_⟩
        · intro _; simp only [pending]; exact heq
        · intro x; rcases x with x | x | x <;> cases x
        · intro _; exact ⟨hsb, by simpa using hch⟩
        · intro x; rcases x with x | x | x | x <;> cases x
    · rw [if_neg hsb]
      simp only [afterHeaders, hsb] at heq
      refine ⟨h.nofault, fun _ => hcore.congr rfl rfl rfl rfl rfl rfl, ?_, h.pfx, ?_, ?_, ?_⟩
      · intro _; simp only [pending]; simpa using heq
      · intro x; rcases x with x | x | x <;> cases x
      · intro x; rcases x with x | x <;> cases x
      · intro x; rcases x with x | x | x | x <;> cases x
  | normalBodyUnready =>
    have hst : isNb c.st := Or.inr hs
    have hcore := h.core hst.ne_closed
    obtain ⟨hsb, hnc⟩ := h.stBody (Or.inl hs)
    have heq := h.eqn hst.ne_closed
    rw [pending_nb hst] at heq
    unfold idleStep; rw [hs]; simp only []
    by_cases h0 : c.tot = 0
    · rw [if_pos h0]
      have hend := tot_zero_empty hw hcore hsb h0
      have hdrop : r.body.drop c.rp = [] := List.drop_eq_nil_of_le hend
      rw [hdrop, List.append_nil] at heq
      simp only [hnc, Bool.false_eq_true, if_false]
      refine ⟨h.nofault, fun _ => hcore.congr rfl rfl rfl rfl rfl rfl, ?_, h.pfx, ?_, ?_, ?_⟩
      · intro _; simp only [pending, List.append_nil]; exact heq
      · intro x; rcases x with x | x | x <;> cases x
      · intro x; rcases x with x | x <;> cases x
      · intro x; rcases x with x | x | x | x <;> cases x
    · rw [if_neg h0]
      cases hres : tryReadyNormalBody r c app alloc with
      | mk c' ok =>
        obtain ⟨hinv', hyes, hno⟩ := tryReady_spec hw h hst app alloc c' ok hres
        cases ok with
        | false => exact hinv'
        | true =>
          obtain ⟨e1, e2, e3, e4, e5, _⟩ := hyes rfl
          simp only [if_true]
          have hst' : isNb c'.st := by rw [e1]; exact hst
          refine Inv.nb_update (c' := { c' with st := .normalBodyReady }) hinv' hst' (Or.inl rfl) rfl rfl hinv'.nofault ?_
          exact (hinv'.core hst'.ne_closed).congr rfl rfl rfl rfl rfl rfl
  | chunkedBodyUnready =>
    have hne : c.st ≠ .closed := by rw [hs]; decide
    have hcore := h.core hne
    obtain ⟨hsb, hch⟩ := h.stChunk (Or.inl hs)
    have heq := h.eqn hne
    simp only [pending, hs] at heq
    unfold idleStep; rw [hs]; simp only []
    by_cases h0 : c.tot = 0 ∨ c.rp = c.tot
    · rw [if_pos h0]
      have hend : r.body.length ≤ c.rp := by
        rcases h0 with h0 | h0
        · exact tot_zero_empty hw hcore hsb h0
        · exact tot_eq_rp_end hw hcore hsb h0.symm
      rw [frames_end r c.rp hend, List.nil_append] at heq
      refine ⟨h.nofault, fun _ => hcore.congr rfl rfl rfl rfl rfl rfl, ?_, h.pfx, ?_, ?_, ?_⟩
      · intro _; simp only [pending]; exact heq
      · intro x; rcases x with x | x | x <;> cases x
      · intro x; rcases x with x | x <;> cases x
      · intro _; exact ⟨hsb, hch⟩
    · rw [if_neg h0]
      cases hres : tryReadyChunkedBody r c app with
      | mk c' res =>
        have := tryChunk_spec hw h hs app c' res hres
        cases res with
        | none => exact this
        | some fin => exact this
  | chunkedBodySent =>
    have hne : c.st ≠ .closed := by rw [hs]; decide
    have hcore := h.core hne
    obtain ⟨hsb, hch⟩ := h.stChunk (Or.inr (Or.inr (Or.inl hs)))
    have heq := h.eqn hne
    simp only [pending, hs] at heq
    unfold idleStep; rw [hs]; simp only []
    cases alloc with
    | false => exact Inv.closed h.nofault rfl h.pfx
    | true =>
      simp only [if_true]
      have hfl := length_pos_of_ne_nil hw.footer_ne
      refine ⟨h.nofault, fun _ => hcore.congr rfl rfl rfl rfl rfl rfl, ?_, h.pfx, ?_, ?_, ?_⟩
      · intro _
        simp only [pending, slice, List.drop_zero, Nat.sub_zero, List.take_length]
        exact heq
      · intro _; exact ⟨hfl, Nat.le_refl _⟩
      · intro x; rcases x with x | x <;> cases x
      · intro _; exact ⟨hsb, hch⟩
  | fullReplySent =>
    have hne : c.st ≠ .closed := by rw [hs]; decide
    have hcore := h.core hne
    have heq := h.eqn hne
    simp only [pending, hs] at heq
    unfold idleStep; rw [hs]; simp only []
    refine ⟨h.nofault, fun _ => hcore.congr rfl rfl rfl rfl rfl rfl, ?_, h.pfx, ?_, ?_, ?_⟩
    · intro _; simp only [pending]; exact heq
    · intro x; rcases x with x | x | x <;> cases x
    · intro x; rcases x with x | x <;> cases x
    · intro x; rcases x with x | x | x | x <;> cases x
  | headersSending => unfold idleStep; rw [hs]; exact h
  | normalBodyReady => unfold idleStep; rw [hs]; exact h
  | chunkedBodyReady => unfold idleStep; rw [hs]; exact h
  | footersSending => unfold idleStep; rw [hs]; exact h
  | done => unfold idleStep; rw [hs]; exact h
  | closed => unfold idleStep; rw [hs]; exact h

theorem handleIdle_inv {r : Resp} {c : Conn} (hw : WF r) (h : Inv r c) (app : AppAns) (alloc : Bool) :
    Inv r (handleIdle r c app alloc) := by
  unfold handleIdle
  exact idleClosed_inv (idleStep_inv hw (idleStep_inv hw (idleStep_inv hw (idleStep_inv hw h app alloc) app alloc) app alloc) app alloc)

theorem handleWrite_inv {r : Resp} {c : Conn} (hw : WF r) (h : Inv r c) (s1 s2 : SockRes) (h2 : s2.Legal)
    (app : AppAns) (alloc : Bool) : Inv r (handleWrite r c s1 s2 app alloc) := by
  cases hs : c.st with
  | headersSending => unfold handleWrite; rw [hs]; exact hw_headers_inv hw h hs s1 s2 h2
  | normalBodyReady => unfold handleWrite; rw [hs]; exact hw_normalBody_inv hw h hs s1 app alloc
  | chunkedBodyReady => exact hw_chunkedReady_inv hw h hs s1 s2 app alloc
  | footersSending => exact hw_footers_inv h hs s1 s2 app alloc
  | headersSent => unfold handleWrite; rw [hs]; exact h
  | normalBodyUnready => unfold handleWrite; rw [hs]; exact h
  | chunkedBodyUnready => unfold handleWrite; rw [hs]; exact h
  | chunkedBodySent => unfold handleWrite; rw [hs]; exact h
  | fullReplySent => unfold handleWrite; rw [hs]; exact h
  | done => unfold handleWrite; rw [hs]; exact h
  | closed => unfold handleWrite; rw [hs]; exact h


theorem init_inv {r : Resp} (hw : WF r) : Inv r (initConn r) := by
  have hl := length_pos_of_ne_nil hw.hdr_ne
  refine ⟨rfl, fun _ => ?_, ?_, List.nil_prefix, ?_, ?_, ?_⟩
  · refine ⟨?_, ?_, ?_, ?_, ?_, ?_, ?_, ?_⟩
    rotate_right 2
    · intro e he; simp [initConn] at he
    · intro hsf
      have hk := hw.sf_kind hsf
      simp [initConn, hk]
    · intro hsb; simp [initConn, hsb]
    · simp only [initConn]; split <;> simp_all
    · intro _ hsb; simp [initConn, hsb]
    · unfold TotOk; simp only [initConn]; split <;> simp_all
    · intro hsf; exact hsf
    · intro _ hk; simp [initConn, hk]
  · intro _
    simp only [initConn, pending, stream, slice, List.drop_zero, Nat.sub_zero, List.take_length, List.nil_append]
    by_cases hsb : r.sendBody = true
    · simp [hsb]
    · simp [afterHeaders, hsb]
  · intro _; exact ⟨hl, Nat.le_refl _⟩
  · intro x; rcases x with x | x <;> cases x
  · intro x; rcases x with x | x | x | x <;> cases x

theorem start_inv {r : Resp} (hw : WF r) (alloc : Bool) : Inv r (startReply r alloc) := by
  unfold startReply
  cases alloc with
  | true => exact init_inv hw
  | false => exact Inv.closed rfl rfl List.nil_prefix

/-- the answers of the environment in one round are possible ones -/
def Round.Legal (x : Round) : Prop := x.s2.Legal

instance : DecidablePred Round.Legal := fun x => inferInstanceAs (Decidable x.s2.Legal)

theorem round_inv {r : Resp} {c : Conn} (hw : WF r) (h : Inv r c) (x : Round) (hx : x.Legal) : Inv r (round r c x) := by
  unfold round
  apply handleIdle_inv hw
  split
  · exact handleWrite_inv hw h x.s1 x.s2 hx x.appW x.allocW
  · exact h

theorem run_inv {r : Resp} (hw : WF r) : ∀ (xs : List Round) (c : Conn), Inv r c → (∀ x ∈ xs, x.Legal) → Inv r (run r c xs)
  | [], c, h, _ => h
  | x :: xs, c, h, hl => by
    unfold run
    simp only [List.foldl_cons]
    exact run_inv hw xs (round r c x) (round_inv hw h x (hl x (List.mem_cons_self)))
      (fun y hy => hl y (List.mem_cons_of_mem _ hy))

end Mhd.Send
