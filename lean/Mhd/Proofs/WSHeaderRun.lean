/-
  C19 helper lemmas, part 14: running the decoder over the header bytes an encoder writes
  (all three length encodings, with and without mask key).
-/
import Mhd.Proofs.WSHeader
namespace Mhd.WS

theorem run_step {w w' : WS} {b : UInt8} {r : List UInt8} {E : List Ev} {out : Out}
    (hi : iter false w (b :: r) = .cont w' 1) (hr : Run w' r E out) : Run w (b :: r) E out :=
  Run.cont w (b :: r) w' 1 E out (by simp) hi (by simpa using hr)

def storeStep (k : Nat) : Prop := k = 2 ∨ (4 ≤ k ∧ k ≤ 10) ∨ (12 ≤ k ∧ k ≤ 14)

theorem iter_store (w : WS) (b : UInt8) (r : List UInt8) (hs : storeStep w.step) :
    iter false w (b :: r) = stepStore w b := by
  unfold iter
  have : w.step = 2 ∨ w.step = 4 ∨ w.step = 5 ∨ w.step = 6 ∨ w.step = 7 ∨ w.step = 8 ∨ w.step = 9 ∨
      w.step = 10 ∨ w.step = 12 ∨ w.step = 13 ∨ w.step = 14 := by unfold storeStep at hs; omega
  rcases this with h | h | h | h | h | h | h | h | h | h | h <;> simp only [h]

theorem run_stores (ws : WS) (bs : List UInt8) (p : List UInt8) (s psz : Nat) (key : List UInt8) (v : Nat)
    (hl : ws.hdr.length = 32) (hlen : p.length + bs.length < 33) (hs : ∀ i, i < bs.length → storeStep (s + i))
    (rest : List UInt8) (E : List Ev) (out : Out)
    (hr : Run (hdrPhase ws (p ++ bs) (s + bs.length) psz key v) rest E out) :
    Run (hdrPhase ws p s psz key v) (bs ++ rest) E out := by
  induction bs generalizing p s with
  | nil => simpa using hr
  | cons b bs ih =>
    have hstep : iter false (hdrPhase ws p s psz key v) (b :: (bs ++ rest)) =
        .cont (hdrPhase ws (p ++ [b]) (s + 1) psz key v) 1 := by
      rw [iter_store _ _ _ (by have := hs 0 (by simp); rw [Nat.add_zero] at this; exact this)]
      exact stepStore_phase ws p s psz key v b hl (by simp at hlen; omega)
    refine run_step hstep (ih (p ++ [b]) (s + 1) (by simp at hlen ⊢; omega) ?_ ?_)
    · intro i hi
      have := hs (i + 1) (by simp; omega)
      have e : s + (i + 1) = s + 1 + i := by omega
      rw [e] at this; exact this
    · have e1 : p ++ [b] ++ bs = p ++ b :: bs := by simp
      have e2 : s + 1 + bs.length = s + (b :: bs).length := by simp; omega
      rw [e1, e2]; exact hr

end Mhd.WS
namespace Mhd.WS

theorem lenbyte_spec (masked : Bool) (x : Nat) (hx : x < 128) :
    len7 (UInt8.ofNat ((if masked then 128 else 0) + x)) = x ∧
    finBit (UInt8.ofNat ((if masked then 128 else 0) + x)) = masked := by
  unfold len7 finBit
  cases masked <;> simp only [UInt8.toNat_ofNat'] <;> constructor <;> simp <;> omega

theorem beVal_cons (b : UInt8) (bs : List UInt8) : beVal (b :: bs) = b.toNat * 256 ^ bs.length + beVal bs := by
  unfold beVal
  simp only [List.foldl_cons, Nat.zero_mul, Nat.zero_add]
  suffices ∀ (a : Nat) (bs : List UInt8),
      bs.foldl (fun a b => a * 256 + b.toNat) a = a * 256 ^ bs.length + bs.foldl (fun a b => a * 256 + b.toNat) 0 by
    exact this _ _
  intro a bs
  induction bs generalizing a with
  | nil => simp
  | cons c cs ih =>
    simp only [List.foldl_cons, List.length_cons, Nat.zero_mul, Nat.zero_add]
    rw [ih (a * 256 + c.toNat), ih c.toNat, Nat.pow_succ]
    rw [Nat.add_mul, Nat.add_assoc]
    congr 1
    rw [Nat.mul_assoc, Nat.mul_comm 256]

theorem beBytes_length (k n : Nat) : (beBytes k n).length = k := by
  induction k with
  | zero => rfl
  | succ k ih => simp [beBytes, ih]

theorem beVal_beBytes (k n : Nat) : beVal (beBytes k n) = n % 256 ^ k := by
  induction k with
  | zero => simp [beBytes, beVal, Nat.mod_one]
  | succ k ih =>
    rw [beBytes, beVal_cons, ih, beBytes_length, UInt8.toNat_ofNat']
    rw [Nat.mod_mod_of_dvd _ (by exact ⟨1, by omega⟩ : (256:Nat) ∣ 256), Nat.pow_succ]
    rw [Nat.mod_mul, Nat.mul_comm]
    exact Nat.add_comm _ _

end Mhd.WS
namespace Mhd.WS

theorem iter_step15 (ws : WS) (b : UInt8) (rest : List UInt8) (hs : ws.step = 15) :
    iter false ws (b :: rest) = stepMask4 ws b := by
  unfold iter; simp only [hs]

theorem mask_run (ws : WS) (p : List UInt8) (n : Nat) (key0 : List UInt8) (v : Nat) (m1 m2 m3 m4 : UInt8)
    (hl : ws.hdr.length = 32) (hp : p.length ≤ 10) (rest : List UInt8) (E : List Ev) (out : Out)
    (hr : Run (hdrPhase ws (p ++ [m1, m2, m3, m4]) 16 n [m1, m2, m3, m4] v) rest E out) :
    Run (hdrPhase ws p 12 n key0 v) ([m1, m2, m3, m4] ++ rest) E out := by
  have h4 : [m1, m2, m3, m4] ++ rest = [m1, m2, m3] ++ (m4 :: rest) := by simp
  rw [h4]
  apply run_stores ws [m1, m2, m3] p 12 n key0 v hl (by simp; omega)
  · intro i hi
    simp at hi
    unfold storeStep; omega
  · have hst : iter false (hdrPhase ws (p ++ [m1, m2, m3]) (12 + [m1, m2, m3].length) n key0 v) (m4 :: rest) =
        .cont (hdrPhase ws (p ++ [m1, m2, m3, m4]) 16 n [m1, m2, m3, m4] v) 1 := by
      rw [iter_step15 _ _ _ rfl]
      exact stepMask4_phase ws p n key0 v m1 m2 m3 m4 hl (by omega)
    exact run_step hst hr

/-- the header bytes after the first one -/
def hdrTail (masked : Bool) (n : Nat) (key : List UInt8) : List UInt8 :=
  lenBytes masked n ++ (if masked then key else [])

/-- from the second header byte to `HeaderCompleted`: the decoder has the length and the key -/
theorem header_run (ws : WS) (b0 : UInt8) (n psz : Nat) (key0 : List UInt8) (v : Nat) (m1 m2 m3 m4 : UInt8)
    (masked : Bool) (hm : masked = !ws.isClient) (hl : ws.hdr.length = 32) (hv : v ≠ 0) (hn : n < 2 ^ 63)
    (hctl : ctlBit b0 = true → n ≤ 125) (hclose : opcodeOf b0 = 8 → n ≠ 1)
    (hmax : ws.maxPayload = 0 ∨ n ≤ ws.maxPayload)
    (rest : List UInt8) (E : List Ev) (out : Out)
    (hr : Run (hdrPhase ws (b0 :: hdrTail masked n [m1, m2, m3, m4]) 16 n
            (if masked then [m1, m2, m3, m4] else [0, 0, 0, 0]) v) rest E out) :
    Run (hdrPhase ws [b0] 1 psz key0 v) (hdrTail masked n [m1, m2, m3, m4] ++ rest) E out := by
  unfold hdrTail at hr ⊢
  unfold lenBytes at hr ⊢
  simp only [] at hr ⊢
  by_cases h126 : n < 126
  · -- 7-bit length
    simp only [if_pos h126] at hr ⊢
    obtain ⟨hl7, hfb⟩ := lenbyte_spec masked n (by omega)
    generalize hB : UInt8.ofNat ((if masked then 128 else 0) + n) = B1 at *
    have hst := stepLen1_phase ws psz key0 v b0 B1 hl hv (by rw [hfb, hm]) (by rw [hl7]; omega)
      (by rw [hl7]; intro hh; exact hclose hh.2 hh.1)
    rw [hl7, if_neg (by omega), if_neg (by omega), if_neg (by omega), hfb] at hst
    simp only [List.cons_append, List.nil_append]
    refine run_step (by rw [iter_step1 _ _ _ rfl]; exact hst) ?_
    cases masked with
    | true => exact mask_run ws [b0, B1] n key0 v m1 m2 m3 m4 hl (by simp) rest E out (by simpa using hr)
    | false => simpa using hr
  · by_cases h64k : n < 65536
    · -- 16-bit length
      simp only [if_neg h126, if_pos h64k] at hr ⊢
      obtain ⟨hl7, hfb⟩ := lenbyte_spec masked 126 (by omega)
      generalize hB : UInt8.ofNat ((if masked then 128 else 0) + 126) = B1 at *
      have hbe : beBytes 2 n = [UInt8.ofNat (n / 256 ^ 1 % 256), UInt8.ofNat (n / 256 ^ 0 % 256)] := rfl
      generalize hL1 : UInt8.ofNat (n / 256 ^ 1 % 256) = L1 at hbe
      generalize hL2 : UInt8.ofNat (n / 256 ^ 0 % 256) = L2 at hbe
      have hval : beVal [L1, L2] = n := by
        rw [← hbe, beVal_beBytes]; exact Nat.mod_eq_of_lt (by omega)
      rw [hbe] at hr ⊢
      have hctl' : ¬ (126 ≤ len7 B1 ∧ ctlBit b0 = true) := by
        intro hh; have := hctl hh.2; omega
      have hst1 := stepLen1_phase ws psz key0 v b0 B1 hl hv (by rw [hfb, hm]) hctl' (by rw [hl7]; omega)
      rw [hl7, if_pos rfl] at hst1
      have hst3 := stepLen2of2_phase ws psz key0 v b0 B1 L1 L2 hl
      rw [hval, if_neg (by omega), if_neg (by omega), hfb] at hst3
      simp only [List.cons_append, List.nil_append]
      refine run_step (by rw [iter_step1 _ _ _ rfl]; exact hst1) ?_
      refine run_step (by rw [iter_store _ _ _ (Or.inl rfl)]; exact stepStore_phase ws [b0, B1] 2 psz key0 v L1 hl (by simp)) ?_
      refine run_step (by rw [iter_step3 _ _ _ rfl]; exact hst3) ?_
      cases masked with
      | true => exact mask_run ws [b0, B1, L1, L2] n key0 v m1 m2 m3 m4 hl (by simp) rest E out (by simpa using hr)
      | false => simpa using hr
    · -- 64-bit length
      simp only [if_neg h126, if_neg h64k] at hr ⊢
      obtain ⟨hl7, hfb⟩ := lenbyte_spec masked 127 (by omega)
      generalize hB : UInt8.ofNat ((if masked then 128 else 0) + 127) = B1 at *
      have hbe : beBytes 8 n = [UInt8.ofNat (n / 256 ^ 7 % 256), UInt8.ofNat (n / 256 ^ 6 % 256),
          UInt8.ofNat (n / 256 ^ 5 % 256), UInt8.ofNat (n / 256 ^ 4 % 256), UInt8.ofNat (n / 256 ^ 3 % 256),
          UInt8.ofNat (n / 256 ^ 2 % 256), UInt8.ofNat (n / 256 ^ 1 % 256)] ++ [UInt8.ofNat (n / 256 ^ 0 % 256)] := rfl
      generalize hLs : [UInt8.ofNat (n / 256 ^ 7 % 256), UInt8.ofNat (n / 256 ^ 6 % 256),
          UInt8.ofNat (n / 256 ^ 5 % 256), UInt8.ofNat (n / 256 ^ 4 % 256), UInt8.ofNat (n / 256 ^ 3 % 256),
          UInt8.ofNat (n / 256 ^ 2 % 256), UInt8.ofNat (n / 256 ^ 1 % 256)] = Ls at hbe
      have hLl : Ls.length = 7 := by rw [← hLs]; rfl
      generalize hL8 : UInt8.ofNat (n / 256 ^ 0 % 256) = L8 at hbe
      have hval : beVal (Ls ++ [L8]) = n := by
        rw [← hbe, beVal_beBytes]; exact Nat.mod_eq_of_lt (by omega)
      rw [hbe] at hr ⊢
      have hctl' : ¬ (126 ≤ len7 B1 ∧ ctlBit b0 = true) := by
        intro hh; have := hctl hh.2; omega
      have hst1 := stepLen1_phase ws psz key0 v b0 B1 hl hv (by rw [hfb, hm]) hctl' (by rw [hl7]; omega)
      rw [hl7, if_neg (by omega), if_pos rfl] at hst1
      have hst11 := stepLen8of8_phase ws psz key0 v b0 B1 Ls hLl L8 hl
      rw [hval, if_neg (by omega), if_neg (by omega), if_neg (by omega), hfb] at hst11
      simp only [List.cons_append, List.append_assoc]
      refine run_step (by rw [iter_step1 _ _ _ rfl]; exact hst1) ?_
      apply run_stores ws Ls [b0, B1] 4 psz key0 v hl (by simp [hLl])
      · intro i hi; rw [hLl] at hi; unfold storeStep; omega
      · rw [hLl]
        refine run_step (by rw [iter_step11 _ _ _ rfl]; exact hst11) ?_
        cases masked with
        | true =>
          have := mask_run ws (b0 :: B1 :: (Ls ++ [L8])) n key0 v m1 m2 m3 m4 hl (by simp [hLl]) rest E out
            (by simpa using hr)
          simpa using this
        | false => simpa using hr
end Mhd.WS