/-
  No conversion of the sleep hint makes the wait longer than the hint: every `uint64_t` value, every
  cap.  (With `hint_bound` this is "never longer than the earliest deadline + granularity".)
-/
import Mhd.Model.TmoConv
namespace Mhd.Tmo

/-- close a conjunction of linear facts / implications -/
macro "lin4" : tactic => `(tactic| (refine ⟨?_, ?_, ?_, ?_⟩ <;> (try intro _) <;> (try intro _) <;> (try intro _) <;> first | omega | trivial))
macro "lin5" : tactic => `(tactic| (refine ⟨?_, ?_, ?_, ?_, ?_⟩ <;> (try intro _) <;> (try intro _) <;> (try intro _) <;> first | omega | trivial))

theorem toInt64_small {u : Nat} (h : u < 9223372036854775808) : toInt64 u = u := by simp [toInt64, h]

theorem getTimeout64s_spec (u : Nat) :
    0 ≤ getTimeout64s (some u) ∧ getTimeout64s (some u) ≤ u ∧ getTimeout64s (some u) ≤ int64Max ∧
    ((u : Int) ≤ int64Max → getTimeout64s (some u) = u) := by
  simp only [getTimeout64s, int64Max, toInt64]
  by_cases h1 : (9223372036854775807 : Int) < u <;> by_cases h2 : u < 9223372036854775808 <;>
    simp only [h1, h2, if_true, if_false] <;> lin4

theorem getTimeoutI_spec (u : Nat) :
    0 ≤ getTimeoutI (some u) ∧ getTimeoutI (some u) ≤ u ∧ getTimeoutI (some u) ≤ intMax ∧
    ((u : Int) ≤ intMax → getTimeoutI (some u) = u) := by
  have h := getTimeout64s_spec u
  simp only [getTimeoutI, intMax, int64Max] at *
  by_cases h1 : (2147483647 : Int) ≥ getTimeout64s (some u) <;> simp only [h1, if_true, if_false] <;> lin4

theorem getTimeoutI_none : getTimeoutI none = -1 ∧ getTimeout64s none = -1 := by decide

theorem getTimeoutULL_spec (u : Nat) (hu : u < W) : getTimeoutULL (some u) = some u ∧ getTimeoutULL none = none := by
  simp [getTimeoutULL, Nat.mod_eq_of_lt hu]

/-- the result is `min (hint, cap)` (cap ignored when -1), clamped to INT64_MAX: never above the hint -/
theorem getTimeoutMillisec_spec (u : Nat) (maxT : Int) (hm : -1 ≤ maxT) (hM : maxT ≤ intMax) :
    0 ≤ getTimeoutMillisec (some u) maxT ∧ getTimeoutMillisec (some u) maxT ≤ u ∧
    (0 ≤ maxT → getTimeoutMillisec (some u) maxT ≤ maxT) ∧
    (maxT = -1 → (u : Int) ≤ int64Max → getTimeoutMillisec (some u) maxT = u) ∧
    (0 < maxT → (u : Int) ≤ maxT → getTimeoutMillisec (some u) maxT = u) := by
  simp only [getTimeoutMillisec, int64Max, toInt64, intMax] at *
  by_cases h0 : maxT = 0 <;> by_cases h1 : (0 < maxT ∧ maxT < (u : Int)) <;>
    by_cases h2 : (9223372036854775807 : Int) ≤ u <;> by_cases h3 : u < 9223372036854775808 <;>
    simp only [h0, h1, h2, h3, if_true, if_false, and_self] <;> lin5

theorem getTimeoutMillisec_none (maxT : Int) : getTimeoutMillisec none maxT = maxT := by
  simp only [getTimeoutMillisec]; split <;> simp_all

theorem getTimeoutMillisecInt_spec (u : Nat) (maxT : Int) (hm : -1 ≤ maxT) (hM : maxT ≤ intMax) :
    0 ≤ getTimeoutMillisecInt (some u) maxT ∧ getTimeoutMillisecInt (some u) maxT ≤ u ∧
    getTimeoutMillisecInt (some u) maxT ≤ intMax ∧
    (0 ≤ maxT → getTimeoutMillisecInt (some u) maxT ≤ maxT) ∧
    ((u : Int) ≤ intMax → (maxT = -1 ∨ (u : Int) ≤ maxT) → maxT ≠ 0 → getTimeoutMillisecInt (some u) maxT = u) := by
  have h := getTimeoutMillisec_spec u maxT hm hM
  simp only [getTimeoutMillisecInt, intMax, int64Max] at *
  by_cases h1 : (2147483647 : Int) ≤ getTimeoutMillisec (some u) maxT <;> simp only [h1, if_true, if_false] <;> lin5

theorem getTimeoutMillisecInt_none (maxT : Int) (hm : maxT ≤ intMax) : getTimeoutMillisecInt none maxT = maxT := by
  simp only [getTimeoutMillisecInt, getTimeoutMillisec_none, intMax] at *
  split <;> omega

theorem selectTmo_spec (u : Nat) (millisec : Int) :
    ∃ t, selectTmo (some u) millisec = some t ∧ t ≤ u ∧ (0 < millisec → (t : Int) ≤ millisec) ∧
      (millisec ≤ 0 ∨ (u : Int) ≤ millisec → t = u) := by
  simp only [selectTmo]
  split
  · rename_i hc
    refine ⟨millisec.toNat, rfl, by omega, fun _ => by omega, fun h => by omega⟩
  · exact ⟨u, rfl, Nat.le_refl _, fun h => by omega, fun _ => rfl⟩

/-- the `struct timeval` of MHD_select denotes exactly the value (every `uint64_t`) -/
theorem selectTv_exact (ms : Nat) (h : ms < W) :
    0 ≤ (selectTv ms).1 ∧ 0 ≤ (selectTv ms).2 ∧ (selectTv ms).2 < 1000000 ∧
    (selectTv ms).1 * 1000 + (selectTv ms).2 / 1000 = ms := by
  have : ms / 1000 < 9223372036854775808 := by simp only [W] at h; omega
  simp only [selectTv, toInt64_small this]
  omega

/-- the timeval of the connection thread denotes exactly the value for every value below 2^63 ms
    (every wait the daemon can compute: timeouts are at most `UINT64_MAX / 4000 - 1` seconds) -/
theorem tpcTv_exact (ms : Nat) (h : ms < 9223372036854775808) :
    0 ≤ (tpcTv ms).1 ∧ 0 ≤ (tpcTv ms).2 ∧ (tpcTv ms).2 < 1000000 ∧
    (tpcTv ms).1 * 1000 + (tpcTv ms).2 / 1000 = ms := by
  simp only [tpcTv, toInt64_small h]
  have : Int.tdiv (ms : Int) 1000 = ((ms / 1000 : Nat) : Int) := by
    rw [Int.tdiv_eq_ediv_of_nonneg (by omega)]; rfl
  rw [this]
  omega

/-- beyond 2^63 ms the cast-before-division of the connection thread yields a negative `tv_sec`
    (select fails with EINVAL) — never a longer wait; not reachable through the API -/
theorem tpcTv_huge (ms : Nat) (h1 : 9223372036854775808 + 1000 ≤ ms) (h2 : ms + 1000 ≤ W) : (tpcTv ms).1 < 0 := by
  simp only [tpcTv, toInt64, W] at *
  have : ¬ ms < 9223372036854775808 := by omega
  simp only [this, if_false]
  have h3 : (ms : Int) - 18446744073709551616 = -((18446744073709551616 - ms : Nat) : Int) := by omega
  rw [h3, Int.neg_tdiv]
  have h5 : 1000 ≤ 18446744073709551616 - ms := by omega
  have h4 : (0 : Int) < Int.tdiv ((18446744073709551616 - ms : Nat) : Int) 1000 := by
    rw [Int.tdiv_eq_ediv_of_nonneg (by omega)]
    omega
  omega

theorem tpcPoll_spec (ms : Nat) :
    0 ≤ tpcPoll ms ∧ tpcPoll ms ≤ ms ∧ tpcPoll ms ≤ intMax ∧ ((ms : Int) < intMax → tpcPoll ms = ms) := by
  simp only [tpcPoll, intMax]
  by_cases h1 : (ms : Int) ≥ 2147483647 <;> simp only [h1, if_true, if_false] <;> lin4

end Mhd.Tmo
