/-
  Window lemmas for the nonce-nc map (helper lemmas for `Mhd.Props.C13`):
  the 64-bit mask + highest count of `check_nonce_nc` refine a *set* of used
  counts.  Core `BitVec.getLsbD_*` lemmas and `omega` only.
-/
import Mhd.Model.Nonce
namespace Mhd.Nonce
open Mhd.Gen.Nonce

theorem bit_one_shift (k i : Nat) : ((1#64) <<< k).getLsbD i = (decide (i < 64) && decide (i = k)) := by
  rw [BitVec.getLsbD_shiftLeft]
  by_cases h1 : i < 64 <;> by_cases h2 : i = k <;> by_cases h3 : i < k <;> simp [h1, h2, h3, BitVec.getLsbD_one] <;> omega

theorem and_bit_eq_zero (m : BitVec 64) (k : Nat) (hk : k < 64) :
    (((1#64) <<< k) &&& m) = 0#64 ↔ m.getLsbD k = false := by
  constructor
  · intro h
    have := congrArg (fun x => x.getLsbD k) h
    simp [hk] at this
    exact this
  · intro h
    apply BitVec.eq_of_getLsbD_eq
    intro i hi
    simp only [BitVec.getLsbD_and, bit_one_shift, BitVec.getLsbD_zero]
    by_cases h2 : i = k
    · subst h2; simp [h]
    · simp [h2]

theorem W32_eq : W32 = 4294967296 := by rfl

/-- abstraction relation between the (nc, nmask) pair and the set of counts used so far -/
def WInv (w : Win) (used : Nat → Prop) : Prop :=
  used 0 ∧ used w.nc ∧ (∀ n, used n → n ≤ w.nc) ∧
  ∀ i, i < 64 → (w.nmask.getLsbD i = true ↔ (i < w.nc ∧ used (w.nc - 1 - i)))

/-- the three outcomes of `windowStep`, syntactically -/
theorem windowStep_fwd (w : Win) (c : Nat) (h : c > w.nc) (hc : c < W32) (hw : w.nc < W32) :
    windowStep w c =
      ({ nc := c, nmask := if c - w.nc < 64 then (w.nmask <<< (c - w.nc)) ||| ((1#64) <<< (c - w.nc - 1))
                            else if c - w.nc = 64 then (1#64) <<< 63 else 0#64 }, true) := by
  have hm : c % W32 = c := by rw [W32_eq] at *; omega
  have hj : (c + W32 - w.nc) % W32 = c - w.nc := by
    rw [W32_eq] at *; omega
  simp only [windowStep, if_pos h, hm, hj]

theorem windowStep_back (w : Win) (c : Nat) (h : c < w.nc) :
    windowStep w c =
      if c + 64 ≥ w.nc ∧ w.nmask.getLsbD (w.nc - c - 1) = false then
        ({ w with nmask := w.nmask ||| ((1#64) <<< (w.nc - c - 1)) }, true)
      else (w, false) := by
  have h1 : ¬ c > w.nc := by omega
  simp only [windowStep, if_neg h1, if_pos h]
  by_cases h2 : c + 64 ≥ w.nc
  · have hk : w.nc - c - 1 < 64 := by omega
    simp only [h2, true_and, and_bit_eq_zero _ _ hk]
  · simp only [h2, false_and, if_false]

theorem windowStep_eq (w : Win) (c : Nat) (h : c = w.nc) : windowStep w c = (w, false) := by
  have h1 : ¬ c > w.nc := by omega
  have h2 : ¬ c < w.nc := by omega
  simp only [windowStep, if_neg h1, if_neg h2]

/-- acceptance is exactly "not used yet and at most 64 behind the highest count" -/
theorem window_ok_iff (w : Win) (used : Nat → Prop) (c : Nat) (hi : WInv w used)
    (hc : c < W32) (hw : w.nc < W32) :
    (windowStep w c).2 = true ↔ (¬ used c ∧ w.nc ≤ c + 64) := by
  obtain ⟨h0, hnc, hmax, hbits⟩ := hi
  rcases Nat.lt_trichotomy c w.nc with h | h | h
  · rw [windowStep_back w c h]
    by_cases h2 : c + 64 ≥ w.nc
    · have hk : w.nc - c - 1 < 64 := by omega
      have hb := hbits _ hk
      have e : w.nc - 1 - (w.nc - c - 1) = c := by omega
      rw [e] at hb
      clear e
      have hlt : w.nc - c - 1 < w.nc := by omega
      cases h3 : w.nmask.getLsbD (w.nc - c - 1)
      · simp only [h2, and_self, if_true, true_iff]
        refine ⟨fun hu => ?_, trivial⟩
        have := hb.mpr ⟨hlt, hu⟩
        rw [h3] at this; cases this
      · have hu := (hb.mp h3).2
        have : ¬ (c + 64 ≥ w.nc ∧ true = false) := by intro hh; cases hh.2
        rw [if_neg this]
        constructor
        · intro hf; cases hf
        · intro hh; exact absurd hu hh.1
    · simp only [h2, false_and, if_false]
      constructor
      · intro hf; cases hf
      · intro hh; exact hh.2.elim
  · rw [windowStep_eq w c h]
    constructor
    · intro hf; cases hf
    · intro hh; subst h; exact absurd hnc hh.1
  · rw [windowStep_fwd w c h hc hw]
    simp only [true_iff]
    refine ⟨fun hu => ?_, by omega⟩
    have := hmax c hu; omega


theorem WInv_congr (w : Win) (u u' : Nat → Prop) (h : ∀ n, u n ↔ u' n) (hi : WInv w u) : WInv w u' := by
  obtain ⟨h0, hnc, hmax, hbits⟩ := hi
  refine ⟨(h 0).mp h0, (h _).mp hnc, fun n hn => hmax n ((h n).mpr hn), fun i hi => ?_⟩
  rw [hbits i hi, h]

/-- a refused count leaves the window unchanged -/
theorem windowStep_refused (w : Win) (c : Nat) (h : (windowStep w c).2 = false) : (windowStep w c).1 = w := by
  unfold windowStep at *
  split at h
  · cases h
  · split at h
    · split at h
      · cases h
      · rename_i h1 h2 h3; simp only [if_neg h1, if_pos h2, if_neg h3]
    · rename_i h1 h2; simp only [if_neg h1, if_neg h2]
  
theorem windowStep_nc_lt (w : Win) (c : Nat) (hw : w.nc < W32) : (windowStep w c).1.nc < W32 := by
  unfold windowStep
  split
  · exact Nat.mod_lt _ (by rw [W32_eq]; omega)
  · split
    · split <;> exact hw
    · exact hw

/-- the refinement step: the new (nc, nmask) pair represents the old set of used counts
    plus the presented count if (and only if) it was accepted -/
theorem window_refines (w : Win) (used : Nat → Prop) (c : Nat) (hi : WInv w used)
    (hc : c < W32) (hw : w.nc < W32) :
    WInv (windowStep w c).1 (fun n => used n ∨ ((windowStep w c).2 = true ∧ n = c)) := by
  cases hok : (windowStep w c).2
  · rw [windowStep_refused w c hok]
    exact WInv_congr w used _ (fun n => by simp) hi
  · obtain ⟨h0, hnc, hmax, hbits⟩ := hi
    rcases Nat.lt_trichotomy c w.nc with h | h | h
    · rw [windowStep_back w c h] at hok ⊢
      by_cases hcond : c + 64 ≥ w.nc ∧ w.nmask.getLsbD (w.nc - c - 1) = false
      · rw [if_pos hcond]
        refine ⟨Or.inl h0, Or.inl hnc, ?_, ?_⟩
        · intro n hn
          rcases hn with hn | ⟨_, hn⟩
          · exact hmax n hn
          · show n ≤ w.nc; omega
        · intro i hi
          show (w.nmask ||| (1#64) <<< (w.nc - c - 1)).getLsbD i = true ↔
            i < w.nc ∧ (used (w.nc - 1 - i) ∨ (true = true ∧ w.nc - 1 - i = c))
          rw [BitVec.getLsbD_or, bit_one_shift, Bool.or_eq_true, hbits i hi]
          simp only [Bool.and_eq_true, decide_eq_true_eq, true_and]
          constructor
          · rintro (⟨a, b⟩ | ⟨_, b⟩)
            · exact ⟨a, Or.inl b⟩
            · exact ⟨by omega, Or.inr (by omega)⟩
          · rintro ⟨a, b | b⟩
            · exact Or.inl ⟨a, b⟩
            · exact Or.inr ⟨hi, by omega⟩
      · rw [if_neg hcond] at hok; cases hok
    · rw [windowStep_eq w c h] at hok; cases hok
    · rw [windowStep_fwd w c h hc hw]
      refine ⟨Or.inl h0, Or.inr ⟨rfl, rfl⟩, ?_, ?_⟩
      · intro n hn
        rcases hn with hn | ⟨_, hn⟩
        · have := hmax n hn; show n ≤ c; omega
        · show n ≤ c; omega
      · intro i hi
        show (if c - w.nc < 64 then (w.nmask <<< (c - w.nc)) ||| ((1#64) <<< (c - w.nc - 1))
                else if c - w.nc = 64 then (1#64) <<< 63 else 0#64).getLsbD i = true ↔
            i < c ∧ (used (c - 1 - i) ∨ (true = true ∧ c - 1 - i = c))
        have hne : ¬ (c - 1 - i = c) := by omega
        simp only [hne, and_false, or_false]
        by_cases hj : c - w.nc < 64
        · rw [if_pos hj, BitVec.getLsbD_or, bit_one_shift, BitVec.getLsbD_shiftLeft, Bool.or_eq_true]
          simp only [Bool.and_eq_true, decide_eq_true_eq, Bool.not_eq_true', decide_eq_false_iff_not]
          constructor
          · rintro (⟨⟨_, a⟩, b⟩ | ⟨_, b⟩)
            · have := (hbits (i - (c - w.nc)) (by omega)).mp b
              refine ⟨by omega, ?_⟩
              have e : w.nc - 1 - (i - (c - w.nc)) = c - 1 - i := by omega
              rw [e] at this; exact this.2
            · refine ⟨by omega, ?_⟩
              have e : c - 1 - i = w.nc := by omega
              rw [e]; exact hnc
          · rintro ⟨a, b⟩
            have hle := hmax _ b
            by_cases hx : i = c - w.nc - 1
            · exact Or.inr ⟨hi, hx⟩
            · refine Or.inl ⟨⟨hi, by omega⟩, ?_⟩
              refine (hbits (i - (c - w.nc)) (by omega)).mpr ⟨by omega, ?_⟩
              have e : w.nc - 1 - (i - (c - w.nc)) = c - 1 - i := by omega
              rw [e]; exact b
        · rw [if_neg hj]
          by_cases hj2 : c - w.nc = 64
          · rw [if_pos hj2, bit_one_shift]
            simp only [Bool.and_eq_true, decide_eq_true_eq]
            constructor
            · rintro ⟨_, b⟩
              refine ⟨by omega, ?_⟩
              have e : c - 1 - i = w.nc := by omega
              rw [e]; exact hnc
            · rintro ⟨a, b⟩
              have hle := hmax _ b
              exact ⟨hi, by omega⟩
          · rw [if_neg hj2]
            simp only [BitVec.getLsbD_zero, Bool.false_eq_true, false_iff]
            rintro ⟨a, b⟩
            have hle := hmax _ b
            omega

end Mhd.Nonce
