/-
  C05 — the access-handler call sites preserve the refinement relation.
-/
import Mhd.Proofs.ConnSM
namespace Mhd.ConnSM
open Mhd.Gen.ConnState Mhd.Protocol

theorem callConnectionHandler_eq {σ} (cfg : Cfg) (app : App σ) (env : IdleEnv) (c : Conn σ) (p : PSt) (site : Site)
    (h : Rel c p) (hs : c.started = true) (hc : c.cleaned = false)
    (hsite : (site = .first ∧ c.state = .headersProcessed) ∨ (site = .final ∧ c.state = .fullReqReceived))
    (c' : Conn σ) (l : List LEv) (heq : callConnectionHandler cfg app env c site = (c', l)) :
    Rel c' (Protocol.run p l) ∧ c'.started = true ∧ c'.cleaned = false ∧
    (c'.state = c.state ∨ c'.state = .closed ∨ (c.state = .headersProcessed ∧ c'.state = .startReply)) ∧
    (c'.state = c.state → c.response = none → c'.clientAware = true ∧
       ∃ r, Protocol.run p l = .req r ∧ r.handlerSeen = true) := by
  have hinv : Inv c := by cases p <;> simp_all [Rel, respOrUpg]
  unfold callConnectionHandler at heq
  cases hr : c.response with
  | some r0 =>
    simp [hr] at heq
    obtain ⟨rfl, rfl⟩ := heq
    simp [h, hs, hc, hr]
  | none =>
    simp only [hr, Option.isSome_none, Bool.false_eq_true, if_false] at heq
    unfold callApp at heq
    rcases hd : app.handle c.app { site := site, offered := 0, ctxIn := c.ctx } with ⟨s', d⟩
    simp only [hd] at heq
    have hop : ∀ (c2 : Conn σ) (q : ReqSt), c2.started = true → c2.cleaned = false → c2.clientAware = true →
        q.ctx = c2.ctx → Open c2 (.req q) := by
      intro c2 q e1 e2 e3 e4; simp [Open, e1, e2, e3, e4]
    -- the automaton accepts the call
    have hstep : ∀ ret, ∃ q, Protocol.step p (LEv.handler site c.upOff 0 0 c.ctx d.ctxOut ret) = .req q ∧
        q.handlerSeen = true ∧ q.site = site ∧ q.ctx = d.ctxOut ∧ q.nextOff = c.upOff ∧ q.replied = false ∧ q.failed = (!ret) ∧ q.upgraded = false := by
      clear heq hd hop
      intro ret
      simp only [Inv] at hinv
      rcases hsite with ⟨rfl, hst⟩ | ⟨rfl, hst⟩
      · cases p with
        | idle => simp_all [Rel, respOrUpg, Protocol.handlerStep, stateSite]
        | req q =>
          have := Site.rank_le_two q.site
          simp_all [Rel, respOrUpg, Protocol.handlerStep, stateSite]
        | _ => simp_all [Rel, respOrUpg]
      · cases p with
        | idle => simp_all [Rel, respOrUpg, Protocol.handlerStep, stateSite]
        | req q =>
          have := Site.rank_le_two q.site
          have hseen : q.handlerSeen = true := by
            cases hh : q.handlerSeen <;> simp_all [Rel, respOrUpg] <;> grind
          simp_all [Rel, respOrUpg, Protocol.handlerStep, stateSite]
          grind
        | _ => simp_all [Rel, respOrUpg]
    cases hact : d.act with
    | cont =>
      simp [hact] at heq
      obtain ⟨rfl, rfl⟩ := heq
      obtain ⟨q, hq, q1, q2, q3, q4, q5, q6, q7⟩ := hstep true
      simp only [run_cons, run_nil, hq]
      simp only [Inv] at hinv
      rcases hsite with ⟨rfl, hst⟩ | ⟨rfl, hst⟩ <;>
        simp_all [Rel, Inv, respOrUpg, stateSite, Site.rank]
    | fail =>
      simp [hact] at heq
      generalize hce : closeError _ = rr at heq
      obtain ⟨c2, l2⟩ := rr
      obtain ⟨q, hq, q1, q2, q3, q4, q5, q6, q7⟩ := hstep false
      have := closeError_eq (p := .req q) hce (by simp [Open, hs, hc, q3])
      obtain ⟨rfl, rfl⟩ := heq
      have hne : ¬ CState.closed = c.state := by rcases hsite with ⟨_, e⟩ | ⟨_, e⟩ <;> simp [e]
      simp only [run_cons, hq, this.1]
      simp only [Rel] at this
      simp [this.2.1, this.2.2.1, Rel, hne]
    | suspend =>
      simp [hact] at heq
      obtain ⟨rfl, rfl⟩ := heq
      obtain ⟨q, hq, q1, q2, q3, q4, q5, q6, q7⟩ := hstep true
      simp only [run_cons, run_nil, hq]
      simp only [Inv] at hinv
      unfold suspendConn
      by_cases hal : cfg.allowSuspend = true <;>
      (rcases hsite with ⟨rfl, hst⟩ | ⟨rfl, hst⟩ <;>
        simp_all [Rel, Inv, respOrUpg, stateSite])
    | reply r retIfRefused =>
      simp [hact] at heq
      unfold queueResponse at heq
      simp only [hr, Option.isSome_none, Bool.false_eq_true, if_false] at heq
      have hstate : ¬ (c.state ≠ .headersProcessed ∧ c.state ≠ .fullReqReceived) := by
        rcases hsite with ⟨_, e⟩ | ⟨_, e⟩ <;> simp [e]
      have hne : ¬ CState.closed = c.state := by rcases hsite with ⟨_, e⟩ | ⟨_, e⟩ <;> simp [e]
      simp only [hstate, if_false] at heq
      by_cases hacc : env.shutdown = false ∧ r.valid = true
      · -- accepted
        obtain ⟨hsd, hv⟩ := hacc
        simp [hsd, hv] at heq
        obtain ⟨rfl, rfl⟩ := heq
        obtain ⟨q, hq, q1, q2, q3, q4, q5, q6, q7⟩ := hstep true
        simp only [run_cons, run_nil, hq, step_req_queued, q5, Bool.false_eq_true, if_false]
        simp only [Inv] at hinv
        rcases hsite with ⟨rfl, hst⟩ | ⟨rfl, hst⟩ <;>
          simp_all [Rel, Inv, respOrUpg, stateSite]
      · -- refused: the handler's own return value decides
        have hq0 : (if env.shutdown = true then ((c : Conn σ), ([] : List LEv), false) else
                     if (!r.valid) = true then (c, [], false) else (c, [], true)) = (c, [], false) ∨ True := Or.inr trivial
        cases hsd : env.shutdown with
        | true =>
          simp [hsd] at heq
          cases retIfRefused with
          | true =>
            simp at heq
            obtain ⟨rfl, rfl⟩ := heq
            obtain ⟨q, hq, q1, q2, q3, q4, q5, q6, q7⟩ := hstep true
            simp only [run_cons, run_nil, hq]
            simp only [Inv] at hinv
            rcases hsite with ⟨rfl, hst⟩ | ⟨rfl, hst⟩ <;>
              simp_all [Rel, Inv, respOrUpg, stateSite]
          | false =>
            simp at heq
            generalize hce : closeError _ = rr at heq
            obtain ⟨c2, l2⟩ := rr
            obtain ⟨q, hq, q1, q2, q3, q4, q5, q6, q7⟩ := hstep false
            have := closeError_eq (p := .req q) hce (by simp [Open, hs, hc, q3])
            obtain ⟨rfl, rfl⟩ := heq
            simp only [run_cons, hq, this.1]
            simp only [Rel] at this
            simp [this.2.1, this.2.2.1, Rel, hne]
        | false =>
          have hv : r.valid = false := by
            cases hv : r.valid <;> simp_all
          simp [hsd, hv] at heq
          cases retIfRefused with
          | true =>
            simp at heq
            obtain ⟨rfl, rfl⟩ := heq
            obtain ⟨q, hq, q1, q2, q3, q4, q5, q6, q7⟩ := hstep true
            simp only [run_cons, run_nil, hq]
            simp only [Inv] at hinv
            rcases hsite with ⟨rfl, hst⟩ | ⟨rfl, hst⟩ <;>
              simp_all [Rel, Inv, respOrUpg, stateSite]
          | false =>
            simp at heq
            generalize hce : closeError _ = rr at heq
            obtain ⟨c2, l2⟩ := rr
            obtain ⟨q, hq, q1, q2, q3, q4, q5, q6, q7⟩ := hstep false
            have := closeError_eq (p := .req q) hce (by simp [Open, hs, hc, q3])
            obtain ⟨rfl, rfl⟩ := heq
            simp only [run_cons, hq, this.1]
            simp only [Rel] at this
            simp [this.2.1, this.2.2.1, Rel, hne]


/-- `Rel` only looks at these fields -/
theorem Rel.congr {σ} {c c2 : Conn σ} {p : PSt} (h : Rel c p)
    (e1 : c2.started = c.started) (e2 : c2.cleaned = c.cleaned) (e3 : c2.inCleanup = c.inCleanup)
    (e4 : c2.state = c.state) (e5 : c2.clientAware = c.clientAware) (e6 : c2.ctx = c.ctx)
    (e7 : c2.upOff = c.upOff) (e8 : c2.response = c.response) (e9 : c2.stopWithError = c.stopWithError)
    (e10 : c2.discard = c.discard) : Rel c2 p := by
  cases p <;> simp only [Rel, Inv, respOrUpg, e1, e2, e3, e4, e5, e6, e7, e8, e9, e10] at h ⊢ <;> exact h

theorem callApp_upload_eq {σ} (cfg : Cfg) (app : App σ) (env : IdleEnv) (c : Conn σ) (p : PSt) (offered : Nat)
    (h : Rel c p) (hs : c.started = true) (hc : c.cleaned = false) (hst : c.state = .bodyReceiving)
    (hoff : offered ≠ 0)
    (c1 : Conn σ) (l : List LEv) (ret : Bool) (taken : Nat)
    (heq : callApp cfg app env c .upload offered = (c1, l, ret, taken)) :
    Open c1 (Protocol.run p l) ∧ (ret = true → Rel c1 (Protocol.run p l)) ∧ c1.state = .bodyReceiving ∧
    c1.started = true ∧ c1.cleaned = false ∧ (c1.stopWithError = true → c1.discard = true) := by
  have hinv : Inv c := by cases p <;> simp_all [Rel, respOrUpg]
  simp only [Inv] at hinv
  have hresp : c.response = none := by
    cases hq : c.response <;> simp_all
  have haw : c.clientAware = true := by simp_all
  unfold callApp at heq
  rcases hd : app.handle c.app { site := .upload, offered := offered, ctxIn := c.ctx } with ⟨s', d⟩
  simp only [hd] at heq
  have hstep : ∀ ret, ∃ q, Protocol.step p (LEv.handler .upload c.upOff offered (min d.take offered) c.ctx d.ctxOut ret) = .req q ∧
      q.handlerSeen = true ∧ q.site = .upload ∧ q.ctx = d.ctxOut ∧ q.nextOff = c.upOff + min d.take offered ∧
      q.replied = false ∧ q.failed = (!ret) ∧ q.upgraded = false := by
    clear heq hd
    intro ret
    cases p with
    | req q =>
      have := Site.rank_le_two q.site
      have hseen : q.handlerSeen = true := by
        cases hh : q.handlerSeen <;> simp_all [Rel, respOrUpg] <;> grind
      have : min d.take offered ≤ offered := Nat.min_le_right _ _
      simp_all [Rel, respOrUpg, Protocol.handlerStep, stateSite]
      grind
    | _ => simp_all [Rel, respOrUpg]
  cases hact : d.act with
  | cont =>
    simp [hact] at heq
    obtain ⟨rfl, rfl, rfl, rfl⟩ := heq
    obtain ⟨q, hq, q1, q2, q3, q4, q5, q6, q7⟩ := hstep true
    simp only [run_cons, run_nil, hq]
    simp_all [Rel, Inv, respOrUpg, Open, stateSite]
  | fail =>
    simp [hact] at heq
    obtain ⟨rfl, rfl, rfl, rfl⟩ := heq
    obtain ⟨q, hq, q1, q2, q3, q4, q5, q6, q7⟩ := hstep false
    simp only [run_cons, run_nil, hq]
    simp_all [Rel, Inv, respOrUpg, Open, stateSite]
  | suspend =>
    simp [hact] at heq
    obtain ⟨rfl, rfl, rfl, rfl⟩ := heq
    obtain ⟨q, hq, q1, q2, q3, q4, q5, q6, q7⟩ := hstep true
    simp only [run_cons, run_nil, hq]
    unfold suspendConn
    by_cases hal : cfg.allowSuspend = true <;> simp_all [Rel, Inv, respOrUpg, Open, stateSite]
  | reply r retIfRefused =>
    simp [hact, queueResponse, hresp, hst] at heq
    obtain ⟨rfl, rfl, rfl, rfl⟩ := heq
    obtain ⟨q, hq, q1, q2, q3, q4, q5, q6, q7⟩ := hstep retIfRefused
    simp only [run_cons, run_nil, hq]
    cases retIfRefused <;> simp_all [Rel, Inv, respOrUpg, Open, stateSite]


end Mhd.ConnSM
