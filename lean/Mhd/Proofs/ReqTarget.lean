/-
  `process_request_target`, `MHD_parse_arguments_`, `MHD_unescape_plus`, the unescape callback
  (strict / lenient in-place percent decoders): the in-place C-string functions of the model
  meet functional specifications on byte lists, for every NUL-terminated input:
    `strchr_spec`, `unescapePlus_spec`, `pctStrict_loop`, `pctLenient_loop`, `unescape_spec`,
    `plusUnescape_spec`, `argEntry_*`, `parseArgs_spec`, `processRequestTarget_spec`.
  Each spec lemma also says that the function does not fault, leaves the buffer size and all
  bytes outside the string untouched, and that decoding never lengthens a string.
  Specification functions: `plusMap`, `decS` (strict), `decL` (lenient), `specArgs`.
-/
import Mhd.Model.ReqTarget
import Mhd.Proofs.ReqLineRoundtrip
import Mhd.Proofs.ReqRoundtrip
set_option linter.unusedSimpArgs false
namespace Mhd.Req
namespace TGT

/-! ## specification side: decoding as functions on byte lists -/

/-- `MHD_unescape_plus` -/
def plusMap (w : List UInt8) : List UInt8 := w.map (fun c => if c == 43 then cSP else c)

/-- strict percent-decoding: `none` = broken encoding -/
def decS : List UInt8 → Option (List UInt8)
  | [] => some []
  | c :: rest =>
    if c == 37 then
      match rest with
      | d1 :: d2 :: rest' =>
        match xdigit d1, xdigit d2 with
        | some h, some l => (decS rest').map ((h * 16 + l) :: ·)
        | _, _ => none
      | _ => none
    else (decS rest).map (c :: ·)

/-- lenient percent-decoding (a '%' that does not start a valid triplet is copied, the
    following characters are scanned again) -/
def decL : List UInt8 → List UInt8
  | [] => []
  | c :: rest =>
    if c == 37 then
      match xdigit (rest.getD 0 0), xdigit (rest.getD 1 0), decide (2 ≤ rest.length) with
      | some h, some l, true => (h * 16 + l) :: decL (rest.drop 2)
      | _, _, _ => c :: decL rest
    else c :: decL rest
termination_by w => w.length
decreasing_by all_goals (simp_wf; try omega)

open RLP (BufIs)

theorem decS_cons_ne (c : UInt8) (rest : List UInt8) (h : (c == 37) = false) :
    decS (c :: rest) = (decS rest).map (c :: ·) := by
  cases rest with
  | nil => simp [decS, h]
  | cons d1 r => cases r with
    | nil => simp [decS, h]
    | cons d2 r2 => simp [decS, h]

/-! ## the in-place string functions meet their specifications -/

/-- index of the first `c` in `w` -/
def idxOf (c : UInt8) : List UInt8 → Option Nat
  | [] => none
  | x :: xs => if x == c then some 0 else (idxOf c xs).map (· + 1)

def NoNul (w : List UInt8) : Prop := ∀ x ∈ w, x ≠ 0

theorem NoNul.tail {x : UInt8} {xs : List UInt8} (h : NoNul (x :: xs)) : NoNul xs := fun y hy => h y (by simp [hy])
theorem NoNul.head {x : UInt8} {xs : List UInt8} (h : NoNul (x :: xs)) : x ≠ 0 := h x (by simp)

theorem strchr_spec (buf : Bytes) (c : UInt8) (hc : c ≠ 0) (w : List UInt8) :
    ∀ (fuel a : Nat), BufIs buf a (w ++ [0]) → NoNul w → w.length < fuel →
      strchr buf c fuel a = .ok ((idxOf c w).map (a + ·)) := by
  induction w with
  | nil =>
    intro fuel a hb _ hf
    obtain ⟨f, rfl⟩ : ∃ f, fuel = f + 1 := ⟨fuel - 1, by omega⟩
    have h0 : buf[a]? = some 0 := hb.head
    have : ((0 : UInt8) == c) = false := by simp; exact fun h => hc h.symm
    simp [strchr, h0, this, idxOf]
  | cons x xs ih =>
    intro fuel a hb hn hf
    obtain ⟨f, rfl⟩ : ∃ f, fuel = f + 1 := ⟨fuel - 1, by omega⟩
    have h0 : buf[a]? = some x := hb.head
    simp only [strchr, h0, idxOf]
    by_cases hx : (x == c) = true
    · simp [hx]
    · simp only [hx, Bool.false_eq_true, ↓reduceIte]
      have hz : (x == 0) = false := by simp [hn.head]
      simp only [hz, Bool.false_eq_true, ↓reduceIte]
      rw [ih f (a + 1) hb.tail hn.tail (by simp at hf; omega)]
      cases idxOf c xs <;> simp [Nat.add_assoc, Nat.add_comm 1]

theorem idxOf_spec (c : UInt8) (w : List UInt8) :
    (∀ i, idxOf c w = some i → i < w.length ∧ w[i]? = some c ∧ ∀ j, j < i → w[j]? ≠ some c) ∧
    (idxOf c w = none → ∀ x ∈ w, x ≠ c) := by
  induction w with
  | nil => simp [idxOf]
  | cons x xs ih =>
    simp only [idxOf]
    by_cases hx : (x == c) = true
    · simp only [hx, ↓reduceIte]
      refine ⟨?_, by simp⟩
      intro i hi; simp at hi; subst hi
      simp at hx
      simp [hx]
    · simp only [hx, Bool.false_eq_true, ↓reduceIte]
      have hxc : x ≠ c := by simpa using hx
      constructor
      · intro i hi
        cases hq : idxOf c xs with
        | none => rw [hq] at hi; simp at hi
        | some k =>
          rw [hq] at hi; simp at hi; subst hi
          have := ih.1 k hq
          refine ⟨by simp; omega, by simpa using this.2.1, ?_⟩
          intro j hj
          cases j with
          | zero => simp [hxc]
          | succ j' => simpa using this.2.2 j' (by omega)
      · intro hn
        cases hq : idxOf c xs with
        | some k => rw [hq] at hn; simp at hn
        | none =>
          intro y hy
          simp at hy
          rcases hy with rfl | hy
          · exact hxc
          · exact ih.2 hq y hy

/-- result of an in-place string operation on the string at `a` whose NUL was at `hi` -/
structure StrOK (buf buf' : Bytes) (a hi : Nat) (d : List UInt8) : Prop where
  size : buf'.size = buf.size
  out : ∀ j, j < a ∨ hi < j → buf'[j]? = buf[j]?
  str : BufIs buf' a (d ++ [0])

theorem _root_.Mhd.Req.RLP.BufIs.size_lt {buf : Bytes} {off : Nat} {w : List UInt8} (h : BufIs buf off w) (i : Nat) (hi : i < w.length) :
    off + i < buf.size := by
  by_cases hlt : off + i < buf.size
  · exact hlt
  · have := h i hi
    rw [Array.getElem?_eq_none (by omega), List.getElem?_eq_getElem hi] at this; cases this

theorem unescapePlus_spec (w : List UInt8) :
    ∀ (buf : Bytes) (fuel a : Nat), BufIs buf a (w ++ [0]) → NoNul w → w.length < fuel →
      ∃ buf', unescapePlus buf fuel a = .ok buf' ∧ StrOK buf buf' a (a + w.length) (plusMap w) ∧
        (∀ j, a + w.length ≤ j → buf'[j]? = buf[j]?) := by
  induction w with
  | nil =>
    intro buf fuel a hb _ hf
    obtain ⟨f, rfl⟩ : ∃ f, fuel = f + 1 := ⟨fuel - 1, by omega⟩
    have h0 : buf[a]? = some 0 := hb.head
    exact ⟨buf, by simp [unescapePlus, h0], ⟨rfl, fun _ _ => rfl, by simpa [plusMap] using hb⟩, fun _ _ => rfl⟩
  | cons x xs ih =>
    intro buf fuel a hb hn hf
    obtain ⟨f, rfl⟩ : ∃ f, fuel = f + 1 := ⟨fuel - 1, by omega⟩
    have h0 : buf[a]? = some x := hb.head
    have hz : (x == 0) = false := by simp [hn.head]
    simp only [unescapePlus, h0, hz, Bool.false_eq_true, ↓reduceIte]
    have hsz : a < buf.size := by have := hb.size_lt 0 (by simp); simpa using this
    by_cases hp : (x == 43) = true
    · simp only [hp, ↓reduceIte]
      have hb1 : BufIs (buf.setIfInBounds a cSP) (a + 1) (xs ++ [0]) := hb.tail.set a cSP (Or.inl (by omega))
      obtain ⟨b', e, ok, hi⟩ := ih (buf.setIfInBounds a cSP) f (a + 1) hb1 hn.tail (by simp at hf; omega)
      refine ⟨b', e, ⟨by rw [ok.size]; simp, ?_, ?_⟩, ?_⟩
      · intro j hj
        rw [ok.out j (by simp at hj ⊢; omega), Array.getElem?_setIfInBounds, if_neg (by simp at hj; omega)]
      · intro i hi'
        cases i with
        | zero =>
          rw [Nat.add_zero, ok.out a (Or.inl (by omega)), Array.getElem?_setIfInBounds, if_pos rfl, if_pos hsz]
          have hx43 : x = 43 := by simpa using hp
          simp [plusMap, hx43]
        | succ k =>
          have := ok.str k (by simp [plusMap] at hi' ⊢; omega)
          rw [show a + (k + 1) = a + 1 + k by omega, this]
          simp [plusMap]
      · intro j hj
        rw [hi j (by simp at hj ⊢; omega), Array.getElem?_setIfInBounds, if_neg (by simp at hj; omega)]
    · simp only [hp, Bool.false_eq_true, ↓reduceIte]
      obtain ⟨b', e, ok, hi⟩ := ih buf f (a + 1) hb.tail hn.tail (by simp at hf; omega)
      refine ⟨b', e, ⟨ok.size, ?_, ?_⟩, ?_⟩
      · intro j hj
        exact ok.out j (by simp at hj ⊢; omega)
      · intro i hi'
        cases i with
        | zero =>
          rw [Nat.add_zero, ok.out a (Or.inl (by omega)), h0]
          have hx43 : x ≠ 43 := by simpa using hp
          simp [plusMap, hx43]
        | succ k =>
          have := ok.str k (by simp [plusMap] at hi' ⊢; omega)
          rw [show a + (k + 1) = a + 1 + k by omega, this]
          simp [plusMap]
      · intro j hj
        exact hi j (by simp at hj ⊢; omega)


/-- the decoded string so far (`pre`) followed by the decoding of the rest; empty on a broken encoding -/
def resS (pre rest : List UInt8) : List UInt8 :=
  match decS rest with
  | some d => pre ++ d
  | none => []

theorem BufIs_snoc {buf : Bytes} {a : Nat} {pre : List UInt8} (h : BufIs buf a pre) (v : UInt8)
    (hsz : a + pre.length < buf.size) : BufIs (buf.setIfInBounds (a + pre.length) v) a (pre ++ [v]) := by
  intro i hi
  simp only [List.length_append, List.length_cons, List.length_nil] at hi
  rw [Array.getElem?_setIfInBounds]
  by_cases he : i = pre.length
  · subst he
    rw [if_pos rfl, if_pos hsz, List.getElem?_append_right (Nat.le_refl _)]; simp
  · rw [if_neg (by omega), List.getElem?_append_left (by omega)]
    exact h i (by omega)

theorem broken_ok (buf : Bytes) (a hi : Nat) (hsz : a < buf.size) (hh : a ≤ hi) :
    StrOK buf (buf.setIfInBounds a 0) a hi [] := by
  refine ⟨by simp, ?_, ?_⟩
  · intro j hj; rw [Array.getElem?_setIfInBounds, if_neg (by omega)]
  · intro i hi'
    simp at hi'; subst hi'
    rw [Nat.add_zero, Array.getElem?_setIfInBounds, if_pos rfl, if_pos hsz]; simp

theorem StrOK.step {buf buf1 buf' : Bytes} {a hi : Nat} {d : List UInt8} (pos : Nat) (v : UInt8)
    (h1 : buf1 = buf.setIfInBounds pos v) (hp : a ≤ pos ∧ pos ≤ hi) (h : StrOK buf1 buf' a hi d) :
    StrOK buf buf' a hi d := by
  refine ⟨by rw [h.size, h1]; simp, ?_, h.str⟩
  intro j hj
  rw [h.out j hj, h1, Array.getElem?_setIfInBounds, if_neg (by omega)]

theorem pctStrict_loop (a : Nat) : ∀ (fuel : Nat) (buf : Bytes) (r wn : Nat) (pre rest : List UInt8),
    pre.length = wn → wn ≤ r → BufIs buf a pre → BufIs buf (a + r) (rest ++ [0]) → NoNul rest → rest.length < fuel →
    ∃ buf' n, pctStrict buf a fuel r wn = .ok (buf', n) ∧
      StrOK buf buf' a (a + r + rest.length) (resS pre rest) ∧ n = (resS pre rest).length := by
  intro fuel
  induction fuel with
  | zero => intro _ _ _ _ _ _ _ _ _ _ hf; omega
  | succ f ih =>
    intro buf r wn pre rest hpl hwr hpre hrest hnn hf
    have hsz0 : a + r < buf.size := by have := hrest.size_lt 0 (by simp); simpa using this
    cases rest with
    | nil =>
      have h0 : buf[a + r]? = some 0 := hrest.head
      have hw : a + wn < buf.size := by omega
      refine ⟨buf.setIfInBounds (a + wn) 0, wn, by simp [pctStrict, h0, hw], ?_, by simp [resS, decS, hpl]⟩
      refine ⟨by simp, ?_, ?_⟩
      · intro j hj; rw [Array.getElem?_setIfInBounds, if_neg (by simp at hj; omega)]
      · simp only [resS, decS, List.append_nil]
        rw [← hpl]; exact BufIs_snoc hpre 0 (by rw [hpl]; exact hw)
    | cons c rest' =>
      have h0 : buf[a + r]? = some c := hrest.head
      have hc0 : (c == 0) = false := by simp [hnn.head]
      have hw : a + wn < buf.size := by omega
      by_cases hp : (c == 37) = true
      · -- a percent sign
        cases rest' with
        | nil =>
          have h1 : buf[a + r + 1]? = some 0 := by have := hrest.tail.head; simpa using this
          refine ⟨buf.setIfInBounds a 0, 0, by simp [pctStrict, h0, hc0, hp, h1]; omega, ?_, by simp [resS, decS, hp]⟩
          simp only [resS, decS, hp, ↓reduceIte]
          exact broken_ok buf a _ (by omega) (by omega)
        | cons d1 rest'' =>
          have h1 : buf[a + r + 1]? = some d1 := by have := hrest.tail.head; simpa using this
          have hd1 : (d1 == 0) = false := by simp [hnn.tail.head]
          cases rest'' with
          | nil =>
            have h2 : buf[a + r + 2]? = some 0 := by have := hrest.tail.tail.head; simpa [Nat.add_assoc] using this
            refine ⟨buf.setIfInBounds a 0, 0, by simp [pctStrict, h0, hc0, hp, h1, hd1, h2]; omega, ?_, by simp [resS, decS, hp]⟩
            simp only [resS, decS, hp, ↓reduceIte]
            exact broken_ok buf a _ (by omega) (by omega)
          | cons d2 rest3 =>
            have h2 : buf[a + r + 2]? = some d2 := by have := hrest.tail.tail.head; simpa [Nat.add_assoc] using this
            have hd2 : (d2 == 0) = false := by simp [hnn.tail.tail.head]
            cases hx1 : xdigit d1 with
            | none =>
              refine ⟨buf.setIfInBounds a 0, 0, by simp [pctStrict, h0, hc0, hp, h1, hd1, h2, hd2, hx1]; omega, ?_, by simp [resS, decS, hp, hx1]⟩
              simp only [resS, decS, hp, ↓reduceIte, hx1]
              exact broken_ok buf a _ (by omega) (by omega)
            | some hh =>
              cases hx2 : xdigit d2 with
              | none =>
                refine ⟨buf.setIfInBounds a 0, 0, by simp [pctStrict, h0, hc0, hp, h1, hd1, h2, hd2, hx1, hx2]; omega, ?_, by simp [resS, decS, hp, hx1, hx2]⟩
                simp only [resS, decS, hp, ↓reduceIte, hx1, hx2]
                exact broken_ok buf a _ (by omega) (by omega)
              | some ll =>
                have hr3 : BufIs (buf.setIfInBounds (a + wn) (hh * 16 + ll)) (a + (r + 3)) (rest3 ++ [0]) := by
                  have := hrest.tail.tail.tail
                  rw [show a + r + 1 + 1 + 1 = a + (r + 3) by omega] at this
                  exact this.set _ _ (Or.inl (by omega))
                obtain ⟨b', n, e, ok, hn⟩ := ih (buf.setIfInBounds (a + wn) (hh * 16 + ll)) (r + 3) (wn + 1)
                  (pre ++ [hh * 16 + ll]) rest3 (by simp [hpl]) (by omega)
                  (by rw [← hpl]; exact BufIs_snoc hpre _ (by rw [hpl]; exact hw)) hr3 hnn.tail.tail.tail
                  (by simp at hf; omega)
                have hres : resS (pre ++ [hh * 16 + ll]) rest3 = resS pre (c :: d1 :: d2 :: rest3) := by
                  simp only [resS, decS, hp, ↓reduceIte, hx1, hx2]
                  cases decS rest3 <;> simp
                refine ⟨b', n, by simp [pctStrict, h0, hc0, hp, h1, hd1, h2, hd2, hx1, hx2, hw]; exact e, ?_, by rw [← hres]; exact hn⟩
                rw [← hres]
                have : a + (r + 3) + rest3.length = a + r + (c :: d1 :: d2 :: rest3).length := by simp; omega
                rw [this] at ok
                exact ok.step (a + wn) _ rfl (by omega)
      · -- an ordinary character
        have hr1 : BufIs (buf.setIfInBounds (a + wn) c) (a + (r + 1)) (rest' ++ [0]) := by
          have := hrest.tail
          rw [show a + r + 1 = a + (r + 1) by omega] at this
          exact this.set _ _ (Or.inl (by omega))
        obtain ⟨b', n, e, ok, hn⟩ := ih (buf.setIfInBounds (a + wn) c) (r + 1) (wn + 1) (pre ++ [c]) rest'
          (by simp [hpl]) (by omega) (by rw [← hpl]; exact BufIs_snoc hpre _ (by rw [hpl]; exact hw)) hr1 hnn.tail
          (by simp at hf; omega)
        have hres : resS (pre ++ [c]) rest' = resS pre (c :: rest') := by
          have e : decS (c :: rest') = (decS rest').map (c :: ·) := by
            exact decS_cons_ne c rest' (by simpa using hp)
          simp only [resS, e]
          cases decS rest' <;> simp
        refine ⟨b', n, by simp [pctStrict, h0, hc0, hp, hw]; exact e, ?_, by rw [← hres]; exact hn⟩
        rw [← hres]
        have : a + (r + 1) + rest'.length = a + r + (c :: rest').length := by simp; omega
        rw [this] at ok
        exact ok.step (a + wn) _ rfl (by omega)


/-! ### lenient decoder -/
theorem decL_nil : decL [] = [] := by rw [decL]

theorem decL_cons_ne (c : UInt8) (rest : List UInt8) (h : (c == 37) = false) : decL (c :: rest) = c :: decL rest := by
  rw [decL]; simp [h]

theorem decL_pct_ok (d1 d2 hh ll : UInt8) (rest : List UInt8) (h1 : xdigit d1 = some hh) (h2 : xdigit d2 = some ll) :
    decL (37 :: d1 :: d2 :: rest) = (hh * 16 + ll) :: decL rest := by
  rw [decL]; simp [h1, h2]

theorem decL_pct_bad (rest : List UInt8)
    (h : rest.length < 2 ∨ xdigit (rest.getD 0 0) = none ∨ xdigit (rest.getD 1 0) = none) :
    decL (37 :: rest) = 37 :: decL rest := by
  rw [decL]
  simp only [beq_self_eq_true, ↓reduceIte]
  split
  · rename_i hh ll h1 h2 h3
    simp at h3
    rcases h with h | h | h
    · omega
    · rw [h] at h1; cases h1
    · rw [h] at h2; cases h2
  · rfl

theorem pctLenient_loop (a : Nat) : ∀ (fuel : Nat) (buf : Bytes) (r wn : Nat) (pre rest : List UInt8),
    pre.length = wn → wn ≤ r → BufIs buf a pre → BufIs buf (a + r) (rest ++ [0]) → NoNul rest → rest.length < fuel →
    ∃ buf' n, pctLenient buf a fuel r wn = .ok (buf', n) ∧
      StrOK buf buf' a (a + r + rest.length) (pre ++ decL rest) ∧ n = (pre ++ decL rest).length := by
  intro fuel
  induction fuel with
  | zero => intro _ _ _ _ _ _ _ _ _ _ hf; omega
  | succ f ih =>
    intro buf r wn pre rest hpl hwr hpre hrest hnn hf
    have hsz0 : a + r < buf.size := by have := hrest.size_lt 0 (by simp); simpa using this
    have hw : a + wn < buf.size := by omega
    -- one character `v` is written and the loop continues with `rest1`
    have cont : ∀ (v : UInt8) (k : Nat) (rest1 : List UInt8), 1 ≤ k → rest1.length + k = rest.length →
        BufIs buf (a + (r + k)) (rest1 ++ [0]) → NoNul rest1 → pre ++ [v] ++ decL rest1 = pre ++ decL rest →
        ∃ buf' n, pctLenient (buf.setIfInBounds (a + wn) v) a f (r + k) (wn + 1) = .ok (buf', n) ∧
          StrOK buf buf' a (a + r + rest.length) (pre ++ decL rest) ∧ n = (pre ++ decL rest).length := by
      intro v k rest1 hk hlen hb1 hn1 hres
      obtain ⟨b', n, e, ok, hn⟩ := ih (buf.setIfInBounds (a + wn) v) (r + k) (wn + 1) (pre ++ [v]) rest1
        (by simp [hpl]) (by omega) (by rw [← hpl]; exact BufIs_snoc hpre _ (by rw [hpl]; exact hw))
        (hb1.set _ _ (Or.inl (by omega))) hn1 (by omega)
      rw [hres] at ok hn
      have : a + (r + k) + rest1.length = a + r + rest.length := by omega
      rw [this] at ok
      exact ⟨b', n, e, ok.step (a + wn) _ rfl (by omega), hn⟩
    cases rest with
    | nil =>
      have h0 : buf[a + r]? = some 0 := hrest.head
      refine ⟨buf.setIfInBounds (a + wn) 0, wn, by simp [pctLenient, h0, hw], ?_, by simp [decL_nil, hpl]⟩
      refine ⟨by simp, ?_, ?_⟩
      · intro j hj; rw [Array.getElem?_setIfInBounds, if_neg (by simp at hj; omega)]
      · rw [decL_nil, List.append_nil, ← hpl]; exact BufIs_snoc hpre 0 (by rw [hpl]; exact hw)
    | cons c rest' =>
      have h0 : buf[a + r]? = some c := hrest.head
      have hc0 : (c == 0) = false := by simp [hnn.head]
      have hb1 : BufIs buf (a + (r + 1)) (rest' ++ [0]) := by
        have := hrest.tail; rwa [show a + r + 1 = a + (r + 1) by omega] at this
      by_cases hp : (c == 37) = true
      · have hc37 : c = 37 := by simpa using hp
        subst hc37
        cases rest' with
        | nil =>
          have h1 : buf[a + r + 1]? = some 0 := by have := hrest.tail.head; simpa using this
          have hs1 : a + r + 1 < buf.size := by have := hrest.size_lt 1 (by simp); simpa using this
          have hw1 : a + wn + 1 < buf.size := by omega
          have hd : decL [37] = [37] := by rw [decL_pct_bad [] (Or.inl (by simp)), decL_nil]
          refine ⟨(buf.setIfInBounds (a + wn) 37).setIfInBounds (a + wn + 1) 0, wn + 1,
            by simp [pctLenient, h0, h1, hw1], ?_, by simp [hd, hpl]⟩
          refine ⟨by simp, ?_, ?_⟩
          · intro j hj
            rw [Array.getElem?_setIfInBounds, if_neg (by simp at hj; omega), Array.getElem?_setIfInBounds,
              if_neg (by simp at hj; omega)]
          · rw [hd]
            have s1 := BufIs_snoc hpre 37 (by rw [hpl]; exact hw)
            have s2 := BufIs_snoc s1 0 (by simp [hpl]; exact hw1)
            simpa [hpl, Nat.add_assoc] using s2
        | cons d1 rest'' =>
          have h1 : buf[a + r + 1]? = some d1 := by have := hrest.tail.head; simpa using this
          have hd1 : (d1 == 0) = false := by simp [hnn.tail.head]
          cases rest'' with
          | nil =>
            have h2 : buf[a + r + 2]? = some 0 := by have := hrest.tail.tail.head; simpa [Nat.add_assoc] using this
            have hs2 : a + r + 2 < buf.size := by have := hrest.size_lt 2 (by simp); simpa using this
            have hw2 : a + wn + 2 < buf.size := by omega
            have hd : decL [37, d1] = [37, d1] := by
              rw [decL_pct_bad [d1] (Or.inl (by simp))]
              by_cases h37 : (d1 == 37) = true
              · have : d1 = 37 := by simpa using h37
                subst this
                rw [decL_pct_bad [] (Or.inl (by simp)), decL_nil]
              · rw [decL_cons_ne d1 [] (by simpa using h37), decL_nil]
            refine ⟨((buf.setIfInBounds (a + wn) 37).setIfInBounds (a + wn + 1) d1).setIfInBounds (a + wn + 2) 0, wn + 2,
              by simp [pctLenient, h0, h1, hd1, h2, hw2], ?_, by simp [hd, hpl]⟩
            refine ⟨by simp, ?_, ?_⟩
            · intro j hj
              rw [Array.getElem?_setIfInBounds, if_neg (by simp at hj; omega), Array.getElem?_setIfInBounds,
                if_neg (by simp at hj; omega), Array.getElem?_setIfInBounds, if_neg (by simp at hj; omega)]
            · rw [hd]
              have s1 := BufIs_snoc hpre 37 (by rw [hpl]; exact hw)
              have s2 := BufIs_snoc s1 d1 (by simp [hpl]; omega)
              have s3 := BufIs_snoc s2 0 (by simp [hpl]; omega)
              simpa [hpl, Nat.add_assoc] using s3
          | cons d2 rest3 =>
            have h2 : buf[a + r + 2]? = some d2 := by have := hrest.tail.tail.head; simpa [Nat.add_assoc] using this
            have hd2 : (d2 == 0) = false := by simp [hnn.tail.tail.head]
            have hb3 : BufIs buf (a + (r + 3)) (rest3 ++ [0]) := by
              have := hrest.tail.tail.tail; rwa [show a + r + 1 + 1 + 1 = a + (r + 3) by omega] at this
            cases hx1 : xdigit d1 with
            | none =>
              obtain ⟨b', n, e, ok, hn⟩ := cont 37 1 (d1 :: d2 :: rest3) (by omega) (by simp) hb1 hnn.tail
                (by rw [decL_pct_bad (d1 :: d2 :: rest3) (Or.inr (Or.inl (by simpa using hx1)))]; simp)
              exact ⟨b', n, by simp [pctLenient, h0, h1, hd1, h2, hd2, hx1, hw]; exact e, ok, hn⟩
            | some hh =>
              cases hx2 : xdigit d2 with
              | none =>
                obtain ⟨b', n, e, ok, hn⟩ := cont 37 1 (d1 :: d2 :: rest3) (by omega) (by simp) hb1 hnn.tail
                  (by rw [decL_pct_bad (d1 :: d2 :: rest3) (Or.inr (Or.inr (by simpa using hx2)))]; simp)
                exact ⟨b', n, by simp [pctLenient, h0, h1, hd1, h2, hd2, hx1, hx2, hw]; exact e, ok, hn⟩
              | some ll =>
                obtain ⟨b', n, e, ok, hn⟩ := cont (hh * 16 + ll) 3 rest3 (by omega) (by simp) hb3 hnn.tail.tail.tail
                  (by rw [decL_pct_ok d1 d2 hh ll rest3 hx1 hx2]; simp)
                exact ⟨b', n, by simp [pctLenient, h0, h1, hd1, h2, hd2, hx1, hx2, hw]; exact e, ok, hn⟩
      · obtain ⟨b', n, e, ok, hn⟩ := cont c 1 rest' (by omega) (by simp) hb1 hnn.tail
          (by rw [decL_cons_ne c rest' (by simpa using hp)]; simp)
        exact ⟨b', n, by simp [pctLenient, h0, hc0, hp, hw]; exact e, ok, hn⟩


/-! ### `unescape`, `MHD_unescape_plus` + unescape -/

/-- what the application reads after the unescape callback -/
def decView (strict : Bool) (w : List UInt8) : List UInt8 := if strict then resS [] w else decL w

/-- … after `MHD_unescape_plus` and the unescape callback (arguments) -/
def argView (strict : Bool) (w : List UInt8) : List UInt8 := decView strict (plusMap w)

theorem unescape_spec (strict : Bool) (buf : Bytes) (a : Nat) (w : List UInt8) (hb : BufIs buf a (w ++ [0]))
    (hn : NoNul w) :
    ∃ buf' n, unescape strict buf a = .ok (buf', n) ∧ StrOK buf buf' a (a + w.length) (decView strict w) ∧
      n = (decView strict w).length := by
  have hsz : a + w.length < buf.size := by have := hb.size_lt w.length (by simp); exact this
  have hnil : BufIs buf a [] := fun i hi => by simp at hi
  unfold unescape decView
  cases strict with
  | true =>
    obtain ⟨b', n, e, ok, hn'⟩ := pctStrict_loop a (buf.size - a + 1) buf 0 0 [] w rfl (Nat.le_refl _) hnil
      (by simpa using hb) hn (by omega)
    exact ⟨b', n, by simpa using e, by simpa using ok, by simpa using hn'⟩
  | false =>
    obtain ⟨b', n, e, ok, hn'⟩ := pctLenient_loop a (buf.size - a + 1) buf 0 0 [] w rfl (Nat.le_refl _) hnil
      (by simpa using hb) hn (by omega)
    exact ⟨b', n, by simpa using e, by simpa using ok, by simpa using hn'⟩

theorem plusMap_length (w : List UInt8) : (plusMap w).length = w.length := by simp [plusMap]

theorem plusMap_noNul {w : List UInt8} (h : NoNul w) : NoNul (plusMap w) := by
  intro x hx
  simp only [plusMap, List.mem_map] at hx
  obtain ⟨y, hy, rfl⟩ := hx
  split
  · decide
  · exact h y hy

theorem plusUnescape_spec (strict : Bool) (buf : Bytes) (a : Nat) (w : List UInt8) (hb : BufIs buf a (w ++ [0]))
    (hn : NoNul w) :
    ∃ buf' n, plusUnescape strict buf a = .ok (buf', n) ∧ StrOK buf buf' a (a + w.length) (argView strict w) ∧
      n = (argView strict w).length := by
  have hsz : a + w.length < buf.size := by have := hb.size_lt w.length (by simp); exact this
  obtain ⟨b1, e1, ok1, _⟩ := unescapePlus_spec w buf (buf.size - a + 1) a hb hn (by omega)
  obtain ⟨b2, n, e2, ok2, hn2⟩ := unescape_spec strict b1 a (plusMap w) ok1.str (plusMap_noNul hn)
  rw [plusMap_length] at ok2
  refine ⟨b2, n, ?_, ⟨by rw [ok2.size, ok1.size], fun j hj => by rw [ok2.out j hj, ok1.out j hj], ok2.str⟩, hn2⟩
  unfold plusUnescape
  rw [e1]
  exact e2

/-- the decoded string read back through the element's slice -/
theorem StrOK.view {buf buf' : Bytes} {a hi : Nat} {d : List UInt8} (h : StrOK buf buf' a hi d) :
    sliceBytes buf' ⟨0, a, d.length⟩ = d :=
  HSP.sliceBytes_eq buf' a d (fun i hi' => by have := h.str i (by simp; omega); rw [this, List.getElem?_append_left hi'])


/-! ### decoding never lengthens a string -/
theorem decS_len : ∀ (n : Nat) (w : List UInt8), w.length ≤ n → ∀ d, decS w = some d → d.length ≤ w.length := by
  intro n
  induction n with
  | zero =>
    intro w hw d hd
    have : w = [] := List.length_eq_zero_iff.mp (by omega)
    subst this; simp [decS] at hd; subst hd; simp
  | succ n ih =>
    intro w hw d hd
    cases w with
    | nil => simp [decS] at hd; subst hd; simp
    | cons c rest =>
      by_cases hp : (c == 37) = true
      · cases rest with
        | nil => simp [decS, hp] at hd
        | cons d1 r1 =>
          cases r1 with
          | nil => simp [decS, hp] at hd
          | cons d2 r2 =>
            simp only [decS, hp, ↓reduceIte] at hd
            cases hx1 : xdigit d1 with
            | none => simp [hx1] at hd
            | some hh =>
              cases hx2 : xdigit d2 with
              | none => simp [hx1, hx2] at hd
              | some ll =>
                simp only [hx1, hx2, Option.map_eq_some_iff] at hd
                obtain ⟨d', hd', rfl⟩ := hd
                have := ih r2 (by simp at hw; omega) d' hd'
                simp; omega
      · rw [decS_cons_ne c rest (by simpa using hp)] at hd
        simp only [Option.map_eq_some_iff] at hd
        obtain ⟨d', hd', rfl⟩ := hd
        have := ih rest (by simp at hw; omega) d' hd'
        simp; omega

theorem decL_len : ∀ (n : Nat) (w : List UInt8), w.length ≤ n → (decL w).length ≤ w.length := by
  intro n
  induction n with
  | zero =>
    intro w hw
    have : w = [] := List.length_eq_zero_iff.mp (by omega)
    subst this; simp [decL_nil]
  | succ n ih =>
    intro w hw
    cases w with
    | nil => simp [decL_nil]
    | cons c rest =>
      by_cases hp : (c == 37) = true
      · have hc : c = 37 := by simpa using hp
        subst hc
        by_cases hok : ∃ d1 d2 r2 hh ll, rest = d1 :: d2 :: r2 ∧ xdigit d1 = some hh ∧ xdigit d2 = some ll
        · obtain ⟨d1, d2, r2, hh, ll, rfl, h1, h2⟩ := hok
          rw [decL_pct_ok d1 d2 hh ll r2 h1 h2]
          have := ih r2 (by simp at hw; omega)
          simp; omega
        · have hbad : rest.length < 2 ∨ xdigit (rest.getD 0 0) = none ∨ xdigit (rest.getD 1 0) = none := by
            cases rest with
            | nil => left; simp
            | cons d1 r1 =>
              cases r1 with
              | nil => left; simp
              | cons d2 r2 =>
                right
                cases h1 : xdigit d1 with
                | none => left; simpa using h1
                | some hh =>
                  cases h2 : xdigit d2 with
                  | none => right; simpa using h2
                  | some ll => exact absurd ⟨d1, d2, r2, hh, ll, rfl, h1, h2⟩ hok
          rw [decL_pct_bad rest hbad]
          have := ih rest (by simp at hw; omega)
          simp; omega
      · rw [decL_cons_ne c rest (by simpa using hp)]
        have := ih rest (by simp at hw; omega)
        simp; omega

theorem decView_len (strict : Bool) (w : List UInt8) : (decView strict w).length ≤ w.length := by
  unfold decView
  cases strict with
  | true =>
    simp only [↓reduceIte, resS]
    cases h : decS w with
    | none => simp
    | some d => simpa using decS_len w.length w (Nat.le_refl _) d h
  | false => simpa using decL_len w.length w (Nat.le_refl _)

theorem argView_len (strict : Bool) (w : List UInt8) : (argView strict w).length ≤ w.length := by
  unfold argView; have := decView_len strict (plusMap w); rwa [plusMap_length] at this

/-! ### one argument -/

theorem argEntry_none (strict : Bool) (kind : Nat) (buf : Bytes) (args : Nat) (k : List UInt8)
    (hb : BufIs buf args (k ++ [0])) (hn : NoNul k) :
    ∃ b, argEntry strict kind buf args none = .ok (b, ⟨kind, ⟨0, args, (argView strict k).length⟩, none⟩) ∧
      StrOK buf b args (args + k.length) (argView strict k) := by
  obtain ⟨b1, n, e, ok, hn'⟩ := plusUnescape_spec strict buf args k hb hn
  subst hn'
  refine ⟨b1, ?_, ok⟩
  unfold argEntry
  simp only [e, bind, Except.bind, pure, Except.pure]

theorem argEntry_some (strict : Bool) (kind : Nat) (buf : Bytes) (args : Nat) (k v : List UInt8) (x : UInt8)
    (hb : BufIs buf args (k ++ x :: v ++ [0])) (hk : NoNul k) (hv : NoNul v) :
    ∃ b, argEntry strict kind buf args (some (args + k.length)) =
        .ok (b, ⟨kind, ⟨0, args, (argView strict k).length⟩, some ⟨0, args + k.length + 1, (argView strict v).length⟩⟩) ∧
      b.size = buf.size ∧ (∀ j, j < args ∨ args + k.length + 1 + v.length < j → b[j]? = buf[j]?) ∧
      BufIs b args (argView strict k ++ [0]) ∧ BufIs b (args + k.length + 1) (argView strict v ++ [0]) := by
  have hsz : args + k.length < buf.size := by
    have := hb.size_lt k.length (by simp); exact this
  -- the key, terminated by the NUL written over the '='
  have hbk : BufIs (buf.setIfInBounds (args + k.length) 0) args (k ++ [0]) := by
    have h1 : BufIs buf args k := by
      have : BufIs buf args (k ++ (x :: v ++ [0])) := by simpa using hb
      exact this.left
    have := TGT.BufIs_snoc h1 0 hsz
    exact this
  have hbv0 : BufIs buf (args + k.length + 1) (v ++ [0]) := by
    have : BufIs buf args ((k ++ [x]) ++ (v ++ [0])) := by simpa using hb
    have := this.right
    simpa [Nat.add_assoc] using this
  obtain ⟨b1, n1, e1, ok1, hn1⟩ := plusUnescape_spec strict _ args k hbk hk
  have hbv1 : BufIs b1 (args + k.length + 1) (v ++ [0]) := by
    intro i hi
    rw [ok1.out _ (Or.inr (by omega)), Array.getElem?_setIfInBounds, if_neg (by omega)]
    exact hbv0 i hi
  obtain ⟨b2, n2, e2, ok2, hn2⟩ := plusUnescape_spec strict b1 (args + k.length + 1) v hbv1 hv
  subst hn1 hn2
  refine ⟨b2, ?_, by rw [ok2.size, ok1.size]; simp, ?_, ?_, ok2.str⟩
  · unfold argEntry
    simp only [hsz, ↓reduceIte, e1, e2, bind, Except.bind, pure, Except.pure]
  · intro j hj
    rw [ok2.out j (by omega), ok1.out j (by omega), Array.getElem?_setIfInBounds, if_neg (by omega)]
  · intro i hi
    rw [ok2.out _ (Or.inl (by
      have : (argView strict k).length ≤ k.length := argView_len strict k
      simp at hi; omega))]
    exact ok1.str i hi


/-! ### the argument list -/

/-- one `key[=value]` segment -/
def argEntrySpec (dv : List UInt8 → List UInt8) (seg : List UInt8) : List UInt8 × Option (List UInt8) :=
  match idxOf 61 seg with
  | none => (dv seg, none)
  | some j => (dv (seg.take j), some (dv (seg.drop (j + 1))))

/-- the query string split at '&', each segment at its first '=' (a trailing '&' adds nothing;
    an empty segment is an argument with an empty key and no value) -/
def specArgs (dv : List UInt8 → List UInt8) (q : List UInt8) : List (List UInt8 × Option (List UInt8)) :=
  if _h : q = [] then [] else
  match idxOf 38 q with
  | none => [argEntrySpec dv q]
  | some i => argEntrySpec dv (q.take i) :: specArgs dv (q.drop (i + 1))
termination_by q.length
decreasing_by
  have : q.length ≠ 0 := fun h0 => _h (List.length_eq_zero_iff.mp h0)
  simp only [List.length_drop]; omega

theorem idxOf_lt {c : UInt8} {w : List UInt8} {i : Nat} (h : idxOf c w = some i) : i < w.length :=
  ((idxOf_spec c w).1 i h).1

theorem idxOf_take (c : UInt8) (w : List UInt8) (i : Nat) :
    idxOf c (w.take i) = match idxOf c w with
      | some j => if j < i then some j else none
      | none => none := by
  induction w generalizing i with
  | nil => simp [idxOf]
  | cons x xs ih =>
    cases i with
    | zero => simp only [List.take_zero, idxOf]; split <;> simp
    | succ k =>
      simp only [List.take_succ_cons, idxOf]
      by_cases hx : (x == c) = true
      · simp [hx]
      · simp only [hx, Bool.false_eq_true, ↓reduceIte]
        rw [ih k]
        cases idxOf c xs with
        | none => simp
        | some j => by_cases hj : j < k <;> simp [hj]

theorem split_at (w : List UInt8) (j : Nat) (hj : j < w.length) : w = w.take j ++ w[j] :: w.drop (j + 1) := by
  rw [← List.drop_eq_getElem_cons hj, List.take_append_drop]

theorem NoNul.take {w : List UInt8} (h : NoNul w) (i : Nat) : NoNul (w.take i) :=
  fun x hx => h x (List.mem_of_mem_take hx)
theorem NoNul.drop {w : List UInt8} (h : NoNul w) (i : Nat) : NoNul (w.drop i) :=
  fun x hx => h x (List.mem_of_mem_drop hx)

/-- the segment `w.take i`, terminated by the NUL written over `w[i]` -/
theorem BufIs_take {buf : Bytes} {a : Nat} {w : List UInt8} (h : BufIs buf a (w ++ [0])) (i : Nat) (hi : i < w.length) :
    BufIs (buf.setIfInBounds (a + i) 0) a (w.take i ++ [0]) := by
  have h1 : BufIs buf a (w.take i) := by
    have : BufIs buf a (w.take i ++ (w.drop i ++ [0])) := by rw [← List.append_assoc, List.take_append_drop]; exact h
    exact this.left
  have hsz : a + i < buf.size := h.size_lt i (by simp; omega)
  have := BufIs_snoc h1 0 (by rw [List.length_take, Nat.min_eq_left (by omega)]; exact hsz)
  rwa [List.length_take, Nat.min_eq_left (by omega)] at this

theorem BufIs_drop {buf : Bytes} {a : Nat} {w : List UInt8} (h : BufIs buf a (w ++ [0])) (i : Nat) (hi : i ≤ w.length) :
    BufIs buf (a + i) (w.drop i ++ [0]) := by
  have : BufIs buf a (w.take i ++ (w.drop i ++ [0])) := by rw [← List.append_assoc, List.take_append_drop]; exact h
  have := this.right
  rwa [List.length_take, Nat.min_eq_left hi] at this

/-- one segment through `argEntry`: `seg` is at `args`, NUL-terminated; `eq` is where the code
    found its first '=' -/
theorem argEntry_seg (strict : Bool) (kind : Nat) (buf : Bytes) (args : Nat) (seg : List UInt8)
    (hb : BufIs buf args (seg ++ [0])) (hn : NoNul seg) :
    ∃ b el, argEntry strict kind buf args ((idxOf 61 seg).map (args + ·)) = .ok (b, el) ∧ b.size = buf.size ∧
      (∀ j, j < args ∨ args + seg.length < j → b[j]? = buf[j]?) ∧
      HSP.elemView b el = (kind, (argEntrySpec (argView strict) seg).1, (argEntrySpec (argView strict) seg).2) ∧
      HSP.ElemIn el args (args + seg.length) := by
  unfold argEntrySpec
  cases hq : idxOf 61 seg with
  | none =>
    obtain ⟨b, e, ok⟩ := argEntry_none strict kind buf args seg hb hn
    refine ⟨b, _, e, ok.size, ok.out, ?_, ?_⟩
    · simp only [HSP.elemView, Option.map_none]
      rw [ok.view]
    · have := argView_len strict seg
      exact ⟨Nat.le_refl _, by show args + (argView strict seg).length ≤ args + seg.length; omega, fun v hv => by simp at hv, rfl, fun v hv => by simp at hv⟩
  | some j =>
    have hj := idxOf_lt hq
    have hdec := split_at seg j hj
    have hb' : BufIs buf args (seg.take j ++ seg[j] :: seg.drop (j + 1) ++ [0]) := by
      rw [List.append_assoc, List.cons_append] at *
      have : seg.take j ++ seg[j] :: (seg.drop (j + 1) ++ [0]) = seg ++ [0] := by
        rw [← List.cons_append, ← List.append_assoc, ← hdec]
      rw [this]; exact hb
    have hlk : (seg.take j).length = j := by rw [List.length_take, Nat.min_eq_left (by omega)]
    obtain ⟨b, e, hsz, hout, hk, hv⟩ := argEntry_some strict kind buf args (seg.take j) (seg.drop (j + 1)) seg[j] hb'
      (hn.take j) (hn.drop (j + 1))
    rw [hlk] at e hout hv
    have hld : (seg.drop (j + 1)).length = seg.length - (j + 1) := by simp
    refine ⟨b, _, by simpa using e, hsz, ?_, ?_, ?_⟩
    · intro i hi
      exact hout i (by rw [hld]; omega)
    · simp only [HSP.elemView, Option.map_some]
      have v1 := HSP.sliceBytes_eq b args (argView strict (seg.take j))
        (fun i hi' => by have := hk i (by simp; omega); rw [this, List.getElem?_append_left hi'])
      have v2 := HSP.sliceBytes_eq b (args + j + 1) (argView strict (seg.drop (j + 1)))
        (fun i hi' => by have := hv i (by simp; omega); rw [this, List.getElem?_append_left hi'])
      rw [v1, v2]
    · have l1 := argView_len strict (seg.take j)
      have l2 := argView_len strict (seg.drop (j + 1))
      rw [hlk] at l1; rw [hld] at l2
      refine ⟨Nat.le_refl _, by show args + (argView strict (seg.take j)).length ≤ args + seg.length; omega, ?_, rfl, ?_⟩
      · intro v hv'; simp at hv'; subst hv'; exact ⟨by show args ≤ args + j + 1; omega, by show args + j + 1 + (argView strict (seg.drop (j + 1))).length ≤ args + seg.length; omega⟩
      · intro v hv'; simp at hv'; subst hv'; rfl


theorem specArgs_nil (dv : List UInt8 → List UInt8) : specArgs dv [] = [] := by rw [specArgs]; simp

theorem specArgs_last (dv : List UInt8 → List UInt8) (q : List UInt8) (h : q ≠ []) (ha : idxOf 38 q = none) :
    specArgs dv q = [argEntrySpec dv q] := by rw [specArgs]; simp [h, ha]

theorem specArgs_cons (dv : List UInt8 → List UInt8) (q : List UInt8) (i : Nat) (h : q ≠ []) (ha : idxOf 38 q = some i) :
    specArgs dv q = argEntrySpec dv (q.take i) :: specArgs dv (q.drop (i + 1)) := by rw [specArgs]; simp [h, ha]

/-- **`MHD_parse_arguments_` meets its specification and never faults**: for every
    NUL-terminated query string without interior NUL -/
theorem parseArgs_spec (strict : Bool) (kind : Nat) :
    ∀ (fuel : Nat) (buf : Bytes) (args : Nat) (acc : List Elem) (q : List UInt8),
      BufIs buf args (q ++ [0]) → NoNul q → q.length < fuel →
      ∃ buf' els, parseArgs strict kind fuel buf args acc = .ok (buf', acc ++ els) ∧ buf'.size = buf.size ∧
        (∀ j, j < args ∨ args + q.length < j → buf'[j]? = buf[j]?) ∧
        els.map (HSP.elemView buf') = (specArgs (argView strict) q).map (fun kv => (kind, kv.1, kv.2)) ∧
        ∀ el ∈ els, HSP.ElemIn el args (args + q.length) := by
  intro fuel
  induction fuel with
  | zero => intro _ _ _ _ _ _ hf; omega
  | succ f ih =>
    intro buf args acc q hb hn hf
    cases hq : q with
    | nil =>
      subst hq
      have h0 : buf[args]? = some 0 := hb.head
      exact ⟨buf, [], by simp [parseArgs, h0], rfl, fun _ _ => rfl, by simp [specArgs_nil], by simp⟩
    | cons c0 q' =>
      have hne : q ≠ [] := by rw [hq]; simp
      have h0 : buf[args]? = some c0 := by have := hb; rw [hq] at this; exact this.head
      have hc0 : (c0 == 0) = false := by have := hn c0 (by rw [hq]; simp); simp [this]
      have hsz : args + q.length < buf.size := hb.size_lt q.length (by simp)
      have hfu : q.length < buf.size - args + 1 := by omega
      have e1 := strchr_spec buf 61 (by decide) q (buf.size - args + 1) args hb hn hfu
      have e2 := strchr_spec buf 38 (by decide) q (buf.size - args + 1) args hb hn hfu
      rw [← hq]
      unfold parseArgs
      simp only [h0, hc0, Bool.false_eq_true, ↓reduceIte, e1, e2, bind, Except.bind]
      cases ha : idxOf 38 q with
      | none =>
        obtain ⟨b, el, e, hs, hout, hview, hin⟩ := argEntry_seg strict kind buf args q hb hn
        refine ⟨b, [el], ?_, hs, hout, ?_, ?_⟩
        · simp only [Option.map_none, e]
        · rw [specArgs_last _ q hne ha]; simp [hview]
        · intro el' hel; simp at hel; subst hel; exact hin
      | some i =>
        have hi := idxOf_lt ha
        have ham : args + i < buf.size := by omega
        simp only [Option.map_some, ham, ↓reduceIte]
        -- the segment, terminated by the NUL written over the '&'
        have hseg : BufIs (buf.setIfInBounds (args + i) 0) args (q.take i ++ [0]) := BufIs_take hb i hi
        have hlen : (q.take i).length = i := by rw [List.length_take, Nat.min_eq_left (by omega)]
        have heqIn : eqWithin ((idxOf 61 q).map (args + ·)) (args + i) = (idxOf 61 (q.take i)).map (args + ·) := by
          unfold eqWithin
          rw [idxOf_take]
          cases he : idxOf 61 q with
          | none => simp
          | some j =>
            have hji : j ≠ i := by
              intro h; subst h
              have a1 := ((idxOf_spec 61 q).1 _ he).2.1
              have a2 := ((idxOf_spec 38 q).1 _ ha).2.1
              rw [a1] at a2; cases a2
            simp only [Option.map_some]
            by_cases hlt : j < i
            · simp [hlt]; omega
            · simp [hlt]; omega
        rw [heqIn]
        obtain ⟨b, el, e, hs, hout, hview, hin⟩ := argEntry_seg strict kind _ args (q.take i) hseg (hn.take i)
        rw [hlen] at hout hin
        simp only [e]
        -- the rest of the query string is untouched
        have hrest : BufIs b (args + i + 1) (q.drop (i + 1) ++ [0]) := by
          intro k hk
          rw [hout _ (Or.inr (by omega)), Array.getElem?_setIfInBounds, if_neg (by omega)]
          have := BufIs_drop hb (i + 1) (by omega)
          rw [← Nat.add_assoc] at this
          exact this k hk
        have hld : (q.drop (i + 1)).length = q.length - (i + 1) := by simp
        obtain ⟨b', els, e', hs', hout', hview', hin'⟩ := ih b (args + i + 1) (acc ++ [el]) (q.drop (i + 1)) hrest
          (hn.drop (i + 1)) (by rw [hld]; omega)
        rw [hld] at hout' hin'
        refine ⟨b', el :: els, ?_, by rw [hs', hs]; simp, ?_, ?_, ?_⟩
        · rw [e']; simp
        · intro j hj
          rw [hout' j (by omega), hout j (by omega), Array.getElem?_setIfInBounds, if_neg (by omega)]
        · rw [specArgs_cons _ q i hne ha]
          simp only [List.map_cons]
          congr 1
          · rw [HSP.elemView_congr b' b el args (args + i) hin (fun k _ h2 => hout' k (Or.inl (by omega)))]
            exact hview
        · intro el' hel
          simp only [List.mem_cons] at hel
          rcases hel with rfl | hel
          · exact ⟨hin.1, by have := hin.2.1; omega, fun v hv => by have := hin.2.2.1 v hv; exact ⟨this.1, by omega⟩,
              hin.2.2.2.1, hin.2.2.2.2⟩
          · have := hin' el' hel
            exact ⟨by have := this.1; omega, by have := this.2.1; omega,
              fun v hv => by have := this.2.2.1 v hv; exact ⟨by omega, by omega⟩, this.2.2.2.1, this.2.2.2.2⟩


/-! ### `process_request_target` -/

theorem firstQ_eq (t : List UInt8) : RLP.firstQ t = idxOf 63 t := by
  induction t with
  | nil => rfl
  | cons c cs ih => simp only [RLP.firstQ, idxOf, ih]

/-- the decoded path and the query part of a request target -/
def pathOf (t : List UInt8) : List UInt8 := match idxOf 63 t with | some i => t.take i | none => t
def queryOf (t : List UInt8) : List UInt8 := match idxOf 63 t with | some i => t.drop (i + 1) | none => []

/-- a request line whose target is a proper C string -/
structure TargetWF (r : ReqLine) (t : List UInt8) : Prop where
  str : BufIs r.buf r.tgt (t ++ [0])
  nonul : NoNul t
  len : r.tgtLen = t.length
  q : r.qmark = (idxOf 63 t).map (r.tgt + ·)

/-- **`process_request_target` never faults and hands out the decoded path and the arguments
    of the specification**, for every target without interior NUL -/
theorem processRequestTarget_spec (strict : Bool) (r : ReqLine) (t : List UInt8) (h : TargetWF r t) :
    ∃ T, processRequestTarget strict r = .ok T ∧ T.rawTarget = t ∧ T.url = r.tgt ∧
      sliceBytes T.buf ⟨0, T.url, T.urlLen⟩ = decView strict (pathOf t) ∧
      BufIs T.buf T.url (decView strict (pathOf t) ++ [0]) ∧
      T.elems.map (HSP.elemView T.buf) =
        (specArgs (argView strict) (queryOf t)).map (fun kv => (Gen.Http.kindGetArgument, kv.1, kv.2)) ∧
      (∀ el ∈ T.elems, HSP.ElemIn el r.tgt (r.tgt + t.length)) ∧
      T.buf.size = r.buf.size ∧ (∀ j, j < r.tgt ∨ r.tgt + t.length < j → T.buf[j]? = r.buf[j]?) ∧
      T.rb = r.rb ∧ T.method = r.method ∧ T.version = r.version ∧ T.httpVer = r.httpVer ∧
      T.methodLen = r.methodLen ∧ T.mthd = r.mthd ∧ T.crSp = r.crSp := by
  have hsz : r.tgt + t.length < r.buf.size := h.str.size_lt t.length (by simp)
  have hraw : rdRange r.buf r.tgt r.tgtLen = some t := by
    rw [h.len]
    exact RLP.rdRange_eq r.buf r.tgt t (fun i hi => by have := h.str i (by simp; omega); rw [this, List.getElem?_append_left hi]) (by omega)
  unfold processRequestTarget pathOf queryOf
  simp only [hraw, h.q, bind, Except.bind, pure, Except.pure]
  cases hq : idxOf 63 t with
  | none =>
    simp only [Option.map_none]
    obtain ⟨b2, n, e, ok, hn⟩ := unescape_spec strict r.buf r.tgt t h.str h.nonul
    subst hn
    simp only [e]
    refine ⟨_, rfl, rfl, rfl, ok.view, ok.str, by simp [specArgs_nil], by simp, ok.size, ?_, rfl, rfl, rfl, rfl, rfl, rfl, rfl⟩
    intro j hj; exact ok.out j hj
  | some i =>
    have hi := idxOf_lt hq
    have hqi : r.tgt + i < r.buf.size := by omega
    simp only [Option.map_some, hqi, ↓reduceIte]
    -- the path, terminated by the NUL written over the '?'
    have hpath : BufIs (r.buf.setIfInBounds (r.tgt + i) 0) r.tgt (t.take i ++ [0]) := BufIs_take h.str i hi
    have hquery : BufIs (r.buf.setIfInBounds (r.tgt + i) 0) (r.tgt + i + 1) (t.drop (i + 1) ++ [0]) := by
      have := BufIs_drop h.str (i + 1) (by omega)
      rw [← Nat.add_assoc] at this
      exact this.set _ _ (Or.inl (by omega))
    have hld : (t.drop (i + 1)).length = t.length - (i + 1) := by simp
    have hlt : (t.take i).length = i := by rw [List.length_take, Nat.min_eq_left (by omega)]
    obtain ⟨b1, els, e1, hs1, hout1, hview1, hin1⟩ := parseArgs_spec strict Gen.Http.kindGetArgument (r.buf.size + 1)
      (r.buf.setIfInBounds (r.tgt + i) 0) (r.tgt + i + 1) [] (t.drop (i + 1)) hquery (h.nonul.drop _)
      (by rw [hld]; omega)
    rw [hld] at hout1 hin1
    simp only [e1, List.nil_append]
    have hpath1 : BufIs b1 r.tgt (t.take i ++ [0]) := by
      intro k hk
      rw [hout1 _ (Or.inl (by simp [hlt] at hk; omega))]
      exact hpath k hk
    obtain ⟨b2, n, e2, ok2, hn2⟩ := unescape_spec strict b1 r.tgt (t.take i) hpath1 (h.nonul.take i)
    subst hn2
    rw [hlt] at ok2
    simp only [e2]
    refine ⟨_, rfl, rfl, rfl, ok2.view, ok2.str, ?_, ?_, by rw [ok2.size, hs1]; simp, ?_, rfl, rfl, rfl, rfl, rfl, rfl, rfl⟩
    · rw [← hview1]
      apply List.map_congr_left
      intro el hel
      have := hin1 el hel
      exact HSP.elemView_congr b2 b1 el (r.tgt + i + 1) (r.tgt + i + 1 + (t.length - (i + 1))) this
        (fun k h1 _ => ok2.out k (Or.inr (by omega)))
    · intro el hel
      have := hin1 el hel
      exact ⟨by have := this.1; omega, by have := this.2.1; omega,
        fun v hv => by have := this.2.2.1 v hv; exact ⟨by omega, by omega⟩, this.2.2.2.1, this.2.2.2.2⟩
    · intro j hj
      rw [ok2.out j (by omega), hout1 j (by omega), Array.getElem?_setIfInBounds, if_neg (by omega)]

end TGT
end Mhd.Req
