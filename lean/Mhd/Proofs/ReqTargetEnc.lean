import Mhd.Proofs.ReqTargetRT
set_option linter.unusedSimpArgs false
namespace Mhd.Req
namespace TGT

/-! ### every (path, argument list) has an admissible rendering -/

/-- the escape `%HL` (upper-case digits) of a byte -/
def escAll (c : UInt8) : Tok :=
  .esc ⟨c.toNat / 16, by have := c.toNat_lt; omega⟩ ⟨c.toNat % 16, by omega⟩ true true

theorem escAll_val (c : UInt8) : (escAll c).val = c := by
  unfold escAll Tok.val
  apply UInt8.toNat_inj.mp
  have := c.toNat_lt
  have h16 : (16 : UInt8).toNat = 16 := rfl
  simp only [UInt8.toNat_add, UInt8.toNat_mul, UInt8.toNat_ofNat', h16, Nat.reducePow]
  omega

theorem semToks_escAll (w : List UInt8) : semToks (w.map escAll) = w := by
  unfold semToks
  rw [List.map_map]
  conv => rhs; rw [← List.map_id w]
  apply List.map_congr_left
  intro c _; exact escAll_val c

/-- the fully escaped rendering of one argument -/
def encArg (a : List UInt8 × Option (List UInt8)) : ArgR := ⟨a.1.map escAll, a.2.map (·.map escAll)⟩

theorem encArg_sem (a : List UInt8 × Option (List UInt8)) : (encArg a).sem = a := by
  obtain ⟨k, v⟩ := a
  unfold encArg ArgR.sem
  cases v with
  | none => simp [semToks_escAll]
  | some v => simp [semToks_escAll]

theorem all_escAll (p : Tok → Bool) (hp : ∀ c, p (escAll c) = true) (w : List UInt8) : (w.map escAll).all p = true := by
  rw [List.all_eq_true]
  intro t ht
  simp only [List.mem_map] at ht
  obtain ⟨c, _, rfl⟩ := ht
  exact hp c

theorem encArg_ok (a : List UInt8 × Option (List UInt8)) : (encArg a).ok = true := by
  obtain ⟨k, v⟩ := a
  unfold encArg ArgR.ok
  cases v with
  | none => simp [all_escAll Tok.okKey (fun _ => rfl)]
  | some v => simp [all_escAll Tok.okKey (fun _ => rfl), all_escAll Tok.okVal (fun _ => rfl)]

theorem encArg_render_nil (a : List UInt8 × Option (List UInt8)) (h : (encArg a).render = []) : a = ([], none) := by
  obtain ⟨k, v⟩ := a
  unfold encArg ArgR.render at h
  cases v with
  | some v => simp at h
  | none =>
    cases k with
    | nil => rfl
    | cons c k => simp [renderToks, escAll, Tok.render] at h

/-- a trailing '&' is needed exactly after a last argument with empty name and no value -/
def needTr : List (List UInt8 × Option (List UInt8)) → Bool
  | [] => false
  | [a] => a.1.isEmpty && a.2.isNone
  | _ :: b :: rest => needTr (b :: rest)

theorem segsTrailOK_enc : ∀ (args : List (List UInt8 × Option (List UInt8))),
    segsTrailOK (args.map (fun a => (encArg a).render)) (needTr args) = true := by
  intro args
  induction args with
  | nil => rfl
  | cons a rest ih =>
    cases rest with
    | nil =>
      simp only [List.map_cons, List.map_nil, segsTrailOK, needTr]
      by_cases he : (encArg a).render = []
      · have := encArg_render_nil a he; subst this; rfl
      · simp [he]
    | cons b rest2 =>
      simp only [List.map_cons, segsTrailOK, needTr] at ih ⊢
      exact ih

/-- **Every semantic request target has an admissible rendering** (so the round trip
    `target_decode_render` / `reqline_target_roundtrip*` covers every path and every argument
    list, arbitrary bytes included): escape everything. -/
theorem exists_rendering (path : List UInt8) (hp : path ≠ []) (args : List (List UInt8 × Option (List UInt8))) :
    ∃ R : TargetR, R.ok = true ∧ R.semPath = path ∧ R.semArgs = args := by
  refine ⟨⟨path.map escAll, some (args.map encArg, needTr args)⟩, ?_, semToks_escAll path, ?_⟩
  · unfold TargetR.ok
    have h1 : (path.map escAll).isEmpty = false := by cases path with
      | nil => exact absurd rfl hp
      | cons _ _ => rfl
    have h2 : (args.map encArg).all ArgR.ok = true := by
      rw [List.all_eq_true]
      intro r hr
      simp only [List.mem_map] at hr
      obtain ⟨a, _, rfl⟩ := hr
      exact encArg_ok a
    have h3 := segsTrailOK_enc args
    simp only [h1, all_escAll Tok.okPath (fun _ => rfl), h2, List.map_map, Bool.not_false, Bool.true_and, Bool.and_true]
    exact h3
  · unfold TargetR.semArgs
    simp only [List.map_map]
    conv => rhs; rw [← List.map_id args]
    apply List.map_congr_left
    intro a _; exact encArg_sem a

end TGT
end Mhd.Req
