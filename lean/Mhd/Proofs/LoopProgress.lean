/-
  C06 — proofs, part 5: progress of one connection under a fair schedule, whatever the
  other connections do; a small lawful instance of the abstract step (non-vacuity).
-/
import Mhd.Proofs.LoopHist
namespace Mhd.Loop
open Mhd.Gen.Loop
variable {W : Type}

/-! ### progress of one connection -/

/-- Laws about the reply side of the abstract step, for a measure `rank`:
    `awaiting l` = a complete (or definitively malformed) request waits for its reply,
    `replies l` = number of replies completely sent on this connection so far. -/
structure ProgLaws (ops : Ops W) (awaiting : Local W → Bool) (replies rank : Local W → Nat) : Prop where
  write_mono : ∀ id k l, replies l ≤ replies (ops.write id k l)
  idle_mono : ∀ id k wh l, replies l ≤ replies (ops.idle id k wh l).1
  /-- the request does not vanish and the measure does not grow while the reply is not complete -/
  write_keep : ∀ id k l, awaiting l = true → replies (ops.write id k l) = replies l →
      awaiting (ops.write id k l) = true ∧ rank (ops.write id k l) ≤ rank l
  idle_keep : ∀ id k l, awaiting l = true → (ops.idle id k .active l).2 = .active →
      replies (ops.idle id k .active l).1 = replies l →
      awaiting (ops.idle id k .active l).1 = true ∧ rank (ops.idle id k .active l).1 ≤ rank l ∧
      ((ops.idle id k .active l).1.eli = .process ∨ (ops.idle id k .active l).1.eli = .write)
  /-- a write on a connection that waits for writability sends something -/
  write_strict : ∀ id k l, awaiting l = true → l.eli = .write → replies (ops.write id k l) = replies l →
      rank (ops.write id k l) < rank l
  /-- an idle call on a connection in the PROCESS state makes progress (the application's
      "not ready yet" answers are counted in `rank`) -/
  idle_strict : ∀ id k l, awaiting l = true → l.eli = .process → (ops.idle id k .active l).2 = .active →
      replies (ops.idle id k .active l).1 = replies l → rank (ops.idle id k .active l).1 < rank l

section
variable {ops : Ops W} {needs awaiting : Local W → Bool} {replies rank : Local W → Nat}

/-- state of the tracked connection inside call_handlers -/
def PQ (awaiting : Local W → Bool) (replies rank : Local W → Nat) (r0 m : Nat) (s : CS W) : Prop :=
  s.wh ≠ .active ∨ r0 < replies s.c.loc ∨ (awaiting s.c.loc = true ∧ replies s.c.loc = r0 ∧ rank s.c.loc < m)

def PQS (awaiting : Local W → Bool) (replies rank : Local W → Nat) (r0 m : Nat) (s : CS W) : Prop :=
  s.wh ≠ .active ∨ r0 < replies s.c.loc ∨
    (awaiting s.c.loc = true ∧ replies s.c.loc = r0 ∧ rank s.c.loc < m ∧ (s.c.loc.eli = .process ∨ s.c.loc.eli = .write))

theorem PQS.toPQ {r0 m : Nat} {s : CS W} (h : PQS awaiting replies rank r0 m s) : PQ awaiting replies rank r0 m s := by
  rcases h with h | h | ⟨a, b, c, _⟩
  · exact Or.inl h
  · exact Or.inr (Or.inl h)
  · exact Or.inr (Or.inr ⟨a, b, c⟩)

theorem pq_write (PL : ProgLaws ops awaiting replies rank) {r0 m : Nat} {s : CS W}
    (h : PQ awaiting replies rank r0 m s) : PQ awaiting replies rank r0 m (doWrite ops s) := by
  rcases h with h | h | ⟨a, b, c⟩
  · exact Or.inl h
  · exact Or.inr (Or.inl (Nat.lt_of_lt_of_le h (PL.write_mono _ _ _)))
  · have hm := PL.write_mono s.c.id s.c.k s.c.loc
    rcases Nat.lt_or_ge r0 (replies (ops.write s.c.id s.c.k s.c.loc)) with hlt | hge
    · exact Or.inr (Or.inl hlt)
    · have he : replies (ops.write s.c.id s.c.k s.c.loc) = replies s.c.loc := by omega
      have := PL.write_keep _ _ _ a he
      exact Or.inr (Or.inr ⟨this.1, by show replies (ops.write s.c.id s.c.k s.c.loc) = r0; omega, Nat.lt_of_le_of_lt this.2 c⟩)

theorem pq_idle (L : Laws ops needs) (PL : ProgLaws ops awaiting replies rank) {r0 m : Nat} {s : CS W}
    (h : PQ awaiting replies rank r0 m s) : PQS awaiting replies rank r0 m (doIdle ops false s) := by
  by_cases hw : s.wh = .active
  · rcases h with h | h | ⟨a, b, c⟩
    · exact absurd hw h
    · right; left
      rw [doIdle_loc]
      exact Nat.lt_of_lt_of_le h (PL.idle_mono _ _ _ _)
    · by_cases hw' : (doIdle ops false s).wh = .active
      · rw [doIdle_wh, hw] at hw'
        have hm := PL.idle_mono s.c.id s.c.k .active s.c.loc
        rcases Nat.lt_or_ge r0 (replies (ops.idle s.c.id s.c.k .active s.c.loc).1) with hlt | hge
        · right; left; rw [doIdle_loc, hw]; exact hlt
        · have he : replies (ops.idle s.c.id s.c.k .active s.c.loc).1 = replies s.c.loc := by omega
          have := PL.idle_keep _ _ _ a hw' he
          right; right
          rw [doIdle_loc, hw]
          exact ⟨this.1, by omega, Nat.lt_of_le_of_lt this.2.1 c, this.2.2⟩
      · exact Or.inl hw'
  · left
    rw [doIdle_wh]
    exact L.idle_where _ _ _ _ hw

theorem hasRead_process : Eli.process.hasRead = false := by decide
theorem hasRead_write : Eli.write.hasRead = false := by decide
theorem isWrite_process : Eli.process.isWrite = false := by decide
theorem isWrite_write : Eli.write.isWrite = true := by decide

/-- call_handlers on a connection that awaits its reply, is in a PROCESS or WRITE state, is writable
    when it waits for writability and has no socket error: afterwards it left the active list, or the
    reply is complete, or the measure is strictly smaller. -/
theorem chLocal_progress (L : Laws ops needs) (PL : ProgLaws ops awaiting replies rank) (c : Conn W) (rr wr : Bool)
    (ha : awaiting c.loc = true) (hs : c.loc.eli = .process ∨ c.loc.eli = .write)
    (hfair : c.loc.eli = .write → wr = true) :
    PQS awaiting replies rank (replies c.loc) (rank c.loc)
      ⟨(chLocal ops false c .active rr wr false).c, (chLocal ops false c .active rr wr false).wh, []⟩ := by
  have hnr : c.loc.eli.hasRead = false := by
    rcases hs with h | h <;> rw [h] <;> decide
  unfold chLocal
  simp only [hnr, Bool.false_and, Bool.false_eq_true, if_false]
  generalize hs0 : (⟨c, .active, []⟩ : CS W) = s0
  have hc0 : s0.c = c := by rw [← hs0]
  have hw0 : s0.wh = .active := by rw [← hs0]
  unfold chTail
  simp only [hc0]
  rcases hs with he | he
  · -- PROCESS: a single handle_idle
    simp only [he, isWrite_process, Bool.false_and, Bool.false_eq_true, if_false, Bool.or_false, Bool.not_false, if_true]
    show PQS awaiting replies rank (replies c.loc) (rank c.loc) ⟨(doIdle ops false s0).c, (doIdle ops false s0).wh, []⟩
    by_cases hw' : (doIdle ops false s0).wh = .active
    · have hw'' := hw'
      rw [doIdle_wh, hw0, hc0] at hw''
      have hm := PL.idle_mono c.id c.k .active c.loc
      rcases Nat.lt_or_ge (replies c.loc) (replies (ops.idle c.id c.k .active c.loc).1) with hlt | hge
      · right; left
        show replies c.loc < replies (doIdle ops false s0).c.loc
        rw [doIdle_loc, hw0, hc0]; exact hlt
      · have heq : replies (ops.idle c.id c.k .active c.loc).1 = replies c.loc := by omega
        have k1 := PL.idle_keep _ _ _ ha hw'' heq
        have k2 := PL.idle_strict _ _ _ ha he hw'' heq
        right; right
        show awaiting (doIdle ops false s0).c.loc = true ∧ replies (doIdle ops false s0).c.loc = replies c.loc ∧
          rank (doIdle ops false s0).c.loc < rank c.loc ∧ _
        rw [doIdle_loc, hw0, hc0]
        exact ⟨k1.1, heq, k2, k1.2.2⟩
    · exact Or.inl hw'
  · -- WRITE and writable: write, idle, possibly the fast track
    have hwr := hfair he
    simp only [he, isWrite_write, hwr, Bool.and_self, if_true, Bool.or_true, Bool.not_true, Bool.false_eq_true, if_false]
    have q0 : PQ awaiting replies rank (replies c.loc) (rank c.loc) (doWrite ops s0) := by
      have hm := PL.write_mono c.id c.k c.loc
      rcases Nat.lt_or_ge (replies c.loc) (replies (ops.write c.id c.k c.loc)) with hlt | hge
      · right; left
        show replies c.loc < replies (ops.write s0.c.id s0.c.k s0.c.loc)
        rw [hc0]; exact hlt
      · have heq : replies (ops.write c.id c.k c.loc) = replies c.loc := by omega
        right; right
        show awaiting (ops.write s0.c.id s0.c.k s0.c.loc) = true ∧ replies (ops.write s0.c.id s0.c.k s0.c.loc) = replies c.loc ∧
          rank (ops.write s0.c.id s0.c.k s0.c.loc) < rank c.loc
        rw [hc0]
        exact ⟨(PL.write_keep _ _ _ ha heq).1, heq, PL.write_strict _ _ _ ha he heq⟩
    have q1 := pq_idle L PL q0
    have step : ∀ s, PQS awaiting replies rank (replies c.loc) (rank c.loc) s →
        PQS awaiting replies rank (replies c.loc) (rank c.loc) (doIdle ops false (doWrite ops s)) :=
      fun s h => pq_idle L PL (pq_write PL h.toPQ)
    have fin : ∀ s : CS W, PQS awaiting replies rank (replies c.loc) (rank c.loc) s →
        PQS awaiting replies rank (replies c.loc) (rank c.loc) ⟨s.c, s.wh, []⟩ := fun s h => h
    apply fin
    split
    · split
      · split
        · exact step _ (step _ q1)
        · exact step _ q1
      · split
        · exact step _ q1
        · exact q1
    · exact q1


theorem uniq_of_nodup : ∀ {V : List (Conn W)} {y c : Conn W}, (ids V).Nodup → y ∈ V → c ∈ V → y.id = c.id → y = c := by
  intro V
  induction V with
  | nil => intro y c _ hy; simp at hy
  | cons x rest ih =>
    intro y c hnd hy hc he
    simp only [ids_cons, List.nodup_cons] at hnd
    rcases List.mem_cons.mp hy with h1 | h1 <;> rcases List.mem_cons.mp hc with h2 | h2
    · rw [h1, h2]
    · exfalso; apply hnd.1; rw [← h1, he]; exact mem_ids h2
    · exfalso; apply hnd.1; rw [← h2, ← he]; exact mem_ids h1
    · exact ih hnd.2 h1 h2 he

/-- the active list after a round of either loop, in closed form -/
theorem round_conns (ops : Ops W) {d : Daemon W} (h : InvSP needs d) (rdy : Ready) (poll : Bool) :
    ∃ N V, (∀ c ∈ d.conns, c ∈ V) ∧ (ids (N ++ V)).Nodup ∧ (ids N = ids d.newc ∨ N = []) ∧
      (∀ x ∈ N, ∃ y ∈ d.newc, x.loc.st = y.loc.st) ∧
      (if poll then pollAllWith ops true d rdy else runFromSelectWith ops true d rdy).conns =
        N ++ V.filterMap (fun y => keepIf .active (visitRes ops false rdy y)) := by
  obtain ⟨R, N, PS, hdap⟩ := pre_stage h
  have hndc : (ids (preStage d).conns).Nodup :=
    List.Nodup.sublist (by rw [List.append_assoc]; exact List.sublist_append_left _ _) PS.nodup
  cases poll
  · refine ⟨[], (preStage d).conns, ?_, by simpa using hndc, Or.inr rfl, by intro x hx; simp at hx, ?_⟩
    · intro c hc; rw [PS.conns]; exact List.mem_append_right _ (List.mem_append_right _ hc)
    · have T := selectTrav_all ops rdy (preStage d) hndc (fun x hx => PS.valid x (Or.inl hx))
      have := T.conns
      rw [PS.epoll] at this
      show (cleanupConns (selectTrav ops true rdy ((preStage d).conns.length + 1) (tailId (preStage d).conns) (preStage d))).conns = _
      simpa [cleanupConns] using this
  · refine ⟨N, R ++ d.conns, fun c hc => List.mem_append_right _ hc, by rw [← PS.conns]; exact hndc, PS.newIds, PS.newFrom, ?_⟩
    have heq : pollAllWith ops true d rdy =
        cleanupConns (pollTrav ops true ((R ++ d.conns).reverse.map (·.id)) rdy ((preStage d).conns.length + 1) 0
          (tailId (preStage d).conns) (preStage d)) := by
      rw [pollAllWith_eq, pollStage_eq, show (rsStage d).conns = R ++ d.conns from PS.resumed]
    have T := pollTrav_all ops rdy (preStage d) N (R ++ d.conns) PS.conns hndc
    have := T.conns
    rw [PS.epoll] at this
    simp only [if_true, heq]
    simpa [cleanupConns] using this

/-- **one fair round.**  A connection that awaits its reply (PROCESS or WRITE state), is reported writable
    when it waits for writability and has no socket error: after the round — whatever the other
    connections did — it has left the active list, or its reply is complete, or its measure decreased. -/
theorem progress_round (L : Laws ops needs) (PL : ProgLaws ops awaiting replies rank) {d : Daemon W} (h : InvSP needs d)
    (rdy : Ready) (poll : Bool) {c : Conn W} (hc : c ∈ d.conns) (ha : awaiting c.loc = true)
    (hs : c.loc.eli = .process ∨ c.loc.eli = .write) (hfair : c.loc.eli = .write → rdyW rdy c.id = true)
    (hne : rdyE rdy c.id = false) :
    ∀ c' ∈ (if poll then pollAllWith ops true d rdy else runFromSelectWith ops true d rdy).conns, c'.id = c.id →
      replies c'.loc ≤ replies c.loc →
      awaiting c'.loc = true ∧ replies c'.loc = replies c.loc ∧ rank c'.loc < rank c.loc ∧
        (c'.loc.eli = .process ∨ c'.loc.eli = .write) := by
  obtain ⟨N, V, hV, hnd, hN, _, hconns⟩ := round_conns ops h rdy poll
  intro c' hc' hid hle
  rw [hconns] at hc'
  have hcV := hV c hc
  rcases List.mem_append.mp hc' with hin | hin
  · exfalso
    have h1 : c.id ∈ ids N := hid ▸ mem_ids hin
    have h2 : c.id ∈ ids V := mem_ids hcV
    rw [ids_append] at hnd
    exact (List.nodup_append.mp hnd).2.2 _ h1 _ h2 rfl
  · obtain ⟨y, hy, hw, rfl⟩ := mem_fm.mp hin
    have hyc : y = c := by
      have hndV : (ids V).Nodup := by rw [ids_append] at hnd; exact (List.nodup_append.mp hnd).2.1
      exact uniq_of_nodup hndV hy hcV ((visitRes_static _ _ _ _).id.symm.trans hid)
    subst hyc
    have P := chLocal_progress L PL y (rdyR rdy y.id) (rdyW rdy y.id) ha hs hfair
    have hv : visitRes ops false rdy y = chLocal ops false y .active (rdyR rdy y.id) (rdyW rdy y.id) false := by
      unfold visitRes; rw [hne]
    rw [hv] at hw hle ⊢
    rcases P with P | P | P
    · exact absurd hw P
    · exfalso; exact Nat.lt_irrefl _ (Nat.lt_of_lt_of_le P hle)
    · exact P


/-- after handle_idle a connection that stays in the active list is not in the CLOSED state
    (true of the code once a connection closed while its wait state is computed is moved to the
    cleanup list at once — F22; connection timeouts are C10's subject) -/
structure LawOpen (ops : Ops W) : Prop where
  idle_open : ∀ id k wh l, (ops.idle id k wh l).2 = .active → (ops.idle id k wh l).1.st ≠ stClosed

/-- no closed connection is left behind in the active list by a round -/
theorem round_no_closed (LO : LawOpen ops) {d : Daemon W} (h : InvSP needs d) (rdy : Ready) (poll : Bool)
    (hnew : ∀ c ∈ d.newc, c.loc.st ≠ stClosed) :
    ∀ c ∈ (if poll then pollAllWith ops true d rdy else runFromSelectWith ops true d rdy).conns, c.loc.st ≠ stClosed := by
  obtain ⟨N, V, _, _, _, hNf, hconns⟩ := round_conns ops h rdy poll
  intro c hc
  rw [hconns] at hc
  rcases List.mem_append.mp hc with hin | hin
  · obtain ⟨y, hy, e⟩ := hNf c hin
    rw [e]; exact hnew y hy
  · obtain ⟨y, hy, hw, rfl⟩ := mem_fm.mp hin
    unfold visitRes at hw ⊢
    obtain ⟨⟨u, _, hcc, hww, _⟩, _⟩ := chLocal_endsIdle ops false y .active (rdyR rdy y.id) (rdyW rdy y.id) (rdyE rdy y.id)
    rw [hcc, doIdle_loc]
    rw [hww, doIdle_wh] at hw
    exact LO.idle_open _ _ _ _ hw

/-- the wait class MHD_connection_update_event_loop_info gives a state (regenerated table) -/
def TableOK (l : Local W) : Prop :=
  (l.st ∈ writeStates → l.eli = .write) ∧ (l.st ∈ processStates → l.eli = .process) ∧ (l.st ∈ readStates → l.eli = .read)

/-- handle_idle ends with MHD_connection_update_event_loop_info: a connection that stays active waits for what
    its state calls for — in particular one with a reply to send waits for writability, not for the client -/
structure LawTable (ops : Ops W) : Prop where
  idle_table : ∀ id k wh l, (ops.idle id k wh l).2 = .active → TableOK (ops.idle id k wh l).1

theorem round_table (LT : LawTable ops) {d : Daemon W} (h : InvSP needs d) (rdy : Ready) (poll : Bool) :
    ∀ c ∈ (if poll then pollAllWith ops true d rdy else runFromSelectWith ops true d rdy).conns,
      c.id ∈ ids d.newc ∨ TableOK c.loc := by
  obtain ⟨N, V, _, _, hN, _, hconns⟩ := round_conns ops h rdy poll
  intro c hc
  rw [hconns] at hc
  rcases List.mem_append.mp hc with hin | hin
  · left
    rcases hN with e | e
    · rw [← e]; exact mem_ids hin
    · rw [e] at hin; simp at hin
  · right
    obtain ⟨y, hy, hw, rfl⟩ := mem_fm.mp hin
    unfold visitRes at hw ⊢
    obtain ⟨⟨u, _, hcc, hww, _⟩, _⟩ := chLocal_endsIdle ops false y .active (rdyR rdy y.id) (rdyW rdy y.id) (rdyE rdy y.id)
    rw [hcc, doIdle_loc]
    rw [hww, doIdle_wh] at hw
    exact LT.idle_table _ _ _ _ hw

/-! ### histories -/

/-- what can happen to a daemon from outside -/
inductive Step (W : Type) where
  | add (c : Conn W)        -- MHD_add_connection
  | resume (id : CId)       -- MHD_resume_connection
  | round (rdy : Ready)     -- one event-loop round with this readiness

def roundOf (ops : Ops W) (poll : Bool) (d : Daemon W) (rdy : Ready) : Daemon W :=
  if poll then pollAllWith ops true d rdy else runFromSelectWith ops true d rdy

def stepOf (ops : Ops W) (poll : Bool) (d : Daemon W) : Step W → Daemon W
  | .add c => addConn d c
  | .resume id => resumeReq d id
  | .round rdy => roundOf ops poll d rdy

def runSteps (ops : Ops W) (poll : Bool) (d : Daemon W) (H : List (Step W)) : Daemon W := H.foldl (stepOf ops poll) d

def nRounds : List (Step W) → Nat
  | [] => 0
  | .round _ :: H => nRounds H + 1
  | _ :: H => nRounds H

/-- The history is legal and fair for connection `p`: added connections are fresh and do not reuse
    the id; in every round in which `p` is active, `p` is reported writable if it waits for
    writability (the client reads what it is sent) and no socket error is reported for it.
    Nothing is assumed about the other connections or their readiness. -/
def FairFor (ops : Ops W) (needs : Local W → Bool) (poll : Bool) (p : CId) : Daemon W → List (Step W) → Prop
  | _, [] => True
  | d, .add c :: H => c.id ≠ p ∧ FreshConn needs d c ∧ FairFor ops needs poll p (addConn d c) H
  | d, .resume id :: H => FairFor ops needs poll p (resumeReq d id) H
  | d, .round rdy :: H =>
      (∀ c ∈ d.conns, c.id = p → (c.loc.eli = .write → rdyW rdy p = true) ∧ rdyE rdy p = false) ∧
      FairFor ops needs poll p (roundOf ops poll d rdy) H

/-- **Progress.**  A connection that awaits its reply is served — its reply is completely sent, or it
    is closed, or its own handler suspended it — before the `rank + 1`-th round of any fair history,
    whatever the other connections do in those rounds. -/
theorem progress_history (L : Laws ops needs) (PL : ProgLaws ops awaiting replies rank) (poll : Bool) (p : CId) :
    ∀ (H : List (Step W)) (d : Daemon W) (c : Conn W), InvSP needs d → c ∈ d.conns → c.id = p →
      awaiting c.loc = true → (c.loc.eli = .process ∨ c.loc.eli = .write) →
      FairFor ops needs poll p d H → rank c.loc < nRounds H →
      ∃ H1 H2, H = H1 ++ H2 ∧ ∀ c' ∈ (runSteps ops poll d H1).conns, c'.id = p → replies c.loc < replies c'.loc := by
  intro H
  induction H with
  | nil => intro d c _ _ _ _ _ _ hr; simp [nRounds] at hr
  | cons st H' ih =>
    intro d c hinv hc hid ha hs hfair hr
    cases st with
    | add c2 =>
      obtain ⟨_, hfresh, hf'⟩ := hfair
      obtain ⟨H1, H2, e, hh⟩ := ih (addConn d c2) c (addConn_inv hinv hfresh) hc hid ha hs hf' hr
      exact ⟨.add c2 :: H1, H2, by rw [e]; rfl, hh⟩
    | resume id =>
      obtain ⟨H1, H2, e, hh⟩ := ih (resumeReq d id) c (resumeReq_inv hinv id) hc hid ha hs hfair hr
      exact ⟨.resume id :: H1, H2, by rw [e]; rfl, hh⟩
    | round rdy =>
      obtain ⟨hf0, hf'⟩ := hfair
      have hf1 := hf0 c hc hid
      have hinv' : InvSP needs (roundOf ops poll d rdy) := by
        unfold roundOf; cases poll
        · exact (select_round L hinv rdy).1
        · exact (poll_round L hinv rdy).1
      have PR := progress_round L PL hinv rdy poll hc ha hs (by rw [hid]; exact hf1.1) (by rw [hid]; exact hf1.2)
      by_cases hex : ∃ c' ∈ (roundOf ops poll d rdy).conns, c'.id = p ∧ replies c'.loc ≤ replies c.loc
      · obtain ⟨c', hc', hid', hle⟩ := hex
        have P := PR c' hc' (hid'.trans hid.symm) hle
        have hr' : rank c'.loc < nRounds H' := by simp only [nRounds] at hr; omega
        obtain ⟨H1, H2, e, hh⟩ := ih (roundOf ops poll d rdy) c' hinv' hc' hid' P.1 P.2.2.2 hf' hr'
        refine ⟨.round rdy :: H1, H2, by rw [e]; rfl, ?_⟩
        intro c'' hc'' hid''
        have := hh c'' hc'' hid''
        rw [P.2.1] at this
        exact this
      · refine ⟨[.round rdy], H', rfl, ?_⟩
        intro c' hc' hid'
        rcases Nat.lt_or_ge (replies c.loc) (replies c'.loc) with h1 | h1
        · exact h1
        · exact absurd ⟨c', hc', hid', h1⟩ hex

end
end Mhd.Loop

namespace Mhd.Loop
open Mhd.Gen.Loop

/-! a small lawful instance of the abstract step, used for the non-vacuity examples:
    `w = (work units left before the reply is complete, replies sent)`; every idle call of a
    connection in the PROCESS state does one unit -/
namespace Demo

abbrev Wk := Nat × Nat

def ops : Ops Wk where
  read := fun _ _ f l => if f then { l with st := stClosed } else l
  write := fun _ _ l => l
  close := fun _ _ l => l
  idle := fun _ _ wh l =>
    if l.st = stClosed then (l, .cleanup)
    else if l.w.1 = 0 then ({ l with eli := .read }, wh)
    else if l.w.1 = 1 then ({ l with eli := .read, w := (0, l.w.2 + 1) }, wh)
    else ({ l with eli := .process, w := (l.w.1 - 1, l.w.2) }, wh)

def needs (l : Local Wk) : Bool := decide (0 < l.w.1)
def awaiting (l : Local Wk) : Bool := decide (0 < l.w.1) && decide (l.eli = .process)
def replies (l : Local Wk) : Nat := l.w.2
def rank (l : Local Wk) : Nat := l.w.1

theorem laws : Laws ops needs where
  idle_sync := by
    intro id k wh l h hn
    simp only [ops] at h hn ⊢
    split at hn <;> rename_i h1
    · simp only [h1, if_true] at h ⊢; cases h
    · split at hn <;> rename_i h2
      · simp [needs, h2] at hn
      · split at hn <;> rename_i h3
        · simp [needs] at hn
        · simp only [h1, h2, h3, if_false]; decide
  idle_closed := by intro id k l h; simp [ops, h]
  read_force := by intro id k l; simp [ops]
  idle_where := by
    intro id k wh l h
    simp only [ops]
    split
    · simp
    · split
      · exact h
      · split <;> exact h

theorem progLaws : ProgLaws ops awaiting replies rank where
  write_mono := by intro id k l; exact Nat.le_refl _
  idle_mono := by
    intro id k wh l
    simp only [ops, replies]
    split
    · exact Nat.le_refl _
    · split
      · exact Nat.le_refl _
      · split
        · exact Nat.le_succ _
        · exact Nat.le_refl _
  write_keep := by intro id k l h _; exact ⟨h, Nat.le_refl _⟩
  write_strict := by
    intro id k l h he _
    simp [awaiting, he] at h
  idle_keep := by
    intro id k l ha hw hr
    simp only [awaiting, Bool.and_eq_true, decide_eq_true_eq] at ha
    simp only [ops, replies, rank, awaiting] at hw hr ⊢
    split at hw <;> rename_i h1
    · cases hw
    · simp only [h1, if_false] at hr ⊢
      split at hr <;> rename_i h2
      · omega
      · split at hr <;> rename_i h3
        · simp at hr
        · simp only [h2, h3, if_false]
          refine ⟨by simp; omega, by simp, by simp⟩
  idle_strict := by
    intro id k l ha he hw hr
    simp only [awaiting, Bool.and_eq_true, decide_eq_true_eq] at ha
    simp only [ops, replies, rank] at hw hr ⊢
    split at hw <;> rename_i h1
    · cases hw
    · simp only [h1, if_false] at hr ⊢
      split at hr <;> rename_i h2
      · omega
      · split at hr <;> rename_i h3
        · simp at hr
        · simp only [h2, h3, if_false]; omega

def mkLoc (work : Nat) (e : Eli) : Local Wk :=
  { st := 17, eli := e, rdReady := false, wrReady := false, bufSpace := true, w := (work, 0) }

/-- connection 0 needs two more idle calls for its reply; connection 1 waits for a request -/
def d0 : Daemon Wk :=
  { conns := [{ id := 1, loc := { mkLoc 0 .read with st := stInit } }, { id := 0, loc := mkLoc 2 .process }], dap := true }

theorem d0_inv : InvSP needs d0 := by
  refine ⟨rfl, by decide, ?_, ?_, ?_, ?_, fun _ => rfl, rfl, rfl⟩
  · intro c hc
    simp only [d0, List.mem_cons, List.not_mem_nil, or_false] at hc
    rcases hc with (rfl | rfl) | h | h <;> first | rfl | (simp at h)
  · intro c hc
    simp only [d0, List.mem_cons, List.not_mem_nil, or_false] at hc
    rcases hc with rfl | rfl <;> intro h <;> revert h <;> decide
  · intro c _ _; rfl
  · intro c hc; simp [d0] at hc

end Demo
end Mhd.Loop
