import Mhd.Proofs.Pool

namespace Mhd.Pool

/-! ### Specification-level predicates (used by the statements in `Mhd.Props.C08`) -/

/-- arena invariant -/
def Inv (p : Pool) : Prop :=
  p.pos ≤ p.end_ ∧ p.end_ ≤ p.size ∧ p.pos % A = 0 ∧ p.end_ % A = 0 ∧ p.size % A = 0 ∧
  p.size < 2 ^ 62 ∧ p.mem.length = p.size

/-- a live block lies in the part of the arena it was carved from -/
def Blk.Inside (p : Pool) (b : Blk) : Prop :=
  b.off % A = 0 ∧ b.off ≤ p.size ∧ b.len < W ∧
  (0 < b.len → (b.front = true → b.off + b.len ≤ p.pos) ∧
               (b.front = false → p.end_ ≤ b.off ∧ b.off + b.len ≤ p.size))

/-- two blocks share no byte -/
def Disjoint (a b : Blk) : Prop :=
  a.len = 0 ∨ b.len = 0 ∨ a.off + a.len ≤ b.off ∨ b.off + b.len ≤ a.off

def WF (s : St) : Prop :=
  Inv s.p ∧ (∀ b ∈ s.live, b.Inside s.p) ∧ s.live.Pairwise Disjoint

/-- arguments are `size_t` values -/
def Op.Valid : Op → Prop
  | .alloc n _ => n < W
  | .tryAlloc n => n < W
  | .realloc _ n => n < W
  | .dealloc _ => True
  | .reset _ _ _ => True

def Op.isReset : Op → Prop
  | .reset _ _ _ => True
  | _ => False

/-- the live block an operation is asked to work on -/
def Op.target : Op → Option Nat
  | .realloc (some i) _ => some i
  | .dealloc i => some i
  | _ => none

theorem Disjoint.symm {a b : Blk} (h : Disjoint a b) : Disjoint b a := by
  unfold Disjoint at *; omega

/-! ### list helpers -/

theorem pairwise_getElem? {α} {R : α → α → Prop} (hs : ∀ a b, R a b → R b a) {l : List α}
    (h : l.Pairwise R) {i j : Nat} {a b : α} (hi : l[i]? = some a) (hj : l[j]? = some b)
    (hij : i ≠ j) : R a b := by
  rw [List.pairwise_iff_getElem] at h
  obtain ⟨hi', rfl⟩ := List.getElem?_eq_some_iff.mp hi
  obtain ⟨hj', rfl⟩ := List.getElem?_eq_some_iff.mp hj
  rcases Nat.lt_or_gt_of_ne hij with hlt | hgt
  · exact h i j hi' hj' hlt
  · exact hs _ _ (h j i hj' hi' hgt)

theorem mem_of_getElem? {α} {l : List α} {i : Nat} {a : α} (h : l[i]? = some a) : a ∈ l :=
  List.mem_of_getElem? h

theorem mem_eraseIdx_getElem? {α} {l : List α} {i : Nat} {c : α} (h : c ∈ l.eraseIdx i) :
    ∃ j, j ≠ i ∧ l[j]? = some c := by
  rw [List.mem_eraseIdx_iff_getElem?] at h
  obtain ⟨j, hne, hj⟩ := h
  exact ⟨j, hne, hj⟩

theorem pairwise_append_single {α} {R : α → α → Prop} {l : List α} {x : α}
    (h : l.Pairwise R) (hx : ∀ c ∈ l, R c x) : (l ++ [x]).Pairwise R := by
  rw [List.pairwise_append]
  exact ⟨h, List.pairwise_singleton _ _, fun a ha b hb => by
    rw [List.mem_singleton] at hb; subst hb; exact hx a ha⟩

end Mhd.Pool

namespace Mhd.Pool

/-! ### per-operation facts at pool level -/

theorem roundUp_facts (n : Nat) (hn : n < W) :
    roundUp n % A = 0 ∧ (n + A ≤ W → n ≤ roundUp n ∧ roundUp n < n + A) ∧
    (W < n + A → roundUp n = 0) ∧ roundUp n < W := by
  simp only [roundUp, A, Mhd.Gen.Pool.alignSize, W] at *
  omega

theorem A_pos : 0 < A ∧ A < 2 ^ 32 := by simp [A, Mhd.Gen.Pool.alignSize]
theorem W_eq : W = 2 ^ 64 := rfl

theorem allocate_spec (p : Pool) (n : Nat) (fe : Bool) (h : Inv p) (hn : n < W) :
    (∃ off p', allocate p n fe = (p', some off) ∧ Inv p' ∧ p'.mem = p.mem ∧ p'.size = p.size ∧
        off % A = 0 ∧
        (fe = false → off = p.pos ∧ off + n ≤ p'.pos ∧ p'.end_ = p.end_ ∧ p.pos ≤ p'.pos) ∧
        (fe = true → p'.pos = p.pos ∧ off = p'.end_ ∧ off + n ≤ p.end_ ∧ p'.end_ ≤ p.end_)) ∨
    allocate p n fe = (p, none) := by
  unfold Inv at h
  have hr := roundUp_facts n hn
  simp only [W_eq, A, Mhd.Gen.Pool.alignSize] at *
  unfold allocate
  by_cases h1 : (roundUp n = 0 ∧ n ≠ 0)
  · right; simp [h1]
  · by_cases h2 : roundUp n > p.end_ - p.pos
    · right; simp [h1, h2]
    · left
      cases fe
      · refine ⟨p.pos, { p with pos := p.pos + roundUp n }, ?_, ?_⟩
        · simp [h1, h2]
        · simp only [Inv, A, Mhd.Gen.Pool.alignSize]; simp; omega
      · refine ⟨p.end_ - roundUp n, { p with end_ := p.end_ - roundUp n }, ?_, ?_⟩
        · simp [h1, h2]
        · simp only [Inv, A, Mhd.Gen.Pool.alignSize]; simp; omega


theorem tryAlloc_spec (p : Pool) (n : Nat) (h : Inv p) (hn : n < W) :
    (∃ off p', tryAlloc p n = (p', some off, none) ∧ Inv p' ∧ p'.mem = p.mem ∧ p'.size = p.size ∧
        off % A = 0 ∧ p'.pos = p.pos ∧ off = p'.end_ ∧ off + n ≤ p.end_ ∧ p'.end_ ≤ p.end_) ∨
    (∃ need, tryAlloc p n = (p, none, some need)) := by
  unfold Inv at h
  have hr := roundUp_facts n hn
  simp only [W_eq, A, Mhd.Gen.Pool.alignSize] at *
  unfold tryAlloc
  by_cases h1 : (roundUp n = 0 ∧ n ≠ 0)
  · right; simp [h1]
  · by_cases h2 : roundUp n > p.end_ - p.pos
    · right
      by_cases h3 : roundUp n ≤ p.end_ <;> simp [h1, h2, h3]
    · left
      refine ⟨p.end_ - roundUp n, { p with end_ := p.end_ - roundUp n }, ?_, ?_⟩
      · simp [h1, h2]
      · simp only [Inv, A, Mhd.Gen.Pool.alignSize]; simp; omega

/-- contents after the shrinking memset of `reallocate` -/
def shrinkMem (p : Pool) (o os n : Nat) : List UInt8 :=
  if os > n then zeroRange p.mem (o + n) (os - n) else p.mem

/-- contents after relocating a block to `p.pos` -/
def moveMem (p : Pool) (o os : Nat) : List UInt8 :=
  if os ≠ 0 then zeroRange (writeAt p.mem p.pos (readAt p.mem o os)) o os else p.mem

/-- purely syntactic case analysis of `reallocate` on a non-NULL block -/
theorem reallocate_cases (p : Pool) (o os n : Nat) :
    reallocate p (some o) os n = (p, none) ∧ os ≤ n ∨
    (reallocate p (some o) os n = ({ p with pos := roundUp ((o + n) % W), mem := shrinkMem p o os n }, some o) ∧
       p.pos = roundUp ((o + os) % W) ∧
       (os ≤ n → roundUp ((o + n) % W) ≤ p.end_ ∧ p.pos ≤ roundUp ((o + n) % W) ∧ n ≤ (p.end_ + W - o) % W)) ∨
    (reallocate p (some o) os n = ({ p with mem := shrinkMem p o os n }, some o) ∧ n < os ∧
       p.pos ≠ roundUp ((o + os) % W)) ∨
    (reallocate p (some o) os n = ({ p with pos := p.pos + roundUp n, mem := moveMem p o os }, some p.pos) ∧
       os ≤ n ∧ roundUp n ≤ p.end_ - p.pos ∧ (roundUp n = 0 → n = 0) ∧ p.pos ≠ roundUp ((o + os) % W)) := by
  unfold reallocate shrinkMem moveMem
  by_cases hs : os > n
  · by_cases hl : p.pos = roundUp ((o + os) % W)
    · right; left
      simp [hs, hl]
      omega
    · right; right; left
      simp [hs, hl]
  · have hs' : os ≤ n := by omega
    by_cases hl : p.pos = roundUp ((o + os) % W)
    · by_cases hg : (roundUp ((o + n) % W) > p.end_ ∨ roundUp ((o + n) % W) < p.pos ∨ n > (p.end_ + W - o) % W)
      · left
        simp [hs, hl, hs']
        intro h1 h2; omega
      · right; left
        have hg' : ¬ (p.end_ < roundUp ((o + n) % W) ∨ roundUp ((o + n) % W) < roundUp ((o + os) % W) ∨ (p.end_ + W - o) % W < n) := by
          rw [← hl]; exact hg
        simp [hs, hl, hg', hs']
        omega
    · by_cases hf : (roundUp n = 0 ∧ n ≠ 0) ∨ roundUp n > p.end_ - p.pos
      · left
        simp [hs, hl, hf, hs']
      · right; right; right
        by_cases ho : os = 0
        · subst ho; simp only [Nat.add_zero] at *; simp [hl, hf]; omega
        · simp [hs, hl, hf, ho, hs']; omega


theorem W_pos : 0 < W := by simp [W]

/-- unfold the geometric predicates down to linear arithmetic and call `omega` -/
macro "pool_arith" : tactic =>
  `(tactic| (simp only [Inv, Blk.Inside, Disjoint, W_eq, A, Mhd.Gen.Pool.alignSize, Bool.true_eq_false,
      Bool.false_eq_true, true_implies, false_implies, and_true, true_and, forall_const,
      eq_self_iff_true, reduceCtorEq, roundUp] at *; omega))

theorem shrinkMem_length (p : Pool) (o os n : Nat) (h : 0 < os → o + os ≤ p.mem.length) :
    (shrinkMem p o os n).length = p.mem.length := by
  unfold shrinkMem
  split
  · rw [zeroRange_length]; omega
  · rfl

theorem moveMem_length (p : Pool) (o os : Nat) (h : o + os ≤ p.mem.length)
    (h2 : p.pos + os ≤ p.mem.length) : (moveMem p o os).length = p.mem.length := by
  unfold moveMem
  split
  · have hl : (readAt p.mem o os).length = os := readAt_length _ _ _ h
    rw [zeroRange_length, writeAt_length] <;> (try rw [writeAt_length]) <;> omega
  · rfl

theorem inside_front {p : Pool} {o l : Nat} (h : Blk.Inside p ⟨o, l, true⟩) :
    o % A = 0 ∧ o ≤ p.size ∧ l < W ∧ (0 < l → o + l ≤ p.pos) := by
  obtain ⟨a, b, c, d⟩ := h
  exact ⟨a, b, c, fun hl => (d hl).1 rfl⟩

theorem inside_front_mk {p : Pool} {o l : Nat} (h : o % A = 0 ∧ o ≤ p.size ∧ l < W ∧ (0 < l → o + l ≤ p.pos)) :
    Blk.Inside p ⟨o, l, true⟩ := by
  obtain ⟨a, b, c, d⟩ := h
  exact ⟨a, b, c, fun hl => ⟨fun _ => d hl, fun hh => by simp at hh⟩⟩

/-- what `Inside` gives about a block, as plain arithmetic: either it is empty,
    or it lies below `pos`, or between `end_` and `size`. -/
theorem inside_arith {p : Pool} {c : Blk} (h : c.Inside p) :
    c.off % A = 0 ∧ c.off ≤ p.size ∧ c.len < W ∧
    (c.len = 0 ∨ (c.front = true ∧ c.off + c.len ≤ p.pos) ∨ (c.front = false ∧ p.end_ ≤ c.off ∧ c.off + c.len ≤ p.size)) := by
  obtain ⟨a, b, c', d⟩ := h
  refine ⟨a, b, c', ?_⟩
  by_cases hl : c.len = 0
  · left; exact hl
  · right
    have := d (by omega)
    cases hf : c.front
    · right; exact ⟨rfl, this.2 hf⟩
    · left; exact ⟨rfl, this.1 hf⟩

theorem inside_mk {p : Pool} {c : Blk} (h : c.off % A = 0 ∧ c.off ≤ p.size ∧ c.len < W ∧
    (c.len = 0 ∨ (c.front = true ∧ c.off + c.len ≤ p.pos) ∨ (c.front = false ∧ p.end_ ≤ c.off ∧ c.off + c.len ≤ p.size))) :
    c.Inside p := by
  obtain ⟨a, b, c', d⟩ := h
  refine ⟨a, b, c', fun hl => ⟨fun hf => ?_, fun hf => ?_⟩⟩
  · rcases d with d | ⟨_, d⟩ | ⟨d, _⟩
    · omega
    · exact d
    · rw [hf] at d; simp at d
  · rcases d with d | ⟨d, _⟩ | ⟨_, d⟩
    · omega
    · rw [hf] at d; simp at d
    · exact d

/-- transport of `Inside` for an untouched block when the cursors move -/
theorem inside_transport {p p' : Pool} {c : Blk} (h : c.Inside p) (hs : p'.size = p.size)
    (hpos : c.len ≠ 0 → c.front = true → c.off + c.len ≤ p.pos → c.off + c.len ≤ p'.pos)
    (hend : c.len ≠ 0 → c.front = false → p.end_ ≤ c.off → p'.end_ ≤ c.off) : c.Inside p' := by
  have := inside_arith h
  apply inside_mk
  rw [hs]
  refine ⟨this.1, this.2.1, this.2.2.1, ?_⟩
  rcases this.2.2.2 with d | ⟨d1, d2⟩ | ⟨d1, d2, d3⟩
  · left; exact d
  · by_cases hl : c.len = 0
    · left; exact hl
    · right; left; exact ⟨d1, hpos hl d1 d2⟩
  · by_cases hl : c.len = 0
    · left; exact hl
    · right; right; exact ⟨d1, hend hl d1 d2, d3⟩

theorem inv_arith {p : Pool} (h : Inv p) : p.pos ≤ p.end_ ∧ p.end_ ≤ p.size ∧ p.pos % A = 0 ∧ p.end_ % A = 0 ∧ p.size % A = 0 ∧
  p.size < 2 ^ 62 ∧ p.mem.length = p.size := h

theorem realloc_inplace (p : Pool) (bo bl n : Nat) (h : Inv p) (hb : Blk.Inside p ⟨bo, bl, true⟩) (hn : n < W)
    (h1 : p.pos = roundUp ((bo + bl) % W))
    (h2 : bl ≤ n → roundUp ((bo + n) % W) ≤ p.end_ ∧ p.pos ≤ roundUp ((bo + n) % W) ∧ n ≤ (p.end_ + W - bo) % W)
    (p' : Pool) (hp' : p' = { p with pos := roundUp ((bo + n) % W), mem := shrinkMem p bo bl n }) :
    Inv p' ∧ Blk.Inside p' ⟨bo, n, true⟩ ∧ bo + n ≤ p.size ∧
    (∀ c : Blk, c.Inside p → Disjoint ⟨bo, bl, true⟩ c →
        c.Inside p' ∧ Disjoint c ⟨bo, n, true⟩ ∧ readAt p'.mem c.off c.len = readAt p.mem c.off c.len) ∧
    readAt p'.mem bo (min bl n) = readAt p.mem bo (min bl n) := by
  have hi := inv_arith h
  have hbf := inside_front hb
  have key : bo + n ≤ roundUp ((bo + n) % W) ∧ roundUp ((bo + n) % W) ≤ p.end_ ∧
      roundUp ((bo + n) % W) % A = 0 ∧ (0 < bl → bo + bl ≤ p.size) ∧
      (∀ x l, x % A = 0 → 0 < l → x + l ≤ p.pos → (x + l ≤ bo ∨ bo + bl ≤ x) → x + l ≤ bo) := by
    simp only [roundUp, W_eq, A, Mhd.Gen.Pool.alignSize] at *
    refine ⟨by omega, by omega, by omega, by omega, ?_⟩
    intro x l hx hl hxl hd
    omega
  obtain ⟨k1, k2, k3, k4, k5⟩ := key
  have hml : p'.mem.length = p.mem.length := by
    rw [hp']; exact shrinkMem_length p bo bl n (by intro hh; have := k4 hh; omega)
  have hsz : p'.size = p.size := by rw [hp']
  have hpos : p'.pos = roundUp ((bo + n) % W) := by rw [hp']
  have hend : p'.end_ = p.end_ := by rw [hp']
  refine ⟨?_, ?_, by omega, ?_, ?_⟩
  · refine ⟨?_, ?_, ?_, ?_, ?_, ?_, ?_⟩ <;> (try rw [hpos]) <;> (try rw [hend]) <;> (try rw [hsz]) <;> (try rw [hml]) <;> omega
  · apply inside_front_mk; rw [hsz, hpos]; exact ⟨hbf.1, hbf.2.1, hn, fun _ => k1⟩
  · intro c hci hd
    have hca := inside_arith hci
    have hdisj : c.len = 0 ∨ bl = 0 ∨ bo + bl ≤ c.off ∨ c.off + c.len ≤ bo := by
      unfold Disjoint at hd; simp only at hd; omega
    refine ⟨?_, ?_, ?_⟩
    · apply inside_transport hci hsz
      · intro hl _ hle
        rw [hpos]
        by_cases hbl : bl = 0
        · subst hbl
          simp only [roundUp, W_eq, A, Mhd.Gen.Pool.alignSize] at *
          omega
        · have := k5 c.off c.len hca.1 (by omega) hle (by omega)
          omega
      · intro _ _ hle; rw [hend]; exact hle
    · unfold Disjoint; simp only
      rcases hca.2.2.2 with d | ⟨_, d⟩ | ⟨_, d, _⟩
      · left; exact d
      · by_cases hbl : bl = 0
        · subst hbl
          simp only [roundUp, W_eq, A, Mhd.Gen.Pool.alignSize] at *
          omega
        · by_cases hcl : c.len = 0
          · left; exact hcl
          · have := k5 c.off c.len hca.1 (by omega) d (by omega)
            omega
      · omega
    · rw [hp']; show readAt (shrinkMem p bo bl n) c.off c.len = _
      unfold shrinkMem
      split
      · by_cases hcl : c.len = 0
        · simp [readAt, hcl]
        · apply readAt_zeroRange_disjoint
          · have := k4 (by omega); omega
          · omega
      · rfl
  · rw [hp']; show readAt (shrinkMem p bo bl n) bo (min bl n) = _
    unfold shrinkMem
    split
    · apply readAt_zeroRange_disjoint
      · have := k4 (by omega); omega
      · omega
    · rfl

theorem realloc_shrink (p : Pool) (bo bl n : Nat) (h : Inv p) (hb : Blk.Inside p ⟨bo, bl, true⟩) (hn : n < bl)
    (p' : Pool) (hp' : p' = { p with mem := shrinkMem p bo bl n }) :
    Inv p' ∧ Blk.Inside p' ⟨bo, n, true⟩ ∧ bo + n ≤ p.size ∧
    (∀ c : Blk, c.Inside p → Disjoint ⟨bo, bl, true⟩ c →
        c.Inside p' ∧ Disjoint c ⟨bo, n, true⟩ ∧ readAt p'.mem c.off c.len = readAt p.mem c.off c.len) ∧
    readAt p'.mem bo (min bl n) = readAt p.mem bo (min bl n) := by
  have hi := inv_arith h
  have hbf := inside_front hb
  have k4 : bo + bl ≤ p.size := by have := hbf.2.2.2 (by omega); omega
  have hsm : shrinkMem p bo bl n = zeroRange p.mem (bo + n) (bl - n) := by
    unfold shrinkMem; exact if_pos hn
  have hml : p'.mem.length = p.mem.length := by
    rw [hp']; exact shrinkMem_length p bo bl n (by intro hh; omega)
  have hsz : p'.size = p.size := by rw [hp']
  have hpos : p'.pos = p.pos := by rw [hp']
  have hend : p'.end_ = p.end_ := by rw [hp']
  refine ⟨?_, ?_, by omega, ?_, ?_⟩
  · refine ⟨?_, ?_, ?_, ?_, ?_, ?_, ?_⟩ <;> (try rw [hpos]) <;> (try rw [hend]) <;> (try rw [hsz]) <;> (try rw [hml]) <;> omega
  · apply inside_front_mk; rw [hsz, hpos]
    exact ⟨hbf.1, hbf.2.1, by omega, fun _ => by have := hbf.2.2.2 (by omega); omega⟩
  · intro c hci hd
    have hca := inside_arith hci
    have hdisj : c.len = 0 ∨ bl = 0 ∨ bo + bl ≤ c.off ∨ c.off + c.len ≤ bo := by
      unfold Disjoint at hd; simp only at hd; omega
    refine ⟨?_, ?_, ?_⟩
    · apply inside_transport hci hsz
      · intro _ _ hle; rw [hpos]; exact hle
      · intro _ _ hle; rw [hend]; exact hle
    · unfold Disjoint; simp only; omega
    · rw [hp']; show readAt (shrinkMem p bo bl n) c.off c.len = _
      rw [hsm]
      by_cases hcl : c.len = 0
      · simp [readAt, hcl]
      · apply readAt_zeroRange_disjoint <;> omega
  · rw [hp']; show readAt (shrinkMem p bo bl n) bo (min bl n) = _
    rw [hsm]
    apply readAt_zeroRange_disjoint <;> omega

theorem realloc_fresh (p : Pool) (bo bl n : Nat) (h : Inv p) (hb : Blk.Inside p ⟨bo, bl, true⟩) (hn : n < W)
    (h1 : bl ≤ n) (h2 : roundUp n ≤ p.end_ - p.pos) (h3 : roundUp n = 0 → n = 0)
    (p' : Pool) (hp' : p' = { p with pos := p.pos + roundUp n, mem := moveMem p bo bl }) :
    Inv p' ∧ Blk.Inside p' ⟨p.pos, n, true⟩ ∧ p.pos + n ≤ p.size ∧
    (∀ c : Blk, c.Inside p → Disjoint ⟨bo, bl, true⟩ c →
        c.Inside p' ∧ Disjoint c ⟨p.pos, n, true⟩ ∧ readAt p'.mem c.off c.len = readAt p.mem c.off c.len) ∧
    readAt p'.mem p.pos (min bl n) = readAt p.mem bo (min bl n) := by
  have hi := inv_arith h
  have hbf := inside_front hb
  have key : n ≤ roundUp n ∧ roundUp n % A = 0 ∧ (p.pos + roundUp n) % A = 0 := by
    simp only [roundUp, W_eq, A, Mhd.Gen.Pool.alignSize] at *
    omega
  obtain ⟨k1, k2, k3⟩ := key
  have k4 : bo + bl ≤ p.mem.length ∧ p.pos + bl ≤ p.mem.length ∧ (0 < bl → bo + bl ≤ p.pos) := by
    refine ⟨?_, by omega, hbf.2.2.2⟩
    by_cases hbl : bl = 0
    · omega
    · have := hbf.2.2.2 (by omega); omega
  have hml : p'.mem.length = p.mem.length := by
    rw [hp']; exact moveMem_length p bo bl k4.1 k4.2.1
  have hsz : p'.size = p.size := by rw [hp']
  have hpos : p'.pos = p.pos + roundUp n := by rw [hp']
  have hend : p'.end_ = p.end_ := by rw [hp']
  refine ⟨?_, ?_, by omega, ?_, ?_⟩
  · refine ⟨?_, ?_, ?_, ?_, ?_, ?_, ?_⟩ <;> (try rw [hpos]) <;> (try rw [hend]) <;> (try rw [hsz]) <;> (try rw [hml]) <;> omega
  · apply inside_front_mk; rw [hsz, hpos]
    exact ⟨hi.2.2.1, by omega, hn, fun _ => by omega⟩
  · intro c hci hd
    have hca := inside_arith hci
    have hdisj : c.len = 0 ∨ bl = 0 ∨ bo + bl ≤ c.off ∨ c.off + c.len ≤ bo := by
      unfold Disjoint at hd; simp only at hd; omega
    refine ⟨?_, ?_, ?_⟩
    · apply inside_transport hci hsz
      · intro _ _ hle; rw [hpos]; omega
      · intro _ _ hle; rw [hend]; exact hle
    · unfold Disjoint; simp only; omega
    · rw [hp']; show readAt (moveMem p bo bl) c.off c.len = _
      unfold moveMem
      split
      · by_cases hcl : c.len = 0
        · simp [readAt, hcl]
        · have hl : (readAt p.mem bo bl).length = bl := readAt_length _ _ _ k4.1
          rw [readAt_zeroRange_disjoint, readAt_writeAt_disjoint]
          · rw [hl]; exact k4.2.1
          · rw [hl]; omega
          · rw [writeAt_length] <;> (try rw [hl]) <;> omega
          · omega
      · rfl
  · rw [hp']; show readAt (moveMem p bo bl) p.pos (min bl n) = _
    unfold moveMem
    have hmin : min bl n = bl := by omega
    rw [hmin]
    split
    · have hl : (readAt p.mem bo bl).length = bl := readAt_length _ _ _ k4.1
      rw [readAt_zeroRange_disjoint, readAt_writeAt_same]
      · rw [List.take_of_length_le (by omega)]
      · rw [hl]; exact k4.2.1
      · omega
      · rw [writeAt_length] <;> (try rw [hl]) <;> omega
      · have := k4.2.2; omega
    · have : bl = 0 := by omega
      simp [this, readAt]

/-- Geometry and contents of a successful or refused `reallocate` of a live front block. -/
theorem realloc_full (p : Pool) (bo bl n : Nat) (h : Inv p) (hb : Blk.Inside p ⟨bo, bl, true⟩) (hn : n < W) :
    reallocate p (some bo) bl n = (p, none) ∨
    ∃ p' off, reallocate p (some bo) bl n = (p', some off) ∧ Inv p' ∧ p'.size = p.size ∧
      Blk.Inside p' ⟨off, n, true⟩ ∧ off + n ≤ p.size ∧
      (∀ c : Blk, c.Inside p → Disjoint ⟨bo, bl, true⟩ c →
          c.Inside p' ∧ Disjoint c ⟨off, n, true⟩ ∧
          readAt p'.mem c.off c.len = readAt p.mem c.off c.len) ∧
      readAt p'.mem off (min bl n) = readAt p.mem bo (min bl n) := by
  rcases reallocate_cases p bo bl n with ⟨hc, _⟩ | ⟨hc, h1, h2⟩ | ⟨hc, h1, h2⟩ | ⟨hc, h1, h2, h3, h4⟩
  · left; exact hc
  · right
    have := realloc_inplace p bo bl n h hb hn h1 h2 _ rfl
    exact ⟨_, _, hc, this.1, rfl, this.2.1, this.2.2.1, this.2.2.2.1, this.2.2.2.2⟩
  · right
    have := realloc_shrink p bo bl n h hb h1 _ rfl
    exact ⟨_, _, hc, this.1, rfl, this.2.1, this.2.2.1, this.2.2.2.1, this.2.2.2.2⟩
  · right
    have := realloc_fresh p bo bl n h hb hn h1 h2 h3 _ rfl
    exact ⟨_, _, hc, this.1, rfl, this.2.1, this.2.2.1, this.2.2.2.1, this.2.2.2.2⟩

/-- `reallocate` of NULL is a plain front allocation -/
theorem realloc_null (p : Pool) (n : Nat) (h : Inv p) (hn : n < W) :
    reallocate p none 0 n = (p, none) ∨
    ∃ p', reallocate p none 0 n = (p', some p.pos) ∧ Inv p' ∧ p'.size = p.size ∧ p'.mem = p.mem ∧
      Blk.Inside p' ⟨p.pos, n, true⟩ ∧ p.pos + n ≤ p.size ∧
      (∀ c : Blk, c.Inside p → c.Inside p' ∧ Disjoint c ⟨p.pos, n, true⟩) := by
  have hi := inv_arith h
  unfold reallocate
  simp only
  by_cases hf : (roundUp n = 0 ∧ n ≠ 0) ∨ roundUp n > p.end_ - p.pos
  · left; simp [hf]
  · right
    refine ⟨{ p with pos := p.pos + roundUp n }, by simp [hf], ?_, rfl, rfl, ?_, ?_, ?_⟩
    all_goals
      have key : n ≤ roundUp n ∧ roundUp n % A = 0 ∧ (p.pos + roundUp n) % A = 0 ∧ p.pos + roundUp n ≤ p.end_ := by
        simp only [roundUp, W_eq, A, Mhd.Gen.Pool.alignSize] at *
        omega
    · exact ⟨by simp; omega, hi.2.1, key.2.2.1, hi.2.2.2.1, hi.2.2.2.2.1, hi.2.2.2.2.2.1, hi.2.2.2.2.2.2⟩
    · apply inside_front_mk; exact ⟨hi.2.2.1, by show p.pos ≤ p.size; omega, hn, fun _ => by show p.pos + n ≤ p.pos + roundUp n; omega⟩
    · omega
    · intro c hci
      have hca := inside_arith hci
      refine ⟨inside_transport hci rfl (fun _ _ hle => by show c.off + c.len ≤ p.pos + roundUp n; omega) (fun _ _ hle => hle), ?_⟩
      unfold Disjoint; simp only; omega

/-- `allocate`: every previously live block stays inside and is disjoint from the new one -/
theorem allocate_others (p p' : Pool) (n off : Nat) (fe : Bool) (h : Inv p) (hn : n < W)
    (ha : allocate p n fe = (p', some off)) :
    Inv p' ∧ p'.mem = p.mem ∧ p'.size = p.size ∧ Blk.Inside p' ⟨off, n, !fe⟩ ∧ off + n ≤ p.size ∧
    (∀ c : Blk, c.Inside p → c.Inside p' ∧ Disjoint c ⟨off, n, !fe⟩) := by
  have hi := inv_arith h
  rcases allocate_spec p n fe h hn with ⟨off', p'', he, hinv, hm, hs, hal, h1, h2⟩ | he
  · rw [he] at ha
    have e1 : p'' = p' := (Prod.mk.inj ha).1
    have e2 : off' = off := Option.some.inj (Prod.mk.inj ha).2
    subst e1 e2
    have hi' := inv_arith hinv
    cases fe
    · have f := h1 rfl
      refine ⟨hinv, hm, hs, ?_, by omega, ?_⟩
      · apply inside_front_mk; exact ⟨hal, by omega, hn, fun _ => f.2.1⟩
      · intro c hci
        have hca := inside_arith hci
        refine ⟨inside_transport hci hs (fun _ _ hle => by omega) (fun _ _ hle => by omega), ?_⟩
        unfold Disjoint; simp only; omega
    · have f := h2 rfl
      refine ⟨hinv, hm, hs, ?_, by omega, ?_⟩
      · apply inside_mk; simp only [Bool.not_true]
        refine ⟨hal, by omega, hn, ?_⟩
        by_cases hz : n = 0
        · left; exact hz
        · right; right; exact ⟨trivial, by omega, by omega⟩
      · intro c hci
        have hca := inside_arith hci
        refine ⟨inside_transport hci hs (fun _ _ hle => by omega) (fun _ _ hle => by omega), ?_⟩
        unfold Disjoint; simp only; omega
  · rw [he] at ha; simp at ha

theorem tryAlloc_others (p p' : Pool) (n off : Nat) (r : Option Nat) (h : Inv p) (hn : n < W)
    (ha : tryAlloc p n = (p', some off, r)) :
    Inv p' ∧ p'.mem = p.mem ∧ p'.size = p.size ∧ Blk.Inside p' ⟨off, n, false⟩ ∧ off + n ≤ p.size ∧
    (∀ c : Blk, c.Inside p → c.Inside p' ∧ Disjoint c ⟨off, n, false⟩) := by
  have hi := inv_arith h
  rcases tryAlloc_spec p n h hn with ⟨off', p'', he, hinv, hm, hs, hal, f⟩ | ⟨need, he⟩
  · rw [he] at ha
    have e1 : p'' = p' := (Prod.mk.inj ha).1
    have e2 : off' = off := Option.some.inj (Prod.mk.inj (Prod.mk.inj ha).2).1
    subst e1 e2
    have hi' := inv_arith hinv
    refine ⟨hinv, hm, hs, ?_, by omega, ?_⟩
    · apply inside_mk
      simp only
      refine ⟨hal, by omega, hn, ?_⟩
      by_cases hz : n = 0
      · left; exact hz
      · right; right; exact ⟨by first | rfl | trivial, by omega, by omega⟩
    · intro c hci
      have hca := inside_arith hci
      refine ⟨inside_transport hci hs (fun _ _ hle => by omega) (fun _ _ hle => by omega), ?_⟩
      unfold Disjoint; simp only; omega
  · rw [he] at ha; simp at ha

/-- `deallocate` of a live block: invariant kept, every other live block stays
    inside and keeps its bytes -/
theorem deallocate_spec (p : Pool) (b : Blk) (h : Inv p) (hb : b.Inside p) :
    Inv (deallocate p (some b.off) b.len) ∧ (deallocate p (some b.off) b.len).size = p.size ∧
    (∀ c : Blk, c.Inside p → Disjoint b c →
        c.Inside (deallocate p (some b.off) b.len) ∧
        readAt (deallocate p (some b.off) b.len).mem c.off c.len = readAt p.mem c.off c.len) := by
  have hi := inv_arith h
  have hba := inside_arith hb
  unfold deallocate
  simp only
  by_cases hz : b.len = 0
  · simp only [hz, if_true]
    exact ⟨h, by first | rfl | trivial, fun c hci _ => ⟨hci, by first | rfl | trivial⟩⟩
  · simp only [hz, if_false]
    have hin : b.off + b.len ≤ p.mem.length := by omega
    have hzl : (zeroRange p.mem b.off b.len).length = p.mem.length := zeroRange_length _ _ _ hin
    have hmem : ∀ c : Blk, Disjoint b c → readAt (zeroRange p.mem b.off b.len) c.off c.len = readAt p.mem c.off c.len := by
      intro c hd
      by_cases hcl : c.len = 0
      · simp [readAt, hcl]
      · apply readAt_zeroRange_disjoint _ _ _ _ _ hin
        unfold Disjoint at hd; omega
    have key : (b.off ≤ p.pos → roundUp ((b.off + b.len) % W) = p.pos → b.front = true ∧ roundUp b.off = b.off) ∧
        (¬ b.off ≤ p.pos → b.front = false) ∧
        (b.front = false → b.off + b.len ≤ roundUp ((b.off + b.len) % W) ∧ roundUp ((b.off + b.len) % W) ≤ p.size ∧
           roundUp ((b.off + b.len) % W) % A = 0 ∧
           ∀ x, x % A = 0 → b.off + b.len ≤ x → roundUp ((b.off + b.len) % W) ≤ x) := by
      refine ⟨?_, ?_, ?_⟩
      · intro h1 h2
        simp only [roundUp, W_eq, A, Mhd.Gen.Pool.alignSize] at *
        cases hf : b.front
        · rw [hf] at hba; simp at hba; omega
        · simp; omega
      · intro h1
        cases hf : b.front
        · rfl
        · rw [hf] at hba; simp at hba; omega
      · intro hf
        rw [hf] at hba; simp at hba
        simp only [roundUp, W_eq, A, Mhd.Gen.Pool.alignSize] at *
        refine ⟨by omega, by omega, by omega, ?_⟩
        intro x hx hle
        omega
    by_cases hle : b.off ≤ p.pos
    · simp only [hle, if_true]
      by_cases hlast : roundUp ((b.off + b.len) % W) = p.pos
      · simp only [hlast, if_true]
        have k := key.1 hle hlast
        rw [k.2]
        refine ⟨⟨by show b.off ≤ p.end_; omega, hi.2.1, hba.1, hi.2.2.2.1, hi.2.2.2.2.1, hi.2.2.2.2.2.1, by show (zeroRange _ _ _).length = _; rw [hzl]; exact hi.2.2.2.2.2.2⟩, by first | rfl | trivial, ?_⟩
        intro c hci hd
        refine ⟨?_, hmem c hd⟩
        have hca := inside_arith hci
        refine inside_transport hci (by first | rfl | trivial) ?_ ?_
        · intro hcl hcf hcle
          show c.off + c.len ≤ b.off
          unfold Disjoint at hd
          simp only [roundUp, W_eq, A, Mhd.Gen.Pool.alignSize] at *
          omega
        · intro _ _ hh; exact hh
      · simp only [hlast, if_false]
        refine ⟨⟨hi.1, hi.2.1, hi.2.2.1, hi.2.2.2.1, hi.2.2.2.2.1, hi.2.2.2.2.2.1, by show (zeroRange _ _ _).length = _; rw [hzl]; exact hi.2.2.2.2.2.2⟩, by first | rfl | trivial, ?_⟩
        intro c hci hd
        exact ⟨inside_transport hci (by first | rfl | trivial) (fun _ _ hh => hh) (fun _ _ hh => hh), hmem c hd⟩
    · simp only [hle, if_false]
      have hbf := key.2.1 hle
      have k := key.2.2 hbf
      by_cases hlast : b.off = p.end_
      · simp only [hlast, if_true]
        rw [hlast] at k
        refine ⟨⟨by show p.pos ≤ roundUp _; omega, k.2.1, hi.2.2.1, k.2.2.1, hi.2.2.2.2.1, hi.2.2.2.2.2.1, by show (zeroRange _ _ _).length = _; rw [← hlast, hzl]; exact hi.2.2.2.2.2.2⟩, by first | rfl | trivial, ?_⟩
        intro c hci hd
        refine ⟨?_, by rw [← hlast]; exact hmem c hd⟩
        have hca := inside_arith hci
        refine inside_transport hci (by first | rfl | trivial) ?_ ?_
        · intro _ _ hh; exact hh
        · intro hcl hcf hcle
          show roundUp ((p.end_ + b.len) % W) ≤ c.off
          apply k.2.2.2 c.off hca.1
          unfold Disjoint at hd
          omega
      · simp only [hlast, if_false]
        refine ⟨⟨hi.1, hi.2.1, hi.2.2.1, hi.2.2.2.1, hi.2.2.2.2.1, hi.2.2.2.2.2.1, by show (zeroRange _ _ _).length = _; rw [hzl]; exact hi.2.2.2.2.2.2⟩, by first | rfl | trivial, ?_⟩
        intro c hci hd
        exact ⟨inside_transport hci (by first | rfl | trivial) (fun _ _ hh => hh) (fun _ _ hh => hh), hmem c hd⟩

theorem resetMove_spec (p : Pool) (keep : Option Nat) (copy : Nat)
    (hk : ∀ k, keep = some k → k + copy ≤ p.mem.length) :
    (resetMove p keep copy).length = p.mem.length ∧
    ∀ k, keep = some k → readAt (resetMove p keep copy) 0 copy = readAt p.mem k copy := by
  unfold resetMove
  cases keep with
  | none => exact ⟨rfl, fun k hk' => absurd hk' (by simp)⟩
  | some k =>
    have hk' := hk k rfl
    have hl : (readAt p.mem k copy).length = copy := readAt_length _ _ _ hk'
    by_cases hcond : k ≠ 0 ∧ copy ≠ 0
    · simp only; rw [if_pos hcond]
      refine ⟨by rw [writeAt_length]; omega, ?_⟩
      intro k2 hk2
      have : k = k2 := Option.some.inj hk2
      subst this
      rw [readAt_writeAt_same _ _ _ _ (by omega) (by omega)]
      exact List.take_of_length_le (by omega)
    · simp only; rw [if_neg hcond]
      refine ⟨rfl, ?_⟩
      intro k2 hk2
      have : k = k2 := Option.some.inj hk2
      subst this
      by_cases hk0 : k = 0
      · subst hk0; rfl
      · have : copy = 0 := by
          by_cases hc0 : copy = 0
          · exact hc0
          · exact absurd ⟨hk0, hc0⟩ hcond
        subst this; simp [readAt]

theorem reset_spec (p : Pool) (keep : Option Nat) (copy n : Nat) (h : Inv p) (hn : n ≤ p.size)
    (hc : copy ≤ n) (hk : ∀ k, keep = some k → k + copy ≤ p.size) :
    Inv (reset p keep copy n) ∧ (reset p keep copy n).size = p.size ∧
    (reset p keep copy n).end_ = p.size ∧ (reset p keep copy n).pos = roundUp n ∧
    Blk.Inside (reset p keep copy n) ⟨0, n, true⟩ ∧
    (∀ k, keep = some k → readAt (reset p keep copy n).mem 0 copy = readAt p.mem k copy) := by
  have hi := inv_arith h
  have key : n ≤ roundUp n ∧ roundUp n ≤ p.size ∧ roundUp n % A = 0 ∧ n < W := by
    simp only [roundUp, W_eq, A, Mhd.Gen.Pool.alignSize] at *
    omega
  have hmv := resetMove_spec p keep copy (by intro k hk'; have := hk k hk'; omega)
  have hm0 : (if p.size > copy then zeroRange (resetMove p keep copy) copy (p.size - copy) else resetMove p keep copy).length = p.mem.length := by
    split
    · rw [zeroRange_length] <;> omega
    · exact hmv.1
  have hr0 : readAt (if p.size > copy then zeroRange (resetMove p keep copy) copy (p.size - copy) else resetMove p keep copy) 0 copy
      = readAt (resetMove p keep copy) 0 copy := by
    split
    · apply readAt_zeroRange_disjoint <;> omega
    · rfl
  have hA0 : 0 % A = 0 := Nat.zero_mod _
  unfold reset
  refine ⟨⟨by show roundUp n ≤ p.size; omega, Nat.le_refl _, key.2.2.1, hi.2.2.2.2.1, hi.2.2.2.2.1, hi.2.2.2.2.2.1, hm0.trans hi.2.2.2.2.2.2⟩,
      rfl, rfl, rfl, ?_, ?_⟩
  · apply inside_front_mk; exact ⟨hA0, Nat.zero_le _, key.2.2.2, fun _ => by show 0 + n ≤ roundUp n; omega⟩
  · intro k hk'
    exact hr0.trans (hmv.2 k hk')

theorem wf_push (live : List Blk) (p' : Pool) (new : Blk) (hinv : Inv p') (hnew : new.Inside p')
    (hall : ∀ c ∈ live, c.Inside p' ∧ Disjoint c new) (hpw : live.Pairwise Disjoint) :
    WF ⟨p', live ++ [new]⟩ := by
  refine ⟨hinv, ?_, pairwise_append_single hpw (fun c hc => (hall c hc).2)⟩
  intro b hb
  rcases List.mem_append.mp hb with hb | hb
  · exact (hall b hb).1
  · rw [List.mem_singleton] at hb; subst hb; exact hnew

theorem wf_replace (s : St) (i : Nat) (b : Blk) (hb : s.live[i]? = some b) (hwf : WF s)
    (p' : Pool) (new : Blk) (hinv : Inv p') (hnew : new.Inside p')
    (hall : ∀ c : Blk, c.Inside s.p → Disjoint b c → c.Inside p' ∧ Disjoint c new) :
    WF ⟨p', s.live.eraseIdx i ++ [new]⟩ := by
  apply wf_push _ _ _ hinv hnew
  · intro c hc
    obtain ⟨j, hji, hj⟩ := mem_eraseIdx_getElem? hc
    exact hall c (hwf.2.1 c (mem_of_getElem? hj))
      (pairwise_getElem? (fun _ _ => Disjoint.symm) hwf.2.2 hb hj (Ne.symm hji))
  · exact List.Pairwise.sublist (List.eraseIdx_sublist _ _) hwf.2.2

theorem wf_erase (s : St) (i : Nat) (b : Blk) (hb : s.live[i]? = some b) (hwf : WF s)
    (p' : Pool) (hinv : Inv p')
    (hall : ∀ c : Blk, c.Inside s.p → Disjoint b c → c.Inside p') :
    WF ⟨p', s.live.eraseIdx i⟩ := by
  refine ⟨hinv, ?_, List.Pairwise.sublist (List.eraseIdx_sublist _ _) hwf.2.2⟩
  intro c hc
  obtain ⟨j, hji, hj⟩ := mem_eraseIdx_getElem? hc
  exact hall c (hwf.2.1 c (mem_of_getElem? hj))
    (pairwise_getElem? (fun _ _ => Disjoint.symm) hwf.2.2 hb hj (Ne.symm hji))

theorem step_wf (s : St) (o : Op) (h : WF s) (ho : o.Valid) : WF (step s o).1 := by
  cases o with
  | alloc n fe =>
    simp only [Op.Valid] at ho
    rcases ha : allocate s.p n fe with ⟨p', _ | off⟩
    · have : p' = s.p := by
        rcases allocate_spec s.p n fe h.1 ho with ⟨_, _, he, _⟩ | he <;> rw [he] at ha
        · simp at ha
        · exact ((Prod.mk.inj ha).1).symm
      subst this
      simp only [step, ha]; exact h
    · have := allocate_others s.p p' n off fe h.1 ho ha
      simp only [step, ha]
      exact wf_push _ _ _ this.1 this.2.2.2.1 (fun c hc => this.2.2.2.2.2 c (h.2.1 c hc)) h.2.2
  | tryAlloc n =>
    simp only [Op.Valid] at ho
    rcases ha : tryAlloc s.p n with ⟨p', _ | off, r⟩
    · have : p' = s.p := by
        rcases tryAlloc_spec s.p n h.1 ho with ⟨_, _, he, _⟩ | ⟨_, he⟩ <;> rw [he] at ha
        · simp at ha
        · exact ((Prod.mk.inj ha).1).symm
      subst this
      cases r <;> (simp only [step, ha]; exact h)
    · have := tryAlloc_others s.p p' n off r h.1 ho ha
      simp only [step, ha]
      exact wf_push _ _ _ this.1 this.2.2.2.1 (fun c hc => this.2.2.2.2.2 c (h.2.1 c hc)) h.2.2
  | realloc i n =>
    simp only [Op.Valid] at ho
    cases i with
    | none =>
      rcases realloc_null s.p n h.1 ho with he | ⟨p', he, hinv, _, _, hin, _, hall⟩
      · simp only [step, he]; exact h
      · simp only [step, he]
        exact wf_push _ _ _ hinv hin (fun c hc => hall c (h.2.1 c hc)) h.2.2
    | some i =>
      simp only [step]
      cases hb : s.live[i]? with
      | none => exact h
      | some b =>
        simp only
        obtain ⟨bo, bl, bf⟩ := b
        cases bf with
        | false => simp; exact h
        | true =>
          simp only [Bool.not_true, Bool.false_eq_true, if_false]
          have hbi := h.2.1 _ (mem_of_getElem? hb)
          rcases realloc_full s.p bo bl n h.1 hbi ho with he | ⟨p', off, he, hinv, _, hin, _, hall, _⟩
          · simp only [he]; exact h
          · simp only [he]
            exact wf_replace s i _ hb h p' _ hinv hin (fun c hc hd => ⟨(hall c hc hd).1, (hall c hc hd).2.1⟩)
  | dealloc i =>
    simp only [step]
    cases hb : s.live[i]? with
    | none => exact h
    | some b =>
      simp only
      have hbi := h.2.1 _ (mem_of_getElem? hb)
      have := deallocate_spec s.p b h.1 hbi
      exact wf_erase s i b hb h _ this.1 (fun c hc hd => (this.2.2 c hc hd).1)
  | reset i copy n =>
    cases i with
    | none =>
      simp only [step]
      by_cases hn : n > s.p.size
      · simp only [hn, if_true]; exact h
      · simp only [hn, if_false]
        have := reset_spec s.p none 0 n h.1 (by omega) (Nat.zero_le _) (fun k hk => absurd hk (by simp))
        refine ⟨this.1, ?_, List.pairwise_singleton _ _⟩
        intro b hb; rw [List.mem_singleton] at hb; subst hb; exact this.2.2.2.2.1
    | some i =>
      simp only [step]
      cases hb : s.live[i]? with
      | none => exact h
      | some b =>
        simp only
        by_cases hc : copy > b.len ∨ copy > n ∨ n > s.p.size
        · simp only [hc, if_true]; exact h
        · simp only [hc, if_false]
          have hbi := inside_arith (h.2.1 _ (mem_of_getElem? hb))
          have hi := inv_arith h.1
          have := reset_spec s.p (some b.off) copy n h.1 (by omega) (by omega)
            (fun k hk => by have : b.off = k := Option.some.inj hk; subst this; omega)
          refine ⟨this.1, ?_, List.pairwise_singleton _ _⟩
          intro b' hb'; rw [List.mem_singleton] at hb'; subst hb'; exact this.2.2.2.2.1

theorem init_wf (allocSize : Nat) (ha : allocSize % A = 0) (hs : allocSize < 2 ^ 62) : WF (St.init allocSize) := by
  refine ⟨⟨Nat.zero_le _, Nat.le_refl _, Nat.zero_mod _, ha, ha, hs, by simp [St.init, create]⟩, ?_, List.Pairwise.nil⟩
  intro b hb; simp [St.init] at hb

theorem run_wf' (s : St) (ops : List Op) (h : WF s) (ho : ∀ o ∈ ops, o.Valid) : WF (run s ops) := by
  induction ops generalizing s with
  | nil => exact h
  | cons o ops ih =>
    simp only [run, List.foldl_cons]
    exact ih _ (step_wf s o h (ho o (List.mem_cons_self ..))) (fun o' ho' => ho o' (List.mem_cons_of_mem _ ho'))

theorem run_wf (allocSize : Nat) (ha : allocSize % A = 0) (hs : allocSize < 2 ^ 62)
    (ops : List Op) (ho : ∀ o ∈ ops, o.Valid) : WF (run (St.init allocSize) ops) :=
  run_wf' _ ops (init_wf allocSize ha hs) ho

/-- the new block is the last element of the live list; everything else in the
    list is disjoint from it (from `WF` of the successor state) -/
theorem last_disjoint {l : List Blk} {x : Blk} (h : (l ++ [x]).Pairwise Disjoint) :
    ∀ c ∈ l ++ [x], c ≠ x → Disjoint x c := by
  intro c hc hne
  rw [List.pairwise_append] at h
  rcases List.mem_append.mp hc with hc | hc
  · exact (h.2.2 c hc x (List.mem_singleton.mpr rfl)).symm
  · rw [List.mem_singleton] at hc; exact absurd hc hne

theorem block_in_bounds_disjoint (s : St) (o : Op) (h : WF s) (ho : o.Valid) (off len : Nat)
    (hr : (step s o).2 = .block off len) :
    off % A = 0 ∧ off + len ≤ s.p.size ∧
    ∃ b ∈ (step s o).1.live, b.off = off ∧ b.len = len ∧
      ∀ c ∈ (step s o).1.live, c ≠ b → Disjoint b c := by
  have hwf' := step_wf s o h ho
  cases o with
  | alloc n fe =>
    simp only [Op.Valid] at ho
    rcases ha : allocate s.p n fe with ⟨p', _ | off'⟩
    · simp [step, ha] at hr
    · have := allocate_others s.p p' n off' fe h.1 ho ha
      simp only [step, ha] at hr hwf' ⊢
      injection hr with e1 e2; subst e1 e2
      exact ⟨this.2.2.2.1.1, this.2.2.2.2.1, _, List.mem_append_right _ (List.mem_singleton.mpr rfl), rfl, rfl,
        last_disjoint hwf'.2.2⟩
  | tryAlloc n =>
    simp only [Op.Valid] at ho
    rcases ha : tryAlloc s.p n with ⟨p', _ | off', r⟩
    · cases r <;> simp [step, ha] at hr
    · have := tryAlloc_others s.p p' n off' r h.1 ho ha
      simp only [step, ha] at hr hwf' ⊢
      injection hr with e1 e2; subst e1 e2
      exact ⟨this.2.2.2.1.1, this.2.2.2.2.1, _, List.mem_append_right _ (List.mem_singleton.mpr rfl), rfl, rfl,
        last_disjoint hwf'.2.2⟩
  | realloc i n =>
    simp only [Op.Valid] at ho
    cases i with
    | none =>
      rcases realloc_null s.p n h.1 ho with he | ⟨p', he, hinv, _, _, hin, hle, hall⟩
      · simp [step, he] at hr
      · simp only [step, he] at hr hwf' ⊢
        injection hr with e1 e2; subst e1 e2
        exact ⟨hin.1, hle, _, List.mem_append_right _ (List.mem_singleton.mpr rfl), rfl, rfl,
          last_disjoint hwf'.2.2⟩
    | some i =>
      simp only [step] at hr hwf' ⊢
      cases hb : s.live[i]? with
      | none => simp [hb] at hr
      | some b =>
        simp only [hb] at hr hwf' ⊢
        obtain ⟨bo, bl, bf⟩ := b
        cases bf with
        | false => simp at hr
        | true =>
          simp only [Bool.not_true, Bool.false_eq_true, if_false] at hr hwf' ⊢
          have hbi := h.2.1 _ (mem_of_getElem? hb)
          rcases realloc_full s.p bo bl n h.1 hbi ho with he | ⟨p', off', he, hinv, _, hin, hle, hall, _⟩
          · simp [he] at hr
          · simp only [he] at hr hwf' ⊢
            injection hr with e1 e2; subst e1 e2
            exact ⟨hin.1, hle, _, List.mem_append_right _ (List.mem_singleton.mpr rfl), rfl, rfl,
              last_disjoint hwf'.2.2⟩
  | dealloc i =>
    simp only [step] at hr
    cases hb : s.live[i]? <;> simp [hb] at hr
  | reset i copy n =>
    have hA0 : 0 % A = 0 := Nat.zero_mod _
    cases i with
    | none =>
      simp only [step] at hr ⊢
      by_cases hn : n > s.p.size
      · simp [hn] at hr
      · simp only [hn, if_false] at hr ⊢
        injection hr with e1 e2; subst e1 e2
        refine ⟨hA0, by omega, _, List.mem_singleton.mpr rfl, rfl, rfl, ?_⟩
        intro c hc hne; rw [List.mem_singleton] at hc; exact absurd hc hne
    | some i =>
      simp only [step] at hr ⊢
      cases hb : s.live[i]? with
      | none => simp [hb] at hr
      | some b =>
        simp only [hb] at hr ⊢
        by_cases hc : copy > b.len ∨ copy > n ∨ n > s.p.size
        · simp [hc] at hr
        · simp only [hc, if_false] at hr ⊢
          injection hr with e1 e2; subst e1 e2
          refine ⟨hA0, by omega, _, List.mem_singleton.mpr rfl, rfl, rfl, ?_⟩
          intro c hc hne; rw [List.mem_singleton] at hc; exact absurd hc hne

theorem refused_unchanged (s : St) (o : Op) (h : WF s) (ho : o.Valid)
    (hr : (step s o).2 = .null ∨ ∃ n, (step s o).2 = .nullNeed n) : (step s o).1 = s := by
  cases o with
  | alloc n fe =>
    simp only [Op.Valid] at ho
    rcases allocate_spec s.p n fe h.1 ho with ⟨off, p', he, _⟩ | he
    · simp [step, he] at hr
    · simp [step, he]
  | tryAlloc n =>
    simp only [Op.Valid] at ho
    rcases tryAlloc_spec s.p n h.1 ho with ⟨off, p', he, _⟩ | ⟨need, he⟩
    · simp [step, he] at hr
    · simp [step, he]
  | realloc i n =>
    simp only [Op.Valid] at ho
    cases i with
    | none =>
      rcases realloc_null s.p n h.1 ho with he | ⟨p', he, _⟩
      · simp [step, he]
      · simp [step, he] at hr
    | some i =>
      simp only [step] at hr ⊢
      cases hb : s.live[i]? with
      | none => simp
      | some b =>
        simp only [hb] at hr ⊢
        obtain ⟨bo, bl, bf⟩ := b
        cases bf with
        | false => simp
        | true =>
          simp only [Bool.not_true, Bool.false_eq_true, if_false] at hr ⊢
          have hbi := h.2.1 _ (mem_of_getElem? hb)
          rcases realloc_full s.p bo bl n h.1 hbi ho with he | ⟨p', off', he, _⟩
          · simp [he]
          · simp [he] at hr
  | dealloc i =>
    simp only [step] at hr ⊢
    cases hb : s.live[i]? <;> simp [hb] at hr ⊢
  | reset i copy n =>
    cases i with
    | none =>
      simp only [step] at hr ⊢
      by_cases hn : n > s.p.size <;> simp [hn] at hr ⊢
    | some i =>
      simp only [step] at hr ⊢
      cases hb : s.live[i]? with
      | none => simp
      | some b =>
        simp only [hb] at hr ⊢
        by_cases hc : copy > b.len ∨ copy > n ∨ n > s.p.size <;> simp [hc] at hr ⊢

theorem others_untouched (s : St) (o : Op) (h : WF s) (ho : o.Valid) (hnr : ¬ o.isReset)
    (j : Nat) (b : Blk) (hb : s.live[j]? = some b) (hj : o.target ≠ some j) :
    readAt (step s o).1.p.mem b.off b.len = readAt s.p.mem b.off b.len := by
  cases o with
  | alloc n fe =>
    simp only [Op.Valid] at ho
    rcases allocate_spec s.p n fe h.1 ho with ⟨off, p', he, _, hm, _⟩ | he
    · simp [step, he, hm]
    · simp [step, he]
  | tryAlloc n =>
    simp only [Op.Valid] at ho
    rcases tryAlloc_spec s.p n h.1 ho with ⟨off, p', he, _, hm, _⟩ | ⟨need, he⟩
    · simp [step, he, hm]
    · simp [step, he]
  | realloc i n =>
    simp only [Op.Valid] at ho
    cases i with
    | none =>
      rcases realloc_null s.p n h.1 ho with he | ⟨p', he, _, _, hm, _⟩
      · simp [step, he]
      · simp [step, he, hm]
    | some i =>
      simp only [Op.target] at hj
      have hij : i ≠ j := fun e => hj (by rw [e])
      simp only [step]
      cases hbi : s.live[i]? with
      | none => simp
      | some bi =>
        simp only
        obtain ⟨bo, bl, bf⟩ := bi
        cases bf with
        | false => simp
        | true =>
          simp only [Bool.not_true, Bool.false_eq_true, if_false]
          have hbin := h.2.1 _ (mem_of_getElem? hbi)
          have hd := pairwise_getElem? (fun _ _ => Disjoint.symm) h.2.2 hbi hb hij
          rcases realloc_full s.p bo bl n h.1 hbin ho with he | ⟨p', off', he, _, _, _, _, hall, _⟩
          · simp [he]
          · simp only [he]
            exact (hall b (h.2.1 _ (mem_of_getElem? hb)) hd).2.2
  | dealloc i =>
    simp only [Op.target] at hj
    have hij : i ≠ j := fun e => hj (by rw [e])
    simp only [step]
    cases hbi : s.live[i]? with
    | none => simp
    | some bi =>
      simp only
      have hbin := h.2.1 _ (mem_of_getElem? hbi)
      have hd := pairwise_getElem? (fun _ _ => Disjoint.symm) h.2.2 hbi hb hij
      exact ((deallocate_spec s.p bi h.1 hbin).2.2 b (h.2.1 _ (mem_of_getElem? hb)) hd).2
  | reset i copy n => exact absurd trivial hnr

theorem realloc_preserves (s : St) (i n : Nat) (h : WF s) (hn : n < W) (b : Blk)
    (hb : s.live[i]? = some b) (hf : b.front = true) (off len : Nat)
    (hr : (step s (.realloc (some i) n)).2 = .block off len) :
    len = n ∧ readAt (step s (.realloc (some i) n)).1.p.mem off (min b.len n)
              = readAt s.p.mem b.off (min b.len n) := by
  obtain ⟨bo, bl, bf⟩ := b
  simp only at hf; subst hf
  simp only [step, hb, Bool.not_true, Bool.false_eq_true, if_false] at hr ⊢
  have hbin := h.2.1 _ (mem_of_getElem? hb)
  rcases realloc_full s.p bo bl n h.1 hbin hn with he | ⟨p', off', he, _, _, _, _, _, hk⟩
  · simp [he] at hr
  · simp only [he] at hr ⊢
    injection hr with e1 e2; subst e1 e2
    exact ⟨rfl, hk⟩

theorem reset_keeps (s : St) (i copy n : Nat) (h : WF s) (b : Blk) (hb : s.live[i]? = some b)
    (hc : copy ≤ b.len) (hcn : copy ≤ n) (hn : n ≤ s.p.size) :
    let s' := (step s (.reset (some i) copy n)).1
    readAt s'.p.mem 0 copy = readAt s.p.mem b.off copy ∧
    s'.p.end_ = s'.p.size ∧ s'.p.size = s.p.size ∧ s'.p.pos = roundUp n ∧ s'.live = [⟨0, n, true⟩] := by
  have hcond : ¬ (copy > b.len ∨ copy > n ∨ n > s.p.size) := by omega
  have hbi := inside_arith (h.2.1 _ (mem_of_getElem? hb))
  have hi := inv_arith h.1
  have := reset_spec s.p (some b.off) copy n h.1 hn hcn
    (fun k hk => by have : b.off = k := Option.some.inj hk; subst this; omega)
  simp only [step, hb, hcond, if_false]
  exact ⟨this.2.2.2.2.2 _ rfl, by rw [this.2.2.1, this.2.1], this.2.1, this.2.2.2.1, trivial⟩

theorem readAt_zeroRange_same (m : List UInt8) (off n : Nat) (h : off + n ≤ m.length) :
    readAt (zeroRange m off n) off n = List.replicate n 0 := by
  unfold readAt zeroRange
  have h1 : min n (m.length - off) = n := by omega
  rw [h1, List.append_assoc, List.drop_append_of_le_length (by simp; omega)]
  have h2 : (List.take off m).length = off := by simp; omega
  rw [List.drop_of_length_le (by omega), List.nil_append]
  rw [List.take_append_of_le_length (by simp)]
  simp

/-- "a reset keeps *exactly* the requested bytes": everything behind them is zeroed (`memset` of `MHD_pool_reset`) -/
theorem reset_zeroes_rest (s : St) (i copy n : Nat) (h : WF s) (b : Blk) (hb : s.live[i]? = some b)
    (hc : copy ≤ b.len) (hcn : copy ≤ n) (hn : n ≤ s.p.size) :
    let s' := (step s (.reset (some i) copy n)).1
    readAt s'.p.mem copy (s.p.size - copy) = List.replicate (s.p.size - copy) 0 := by
  have hcond : ¬ (copy > b.len ∨ copy > n ∨ n > s.p.size) := by omega
  have hbi := inside_arith (h.2.1 _ (mem_of_getElem? hb))
  have hi := inv_arith h.1
  simp only [step, hb, hcond, if_false]
  have hmv := resetMove_spec s.p (some b.off) copy (by intro k hk; have : b.off = k := Option.some.inj hk; subst this; omega)
  show readAt (reset s.p (some b.off) copy n).mem copy (s.p.size - copy) = _
  unfold reset
  simp only
  by_cases hsz : s.p.size > copy
  · rw [if_pos hsz]
    exact readAt_zeroRange_same _ _ _ (by rw [hmv.1]; omega)
  · have : s.p.size - copy = 0 := by omega
    rw [this]; simp [readAt]

/-- relocation never copies between overlapping ranges (`memcpy (new_blc, old, old_size)` is defined): a
    reallocated block either stays where it is, or was empty (nothing is copied), or lies entirely behind the old one -/
theorem realloc_move_no_overlap (s : St) (i n : Nat) (h : WF s) (b : Blk)
    (hb : s.live[i]? = some b) (hf : b.front = true) (off len : Nat)
    (hr : (step s (.realloc (some i) n)).2 = .block off len) :
    off = b.off ∨ b.len = 0 ∨ b.off + b.len ≤ off := by
  obtain ⟨bo, bl, bf⟩ := b
  simp only at hf; subst hf
  simp only [step, hb, Bool.not_true, Bool.false_eq_true, if_false] at hr
  have hbin := inside_front (h.2.1 _ (mem_of_getElem? hb))
  rcases reallocate_cases s.p bo bl n with ⟨hc, _⟩ | ⟨hc, _⟩ | ⟨hc, _⟩ | ⟨hc, _⟩
  · simp [hc] at hr
  · simp only [hc] at hr; injection hr with e1 e2; left; exact e1.symm
  · simp only [hc] at hr; injection hr with e1 e2; left; exact e1.symm
  · simp only [hc] at hr; injection hr with e1 e2
    by_cases hz : bl = 0
    · right; left; exact hz
    · right; right; simp only; have := hbin.2.2.2 (by omega); omega

end Mhd.Pool
