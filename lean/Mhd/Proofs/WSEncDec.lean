/-
  C19 helper lemmas, part 24: the decoder neither reads nor writes the rng script (when it does
  not have to generate masked close frames), the encoders write nothing but the rng script —
  so encoder calls between decoder calls do not change what the decoder returns.
-/
import Mhd.Proofs.WSSplit
namespace Mhd.WS

/-- the same stream with another rng script -/
abbrev WS.setRng (ws : WS) (r : List UInt8) : WS := { ws with rng := r }

def R.setRng (r : List UInt8) : R → R
  | .cont ws k => .cont (ws.setRng r) k
  | .ret ws st k pl plen => .ret (ws.setRng r) st k pl plen
  | .fault s => .fault s

/-- the flags of the state a step ends in -/
def R.flagsEq (f : Nat) : R → Prop
  | .cont ws _ => ws.flags = f
  | .ret ws _ _ _ _ => ws.flags = f
  | .fault _ => True

/-- `a` is `b` with the rng script `r`, and `b` ends with the flags `f`: the step that produced
    them neither read nor wrote the rng script and left the flags alone -/
def RngFree (r : List UInt8) (f : Nat) (a b : R) : Prop := a = b.setRng r ∧ b.flagsEq f

/-- the decoder never draws from the rng: it does not generate close frames on errors, or it is a
    server (whose frames are not masked) -/
def NoDraw (ws : WS) : Prop := ws.genCloseFlag = false ∨ ws.isClient = false

theorem genClose_rng (r : List UInt8) (ws : WS) (h : NoDraw ws) (code : Nat) :
    genClose (ws.setRng r) code = ((genClose ws code).1.setRng r, (genClose ws code).2) ∧
    (genClose ws code).1.flags = ws.flags := by
  cases ws
  rename_i flags _ _ _ _ _ _ _ _ _ _ _ _ _ _ _ _ _
  by_cases hg : (flags / 4 % 2 = 1)
  · have hc : ¬ (flags % 2 = 1) := by
      rcases h with h | h
      · simp [WS.genCloseFlag, hg] at h
      · simpa [WS.isClient] using h
    simp only [WS.setRng, genClose, WS.genCloseFlag, hg, decide_true, if_true, encodeClose, encodeFrame, maskFor,
      WS.isClient, hc, decide_false, Bool.false_eq_true, if_false, alloc, overheadSize]
    repeat' split
    all_goals first | exact ⟨rfl, rfl⟩ | contradiction | (exfalso; simp_all; done)
  · simp only [WS.setRng, genClose, WS.genCloseFlag, hg, decide_false, Bool.false_eq_true, if_false]
    first | exact ⟨rfl, rfl⟩ | exact ⟨rfl, trivial⟩ | trivial

theorem errRet_rng (r : List UInt8) (ws : WS) (hg : NoDraw ws) (c : Nat) (st : Int) (adv : Nat) :
    RngFree r ws.flags (errRet (ws.setRng r) c st adv) (errRet ws c st adv) := by
  have h0 : NoDraw { ws with validity := 0 } := hg
  obtain ⟨h1, h2⟩ := genClose_rng r { ws with validity := 0 } h0 c
  unfold errRet
  have e : ({ ws.setRng r with validity := 0 } : WS) = ({ ws with validity := 0 } : WS).setRng r := rfl
  rw [e, h1]
  exact ⟨rfl, h2⟩

theorem errRet_rng' (r : List UInt8) (a b : WS) (f : Nat) (c : Nat) (st : Int) (adv : Nat) (hab : a = b.setRng r)
    (hg : NoDraw b) (hf : b.flags = f) : RngFree r f (errRet a c st adv) (errRet b c st adv) := by
  subst hab hf; exact errRet_rng r b hg c st adv

macro "rng_close" hg:ident : tactic =>
  `(tactic| first | (refine errRet_rng' _ _ _ _ _ _ _ ?_ ?_ ?_ <;> first | rfl | exact $hg) | exact ⟨rfl, rfl⟩ | exact ⟨rfl, trivial⟩ | contradiction | (exfalso; simp_all; done))

theorem stepStart_rng (r : List UInt8) (ws : WS) (hg : NoDraw ws) (b : UInt8) :
    RngFree r ws.flags (stepStart (ws.setRng r) b) (stepStart ws b) := by
  cases ws
  simp only [WS.setRng]
  rename_i hdrSize _ _ _ hdr _
  by_cases hc : hdrSize < hdr.length
  all_goals
    simp only [stepStart, pushHdr, hc, if_true, if_false]
    repeat' split
    all_goals rng_close hg

theorem stepLen1_rng (r : List UInt8) (ws : WS) (hg : NoDraw ws) (b : UInt8) :
    RngFree r ws.flags (stepLen1 (ws.setRng r) b) (stepLen1 ws b) := by
  cases ws
  simp only [WS.setRng]
  rename_i hdrSize _ _ _ hdr _
  by_cases hc : hdrSize < hdr.length
  all_goals
    simp only [stepLen1, pushHdr, afterLength, WS.isClient, hc, if_true, if_false]
    repeat' split
    all_goals rng_close hg

theorem stepStore_rng (r : List UInt8) (ws : WS) (b : UInt8) :
    RngFree r ws.flags (stepStore (ws.setRng r) b) (stepStore ws b) := by
  cases ws
  simp only [WS.setRng]
  rename_i hdrSize _ _ _ hdr _
  by_cases hc : hdrSize < hdr.length
  all_goals
    simp only [stepStore, pushHdr, hc, if_true, if_false]
    first | exact ⟨rfl, rfl⟩ | exact ⟨rfl, trivial⟩

theorem stepLen2of2_rng (r : List UInt8) (ws : WS) (hg : NoDraw ws) (b : UInt8) :
    RngFree r ws.flags (stepLen2of2 (ws.setRng r) b) (stepLen2of2 ws b) := by
  cases ws
  simp only [WS.setRng]
  rename_i hdrSize _ _ _ hdr _
  by_cases hc : hdrSize < hdr.length <;> by_cases h4 : 2 + 2 ≤ hdr.length
  all_goals
    simp only [stepLen2of2, pushHdr, hdrBytes, afterLength, List.length_set, hc, h4, if_true, if_false]
    repeat' split
    all_goals rng_close hg

theorem stepLen8of8_rng (r : List UInt8) (ws : WS) (hg : NoDraw ws) (b : UInt8) :
    RngFree r ws.flags (stepLen8of8 (ws.setRng r) b) (stepLen8of8 ws b) := by
  cases ws
  simp only [WS.setRng]
  rename_i hdrSize _ _ _ hdr _
  by_cases hc : hdrSize < hdr.length <;> by_cases h4 : 2 + 8 ≤ hdr.length
  all_goals
    simp only [stepLen8of8, pushHdr, hdrBytes, afterLength, List.length_set, hc, h4, if_true, if_false]
    repeat' split
    all_goals rng_close hg

theorem stepMask4_rng (r : List UInt8) (ws : WS) (b : UInt8) :
    RngFree r ws.flags (stepMask4 (ws.setRng r) b) (stepMask4 ws b) := by
  cases ws
  simp only [WS.setRng]
  rename_i hdrSize _ _ _ hdr _
  by_cases hc : hdrSize < hdr.length <;> by_cases h4 : hdrSize + 1 - 4 + 4 ≤ hdr.length
  all_goals
    simp only [stepMask4, pushHdr, hdrBytes, List.length_set, hc, h4, if_true, if_false]
    repeat' split
    all_goals first | exact ⟨rfl, rfl⟩ | exact ⟨rfl, trivial⟩ | (exfalso; simp_all; done)

theorem headerComplete_rng (r : List UInt8) (ws : WS) (hg : NoDraw ws) :
    RngFree r ws.flags (headerComplete false (ws.setRng r)) (headerComplete false ws) := by
  have ea : ∀ n, alloc (ws.setRng r) n = alloc ws n := fun _ => rfl
  have er : ∀ o n, realloc (ws.setRng r) o n = realloc ws o n := fun _ _ => rfl
  cases ws
  simp only [WS.setRng] at ea er ⊢
  simp only [headerComplete, ea, er]
  repeat' split
  all_goals rng_close hg

theorem payloadComplete_rng (r : List UInt8) (ws : WS) (hg : NoDraw ws) :
    RngFree r ws.flags (payloadComplete false (ws.setRng r)) (payloadComplete false ws) := by
  have ea : ∀ n, alloc (ws.setRng r) n = alloc ws n := fun _ => rfl
  cases ws
  simp only [WS.setRng] at ea ⊢
  simp only [payloadComplete, WS.wantFragments, ea]
  repeat' split
  all_goals rng_close hg

theorem RngFree.of_eq {r : List UInt8} {f : Nat} {a b : WS} (F : WS → R) (h : ∀ w : WS, RngFree r w.flags (F (w.setRng r)) (F w))
    (hab : a = b.setRng r) (hf : b.flags = f) : RngFree r f (F a) (F b) := by
  subst hab hf; exact h b

theorem payloadFinish_rng (r : List UInt8) (take : Nat) (ws : WS) (hg : NoDraw ws) :
    RngFree r ws.flags (payloadFinish false take (ws.setRng r)) (payloadFinish false take ws) := by
  obtain ⟨h1, h2⟩ := payloadComplete_rng r ws hg
  unfold payloadFinish
  by_cases hc : ws.payloadSize = ws.payloadIndex
  · have hc' : (ws.setRng r).payloadSize = (ws.setRng r).payloadIndex := hc
    rw [if_pos hc, if_pos hc', h1]
    revert h2
    cases payloadComplete false ws <;> intro h2 <;> exact ⟨rfl, h2⟩
  · have hc' : ¬ (ws.setRng r).payloadSize = (ws.setRng r).payloadIndex := hc
    rw [if_neg hc, if_neg hc']
    exact ⟨rfl, rfl⟩

theorem payloadFinish_rng' (r : List UInt8) (take : Nat) (a b : WS) (f : Nat) (hab : a = b.setRng r)
    (hg : NoDraw b) (hf : b.flags = f) :
    RngFree r f (payloadFinish false take a) (payloadFinish false take b) := by
  subst hab hf; exact payloadFinish_rng r take b hg

def UCheck.setRng (r : List UInt8) : UCheck → UCheck
  | .pass w => .pass (w.setRng r)
  | .bad a => .bad a
  | .fault => .fault

def UCheck.flagsEq (f : Nat) : UCheck → Prop
  | .pass w => w.flags = f
  | _ => True

theorem utf8OfPayload_rng (r : List UInt8) (ws : WS) (buf : List UInt8) (base idx0 take : Nat) :
    utf8OfPayload false (ws.setRng r) buf base idx0 take = (utf8OfPayload false ws buf base idx0 take).setRng r ∧
    (utf8OfPayload false ws buf base idx0 take).flagsEq ws.flags := by
  cases ws
  simp only [WS.setRng]
  rename_i step _ _ _ _ _ _ _ _ _ _ _ _ _
  by_cases h17 : step = 17
  all_goals
    simp only [utf8OfPayload, h17, if_true, if_false, Bool.false_eq_true]
    repeat' split
    all_goals first | exact ⟨rfl, rfl⟩ | exact ⟨rfl, trivial⟩ | contradiction | (exfalso; simp_all; done)

theorem genClose_of_flags {a b : WS} (h : a.flags = b.flags) (hg : NoDraw b) : NoDraw a := by
  unfold NoDraw WS.genCloseFlag WS.isClient at *; rw [h]; exact hg

/-- what `case PayloadOf…Frame` does after the bytes were copied -/
def afterCopy (h0 : UInt8) (buf' : List UInt8) (base idx take : Nat) (ws1 : WS) : R :=
  if (ws1.step = 17 ∧ ws1.dataType = 1) ∨ (ws1.step = 18 ∧ opcodeOf h0 = 8 ∧ 2 < ws1.payloadIndex) then
    match utf8OfPayload false ws1 buf' base idx take with
    | .fault => .fault "UTF-8 check reads outside the payload allocation"
    | .bad adv => errRet ws1 1007 (-6) adv
    | .pass ws2 => payloadFinish false take ws2
  else payloadFinish false take ws1

theorem afterCopy_rng (r : List UInt8) (h0 : UInt8) (buf' : List UInt8) (base idx take : Nat) (ws : WS)
    (hg : NoDraw ws) :
    RngFree r ws.flags (afterCopy h0 buf' base idx take (ws.setRng r)) (afterCopy h0 buf' base idx take ws) := by
  obtain ⟨hU, hF⟩ := utf8OfPayload_rng r ws buf' base idx take
  unfold afterCopy
  by_cases hc : (ws.step = 17 ∧ ws.dataType = 1) ∨ (ws.step = 18 ∧ opcodeOf h0 = 8 ∧ 2 < ws.payloadIndex)
  · have hc' : ((ws.setRng r).step = 17 ∧ (ws.setRng r).dataType = 1) ∨
        ((ws.setRng r).step = 18 ∧ opcodeOf h0 = 8 ∧ 2 < (ws.setRng r).payloadIndex) := hc
    rw [if_pos hc, if_pos hc', hU]
    revert hF
    cases utf8OfPayload false ws buf' base idx take with
    | pass w2 =>
      intro hF
      have hF' : w2.flags = ws.flags := hF
      have := payloadFinish_rng r take w2 (genClose_of_flags hF' hg)
      rw [hF'] at this
      exact this
    | bad a => intro _; exact errRet_rng r ws hg _ _ _
    | fault => intro _; exact ⟨rfl, trivial⟩
  · have hc' : ¬ (((ws.setRng r).step = 17 ∧ (ws.setRng r).dataType = 1) ∨
        ((ws.setRng r).step = 18 ∧ opcodeOf h0 = 8 ∧ 2 < (ws.setRng r).payloadIndex)) := hc
    rw [if_neg hc, if_neg hc']
    exact payloadFinish_rng r take ws hg

theorem afterCopy_rng' (r : List UInt8) (h0 : UInt8) (buf' : List UInt8) (base idx take : Nat) (a b : WS) (f : Nat)
    (hab : a = b.setRng r) (hg : NoDraw b) (hf : b.flags = f) :
    RngFree r f (afterCopy h0 buf' base idx take a) (afterCopy h0 buf' base idx take b) := by
  subst hab hf; exact afterCopy_rng r h0 buf' base idx take b hg

theorem stepPayload_eq (ws : WS) (rest : List UInt8) :
    stepPayload false ws rest =
      (let take := min ((ws.payloadSize + W - ws.payloadIndex) % W) rest.length
       if take ≠ 0 then
         match ws.hdr[0]? with
         | none => .fault "frame_header[0]"
         | some h0 =>
           match (if ws.step = 17 then ws.dataBuf else ws.ctrlBuf) with
           | none => .fault "payload buffer is NULL"
           | some buf =>
             match writeAt buf ((if ws.step = 17 then ws.dataStart else 0) + ws.payloadIndex)
                 (copyPayload (rest.take take) ws.maskKey (ws.payloadIndex % 4)) with
             | none => .fault "payload write outside the allocation"
             | some buf' =>
               afterCopy h0 buf' (if ws.step = 17 then ws.dataStart else 0) ws.payloadIndex take (payloadAdvance ws buf' take)
       else payloadFinish false take ws) := rfl

theorem stepPayload_rng (r : List UInt8) (ws : WS) (hg : NoDraw ws) (rest : List UInt8) :
    RngFree r ws.flags (stepPayload false (ws.setRng r) rest) (stepPayload false ws rest) := by
  rw [stepPayload_eq, stepPayload_eq]
  cases ws
  simp only [WS.setRng]
  rename_i step _ _ _ _ _ _ _ _ _ _ _ _ _
  by_cases h17 : step = 17
  all_goals
    simp only [payloadAdvance, h17, if_true, if_false]
    repeat' split
    all_goals first | (refine payloadFinish_rng' _ _ _ _ _ ?_ ?_ ?_ <;> first | rfl | exact hg)
                    | (refine afterCopy_rng' _ _ _ _ _ _ _ _ _ ?_ ?_ ?_ <;> first | rfl | exact hg) | rng_close hg

theorem iter_rng (r : List UInt8) (ws : WS) (hg : NoDraw ws) (rest : List UInt8) :
    RngFree r ws.flags (iter false (ws.setRng r) rest) (iter false ws rest) := by
  unfold iter
  cases rest with
  | nil => exact ⟨rfl, trivial⟩
  | cons b t =>
    dsimp only []
    have h16 : RngFree r ws.flags
        (match headerComplete false (ws.setRng r) with
          | .cont ws' _ => .cont ws' 0
          | r => r)
        (match headerComplete false ws with
          | .cont ws' _ => .cont ws' 0
          | r => r) := by
      obtain ⟨h1, h2⟩ := headerComplete_rng r ws hg
      rw [h1]
      revert h2
      cases headerComplete false ws <;> intro h2 <;> exact ⟨rfl, h2⟩
    split
    all_goals first
      | exact stepStart_rng r ws hg b
      | exact stepLen1_rng r ws hg b
      | exact stepStore_rng r ws b
      | exact stepLen2of2_rng r ws hg b
      | exact stepLen8of8_rng r ws hg b
      | exact stepMask4_rng r ws b
      | exact h16
      | exact stepPayload_rng r ws hg (b :: t)
      | exact ⟨rfl, rfl⟩
      | exact ⟨rfl, trivial⟩

theorem tailAfter_rng (r : List UInt8) (ws : WS) (hg : NoDraw ws) (cur : Nat) :
    RngFree r ws.flags (tailAfter false (ws.setRng r) cur) (tailAfter false ws cur) := by
  obtain ⟨h1, h2⟩ := payloadComplete_rng r ws hg
  unfold tailAfter
  by_cases hc : (ws.step = 17 ∨ ws.step = 18) ∧ ws.payloadSize = ws.payloadIndex
  · have hc' : ((ws.setRng r).step = 17 ∨ (ws.setRng r).step = 18) ∧ (ws.setRng r).payloadSize = (ws.setRng r).payloadIndex := hc
    rw [if_pos hc, if_pos hc', h1]
    revert h2
    cases payloadComplete false ws <;> intro h2 <;> exact ⟨rfl, h2⟩
  · have hc' : ¬ (((ws.setRng r).step = 17 ∨ (ws.setRng r).step = 18) ∧ (ws.setRng r).payloadSize = (ws.setRng r).payloadIndex) := hc
    rw [if_neg hc, if_neg hc']
    exact ⟨rfl, rfl⟩

theorem tail_rng (r : List UInt8) (ws : WS) (hg : NoDraw ws) (cur : Nat) :
    RngFree r ws.flags (tail false (ws.setRng r) cur) (tail false ws cur) := by
  obtain ⟨h1, h2⟩ := headerComplete_rng r ws hg
  unfold tail
  by_cases hc : ws.step = 16
  · have hc' : (ws.setRng r).step = 16 := hc
    rw [if_pos hc, if_pos hc', h1]
    revert h2
    cases headerComplete false ws with
    | cont w k =>
      intro h2
      have h2' : w.flags = ws.flags := h2
      have := tailAfter_rng r w (genClose_of_flags h2' hg) cur
      rw [h2'] at this
      exact this
    | ret w st k pl plen => intro h2; exact ⟨rfl, h2⟩
    | fault s => intro _; exact ⟨rfl, trivial⟩
  · have hc' : ¬ (ws.setRng r).step = 16 := hc
    rw [if_neg hc, if_neg hc']
    exact tailAfter_rng r ws hg cur

theorem loop_rng (r : List UInt8) (fuel : Nat) : ∀ (ws : WS), NoDraw ws → ∀ (rest : List UInt8) (cur : Nat),
    RngFree r ws.flags (loop false fuel (ws.setRng r) rest cur) (loop false fuel ws rest cur) := by
  induction fuel with
  | zero => intro ws _ rest cur; exact ⟨rfl, trivial⟩
  | succ n ih =>
    intro ws hg rest cur
    unfold loop
    by_cases hr : rest = []
    · rw [if_pos hr, if_pos hr]; exact tail_rng r ws hg cur
    · rw [if_neg hr, if_neg hr]
      obtain ⟨h1, h2⟩ := iter_rng r ws hg rest
      rw [h1]
      revert h2
      cases iter false ws rest with
      | cont w k =>
        intro h2
        have h2' : w.flags = ws.flags := h2
        have := ih w (genClose_of_flags h2' hg) (rest.drop k) (cur + k)
        rw [h2'] at this
        exact this
      | ret w st k pl plen => intro h2; exact ⟨rfl, h2⟩
      | fault s => intro _; exact ⟨rfl, trivial⟩

theorem decode_rng (r : List UInt8) (ws : WS) (hg : NoDraw ws) (buf : List UInt8) :
    RngFree r ws.flags (decode false (ws.setRng r) buf) (decode false ws buf) := by
  unfold decode
  by_cases hv : ws.validity = 0
  · have hv' : (ws.setRng r).validity = 0 := hv
    rw [if_pos hv, if_pos hv']; exact ⟨rfl, rfl⟩
  · have hv' : ¬ (ws.setRng r).validity = 0 := hv
    rw [if_neg hv, if_neg hv']; exact loop_rng r _ ws hg buf 0

theorem feedLoop_rng (r : List UInt8) (budget : Nat) : ∀ (ws : WS), NoDraw ws → ∀ (rest : List UInt8) (acc : List Call),
    feedLoop false budget (ws.setRng r) rest acc =
      ((feedLoop false budget ws rest acc).1.setRng r, (feedLoop false budget ws rest acc).2) ∧
    (feedLoop false budget ws rest acc).1.flags = ws.flags := by
  induction budget with
  | zero => intro ws _ rest acc; exact ⟨rfl, rfl⟩
  | succ n ih =>
    intro ws hg rest acc
    unfold feedLoop
    by_cases hr : rest = []
    · rw [if_pos hr, if_pos hr]; exact ⟨rfl, rfl⟩
    · rw [if_neg hr, if_neg hr]
      obtain ⟨h1, h2⟩ := decode_rng r ws hg rest
      rw [h1]
      revert h2
      cases decode false ws rest with
      | cont w k => intro h2; exact ⟨rfl, h2⟩
      | fault s => intro _; exact ⟨rfl, rfl⟩
      | ret w st rd pl plen =>
        intro h2
        have h2' : w.flags = ws.flags := h2
        simp only [R.setRng]
        by_cases hneg : st < 0
        · rw [if_pos hneg, if_pos hneg]; exact ⟨rfl, h2'⟩
        · rw [if_neg hneg, if_neg hneg]
          obtain ⟨a, b⟩ := ih w (genClose_of_flags h2' hg) (rest.drop rd) (⟨st, rd, pl, plen⟩ :: acc)
          exact ⟨a, b.trans h2'⟩

/-! ### the encoders write nothing but the rng script -/

theorem encodeData_ws (ws : WS) (p : List UInt8) (frag op : Nat) : SameButRng ws (encodeData ws p frag op).ws := by
  unfold encodeData
  simp only []
  split
  · exact SameButRng.refl _
  · exact encodeFrame_ws _ _ _ _

theorem encodeBinary_ws (ws : WS) (p : List UInt8) (frag : Nat) : SameButRng ws (encodeBinary ws p frag).ws := by
  unfold encodeBinary
  split
  · exact SameButRng.refl _
  · split
    · exact SameButRng.refl _
    · exact encodeData_ws _ _ _ _

theorem encodeText_ws (ws : WS) (p : List UInt8) (frag : Nat) (st : Option Nat) :
    SameButRng ws (encodeText ws p frag st).1.ws := by
  unfold encodeText
  simp only []
  repeat' split
  all_goals first | exact SameButRng.refl _ | exact encodeData_ws _ _ _ _

theorem encodePingPong_ws (ws : WS) (p : List UInt8) (op : Nat) : SameButRng ws (encodePingPong ws p op).ws := by
  unfold encodePingPong
  split
  · exact SameButRng.refl _
  · exact encodeFrame_ws _ _ _ _

/-- one call of an encoder of the public API -/
inductive Enc where
  | text (p : List UInt8) (frag : Nat) (utf8Step : Option Nat)     -- MHD_websocket_encode_text
  | binary (p : List UInt8) (frag : Nat)                            -- MHD_websocket_encode_binary
  | ping (p : List UInt8)                                            -- MHD_websocket_encode_ping
  | pong (p : List UInt8)                                            -- MHD_websocket_encode_pong
  | close (code : Nat) (reason : List UInt8)                         -- MHD_websocket_encode_close
  deriving Repr, DecidableEq

def Enc.run (ws : WS) : Enc → EncRes
  | .text p f s => (encodeText ws p f s).1
  | .binary p f => encodeBinary ws p f
  | .ping p => encodePingPong ws p 9
  | .pong p => encodePingPong ws p 10
  | .close c reason => encodeClose ws c reason

theorem Enc.run_ws (ws : WS) (e : Enc) : SameButRng ws (e.run ws).ws := by
  cases e
  · exact encodeText_ws _ _ _ _
  · exact encodeBinary_ws _ _ _
  · exact encodePingPong_ws _ _ _
  · exact encodePingPong_ws _ _ _
  · exact encodeClose_ws _ _ _

/-! ### sessions with encoder calls between the decoder calls -/

/-- what the application does with its stream: hand a received chunk to the decode loop, or
    encode a frame of its own -/
inductive Op where
  | feed (chunk : List UInt8)
  | enc (e : Enc)
  deriving Repr, DecidableEq

/-- what the application sees of the decoder (as `session`) when it also calls encoders on the
    same stream in between -/
def sessionI : WS → List Op → List Ev
  | _, [] => []
  | ws, .feed c :: r =>
    let f := feed false ws c
    evsOf f.2.1 ++ (if f.2.2 = .consumed then sessionI f.1 r else [])
  | ws, .enc e :: r => sessionI (e.run ws).ws r

/-- the received chunks of a list of operations -/
def feedsOf : List Op → List (List UInt8)
  | [] => []
  | .feed c :: r => c :: feedsOf r
  | .enc _ :: r => feedsOf r

theorem sessionI_rng (ops : List Op) : ∀ (ws : WS) (r : List UInt8), NoDraw ws →
    sessionI (ws.setRng r) ops = session ws (feedsOf ops) := by
  induction ops with
  | nil => intro ws r _; rfl
  | cons o rest ih =>
    intro ws r hg
    cases o with
    | enc e =>
      obtain ⟨r', hr'⟩ := Enc.run_ws (ws.setRng r) e
      show sessionI (e.run (ws.setRng r)).ws rest = _
      rw [hr']
      exact ih ws r' hg
    | feed c =>
      obtain ⟨h1, h2⟩ := feedLoop_rng r (c.length + 9) ws hg c []
      show (let f := feed false (ws.setRng r) c; evsOf f.2.1 ++ (if f.2.2 = .consumed then sessionI f.1 rest else [])) =
        (let f := feed false ws c; evsOf f.2.1 ++ (if f.2.2 = .consumed then sessionG false f.1 (feedsOf rest) else []))
      have hf : feed false (ws.setRng r) c = ((feed false ws c).1.setRng r, (feed false ws c).2) := h1
      simp only [hf]
      congr 1
      split
      · exact ih _ r (genClose_of_flags h2 hg)
      · rfl

/-- **encoder calls between decoder calls change nothing for the decoder** -/
theorem sessionI_eq_session (ws : WS) (hg : NoDraw ws) (ops : List Op) : sessionI ws ops = session ws (feedsOf ops) :=
  sessionI_rng ops ws ws.rng hg

end Mhd.WS
