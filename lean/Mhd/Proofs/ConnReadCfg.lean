import Mhd.Proofs.ConnRead
import Mhd.Model.ConnReadCfg
namespace Mhd.ConnRead
open Mhd.ConnMem Mhd.Req Mhd.Gen

/-- the internal look-ups see header-kind elements only -/
theorem fieldsOf_filter (buf : Bytes) (elems : List Elem) :
    fieldsOf buf elems = fieldsOf buf (elems.filter (fun e => e.kind == Http.kindHeader)) := by
  unfold fieldsOf
  induction elems with
  | nil => rfl
  | cons e es ih =>
    by_cases hk : (e.kind == Http.kindHeader) = true
    · simp only [List.filter_cons, hk, if_true, List.filterMap_cons]
      rw [ih]
    · simp only [List.filter_cons, hk, if_false, List.filterMap_cons, Bool.false_eq_true]
      exact ih

/-- the keep-alive decision does not depend on elements of other kinds -/
theorem keepAlive_header_kind_only (lvl : Int) (pat : List (Option Nat)) (f : HRes) (l : Bool) (buf : Bytes) (rq : Rq) :
    (mkCfg lvl pat f l).keepAlive buf rq =
      (mkCfg lvl pat f l).keepAlive buf { rq with elems := rq.elems.filter (fun e => e.kind == Http.kindHeader) } := by
  simp only [mkCfg]
  rw [← fieldsOf_filter]

theorem frame_header_kind_only (lvl : Int) (pat : List (Option Nat)) (f : HRes) (l : Bool) (buf : Bytes) (rq : Rq) :
    (mkCfg lvl pat f l).frame buf rq =
      (mkCfg lvl pat f l).frame buf { rq with elems := rq.elems.filter (fun e => e.kind == Http.kindHeader) } := by
  simp only [mkCfg]
  rw [← fieldsOf_filter]

theorem expect100_header_kind_only (lvl : Int) (pat : List (Option Nat)) (f : HRes) (l : Bool) (buf : Bytes) (rq : Rq) :
    (mkCfg lvl pat f l).expect100 buf rq =
      (mkCfg lvl pat f l).expect100 buf { rq with elems := rq.elems.filter (fun e => e.kind == Http.kindHeader) } := by
  simp only [mkCfg]
  rw [← fieldsOf_filter]

/-- the contents of the read window as the body decoder is given them -/
def Body.window (b : Body) : List UInt8 := (b.buf.extract b.rb b.buf.size).toList

/-- the window handed to the chunk decoder is exactly the received bytes `[read_buffer, read_buffer + read_buffer_offset)` -/
theorem body_window {i : Nat} {x : CR} (h : Safe i x) (b : Body) (hp : x.phase = .body b) :
    b.window.length = x.cm.rbOff ∧ b.buf.size = b.rb + x.cm.rbOff ∧
    ∀ k, k < x.cm.rbOff → b.window[k]? = b.buf[b.rb + k]? := by
  unfold Safe at h
  rw [hp] at h
  have hsz := h.1.sz
  refine ⟨by simp only [Body.window, Array.length_toList, Array.size_extract]; omega, hsz, ?_⟩
  intro k hk
  simp only [Body.window, Array.getElem?_toList, Array.getElem?_extract]
  rw [if_pos (by omega)]
end Mhd.ConnRead
