/-
  C14 helper lemmas, part 3: the main loop of parse_dauth_params on a rendered parameter list.
-/
import Mhd.Proofs.AuthStr
import Mhd.Proofs.AuthScan
namespace Mhd.Auth
open Mhd.Gen.Auth

/-- tail of a rendered parameter: end of the string or the separating comma -/
def TailOK (tail : Bytes) : Prop := tail = [] ∨ ∃ more, tail = 44 :: more

theorem skipWs_tail (tail : Bytes) (h : TailOK tail) : skipWs tail = tail := by
  apply skipWs_stop
  rcases h with h | ⟨m, h⟩
  · exact Or.inl h
  · exact Or.inr ⟨44, m, h, by decide⟩

theorem afterValue_ok (ws3 tail : Bytes) (hw : allWs ws3 = true) (ht : TailOK tail) :
    afterValue (ws3 ++ tail) = some tail := by
  unfold afterValue
  rw [skipWs_append _ _ hw, skipWs_tail _ ht]
  rcases ht with h | ⟨m, h⟩ <;> subst h <;> simp

theorem ws_tail_head (ws3 tail : Bytes) (hw : allWs ws3 = true) (ht : TailOK tail) :
    ws3 ++ tail = [] ∨ ∃ c r, ws3 ++ tail = c :: r ∧ (c = 44 ∨ c = 32 ∨ c = 9) := by
  cases ws3 with
  | nil =>
    rcases ht with h | ⟨m, h⟩
    · left; simp [h]
    · right; exact ⟨44, m, by simp [h], Or.inl rfl⟩
  | cons c r =>
    right
    simp only [allWs, List.all_cons, Bool.and_eq_true, isWs_iff] at hw
    exact ⟨c, r ++ tail, rfl, Or.inr hw.1⟩

theorem Elem.wf_ws (e : Elem) (h : e.wf = true) :
    e.item.slot < 12 ∧ allWs e.r.ws1 = true ∧ allWs e.r.ws2 = true ∧ allWs e.r.ws3 = true ∧ allWs e.r.ws4 = true := by
  unfold Elem.wf at h
  simp only [Bool.and_eq_true, decide_eq_true_eq, paramNames_length] at h
  obtain ⟨⟨⟨⟨⟨h1, h2⟩, h3⟩, h4⟩, h5⟩, _⟩ := h
  exact ⟨h1, h2, h3, h4, h5⟩

theorem Elem.wf_token (e : Elem) (h : e.wf = true) (hf : e.r.form = .token) :
    ∃ c r, e.item.value = c :: r ∧ c ≠ 34 ∧ (c :: r).all tokByte = true := by
  unfold Elem.wf at h
  rw [hf] at h
  simp only [Bool.and_eq_true, bne_iff_ne, ne_eq, Bool.not_eq_true'] at h
  obtain ⟨_, ⟨hall, hq⟩, hne⟩ := h
  cases hv : e.item.value with
  | nil => rw [hv] at hne; simp at hne
  | cons c r =>
    rw [hv] at hq hall
    exact ⟨c, r, rfl, by simpa using hq, hall⟩

theorem Elem.wf_quoted (e : Elem) (h : e.wf = true) (esc : List Bool) (hf : e.r.form = .quoted esc) :
    ∀ c ∈ e.item.value, c ≠ 0 := by
  unfold Elem.wf at h
  rw [hf] at h
  simp only [Bool.and_eq_true] at h
  intro c hc
  have := List.all_eq_true.mp h.2 c hc
  simpa using this

/-- value scanning on a rendered value: the recorded slice and flag are those of the rendering -/
theorem valueAt_rendered (t : UInt8) (ht : t ≠ 59) (e : Elem) (tail : Bytes) (hwf : e.wf = true) (htl : TailOK tail) :
    ∃ vs, valueAt (some t) (renderValue e.item.value e.r.form ++ (e.r.ws3 ++ tail)) =
      .ok (vs, rawOf e, quotedOf e, e.r.ws3 ++ tail) := by
  obtain ⟨_, _, _, hw3, _⟩ := e.wf_ws hwf
  unfold rawOf quotedOf
  cases hf : e.r.form with
  | token =>
    obtain ⟨c, r, hv, hc, hall⟩ := e.wf_token hwf hf
    simp only [renderValue, hv]
    refine ⟨(c :: r ++ (e.r.ws3 ++ tail)).length, ?_⟩
    have := scanTok_token t ht (c :: r) (e.r.ws3 ++ tail) hall (ws_tail_head _ _ hw3 htl)
    simp only [valueAt, List.cons_append, hc, if_false] at this ⊢
    rw [this]; rfl
  | quoted esc =>
    have hv := e.wf_quoted hwf esc hf
    simp only [renderValue]
    refine ⟨(escRender esc e.item.value ++ [34] ++ (e.r.ws3 ++ tail)).length, ?_⟩
    have := scanQ_escRender (some t) esc e.item.value (e.r.ws3 ++ tail) hv
    simp only [valueAt, List.cons_append, List.append_assoc, if_true, List.singleton_append, List.nil_append] at this ⊢
    rw [this]; rfl

theorem knownValue_rendered (t : UInt8) (ht : t ≠ 59) (e : Elem) (tail : Bytes) (hwf : e.wf = true) (htl : TailOK tail) :
    ∃ vs, knownValue (some t)
        (e.r.ws1 ++ 61 :: (e.r.ws2 ++ (renderValue e.item.value e.r.form ++ (e.r.ws3 ++ tail)))) =
      .ok (vs, rawOf e, quotedOf e, tail) := by
  obtain ⟨_, hw1, hw2, hw3, _⟩ := e.wf_ws hwf
  obtain ⟨vs, hval⟩ := valueAt_rendered t ht e tail hwf htl
  refine ⟨vs, ?_⟩
  unfold knownValue
  rw [skipWs_append _ _ hw1, skipWs_cons]
  simp only [show isWs 61 = false by decide, Bool.false_eq_true, if_false, ne_eq, not_true_eq_false]
  rw [skipWs_append _ _ hw2]
  have hstop : skipWs (renderValue e.item.value e.r.form ++ (e.r.ws3 ++ tail)) =
      renderValue e.item.value e.r.form ++ (e.r.ws3 ++ tail) := by
    apply skipWs_stop
    right
    cases hf : e.r.form with
    | token =>
      obtain ⟨c, r, hv, hc, hall⟩ := e.wf_token hwf hf
      refine ⟨c, r ++ (e.r.ws3 ++ tail), by simp [renderValue, hv], ?_⟩
      simp only [List.all_cons, Bool.and_eq_true, tokByte, bne_iff_ne, ne_eq, decide_eq_true_eq] at hall
      simp [isWs, hall.1.1.1.1.2, hall.1.1.1.2]
    | quoted esc => exact ⟨34, escRender esc e.item.value ++ 34 :: (e.r.ws3 ++ tail), by simp [renderValue], by decide⟩
  rw [hstop, hval]
  simp [afterValue_ok _ _ hw3 htl]

/-- the first byte of a rendered parameter name is a letter -/
theorem caseRender_head (q : Nat) (hq : q < 12) (m : List Bool) :
    ∃ c r, caseRender m (nameOf q) = c :: r ∧ c ≠ 61 ∧ isWs c = false := by
  have hn : ∃ c0 r0, nameOf q = c0 :: r0 ∧ 97 ≤ c0.toNat ∧ c0.toNat ≤ 122 := by
    have hcases : q = 0 ∨ q = 1 ∨ q = 2 ∨ q = 3 ∨ q = 4 ∨ q = 5 ∨ q = 6 ∨ q = 7 ∨ q = 8 ∨ q = 9 ∨ q = 10 ∨ q = 11 := by omega
    rcases hcases with h | h | h | h | h | h | h | h | h | h | h | h <;> subst h <;>
      exact ⟨_, _, rfl, by decide, by decide⟩
  obtain ⟨c0, r0, hn, hlo, hhi⟩ := hn
  rw [hn]
  have key : ∀ c : UInt8, (c = c0 ∨ c = toUpperB c0) → c ≠ 61 ∧ isWs c = false := by
    intro c hc
    have hc' : c.toNat = c0.toNat ∨ c.toNat = c0.toNat - 32 := by
      rcases hc with h | h
      · left; rw [h]
      · right; rw [h, toUpperB_toNat]; simp [hlo, hhi]
    constructor
    · intro h; rw [h] at hc'; simp at hc'; omega
    · simp only [isWs, Bool.or_eq_false_iff, decide_eq_false_iff_not]
      constructor <;> intro h <;> rw [h] at hc' <;> simp at hc' <;> omega
  cases m with
  | nil => exact ⟨c0, _, rfl, key c0 (Or.inl rfl)⟩
  | cons b bs =>
    cases b
    · exact ⟨c0, _, rfl, key c0 (Or.inl rfl)⟩
    · exact ⟨toUpperB c0, _, rfl, key _ (Or.inr rfl)⟩

theorem ws_eq_head (ws X : Bytes) (hw : allWs ws = true) :
    ∃ d rest, ws ++ 61 :: X = d :: rest ∧ (d = 32 ∨ d = 9 ∨ d = 61) := by
  cases ws with
  | nil => exact ⟨61, X, rfl, Or.inr (Or.inr rfl)⟩
  | cons c r =>
    simp only [allWs, List.all_cons, Bool.and_eq_true, isWs_iff] at hw
    rcases hw.1 with h | h
    · exact ⟨c, r ++ 61 :: X, rfl, Or.inl h⟩
    · exact ⟨c, r ++ 61 :: X, rfl, Or.inr (Or.inl h)⟩

/-- one iteration of the main loop on a rendered parameter -/
theorem paramLoop_elem (t : UInt8) (ht : t ≠ 59) (n fuel : Nat) (st : Slots) (e : Elem) (tail : Bytes)
    (hwf : e.wf = true) (htl : TailOK tail) :
    ∃ off, paramLoop (some t) n (fuel + 1) st (renderElem e ++ tail) =
      paramLoop (some t) n fuel (st.set e.item.slot ⟨off, rawOf e, quotedOf e⟩) (nextParam tail) := by
  obtain ⟨hslot, hw1, _, _, _⟩ := e.wf_ws hwf
  obtain ⟨vs, hkv⟩ := knownValue_rendered t ht e tail hwf htl
  obtain ⟨c, r, hhead, hc61, _⟩ := caseRender_head e.item.slot hslot e.r.upper
  have hshape : renderElem e ++ tail = caseRender e.r.upper (nameOf e.item.slot) ++
      (e.r.ws1 ++ 61 :: (e.r.ws2 ++ (renderValue e.item.value e.r.form ++ (e.r.ws3 ++ tail)))) := by
    simp [renderElem, List.append_assoc]
  obtain ⟨d, rest, hd, hdd⟩ := ws_eq_head e.r.ws1 (e.r.ws2 ++ (renderValue e.item.value e.r.form ++ (e.r.ws3 ++ tail))) hw1
  have hfind := findName_rendered e.item.slot hslot e.r.upper d hdd rest
  rw [← hd, ← hshape] at hfind
  have hdrop : List.drop (nameOf e.item.slot).length (renderElem e ++ tail) =
      e.r.ws1 ++ 61 :: (e.r.ws2 ++ (renderValue e.item.value e.r.form ++ (e.r.ws3 ++ tail))) := by
    rw [hshape, ← caseRender_length e.r.upper (nameOf e.item.slot), List.drop_left]
  have hcons : renderElem e ++ tail = c :: (r ++
      (e.r.ws1 ++ 61 :: (e.r.ws2 ++ (renderValue e.item.value e.r.form ++ (e.r.ws3 ++ tail))))) := by
    rw [hshape, hhead]; rfl
  refine ⟨n - vs, ?_⟩
  rw [hcons, paramLoop.eq_3, ← hcons]
  simp only [hc61, if_false, hfind, hdrop, hkv, Res.bind_ok]

/-- (raw slice, quoted flag) recorded for parameter `k` after the rendered list: last occurrence wins -/
def rawView (es : List Elem) (init : Option (Bytes × Bool)) (k : Nat) : Option (Bytes × Bool) :=
  es.foldl (fun acc e => if e.item.slot = k then some (rawOf e, quotedOf e) else acc) init

def pr (p : Param) : Bytes × Bool := (p.raw, p.quoted)

theorem renderList_head (e : Elem) (es : List Elem) (hwf : e.wf = true) :
    ∃ c r, renderList (e :: es) = c :: r ∧ isWs c = false := by
  obtain ⟨hslot, _⟩ := e.wf_ws hwf
  obtain ⟨c, r, hhead, _, hws⟩ := caseRender_head e.item.slot hslot e.r.upper
  cases es with
  | nil => exact ⟨c, r ++ (e.r.ws1 ++ 61 :: (e.r.ws2 ++ renderValue e.item.value e.r.form ++ e.r.ws3)),
      by simp [renderList, renderElem, hhead], hws⟩
  | cons e' es' => exact ⟨c, r ++ (e.r.ws1 ++ 61 :: (e.r.ws2 ++ renderValue e.item.value e.r.form ++ e.r.ws3)) ++
      44 :: (e.r.ws4 ++ renderList (e' :: es')), by simp [renderList, renderElem, hhead], hws⟩

theorem paramLoop_renderList (t : UInt8) (ht : t ≠ 59) (n : Nat) (es : List Elem) :
    ∀ (fuel : Nat) (st : Slots), es.all Elem.wf = true → es.length < fuel →
      ∃ st', paramLoop (some t) n fuel st (renderList es) = .ok st' ∧
        ∀ k, (st' k).map pr = rawView es ((st k).map pr) k := by
  induction es with
  | nil =>
    intro fuel st _ hf
    cases fuel with
    | zero => omega
    | succ f => exact ⟨st, by simp [renderList, paramLoop.eq_2], fun k => rfl⟩
  | cons e es ih =>
    intro fuel st hwf hf
    simp only [List.all_cons, Bool.and_eq_true] at hwf
    cases fuel with
    | zero => omega
    | succ f =>
      have hstep : ∀ off k, ((st.set e.item.slot ⟨off, rawOf e, quotedOf e⟩) k).map pr =
          (if e.item.slot = k then some (rawOf e, quotedOf e) else (st k).map pr) := by
        intro off k
        unfold Slots.set
        by_cases hk : k = e.item.slot
        · simp [hk, pr]
        · have : ¬ e.item.slot = k := fun h => hk h.symm
          simp [hk, this]
      cases es with
      | nil =>
        obtain ⟨off, hit⟩ := paramLoop_elem t ht n f st e [] hwf.1 (Or.inl rfl)
        simp only [List.append_nil] at hit
        have hf' : 0 < f := by simp at hf; omega
        obtain ⟨f', rfl⟩ : ∃ f', f = f' + 1 := ⟨f - 1, by omega⟩
        refine ⟨st.set e.item.slot ⟨off, rawOf e, quotedOf e⟩, by rw [renderList, hit]; simp [nextParam, paramLoop.eq_2], ?_⟩
        intro k
        simp [rawView, hstep]
      | cons e' es' =>
        have htl : TailOK (44 :: (e.r.ws4 ++ renderList (e' :: es'))) := Or.inr ⟨_, rfl⟩
        obtain ⟨off, hit⟩ := paramLoop_elem t ht n f st e _ hwf.1 htl
        obtain ⟨_, _, _, _, hw4⟩ := e.wf_ws hwf.1
        have hwf' := hwf.2
        simp only [List.all_cons, Bool.and_eq_true] at hwf'
        obtain ⟨c, r, hhd, hcws⟩ := renderList_head e' es' hwf'.1
        have hnext : nextParam (44 :: (e.r.ws4 ++ renderList (e' :: es'))) = renderList (e' :: es') := by
          simp only [nextParam]
          rw [skipWs_append _ _ hw4]
          exact skipWs_stop _ (Or.inr ⟨c, r, hhd, hcws⟩)
        obtain ⟨st', hrun, hview⟩ := ih f (st.set e.item.slot ⟨off, rawOf e, quotedOf e⟩) hwf.2 (by simp at hf ⊢; omega)
        refine ⟨st', ?_, ?_⟩
        · rw [renderList, hit, hnext]; exact hrun
        · intro k
          rw [hview k, hstep]
          simp [rawView]

end Mhd.Auth
