/-
  Proofs about the request-line scanner (`Mhd.Model.ReqLine`):
  * `RLInv` — representation invariant of the parser state (positions inside
    the received data, pointers consistent),
  * `rlStep_ok` — every step under the invariant: no fault, invariant kept,
    progress (the termination measure decreases),
  * `rlStep_ext` — a step that did not ask for more data does exactly the same
    on the buffer with more bytes appended (it never looked beyond what it had),
  * `rlLaws` — hence `get_request_line_inner` satisfies the generic scanner laws
    for **every** combination of strictness flags.
-/
import Mhd.Model.ReqLine
import Mhd.Proofs.Scanner
set_option linter.unusedSimpArgs false
namespace Mhd.Req

/-! ## extension of a step result -/
def Step.ext (e : Bytes) : Step RL RLDone → Step RL RLDone
  | .advance s => .advance (rlExtend s e)
  | .done r => .done (rlExtendR r e)
  | .needMore => .needMore
  | .fault f => .fault f

@[simp] theorem Step.ext_advance (e : Bytes) (s : RL) : Step.ext e (.advance s) = .advance (rlExtend s e) := rfl
@[simp] theorem Step.ext_done (e : Bytes) (r : RLDone) : Step.ext e (.done r) = .done (rlExtendR r e) := rfl
@[simp] theorem Step.ext_needMore (e : Bytes) : Step.ext e .needMore = .needMore := rfl
@[simp] theorem Step.ext_fault (e : Bytes) (f : Fault) : Step.ext e (.fault f) = .fault f := rfl

/-! ## buffer facts -/
theorem get_ext (buf e : Bytes) (i : Nat) (h : i < buf.size) : (buf ++ e)[i]? = buf[i]? :=
  Array.getElem?_append_left h

theorem set_ext (buf e : Bytes) (i : Nat) (v : UInt8) (h : i < buf.size) :
    (buf ++ e).setIfInBounds i v = buf.setIfInBounds i v ++ e := by
  rw [Array.setIfInBounds_append, if_pos h]

theorem rdRange_ext (buf e : Bytes) (off n : Nat) (h : off + n ≤ buf.size) :
    rdRange (buf ++ e) off n = rdRange buf off n := by
  unfold rdRange
  have h2 : off + n ≤ (buf ++ e).size := by rw [Array.size_append]; omega
  rw [if_pos h, if_pos h2]
  congr 2
  apply Array.ext_getElem?
  intro i
  simp only [Array.getElem?_extract, Array.size_append]
  by_cases hi : i < off + n - off
  · rw [if_pos (by omega), if_pos (by omega), get_ext _ _ _ (by omega)]
  · rw [if_neg (by omega), if_neg (by omega)]

theorem wr_ext {α : Type} {buf e : Bytes} {i : Nat} {v : UInt8} {site : Nat} (h : i < buf.size)
    (flt : Fault → α) (k : Bytes → α) :
    wr (buf ++ e) i v site flt k = k (buf.setIfInBounds i v ++ e) := by
  unfold wr
  rw [if_pos (by rw [Array.size_append]; omega), set_ext _ _ _ _ h]

theorem wr_in {α : Type} {buf : Bytes} {i : Nat} {v : UInt8} {site : Nat} (h : i < buf.size)
    (flt : Fault → α) (k : Bytes → α) : wr buf i v site flt k = k (buf.setIfInBounds i v) := by
  unfold wr; rw [if_pos h]

/-! ## invariant -/
structure RLInv (s : RL) : Prop where
  hp : s.rb + s.p ≤ s.buf.size
  hws : s.wsStart ≤ s.p ∧ s.wsEnd ≤ s.p
  htgt : ∀ t, s.tgt = some t → 1 ≤ t ∧ t ≤ s.p
  hver : ∀ v, s.version = some v → v ≤ s.p ∧ s.tgt ≠ none
  hmeth : s.hasMethod = true → s.tgt = none → s.wsEnd = s.p ∧ s.p ≠ 0
  hnom : s.hasMethod = false → s.wsEnd = 0 ∧ s.tgt = none ∧ s.version = none

/-- between the strict end-of-whitespace processing and the character processing -/
structure Mid (F : RLFlags) (s : RL) : Prop extends RLInv s where
  hblk : s.hasMethod = true → s.tgt = none → F.wspBlocks = true

theorem RLInv.ext {s : RL} (h : RLInv s) (e : Bytes) : RLInv (rlExtend s e) := by
  refine ⟨?_, h.hws, h.htgt, h.hver, h.hmeth, h.hnom⟩
  show s.rb + s.p ≤ (s.buf ++ e).size
  rw [Array.size_append]; have := h.hp; omega

theorem RLInv.init (buf : Bytes) (rb : Nat) (h : rb ≤ buf.size) : RLInv (RL.init buf rb) := by
  refine ⟨by simpa [RL.init] using h, by simp [RL.init], ?_, ?_, ?_, ?_⟩ <;> simp [RL.init]

/-! ## end-of-whitespace helpers -/
theorem endOfWspStrict_ext (F : RLFlags) (s : RL) (e : Bytes) :
    endOfWspStrict F (rlExtend s e) = rlExtend (endOfWspStrict F s) e := by
  unfold endOfWspStrict rlExtend
  dsimp only
  repeat' split
  all_goals rfl

theorem endOfWspBlock_ext (F : RLFlags) (s : RL) (e : Bytes) :
    endOfWspBlock F (rlExtend s e) = rlExtend (endOfWspBlock F s) e := by
  unfold endOfWspBlock rlExtend
  dsimp only
  repeat' split
  all_goals rfl

theorem endOfWspStrict_same (F : RLFlags) (s : RL) :
    (endOfWspStrict F s).buf = s.buf ∧ (endOfWspStrict F s).rb = s.rb ∧ (endOfWspStrict F s).p = s.p := by
  unfold endOfWspStrict
  repeat' split
  all_goals exact ⟨rfl, rfl, rfl⟩

theorem endOfWspBlock_same (F : RLFlags) (s : RL) :
    (endOfWspBlock F s).buf = s.buf ∧ (endOfWspBlock F s).rb = s.rb ∧ (endOfWspBlock F s).p = s.p := by
  unfold endOfWspBlock
  repeat' split
  all_goals exact ⟨rfl, rfl, rfl⟩

theorem endOfWspStrict_mid (F : RLFlags) (s : RL) (h : RLInv s) : Mid F (endOfWspStrict F s) := by
  unfold endOfWspStrict
  split
  next hc =>
    simp only [Bool.and_eq_true, Bool.not_eq_true', beq_iff_eq, bne_iff_ne, ne_eq] at hc
    obtain ⟨⟨hb, hpe⟩, hne⟩ := hc
    split
    next ht =>
      refine ⟨⟨h.hp, by simp, ?_, ?_, ?_, ?_⟩, ?_⟩
      · intro t ht'; simp only [Option.some.injEq] at ht'; subst ht'; have := h.hws; dsimp only; omega
      · intro v hv; exact ⟨(h.hver v hv).1, by simp⟩
      · intro _ hn; simp at hn
      · intro hm; have := h.hnom hm; omega
      · intro _ hn; simp at hn
    next t ht =>
      split
      · refine ⟨⟨h.hp, by simp, h.htgt, ?_, ?_, ?_⟩, ?_⟩
        · intro v hv; simp only [Option.some.injEq] at hv; subst hv; exact ⟨Nat.le_refl _, by simp [ht]⟩
        · intro _ hn; simp [ht] at hn
        · intro hm; have := h.hnom hm; simp [ht] at this
        · intro _ hn; simp [ht] at hn
      · exact ⟨h, fun _ hn => by simp [ht] at hn⟩
  next hc =>
    refine ⟨h, ?_⟩
    intro hm hn
    have := h.hmeth hm hn
    cases hb : F.wspBlocks with
    | true => rfl
    | false =>
      exfalso; apply hc
      simp only [hb, Bool.not_false, Bool.true_and, Bool.and_eq_true, beq_iff_eq, bne_iff_ne, ne_eq]
      omega

/-- after the block end processing of a non-whitespace character the target is known -/
theorem endOfWspBlock_inv (F : RLFlags) (s : RL) (h : Mid F s) :
    RLInv (endOfWspBlock F s) ∧ ((endOfWspBlock F s).hasMethod = true → (endOfWspBlock F s).tgt ≠ none) := by
  unfold endOfWspBlock
  split
  next hc =>
    simp only [Bool.and_eq_true, beq_iff_eq, bne_iff_ne, ne_eq] at hc
    obtain ⟨⟨hpe, hne⟩, hb⟩ := hc
    split
    next ht =>
      refine ⟨⟨h.hp, by simp, ?_, ?_, ?_, ?_⟩, by simp⟩
      · intro t ht'; simp only [Option.some.injEq] at ht'; subst ht'; have := h.hws; dsimp only; omega
      · intro v hv; exact ⟨(h.hver v hv).1, by simp⟩
      · intro _ hn; simp at hn
      · intro hm; have := h.hnom hm; omega
    next t ht =>
      split
      · refine ⟨⟨h.hp, by simp, h.htgt, ?_, ?_, ?_⟩, by simp [ht]⟩
        · intro v hv; simp only [Option.some.injEq] at hv; subst hv; exact ⟨Nat.le_refl _, by simp [ht]⟩
        · intro _ hn; simp [ht] at hn
        · intro hm; have := h.hnom hm; simp [ht] at this
      · exact ⟨h.toRLInv, by simp [ht]⟩
  next hc =>
    refine ⟨h.toRLInv, ?_⟩
    intro hm hn
    have h1 := h.hmeth hm hn
    have h2 := h.hblk hm hn
    apply hc
    simp only [h2, Bool.and_true, Bool.and_eq_true, beq_iff_eq, bne_iff_ne, ne_eq]
    omega


/-! ## what every step owes -/
structure StepOK (s : RL) (r : Step RL RLDone) : Prop where
  nofault : ∀ f, r ≠ .fault f
  adv : ∀ s', r = .advance s' → RLInv s' ∧ s'.buf.size = s.buf.size ∧ s.rb + s.p < s'.rb + s'.p

theorem StepOK.done (s : RL) (r : RLDone) : StepOK s (.done r) :=
  ⟨fun _ h => (by cases h), fun _ h => (by cases h)⟩

theorem StepOK.needMore (s : RL) : StepOK s .needMore :=
  ⟨fun _ h => (by cases h), fun _ h => (by cases h)⟩

theorem StepOK.mk_adv (s s1 : RL) (h : RLInv s1) (hs : s1.buf.size = s.buf.size) (hp : s.rb + s.p < s1.rb + s1.p) :
    StepOK s (.advance s1) :=
  ⟨fun _ h => (by cases h), fun s' h' => (by cases h'; exact ⟨h, hs, hp⟩)⟩

theorem onWsp_ok (F : RLFlags) (s : RL) (h : Mid F s) (hb : s.rb + s.p < s.buf.size) : StepOK s (onWsp F s) := by
  unfold onWsp
  split
  next hc =>
    dsimp only
    split
    next hm =>
      simp only [Bool.not_eq_true'] at hm
      split
      · exact StepOK.done _ _
      next hp0 =>
        simp only [beq_iff_eq] at hp0
        rw [wr_in hb]
        have hr : rdRange (s.buf.setIfInBounds (s.rb + s.p) 0) s.rb s.p
            = some ((s.buf.setIfInBounds (s.rb + s.p) 0).extract s.rb (s.rb + s.p)).toList := by
          unfold rdRange; rw [if_pos (by simp only [Array.size_setIfInBounds]; omega)]
        rw [hr]
        dsimp only
        apply StepOK.mk_adv
        · have hn := h.hnom hm
          refine ⟨by simp only [Array.size_setIfInBounds]; omega, by dsimp only; omega, ?_, ?_, ?_, ?_⟩
          · intro t ht; simp [hn.2.1] at ht
          · intro v hv; simp [hn.2.2] at hv
          · intro _ _; dsimp only; omega
          · intro hf; simp at hf
        · simp
        · dsimp only; omega
    next hm =>
      simp only [Bool.not_eq_true', Bool.not_eq_false] at hm
      split
      next hw =>
        split
        next hv =>
          split
          next ht =>
            exfalso
            have h1 := h.hmeth hm ht
            have h2 := h.hblk hm ht
            simp only [h2, Bool.not_true, Bool.or_false, Bool.or_eq_true, beq_iff_eq, bne_iff_ne, ne_eq] at hc
            omega
          next t ht =>
            rw [wr_in hb]
            apply StepOK.mk_adv
            · have h3 := h.htgt t ht
              refine ⟨by simp only [Array.size_setIfInBounds]; omega, by dsimp only; omega, ?_, ?_, ?_, ?_⟩
              · intro t' ht'; have := h.htgt t' ht'; dsimp only; omega
              · intro v hv'; have := h.hver v hv'; dsimp only; exact ⟨by omega, this.2⟩
              · intro _ hn; simp [ht] at hn
              · intro hf; simp [hm] at hf
            · simp
            · dsimp only; omega
        next v hv => exact StepOK.done _ _
      next hw =>
        have key : ∀ n, RLInv { s with numWs := n, wsStart := s.p, wsEnd := s.p + 1, p := s.p + 1 } := by
          intro n
          refine ⟨by dsimp only; omega, by dsimp only; omega, ?_, ?_, ?_, ?_⟩
          · intro t' ht'; have := h.htgt t' ht'; dsimp only; omega
          · intro v hv'; have := h.hver v hv'; dsimp only; exact ⟨by omega, this.2⟩
          · intro _ _; dsimp only; omega
          · intro hf; simp [hm] at hf
        split
        · exact StepOK.mk_adv _ _ (key _) rfl (by dsimp only; omega)
        · exact StepOK.mk_adv _ _ (key _) rfl (by dsimp only; omega)
  next hc =>
    simp only [Bool.or_eq_true, beq_iff_eq, bne_iff_ne, ne_eq, Bool.not_eq_true', not_or, Decidable.not_not,
      Bool.not_eq_false] at hc
    apply StepOK.mk_adv
    · refine ⟨by dsimp only; omega, by dsimp only; have := h.hws; omega, ?_, ?_, ?_, ?_⟩
      · intro t' ht'; have := h.htgt t' ht'; dsimp only; omega
      · intro v hv'; have := h.hver v hv'; dsimp only; exact ⟨by omega, this.2⟩
      · intro _ _; dsimp only; omega
      · intro hf; have := h.hnom hf; omega
    · rfl
    · dsimp only; omega


theorem inv_p_succ {s : RL} (h : RLInv s) (hb : s.rb + s.p < s.buf.size) (ht : s.hasMethod = true → s.tgt ≠ none)
    (n : Nat) (q : Option Nat) :
    RLInv { s with numWs := n, qmark := q, p := s.p + 1 } := by
  refine ⟨by dsimp only; omega, by dsimp only; have := h.hws; omega, ?_, ?_, ?_, ?_⟩
  · intro t' ht'; have := h.htgt t' ht'; dsimp only; omega
  · intro v hv'; have := h.hver v hv'; dsimp only; exact ⟨by omega, this.2⟩
  · intro hm hn; exact absurd hn (ht hm)
  · intro hf; exact h.hnom hf

theorem onOther_ok (F : RLFlags) (s : RL) (chr : UInt8) (h : Mid F s) (hb : s.rb + s.p < s.buf.size) :
    StepOK s (onOther F s chr) := by
  unfold onOther
  have h1 := endOfWspBlock_inv F s h
  have h2 := endOfWspBlock_same F s
  generalize endOfWspBlock F s = s1 at h1 h2
  obtain ⟨hi, ht⟩ := h1
  obtain ⟨e1, e2, e3⟩ := h2
  have hb1 : s1.rb + s1.p < s1.buf.size := by rw [e1, e2, e3]; exact hb
  dsimp only
  repeat' split
  all_goals first
    | exact StepOK.done _ _
    | (apply StepOK.mk_adv
       · exact inv_p_succ hi hb1 ht _ _
       · exact congrArg Array.size e1
       · dsimp only; omega)

theorem processChar_ok (F : RLFlags) (s : RL) (chr : UInt8) (h : RLInv s) (hb : s.rb + s.p < s.buf.size) :
    StepOK s (processChar F s chr) := by
  unfold processChar
  have h1 := endOfWspStrict_mid F s h
  have h2 := endOfWspStrict_same F s
  generalize endOfWspStrict F s = s1 at h1 h2
  obtain ⟨e1, e2, e3⟩ := h2
  have hb1 : s1.rb + s1.p < s1.buf.size := by rw [e1, e2, e3]; exact hb
  dsimp only
  have conv : ∀ r, StepOK s1 r → StepOK s r := by
    intro r hr
    refine ⟨hr.nofault, fun s' hs' => ?_⟩
    have := hr.adv s' hs'
    rw [e1, e2, e3] at this
    exact this
  split
  · exact conv _ (onWsp_ok F s1 h1 hb1)
  · exact conv _ (onOther_ok F s1 chr h1 hb1)

/-! ### extension -/
theorem onOther_ext (F : RLFlags) (s : RL) (chr : UInt8) (e : Bytes) :
    onOther F (rlExtend s e) chr = (onOther F s chr).ext e := by
  unfold onOther
  rw [endOfWspBlock_ext]
  generalize endOfWspBlock F s = s1
  simp only [apply_ite (Step.ext e), Step.ext_advance, Step.ext_done, RL.errClose, rlExtend, rlExtendR]
  rfl

theorem onWsp_ext (F : RLFlags) (s : RL) (e : Bytes) (hb : s.rb + s.p < s.buf.size) :
    onWsp F (rlExtend s e) = (onWsp F s).ext e := by
  unfold onWsp
  have hr : rdRange (s.buf.setIfInBounds (s.rb + s.p) 0 ++ e) s.rb s.p
      = rdRange (s.buf.setIfInBounds (s.rb + s.p) 0) s.rb s.p :=
    rdRange_ext _ _ _ _ (by simp only [Array.size_setIfInBounds]; omega)
  have hr2 : rdRange (s.buf.setIfInBounds (s.rb + s.p) 0) s.rb s.p
      = some ((s.buf.setIfInBounds (s.rb + s.p) 0).extract s.rb (s.rb + s.p)).toList := by
    unfold rdRange; rw [if_pos (by simp only [Array.size_setIfInBounds]; omega)]
  simp only [rlExtend, wr_ext hb, wr_in hb, hr, hr2, RL.errReply, RL.errClose, RL.looksHttp]
  repeat' split
  all_goals first | rfl | (rename_i h; simp only [h, ↓reduceIte]; rfl)


theorem processChar_ext (F : RLFlags) (s : RL) (chr : UInt8) (e : Bytes) (hb : s.rb + s.p < s.buf.size) :
    processChar F (rlExtend s e) chr = (processChar F s chr).ext e := by
  unfold processChar
  rw [endOfWspStrict_ext]
  have h2 := endOfWspStrict_same F s
  generalize endOfWspStrict F s = s1 at h2
  obtain ⟨e1, e2, e3⟩ := h2
  have hb1 : s1.rb + s1.p < s1.buf.size := by rw [e1, e2, e3]; exact hb
  dsimp only
  split
  · exact onWsp_ext F s1 e hb1
  · exact onOther_ext F s1 chr e

/-! ### end of line -/
theorem finishLine_nofault (s : RL) (chr : UInt8) (t v : Nat) (hb : s.rb + s.p < s.buf.size) (hv : v ≤ s.p) :
    ∀ f, finishLine s chr t v ≠ .fault f := by
  intro f
  unfold finishLine
  have hr : rdRange s.buf (s.rb + v) (s.p - v) = some (s.buf.extract (s.rb + v) (s.rb + v + (s.p - v))).toList := by
    unfold rdRange; rw [if_pos (by omega)]
  rw [hr]
  dsimp only
  split
  · intro h; cases h
  · rw [wr_in hb]; intro h; cases h

theorem finishLine_notAdvance (s : RL) (chr : UInt8) (t v : Nat) : ∀ s', finishLine s chr t v ≠ .advance s' := by
  intro s'
  unfold finishLine wr
  repeat' split
  all_goals (intro h; cases h)

theorem finishLine_ext (s : RL) (chr : UInt8) (t v : Nat) (e : Bytes) (hb : s.rb + s.p < s.buf.size) (hv : v ≤ s.p) :
    finishLine (rlExtend s e) chr t v = (finishLine s chr t v).ext e := by
  unfold finishLine
  have hr : rdRange (s.buf ++ e) (s.rb + v) (s.p - v) = rdRange s.buf (s.rb + v) (s.p - v) :=
    rdRange_ext _ _ _ _ (by omega)
  have hr2 : rdRange s.buf (s.rb + v) (s.p - v) = some (s.buf.extract (s.rb + v) (s.rb + v + (s.p - v))).toList := by
    unfold rdRange; rw [if_pos (by omega)]
  simp only [rlExtend, hr, hr2, wr_ext hb, wr_in hb]
  split
  · rfl
  · rfl


/-- a step that finishes: no fault, never `advance`, commutes with extension -/
structure FinOK (e : Bytes) (r rx : Step RL RLDone) : Prop where
  nofault : ∀ f, r ≠ .fault f
  noadv : ∀ s', r ≠ .advance s'
  nomore : r ≠ .needMore
  ext : rx = r.ext e

theorem FinOK.err (e : Bytes) (s : RL) (k : RLErrKind) : FinOK e (s.errReply k) ((rlExtend s e).errReply k) := by
  refine ⟨fun f h => ?_, fun s' h => ?_, fun h => ?_, rfl⟩ <;> (unfold RL.errReply at h; cases h)

theorem eolFinish_ok (chr : UInt8) (s : RL) (e : Bytes) (hb : s.rb + s.p < s.buf.size)
    (hv : ∀ v, s.version = some v → v ≤ s.p ∧ s.tgt ≠ none) :
    FinOK e (eolFinish chr s) (eolFinish chr (rlExtend s e)) := by
  unfold eolFinish
  have e1 : (rlExtend s e).version = s.version := rfl
  have e2 : (rlExtend s e).tgt = s.tgt := rfl
  rw [e1, e2]
  cases hv' : s.version with
  | none => exact FinOK.err e s _
  | some v =>
    have := hv v hv'
    cases ht : s.tgt with
    | none => exact absurd ht this.2
    | some t =>
      exact ⟨finishLine_nofault s chr t v hb this.1, finishLine_notAdvance s chr t v,
        (by
          unfold finishLine wr
          repeat' split
          all_goals (intro h; cases h)),
        finishLine_ext s chr t v e hb this.1⟩

theorem eolResolveWspInUri_ok (chr : UInt8) (s : RL) (e : Bytes) (h : RLInv s) (hb : s.rb + s.p < s.buf.size) :
    FinOK e (eolResolveWspInUri s (eolFinish chr)) (eolResolveWspInUri (rlExtend s e) (eolFinish chr)) := by
  unfold eolResolveWspInUri
  have hws := h.hws
  have e1 : (rlExtend s e).wsEnd = s.wsEnd := rfl
  have e2 : (rlExtend s e).tgt = s.tgt := rfl
  have e3 : (rlExtend s e).wsStart = s.wsStart := rfl
  have e4 : (rlExtend s e).p = s.p := rfl
  have e5 : (rlExtend s e).rb = s.rb := rfl
  have e6 : (rlExtend s e).buf = s.buf ++ e := rfl
  rw [e1, e2, e3, e4, e5, e6]
  by_cases hne : s.wsEnd ≠ 0
  · rw [if_pos hne, if_pos hne]
    cases ht : s.tgt with
    | some t =>
      have hi : s.rb + s.wsStart < s.buf.size := by omega
      dsimp only
      rw [wr_in hi, wr_ext hi]
      exact eolFinish_ok chr { s with buf := s.buf.setIfInBounds (s.rb + s.wsStart) 0, tgtLen := s.wsStart - t,
                                       version := some s.wsEnd, tgt := some t } e
        (by simp only [Array.size_setIfInBounds]; exact hb)
        (by intro v hv; simp only [Option.some.injEq] at hv; subst hv; exact ⟨hws.2, by simp⟩)
    | none =>
      dsimp only
      by_cases hc : s.wsStart + 1 < s.wsEnd ∧ Gen.Discipline.httpVerLen = s.p - s.wsEnd
      · rw [if_pos hc, if_pos hc]
        have hi : s.rb + (s.wsStart + 1) < s.buf.size := by omega
        rw [wr_in hi, wr_ext hi]
        exact eolFinish_ok chr { s with buf := s.buf.setIfInBounds (s.rb + (s.wsStart + 1)) 0, wsStart := s.wsStart + 1,
                                         tgt := some (s.wsStart + 1), tgtLen := 0, numWs := 0, qmark := none,
                                         version := some s.wsEnd } e
          (by simp only [Array.size_setIfInBounds]; exact hb)
          (by intro v hv; simp only [Option.some.injEq] at hv; subst hv; exact ⟨hws.2, by simp⟩)
      · rw [if_neg hc, if_neg hc]
        exact eolFinish_ok chr s e hb h.hver
  · rw [if_neg hne, if_neg hne]
    exact eolFinish_ok chr s e hb h.hver

theorem eolResolveStrict_ok (chr : UInt8) (s : RL) (e : Bytes) (h : RLInv s) (hb : s.rb + s.p < s.buf.size) :
    FinOK e (eolResolveStrict s (eolFinish chr)) (eolResolveStrict (rlExtend s e) (eolFinish chr)) := by
  unfold eolResolveStrict
  have e1 : (rlExtend s e).version = s.version := rfl
  have e2 : (rlExtend s e).tgt = s.tgt := rfl
  have e4 : (rlExtend s e).p = s.p := rfl
  have e5 : (rlExtend s e).rb = s.rb := rfl
  have e6 : (rlExtend s e).buf = s.buf ++ e := rfl
  rw [e1, e2, e4, e5, e6]
  cases hv : s.version with
  | some v => exact eolFinish_ok chr s e hb h.hver
  | none =>
    cases ht : s.tgt with
    | none => exact eolFinish_ok chr s e hb h.hver
    | some t =>
      dsimp only
      have h3 := h.htgt t ht
      by_cases hc : Gen.Discipline.httpVerLen = s.p - t
      · rw [if_pos hc, if_pos hc, if_neg (by omega), if_neg (by omega)]
        have hi : s.rb + t - 1 < s.buf.size := by omega
        rw [get_ext _ _ _ hi]
        cases hg : s.buf[s.rb + t - 1]? with
        | none =>
          exfalso
          have := (Array.getElem?_eq_none_iff).mp hg
          omega
        | some b =>
          dsimp only
          by_cases hb0 : b ≠ 0
          · rw [if_pos hb0, if_pos hb0]
            have hi2 : s.rb + (t - 1) < s.buf.size := by omega
            rw [wr_in hi2, wr_ext hi2]
            exact eolFinish_ok chr { s with buf := s.buf.setIfInBounds (s.rb + (t - 1)) 0, version := some t,
                                             tgt := some (t - 1), tgtLen := 0, numWs := 0, qmark := none } e
              (by simp only [Array.size_setIfInBounds]; exact hb)
              (by intro v hv'; simp only [Option.some.injEq] at hv'; subst hv'; exact ⟨h3.2, by simp⟩)
          · rw [if_neg hb0, if_neg hb0]
            exact eolFinish_ok chr s e hb h.hver
      · rw [if_neg hc, if_neg hc]
        exact eolFinish_ok chr s e hb h.hver

theorem handleEol_ok (F : RLFlags) (chr : UInt8) (s : RL) (e : Bytes) (h : RLInv s) (hb : s.rb + s.p < s.buf.size) :
    FinOK e (handleEol F s chr) (handleEol F (rlExtend s e) chr) := by
  unfold handleEol
  have e1 : (rlExtend s e).hasMethod = s.hasMethod := rfl
  rw [e1]
  by_cases hm : s.hasMethod = true
  · rw [if_pos hm, if_pos hm]
    by_cases hw : F.wspInUri = true
    · rw [if_pos hw, if_pos hw]; exact eolResolveWspInUri_ok chr s e h hb
    · rw [if_neg hw, if_neg hw]; exact eolResolveStrict_ok chr s e h hb
  · rw [if_neg hm, if_neg hm]; exact FinOK.err e s _


theorem FinOK.stepOK {e : Bytes} {r rx : Step RL RLDone} (s : RL) (h : FinOK e r rx) : StepOK s r :=
  ⟨h.nofault, fun s' hs' => absurd hs' (h.noadv s')⟩

theorem errReply_ok (s : RL) (k : RLErrKind) : StepOK s (s.errReply k) := (FinOK.err #[] s k).stepOK s

theorem RLInv.setBuf {s : RL} (h : RLInv s) (buf : Bytes) (hs : buf.size = s.buf.size) (n : Nat) :
    RLInv { s with buf := buf, crSp := n } :=
  ⟨by show s.rb + s.p ≤ buf.size; rw [hs]; exact h.hp, h.hws, h.htgt, h.hver, h.hmeth, h.hnom⟩

theorem fill_gt {s : RL} {c : UInt8} (h : s.buf[s.rb + s.p]? = some c) : s.rb + s.p < s.buf.size := by
  by_cases hlt : s.rb + s.p < s.buf.size
  · exact hlt
  · rw [Array.getElem?_eq_none (by omega)] at h; cases h

theorem charStep_ok (F : RLFlags) (s : RL) (h : RLInv s) : StepOK s (charStep F s) := by
  unfold charStep
  cases hc : s.buf[s.rb + s.p]? with
  | none => exact StepOK.needMore s
  | some chr =>
    have hb := fill_gt hc
    dsimp only
    split
    · split
      · exact StepOK.needMore s
      next hne =>
        simp only [RL.fill, beq_iff_eq] at hne
        have hi : s.rb + s.p + 1 < s.buf.size := by omega
        cases hn : s.buf[s.rb + s.p + 1]? with
        | none => rw [Array.getElem?_eq_none_iff] at hn; omega
        | some nxt =>
          dsimp only
          split
          · exact (handleEol_ok F chr s #[] h hb).stepOK s
          · split
            · rw [wr_in hb]
              have h2 := processChar_ok F { s with buf := s.buf.setIfInBounds (s.rb + s.p) cSP, crSp := s.crSp + 1 } cSP
                (h.setBuf _ (by simp) _) (by simp only [Array.size_setIfInBounds]; exact hb)
              refine ⟨h2.nofault, fun s' hs' => ?_⟩
              have := h2.adv s' hs'
              simpa using this
            · split
              · exact errReply_ok s _
              · exact processChar_ok F s chr h hb
    · split
      · split
        · exact (handleEol_ok F chr s #[] h hb).stepOK s
        · exact errReply_ok s _
      · exact processChar_ok F s chr h hb

theorem charStep_ext (F : RLFlags) (s : RL) (e : Bytes) (h : RLInv s) (hnm : charStep F s ≠ .needMore) :
    charStep F (rlExtend s e) = (charStep F s).ext e := by
  unfold charStep at hnm ⊢
  have e5 : (rlExtend s e).rb = s.rb := rfl
  have e4 : (rlExtend s e).p = s.p := rfl
  have e6 : (rlExtend s e).buf = s.buf ++ e := rfl
  have e7 : (rlExtend s e).crSp = s.crSp := rfl
  rw [e4, e5, e6, e7]
  cases hc : s.buf[s.rb + s.p]? with
  | none => rw [hc] at hnm; exact absurd rfl hnm
  | some chr =>
    have hb := fill_gt hc
    rw [hc] at hnm
    rw [get_ext _ _ _ hb, hc]
    dsimp only at hnm ⊢
    by_cases hcr : (chr == cCR) = true
    · simp only [hcr, ↓reduceIte] at hnm ⊢
      by_cases hf : (s.p + 1 == s.fill) = true
      · simp only [hf, ↓reduceIte] at hnm; exact absurd rfl hnm
      · simp only [hf, ↓reduceIte] at hnm ⊢
        simp only [RL.fill, beq_iff_eq] at hf
        have hf2 : ¬ ((s.p + 1 == (rlExtend s e).fill) = true) := by
          simp only [RL.fill, beq_iff_eq, e5, e6, Array.size_append]; omega
        simp only [hf2, ↓reduceIte]
        have hi : s.rb + s.p + 1 < s.buf.size := by omega
        rw [get_ext _ _ _ hi]
        cases hn : s.buf[s.rb + s.p + 1]? with
        | none => rw [Array.getElem?_eq_none_iff] at hn; omega
        | some nxt =>
          dsimp only
          by_cases hlf : (nxt == cLF) = true
          · simp only [hlf, ↓reduceIte]; exact (handleEol_ok F chr s e h hb).ext
          · simp only [hlf, ↓reduceIte]
            by_cases h1 : F.bareCrAsSp = true
            · simp only [h1, ↓reduceIte]
              rw [wr_in hb, wr_ext hb]
              exact processChar_ext F { s with buf := s.buf.setIfInBounds (s.rb + s.p) cSP, crSp := s.crSp + 1 } cSP e
                (by simp only [Array.size_setIfInBounds]; exact hb)
            · simp only [h1, ↓reduceIte]
              by_cases h2 : (!F.bareCrKeep) = true
              · simp only [h2, ↓reduceIte]; rfl
              · simp only [h2, ↓reduceIte]; exact processChar_ext F s chr e hb
    · simp only [hcr, ↓reduceIte] at hnm ⊢
      by_cases hlf : (chr == cLF) = true
      · simp only [hlf, ↓reduceIte]
        by_cases h1 : F.bareLfAsCrlf = true
        · simp only [h1, ↓reduceIte]; exact (handleEol_ok F chr s e h hb).ext
        · simp only [h1, ↓reduceIte]; rfl
      · simp only [hlf, ↓reduceIte]; exact processChar_ext F s chr e hb


/-! ### empty lines -/
theorem RLInv.skip {s : RL} (h : RLInv s) (hp0 : s.p = 0) (k : Nat) (hk : s.rb + k ≤ s.buf.size) (n : Nat) :
    RLInv { s with rb := s.rb + k, skipped := n } := by
  refine ⟨by show s.rb + k + s.p ≤ s.buf.size; omega, h.hws, h.htgt, h.hver, h.hmeth, h.hnom⟩

theorem afterEmptyLine_ok (F : RLFlags) (s0 s : RL) (h : RLInv s) (hs : s.buf.size = s0.buf.size)
    (hp : s0.rb + s0.p < s.rb + s.p) : StepOK s0 (afterEmptyLine F s) := by
  unfold afterEmptyLine
  generalize (!F.skipUnlimited && decide ((if F.skipSeveral = true then Gen.Discipline.maxEmptyLinesSkip else 1) < s.skipped)) = c
  cases c
  · exact StepOK.mk_adv _ _ h hs hp
  · exact StepOK.done _ _

theorem afterEmptyLine_ext (F : RLFlags) (s : RL) (e : Bytes) :
    afterEmptyLine F (rlExtend s e) = (afterEmptyLine F s).ext e := by
  unfold afterEmptyLine
  have : (rlExtend s e).skipped = s.skipped := rfl
  rw [this]
  generalize (!F.skipUnlimited && decide ((if F.skipSeveral = true then Gen.Discipline.maxEmptyLinesSkip else 1) < s.skipped)) = c
  cases c <;> rfl

theorem skipStep_ok (F : RLFlags) (s : RL) (h : RLInv s) (hp0 : s.p = 0) (r : Step RL RLDone)
    (hr : skipStep F s = some r) : StepOK s r := by
  unfold skipStep at hr
  cases hc : s.buf[s.rb]? with
  | none => rw [hc] at hr; cases hr; exact StepOK.needMore s
  | some c0 =>
    rw [hc] at hr
    have hb : s.rb < s.buf.size := by
      by_cases hlt : s.rb < s.buf.size
      · exact hlt
      · rw [Array.getElem?_eq_none (by omega)] at hc; cases hc
    dsimp only at hr
    by_cases hcr : (c0 == cCR) = true
    · simp only [hcr, ↓reduceIte, Bool.false_eq_true] at hr
      by_cases hf : (s.fill == 1) = true
      · simp only [hf, ↓reduceIte, Bool.false_eq_true] at hr; cases hr; exact StepOK.needMore s
      · simp only [hf, ↓reduceIte, Bool.false_eq_true] at hr
        simp only [RL.fill, beq_iff_eq] at hf
        cases hn : s.buf[s.rb + 1]? with
        | none => rw [Array.getElem?_eq_none_iff] at hn; omega
        | some c1 =>
          rw [hn] at hr
          dsimp only at hr
          by_cases hlf : (c1 == cLF) = true
          · simp only [hlf, ↓reduceIte, Bool.false_eq_true, Option.some.injEq] at hr
            subst hr
            exact afterEmptyLine_ok F s _ (h.skip hp0 2 (by omega) _) rfl (by show s.rb + s.p < s.rb + 2 + s.p; omega)
          · simp only [hlf, ↓reduceIte, Bool.false_eq_true] at hr; cases hr
    · simp only [hcr, ↓reduceIte, Bool.false_eq_true] at hr
      by_cases hlf : (c0 == cLF && F.bareLfAsCrlf) = true
      · simp only [hlf, ↓reduceIte, Bool.false_eq_true, Option.some.injEq] at hr
        subst hr
        exact afterEmptyLine_ok F s _ (h.skip hp0 1 (by omega) _) rfl (by show s.rb + s.p < s.rb + 1 + s.p; omega)
      · simp only [hlf, ↓reduceIte, Bool.false_eq_true] at hr; cases hr

theorem skipStep_ext (F : RLFlags) (s : RL) (e : Bytes) :
    (∀ r, skipStep F s = some r → r ≠ .needMore → skipStep F (rlExtend s e) = some (r.ext e)) ∧
    (skipStep F s = none → skipStep F (rlExtend s e) = none) := by
  unfold skipStep
  have e5 : (rlExtend s e).rb = s.rb := rfl
  have e6 : (rlExtend s e).buf = s.buf ++ e := rfl
  have e7 : (rlExtend s e).skipped = s.skipped := rfl
  rw [e5, e6, e7]
  cases hc : s.buf[s.rb]? with
  | none =>
    constructor
    · intro r hr hn; cases hr; exact absurd rfl hn
    · intro hr; cases hr
  | some c0 =>
    have hb : s.rb < s.buf.size := by
      by_cases hlt : s.rb < s.buf.size
      · exact hlt
      · rw [Array.getElem?_eq_none (by omega)] at hc; cases hc
    rw [get_ext _ _ _ hb, hc]
    dsimp only
    by_cases hcr : (c0 == cCR) = true
    · simp only [hcr, ↓reduceIte, Bool.false_eq_true]
      by_cases hf : (s.fill == 1) = true
      · simp only [hf, ↓reduceIte, Bool.false_eq_true]
        constructor
        · intro r hr hn; cases hr; exact absurd rfl hn
        · intro hr; cases hr
      · simp only [hf, ↓reduceIte, Bool.false_eq_true]
        simp only [RL.fill, beq_iff_eq] at hf
        have hf2 : ¬ (((rlExtend s e).fill == 1) = true) := by
          simp only [RL.fill, beq_iff_eq, e5, e6, Array.size_append]; omega
        simp only [hf2, ↓reduceIte, Bool.false_eq_true]
        have hi : s.rb + 1 < s.buf.size := by omega
        rw [get_ext _ _ _ hi]
        cases hn : s.buf[s.rb + 1]? with
        | none => rw [Array.getElem?_eq_none_iff] at hn; omega
        | some c1 =>
          dsimp only
          by_cases hlf : (c1 == cLF) = true
          · simp only [hlf, ↓reduceIte, Bool.false_eq_true, Option.some.injEq]
            constructor
            · intro r hr _; subst hr
              exact afterEmptyLine_ext F { s with rb := s.rb + 2, skipped := s.skipped + 1 } e
            · intro hr; cases hr
          · simp only [hlf, ↓reduceIte, Bool.false_eq_true]
            constructor
            · intro r hr; cases hr
            · intro _; trivial
    · simp only [hcr, ↓reduceIte, Bool.false_eq_true]
      by_cases hlf : (c0 == cLF && F.bareLfAsCrlf) = true
      · simp only [hlf, ↓reduceIte, Bool.false_eq_true, Option.some.injEq]
        constructor
        · intro r hr _; subst hr
          exact afterEmptyLine_ext F { s with rb := s.rb + 1, skipped := s.skipped + 1 } e
        · intro hr; cases hr
      · simp only [hlf, ↓reduceIte, Bool.false_eq_true]
        constructor
        · intro r hr; cases hr
        · intro _; trivial

/-! ### the whole step -/
theorem rlStep_ok (F : RLFlags) (s : RL) (h : RLInv s) : StepOK s (rlStep F s) := by
  unfold rlStep
  split
  next hc =>
    simp only [Bool.and_eq_true, beq_iff_eq] at hc
    cases hs : skipStep F s with
    | some r => exact skipStep_ok F s h hc.1 r hs
    | none => exact charStep_ok F s h
  next => exact charStep_ok F s h

theorem rlStep_ext (F : RLFlags) (s : RL) (e : Bytes) (h : RLInv s) (hnm : rlStep F s ≠ .needMore) :
    rlStep F (rlExtend s e) = (rlStep F s).ext e := by
  unfold rlStep at hnm ⊢
  have e4 : (rlExtend s e).p = s.p := rfl
  rw [e4]
  by_cases hc : (s.p == 0 && F.skipEmpty) = true
  · simp only [hc, ↓reduceIte] at hnm ⊢
    have hx := skipStep_ext F s e
    cases hs : skipStep F s with
    | some r =>
      rw [hs] at hnm
      rw [hx.1 r hs hnm]
    | none =>
      rw [hs] at hnm
      rw [hx.2 hs]
      exact charStep_ext F s e h hnm
  · simp only [hc, ↓reduceIte] at hnm ⊢
    exact charStep_ext F s e h hnm

/-- `get_request_line_inner` satisfies the scanner laws -/
theorem rlLaws (F : RLFlags) : Scanner.Laws (rlScanner F) RLInv where
  decr := by
    intro s s' hi hs
    have := (rlStep_ok F s hi).adv s' hs
    have h2 := this.1.hp
    show s'.buf.size - (s'.rb + s'.p) < s.buf.size - (s.rb + s.p)
    omega
  inv_step := fun s s' hi hs => ((rlStep_ok F s hi).adv s' hs).1
  inv_ext := fun s e hi => hi.ext e
  no_fault := fun s f hi => (rlStep_ok F s hi).nofault f
  adv_ext := by
    intro s s' e hi hs
    have := rlStep_ext F s e hi (by show rlStep F s ≠ _; rw [show rlStep F s = _ from hs]; intro h; cases h)
    show rlStep F (rlExtend s e) = _
    rw [this, show rlStep F s = _ from hs]; rfl
  done_ext := by
    intro s r e hi hs
    have := rlStep_ext F s e hi (by show rlStep F s ≠ _; rw [show rlStep F s = _ from hs]; intro h; cases h)
    show rlStep F (rlExtend s e) = _
    rw [this, show rlStep F s = _ from hs]; rfl
  ext_nil := by intro s; show { s with buf := s.buf ++ #[] } = s; simp
  ext_ext := by intro s a b; show ({ s with buf := s.buf ++ a ++ b } : RL) = { s with buf := s.buf ++ (a ++ b) }; rw [Array.append_assoc]
  extR_extR := by
    intro r a b
    cases r with
    | err x => rfl
    | ok l => show RLDone.ok { l with buf := l.buf ++ a ++ b } = RLDone.ok { l with buf := l.buf ++ (a ++ b) }; rw [Array.append_assoc]

end Mhd.Req
