/-
  C17 proofs: `MHD_str_remove_token_caseless_` never reads beyond `str_len` /
  `token_len`, never writes beyond `*buf_size`, terminates, and reports a size
  within the buffer — for every input and **any** token, also an illegal one.
  (For legal tokens the exact output is proved in `StrRmMain.lean`.)
-/
import Mhd.Proofs.StrPct

namespace Mhd.Str

/-! ### `while ((pos < len) && p (s[pos])) pos++;` -/

def skipNStep (s : Bytes) (p : UInt8 → Bool) : Nat → M (Nat ⊕ Nat) := fun i => do
  if i < s.length then
    let c ← rd s i
    if p c then return .inl (i + 1) else return .inr i
  else return .inr i

theorem skipN_unfold (s : Bytes) (p : UInt8 → Bool) (i : Nat) :
    skipN s p i = iter (skipNStep s p) (s.length + 1) i := rfl

/-- `skipN` stays inside the string and stops at its end or at a character not satisfying `p` -/
theorem skipN_spec (s : Bytes) (p : UInt8 → Bool) (i : Nat) (hi : i ≤ s.length) :
    ∃ j, skipN s p i = .ok j ∧ i ≤ j ∧ j ≤ s.length ∧ (∀ h : j < s.length, p s[j] = false) := by
  rw [skipN_unfold]
  exact iter_spec (skipNStep s p) (fun k => i ≤ k ∧ k ≤ s.length) (fun k => s.length - k)
    (fun j => i ≤ j ∧ j ≤ s.length ∧ (∀ h : j < s.length, p s[j] = false))
    (by
      intro k ⟨hik, hk⟩
      unfold skipNStep
      by_cases hlt : k < s.length
      · simp only [hlt, if_true, rd_lt hlt, bind_ok']
        by_cases hp : p s[k] = true
        · left; simp only [hp, if_true, pure_eq_ok]
          exact ⟨_, rfl, ⟨by omega, by omega⟩, by omega⟩
        · right; simp only [hp, if_false, pure_eq_ok, Bool.false_eq_true]
          exact ⟨_, rfl, hik, hk, fun _ => by simpa using hp⟩
      · right; simp only [hlt, if_false, pure_eq_ok]
        exact ⟨_, rfl, hik, hk, fun h => absurd h hlt⟩)
    (s.length + 1) i ⟨Nat.le_refl _, hi⟩ (by omega)

/-! ### `memcpy` -/

theorem copyBytes_ok (src : Bytes) (r : Nat) (dst : Bytes) (w n : Nat)
    (hr : r + n ≤ src.length) (hw : w + n ≤ dst.length) :
    ∃ d, copyBytes src r dst w n = .ok d ∧ d.length = dst.length := by
  induction n with
  | zero => exact ⟨dst, by simp [copyBytes], rfl⟩
  | succ n ih =>
    obtain ⟨d, hd, hl⟩ := ih (by omega) (by omega)
    have h1 : r + n < src.length := by omega
    have h2 : w + n < d.length := by omega
    refine ⟨d.set (w + n) src[r + n], ?_, by simp [hl]⟩
    unfold copyBytes at hd ⊢
    rw [List.range_succ, List.foldlM_append, hd]
    simp [List.foldlM, rd_lt h1, wr_ok _ h2]

/-! ### the loops of `MHD_str_remove_token_caseless_` -/

/-- positions inside the input, write position inside the buffer, buffer size unchanged -/
def RmBnd (str : Bytes) (L : Nat) (st : RmSt) : Prop :=
  st.s1 ≤ str.length ∧ st.w ≤ L ∧ st.out.length = L

theorem rmMatch_spec (str token : Bytes) (s : Nat) (hs : s ≤ str.length) :
    ∃ k, iter (rmMatchStep str token) (str.length + 1) (s, 0) = .ok (s + k, k) ∧
      s + k ≤ str.length ∧ k ≤ token.length := by
  obtain ⟨⟨a, b⟩, hr, hp⟩ := iter_spec (rmMatchStep str token)
    (fun st => st.1 = s + st.2 ∧ st.1 ≤ str.length ∧ st.2 ≤ token.length) (fun st => str.length - st.1)
    (fun st => st.1 = s + st.2 ∧ st.1 ≤ str.length ∧ st.2 ≤ token.length)
    (by
      intro st ⟨h1, h2, h3⟩
      unfold rmMatchStep
      by_cases hc : st.1 < str.length ∧ token.length > st.2
      · simp only [hc, and_self, if_true, rd_lt hc.1, rd_lt hc.2, bind_ok']
        by_cases he : charsEqualCaseless str[st.1] token[st.2] = true
        · left; simp only [he, if_true, pure_eq_ok]
          exact ⟨_, rfl, ⟨by simp; omega, by simp; omega, by simp; omega⟩, by simp; omega⟩
        · right; simp only [he, if_false, pure_eq_ok, Bool.false_eq_true]
          exact ⟨_, rfl, h1, h2, h3⟩
      · right; simp only [hc, if_false, pure_eq_ok]
        exact ⟨_, rfl, h1, h2, h3⟩)
    (str.length + 1) (s, 0) ⟨by simp, hs, by simp⟩ (by simp; omega)
  simp only at hp
  obtain ⟨h1, h2, h3⟩ := hp
  exact ⟨b, by rw [hr, h1], by omega, h3⟩

def isWordChar (c : UInt8) : Prop := c ≠ 0x2c ∧ c ≠ 0x20 ∧ c ≠ 0x09

/-- result of the "copy one word" loop: buffer full, or a state within bounds that
    did not move backwards and stands at the end or at a comma/space/tab -/
def WordPost (str : Bytes) (L : Nat) (s0 : Nat) : Option RmSt → Prop
  | none => True
  | some st' => RmBnd str L st' ∧ s0 ≤ st'.s1 ∧ (∀ h : st'.s1 < str.length, ¬ isWordChar str[st'.s1])

theorem rmCopyWord_spec (str : Bytes) (L : Nat) (st : RmSt) (hb : RmBnd str L st) :
    ∃ r, iter (rmCopyWordStep str) (str.length + 1) st = .ok r ∧ WordPost str L st.s1 r := by
  exact iter_spec (rmCopyWordStep str) (fun s => RmBnd str L s ∧ st.s1 ≤ s.s1) (fun s => str.length - s.s1)
    (WordPost str L st.s1)
    (by
      intro s ⟨⟨h1, h2, h3⟩, h4⟩
      unfold rmCopyWordStep
      by_cases hlt : s.s1 < str.length
      · simp only [hlt, if_true, rd_lt hlt, bind_ok']
        by_cases hc : str[s.s1] ≠ 0x2c ∧ str[s.s1] ≠ 0x20 ∧ str[s.s1] ≠ 0x09
        · simp only [hc, ne_eq, not_false_eq_true, and_self, if_true]
          by_cases hfull : s.out.length ≤ s.w
          · right; simp only [hfull, if_true, pure_eq_ok]; exact ⟨none, rfl, trivial⟩
          · left
            have hw : s.w < s.out.length := by omega
            simp only [hfull, if_false, wr_ok _ hw, bind_ok', pure_eq_ok]
            exact ⟨_, rfl, ⟨⟨by simp; omega, by simp; omega, by simp [h3]⟩, by simp; omega⟩, by simp; omega⟩
        · right
          simp only [hc, if_false, pure_eq_ok]
          exact ⟨some s, rfl, ⟨h1, h2, h3⟩, h4, fun _ => hc⟩
      · right
        simp only [hlt, if_false, pure_eq_ok]
        exact ⟨some s, rfl, ⟨h1, h2, h3⟩, h4, fun h => absurd h hlt⟩)
    (str.length + 1) st ⟨hb, Nat.le_refl _⟩ (by omega)

theorem isWs_iff (c : UInt8) : isWs c = true ↔ c = 0x20 ∨ c = 0x09 := by
  simp [isWs]

/-- result of the "copy the rest of the element" loop -/
def RestPost (str : Bytes) (L : Nat) (s0 : Nat) : Option RmSt → Prop
  | none => True
  | some st' => RmBnd str L st' ∧ s0 ≤ st'.s1 ∧ (∀ h : st'.s1 < str.length, str[st'.s1] = 0x2c)

theorem rmCopyRest_spec (str : Bytes) (L : Nat) (st : RmSt) (hb : RmBnd str L st) :
    ∃ r, iter (rmCopyRestStep str) (str.length + 1) st = .ok r ∧ RestPost str L st.s1 r := by
  exact iter_spec (rmCopyRestStep str) (fun s => RmBnd str L s ∧ st.s1 ≤ s.s1) (fun s => str.length - s.s1)
    (RestPost str L st.s1)
    (by
      intro s ⟨hbs, h4⟩
      obtain ⟨h1, h2, h3⟩ := hbs
      unfold rmCopyRestStep
      by_cases hgo : s.s1 < str.length ∧ str[s.s1]! ≠ 0x2c
      · obtain ⟨hlt, hnc⟩ := hgo
        rw [getElem!_pos str s.s1 hlt] at hnc
        have hgo' : (str[s.s1] != 0x2c) = true := by simp [hnc]
        simp only [hlt, if_true, rd_lt hlt, bind_ok', pure_eq_ok, hgo']
        obtain ⟨r, hr, hp⟩ := rmCopyWord_spec str L s ⟨h1, h2, h3⟩
        rw [hr]
        cases r with
        | none => right; exact ⟨none, rfl, trivial⟩
        | some s2 =>
          obtain ⟨⟨g1, g2, g3⟩, g4, g5⟩ := hp
          obtain ⟨j, hj, hj1, hj2, hj3⟩ := skipN_spec str isWs s2.s1 g1
          simp only [bind_ok', hj]
          -- progress: the word loop or the whitespace skip moved forward
          have hprog : s.s1 < j := by
            by_cases h : s.s1 < s2.s1
            · omega
            · have he : s2.s1 = s.s1 := by omega
              have hws : isWs str[s.s1] = true := by
                have := g5 (by omega)
                rw [isWs_iff]
                simp only [isWordChar, he] at this
                by_cases ha : str[s.s1] = 0x20
                · exact Or.inl ha
                · by_cases hb' : str[s.s1] = 0x09
                  · exact Or.inr hb'
                  · exact absurd ⟨hnc, ha, hb'⟩ this
              by_cases hjs : j = s.s1
              · have := hj3 (by omega)
                simp only [hjs] at this
                rw [this] at hws; simp at hws
              · omega
          by_cases hmore : j < str.length ∧ str[j]! ≠ 0x2c
          · obtain ⟨hjl, hjc⟩ := hmore
            rw [getElem!_pos str j hjl] at hjc
            have hm' : (str[j] != 0x2c) = true := by simp [hjc]
            simp only [hjl, if_true, rd_lt hjl, bind_ok', pure_eq_ok, hm']
            by_cases hfull : s2.out.length ≤ s2.w
            · right; simp only [hfull, if_true]; exact ⟨none, rfl, trivial⟩
            · left
              have hw : s2.w < s2.out.length := by omega
              simp only [hfull, if_false, wr_ok _ hw, bind_ok']
              exact ⟨_, rfl, ⟨⟨by simp; omega, by simp; omega, by simp [g3]⟩, by simp; omega⟩, by simp; omega⟩
          · left
            have hm' : (if j < str.length then (do let c ← rd str j; Except.ok (c != 0x2c)) else Except.ok false : M Bool) = .ok false := by
              by_cases hjl : j < str.length
              · have : str[j] = 0x2c := by
                  by_cases hc : str[j] = 0x2c
                  · exact hc
                  · exact absurd ⟨hjl, by rw [getElem!_pos str j hjl]; exact hc⟩ hmore
                simp [hjl, rd_lt hjl, this]
              · simp [hjl]
            rw [hm']
            simp only [bind_ok', Bool.false_eq_true, if_false, pure_eq_ok]
            exact ⟨_, rfl, ⟨⟨by simp; omega, g2, g3⟩, by simp; omega⟩, by simp; omega⟩
      · right
        have hgo' : (if s.s1 < str.length then (do let c ← rd str s.s1; pure (c != 0x2c)) else pure false : M Bool) = .ok false := by
          by_cases hlt : s.s1 < str.length
          · have : str[s.s1] = 0x2c := by
              by_cases hc : str[s.s1] = 0x2c
              · exact hc
              · exact absurd ⟨hlt, by rw [getElem!_pos str s.s1 hlt]; exact hc⟩ hgo
            simp [hlt, rd_lt hlt, this]
          · simp [hlt]
        rw [hgo']
        simp only [bind_ok', Bool.false_eq_true, if_false, pure_eq_ok]
        refine ⟨some s, rfl, ⟨h1, h2, h3⟩, h4, ?_⟩
        intro hlt
        by_cases hc : str[s.s1] = 0x2c
        · exact hc
        · exact absurd ⟨hlt, by rw [getElem!_pos str s.s1 hlt]; exact hc⟩ hgo)
    (str.length + 1) st ⟨hb, Nat.le_refl _⟩ (by omega)

def OuterPost (str : Bytes) (L : Nat) : RmRes → Prop
  | .fail => True
  | .done st => RmBnd str L st

theorem isWsComma_false_iff (c : UInt8) : isWsComma c = false ↔ c ≠ 0x20 ∧ c ≠ 0x09 ∧ c ≠ 0x2c := by
  simp [isWsComma, and_assoc]

theorem rmOuter_step (str token : Bytes) (L : Nat) (st : RmSt) (hb : RmBnd str L st) :
    (∃ s', rmOuterStep str token st = .ok (.inl s') ∧ RmBnd str L s' ∧ str.length - s'.s1 < str.length - st.s1) ∨
    (∃ r, rmOuterStep str token st = .ok (.inr r) ∧ OuterPost str L r) := by
  obtain ⟨h1, h2, h3⟩ := hb
  unfold rmOuterStep
  by_cases hlt : st.s1 < str.length
  · simp only [hlt, if_true]
    obtain ⟨cur, hcur, hc1, hc2, hc3⟩ := skipN_spec str isWsComma st.s1 h1
    simp only [hcur, bind_ok']
    by_cases hend : cur ≥ str.length
    · right
      simp only [hend, if_true, pure_eq_ok]
      exact ⟨_, rfl, by simp [OuterPost, RmBnd]; omega, h2, h3⟩
    · have hcl : cur < str.length := by omega
      have hcw := (isWsComma_false_iff _).mp (hc3 hcl)
      simp only [hend, if_false]
      obtain ⟨k, hk, hk1, hk2⟩ := rmMatch_spec str token cur hc2
      simp only [hk, bind_ok']
      -- the "full match?" block yields either (s1', true) with s1' past the token, or (cur + k, false)
      have hfullblock : ∃ s1 full,
          (if k = token.length ∧ token.length ≠ 0 then (do
              let s1' ← skipN str isWs (cur + k)
              let isEnd ← (if s1' = str.length then pure true else do
                              let c ← rd str s1'
                              pure (c == 0x2c) : M Bool)
              if isEnd then pure (s1', true) else pure (cur + k, false))
           else pure (cur + k, false) : M (Nat × Bool)) = .ok (s1, full) ∧
          ((full = true ∧ cur < s1 ∧ s1 ≤ str.length) ∨ (full = false ∧ s1 = cur + k)) := by
        by_cases hm : k = token.length ∧ token.length ≠ 0
        · simp only [hm, ne_eq, not_false_eq_true, and_self, if_true]
          obtain ⟨j, hj, hj1, hj2, _⟩ := skipN_spec str isWs (cur + k) hk1
          rw [hm.1] at hj
          simp only [hj, bind_ok']
          by_cases hje : j = str.length
          · simp only [hje, if_true, pure_eq_ok, bind_ok']
            exact ⟨_, _, rfl, Or.inl ⟨rfl, by omega, by omega⟩⟩
          · have hjl : j < str.length := by omega
            simp only [hje, if_false, rd_lt hjl, bind_ok', pure_eq_ok]
            by_cases hcm : (str[j] == 0x2c) = true
            · simp only [hcm, if_true]
              exact ⟨_, _, rfl, Or.inl ⟨rfl, by omega, by omega⟩⟩
            · simp only [hcm, if_false, Bool.false_eq_true]
              exact ⟨_, _, rfl, Or.inr ⟨rfl, by omega⟩⟩
        · simp only [hm, if_false, pure_eq_ok]
          exact ⟨_, _, rfl, Or.inr ⟨rfl, rfl⟩⟩
      obtain ⟨s1, full, hfb, hcase⟩ := hfullblock
      simp only [hfb, bind_ok']
      rcases hcase with ⟨hf, hf1, hf2⟩ | ⟨hf, hs1⟩
      · left
        subst hf
        simp only [if_true, pure_eq_ok]
        exact ⟨_, rfl, ⟨hf2, h2, h3⟩, by simp; omega⟩
      · subst hf
        subst hs1
        simp only [Bool.false_eq_true, if_false, Nat.add_sub_cancel_left]
        -- space check and separator
        have hsep : (∃ w o, (if st.w = 0 then
               if st.out.length < k then (pure none : M (Option (Nat × Bytes))) else pure (some (st.w, st.out))
             else
               if st.out.length < st.w + k + 2 then pure none
               else do
                 let o ← wr st.out st.w 0x2c
                 let o ← wr o (st.w + 1) 0x20
                 pure (some (st.w + 2, o))) = .ok (some (w, o)) ∧ w + k ≤ L ∧ o.length = L) ∨
            ((if st.w = 0 then
               if st.out.length < k then (pure none : M (Option (Nat × Bytes))) else pure (some (st.w, st.out))
             else
               if st.out.length < st.w + k + 2 then pure none
               else do
                 let o ← wr st.out st.w 0x2c
                 let o ← wr o (st.w + 1) 0x20
                 pure (some (st.w + 2, o))) = .ok none) := by
          by_cases hw0 : st.w = 0
          · simp only [hw0, if_true]
            by_cases hsz : st.out.length < k
            · right; simp [hsz]
            · left; simp only [hsz, if_false, pure_eq_ok]
              exact ⟨_, _, rfl, by omega, h3⟩
          · simp only [hw0, if_false]
            by_cases hsz : st.out.length < st.w + k + 2
            · right; simp [hsz]
            · left
              have hw1 : st.w < st.out.length := by omega
              have hw2 : st.w + 1 < (st.out.set st.w 0x2c).length := by simp; omega
              simp only [hsz, if_false, wr_ok _ hw1, wr_ok _ hw2, bind_ok', pure_eq_ok]
              exact ⟨_, _, rfl, by omega, by simp [h3]⟩
        rcases hsep with ⟨w, o, hso, hwk, hol⟩ | hsn
        · simp only [hso, bind_ok']
          -- memcpy of the matched prefix
          obtain ⟨o2, ho2, hol2⟩ : ∃ o2, (if k ≠ 0 then copyBytes str cur o w k else pure o : M Bytes) = .ok o2 ∧ o2.length = L := by
            by_cases hk0 : k ≠ 0
            · simp only [hk0, ne_eq, not_false_eq_true, if_true]
              obtain ⟨d, hd, hdl⟩ := copyBytes_ok str cur o w k hk1 (by omega)
              exact ⟨d, hd, by omega⟩
            · simp only [hk0, if_false, pure_eq_ok]
              exact ⟨o, rfl, hol⟩
          simp only [ho2, bind_ok']
          obtain ⟨r, hr, hp⟩ := rmCopyRest_spec str L ⟨cur + k, w + k, o2, st.removed⟩ ⟨hk1, hwk, hol2⟩
          simp only [hr, bind_ok']
          cases r with
          | none => right; exact ⟨.fail, rfl, trivial⟩
          | some st2 =>
            left
            obtain ⟨hb2, hge, hex⟩ := hp
            simp only at hge hex
            refine ⟨st2, rfl, hb2, ?_⟩
            -- progress: k > 0, or the rest loop moved off the non-comma character at `cur`
            have : cur < st2.s1 := by
              by_cases hk0 : k = 0
              · by_cases he : st2.s1 = cur
                · have := hex (by omega)
                  simp only [he] at this
                  exact absurd this hcw.2.2
                · omega
              · omega
            omega
        · right
          rw [hsn]
          exact ⟨.fail, rfl, trivial⟩
  · right
    simp only [hlt, if_false, pure_eq_ok]
    exact ⟨_, rfl, h1, h2, h3⟩

/-- `MHD_str_remove_token_caseless_`: for every string, token and buffer the call
    returns normally (no read beyond `str_len`/`token_len`, no write beyond
    `*buf_size`, terminates), leaves the buffer size unchanged and reports either -1
    or a size within the buffer. -/
theorem removeTokenCaseless_safe (str token out : Bytes) :
    ∃ r n o, removeTokenCaseless str token out = .ok (r, n, o) ∧ o.length = out.length ∧
      (n = -1 ∨ (0 ≤ n ∧ n ≤ (out.length : Int))) := by
  unfold removeTokenCaseless
  by_cases hbig : Mhd.Gen.Str.ssizeMax ≤ ((str.length / 2) * 3 + 3) % 2 ^ 64
  · simp only [hbig, if_true, pure_eq_ok]
    exact ⟨_, _, _, rfl, rfl, Or.inl rfl⟩
  · simp only [hbig, if_false, bind_ok']
    obtain ⟨r, hr, hp⟩ := iter_spec (rmOuterStep str token) (RmBnd str out.length) (fun st => str.length - st.s1)
      (OuterPost str out.length) (rmOuter_step str token out.length) (str.length + 1) ⟨0, 0, out, false⟩
      ⟨by simp, by simp, rfl⟩ (by simp)
    simp only [hr, bind_ok']
    cases r with
    | fail => exact ⟨_, _, _, rfl, rfl, Or.inl rfl⟩
    | done st =>
      obtain ⟨_, h2, h3⟩ := hp
      exact ⟨_, _, _, rfl, h3, Or.inr ⟨by omega, by omega⟩⟩

end Mhd.Str
