import Mhd.Proofs.ReplyClose
set_option linter.unusedSimpArgs false
set_option linter.unusedVariables false
namespace Mhd.Reply
open Mhd.ReplyStr Mhd.Resp
open Mhd.Gen.Reply (sizeUnknown)

/-- what the daemon itself puts into the extra header of an error reply ("Location" + the repaired request
    target): a non-empty name without TAB / SP / CR / LF / colon that is none of the four managed names, a
    non-empty value without CR / LF -/
structure ErrHdrOK (n v : Bytes) : Prop where
  nameNe : n ≠ []
  valNe : v ≠ []
  nameClean : (n.contains 9 || n.contains 32 || n.contains 13 || n.contains 10) = false
  noColon : ∀ b ∈ n, b ≠ 58
  valClean : (v.contains 13 || v.contains 10) = false
  notConn : strEqCaseless n sConnection = false
  notTE : strEqCaseless n sTransferEncoding = false
  notDate : strEqCaseless n sDate = false
  notCL : strEqCaseless n sContentLength = false

/-- the unchecked entry is exactly what `MHD_add_response_header` would have accepted -/
theorem errorResponse_eq_add (len : Nat) (n v : Bytes) (h : ErrHdrOK n v) :
    errorResponse len (some (n, v)) = (applyCall (Resp.create len) (.add n v)).2 := by
  have hn : n.isEmpty = false := by cases n with | nil => exact absurd rfl h.nameNe | cons _ _ => rfl
  have hv : v.isEmpty = false := by cases v with | nil => exact absurd rfl h.valNe | cons _ _ => rfl
  simp only [applyCall, addHeader, h.notConn, h.notTE, h.notDate, h.notCL, Bool.false_eq_true, if_false,
    addEntry, hn, hv, h.nameClean, h.valClean]
  rfl

theorem errorResponse_reachable (len : Nat) (hdr : Option (Bytes × Bytes))
    (hh : ∀ n v, hdr = some (n, v) → ErrHdrOK n v) :
    ∃ cs : List Call, (∀ c ∈ cs, c.Legal) ∧ errorResponse len hdr = runCalls (Resp.create len) cs := by
  cases hdr with
  | none =>
    refine ⟨[], ?_, rfl⟩
    intro c hc; cases hc
  | some p =>
    obtain ⟨n, v⟩ := p
    have h := hh n v rfl
    refine ⟨[.add n v], ?_, ?_⟩
    · intro c hc
      simp only [List.mem_singleton] at hc
      subst hc
      exact ⟨h.noColon, fun hcl => by rw [h.notCL] at hcl; cases hcl⟩
    · rw [errorResponse_eq_add len n v h]; rfl

theorem errorResponse_props (len : Nat) (hdr : Option (Bytes × Bytes)) :
    (errorResponse len hdr).totalSize = len ∧ (errorResponse len hdr).upgrade = false := by
  cases hdr with
  | none => exact ⟨rfl, rfl⟩
  | some p => obtain ⟨n, v⟩ := p; exact ⟨rfl, rfl⟩

theorem setup_mustClose (c : Conn) (r : Resp) (code : Nat) (hk : c.keepalive = .mustClose) (hu : r.upgrade = false) :
    (setupReplyProperties c r code).1 = .mustClose := by
  have : keepalivePossible c r = .mustClose := by unfold keepalivePossible; simp [hk, hu]
  unfold setupReplyProperties
  simp only [this]
  split
  · simp
  · rfl

theorem transmitError_cases (c : Conn) (swe late shut : Bool) (code0 : Nat) (msg : Bytes) (hdr : Option (Bytes × Bytes))
    (date : Option Bytes) (wb1 wb2 : Nat) (out : ReplyOut)
    (h : transmitErrorResponse c swe late shut code0 msg hdr date wb1 wb2 = .reply out) :
    ∃ q wb, (wb = wb1 ∨ wb = wb2) ∧ shut = false ∧
      queueResponse { c with discardRequest := true } .fullReqReceived false false false code0
        (errorResponse msg.length hdr) = some q ∧
      out = sendReply { c with discardRequest := true, keepalive := .mustClose } (errorResponse msg.length hdr) q
              (.buffer msg) date wb (startPosAfterQueue q (errorResponse msg.length hdr) 0) ∧
      (buildHeaderResponse { c with discardRequest := true, keepalive := .mustClose } (errorResponse msg.length hdr)
        q.code q.icy date wb).2.2.isNone = false := by
  unfold transmitErrorResponse at h
  split at h
  · cases h
  · split at h
    · cases h
    · simp only at h
      cases hs : shut with
      | true =>
        rw [hs] at h
        have : ∀ cc st cd rr, queueResponse cc st false true false cd rr = none := by
          intro cc st cd rr; unfold queueResponse; simp
        rw [this] at h; cases h
      | false =>
        rw [hs] at h
        cases hq : queueResponse { c with discardRequest := true } .fullReqReceived false false false code0
            (errorResponse msg.length hdr) with
        | none => rw [hq] at h; cases h
        | some q =>
          rw [hq] at h
          simp only at h
          have hwbc : ∀ (a : Bool), (if a = true then wb1 else wb2) = wb1 ∨ (if a = true then wb1 else wb2) = wb2 := by
            intro a; cases a <;> simp
          generalize hwb : (if (buildHeaderResponse { c with discardRequest := true, keepalive := .mustClose }
            (errorResponse msg.length hdr) q.code q.icy date wb1).2.2.isSome = true then wb1 else wb2) = wb at h
          have hw : wb = wb1 ∨ wb = wb2 := by rw [← hwb]; exact hwbc _
          by_cases hn : (buildHeaderResponse { c with discardRequest := true, keepalive := .mustClose }
            (errorResponse msg.length hdr) q.code q.icy date wb).2.2.isNone = true
          · rw [if_pos hn] at h; cases h
          · rw [if_neg hn] at h
            simp only [ErrResult.reply.injEq] at h
            exact ⟨q, wb, hw, rfl, rfl, h.symm, Bool.eq_false_iff.2 hn⟩

theorem errorResponse_notChunked (c : Conn) (len : Nat) (hdr : Option (Bytes × Bytes)) (code : Nat)
    (hlen : len ≠ sizeUnknown) (hh : ∀ n v, hdr = some (n, v) → ErrHdrOK n v) :
    (setupReplyProperties c (errorResponse len hdr) code).2.chunked = false := by
  cases hx : (setupReplyProperties c (errorResponse len hdr) code).2.chunked with
  | false => rfl
  | true =>
    exfalso
    rcases ((setup_props c (errorResponse len hdr) code).2.2.1 hx).2.2 with h | h
    · rw [(errorResponse_props len hdr).1] at h; exact hlen h
    · cases hdr with
      | none => cases h
      | some p => obtain ⟨n, v⟩ := p; cases h

/-- an error reply whose header block fitted is always sent completely (static buffer, never chunked) -/
theorem errorReply_complete (c : Conn) (msg : Bytes) (hdr : Option (Bytes × Bytes)) (q : Queued) (date : Option Bytes)
    (wb : Nat) (hlen : msg.length ≠ sizeUnknown) (hh : ∀ n v, hdr = some (n, v) → ErrHdrOK n v)
    (hfit : (buildHeaderResponse c (errorResponse msg.length hdr) q.code q.icy date wb).2.2.isNone = false) :
    (sendReply c (errorResponse msg.length hdr) q (.buffer msg) date wb
      (startPosAfterQueue q (errorResponse msg.length hdr) 0)).complete = true := by
  have hnc := errorResponse_notChunked c msg.length hdr q.code hlen hh
  obtain ⟨hts, hup⟩ := errorResponse_props msg.length hdr
  cases hb : (buildHeaderResponse c (errorResponse msg.length hdr) q.code q.icy date wb).2.2 with
  | none => rw [hb] at hfit; cases hfit
  | some hd =>
    obtain ⟨_, e2, _⟩ := buildHeader_eq c _ q.code q.icy date wb hd hb
    unfold sendReply
    rcases hx : buildHeaderResponse c (errorResponse msg.length hdr) q.code q.icy date wb with ⟨ka, props, hdr'⟩
    rw [hx] at hb e2
    simp only at hb e2
    subst hb
    simp only [hup, Bool.false_eq_true, if_false]
    split
    · rfl
    · rw [e2, hnc]
      simp only [Bool.false_eq_true, if_false]
      unfold normalBody startPosAfterQueue
      rw [hts]
      by_cases h0 : msg.length = 0
      · simp [h0]
      · have : (msg.length == 0) = false := by simpa using h0
        simp only [this, Bool.false_eq_true, if_false]
        cases q.bodyPretendSent
        · have h1 : ((0 : Nat) == msg.length) = false := by simp; omega
          have h2 : 0 < msg.length := by omega
          simp [h1, h2]
        · simp
end Mhd.Reply
