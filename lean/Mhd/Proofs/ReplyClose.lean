import Mhd.Proofs.ReplyTokRms
set_option linter.unusedSimpArgs false
set_option linter.unusedVariables false
namespace Mhd.Tok
open Mhd.ReplyStr Mhd.Resp
open Mhd.Http (splitComma trimOWS ciEq hasToken isOWS vClose lower)

open Mhd.Reply in
/-- with anything but MUST_CLOSE decided and no close token stored, no Connection field of the header block has a close token -/
theorem no_close_in_fields' (c : Conn) (r : Resp) (date : Option Bytes) (ka : KA) (props : Props) (hinv : Inv r) (hct : ConnTok r)
    (hcc : r.fa.connClose = false) (huc : useConnClose ka = false) :
    Mhd.Http.announcesClose (((allFields c r date ka props).map toHttp).map Mhd.Http.normField) = false := by
  unfold Mhd.Http.announcesClose
  rw [List.any_eq_false]
  intro f hf
  simp only [List.mem_map] at hf
  obtain ⟨g, ⟨g0, hg0, rfl⟩, rfl⟩ := hf
  simp only [Mhd.Http.normField, toHttp]
  by_cases hn : ciEq g0.name Mhd.Http.nConnection = true
  · simp only [hn, Bool.true_and, hasToken_dropOWS]
    have hnm : nameIs g0.name sConnection = true := by
      rw [Mhd.Bridge.nameIs_iff g0.name _ _ lower_sConn]; exact hn
    unfold allFields at hg0
    simp only [List.mem_append] at hg0
    intro hht
    rcases hg0 with ((hg | hg) | hg) | hg
    · unfold dateFields at hg
      split at hg
      · cases date with
        | none => simp at hg
        | some d => simp at hg; subst hg; rw [nameIs_date_conn] at hnm; cases hnm
      · simp at hg
    · unfold connFields at hg
      split at hg
      · simp only [huc, Bool.false_eq_true, if_false] at hg
        split at hg
        · simp at hg; subst hg
          have : hasToken sKeepAlive vClose = false := by decide
          rw [this] at hht; cases hht
        · simp at hg
      · simp at hg
    · obtain ⟨h1, h2⟩ := userFields_unfold c r ka props hinv
      by_cases hc : r.fa.connHdr = true
      · obtain ⟨v, rest, st, hh, hu, ha, hb⟩ := h1 hc
        obtain ⟨_, _, _, hc0, _, _⟩ := conn_shape r hinv hc
        rw [hu] at hg
        rcases List.mem_cons.1 hg with rfl | hg'
        · -- the stored Connection header, possibly with "Keep-Alive, " in front
          obtain ⟨es, hes, hok, hsh⟩ := hct v (connVal_of_shape r v rest hh)
          rw [hcc] at hsh; simp only [Bool.false_eq_true, if_false] at hsh
          have hv0 : hasToken v vClose = false := by
            rw [hes, hasToken_joinE es vClose (by decide) hok, List.any_eq_false]
            intro e he; simp [hsh e he]
          simp only [huc, Bool.false_and, Bool.false_eq_true, if_false] at hht
          split at hht
          · have : sKeepAliveSep ++ v = sKeepAlive ++ 44 :: (32 :: v) := by simp [sKeepAliveSep, sKeepAlive]
            rw [this, hasToken_prefix_elem _ _ _ (by decide), hasToken_ws_cons 32 v _ (by decide), hv0] at hht
            revert hht; decide
          · simp only [List.nil_append] at hht
            rw [hv0] at hht; cases hht
        · obtain ⟨h, hm, hk, he⟩ := userLoop_verbatim rest st ha hb g0 hg'
          have : isHdr sConnection h = true := by
            rw [isHdr_of, hk]; subst he; simpa using hnm
          have hrest : r.hdrs = ⟨.header, sConnection, v⟩ :: rest := hh
          have hcz : cnt sConnection rest = 0 := by
            have hcn := hinv.conn
            simp only [hc, if_true] at hcn
            obtain ⟨v', rest', e1, e2, _⟩ := hcn
            rw [hh] at e1; simp at e1; rw [e1.2]; exact e2
          rw [cnt_zero_of_mem _ _ hcz h hm] at this; cases this
      · have hc' : r.fa.connHdr = false := by simpa using hc
        obtain ⟨st, hu, ha, hb⟩ := h2 hc'
        rw [hu] at hg
        obtain ⟨h, hm, hk, he⟩ := userLoop_verbatim r.hdrs st ha hb g0 hg
        have : isHdr sConnection h = true := by
          rw [isHdr_of, hk]; subst he; simpa using hnm
        have hcn := hinv.conn
        simp only [hc'] at hcn
        rw [cnt_zero_of_mem _ _ hcn.1 h hm] at this; cases this
    · unfold bodyFields at hg
      split at hg
      · split at hg
        · split at hg
          · simp at hg; subst hg; rw [nameIs_te_conn] at hnm; cases hnm
          · simp at hg
        · split at hg
          · split at hg
            · simp at hg; subst hg; rw [nameIs_cl_conn] at hnm; cases hnm
            · simp at hg
          · simp at hg
      · simp at hg
  · simp [hn]

/-! ### reachable response objects -/

theorem connTok_create (size : Nat) : ConnTok (Resp.create size) := connTok_of_nil _ rfl
theorem connTok_createEmpty (f : RFlags) : ConnTok (Resp.createEmpty f) := connTok_of_nil _ rfl
theorem connTok_createUpgrade : ConnTok Resp.createUpgrade := by
  have hb : Inv ({ totalSize := 0, upgrade := true } : Resp) := inv_of_nil _ rfl rfl rfl (by intro h; cases h)
  exact applyCall_connTok editorSpecs _ (.add sConnection [85, 112, 103, 114, 97, 100, 101]) hb (connTok_of_nil _ rfl)

/-- the token-level invariant holds for every response object an application can build -/
theorem reachable_connTok (r0 : Resp) (cs : List Call)
    (h0 : (∃ size, r0 = Resp.create size) ∨ (∃ f, f.insanity = false ∧ r0 = Resp.createEmpty f) ∨ r0 = Resp.createUpgrade)
    (hl : ∀ c ∈ cs, c.Legal) : ConnTok (runCalls r0 cs) := by
  rcases h0 with ⟨s, rfl⟩ | ⟨f, hf, rfl⟩ | rfl
  · exact runCalls_connTok editorSpecs cs _ (create_inv s) (connTok_create s) hl
  · exact runCalls_connTok editorSpecs cs _ (createEmpty_inv f hf) (connTok_createEmpty f) hl
  · exact runCalls_connTok editorSpecs cs _ createUpgrade_inv connTok_createUpgrade hl

open Mhd.Reply in
/-- MUST_CLOSE is decided whenever the response object carries the close flag -/
theorem mustClose_of_connClose (c : Conn) (r : Resp) (code : Nat) (hinv : Inv r) (hcc : r.fa.connClose = true) :
    (setupReplyProperties c r code).1 = .mustClose := by
  have hu : r.upgrade = false := by
    cases hx : r.upgrade with
    | false => rfl
    | true => have := hinv.upg hx; rw [this] at hcc; cases hcc
  rcases ka_cases c r code hu with h | ⟨_, _, _, h⟩
  · exact h
  · rw [h] at hcc; cases hcc

open Mhd.Reply in
/-- the header block announces `close` exactly when the reply properties say MUST_CLOSE -/
theorem announces_iff_mustClose (c : Conn) (r : Resp) (date : Option Bytes) (code : Nat) (hinv : Inv r) (hct : ConnTok r) :
    Mhd.Http.announcesClose (((allFields c r date (setupReplyProperties c r code).1
        (setupReplyProperties c r code).2).map toHttp).map Mhd.Http.normField) = true ↔
      (setupReplyProperties c r code).1 = .mustClose := by
  constructor
  · intro ha
    cases hk : (setupReplyProperties c r code).1 with
    | mustClose => rfl
    | unknown | useKeepalive | mustUpgrade =>
      exfalso
      have hcc : r.fa.connClose = false := by
        cases hx : r.fa.connClose with
        | false => rfl
        | true => have := mustClose_of_connClose c r code hinv hx; rw [hk] at this; cases this
      rw [no_close_in_fields' c r date _ _ hinv hct hcc (by rw [hk]; rfl)] at ha
      cases ha
  · intro hk
    exact close_in_fields c r date _ _ hinv hk
end Mhd.Tok
