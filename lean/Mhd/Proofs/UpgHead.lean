/-
  C20: the request head is found at the same place for every partition of the byte stream into
  reads (given a prefix-stable parser), lifted to all histories of the daemon model.
-/
import Mhd.Proofs.UpgDaemon
namespace Mhd.Upg

/-! ### the request head is found independently of the partition into reads -/

/-- hypothesis on the parser (C02 proves it for the real one): a complete head stays the
    result when more bytes follow -/
def PStable (P : Parser) : Prop := ∀ a b h, P.parse a = some h → P.parse (a ++ b) = some h

/-- `head` is a complete request head and no proper prefix of it is one -/
def IsHead (P : Parser) (head : Bytes) : Prop :=
  (∃ h, P.parse head = some h ∧ h.len = head.length) ∧ ∀ p, p <+: head → p ≠ head → P.parse p = none

theorem first_head {P : Parser} (hs : PStable P) {head s w : Bytes} (hh : IsHead P head)
    (h1 : head <+: s) (h2 : w <+: s) {h : Head} (hp : P.parse w = some h) : w.take h.len = head := by
  obtain ⟨⟨h0, hp0, hl0⟩, hmin⟩ := hh
  rcases List.prefix_or_prefix_of_prefix h2 h1 with hw | hw
  · by_cases he : w = head
    · subst he
      rw [hp0] at hp; cases hp
      rw [hl0]; exact List.take_length
    · rw [hmin w hw he] at hp; cases hp
  · obtain ⟨q, rfl⟩ := hw
    rw [hs head q h0 hp0] at hp; cases hp
    rw [hl0]; simp

structure HdI (cfg : Cfg) (x : Conn) : Prop where
  first : ∀ head s, IsHead cfg.parser head → PStable cfg.parser → head <+: s → x.sent <+: s →
    ∀ h0, x.heads.head? = some h0 → h0 = head

theorem hdI_init (cfg) : HdI cfg {} := ⟨by intro _ _ _ _ _ _ h0 h; simp at h⟩

theorem hdI_same {cfg} {x y : Conn} (h : HdI cfg x) (h1 : y.heads = x.heads) (h2 : y.sent = x.sent) : HdI cfg y :=
  ⟨by rw [h1, h2]; exact h.first⟩

/-- heads and sent are untouched -/
def Same (x y : Conn) : Prop := y.heads = x.heads ∧ y.sent = x.sent
theorem Same.rfl' (x : Conn) : Same x x := ⟨rfl, rfl⟩
theorem Same.trans {x y z : Conn} (a : Same x y) (b : Same y z) : Same x z := ⟨b.1.trans a.1, b.2.trans a.2⟩
theorem hdI_of_same {cfg} {x y : Conn} (h : HdI cfg x) (s : Same x y) : HdI cfg y := hdI_same h s.1 s.2

theorem same_notifyCompleted (x : Conn) (c : Nat) : Same x (notifyCompleted x c) := by
  unfold notifyCompleted; split <;> exact ⟨rfl, rfl⟩
theorem same_closeConn (x : Conn) (c : Nat) : Same x (closeConn x c) := by
  have := same_notifyCompleted (x.emit .ioShutdown) c
  exact ⟨this.1, this.2⟩
theorem same_queueResponse (cfg sh) (x : Conn) (rid : Nat) : Same x (queueResponse cfg sh x rid).1 := by
  unfold queueResponse; split <;> exact ⟨rfl, rfl⟩
theorem same_tryQueue (cfg sh) (l : List Nat) : ∀ (x : Conn), Same x (tryQueue cfg sh x l) := by
  induction l with
  | nil => intro x; exact ⟨rfl, rfl⟩
  | cons rid rest ih =>
    intro x; simp only [tryQueue]
    have a := same_queueResponse cfg sh x rid
    split
    · exact ⟨a.1, a.2⟩
    · exact Same.trans (y := ((queueResponse cfg sh x rid).1.emit (.queued x.reqNo rid false))) ⟨a.1, a.2⟩ (ih _)
theorem same_startReply (cfg) (x : Conn) : Same x (startReply cfg x) := by
  unfold startReply; split <;> exact ⟨rfl, rfl⟩
theorem same_replyCall (cfg sh) (x : Conn) (f : Bool) : Same x (replyCall cfg sh x f) := by
  unfold replyCall; simp only
  have a : Same x (tryQueue cfg sh (handlerEntered x f) (cfg.beh x.reqNo).tries) :=
    Same.trans (y := handlerEntered x f) ⟨rfl, rfl⟩ (same_tryQueue cfg sh _ _)
  split
  · exact a.trans (same_closeConn _ _)
  · exact a.trans (same_startReply cfg _)
theorem same_handlerCalls (cfg sh) (x : Conn) : Same x (handlerCalls cfg sh x) := by
  unfold handlerCalls; split
  · exact same_replyCall cfg sh x false
  · exact Same.trans (y := firstCallOnly x) ⟨rfl, rfl⟩ (same_replyCall cfg sh _ true)
theorem same_handleRead (x : Conn) (n : Nat) : Same x (handleRead x n) := by
  unfold handleRead; split <;> exact ⟨rfl, rfl⟩
theorem same_handleWrite (x : Conn) (n : Nat) : Same x (handleWrite x n) := by
  unfold handleWrite; split <;> exact ⟨rfl, rfl⟩
theorem same_finishOrdinary (x : Conn) : Same x (finishOrdinary x) := by
  have a : Same x (replyDone x) := by
    have := same_notifyCompleted x Mhd.Gen.Upg.termOk
    exact ⟨this.1, this.2⟩
  unfold finishOrdinary; split
  · exact a.trans (y := replyDone x) ⟨rfl, rfl⟩
  · exact a.trans (same_closeConn _ _)
theorem same_upgradeActionClose (x : Conn) : Same x (upgradeActionClose x).1 := by
  unfold upgradeActionClose; split
  · exact ⟨rfl, rfl⟩
  · split <;> exact ⟨rfl, rfl⟩
theorem same_executeUpgrade (cfg) (x : Conn) (rid : Nat) : Same x (executeUpgrade cfg x rid).1 := by
  have a : Same x (handOver (internalSuspend (takeExtra x)) rid x.rbuf) := by
    unfold internalSuspend; split <;> exact ⟨rfl, rfl⟩
  unfold executeUpgrade; simp only
  split
  · have b := same_upgradeActionClose (handOver (internalSuspend (takeExtra x)) rid x.rbuf)
    exact a.trans ⟨b.1, b.2⟩
  · exact ⟨a.1, a.2⟩
theorem same_afterSend (cfg) (x : Conn) : Same x (afterSend cfg x).1 := by
  unfold afterSend; split
  · split
    · exact ⟨rfl, rfl⟩
    · split
      · exact same_executeUpgrade cfg x _
      · exact same_finishOrdinary x
  · exact ⟨rfl, rfl⟩
theorem same_resumeOne (x : Conn) : Same x (resumeOne x) := by
  unfold resumeOne; split
  · split
    · exact ⟨rfl, rfl⟩
    · split
      · have := same_notifyCompleted x Mhd.Gen.Upg.termOk; exact ⟨this.1, this.2⟩
      · exact ⟨rfl, rfl⟩
  · exact ⟨rfl, rfl⟩
theorem same_newToActive (x : Conn) : Same x (newToActive x) := by
  unfold newToActive; split <;> exact ⟨rfl, rfl⟩
theorem same_cleanupOne (x : Conn) : Same x (cleanupOne x) := by
  unfold cleanupOne; split
  · simp only; split <;> exact ⟨rfl, rfl⟩
  · exact ⟨rfl, rfl⟩

/-- the one place where a head is consumed -/
theorem hdI_tryRequest {cfg x} (hc : CI cfg x) (h : HdI cfg x) (sh : Bool) : HdI cfg (tryRequest cfg sh x) := by
  unfold tryRequest
  split
  · rename_i hg
    split
    · exact h
    · rename_i hd hp
      have hs := same_handlerCalls cfg sh (consumeHead x hd)
      refine ⟨?_⟩
      intro head s ih ps h1 h2 h0 hh
      rw [hs.1] at hh
      rw [hs.2] at h2
      have h2' : x.sent <+: s := h2
      cases hx : x.heads with
      | cons a l =>
        apply h.first head s ih ps h1 h2' h0
        simp [consumeHead, hx] at hh
        simp [hx, hh]
      | nil =>
        have hn := hc.logi.active_noUpg (Or.inl hg.1)
        have hh0 := hc.logi.handed_upg hn
        have hcons := hc.logi.cons
        rw [hx, hh0] at hcons
        simp at hcons
        have hw : x.rbuf <+: s := by
          have : x.rbuf <+: x.sent := ⟨x.sockIn, hcons⟩
          exact this.trans h2'
        have := first_head ps ih h1 hw hp
        simp [consumeHead, hx] at hh
        rw [← hh]; exact this
  · exact h

theorem hdI_idle {cfg x} (hc : CI cfg x) (h : HdI cfg x) (sh : Bool) : HdI cfg (idle cfg sh x).1 := by
  unfold idle
  exact hdI_tryRequest ⟨life_afterSend hc.life, logI_afterSend hc.life hc.logi⟩ (hdI_of_same h (same_afterSend cfg x)) sh


/-- `CI` and `HdI` together, for the composite steps -/
structure CH (cfg : Cfg) (x : Conn) : Prop where
  ci : CI cfg x
  hd : HdI cfg x

theorem ch_idleP {cfg} {p : CB} (h : CH cfg p.1) (sh : Bool) : CH cfg (idleP cfg sh p).1 :=
  ⟨ci_idleP h.ci sh, hdI_idle h.ci h.hd sh⟩

theorem ch_handleRead {cfg x} (h : CH cfg x) (n : Nat) : CH cfg (handleRead x n) :=
  ⟨ci_handleRead h.ci n, hdI_of_same h.hd (same_handleRead x n)⟩
theorem ch_handleWrite {cfg x} (h : CH cfg x) (n : Nat) : CH cfg (handleWrite x n) :=
  ⟨ci_handleWrite h.ci n, hdI_of_same h.hd (same_handleWrite x n)⟩

theorem ch_rdStage {cfg} {p : CB} (h : CH cfg p.1) (sh : Bool) (a : IoAct) : CH cfg (rdStage cfg sh a p).1 := by
  unfold rdStage
  split
  · exact ch_idleP (p := (handleRead p.1 a.rdMax, p.2)) (ch_handleRead h _) sh
  · exact h

theorem ch_wrStage {cfg} {p : CB} (h : CH cfg p.1) (sh : Bool) (a : IoAct) : CH cfg (wrStage cfg sh a p).1 := by
  unfold wrStage
  split
  · exact ch_idleP (p := (handleWrite p.1 a.wrMax, p.2)) (ch_handleWrite h _) sh
  · exact h

theorem ch_callHandlers {cfg x} (h : CH cfg x) (sh : Bool) (a : IoAct) : CH cfg (callHandlers cfg sh x a).1 := by
  unfold callHandlers
  split
  · exact h
  · have h2 := ch_wrStage (ch_rdStage (p := (x, false)) h sh a) sh a
    simp only
    split
    · exact ch_idleP h2 sh
    · split
      · exact ch_idleP (p := (handleWrite _ a.wrMax, _)) (ch_handleWrite h2 _) sh
      · exact h2

theorem ch_roundConn {cfg x} (h : CH cfg x) (sh scan : Bool) (a : Option IoAct) :
    CH cfg (roundConn cfg sh scan a x).1 := by
  unfold roundConn
  have h1 : CH cfg (if scan = true then resumeOne x else x) := by
    split
    · exact ⟨⟨life_resumeOne h.ci.life, logI_resumeOne h.ci.life h.ci.logi⟩, hdI_of_same h.hd (same_resumeOne x)⟩
    · exact h
  have h2 : CH cfg (newToActive (if scan = true then resumeOne x else x)) :=
    ⟨⟨life_newToActive h1.ci.life, logI_newToActive h1.ci.life h1.ci.logi⟩, hdI_of_same h1.hd (same_newToActive _)⟩
  simp only
  split
  · have h3 := ch_callHandlers h2 sh (by assumption)
    exact ⟨ci_cleanupOne h3.ci, hdI_of_same h3.hd (same_cleanupOne _)⟩
  · exact ⟨ci_cleanupOne h2.ci, hdI_of_same h2.hd (same_cleanupOne _)⟩

theorem same_stopConn (cfg) (x : Conn) : Same x (stopConn cfg x) := by
  unfold stopConn
  split
  · unfold stopNew; split <;> exact ⟨rfl, rfl⟩
  · have a1 : Same x (resumeIf cfg (x.emit .stopMark)) := by
      unfold resumeIf; split
      · exact Same.trans (y := x.emit .stopMark) ⟨rfl, rfl⟩ (same_resumeOne _)
      · exact ⟨rfl, rfl⟩
    have a2 : ∀ y : Conn, Same y (stopMarkSuspended cfg y) := by
      intro y; unfold stopMarkSuspended; split
      · split
        · split <;> exact ⟨rfl, rfl⟩
        · exact ⟨rfl, rfl⟩
      · exact ⟨rfl, rfl⟩
    have a3 : ∀ y : Conn, Same y (stopShutdownActive y) := by
      intro y; unfold stopShutdownActive; split <;> exact ⟨rfl, rfl⟩
    have a4 : ∀ y : Conn, Same y (resumeIf cfg y) := by
      intro y; unfold resumeIf; split
      · exact same_resumeOne _
      · exact ⟨rfl, rfl⟩
    have a5 : ∀ y : Conn, Same y (stopCloseActive y) := by
      intro y; unfold stopCloseActive; split
      · exact same_closeConn _ _
      · exact ⟨rfl, rfl⟩
    exact a1.trans ((a2 _).trans ((a3 _).trans ((a4 _).trans ((a5 _).trans (same_cleanupOne _)))))

theorem hdI_clientSendConn {cfg x} (h : HdI cfg x) (bs : Bytes) : HdI cfg (clientSendConn x bs) := by
  unfold clientSendConn
  split
  · refine ⟨?_⟩
    intro head s ih ps h1 h2 h0 hh
    have h2' : x.sent <+: s := (List.prefix_append x.sent bs).trans h2
    exact h.first head s ih ps h1 h2' h0 hh
  · exact h

theorem same_arriveConn (x : Conn) : Same x (arriveConn x) := by
  unfold arriveConn; split <;> exact ⟨rfl, rfl⟩

/-- the head invariant over all histories -/
theorem hd_step (d : Daemon) (op : Op) (hi : DInv d) (h : ∀ c, HdI (d.cfg c) (d.conn c)) :
    ∀ c, HdI ((step d op).cfg c) ((step d op).conn c) := by
  intro k
  cases op with
  | arrive c =>
    simp only [step]; split
    · exact h k
    · by_cases hk : k = c
      · subst hk; show HdI _ (setConn _ _ _ _); rw [setConn_same]; exact hdI_of_same (h k) (same_arriveConn _)
      · show HdI _ (setConn _ _ _ _); rw [setConn_other _ _ hk]; exact h k
  | clientSend c bs =>
    simp only [step]
    by_cases hk : k = c
    · subst hk; show HdI _ (setConn _ _ _ _); rw [setConn_same]; exact hdI_clientSendConn (h k) bs
    · show HdI _ (setConn _ _ _ _); rw [setConn_other _ _ hk]; exact h k
  | round sched =>
    simp only [step]; split
    · exact h k
    · exact (ch_roundConn ⟨(hi.conns k).ci, h k⟩ _ _ _).hd
  | upClose c =>
    simp only [step]; split
    · exact h k
    · by_cases hk : k = c
      · subst hk; show HdI _ (setConn _ _ _ _); rw [setConn_same]
        exact hdI_of_same (h k) (same_upgradeActionClose _)
      · show HdI _ (setConn _ _ _ _); rw [setConn_other _ _ hk]; exact h k
  | upRecv c mx =>
    simp only [step]; split
    · by_cases hk : k = c
      · subst hk; show HdI _ (setConn _ _ _ _); rw [setConn_same]
        exact hdI_same (h k) rfl rfl
      · show HdI _ (setConn _ _ _ _); rw [setConn_other _ _ hk]; exact h k
    · by_cases hk : k = c
      · subst hk; show HdI _ (setConn _ _ _ _); rw [setConn_same]
        exact hdI_same (h k) rfl rfl
      · show HdI _ (setConn _ _ _ _); rw [setConn_other _ _ hk]; exact h k
  | upSend c bs =>
    simp only [step]; split
    · by_cases hk : k = c
      · subst hk; show HdI _ (setConn _ _ _ _); rw [setConn_same]
        exact hdI_same (h k) rfl rfl
      · show HdI _ (setConn _ _ _ _); rw [setConn_other _ _ hk]; exact h k
    · by_cases hk : k = c
      · subst hk; show HdI _ (setConn _ _ _ _); rw [setConn_same]
        exact hdI_same (h k) rfl rfl
      · show HdI _ (setConn _ _ _ _); rw [setConn_other _ _ hk]; exact h k
  | stop =>
    simp only [step]; split
    · exact h k
    · exact hdI_of_same (h k) (same_stopConn _ _)

theorem hd_run (d : Daemon) (ops : List Op) (hi : DInv d) (h : ∀ c, HdI (d.cfg c) (d.conn c)) :
    ∀ c, HdI ((run d ops).cfg c) ((run d ops).conn c) := by
  induction ops generalizing d with
  | nil => exact h
  | cons op ops ih => exact ih (step d op) (dinv_step d op hi) (hd_step d op hi h)

end Mhd.Upg
