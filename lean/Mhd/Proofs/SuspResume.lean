/-
  C11 — resume: `resume_moves_back` (a pending resume request is served by the next
  resume_suspended_connections: the connection re-enters the active list with an unchanged
  record, in epoll mode queued as read- and write-ready) and `race_same_state` (both orders of
  "another thread resumes right after the handler suspended" continue from the same state).
-/
import Mhd.Proofs.SuspFrozen
namespace Mhd.Susp

/-- record of a connection after resume_suspended_connections moved it back -/
def resumedConn (g : Guards) (ep : Bool) (k : Conn) : Conn :=
  let k1 := { k with suspended := false, resuming := false }
  if ep then
    { k1 with inEready := true, readReady := k1.readReady || g.resumeReady,
              writeReady := k1.writeReady || g.resumeReady, epSusp := false }
  else k1

theorem moveBack_conn_same (g : Guards) (d : Daemon) (c : Nat) :
    (moveBack g d c).conn c = resumedConn g d.isEpoll (d.conn c) := by
  simp only [moveBack, setConn_same, resumedConn]

theorem moveBack_mode (g : Guards) (d : Daemon) (c : Nat) : (moveBack g d c).isEpoll = d.isEpoll := rfl

theorem resumeScan_other (g : Guards) (c : Nat) : ∀ (l : List Nat) (d : Daemon), c ∉ l →
    (resumeScan g l d).1.conn c = d.conn c ∧ (c ∈ d.active → c ∈ (resumeScan g l d).1.active) ∧
    (c ∈ d.eready → c ∈ (resumeScan g l d).1.eready) ∧ (c ∉ d.susp → c ∉ (resumeScan g l d).1.susp) ∧
    (resumeScan g l d).1.isEpoll = d.isEpoll := by
  intro l
  induction l with
  | nil => intro d _; exact ⟨rfl, id, id, id, rfl⟩
  | cons a rest ih =>
    intro d hc
    have hac : c ≠ a := fun e => hc (e ▸ List.mem_cons_self)
    have hcr : c ∉ rest := fun hm => hc (List.mem_cons_of_mem _ hm)
    simp only [resumeScan]
    split
    · have r := ih (moveBack g d a) hcr
      refine ⟨r.1.trans (moveBack_conn_ne g d hac), fun h => r.2.1 ?_, fun h => r.2.2.1 ?_, fun h => r.2.2.2.1 ?_, r.2.2.2.2⟩
      · simp only [moveBack]; exact List.mem_cons_of_mem _ h
      · simp only [moveBack]; split
        · exact List.mem_cons_of_mem _ h
        · exact h
      · simp only [moveBack]; exact fun hm => h (List.mem_of_mem_erase hm)
    · exact ih d hcr

theorem resumeScan_moves (g : Guards) (c : Nat) : ∀ (l : List Nat) (d : Daemon), l.Nodup → c ∈ l → d.susp.Nodup →
    (d.conn c).resuming = true →
    (c, CEv.resumed) ∈ (resumeScan g l d).2 ∧ c ∈ (resumeScan g l d).1.active ∧ c ∉ (resumeScan g l d).1.susp ∧
    (resumeScan g l d).1.conn c = resumedConn g d.isEpoll (d.conn c) ∧
    (d.isEpoll = true → c ∈ (resumeScan g l d).1.eready) := by
  intro l
  induction l with
  | nil => intro d _ h; exact absurd h List.not_mem_nil
  | cons a rest ih =>
    intro d hnd hc hns hr
    have hnd' := List.nodup_cons.1 hnd
    simp only [resumeScan]
    by_cases hac : a = c
    · subst hac
      rw [if_pos hr]
      have r := resumeScan_other g a rest (moveBack g d a) hnd'.1
      refine ⟨List.mem_cons_self, r.2.1 (by simp only [moveBack]; exact List.mem_cons_self), ?_,
        r.1.trans (moveBack_conn_same g d a), fun hep => r.2.2.1 (by simp only [moveBack, hep, if_true]; exact List.mem_cons_self)⟩
      apply r.2.2.2.1
      simp only [moveBack]
      simp [hns.mem_erase_iff]
    · have hcr : c ∈ rest := by
        rcases List.mem_cons.1 hc with e | e
        · exact absurd e.symm hac
        · exact e
      split
      · have hconn : (moveBack g d a).conn c = d.conn c := moveBack_conn_ne g d (Ne.symm hac)
        have r := ih (moveBack g d a) hnd'.2 hcr (by simp only [moveBack]; exact hns.erase a) (by rw [hconn]; exact hr)
        rw [hconn, moveBack_mode] at r
        exact ⟨List.mem_cons_of_mem _ r.1, r.2.1, r.2.2.1, r.2.2.2.1, r.2.2.2.2⟩
      · exact ih d hnd'.2 hcr hns hr

/-- Resume re-enters at the same state: a suspended connection with a resume request is moved
    back by the next resume_suspended_connections — into the active (and timeout) list, with
    both flags cleared, in epoll mode queued in the eready list and marked read- and write-ready —
    and nothing else of its record has changed. -/
theorem resume_moves_back (g : Guards) (d : Daemon) (hw : WF d) (c : Nat) (hs : c ∈ d.susp)
    (hr : (d.conn c).resuming = true) :
    (c, CEv.resumed) ∈ (resumeSuspended g d).2 ∧ c ∈ (resumeSuspended g d).1.active ∧ c ∉ (resumeSuspended g d).1.susp ∧
    (resumeSuspended g d).1.conn c = resumedConn g d.isEpoll (d.conn c) ∧
    (d.isEpoll = true → c ∈ (resumeSuspended g d).1.eready) := by
  have hres : d.resuming = true := hw.no_lost c ((hw.susp_iff c).2 hs) hr
  simp only [resumeSuspended, hres, if_true]
  exact resumeScan_moves g c d.susp.reverse { d with resuming := false } (nodup_reverse' hw.nd_susp)
    (List.mem_reverse.2 hs) hw.nd_susp hr

/-- the record without the epoll bookkeeping bits -/
def Conn.noEpoll (k : Conn) : Conn :=
  { k with inSet := false, readReady := false, writeReady := false, epSusp := false, inEready := false }

/-- Both orders of the race "another thread resumes right after the handler suspended" continue
    from the same state: (A) suspend, resume, then the daemon's resume_suspended_connections;
    (B) resume first, then the suspend, which only clears the `resuming` flag. -/
theorem race_same_state (g : Guards) (hg : g.shortcut = true) (ep : Bool) (k : Conn)
    (hs : k.suspended = false) (hr : k.resuming = false) :
    let kA := resumedConn g ep (suspendAct g k .imm).1
    let kB := (suspendAct g k .pre).1
    kA.noEpoll = kB.noEpoll ∧ kA.suspended = false ∧ kB.suspended = false ∧
    kA.resuming = false ∧ kB.resuming = false ∧ kA.dres = true ∧ kB.dres = true ∧
    (suspendAct g k .imm).2 = [.suspend true, .resumeReq] ∧ (suspendAct g k .pre).2 = [.resumeReq, .suspend false] := by
  cases ep <;>
    simp [suspendAct, hs, hr, hg, Conn.doSuspend, Conn.doResumeReq, resumedConn, Conn.noEpoll]

end Mhd.Susp
