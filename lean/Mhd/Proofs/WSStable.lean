/-
  C19 helper lemmas, part 9: stability of a loop trip under more input behind the bytes it
  consumes, and the merge of two partial payload copies into one (split independence).
-/
import Mhd.Proofs.WSRun
namespace Mhd.WS

/-- add `n` to the bytes consumed by a loop trip -/
def shiftR (n : Nat) : R → R
  | .cont ws k => .cont ws (n + k)
  | .ret ws st k pl plen => .ret ws st (n + k) pl plen
  | .fault s => .fault s

theorem payloadFinish_shift (n k : Nat) (ws : WS) :
    payloadFinish false (n + k) ws = shiftR n (payloadFinish false k ws) := by
  unfold payloadFinish
  split
  · cases payloadComplete false ws <;> rfl
  · rfl

/-- a loop trip that is not a partial payload copy looks only at the bytes it consumes:
    more input behind them changes nothing -/
theorem iter_stable {ws : WS} (a b : List UInt8) (ha : a ≠ [])
    (hp : (ws.step ≠ 17 ∧ ws.step ≠ 18) ∨ (ws.payloadSize + W - ws.payloadIndex) % W ≤ a.length) :
    iter false ws (a ++ b) = iter false ws a := by
  cases a with
  | nil => exact absurd rfl ha
  | cons x a' =>
    unfold iter
    simp only [List.cons_append]
    rcases hp with ⟨h17, h18⟩ | hn
    · split <;> first | rfl | omega
    · split
      all_goals try rfl
      all_goals
        unfold stepPayload
        have e1 : min ((ws.payloadSize + W - ws.payloadIndex) % W) (x :: (a' ++ b)).length =
            min ((ws.payloadSize + W - ws.payloadIndex) % W) (x :: a').length := by
          simp only [List.length_cons, List.length_append] at hn ⊢; omega
        have e2 : (x :: (a' ++ b)).take (min ((ws.payloadSize + W - ws.payloadIndex) % W) (x :: a').length) =
            (x :: a').take (min ((ws.payloadSize + W - ws.payloadIndex) % W) (x :: a').length) := by
          rw [← List.cons_append, List.take_append_of_le_length (by omega)]
        simp only [e1, e2]

end Mhd.WS
namespace Mhd.WS

theorem encodeFrame_congr (a b : WS) (b0 : UInt8) (n : Nat) (body : List UInt8 → List UInt8)
    (hf : a.flags = b.flags) (hr : a.rng = b.rng) (hl : a.allocLimit = b.allocLimit) :
    (encodeFrame a b0 n body).frame = (encodeFrame b b0 n body).frame ∧
    (encodeFrame a b0 n body).len = (encodeFrame b b0 n body).len := by
  have hc : a.isClient = b.isClient := by unfold WS.isClient; rw [hf]
  have hm2 : (maskFor a).2 = (maskFor b).2 := by unfold maskFor genMask; rw [hc, hr]; split <;> rfl
  have hm1 : (maskFor a).1.allocLimit = (maskFor b).1.allocLimit := by
    unfold maskFor genMask; rw [hc]; split <;> exact hl
  have ho : overheadSize a n = overheadSize b n := by unfold overheadSize; rw [hc]
  have hal : alloc (maskFor a).1 (overheadSize a n + n + 1) = alloc (maskFor b).1 (overheadSize b n + n + 1) := by
    unfold alloc; rw [hm1, ho]
  unfold encodeFrame
  simp only [hal]
  simp only [hm2, hc, ho]
  cases alloc (maskFor b).1 (overheadSize b n + n + 1) with
  | none => exact ⟨rfl, rfl⟩
  | some _ => simp only []; split <;> exact ⟨rfl, rfl⟩

theorem genClose_congr (a b : WS) (c : Nat) (hf : a.flags = b.flags) (hr : a.rng = b.rng)
    (hl : a.allocLimit = b.allocLimit) : (genClose a c).2 = (genClose b c).2 := by
  have hg : a.genCloseFlag = b.genCloseFlag := by unfold WS.genCloseFlag; rw [hf]
  unfold genClose
  rw [hg]
  split
  · unfold encodeClose
    simp only [List.length_nil, ne_eq, not_true_eq_false, false_and, or_false, Nat.not_lt_zero, if_false]
    split
    · rfl
    · obtain ⟨h1, h2⟩ := encodeFrame_congr a b 0x88 (if c ≠ 0 then 2 + 0 else 0)
        (fun mask => if c ≠ 0 then copyPayload (beBytes 2 c) mask 0 ++ [] else []) hf hr hl
      simp only [ne_eq, Nat.add_zero, List.append_nil] at h1 h2 ⊢
      rw [h1, h2]
  · rfl

end Mhd.WS
