/-
  C20: lifecycle coherence of one connection, preserved by every primitive of the model.
-/
import Mhd.Proofs.UpgLog
namespace Mhd.Upg

/-- lifecycle coherence of one connection (holds at every primitive boundary) -/
structure Life (cfg : Cfg) (x : Conn) : Prop where
  resuming_susp : x.resuming = true → x.loc = .suspended
  susp_urh : x.loc = .suspended → x.urh.isSome = true
  urh_loc : x.urh.isSome = true → x.loc = .suspended ∨ x.loc = .cleanup
  urh_ready : ∀ u, x.urh = some u → u.cleanReady = true
  resuming_closed : x.resuming = true → ∀ u, x.urh = some u → u.wasClosed = true
  upg_allowed : x.urh.isSome = true → cfg.allowUpgrade = true
  rp_allowed : ∀ rid, x.rp = some rid → (cfg.resp rid).upgrade = true → cfg.allowUpgrade = true
  aware_loc : x.clientAware = true → x.loc = .active ∨ x.loc = .suspended
  sock : x.sockOpen = true ↔ (x.loc = .new ∨ x.loc = .active ∨ x.loc = .suspended ∨ x.loc = .cleanup)
  urh_rbuf : x.urh.isSome = true → x.rbuf = []

theorem life_init (cfg : Cfg) : Life cfg {} := by
  constructor <;> simp

theorem Life.active_urh {cfg x} (h : Life cfg x) (ha : x.loc = .active) : x.urh = none := by
  cases hu : x.urh with
  | none => rfl
  | some u => have := h.urh_loc (by simp [hu]); simp_all

theorem Life.active_resuming {cfg x} (h : Life cfg x) (ha : x.loc = .active) : x.resuming = false := by
  cases hr : x.resuming with
  | false => rfl
  | true => have := h.resuming_susp hr; simp_all

theorem life_emit {cfg x} (h : Life cfg x) (e : Ev) : Life cfg (x.emit e) := by
  cases h; constructor <;> simp_all [Conn.emit]

theorem life_notifyCompleted {cfg x} (h : Life cfg x) (code : Nat) : Life cfg (notifyCompleted x code) := by
  unfold notifyCompleted
  split
  · cases h; constructor <;> simp_all
  · exact h

@[simp] theorem notifyCompleted_loc (x : Conn) (code : Nat) : (notifyCompleted x code).loc = x.loc := by
  unfold notifyCompleted; split <;> rfl
@[simp] theorem notifyCompleted_aware (x : Conn) (code : Nat) : (notifyCompleted x code).clientAware = false := by
  unfold notifyCompleted; split <;> simp_all
@[simp] theorem emit_loc (x : Conn) (e : Ev) : (x.emit e).loc = x.loc := rfl
@[simp] theorem emit_log (x : Conn) (e : Ev) : (x.emit e).log = x.log ++ [e] := rfl

theorem life_closeConn {cfg x} (h : Life cfg x) (ha : x.loc = .active) (code : Nat) : Life cfg (closeConn x code) := by
  have h1 := life_notifyCompleted (life_emit h .ioShutdown) code
  have hl : (notifyCompleted (x.emit .ioShutdown) code).loc = .active := by simp [ha]
  have hr := notifyCompleted_aware (x.emit .ioShutdown) code
  unfold closeConn
  cases h1; constructor <;> simp_all

@[simp] theorem closeConn_loc (x : Conn) (code : Nat) : (closeConn x code).loc = .cleanup := rfl

theorem queueCheck_allowed {cfg sh x rs} (h : queueCheck cfg sh x rs = none) (hu : rs.upgrade = true) :
    cfg.allowUpgrade = true := by
  unfold queueCheck at h
  split at h
  · simp at h
  · by_cases ha : cfg.allowUpgrade = true
    · exact ha
    · simp [hu, ha] at h
      repeat (split at h <;> try simp at h)

theorem life_queueResponse {cfg x} (h : Life cfg x) (sh : Bool) (rid : Nat) :
    Life cfg (queueResponse cfg sh x rid).1 := by
  unfold queueResponse
  split
  · exact h
  · rename_i hq
    have := fun hu => queueCheck_allowed hq hu
    cases h; constructor <;> simp_all

@[simp] theorem queueResponse_loc (cfg sh) (x : Conn) (rid : Nat) : (queueResponse cfg sh x rid).1.loc = x.loc := by
  unfold queueResponse; split <;> rfl

theorem life_tryQueue {cfg} (sh : Bool) (l : List Nat) : ∀ {x}, Life cfg x → Life cfg (tryQueue cfg sh x l) := by
  induction l with
  | nil => intro x h; exact h
  | cons rid rest ih =>
    intro x h
    simp only [tryQueue]
    split
    · exact life_emit (life_queueResponse h sh rid) _
    · exact ih (life_emit (life_queueResponse h sh rid) _)

@[simp] theorem tryQueue_loc (cfg sh) (l : List Nat) : ∀ (x : Conn), (tryQueue cfg sh x l).loc = x.loc := by
  induction l with
  | nil => intro x; rfl
  | cons rid rest ih =>
    intro x
    simp only [tryQueue]
    split <;> simp [ih]

theorem life_startReply {cfg x} (h : Life cfg x) : Life cfg (startReply cfg x) := by
  unfold startReply
  split
  · exact h
  · cases h; constructor <;> simp_all

@[simp] theorem startReply_loc (cfg) (x : Conn) : (startReply cfg x).loc = x.loc := by
  unfold startReply; split <;> rfl

theorem life_handlerEntered {cfg x} (h : Life cfg x) (ha : x.loc = .active) (fin : Bool) :
    Life cfg (handlerEntered x fin) := by
  cases h; constructor <;> simp_all [handlerEntered]

@[simp] theorem handlerEntered_loc (x : Conn) (fin : Bool) : (handlerEntered x fin).loc = x.loc := rfl

theorem life_firstCallOnly {cfg x} (h : Life cfg x) (ha : x.loc = .active) : Life cfg (firstCallOnly x) := by
  have h0 := life_handlerEntered h ha false
  cases h0; constructor <;> simp_all [firstCallOnly]

@[simp] theorem firstCallOnly_loc (x : Conn) : (firstCallOnly x).loc = x.loc := rfl

theorem life_replyCall {cfg x} (h : Life cfg x) (ha : x.loc = .active) (sh fin : Bool) :
    Life cfg (replyCall cfg sh x fin) := by
  unfold replyCall
  simp only
  split
  · exact life_closeConn (life_tryQueue sh _ (life_handlerEntered h ha fin)) (by simp [ha]) _
  · exact life_startReply (life_tryQueue sh _ (life_handlerEntered h ha fin))

theorem life_handlerCalls {cfg x} (h : Life cfg x) (ha : x.loc = .active) (sh : Bool) :
    Life cfg (handlerCalls cfg sh x) := by
  unfold handlerCalls
  split
  · exact life_replyCall h ha sh false
  · exact life_replyCall (life_firstCallOnly h ha) (by simp [ha]) sh true

theorem life_consumeHead {cfg x} (h : Life cfg x) (ha : x.loc = .active) (hd : Head) :
    Life cfg (consumeHead x hd) := by
  have hu := h.active_urh ha
  cases h; constructor <;> simp_all [consumeHead]

@[simp] theorem consumeHead_loc (x : Conn) (hd : Head) : (consumeHead x hd).loc = x.loc := rfl

theorem life_tryRequest {cfg x} (h : Life cfg x) (sh : Bool) : Life cfg (tryRequest cfg sh x) := by
  unfold tryRequest
  split
  · rename_i hg
    split
    · exact h
    · exact life_handlerCalls (life_consumeHead h hg.1 _) (by simp [hg.1]) sh
  · exact h

theorem life_handleRead {cfg x} (h : Life cfg x) (n : Nat) : Life cfg (handleRead x n) := by
  unfold handleRead
  split
  · rename_i hg
    have hu := h.active_urh hg.1
    cases h; constructor <;> simp_all [Conn.emit]
  · exact h

theorem life_handleWrite {cfg x} (h : Life cfg x) (n : Nat) : Life cfg (handleWrite x n) := by
  unfold handleWrite
  split
  · cases h; constructor <;> simp_all [Conn.emit]
  · exact h

theorem life_replyDone {cfg x} (h : Life cfg x) : Life cfg (replyDone x) := by
  have h0 := life_notifyCompleted h Mhd.Gen.Upg.termOk
  cases h0; constructor <;> simp_all [replyDone]

@[simp] theorem replyDone_loc (x : Conn) : (replyDone x).loc = x.loc := by simp [replyDone]

theorem life_nextRequest {cfg x} (h : Life cfg x) : Life cfg (nextRequest x) := by
  cases h; constructor <;> simp_all [nextRequest]

theorem life_takeExtra_suspend {cfg x} (h : Life cfg x) (ha : x.loc = .active) (hal : cfg.allowUpgrade = true) :
    Life cfg (internalSuspend (takeExtra x)) ∧ (internalSuspend (takeExtra x)).loc = .suspended
      ∧ (internalSuspend (takeExtra x)).urh = some { wasClosed := false, cleanReady := true } := by
  have hr := h.active_resuming ha
  have hu := h.active_urh ha
  unfold internalSuspend
  simp only [takeExtra, hr]
  refine ⟨?_, rfl, rfl⟩
  cases h; constructor <;> simp_all

theorem life_handOver {cfg x} (h : Life cfg x) (rid : Nat) (e : Bytes) : Life cfg (handOver x rid e) := by
  cases h; constructor <;> simp_all [handOver]

theorem life_markAppClosed {cfg x} (h : Life cfg x) (hs : x.loc = .suspended) : Life cfg (markAppClosed x) := by
  cases h; constructor <;> simp_all [markAppClosed]
  all_goals (try (intro u hu; cases hx : x.urh <;> simp_all))


@[simp] theorem markAppClosed_loc (x : Conn) : (markAppClosed x).loc = x.loc := rfl

theorem life_upgradeActionClose {cfg x} (h : Life cfg x) (hs : x.urh.isSome = true → x.loc = .suspended) :
    Life cfg (upgradeActionClose x).1 := by
  unfold upgradeActionClose
  split
  · exact life_emit h _
  · rename_i u hu
    split
    · exact life_emit h _
    · exact life_emit (life_markAppClosed h (hs (by simp [hu]))) _

@[simp] theorem upgradeActionClose_loc (x : Conn) : (upgradeActionClose x).1.loc = x.loc := by
  unfold upgradeActionClose
  split
  · rfl
  · split <;> rfl

theorem life_executeUpgrade {cfg x} (h : Life cfg x) (ha : x.loc = .active) (hal : cfg.allowUpgrade = true)
    (rid : Nat) : Life cfg (executeUpgrade cfg x rid).1 ∧ (executeUpgrade cfg x rid).1.loc = .suspended := by
  obtain ⟨h1, h2, h3⟩ := life_takeExtra_suspend h ha hal
  have h4 := life_handOver h1 rid x.rbuf
  have h4l : (handOver (internalSuspend (takeExtra x)) rid x.rbuf).loc = .suspended := h2
  unfold executeUpgrade
  simp only
  split
  · have h5 := life_upgradeActionClose h4 (fun _ => h4l)
    have h5l : (upgradeActionClose (handOver (internalSuspend (takeExtra x)) rid x.rbuf)).1.loc = .suspended := by
      simp [h4l]
    constructor
    · cases h5; constructor <;> simp_all
    · exact h5l
  · constructor
    · cases h4; constructor <;> simp_all
    · exact h4l

theorem life_finishOrdinary {cfg x} (h : Life cfg x) (ha : x.loc = .active) : Life cfg (finishOrdinary x) := by
  unfold finishOrdinary
  split
  · exact life_nextRequest (life_replyDone h)
  · exact life_closeConn (life_replyDone h) (by simp [ha]) _

theorem life_afterSend {cfg x} (h : Life cfg x) : Life cfg (afterSend cfg x).1 := by
  unfold afterSend
  split
  · rename_i hg
    split
    · exact h
    · rename_i rid hrp
      split
      · rename_i hu
        exact (life_executeUpgrade h hg.1 (h.rp_allowed rid hrp hu) rid).1
      · exact life_finishOrdinary h hg.1
  · exact h

theorem life_idle {cfg x} (h : Life cfg x) (sh : Bool) : Life cfg (idle cfg sh x).1 := by
  unfold idle
  exact life_tryRequest (life_afterSend h) sh

theorem life_idleP {cfg} {p : CB} (h : Life cfg p.1) (sh : Bool) : Life cfg (idleP cfg sh p).1 :=
  life_idle h sh

theorem life_rdStage {cfg} {p : CB} (h : Life cfg p.1) (sh : Bool) (a : IoAct) : Life cfg (rdStage cfg sh a p).1 := by
  unfold rdStage
  split
  · exact life_idleP (p := (handleRead p.1 a.rdMax, p.2)) (life_handleRead h _) sh
  · exact h

theorem life_wrStage {cfg} {p : CB} (h : Life cfg p.1) (sh : Bool) (a : IoAct) : Life cfg (wrStage cfg sh a p).1 := by
  unfold wrStage
  split
  · exact life_idleP (p := (handleWrite p.1 a.wrMax, p.2)) (life_handleWrite h _) sh
  · exact h

theorem life_callHandlers {cfg x} (h : Life cfg x) (sh : Bool) (a : IoAct) : Life cfg (callHandlers cfg sh x a).1 := by
  unfold callHandlers
  split
  · exact h
  · have h2 := life_wrStage (life_rdStage (p := (x, false)) h sh a) sh a
    simp only
    split
    · exact life_idleP h2 sh
    · split
      · exact life_idleP (p := (handleWrite _ a.wrMax, _)) (life_handleWrite h2 _) sh
      · exact h2

theorem life_resumeOne {cfg x} (h : Life cfg x) : Life cfg (resumeOne x) := by
  unfold resumeOne
  split
  · rename_i hg
    split
    · rename_i hu
      have := h.susp_urh hg.1
      simp [hu] at this
    · rename_i u hu
      split
      · have h0 := life_notifyCompleted h Mhd.Gen.Upg.termOk
        cases h0; constructor <;> simp_all
      · exact h
  · exact h

theorem life_newToActive {cfg x} (h : Life cfg x) : Life cfg (newToActive x) := by
  unfold newToActive
  split
  · rename_i hn
    have hr : x.resuming = false := by
      cases hr : x.resuming with
      | false => rfl
      | true => have := h.resuming_susp hr; simp_all
    have hu : x.urh = none := by
      cases hu : x.urh with
      | none => rfl
      | some u => have := h.urh_loc (by simp [hu]); simp_all
    have ha : x.clientAware = false := by
      cases ha : x.clientAware with
      | false => rfl
      | true => have := h.aware_loc ha; simp_all
    cases h; constructor <;> simp_all [Conn.emit]
  · exact h

theorem life_cleanupOne {cfg x} (h : Life cfg x) : Life cfg (cleanupOne x) := by
  unfold cleanupOne
  split
  · rename_i hc
    have hr : x.resuming = false := by
      cases hr : x.resuming with
      | false => rfl
      | true => have := h.resuming_susp hr; simp_all
    have ha : x.clientAware = false := by
      cases ha : x.clientAware with
      | false => rfl
      | true => have := h.aware_loc ha; simp_all
    simp only
    split <;> (cases h; constructor <;> simp_all [Conn.emit])
  · exact h

theorem life_roundConn {cfg x} (h : Life cfg x) (sh scan : Bool) (a : Option IoAct) :
    Life cfg (roundConn cfg sh scan a x).1 := by
  unfold roundConn
  have h1 : Life cfg (if scan = true then resumeOne x else x) := by
    split
    · exact life_resumeOne h
    · exact h
  have h2 := life_newToActive h1
  simp only
  split
  · exact life_cleanupOne (life_callHandlers h2 sh _)
  · exact life_cleanupOne h2


theorem life_stopNew {cfg x} (h : Life cfg x) (hn : x.loc = .new) : Life cfg (stopNew x) := by
  have hr : x.resuming = false := by
    cases hr : x.resuming with
    | false => rfl
    | true => have := h.resuming_susp hr; simp_all
  have hu : x.urh = none := by
    cases hu : x.urh with
    | none => rfl
    | some u => have := h.urh_loc (by simp [hu]); simp_all
  have ha : x.clientAware = false := by
    cases ha : x.clientAware with
    | false => rfl
    | true => have := h.aware_loc ha; simp_all
  unfold stopNew
  split <;> (cases h; constructor <;> simp_all [Conn.emit])

theorem life_resumeIf {cfg x} (h : Life cfg x) : Life cfg (resumeIf cfg x) := by
  unfold resumeIf; split
  · exact life_resumeOne h
  · exact h

theorem life_stopMarkSuspended {cfg x} (h : Life cfg x) : Life cfg (stopMarkSuspended cfg x) := by
  unfold stopMarkSuspended
  split
  · split
    · split
      · exact life_emit h _
      · rename_i u hu
        have := h.urh_ready u hu
        cases h; constructor <;> simp_all
    · exact life_emit h _
  · exact h

theorem life_stopShutdownActive {cfg x} (h : Life cfg x) : Life cfg (stopShutdownActive x) := by
  unfold stopShutdownActive; split
  · exact life_emit h _
  · exact h

theorem life_stopCloseActive {cfg x} (h : Life cfg x) : Life cfg (stopCloseActive x) := by
  unfold stopCloseActive; split
  · rename_i ha; exact life_closeConn h ha _
  · exact h

theorem life_stopConn {cfg x} (h : Life cfg x) : Life cfg (stopConn cfg x) := by
  unfold stopConn
  split
  · rename_i hn; exact life_stopNew (life_emit h _) hn
  · exact life_cleanupOne (life_stopCloseActive (life_resumeIf (life_stopShutdownActive
      (life_stopMarkSuspended (life_resumeIf (life_emit h _))))))

theorem life_arriveConn {cfg x} (h : Life cfg x) : Life cfg (arriveConn x) := by
  unfold arriveConn
  split
  · rename_i hn
    have hr : x.resuming = false := by
      cases hr : x.resuming with
      | false => rfl
      | true => have := h.resuming_susp hr; simp_all
    have hu : x.urh = none := by
      cases hu : x.urh with
      | none => rfl
      | some u => have := h.urh_loc (by simp [hu]); simp_all
    have ha : x.clientAware = false := by
      cases ha : x.clientAware with
      | false => rfl
      | true => have := h.aware_loc ha; simp_all
    cases h; constructor <;> simp_all
  · exact life_emit h _

theorem life_clientSendConn {cfg x} (h : Life cfg x) (bs : Bytes) : Life cfg (clientSendConn x bs) := by
  unfold clientSendConn
  split
  · cases h; constructor <;> simp_all
  · exact h

theorem life_appRecvConn {cfg x} (h : Life cfg x) (n : Nat) : Life cfg (appRecvConn x n) := by
  cases h; constructor <;> simp_all [appRecvConn, Conn.emit]

theorem life_appSendConn {cfg x} (h : Life cfg x) (bs : Bytes) : Life cfg (appSendConn x bs) :=
  life_emit h _

end Mhd.Upg
