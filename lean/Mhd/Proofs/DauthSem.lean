import Mhd.Proofs.DauthSem0
namespace Mhd.Dauth
open Mhd.Auth Mhd.Gen.Auth Mhd.Gen.Dauth

theorem chainFind_cases (eq : Bytes → Bool) (l : List (Bytes × Nat)) (dflt : Nat) :
    chainFind eq l dflt = dflt ∨ ∃ x ∈ l, eq x.1 = true := by
  induction l with
  | nil => left; rfl
  | cons x t ih =>
    obtain ⟨tok, c⟩ := x
    simp only [chainFind]
    by_cases h : eq tok = true
    · right; exact ⟨(tok, c), by simp, h⟩
    · simp only [h]
      rcases ih with ih | ⟨y, hy, hy2⟩
      · left; simpa using ih
      · right; exact ⟨y, by simp [hy], hy2⟩

theorem qop_small (d : DAuth) (hq : QopParsed d) (hne : d.qop ≠ qopInvalid) : Small d kQop := by
  intro p hp
  unfold QopParsed at hq
  rw [hp] at hq
  unfold qopOf at hq
  by_cases hqd : p.quoted = true
  · simp only [hqd, if_true] at hq
    rcases chainFind_cases (fun tok => eqQuotedCl p.raw tok) qopQuotedChain qopNoMatch with h | ⟨x, hx, hx2⟩
    · rw [h] at hq; exact absurd hq hne
    · have hl : x.1.length ≤ 8 := by
        have : ∀ y ∈ qopQuotedChain, y.1.length ≤ 8 := by decide
        exact this x hx
      simp only [eqQuotedCl] at hx2
      split at hx2
      · simp at hx2
      · have : maxParam = 65535 := rfl
        omega
  · simp only [hqd] at hq
    rcases chainFind_cases (fun tok => eqClS tok p.raw) qopTokenChain qopNoMatch with h | ⟨x, hx, hx2⟩
    · rw [h] at hq; exact absurd hq hne
    · have hl : x.1.length ≤ 8 := by
        have : ∀ y ∈ qopTokenChain, y.1.length ≤ 8 := by decide
        exact this x hx
      simp only [eqClS, Bool.and_eq_true, beq_iff_eq] at hx2
      have : maxParam = 65535 := rfl
      omega

theorem bind_ok {ε α β : Type} (x : Except ε α) (f : α → Except ε β) (b : β) :
    (x >>= f) = .ok b ↔ ∃ a, x = .ok a ∧ f a = .ok b := by
  cases x <;> simp [bind, Except.bind]

theorem presUri_ok (lv : LenView) : presUri lv = .ok () ↔ ∃ l, lv kUri = some l ∧ l ≠ 0 ∧ l ≤ maxParam := by
  unfold presUri
  cases lv kUri with
  | none => simp
  | some l =>
    by_cases h0 : l = 0
    · simp [h0]
    · by_cases h1 : maxParam < l
      · simp [h0, h1] <;> omega
      · simp [h0, h1] <;> omega

theorem presNonce_ok (a : Algo) (lv : LenView) :
    presNonce a lv = .ok () ↔ ∃ l, lv kNonce = some l ∧ l ≠ 0 ∧ l ≤ a.stdLen * 2 := by
  unfold presNonce
  cases lv kNonce with
  | none => simp
  | some l =>
    by_cases h0 : l = 0
    · simp [h0]
    · by_cases h1 : a.stdLen * 2 < l
      · simp [h0, h1] <;> omega
      · simp [h0, h1] <;> omega

theorem presResponse_ok (ds : Nat) (lv : LenView) :
    presResponse ds lv = .ok () ↔ ∃ l, lv kResponse = some l ∧ l ≠ 0 ∧ l ≤ ds * 4 := by
  unfold presResponse
  cases lv kResponse with
  | none => simp
  | some l =>
    by_cases h0 : l = 0
    · simp [h0]
    · by_cases h1 : ds * 4 < l
      · simp [h0, h1] <;> omega
      · simp [h0, h1] <;> omega

theorem presNcCnonce_ok (lv : LenView) (qop : Nat) :
    presNcCnonce lv qop = .ok () ↔
      (qop ≠ qopNone → ∃ l c, lv kNc = some l ∧ l ≠ 0 ∧ l ≤ ncMaxRaw ∧ lv kCnonce = some c ∧ c ≠ 0 ∧ c ≤ maxParam) := by
  unfold presNcCnonce
  by_cases hq : qop ≠ qopNone
  · rw [if_pos hq]
    simp only [ne_eq, hq, not_false_eq_true, forall_const]
    cases lv kNc with
    | none => simp
    | some l =>
      by_cases h0 : l = 0
      · simp [h0]
      · by_cases h1 : ncMaxRaw < l
        · simp [h0, h1] <;> omega
        · simp only [h0, h1, if_false]
          cases lv kCnonce with
          | none => simp
          | some c =>
            by_cases c0 : c = 0
            · simp [c0]
            · by_cases c1 : maxParam < c
              · simp [c0, c1] <;> omega
              · simp [c0, c1, h0] <;> omega
  · simp [hq]

theorem presRealm_ok (call : Call) (lv : LenView) (uh : Bool) :
    presRealm call lv uh = .ok () ↔
      ∃ l, lv kRealm = some l ∧ ((isPassword call.secret = true ∨ uh = true) → l ≤ maxParam) := by
  unfold presRealm
  cases lv kRealm with
  | none => simp
  | some l =>
    by_cases h : (isPassword call.secret = true ∨ uh = true) ∧ maxParam < l
    · simp [h] <;> omega
    · simp only [h, if_false, Option.some.injEq, exists_eq_left', true_iff]
      intro h2
      apply Nat.le_of_not_lt
      intro h3; exact h ⟨h2, h3⟩

theorem presUsername_ok (ds : Nat) (lv : LenView) (uh : Bool) :
    presUsername ds lv uh = .ok () ↔
      (∃ el, lv kUsername = none ∧ lv kUsernameExt = some el ∧ extMinLen ≤ el ∧ uh = false) ∨
      (∃ ul, lv kUsername = some ul ∧ lv kUsernameExt = none ∧ (uh = true → ds * 2 ≤ ul ∧ ul ≤ ds * 4)) := by
  unfold presUsername
  cases lv kUsername with
  | none =>
    cases lv kUsernameExt with
    | none => simp
    | some el =>
      by_cases h1 : extMinLen > el
      · simp [h1] <;> omega
      · cases uh <;> simp [h1] <;> omega
  | some ul =>
    cases lv kUsernameExt with
    | some el => simp
    | none =>
      cases uh
      · simp
      · by_cases h1 : ds * 2 > ul
        · simp [h1] <;> omega
        · by_cases h2 : ds * 4 < ul
          · simp [h1, h2] <;> omega
          · simp [h1, h2] <;> omega

/-- the presence stage, completely characterised -/
theorem presenceV_ok (a : Algo) (call : Call) (lv : LenView) (qop : Nat) (uh : Bool) :
    presenceV a call lv qop uh = .ok () ↔
      presUsername a.size lv uh = .ok () ∧ presRealm call lv uh = .ok () ∧ presNcCnonce lv qop = .ok () ∧
      presUri lv = .ok () ∧ presNonce a lv = .ok () ∧ presResponse a.size lv = .ok () := by
  unfold presenceV
  simp only [bind_ok]
  constructor
  · rintro ⟨_, h1, _, h2, _, h3, _, h4, _, h5, h6⟩
    exact ⟨h1, h2, h3, h4, h5, h6⟩
  · rintro ⟨h1, h2, h3, h4, h5, h6⟩
    exact ⟨(), h1, (), h2, (), h3, (), h4, (), h5, h6⟩

theorem lenView_small (d : DAuth) (k l b : Nat) (h : lenView d k = some l) (hb : l ≤ b) (hm : b ≤ maxParam) : Small d k := by
  intro p hp
  simp [lenView, hp] at h
  omega


/-- what the presence stage establishes about the sizes of the parameters used later -/
theorem presence_small (a : Algo) (call : Call) (d : DAuth) (hqp : QopParsed d) (hqi : d.qop ≠ qopInvalid)
    (h : presenceV a call (lenView d) d.qop d.userhash = .ok ()) :
    Small d kNonce ∧ Small d kResponse ∧ (d.qop ≠ qopNone → Small d kNc ∧ Small d kCnonce ∧ Small d kQop) := by
  rw [presenceV_ok] at h
  obtain ⟨_, _, h3, _, h5, h6⟩ := h
  rw [presNonce_ok] at h5
  rw [presResponse_ok] at h6
  rw [presNcCnonce_ok] at h3
  obtain ⟨l5, e5, _, b5⟩ := h5
  obtain ⟨l6, e6, _, b6⟩ := h6
  refine ⟨lenView_small d _ _ _ e5 b5 (by cases a <;> decide), lenView_small d _ _ _ e6 b6 (by cases a <;> decide), ?_⟩
  intro hq
  obtain ⟨l, c, e1, _, b1, e2, _, b2⟩ := h3 hq
  exact ⟨lenView_small d _ _ _ e1 b1 (by decide), lenView_small d _ _ _ e2 b2 (Nat.le_refl _), qop_small d hqp hqi⟩

theorem stageQopN_ok (call : Call) (q : Nat) (h : stageQopN call q = .ok ()) : q ≠ qopInvalid := by
  unfold stageQopN at h
  intro hq
  simp [hq] at h

theorem stagePre_sem (now timeout maxNc : Nat) (call : Call) (d : DAuth) (hwq : WQ d) (hqp : QopParsed d) :
    stagePre now timeout maxNc call d = specPre now timeout maxNc call (semOf d) (lenView d) := by
  unfold stagePre specPre stageAlgo stageQop stagePresence
  show _ = (do
    let a ← stageAlgoN call d.algo3
    stageQopN call d.qop
    presenceV a call (lenView d) d.qop d.userhash
    specRealm call (semOf d)
    specUsername a call (semOf d)
    let nci ← specNc maxNc (semOf d)
    let nt ← specNonce a now timeout (semOf d)
    Except.ok (a, nci, nt.1, nt.2))
  cases hA : stageAlgoN call d.algo3 with
  | error e => rfl
  | ok a =>
    cases hQ : stageQopN call d.qop with
    | error e => rfl
    | ok u =>
      cases hP : presenceV a call (lenView d) d.qop d.userhash with
      | error e => simp [bind, Except.bind, hP]
      | ok u2 =>
        obtain ⟨hn, _, hq3⟩ := presence_small a call d hqp (stageQopN_ok call _ hQ) hP
        simp only [bind, Except.bind, hP, stageRealm_sem call d hwq, stageUsername_sem a call d hwq,
          stageNc_sem maxNc d (fun h => (hq3 h).1), stageNonce_sem a now timeout d hn]

theorem specPre_ok (now timeout maxNc : Nat) (call : Call) (c : Cred) (lv : LenView) (a : Algo) (nci : Nat) (n : Bytes) (t : Nat)
    (h : specPre now timeout maxNc call c lv = .ok (a, nci, n, t)) :
    stageAlgoN call c.algo3 = .ok a ∧ stageQopN call c.qop = .ok () ∧ presenceV a call lv c.qop c.userhash = .ok () ∧
    specRealm call c = .ok () ∧ specUsername a call c = .ok () ∧ specNc maxNc c = .ok nci ∧
    specNonce a now timeout c = .ok (n, t) := by
  unfold specPre at h
  simp only [bind_ok] at h
  obtain ⟨a', h1, _, h2, _, h3, _, h4, _, h5, nci', h6, nt, h7, h8⟩ := h
  simp only [Except.ok.injEq, Prod.mk.injEq] at h8
  obtain ⟨rfl, rfl, rfl, rfl⟩ := h8
  exact ⟨h1, h2, h3, h4, h5, h6, h7⟩

theorem stagePost_sem (cfg : Cfg) (r : Req) (call : Call) (d : DAuth) (a : Algo) (t : Nat) (hwq : WQ d)
    (h0 : Small d kResponse) (hn : Small d kNonce) (h123 : d.qop ≠ qopNone → Small d kNc ∧ Small d kCnonce ∧ Small d kQop) :
    stagePost cfg r call d a t = specPost cfg r call (semOf d) (lenView d) a t := by
  unfold stagePost specPost
  rw [stageUri_sem, stageBind_sem cfg a r call d t hwq]
  cases specUri cfg r (semOf d) (lenView d) with
  | error e => rfl
  | ok uri => simp only [bind, Except.bind, stageResponse_sem a r call d uri h0 hn h123]; rfl

/-- T2: the model's answer for parsed parameters `d` is the expected class of their meaning -/
theorem checkInner_sem (cfg : Cfg) (tbl : Mhd.Nonce.Table) (now : Nat) (r : Req) (call : Call) (timeout maxNc : Nat)
    (d : DAuth) (hwq : WQ d) (hqp : QopParsed d) :
    checkInner cfg tbl now r call timeout maxNc (some d) =
      expectedClass cfg tbl now r call timeout maxNc (semOf d) (lenView d) := by
  unfold checkInner expectedClass
  simp only
  rw [stagePre_sem now timeout maxNc call d hwq hqp]
  cases hS : specPre now timeout maxNc call (semOf d) (lenView d) with
  | error e => rfl
  | ok x =>
    obtain ⟨a, nci, n, t⟩ := x
    obtain ⟨_, hQ, hP, _⟩ := specPre_ok _ _ _ _ _ _ _ _ _ _ hS
    obtain ⟨hn, h0, h123⟩ := presence_small a call d hqp (stageQopN_ok call _ hQ) hP
    simp only [stagePost_sem cfg r call d a t hwq h0 hn h123]
    rfl

end Mhd.Dauth
