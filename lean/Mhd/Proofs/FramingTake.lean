/-
  C03 helper lemmas, part 12: partial upload takes.  An iteration in which the handler takes only
  `k` of the `n` bytes it is offered is absorbed by the next iteration: the automaton in which the
  handler always takes everything reaches, from the state after the partial take, the same state in
  one step.  Hence every schedule of arrivals / iterations / partial takes ends (after the loop has
  run to quiescence) in the state that feeding all bytes in one piece produces.
-/
import Mhd.Model.FramingTake
import Mhd.Proofs.FramingSplit
namespace Mhd.Framing
open Mhd.Gen.Framing

set_option linter.unusedSectionVars false
variable [P : HeadParser] [L : LawfulHeadParser]

theorem offered_state (lvl : Int) (s : St) (n : Nat) (h : offered lvl s = some n) :
    s.state = .bodyReceiving ∧ s.remaining ≠ 0 := by
  unfold offered at h
  by_cases hc : s.state = .bodyReceiving ∧ s.remaining ≠ 0
  · exact hc
  · rw [if_neg hc] at h; cases h

theorem offered_chunked (lvl : Int) (s : St) (n : Nat) (h : offered lvl s = some n) (hc : s.chunked = true) :
    chunkAct lvl s.cur s.off s.buf = .data n := by
  have hs := offered_state lvl s n h
  unfold offered at h
  rw [if_pos hs] at h
  simp only [hc, if_true] at h
  cases ha : chunkAct lvl s.cur s.off s.buf with
  | data m => rw [ha] at h; cases h; rfl
  | needMore => rw [ha] at h; cases h
  | term m => rw [ha] at h; cases h
  | line a b => rw [ha] at h; cases h
  | err st => rw [ha] at h; cases h

theorem offered_identity (lvl : Int) (s : St) (n : Nat) (h : offered lvl s = some n) (hc : s.chunked = false) :
    s.buf ≠ [] ∧ n = min s.remaining s.buf.length := by
  have hs := offered_state lvl s n h
  unfold offered at h
  rw [if_pos hs] at h
  simp only [hc, Bool.false_eq_true, if_false] at h
  cases hb : s.buf with
  | nil => rw [hb] at h; cases h
  | cons c t => rw [hb] at h; cases h; exact ⟨by simp, rfl⟩

/-- taking everything that is offered is the loop iteration of the take-all automaton -/
theorem consume_full (lvl : Int) (app : App) (s : St) (n : Nat) (h : offered lvl s = some n) :
    idleStep lvl app s = some (consume s n) := by
  have hs := offered_state lvl s n h
  have hstep : idleStep lvl app s = bodyStep lvl s := by
    unfold idleStep; rw [hs.1]; simp only [hs.2, if_false]
  rw [hstep]
  by_cases hc : s.chunked = true
  · rw [bodyStep_data lvl s n hc (offered_chunked lvl s n h hc)]
    unfold consume; simp only [hc, if_true]
  · have hc' : s.chunked = false := by cases h' : s.chunked <;> simp_all
    obtain ⟨hb, hn⟩ := offered_identity lvl s n h hc'
    rw [bodyStep_identity lvl s hc' hb, ← hn]
    unfold consume; simp only [hc', Bool.false_eq_true, if_false]

/-- after a partial take the rest of what was offered is offered again, and taking it then gives
    the state that taking everything at once would have given -/
theorem consume_partial (lvl : Int) (s : St) (n k : Nat) (h : offered lvl s = some n) (hk : k < n) (wf : ChunkWF s) :
    offered lvl (consume s k) = some (n - k) ∧ consume (consume s k) (n - k) = consume s n ∧
    ChunkWF (consume s k) := by
  have hs := offered_state lvl s n h
  by_cases hc : s.chunked = true
  · have ha := offered_chunked lvl s n h hc
    obtain ⟨h1, h2, hb, hn⟩ := chunkAct_data lvl s.cur s.off s.buf n ha
    unfold ChunkWF at wf
    have hlt : s.off < s.cur := by
      rcases Nat.lt_or_ge s.off s.cur with h' | h'
      · exact h'
      · exact absurd ⟨Nat.le_antisymm wf h', h2⟩ h1
    have hkb : k < s.buf.length := by omega
    have hcs : consume s k = { s with buf := s.buf.drop k, off := s.off + k, out := emitUpload (s.buf.take k) s.out } := by
      unfold consume; simp only [hc, if_true]
    have hdne : s.buf.drop k ≠ [] := by
      intro e
      have := congrArg List.length e
      simp only [List.length_drop, List.length_nil] at this; omega
    have hact : chunkAct lvl s.cur (s.off + k) (s.buf.drop k) = .data (n - k) := by
      rw [chunkAct_data_of lvl s.cur (s.off + k) (s.buf.drop k) (by omega) h2 hdne]
      congr 1
      simp only [List.length_drop]; omega
    refine ⟨?_, ?_, ?_⟩
    · rw [hcs]; unfold offered
      simp only [hs.1, hs.2, ne_eq, not_false_eq_true, and_self, if_true, hc, hact]
    · rw [hcs]; unfold consume
      simp only [hc, if_true, emitUpload_emitUpload, List.drop_drop]
      have e1 : k + (n - k) = n := by omega
      have e2 : List.take k s.buf ++ List.take (n - k) (List.drop k s.buf) = List.take n s.buf := by
        have := List.take_add (l := s.buf) (i := k) (j := n - k)
        rw [e1] at this; exact this.symm
      have e3 : s.off + k + (n - k) = s.off + n := by omega
      rw [e2, e3]
      simp only [e1]
    · rw [hcs]; unfold ChunkWF; simp only; omega
  · have hc' : s.chunked = false := by cases h' : s.chunked <;> simp_all
    obtain ⟨hb, hn⟩ := offered_identity lvl s n h hc'
    have hkb : k < s.buf.length := by omega
    have hkr : k < s.remaining := by omega
    have hcs : consume s k = { s with buf := s.buf.drop k, remaining := s.remaining - k, out := emitUpload (s.buf.take k) s.out } := by
      unfold consume; simp only [hc', Bool.false_eq_true, if_false]
      rw [if_neg (show ¬ (s.remaining - k = 0) by omega)]
    have hdne : s.buf.drop k ≠ [] := by
      intro e
      have := congrArg List.length e
      simp only [List.length_drop, List.length_nil] at this; omega
    refine ⟨?_, ?_, ?_⟩
    · rw [hcs]; unfold offered
      have : s.remaining - k ≠ 0 := by omega
      simp only [hs.1, this, ne_eq, not_false_eq_true, and_self, if_true, hc', Bool.false_eq_true, if_false]
      cases hd : s.buf.drop k with
      | nil => exact absurd hd hdne
      | cons c t =>
        simp only [Option.some.injEq]
        have : (c :: t).length = s.buf.length - k := by rw [← hd]; simp
        rw [this]; omega
    · rw [hcs]; unfold consume
      simp only [hc', Bool.false_eq_true, if_false, emitUpload_emitUpload, List.drop_drop]
      have e1 : k + (n - k) = n := by omega
      have e2 : List.take k s.buf ++ List.take (n - k) (List.drop k s.buf) = List.take n s.buf := by
        have := List.take_add (l := s.buf) (i := k) (j := n - k)
        rw [e1] at this; exact this.symm
      have e3 : s.remaining - k - (n - k) = s.remaining - n := by omega
      rw [e2, e3]
      simp only [e1]
    · rw [hcs]; exact wf

/-- **a partial take is absorbed by the next iteration** -/
theorem take_confluent (lvl : Int) (app : App) (k : Nat) (s s1 : St) (h : takeStep lvl k s = some s1)
    (wf : ChunkWF s) :
    ∃ s', idleStep lvl app s = some s' ∧ ChunkWF s1 ∧ (s1 = s' ∨ idleStep lvl app s1 = some s') := by
  unfold takeStep at h
  cases ho : offered lvl s with
  | none => rw [ho] at h; cases h
  | some n =>
    rw [ho] at h; cases h
    have hfull := consume_full lvl app s n ho
    refine ⟨consume s n, hfull, ?_⟩
    by_cases hk : k < n
    · have hm : min k n = k := by omega
      rw [hm]
      obtain ⟨h1, h2, h3⟩ := consume_partial lvl s n k ho hk wf
      refine ⟨h3, Or.inr ?_⟩
      rw [consume_full lvl app (consume s k) (n - k) h1, h2]
    · have hm : min k n = n := by omega
      rw [hm]
      exact ⟨(step_ok lvl app s _ hfull wf).1, Or.inl rfl⟩

theorem feed_of_step (lvl : Int) (app : App) (s s' : St) (b : Bytes) (wf : ChunkWF s)
    (h : idleStep lvl app s = some s') : feed lvl app s b = feed lvl app s' b := by
  rw [feed_eq, feed_eq]
  have hnt : ¬ (s.state = .closed ∨ s.state = .outOfDomain) := by
    intro hc
    unfold idleStep at h
    cases hc with
    | inl hc => simp [hc] at h
    | inr hc => simp [hc] at h
  have : recv s b = extend s b := by unfold recv; simp [hnt]
  rw [this]
  exact step_comm lvl app s s' b wf h

theorem applyInp_bytes (lvl : Int) (app : App) (s : St) (b : Bytes) : applyInp lvl app s (.bytes b) = recv s b := rfl

/-- every schedule, then the loop to quiescence = all the bytes fed in one piece -/
theorem sched_eq_feed (lvl : Int) (app : App) (is : List Inp) (s : St) (wf : ChunkWF s) :
    idle lvl app (runSched lvl app is s) = feed lvl app s (is.flatMap Inp.arrived) := by
  induction is generalizing s with
  | nil =>
    simp only [runSched, List.foldl_nil, List.flatMap_nil]
    rw [feed_eq, recv_nil]
  | cons i t ih =>
    have hrun : runSched lvl app (i :: t) s = runSched lvl app t (applyInp lvl app s i) := rfl
    rw [hrun, List.flatMap_cons]
    cases i with
    | bytes b =>
      rw [applyInp_bytes, ih (recv s b) (chunkWF_recv s b wf)]
      simp only [Inp.arrived]
      rw [feed_eq, feed_eq, recv_recv]
    | step =>
      simp only [Inp.arrived, List.nil_append]
      cases hs : idleStep lvl app s with
      | none =>
        have : applyInp lvl app s .step = s := by simp only [applyInp, hs, Option.getD_none]
        rw [this, ih s wf]
      | some s' =>
        have : applyInp lvl app s .step = s' := by simp only [applyInp, hs, Option.getD_some]
        rw [this, ih s' (step_ok lvl app s s' hs wf).1]
        exact (feed_of_step lvl app s s' _ wf hs).symm
    | take k =>
      simp only [Inp.arrived, List.nil_append]
      cases hs : takeStep lvl k s with
      | none =>
        have : applyInp lvl app s (.take k) = s := by simp only [applyInp, hs, Option.getD_none]
        rw [this, ih s wf]
      | some s1 =>
        have : applyInp lvl app s (.take k) = s1 := by simp only [applyInp, hs, Option.getD_some]
        rw [this]
        obtain ⟨s', h1, wf1, h2⟩ := take_confluent lvl app k s s1 hs wf
        rw [ih s1 wf1, feed_of_step lvl app s s' _ wf h1]
        cases h2 with
        | inl e => rw [e]
        | inr h2 => exact feed_of_step lvl app s1 s' _ wf1 h2

/-- … from a fresh connection: the state that `runSegs` reaches on the concatenated bytes -/
theorem sched_eq_runSegs (lvl : Int) (app : App) (is : List Inp) :
    idle lvl app (runSched lvl app is {}) = runSegs lvl app [is.flatMap Inp.arrived] := by
  rw [sched_eq_feed lvl app is {} (by simp [ChunkWF])]
  rfl

end Mhd.Framing
