/-
  Invariants of the timeout bookkeeping and their preservation by the primitive operations.
-/
import Mhd.Proofs.TmoFn
namespace Mhd.Tmo
open Mhd.Gen.Tmo

/-- the variant with all five C10 repairs (the select-loop flag is arbitrary) -/
def Fixed (v : Variant) : Prop :=
  v.optSorted = true ∧ v.optSusp = true ∧ v.stampNew = true ∧ v.hintSafe = true ∧ v.actSorted = true

/-- largest timeout that can be configured: `unsigned int` seconds as the harness allows, in ms -/
def tmoMax : Nat := 4000000 * msPerSec

@[simp] theorem set_c (d : Daemon) (i j : Id) (x : Conn) : (d.set i x).c j = if j = i then x else d.c j := rfl
@[simp] theorem set_cfg (d : Daemon) (i : Id) (x : Conn) : (d.set i x).cfg = d.cfg := rfl
@[simp] theorem set_now (d : Daemon) (i : Id) (x : Conn) : (d.set i x).now = d.now := rfl
@[simp] theorem set_back (d : Daemon) (i : Id) (x : Conn) : (d.set i x).back = d.back := rfl
@[simp] theorem set_used (d : Daemon) (i : Id) (x : Conn) : (d.set i x).used = d.used := rfl
@[simp] theorem set_newL (d : Daemon) (i : Id) (x : Conn) : (d.set i x).newL = d.newL := rfl
@[simp] theorem set_conns (d : Daemon) (i : Id) (x : Conn) : (d.set i x).conns = d.conns := rfl
@[simp] theorem set_normal (d : Daemon) (i : Id) (x : Conn) : (d.set i x).normal = d.normal := rfl
@[simp] theorem set_manual (d : Daemon) (i : Id) (x : Conn) : (d.set i x).manual = d.manual := rfl
@[simp] theorem set_susp (d : Daemon) (i : Id) (x : Conn) : (d.set i x).susp = d.susp := rfl
@[simp] theorem set_cleanup (d : Daemon) (i : Id) (x : Conn) : (d.set i x).cleanup = d.cleanup := rfl
@[simp] theorem set_eready (d : Daemon) (i : Id) (x : Conn) : (d.set i x).eready = d.eready := rfl
@[simp] theorem set_kq (d : Daemon) (i : Id) (x : Conn) : (d.set i x).kq = d.kq := rfl
@[simp] theorem set_fault (d : Daemon) (i : Id) (x : Conn) : (d.set i x).fault = d.fault := rfl
@[simp] theorem set_dataPending (d : Daemon) (i : Id) (x : Conn) : (d.set i x).dataPending = d.dataPending := rfl
@[simp] theorem set_resuming (d : Daemon) (i : Id) (x : Conn) : (d.set i x).resuming = d.resuming := rfl
@[simp] theorem set_haveNew (d : Daemon) (i : Id) (x : Conn) : (d.set i x).haveNew = d.haveNew := rfl
@[simp] theorem la_def (d : Daemon) (i : Id) : d.la i = (d.c i).la := rfl

/-- Structural and temporal invariant of the daemon's timeout bookkeeping. -/
structure Inv (d : Daemon) : Prop where
  nofault : d.fault = false
  ndConns : d.conns.Nodup
  ndNormal : d.normal.Nodup
  ndManual : d.manual.Nodup
  ndSusp : d.susp.Nodup
  ndNew : d.newL.Nodup
  ndClean : d.cleanup.Nodup
  ndEready : d.eready.Nodup
  connsIff : ∀ i, i ∈ d.conns ↔ (i ∈ d.normal ∨ i ∈ d.manual)
  normalT : ∀ i, i ∈ d.normal → (d.c i).tmo = d.cfg.dtmo
  manualT : ∀ i, i ∈ d.manual → (d.c i).tmo ≠ d.cfg.dtmo
  connsS : ∀ i, i ∈ d.conns → (d.c i).suspended = false
  suspS : ∀ i, i ∈ d.susp → (d.c i).suspended = true
  newT : ∀ i, i ∈ d.newL → (d.c i).tmo = d.cfg.dtmo ∧ (d.c i).suspended = false
  disjNew : ∀ i, i ∈ d.newL → i ∉ d.conns ∧ i ∉ d.susp ∧ i ∉ d.cleanup
  disjClean : ∀ i, i ∈ d.cleanup → i ∉ d.conns ∧ i ∉ d.susp
  usedAll : ∀ i, i ∈ d.newL ∨ i ∈ d.conns ∨ i ∈ d.susp ∨ i ∈ d.cleanup → i ∈ d.used
  ready : ∀ i, i ∈ d.eready ∨ i ∈ d.kq → i ∈ d.conns ∨ i ∈ d.cleanup
  nonEpoll : d.cfg.epoll = false → d.eready = [] ∧ d.kq = []
  -- temporal part: no stamp lies beyond the highest value the clock has shown (`now + back`);
  -- the order of the normal list does not depend on the clock at all
  laLe : ∀ i, (d.c i).la ≤ d.now + d.back
  sorted : d.cfg.dtmo ≠ 0 → d.normal.Pairwise (fun a b => (d.c b).la ≤ (d.c a).la)
  tmoB : ∀ i, (d.c i).tmo ≤ tmoMax
  dtmoB : d.cfg.dtmo ≤ tmoMax

theorem inv_init (cfg : Cfg) (h : cfg.dtmo ≤ tmoMax) : Inv (Daemon.init cfg) := by
  constructor <;> simp [Daemon.init, clock0, h]

/-- an update of a connection record that keeps stamp, timeout and the suspended flag -/
theorem inv_set_iness {d : Daemon} (h : Inv d) (i : Id) (x : Conn)
    (h1 : x.la = (d.c i).la) (h2 : x.tmo = (d.c i).tmo) (h3 : x.suspended = (d.c i).suspended) :
    Inv (d.set i x) := by
  have key : ∀ j, ((d.set i x).c j).la = (d.c j).la ∧ ((d.set i x).c j).tmo = (d.c j).tmo ∧
      ((d.set i x).c j).suspended = (d.c j).suspended := by
    intro j; by_cases hj : j = i <;> simp [hj, h1, h2, h3]
  constructor
  all_goals try simp only [set_fault, set_conns, set_normal, set_manual, set_susp, set_newL, set_cleanup, set_used,
    set_eready, set_kq, set_cfg, set_now, set_back, (key _).1, (key _).2.1, (key _).2.2]
  · exact h.nofault
  · exact h.ndConns
  · exact h.ndNormal
  · exact h.ndManual
  · exact h.ndSusp
  · exact h.ndNew
  · exact h.ndClean
  · exact h.ndEready
  · exact h.connsIff
  · exact h.normalT
  · exact h.manualT
  · exact h.connsS
  · exact h.suspS
  · exact h.newT
  · exact h.disjNew
  · exact h.disjClean
  · exact h.usedAll
  · exact h.ready
  · exact h.nonEpoll
  · exact h.laLe
  · exact h.sorted
  · exact h.tmoB
  · exact h.dtmoB


/-- normalise projections of `Daemon.set` -/
macro "nrm" : tactic => `(tactic| simp only [set_c, set_cfg, set_now, set_back, set_used, set_newL, set_conns, set_normal,
  set_manual, set_susp, set_cleanup, set_eready, set_kq, set_fault, la_def] at *)

theorem sorted_congr {l : List Id} {f g : Id → Nat} (hfg : ∀ a, a ∈ l → f a = g a)
    (h : l.Pairwise (fun a b => f b ≤ f a)) : l.Pairwise (fun a b => g b ≤ g a) := by
  refine List.Pairwise.imp_of_mem ?_ h
  intro a b ha hb hab
  rw [← hfg a ha, ← hfg b hb]; exact hab

theorem mem_normal_of_conns {d : Daemon} (h : Inv d) {i : Id} (hi : i ∈ d.conns) (ht : (d.c i).tmo = d.cfg.dtmo) :
    i ∈ d.normal := by
  rcases (h.connsIff i).1 hi with h1 | h1
  · exact h1
  · exact absurd ht (h.manualT i h1)

theorem mem_manual_of_conns {d : Daemon} (h : Inv d) {i : Id} (hi : i ∈ d.conns) (ht : (d.c i).tmo ≠ d.cfg.dtmo) :
    i ∈ d.manual := by
  rcases (h.connsIff i).1 hi with h1 | h1
  · exact absurd (h.normalT i h1) ht
  · exact h1



/-- pointwise facts of the invariant at `j`, for `grind` -/
macro "facts" h:ident j:ident : tactic => `(tactic|
  (have h1 := ($h).connsIff $j; have h2 := ($h).normalT $j; have h3 := ($h).manualT $j; have h4 := ($h).connsS $j
   have h5 := ($h).suspS $j; have h6 := ($h).newT $j; have h7 := ($h).disjNew $j; have h8 := ($h).disjClean $j
   have h9 := ($h).usedAll $j; have h10 := ($h).ready $j; have h11 := ($h).laLe $j; have h12 := ($h).tmoB $j))

/-- A connection that is in no timeout list (just resumed: in the suspended list; just taken from the
    queue of new connections: in no list) enters `connections` and the head of the timeout list that
    matches its timeout.  `d'` is described relative to `d`. -/
theorem inv_activate {d d' : Daemon} (h : Inv d) (i : Id)
    (hnc : i ∉ d.conns) (hncl : i ∉ d.cleanup) (hnn : i ∉ d.newL) (hu : i ∈ d.used)
    (hcfg : d'.cfg = d.cfg) (hnow : d'.now = d.now) (hback : d'.back = d.back) (hfault : d'.fault = d.fault) (hused : d'.used = d.used)
    (hnewL : d'.newL = d.newL) (hcleanup : d'.cleanup = d.cleanup)
    (hconns : d'.conns = i :: d.conns) (hsusp : d'.susp = d.susp.erase i)
    (hnormal : if (d'.c i).tmo = d.cfg.dtmo then
        ((∀ j, j ∈ d'.normal ↔ j = i ∨ j ∈ d.normal) ∧ d'.normal.Nodup ∧
          (d.cfg.dtmo ≠ 0 → d'.normal.Pairwise (fun a b => (d'.c b).la ≤ (d'.c a).la)))
      else d'.normal = d.normal)
    (hmanual : d'.manual = if (d'.c i).tmo = d.cfg.dtmo then d.manual else i :: d.manual)
    (hnde : d'.eready.Nodup) (hnep : d'.cfg.epoll = false → d'.eready = [] ∧ d'.kq = [])
    (hrdy : ∀ j, j ∈ d'.eready ∨ j ∈ d'.kq → j = i ∨ j ∈ d.eready ∨ j ∈ d.kq)
    (hc : ∀ j, j ≠ i → d'.c j = d.c j)
    (hxs : (d'.c i).suspended = false) (hxl : (d'.c i).la ≤ d.now + d.back) (hxt : (d'.c i).tmo ≤ tmoMax) :
    Inv d' := by
  have eS : ∀ j, j ∈ d.susp.erase i ↔ j ≠ i ∧ j ∈ d.susp := fun j => List.Nodup.mem_erase_iff h.ndSusp
  have ndS := List.Nodup.erase i h.ndSusp
  have hin : i ∉ d.normal := fun hm => hnc ((h.connsIff i).2 (Or.inl hm))
  have him : i ∉ d.manual := fun hm => hnc ((h.connsIff i).2 (Or.inr hm))
  constructor
  case nofault => rw [hfault]; exact h.nofault
  case ndConns => rw [hconns]; exact List.nodup_cons.2 ⟨hnc, h.ndConns⟩
  case ndNormal => split at hnormal; exact hnormal.2.1; rw [hnormal]; exact h.ndNormal
  case ndManual => rw [hmanual]; split; exact h.ndManual; exact List.nodup_cons.2 ⟨him, h.ndManual⟩
  case ndSusp => rw [hsusp]; exact ndS
  case ndNew => rw [hnewL]; exact h.ndNew
  case ndClean => rw [hcleanup]; exact h.ndClean
  case dtmoB => rw [hcfg]; exact h.dtmoB
  case ndEready => exact hnde
  case nonEpoll => exact hnep
  case sorted =>
    rw [hcfg]; intro hd
    have hso := h.sorted hd
    have hcong : d.normal.Pairwise (fun a b => (d'.c b).la ≤ (d'.c a).la) := by
      refine sorted_congr ?_ hso
      intro a ha; have : a ≠ i := fun e => hin (e ▸ ha); rw [hc a this]
    split at hnormal
    · exact hnormal.2.2 hd
    · rw [hnormal]; exact hcong
  all_goals
    intro j
    facts h j
    have hcj := hc j
    by_cases e : j = i
    · subst e; split at hnormal <;> grind
    · split at hnormal <;> grind


/-- A live connection gets a new stamp and/or timeout and is moved to the timeout list that matches
    (`d'.normal` is characterised by its members, absence of duplicates and order). -/
theorem inv_retime {d d' : Daemon} (h : Inv d) (i : Id) (hi : i ∈ d.conns)
    (hcfg : d'.cfg = d.cfg) (hnow : d'.now = d.now) (hback : d'.back = d.back) (hfault : d'.fault = d.fault) (hused : d'.used = d.used)
    (hnewL : d'.newL = d.newL) (hcleanup : d'.cleanup = d.cleanup)
    (hconns : d'.conns = d.conns) (hsusp : d'.susp = d.susp)
    (hnormal : if (d'.c i).tmo = d.cfg.dtmo then
        ((∀ j, j ∈ d'.normal ↔ j = i ∨ j ∈ d.normal.erase i) ∧ d'.normal.Nodup ∧
          (d.cfg.dtmo ≠ 0 → d'.normal.Pairwise (fun a b => (d'.c b).la ≤ (d'.c a).la)))
      else d'.normal = d.normal.erase i)
    (hmanual : if (d'.c i).tmo = d.cfg.dtmo then d'.manual = d.manual.erase i
      else ((∀ j, j ∈ d'.manual ↔ j = i ∨ j ∈ d.manual.erase i) ∧ d'.manual.Nodup))
    (hnde : d'.eready.Nodup) (hnep : d'.cfg.epoll = false → d'.eready = [] ∧ d'.kq = [])
    (hrdy : ∀ j, j ∈ d'.eready ∨ j ∈ d'.kq → j = i ∨ j ∈ d.eready ∨ j ∈ d.kq)
    (hc : ∀ j, j ≠ i → d'.c j = d.c j)
    (hxs : (d'.c i).suspended = false) (hxl : (d'.c i).la ≤ d.now + d.back) (hxt : (d'.c i).tmo ≤ tmoMax) :
    Inv d' := by
  have eN : ∀ j, j ∈ d.normal.erase i ↔ j ≠ i ∧ j ∈ d.normal := fun j => List.Nodup.mem_erase_iff h.ndNormal
  have eM : ∀ j, j ∈ d.manual.erase i ↔ j ≠ i ∧ j ∈ d.manual := fun j => List.Nodup.mem_erase_iff h.ndManual
  have ndN := List.Nodup.erase i h.ndNormal
  have ndM := List.Nodup.erase i h.ndManual
  have niM : i ∉ d.manual.erase i := List.Nodup.not_mem_erase h.ndManual
  constructor
  case nofault => rw [hfault]; exact h.nofault
  case ndConns => rw [hconns]; exact h.ndConns
  case ndNormal => split at hnormal; exact hnormal.2.1; rw [hnormal]; exact ndN
  case ndManual => split at hmanual; rw [hmanual]; exact ndM; exact hmanual.2
  case ndSusp => rw [hsusp]; exact h.ndSusp
  case ndNew => rw [hnewL]; exact h.ndNew
  case ndClean => rw [hcleanup]; exact h.ndClean
  case dtmoB => rw [hcfg]; exact h.dtmoB
  case ndEready => exact hnde
  case nonEpoll => exact hnep
  case sorted =>
    rw [hcfg]; intro hd
    split at hnormal
    · exact hnormal.2.2 hd
    · rw [hnormal]
      refine sorted_congr ?_ (List.Pairwise.sublist List.erase_sublist (h.sorted hd))
      intro a ha; have : a ≠ i := ((eN a).1 ha).1; rw [hc a this]
  all_goals
    intro j
    facts h j
    have hcj := hc j
    have hii := h.connsS i hi
    have hsi := h.suspS i
    have hni := h.disjNew i
    have hci := h.disjClean i
    by_cases e : j = i
    · subst e; split at hnormal <;> split at hmanual <;> grind
    · split at hnormal <;> split at hmanual <;> grind

/-- A live connection leaves `connections` and its timeout list: into the suspended list
    (`toSusp`, flag set) or into the cleanup list. -/
theorem inv_deactivate {d d' : Daemon} (h : Inv d) (i : Id) (hi : i ∈ d.conns) (toSusp : Bool)
    (hcfg : d'.cfg = d.cfg) (hnow : d'.now = d.now) (hback : d'.back = d.back) (hfault : d'.fault = d.fault) (hused : d'.used = d.used)
    (hnewL : d'.newL = d.newL)
    (hcleanup : d'.cleanup = if toSusp then d.cleanup else i :: d.cleanup)
    (hconns : d'.conns = d.conns.erase i)
    (hsusp : d'.susp = if toSusp then i :: d.susp else d.susp)
    (hnormal : d'.normal = d.normal.erase i) (hmanual : d'.manual = d.manual.erase i)
    (hnde : d'.eready.Nodup) (hnep : d'.cfg.epoll = false → d'.eready = [] ∧ d'.kq = [])
    (hrdy : ∀ j, j ∈ d'.eready ∨ j ∈ d'.kq → (j ≠ i ∨ toSusp = false) ∧ (j ∈ d.eready ∨ j ∈ d.kq))
    (hc : ∀ j, j ≠ i → d'.c j = d.c j)
    (hxs : (d'.c i).suspended = toSusp) (hxl : (d'.c i).la = (d.c i).la) (hxt : (d'.c i).tmo = (d.c i).tmo) :
    Inv d' := by
  have eN : ∀ j, j ∈ d.normal.erase i ↔ j ≠ i ∧ j ∈ d.normal := fun j => List.Nodup.mem_erase_iff h.ndNormal
  have eM : ∀ j, j ∈ d.manual.erase i ↔ j ≠ i ∧ j ∈ d.manual := fun j => List.Nodup.mem_erase_iff h.ndManual
  have eC : ∀ j, j ∈ d.conns.erase i ↔ j ≠ i ∧ j ∈ d.conns := fun j => List.Nodup.mem_erase_iff h.ndConns
  have hii := h.connsS i hi
  have hsi : i ∉ d.susp := fun hm => by have := h.suspS i hm; simp [hii] at this
  have hci : i ∉ d.cleanup := fun hm => (h.disjClean i hm).1 hi
  constructor
  case nofault => rw [hfault]; exact h.nofault
  case ndConns => rw [hconns]; exact List.Nodup.erase i h.ndConns
  case ndNormal => rw [hnormal]; exact List.Nodup.erase i h.ndNormal
  case ndManual => rw [hmanual]; exact List.Nodup.erase i h.ndManual
  case ndSusp => rw [hsusp]; split; exact List.nodup_cons.2 ⟨hsi, h.ndSusp⟩; exact h.ndSusp
  case ndNew => rw [hnewL]; exact h.ndNew
  case ndClean => rw [hcleanup]; split; exact h.ndClean; exact List.nodup_cons.2 ⟨hci, h.ndClean⟩
  case dtmoB => rw [hcfg]; exact h.dtmoB
  case ndEready => exact hnde
  case nonEpoll => exact hnep
  case sorted =>
    rw [hcfg, hnormal]; intro hd
    refine sorted_congr ?_ (List.Pairwise.sublist List.erase_sublist (h.sorted hd))
    intro a ha; have : a ≠ i := ((eN a).1 ha).1; rw [hc a this]
  all_goals
    intro j
    facts h j
    have hcj := hc j
    have hni := h.disjNew i
    have hrj := hrdy j
    by_cases e : j = i
    · subst e; cases toSusp <;> grind
    · cases toSusp <;> grind

/-- the record of a connection that is in no timeout list changes (suspended connection:
    override or nothing essential; queued or unknown id: anything goes for stamp ≤ now) -/
theorem inv_offlist {d d' : Daemon} (h : Inv d) (i : Id) (hnc : i ∉ d.conns) (hnn : i ∉ d.newL)
    (hcfg : d'.cfg = d.cfg) (hnow : d'.now = d.now) (hback : d'.back = d.back) (hfault : d'.fault = d.fault) (hused : d'.used = d.used)
    (hnewL : d'.newL = d.newL) (hcleanup : d'.cleanup = d.cleanup)
    (hconns : d'.conns = d.conns) (hsusp : d'.susp = d.susp)
    (hnormal : d'.normal = d.normal) (hmanual : d'.manual = d.manual)
    (hnde : d'.eready.Nodup) (hnep : d'.cfg.epoll = false → d'.eready = [] ∧ d'.kq = [])
    (hrdy : ∀ j, j ∈ d'.eready ∨ j ∈ d'.kq → j ∈ d.eready ∨ j ∈ d.kq)
    (hc : ∀ j, j ≠ i → d'.c j = d.c j)
    (hxs : (d'.c i).suspended = (d.c i).suspended ∨ i ∉ d.susp) (hxl : (d'.c i).la ≤ d.now + d.back)
    (hxt : (d'.c i).tmo ≤ tmoMax) :
    Inv d' := by
  have hin : i ∉ d.normal := fun hm => hnc ((h.connsIff i).2 (Or.inl hm))
  have him : i ∉ d.manual := fun hm => hnc ((h.connsIff i).2 (Or.inr hm))
  constructor
  case nofault => rw [hfault]; exact h.nofault
  case ndConns => rw [hconns]; exact h.ndConns
  case ndNormal => rw [hnormal]; exact h.ndNormal
  case ndManual => rw [hmanual]; exact h.ndManual
  case ndSusp => rw [hsusp]; exact h.ndSusp
  case ndNew => rw [hnewL]; exact h.ndNew
  case ndClean => rw [hcleanup]; exact h.ndClean
  case dtmoB => rw [hcfg]; exact h.dtmoB
  case ndEready => exact hnde
  case nonEpoll => exact hnep
  case sorted =>
    rw [hcfg, hnormal]; intro hd
    refine sorted_congr ?_ (h.sorted hd)
    intro a ha; have : a ≠ i := fun e => hin (e ▸ ha); rw [hc a this]
  all_goals
    intro j
    facts h j
    have hcj := hc j
    have hrj := hrdy j
    by_cases e : j = i
    · subst e; grind
    · grind

/-- changes that touch neither a list nor stamp/timeout/suspended of any connection -/
theorem inv_iness {d d' : Daemon} (h : Inv d)
    (hcfg : d'.cfg = d.cfg) (hnow : d'.now = d.now) (hback : d'.back = d.back) (hfault : d'.fault = d.fault) (hused : d'.used = d.used)
    (hnewL : d'.newL = d.newL) (hcleanup : d'.cleanup = d.cleanup)
    (hconns : d'.conns = d.conns) (hsusp : d'.susp = d.susp)
    (hnormal : d'.normal = d.normal) (hmanual : d'.manual = d.manual)
    (hnde : d'.eready.Nodup) (hnep : d'.cfg.epoll = false → d'.eready = [] ∧ d'.kq = [])
    (hrdy : ∀ j, j ∈ d'.eready ∨ j ∈ d'.kq → j ∈ d.eready ∨ j ∈ d.kq ∨ j ∈ d.conns ∨ j ∈ d.cleanup)
    (hc : ∀ j, (d'.c j).la = (d.c j).la ∧ (d'.c j).tmo = (d.c j).tmo ∧ (d'.c j).suspended = (d.c j).suspended) :
    Inv d' := by
  constructor
  case nofault => rw [hfault]; exact h.nofault
  case ndConns => rw [hconns]; exact h.ndConns
  case ndNormal => rw [hnormal]; exact h.ndNormal
  case ndManual => rw [hmanual]; exact h.ndManual
  case ndSusp => rw [hsusp]; exact h.ndSusp
  case ndNew => rw [hnewL]; exact h.ndNew
  case ndClean => rw [hcleanup]; exact h.ndClean
  case dtmoB => rw [hcfg]; exact h.dtmoB
  case ndEready => exact hnde
  case nonEpoll => exact hnep
  case sorted =>
    rw [hcfg, hnormal]; intro hd
    refine sorted_congr ?_ (h.sorted hd)
    intro a _; rw [(hc a).1]
  all_goals
    intro j
    facts h j
    have hcj := hc j
    have hrj := hrdy j
    grind

end Mhd.Tmo
