/-
  C14 helper lemmas, part 11: find_auth_rq_header_ completely characterised.
-/
import Mhd.Proofs.AuthBasic
namespace Mhd.Auth
open Mhd.Gen.Auth

/-! ### find_auth_rq_header_ -/

theorem eqClN_iff (a b : Bytes) : eqClN a b = true ↔ a.map toLowerB = b.map toLowerB := by
  induction a generalizing b with
  | nil => cases b <;> simp [eqClN]
  | cons x xs ih =>
    cases b with
    | nil => simp [eqClN]
    | cons y ys => simp [eqClN, eqCl_iff, ih]

theorem prefixCl_iff (inp nm : Bytes) :
    prefixCl inp nm = true ↔ nm.length ≤ inp.length ∧ (inp.take nm.length).map toLowerB = nm.map toLowerB := by
  induction nm generalizing inp with
  | nil => cases inp <;> simp [prefixCl]
  | cons y ys ih =>
    cases inp with
    | nil => simp [prefixCl]
    | cons x xs =>
      simp only [prefixCl, Bool.and_eq_true, eqCl_iff, ih, List.length_cons, List.take_succ_cons, List.map_cons,
        List.cons.injEq, Nat.add_le_add_iff_right]
      constructor
      · rintro ⟨h1, h2, h3⟩; exact ⟨h2, h1, h3⟩
      · rintro ⟨h2, h1, h3⟩; exact ⟨h1, h2, h3⟩

/-- `find_auth_rq_header_`, one list element, completely: a header matches iff it is of kind HEADER, its name
    is "Authorization" in any letter case, its value starts with the scheme token in any letter case and
    the token is the whole value or is followed by SP or HT; the parameters start after that one byte -/
theorem hdrMatch_exact (tok : Bytes) (h : Hdr) :
    hdrMatch tok h =
      if h.kind = headerKind ∧ h.name.map toLowerB = authHeader.map toLowerB ∧ tok.length ≤ h.value.length ∧
          (h.value.take tok.length).map toLowerB = tok.map toLowerB then
        match h.value.drop tok.length with
        | [] => some (tok.length, [])
        | c :: r => if c = 32 ∨ c = 9 then some (tok.length + 1, r) else none
      else none := by
  unfold hdrMatch
  by_cases hk : h.kind = headerKind
  · by_cases hl : authHeader.length = h.name.length
    · by_cases hv : tok.length > h.value.length
      · have : ¬ (h.kind = headerKind ∧ h.name.map toLowerB = authHeader.map toLowerB ∧ tok.length ≤ h.value.length ∧
            (h.value.take tok.length).map toLowerB = tok.map toLowerB) := by
          rintro ⟨_, _, h3, _⟩; omega
        rw [if_neg this, if_neg (by simpa using hk), if_neg (by simpa using hl), if_pos hv]
      · have hv' : tok.length ≤ h.value.length := by omega
        rw [if_neg (by simpa using hk), if_neg (by simpa using hl), if_neg hv]
        cases he : eqClN authHeader h.name
        · have : ¬ (h.kind = headerKind ∧ h.name.map toLowerB = authHeader.map toLowerB ∧ tok.length ≤ h.value.length ∧
              (h.value.take tok.length).map toLowerB = tok.map toLowerB) := by
            rintro ⟨_, hc, _, _⟩
            have := (eqClN_iff authHeader h.name).mpr hc.symm
            rw [he] at this; cases this
          rw [if_neg this]; rfl
        · have hn : h.name.map toLowerB = authHeader.map toLowerB := ((eqClN_iff _ _).mp he).symm
          cases hp : prefixCl h.value tok
          · have : ¬ (h.kind = headerKind ∧ h.name.map toLowerB = authHeader.map toLowerB ∧ tok.length ≤ h.value.length ∧
                (h.value.take tok.length).map toLowerB = tok.map toLowerB) := by
              rintro ⟨_, _, _, hc⟩
              have := (prefixCl_iff h.value tok).mpr ⟨hv', hc⟩
              rw [hp] at this; cases this
            rw [if_neg this]; rfl
          · have h4 := ((prefixCl_iff h.value tok).mp hp).2
            have hc : (h.kind = headerKind ∧ h.name.map toLowerB = authHeader.map toLowerB ∧ tok.length ≤ h.value.length ∧
                (h.value.take tok.length).map toLowerB = tok.map toLowerB) := ⟨hk, hn, hv', h4⟩
            rw [if_pos hc]
            simp only [Bool.not_true, Bool.false_eq_true, if_false]
            cases h.value.drop tok.length <;> rfl
    · have : ¬ (h.kind = headerKind ∧ h.name.map toLowerB = authHeader.map toLowerB ∧ tok.length ≤ h.value.length ∧
          (h.value.take tok.length).map toLowerB = tok.map toLowerB) := by
        rintro ⟨_, hc, _, _⟩
        have := congrArg List.length hc
        simp at this
        exact hl this.symm
      rw [if_neg this, if_neg (by simpa using hk), if_pos (by simpa using hl)]
  · have : ¬ (h.kind = headerKind ∧ h.name.map toLowerB = authHeader.map toLowerB ∧ tok.length ≤ h.value.length ∧
        (h.value.take tok.length).map toLowerB = tok.map toLowerB) := by
      rintro ⟨h1, _⟩; exact hk h1
    rw [if_neg this, if_pos (by simpa using hk)]

/-- the first matching header is used -/
theorem findHdrLoop_first (tok : Bytes) (pre : List Hdr) (h : Hdr) (post : List Hdr) (k off : Nat) (rest : Bytes)
    (hpre : ∀ x ∈ pre, hdrMatch tok x = none) (hm : hdrMatch tok h = some (off, rest)) :
    findHdrLoop tok (pre ++ h :: post) k = some (k + pre.length, off, rest) := by
  induction pre generalizing k with
  | nil => simp [findHdrLoop, hm]
  | cons x xs ih =>
    have hx := hpre x (by simp)
    simp only [List.cons_append, findHdrLoop, hx]
    rw [ih (k + 1) (fun y hy => hpre y (by simp [hy]))]
    simp; omega

theorem findHdrLoop_none (tok : Bytes) (hs : List Hdr) (k : Nat) (h : ∀ x ∈ hs, hdrMatch tok x = none) :
    findHdrLoop tok hs k = none := by
  induction hs generalizing k with
  | nil => rfl
  | cons x xs ih => simp [findHdrLoop, h x (by simp), ih (k + 1) (fun y hy => h y (by simp [hy]))]

end Mhd.Auth
