/-
  C05 — fuel sufficiency: the two loops of the model that are written with an explicit bound
  (`processBody` for the `do … while (instant_retry)` loop of process_request_body, `idleLoop` for the
  `while (! connection->suspended)` loop of MHD_connection_handle_idle) never stop because the bound
  was reached: with any larger bound they return the same result.  No hypothesis on the connection
  record, the application or the environment.
-/
import Mhd.Model.ConnSM
namespace Mhd.ConnSM
open Mhd.Gen.ConnState Mhd.Protocol

/-! ### where the functions of the model leave `state` -/

theorem dropResp_state {σ} (c : Conn σ) : (dropResp c).1.state = c.state ∧ (dropResp c).1.suspended = c.suspended := by
  unfold dropResp; split <;> simp

theorem closeConn_state {σ} (c : Conn σ) (code : Nat) : (closeConn c code).1.state = .closed := by
  simp [closeConn]

theorem closeError_state {σ} (c : Conn σ) : (closeError c).1.state = .closed := by
  simp [closeError, closeConn]

theorem transmitError_state {σ} (cfg : Cfg) (env : IdleEnv) (c : Conn σ) (h : c.state.toNat ≤ 12) :
    (transmitError cfg env c).1.state = .headersSending ∨ (transmitError cfg env c).1.state = .closed := by
  unfold transmitError
  split
  · right
    have : lt c.state .closed = true := by simp only [lt, CState.toNat_closed]; exact decide_eq_true (by omega)
    simp [this]
  · simp only
    split
    · right; exact closeError_state _
    · split
      · split
        · right; simp [closeError_state]
        · right; simp
      · split
        · right; simp [closeError_state]
        · split
          · split
            · right; simp [closeError_state]
            · left; simp
          · left; simp

theorem queueResponse_state {σ} (env : IdleEnv) (c : Conn σ) (r : Resp) :
    (queueResponse env c r).1.state = c.state ∨
    (c.state = .headersProcessed ∧ (queueResponse env c r).1.state = .startReply) := by
  unfold queueResponse
  split
  · left; rfl
  · split
    · left; rfl
    · split
      · left; rfl
      · split
        · left; rfl
        · by_cases h : c.state = .headersProcessed
          · right; simp [h]
          · left; simp [h]

theorem callApp_state {σ} (cfg : Cfg) (app : App σ) (env : IdleEnv) (c : Conn σ) (site : Site) (offered : Nat) :
    (callApp cfg app env c site offered).1.state = c.state ∨
    (c.state = .headersProcessed ∧ (callApp cfg app env c site offered).1.state = .startReply) := by
  unfold callApp
  simp only
  split
  · left; rfl
  · left; rfl
  · left; unfold suspendConn; split <;> rfl
  · rename_i r rr _
    have := queueResponse_state env
      { c with app := (app.handle c.app { site := site, offered := offered, ctxIn := c.ctx }).1, clientAware := true,
               ctx := (app.handle c.app { site := site, offered := offered, ctxIn := c.ctx }).2.ctxOut,
               upOff := c.upOff + min (app.handle c.app { site := site, offered := offered, ctxIn := c.ctx }).2.take offered,
               somePayloadProcessed := if site = .upload then
                   min (app.handle c.app { site := site, offered := offered, ctxIn := c.ctx }).2.take offered ≠ 0 else c.somePayloadProcessed } r
    simpa using this

theorem callConnectionHandler_state {σ} (cfg : Cfg) (app : App σ) (env : IdleEnv) (c : Conn σ) (site : Site) :
    (callConnectionHandler cfg app env c site).1.state = c.state ∨
    (callConnectionHandler cfg app env c site).1.state = .closed ∨
    (c.state = .headersProcessed ∧ (callConnectionHandler cfg app env c site).1.state = .startReply) := by
  unfold callConnectionHandler
  split
  · left; rfl
  · have := callApp_state cfg app env c site 0
    generalize callApp cfg app env c site 0 = r at this
    obtain ⟨c1, l, ret, tk⟩ := r
    simp only at this ⊢
    split
    · right; left; exact closeError_state _
    · rcases this with h | h
      · left; exact h
      · right; right; exact h

theorem afterUpload_frame {σ} (c1 : Conn σ) (tk : Nat) :
    (afterUpload c1 tk).state = c1.state ∧ (afterUpload c1 tk).haveChunked = c1.haveChunked ∧
    (afterUpload c1 tk).suspended = c1.suspended := by
  unfold afterUpload; split <;> simp

theorem processBody_state {σ} (cfg : Cfg) (app : App σ) (env : IdleEnv) :
    ∀ (n : Nat) (buf : List Tok) (c : Conn σ), c.state = .bodyReceiving →
      (processBody cfg app env n buf c).1.state = .bodyReceiving ∨
      (processBody cfg app env n buf c).1.state = .closed ∨
      (processBody cfg app env n buf c).1.state = .headersSending := by
  intro n
  induction n with
  | zero => intro buf c hst; simp only [processBody]; left; exact hst
  | succ n ih =>
    intro buf c hst
    have hte : ∀ (b : List Tok), (transmitError cfg env { c with buf := b }).1.state = .bodyReceiving ∨
        (transmitError cfg env { c with buf := b }).1.state = .closed ∨
        (transmitError cfg env { c with buf := b }).1.state = .headersSending := by
      intro b
      rcases transmitError_state cfg env { c with buf := b } (by simp [hst]) with h | h
      · right; right; exact h
      · right; left; exact h
    cases buf with
    | nil => simp only [processBody]; left; exact hst
    | cons tok t =>
      cases tok with
      | junk =>
        simp only [processBody]
        split
        · left; exact hst
        · exact ih _ c hst
      | data k =>
        simp only [processBody]
        split
        · exact ih _ c hst
        · split
          · exact hte _
          · split
            · split
              · exact hte _
              · left; exact hst
            · have hca := callApp_state cfg app env c .upload (bodyOffer c k)
              have hca' : (callApp cfg app env c .upload (bodyOffer c k)).1.state = .bodyReceiving := by
                rcases hca with h | h
                · rw [h]; exact hst
                · rw [hst] at h; exact absurd h.1 (by decide)
              split
              · right; left; exact closeError_state _
              · split
                · exact ih _ _ (by rw [(afterUpload_frame _ _).1]; exact hca')
                · left; show (afterUpload _ _).state = _; rw [(afterUpload_frame _ _).1]; exact hca'
      | chunkEnd =>
        simp only [processBody]
        split
        · split
          · left; exact hst
          · exact ih _ _ hst
        · exact hte _
      | chunkHdr k =>
        simp only [processBody]
        split
        · split
          · left; exact hst
          · split
            · left; exact hst
            · exact ih _ _ hst
        · exact hte _
      | line k => simp only [processBody]; exact hte _
      | headers f ka e => simp only [processBody]; exact hte _
      | hdrBad => simp only [processBody]; exact hte _
      | chunkBad => simp only [processBody]; exact hte _
      | footers ok => simp only [processBody]; exact hte _

/-! ### `process_request_body`: the fuel of the `do … while (instant_retry)` loop never runs out -/

theorem dropJunk_length_le (t : List Tok) : (dropJunk t).length ≤ t.length := by
  induction t with
  | nil => simp [dropJunk]
  | cons a t ih => cases a <;> simp [dropJunk] <;> omega

/-- passes still possible: every pass drops a token, except the one that takes the rest of a chunk
    out of a longer run of payload bytes (and then the chunk is finished) -/
def bodyMeasure {σ} (buf : List Tok) (c : Conn σ) : Nat :=
  2 * buf.length + (if c.haveChunked = true ∧ c.chunkLeft ≠ 0 then 1 else 0)

theorem bodyMeasure_le {σ} (buf : List Tok) (c : Conn σ) : bodyMeasure buf c ≤ 2 * buf.length + 1 := by
  unfold bodyMeasure; split <;> omega

theorem queueResponse_chunk {σ} (env : IdleEnv) (c : Conn σ) (r : Resp) :
    (queueResponse env c r).1.haveChunked = c.haveChunked ∧ (queueResponse env c r).1.chunkLeft = c.chunkLeft := by
  unfold queueResponse
  split
  · exact ⟨rfl, rfl⟩
  · split
    · exact ⟨rfl, rfl⟩
    · split
      · exact ⟨rfl, rfl⟩
      · split
        · exact ⟨rfl, rfl⟩
        · by_cases h : c.state = .headersProcessed <;> simp [h]

theorem callApp_chunk {σ} (cfg : Cfg) (app : App σ) (env : IdleEnv) (c : Conn σ) (site : Site) (offered : Nat) :
    (callApp cfg app env c site offered).1.haveChunked = c.haveChunked ∧
    (callApp cfg app env c site offered).1.chunkLeft = c.chunkLeft := by
  unfold callApp
  simp only
  split
  · exact ⟨rfl, rfl⟩
  · exact ⟨rfl, rfl⟩
  · unfold suspendConn; split <;> exact ⟨rfl, rfl⟩
  · rename_i r rr _
    have := queueResponse_chunk env
      { c with app := (app.handle c.app { site := site, offered := offered, ctxIn := c.ctx }).1, clientAware := true,
               ctx := (app.handle c.app { site := site, offered := offered, ctxIn := c.ctx }).2.ctxOut,
               upOff := c.upOff + min (app.handle c.app { site := site, offered := offered, ctxIn := c.ctx }).2.take offered,
               somePayloadProcessed := if site = .upload then
                   min (app.handle c.app { site := site, offered := offered, ctxIn := c.ctx }).2.take offered ≠ 0 else c.somePayloadProcessed } r
    simpa using this

theorem retry_measure {σ} (c c1 : Conn σ) (k taken : Nat) (t : List Tok)
    (h1 : c1.haveChunked = c.haveChunked) (h2 : c1.chunkLeft = c.chunkLeft)
    (hoff : bodyOffer c k ≠ 0)
    (hr : retryNow c k (bodyOffer c k) taken (restAfter k taken t) = true) :
    bodyMeasure (restAfter k taken t) (afterUpload c1 taken) < bodyMeasure (.data k :: t) c := by
  unfold retryNow at hr
  simp only [Bool.and_eq_true, decide_eq_true_eq] at hr
  obtain ⟨⟨⟨hch, hle⟩, htk⟩, _⟩ := hr
  have hoffv : bodyOffer c k = c.chunkLeft := by
    unfold bodyOffer; simp [hch]; omega
  have hne : c.chunkLeft ≠ 0 := by rw [← hoffv]; exact hoff
  unfold bodyMeasure afterUpload restAfter
  simp only [h1, hch, if_true, h2, List.length_cons]
  rw [htk, hoffv]
  by_cases hk : c.chunkLeft = k
  · simp [hk]; split <;> omega
  · simp [hk, hne]

theorem processBody_fuel {σ} (cfg : Cfg) (app : App σ) (env : IdleEnv) :
    ∀ (n m : Nat) (buf : List Tok) (c : Conn σ), bodyMeasure buf c < n → bodyMeasure buf c < m →
      processBody cfg app env n buf c = processBody cfg app env m buf c := by
  intro n
  induction n with
  | zero => intro m buf c h; omega
  | succ n ih =>
    intro m buf c hn hm
    cases m with
    | zero => omega
    | succ m =>
    cases buf with
    | nil => simp only [processBody]
    | cons tok t =>
      have hlen : bodyMeasure (tok :: t) c ≥ 2 * t.length + 2 := by unfold bodyMeasure; simp; omega
      have hrec : ∀ (t' : List Tok) (c' : Conn σ), t'.length ≤ t.length →
          processBody cfg app env n t' c' = processBody cfg app env m t' c' := by
        intro t' c' hl
        have := bodyMeasure_le t' c'
        exact ih m t' c' (by omega) (by omega)
      cases tok with
      | junk =>
        simp only [processBody]
        have := dropJunk_length_le t
        cases hd : dropJunk t with
        | nil => rfl
        | cons a t' => simp only; rw [hd] at this; exact hrec _ _ this
      | data k =>
        simp only [processBody]
        by_cases hk : k = 0
        · simp only [if_pos hk]; exact hrec _ _ (Nat.le_refl _)
        · simp only [if_neg hk]
          by_cases h1 : c.haveChunked = true ∧ ¬ c.inChunk = true
          · simp only [if_pos h1]
          · simp only [if_neg h1]
            by_cases h2 : bodyOffer c k = 0
            · simp only [if_pos h2]
            · simp only [if_neg h2]
              by_cases h3 : (!(callApp cfg app env c .upload (bodyOffer c k)).2.2.1) = true
              · simp only [if_pos h3]
              · simp only [if_neg h3]
                by_cases h4 : retryNow c k (bodyOffer c k) (callApp cfg app env c .upload (bodyOffer c k)).2.2.2
                    (restAfter k (callApp cfg app env c .upload (bodyOffer c k)).2.2.2 t) = true
                · simp only [if_pos h4]
                  have hm' := retry_measure c (callApp cfg app env c .upload (bodyOffer c k)).1 k _ t
                    (callApp_chunk cfg app env c .upload _).1 (callApp_chunk cfg app env c .upload _).2 h2 h4
                  rw [ih m _ _ (Nat.lt_of_lt_of_le hm' (by omega)) (Nat.lt_of_lt_of_le hm' (by omega))]
                · simp only [if_neg h4]
      | chunkEnd =>
        simp only [processBody]
        by_cases h1 : c.haveChunked = true ∧ c.inChunk = true ∧ c.chunkLeft = 0
        · simp only [if_pos h1]
          by_cases h2 : t.isEmpty = true
          · simp only [if_pos h2]
          · simp only [if_neg h2]; exact hrec _ _ (Nat.le_refl _)
        · simp only [if_neg h1]
      | chunkHdr k =>
        simp only [processBody]
        by_cases h1 : c.haveChunked = true ∧ ¬ c.inChunk = true
        · simp only [if_pos h1]
          by_cases h2 : k = 0
          · simp only [if_pos h2]
          · simp only [if_neg h2]
            by_cases h3 : t.isEmpty = true
            · simp only [if_pos h3]
            · simp only [if_neg h3]; exact hrec _ _ (Nat.le_refl _)
        · simp only [if_neg h1]
      | line k => simp only [processBody]
      | headers f ka e => simp only [processBody]
      | hdrBad => simp only [processBody]
      | chunkBad => simp only [processBody]
      | footers ok => simp only [processBody]

/-- `bodyFuel` suffices: with any larger bound process_request_body returns the same result, i.e. the
    bound never cuts the `do … while (instant_retry)` loop short (no `fault` from running out of fuel) -/
theorem bodyFuel_sufficient {σ} (cfg : Cfg) (app : App σ) (env : IdleEnv) (buf : List Tok) (c : Conn σ) (n : Nat)
    (h : bodyFuel buf ≤ n) : processBody cfg app env n buf c = processBody cfg app env (bodyFuel buf) buf c := by
  have := bodyMeasure_le buf c
  unfold bodyFuel at h ⊢
  exact processBody_fuel cfg app env _ _ buf c (by omega) (by omega)

/-! ### `MHD_connection_handle_idle`: the fuel of the `while (! connection->suspended)` loop never runs out -/

/-- position of a state in one lap of the loop: a lap starts behind the reply header
    (HEADERS_SENT … FULL_REPLY_SENT), goes on with the next request (or the same one after an interim
    reply) from INIT to HEADERS_SENDING, and ends there, in CLOSED or in UPGRADE -/
def lapPos (s : CState) : Nat :=
  if 14 ≤ s.toNat ∧ s.toNat ≤ 21 then s.toNat - 14 else if s.toNat ≤ 13 then s.toNat + 8 else s.toNat

theorem lapPos_low (s : CState) (h : s.toNat ≤ 13) : lapPos s = s.toNat + 8 := by
  unfold lapPos
  rw [if_neg (by omega), if_pos h]

theorem lapPos_reply (s : CState) (h : 14 ≤ s.toNat ∧ s.toNat ≤ 21) : lapPos s = s.toNat - 14 := by
  unfold lapPos
  rw [if_pos h]

theorem connectionReset_state {σ} (c : Conn σ) (reuse : Bool) :
    (connectionReset c reuse).1.state = .closed ∨ (connectionReset c reuse).1.state = .init := by
  unfold connectionReset
  cases reuse
  · left; simp [closeConn]
  · right; simp [clearRq]

set_option hygiene false in
macro "leaf" : tactic => `(tactic| first
  | (simp only [Prod.mk.injEq, reduceCtorEq, and_false] at h; done)
  | (simp only [Prod.mk.injEq, and_true] at h; obtain ⟨rfl, -⟩ := h; right; simp [lapPos, hst]; done)
  | (simp only [Prod.mk.injEq, and_true] at h; obtain ⟨rfl, -⟩ := h; right; simp [lapPos, hst]; split <;> simp; done))

theorem idleCase_progress {σ} (cfg : Cfg) (app : App σ) (env : IdleEnv) (c c1 : Conn σ) (l : List LEv)
    (h : idleCase cfg app env c = (c1, l, .again)) :
    c1.suspended = true ∨ lapPos c.state < lapPos c1.state := by
  have hte : ∀ (c0 c2 : Conn σ) (l2 : List LEv), transmitError cfg env c0 = (c2, l2) → c0.state.toNat ≤ 12 →
      c.state.toNat ≤ c0.state.toNat → lapPos c.state < lapPos c2.state := by
    intro c0 c2 l2 hq h0 h1
    rw [lapPos_low c.state (by omega)]
    have := transmitError_state cfg env c0 h0
    rw [hq] at this
    rcases this with e | e <;> rw [e] <;> simp [lapPos] <;> omega
  have hce : ∀ (c0 c2 : Conn σ) (l2 : List LEv), closeError c0 = (c2, l2) → c2.state = .closed := by
    intro c0 c2 l2 hq; have := closeError_state c0; rw [hq] at this; exact this
  have hcc : ∀ (site : Site) (c2 : Conn σ) (l2 : List LEv), callConnectionHandler cfg app env c site = (c2, l2) →
      c2.state = c.state ∨ c2.state = .closed ∨ (c.state = .headersProcessed ∧ c2.state = .startReply) := by
    intro site c2 l2 hq; have := callConnectionHandler_state cfg app env c site; rw [hq] at this; exact this
  have hdr : ∀ (c0 c2 : Conn σ) (l2 : List LEv), dropResp c0 = (c2, l2) → c2.state = c0.state ∧ c2.suspended = c0.suspended := by
    intro c0 c2 l2 hq; have := dropResp_state c0; rw [hq] at this; exact this
  unfold idleCase at h
  split at h
  all_goals rename_i hst
  all_goals try (simp only [Prod.mk.injEq, reduceCtorEq, and_false] at h; done)
  all_goals try (
    simp only [Prod.mk.injEq, and_true] at h
    obtain ⟨rfl, -⟩ := h
    right
    simp [lapPos, hst]; done)
  all_goals repeat' (split at h)
  all_goals try leaf
  all_goals (
    rename_i hq
    simp only [Prod.mk.injEq, and_true] at h
    obtain ⟨rfl, -⟩ := h
    first
    | (right; exact hte _ _ _ hq (by simp [hst]) (by simp [hst]); done)
    | (right; rw [hce _ _ _ hq]; simp [lapPos, hst]; done)
    | (left; assumption)
    | (rcases hcc _ _ _ ‹callConnectionHandler cfg app env c _ = _› with e | e | e
       · rw [hst] at e; exact absurd e ‹_ ≠ _›
       · right; rw [e]; simp [lapPos, hst]
       · right; rw [e.2]; simp [lapPos, hst])
    | (have := processBody_state cfg app env (bodyFuel c.buf) c.buf c hst
       rw [‹processBody cfg app env _ _ _ = _›] at this
       rcases this with e | e | e
       · exact absurd e ‹_ ≠ _›
       · right; rw [e]; simp [lapPos, hst]
       · right; rw [e]; simp [lapPos, hst])
    | (left; rw [(hdr _ _ _ hq).2]; done)
    | (right; rw [(hdr _ _ _ hq).1]; simp [lapPos, hst]; done)
    | (have := connectionReset_state c (decide (c.keepalive = KA.use ∧ ¬c.readClosed = true ∧ ¬c.discard = true)); rw [hq] at this
       rcases this with e | e <;> (right; rw [e]; simp [lapPos, hst]))
    )

/-- passes of the loop still possible from this connection record -/
def idleMeasure {σ} (c : Conn σ) : Nat := if c.suspended = true then 0 else 25 - lapPos c.state

theorem lapPos_le (s : CState) : lapPos s ≤ 23 := by
  unfold lapPos
  cases s <;> simp

theorem idleMeasure_le {σ} (c : Conn σ) : idleMeasure c ≤ 25 := by
  unfold idleMeasure; split <;> omega

theorem idleLoop_fuel {σ} (cfg : Cfg) (app : App σ) (env : IdleEnv) :
    ∀ (n m : Nat) (c : Conn σ), idleMeasure c < n → idleMeasure c < m →
      idleLoop cfg app env n c = idleLoop cfg app env m c := by
  intro n
  induction n with
  | zero => intro m c h; omega
  | succ n ih =>
    intro m c hn hm
    cases m with
    | zero => omega
    | succ m =>
      simp only [idleLoop]
      by_cases hs : c.suspended = true
      · simp only [if_pos hs]
      · simp only [if_neg hs]
        generalize hce : idleCase cfg app env c = rr
        obtain ⟨c1, l1, f⟩ := rr
        cases f with
        | again =>
          simp only
          have hp := idleCase_progress cfg app env c c1 l1 hce
          have hlt : idleMeasure c1 < idleMeasure c := by
            have h23 := lapPos_le c1.state
            have h23' := lapPos_le c.state
            unfold idleMeasure
            rw [if_neg hs]
            rcases hp with h | h
            · rw [if_pos h]; omega
            · split <;> omega
          rw [ih m c1 (by omega) (by omega)]
        | stop => rfl
        | dead => rfl
        | keep => rfl

/-- `idleFuel` suffices: with any larger bound the loop of MHD_connection_handle_idle returns the same
    result — the bound never cuts the `while (! connection->suspended)` loop short -/
theorem idleFuel_sufficient {σ} (cfg : Cfg) (app : App σ) (env : IdleEnv) (c c0 : Conn σ) (n : Nat)
    (h : idleFuel c0 ≤ n) : idleLoop cfg app env n c = idleLoop cfg app env (idleFuel c0) c := by
  have := idleMeasure_le c
  unfold idleFuel at h ⊢
  exact idleLoop_fuel cfg app env _ _ c (by omega) (by omega)

/-- … hence MHD_connection_handle_idle of the model is the unbounded loop -/
theorem handleIdle_fuel_irrelevant {σ} (cfg : Cfg) (app : App σ) (env : IdleEnv) (c : Conn σ) (n : Nat)
    (h : idleFuel c ≤ n) : handleIdleWith n cfg app env c = handleIdle cfg app env c := by
  unfold handleIdle handleIdleWith
  rw [idleFuel_sufficient cfg app env { c with touched := false } c n h]

/-- Thread-per-connection, daemon shutdown: the connection's own thread leaves its loop and runs
    `MHD_connection_close_ (con, MHD_REQUEST_TERMINATED_DAEMON_SHUTDOWN); MHD_connection_handle_idle (con)`
    (end of thread_main_handle_connection).  For a connection that is not suspended this is, up to the
    scratch flag `touched`, exactly the event `shutdownClose` (close_connection of the other modes): same
    callback log, same connection record. -/
theorem tpc_exit_is_shutdownClose {σ} (cfg : Cfg) (app : App σ) (env : IdleEnv) (c : Conn σ)
    (hf : c.fault = false) (hs : c.started = true) (hc : c.cleaned = false) (hi : c.inCleanup = false)
    (hsu : c.suspended = false) :
    (handleIdle cfg app env (closeConn c terminatedDaemonShutdown).1).1 =
      { (step cfg app c .shutdownClose).1 with touched := false } ∧
    (closeConn c terminatedDaemonShutdown).2 ++ (handleIdle cfg app env (closeConn c terminatedDaemonShutdown).1).2 =
      (step cfg app c .shutdownClose).2 := by
  have hstep : step cfg app c .shutdownClose =
      ({ (closeConn c terminatedDaemonShutdown).1 with inCleanup := true }, (closeConn c terminatedDaemonShutdown).2) := by
    unfold step
    simp [hf, hs, hc, hi, hsu]
  rw [hstep]
  have hcl : (closeConn c terminatedDaemonShutdown).1.state = .closed := closeConn_state _ _
  have key : (closeConn c terminatedDaemonShutdown).1.response = none ∧
      (closeConn c terminatedDaemonShutdown).1.suspended = c.suspended ∧
      (closeConn c terminatedDaemonShutdown).1.inCleanup = c.inCleanup := by
    unfold closeConn notify dropResp
    by_cases ha : c.clientAware = true <;> cases hr : c.response <;> simp [ha, hr]
  have hresp := key.1
  have hsus := key.2.1.trans hsu
  have hic := key.2.2.trans hi
  clear key hstep
  generalize closeConn c terminatedDaemonShutdown = r at hcl hresp hsus hic ⊢
  obtain ⟨c1, l1⟩ := r
  simp only at hcl hresp hsus hic ⊢
  have hfuel := idleLoop_fuel cfg app env (idleFuel c1) 26 { c1 with touched := false }
    (by have := idleMeasure_le { c1 with touched := false }; unfold idleFuel; omega)
    (by have := idleMeasure_le { c1 with touched := false }; omega)
  unfold handleIdle handleIdleWith
  rw [hfuel]
  simp [idleLoop, idleCase, hcl, hsus, cleanupConnection, hic, dropResp, hresp]

end Mhd.ConnSM
