/-
  C14 helper lemmas, part 8: MHD_base64_to_bin_n accepts only the canonical encoding of its result.
-/
import Mhd.Proofs.AuthBasic
namespace Mhd.Auth
open Mhd.Gen.Auth

/-- the decoding table inverts the RFC 4648 alphabet and nothing else -/
def b64TableOK (c : UInt8) : Bool :=
  match b64Val c with
  | .val v => decide (v < 64) && (b64Char v == c)
  | .pad => c == 61
  | .bad => true

def b64TableAll : Bool := (List.range 256).all fun n => b64TableOK (UInt8.ofNat n)

theorem b64TableAll_true : b64TableAll = true := by decide +kernel

theorem b64Table (c : UInt8) : b64TableOK c = true := by
  have h := b64TableAll_true
  unfold b64TableAll at h
  have := List.all_eq_true.mp h c.toNat (by simp; exact UInt8.toNat_lt c)
  have e : UInt8.ofNat c.toNat = c := by apply UInt8.toNat_inj.mp; simp
  rwa [e] at this
theorem b64Val_val (c : UInt8) (v : Nat) (h : b64Val c = .val v) : v < 64 ∧ b64Char v = c := by
  have := b64Table c
  unfold b64TableOK at this
  rw [h] at this
  simpa using this

theorem b64Val_pad_eq (c : UInt8) (h : b64Val c = .pad) : c = 61 := by
  have := b64Table c
  unfold b64TableOK at this
  rw [h] at this
  simpa using this

theorem ofNat_toNat_mod (k : Nat) : (UInt8.ofNat k).toNat = k % 256 := UInt8.toNat_ofNat'

theorem b64Last_canonical (a b c d : UInt8) (out : Bytes) (h : b64Last a b c d = some out) :
    [a, b, c, d] = b64Enc out := by
  unfold b64Last at h
  cases ha : b64Val a with
  | val v1 =>
    cases hb : b64Val b with
    | val v2 =>
      obtain ⟨h1, e1⟩ := b64Val_val a v1 ha
      obtain ⟨h2, e2⟩ := b64Val_val b v2 hb
      simp only [ha, hb] at h
      cases hc : b64Val c with
      | val v3 =>
        obtain ⟨h3, e3⟩ := b64Val_val c v3 hc
        simp only [hc] at h
        cases hd : b64Val d with
        | val v4 =>
          obtain ⟨h4, e4⟩ := b64Val_val d v4 hd
          simp only [hd, Option.some.injEq] at h
          subst h
          simp only [b64Enc, ofNat_toNat_mod]
          rw [← e1, ← e2, ← e3, ← e4]
          congr 2 <;> (try congr 1) <;> (try congr 1) <;> (try congr 1) <;> omega
        | pad =>
          have := b64Val_pad_eq d hd
          simp only [hd] at h
          split at h
          · simp at h
          · rename_i hz
            simp only [Option.some.injEq] at h
            subst h
            simp only [b64Enc, ofNat_toNat_mod]
            rw [← e1, ← e2, ← e3, this]
            have hz' : v3 * 64 % 256 = 0 := by simpa using hz
            congr 2 <;> (try congr 1) <;> (try congr 1) <;> omega
        | bad => simp [hd] at h
      | pad =>
        have hc61 := b64Val_pad_eq c hc
        simp only [hc] at h
        cases hd : b64Val d with
        | pad =>
          have hd61 := b64Val_pad_eq d hd
          simp only [hd] at h
          split at h
          · simp at h
          · rename_i hz
            simp only [Option.some.injEq] at h
            subst h
            simp only [b64Enc, ofNat_toNat_mod]
            rw [← e1, ← e2, hc61, hd61]
            have hz' : v2 * 16 % 256 = 0 := by simpa using hz
            congr 2 <;> (try congr 1) <;> omega
        | val v4 => simp [hd] at h
        | bad => simp [hd] at h
      | bad => simp [hc] at h
    | pad => simp [ha, hb] at h
    | bad => simp [ha, hb] at h
  | pad => simp [ha] at h
  | bad => simp [ha] at h

theorem b64Blocks_canonical : ∀ (n : Nat) (s out : Bytes), s.length ≤ n → b64Blocks s = some out → s = b64Enc out := by
  intro n
  induction n with
  | zero =>
    intro s out h hb
    cases s with
    | nil => simp [b64Blocks] at hb
    | cons c r => simp at h
  | succ n ih =>
    intro s out h hb
    match s, h, hb with
    | [], _, hb => simp [b64Blocks] at hb
    | [_], _, hb => simp [b64Blocks] at hb
    | [_, _], _, hb => simp [b64Blocks] at hb
    | [_, _, _], _, hb => simp [b64Blocks] at hb
    | [a, b, c, d], _, hb =>
      simp only [b64Blocks] at hb
      exact b64Last_canonical a b c d out hb
    | a :: b :: c :: d :: e :: rest, h, hb =>
      rw [b64Blocks] at hb
      · cases ha : b64Val a <;> cases hb' : b64Val b <;> cases hc : b64Val c <;> cases hd : b64Val d <;>
          simp only [ha, hb', hc, hd] at hb <;> try (simp at hb; done)
        rename_i v1 v2 v3 v4
        obtain ⟨h1, e1⟩ := b64Val_val a v1 ha
        obtain ⟨h2, e2⟩ := b64Val_val b v2 hb'
        obtain ⟨h3, e3⟩ := b64Val_val c v3 hc
        obtain ⟨h4, e4⟩ := b64Val_val d v4 hd
        simp only [Option.map_eq_some_iff] at hb
        obtain ⟨t, ht, rfl⟩ := hb
        have hrec := ih (e :: rest) t (by simp at h ⊢; omega) ht
        simp only [b64Enc, ofNat_toNat_mod]
        rw [← hrec, ← e1, ← e2, ← e3, ← e4]
        congr 2 <;> (try congr 1) <;> (try congr 1) <;> (try congr 1) <;> omega
      · simp

/-- only the canonical RFC 4648 encoding of the result is accepted: a character outside the alphabet,
    misplaced or missing padding, a length that is not a multiple of four and non-zero trailing bits
    are all rejected -/
theorem b64Dec_canonical (s out : Bytes) (h : b64Dec s = some out) : s = b64Enc out := by
  unfold b64Dec at h
  split at h
  · simp at h
  · split at h
    · simp at h
    · exact b64Blocks_canonical s.length s out (Nat.le_refl _) h

end Mhd.Auth
