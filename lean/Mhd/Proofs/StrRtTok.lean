/-
  C17 proofs: `MHD_str_remove_tokens_caseless_` — finding the next token in `tokens`.
-/
import Mhd.Proofs.StrRtRound

namespace Mhd.Str

theorem trimR_last_nonws (a : Bytes) (z : UInt8) (hz : isWs z = false) : trimR (a ++ [z]) = a ++ [z] := by
  unfold trimR
  rw [List.reverse_append]
  simp [hz]

theorem notWsComma_notComma {y : UInt8} (h : (!isWsComma y) = true) : notComma y = true := by
  have : isWsComma y = false := by simpa using h
  have := (isWsComma_of_isWs this).2
  simp [notComma, this]

theorem notWsComma_notWs {y : UInt8} (h : (!isWsComma y) = true) : isWs y = false := by
  have : isWsComma y = false := by simpa using h
  exact (isWsComma_of_isWs this).1

/-- result of the token-end scan, in list terms -/
def TokEndPost (R : Bytes) (tkn : Nat) (r : Nat × Nat) : Prop :=
  ∃ A B W, R = A ++ B ++ W ∧ r.1 = tkn + (A ++ B).length ∧ r.2 = A.length ∧
    (∀ y ∈ A ++ B, notComma y = true) ∧ (∀ y ∈ B, isWs y = true) ∧ StopsAt notComma W ∧
    (∃ A' z, A = A' ++ [z] ∧ isWs z = false)

theorem rtTokenEnd_iter (t : Bytes) (tkn : Nat) (x : UInt8) (R' : Bytes) (hR : t.drop tkn = x :: R')
    (hx : isWsComma x = false) :
    ∃ r, iter (rtTokenEndStep t tkn) (t.length + 1) (tkn, 0) = .ok r ∧ TokEndPost (t.drop tkn) tkn r := by
  have htl : tkn + (t.drop tkn).length = t.length := length_of_drop t tkn _ rfl (by rw [hR]; simp)
  refine iter_spec (rtTokenEndStep t tkn)
    (fun st => ∃ P z U, t.drop tkn = P ++ z :: U ∧ st.1 = tkn + P.length ∧ (∀ y ∈ P, notComma y = true) ∧ isWsComma z = false)
    (fun st => t.length - st.1) (TokEndPost (t.drop tkn) tkn) ?_ (t.length + 1) (tkn, 0)
    ⟨[], x, R', by simpa using hR, by simp, by simp, hx⟩ (by simp; omega)
  intro st ⟨P, z, U, hdec, hpt, hP, hz⟩
  have hlen : (t.drop tkn).length = P.length + 1 + U.length := by rw [hdec]; simp; omega
  have hd0 : t.drop (tkn + P.length) = z :: U := drop_at t tkn P (z :: U) hdec
  have hd1 : t.drop (st.1 + 1) = U := by
    rw [hpt]
    have := drop_at t (tkn + P.length) [z] U (by rw [hd0]; rfl)
    simpa using this
  unfold rtTokenEndStep rtWordEnd
  obtain ⟨hw1, hw2, hw3⟩ := skipN_exact t (fun c => !isWsComma c) (st.1 + 1) (by omega)
  rw [hd1] at hw1 hw2 hw3
  simp only [hw1, bind_ok']
  obtain ⟨hs1, hs2, hs3⟩ := skipN_exact t isWs (st.1 + 1 + (U.takeWhile (fun c => !isWsComma c)).length) hw3
  rw [hw2] at hs1 hs2 hs3
  simp only [hs1, bind_ok']
  rw [peek_notComma t _, hs2]
  simp only [bind_ok']
  -- names
  generalize ha : U.takeWhile (fun c => !isWsComma c) = a at *
  generalize hV : U.dropWhile (fun c => !isWsComma c) = V at *
  generalize hb : V.takeWhile isWs = b at *
  generalize hW : V.dropWhile isWs = W at *
  have hU : U = a ++ V := by rw [← ha, ← hV, List.takeWhile_append_dropWhile]
  have hVd : V = b ++ W := by rw [← hb, ← hW, List.takeWhile_append_dropWhile]
  have hall_a : ∀ y ∈ a, (!isWsComma y) = true := by rw [← ha]; exact takeWhile_mem _ U
  have hall_b : ∀ y ∈ b, isWs y = true := by rw [← hb]; exact takeWhile_mem _ V
  have hzc : notComma z = true := by
    have := (isWsComma_of_isWs hz).2; simp [notComma, this]
  have hPzab : ∀ y ∈ P ++ z :: a ++ b, notComma y = true := by
    intro y hy
    simp only [List.mem_append, List.mem_cons] at hy
    rcases hy with (hy | hy | hy) | hy
    · exact hP y hy
    · rw [hy]; exact hzc
    · exact notWsComma_notComma (hall_a y hy)
    · exact isWs_notComma y (hall_b y hy)
  have hdecomp : t.drop tkn = (P ++ z :: a) ++ b ++ W := by rw [hdec, hU, hVd]; simp [List.append_assoc]
  cases hhe : (headElem W).isEmpty with
  | false =>
    left
    simp only [Bool.not_false, if_true, pure_eq_ok]
    obtain ⟨z', U', hWc⟩ : ∃ z' U', W = z' :: U' := by
      cases W with
      | nil => simp [headElem] at hhe
      | cons z' U' => exact ⟨z', U', rfl⟩
    have hz'c : z' ≠ 0x2c := by
      intro h; rw [hWc, h] at hhe; simp [headElem, notComma] at hhe
    have hz'w : isWs z' = false := by
      rcases dropWhile_head_not isWs V with h | ⟨z2, b2, h, hz2⟩
      · rw [hW, hWc] at h; simp at h
      · rw [hW, hWc] at h; injection h with e1 _; rw [e1]; exact hz2
    refine ⟨_, rfl, ⟨P ++ z :: a ++ b, z', U', by rw [hdecomp, hWc], by simp only []; rw [hpt]; simp; omega, hPzab, ?_⟩,
      by simp only []; omega⟩
    simp only [isWsComma, Bool.or_eq_false_iff, beq_eq_false_iff_ne]
    simp only [isWs, Bool.or_eq_false_iff, beq_eq_false_iff_ne] at hz'w
    exact ⟨⟨hz'w.1, hz'w.2⟩, hz'c⟩
  | true =>
    right
    simp only [Bool.not_true, Bool.false_eq_true, if_false, pure_eq_ok]
    refine ⟨_, rfl, P ++ z :: a, b, W, hdecomp, by simp only []; rw [hpt]; simp; omega,
      by simp only []; rw [hpt]; simp; omega, hPzab, hall_b, headElem_nil_stops (List.isEmpty_iff.mp hhe), ?_⟩
    rcases List.eq_nil_or_concat a with h | ⟨a', l, h⟩
    · refine ⟨P, z, by rw [h], (isWsComma_of_isWs hz).1⟩
    · refine ⟨P ++ z :: a', l, by rw [h]; simp, ?_⟩
      exact notWsComma_notWs (hall_a l (by rw [h]; simp))

/-- the token found at `tkn`: `T = trimWs (headElem R)`, scan position at the end of the element -/
theorem rtTokenEnd_spec (t : Bytes) (tkn : Nat) (x : UInt8) (R' : Bytes) (hR : t.drop tkn = x :: R')
    (hx : isWsComma x = false) :
    ∃ ptE tl jt, iter (rtTokenEndStep t tkn) (t.length + 1) (tkn, 0) = .ok (ptE, tl) ∧
      t.drop tkn = trimWs (headElem (t.drop tkn)) ++ jt ∧ (trimWs (headElem (t.drop tkn))).length = tl ∧
      trimWs (headElem (t.drop tkn)) ≠ [] ∧ (∀ y ∈ trimWs (headElem (t.drop tkn)), y ≠ 0x2c) ∧
      t.drop ptE = restElems (t.drop tkn) ∧ tkn < ptE ∧ ptE ≤ t.length := by
  obtain ⟨⟨ptE, tl⟩, hit, A, B, W, hdec, h1, h2, hnc, hws, hstop, A', z, hA, hz⟩ := rtTokenEnd_iter t tkn x R' hR hx
  simp only [] at h1 h2
  have htl : tkn + (t.drop tkn).length = t.length := length_of_drop t tkn _ rfl (by rw [hR]; simp)
  have hhead : headElem (t.drop tkn) = A ++ B := by
    rw [hdec]; exact takeWhile_append_all notComma (A ++ B) W hnc hstop
  have hrest : restElems (t.drop tkn) = W := by
    rw [hdec, restElems_append_word _ _ hnc]
    unfold restElems
    rcases hstop with h | ⟨z', b', h, hz'⟩
    · rw [h]; rfl
    · rw [h]; simp [List.dropWhile, hz']
  have htrim : trimWs (headElem (t.drop tkn)) = A := by
    rw [trimWs_of_head_not_ws _ (by
      right; rw [hR, headElem_cons _ _ (isWsComma_of_isWs hx).2]; exact ⟨x, _, rfl, (isWsComma_of_isWs hx).1⟩)]
    rw [hhead, trimR_append_ws _ _ hws, hA, trimR_last_nonws _ _ hz]
  refine ⟨ptE, tl, B ++ W, hit, ?_, by rw [htrim, h2], by rw [htrim, hA]; simp, ?_, ?_, ?_, ?_⟩
  · rw [htrim]; conv => lhs; rw [hdec]
    simp [List.append_assoc]
  · rw [htrim]; intro y hy
    have := hnc y (List.mem_append_left _ hy)
    simpa [notComma] using this
  · rw [hrest, h1]; exact drop_at t tkn (A ++ B) W hdec
  · rw [h1, hA]; simp; omega
  · rw [h1, ← htl]
    have := congrArg List.length hdec
    simp at this ⊢; omega

end Mhd.Str
