/-
  C05 — every connection event preserves the refinement relation; lifted to event sequences.
-/
import Mhd.Proofs.ConnSMIdle
namespace Mhd.ConnSM
open Mhd.Gen.ConnState Mhd.Protocol

theorem idleLoop_eq {σ} (cfg : Cfg) (app : App σ) (env : IdleEnv) (hok : EnvOk cfg env) :
    ∀ (n : Nat) (c : Conn σ) (p : PSt), Rel c p → c.started = true → c.cleaned = false →
      ∀ (c' : Conn σ) (l : List LEv) (f : Flow), idleLoop cfg app env n c = (c', l, f) → Post p c' l := by
  intro n
  induction n with
  | zero =>
    intro c p h hs hc c' l f heq
    simp only [idleLoop] at heq
    obtain ⟨rfl, rfl, rfl⟩ := heq
    exact ⟨h.congr rfl rfl rfl rfl rfl rfl rfl rfl rfl rfl, hs, hc⟩
  | succ n ih =>
    intro c p h hs hc c' l f heq
    simp only [idleLoop] at heq
    split at heq
    · obtain ⟨rfl, rfl, rfl⟩ := heq
      exact ⟨h, hs, hc⟩
    · generalize hce : idleCase cfg app env c = rr at heq
      obtain ⟨c1, l1, f1⟩ := rr
      obtain ⟨t1, t2, t3⟩ := idleCase_eq cfg app env hok c p h hs hc c1 l1 f1 hce
      simp only at heq
      split at heq
      · generalize hrec : idleLoop cfg app env n c1 = r2 at heq
        obtain ⟨c2, l2, f2⟩ := r2
        obtain ⟨u1, u2, u3⟩ := ih c1 _ t1 t2 t3 c2 l2 f2 hrec
        obtain ⟨rfl, rfl, rfl⟩ := heq
        refine ⟨?_, u2, u3⟩
        rw [Protocol.run_append]; exact u1
      · obtain ⟨rfl, rfl, rfl⟩ := heq
        exact ⟨t1, t2, t3⟩

theorem closeError_frame {σ} (c : Conn σ) :
    (closeError c).1.started = c.started ∧ (closeError c).1.cleaned = c.cleaned := by
  unfold closeError
  exact closeConn_frame _ _

theorem chunkSizeLineNoSpace_eq {σ} (cfg : Cfg) (env : IdleEnv) (hok : EnvOk cfg env) (c : Conn σ) (p : PSt)
    (h : Rel c p) (hs : c.started = true) (hc : c.cleaned = false) (hst : c.state.toNat ≤ 10)
    (c' : Conn σ) (l : List LEv) (heq : chunkSizeLineNoSpace cfg env c = (c', l)) : Post p c' l := by
  unfold chunkSizeLineNoSpace at heq
  split at heq
  · have hfix : cfg.f9Fixed = true := by
      rcases hok.1 with hh | hh <;> simp_all
    generalize hce : transmitError cfg env c = rr at heq
    obtain ⟨c1, l1⟩ := rr
    have := transmitError_eq cfg env c p h hok hst hs hc c1 l1 hce
    simp only [hfix, if_true] at heq
    obtain ⟨rfl, rfl⟩ := Prod.mk.inj heq
    exact ⟨this.1, this.2.2.1, this.2.2.2⟩
  · have := transmitError_eq cfg env c p h hok hst hs hc c' l heq
    exact ⟨this.1, this.2.2.1, this.2.2.2⟩

theorem recvNoSpace_eq {σ} (cfg : Cfg) (env : IdleEnv) (hok : EnvOk cfg env) (c : Conn σ) (p : PSt)
    (h : Rel c p) (hs : c.started = true) (hc : c.cleaned = false)
    (c' : Conn σ) (l : List LEv) (heq : recvNoSpace cfg env c = (c', l)) : Post p c' l := by
  unfold recvNoSpace at heq
  split at heq
  · have := closeError_rel c p (h.toOpen hs hc)
    have hf := closeError_frame c
    rw [heq] at this hf
    obtain ⟨t1, t2, t3, t4⟩ := this
    exact ⟨t1, by rw [hf.1]; exact hs, by rw [hf.2]; exact hc⟩
  · rename_i hst
    have := transmitError_eq cfg env c p h hok (by simp [hst]) hs hc c' l heq
    exact ⟨this.1, this.2.2.1, this.2.2.2⟩
  · rename_i hst
    have := transmitError_eq cfg env c p h hok (by simp [hst]) hs hc c' l heq
    exact ⟨this.1, this.2.2.1, this.2.2.2⟩
  · rename_i hst
    split at heq
    · exact chunkSizeLineNoSpace_eq cfg env hok c p h hs hc (by simp [hst]) c' l heq
    · have := transmitError_eq cfg env c p h hok (by simp [hst]) hs hc c' l heq
      exact ⟨this.1, this.2.2.1, this.2.2.2⟩
  · rename_i hst
    have := transmitError_eq cfg env c p h hok (by simp [hst]) hs hc c' l heq
    exact ⟨this.1, this.2.2.1, this.2.2.2⟩
  · obtain ⟨rfl, rfl⟩ := Prod.mk.inj heq
    exact ⟨h, hs, hc⟩


theorem updateEventLoopInfo_eq {σ} (cfg : Cfg) (env : IdleEnv) (hok : EnvOk cfg env) (c : Conn σ) (p : PSt)
    (h : Rel c p) (hs : c.started = true) (hc : c.cleaned = false)
    (c' : Conn σ) (l : List LEv) (heq : updateEventLoopInfo cfg env c = (c', l)) : Post p c' l := by
  unfold updateEventLoopInfo at heq
  split at heq
  · obtain ⟨rfl, rfl⟩ := Prod.mk.inj heq; exact ⟨h, hs, hc⟩
  · split at heq
    · exact recvNoSpace_eq cfg env hok c p h hs hc c' l heq
    · obtain ⟨rfl, rfl⟩ := Prod.mk.inj heq; exact ⟨h, hs, hc⟩

theorem epollUpdate_eq {σ} (cfg : Cfg) (env : IdleEnv) (hok : EnvOk cfg env) (c : Conn σ) (p : PSt)
    (h : Rel c p) (hs : c.started = true) (hc : c.cleaned = false)
    (c' : Conn σ) (l : List LEv) (heq : epollUpdate cfg env c = (c', l)) : Post p c' l := by
  unfold epollUpdate at heq
  split at heq
  · obtain ⟨rfl, rfl⟩ := Prod.mk.inj heq; exact ⟨h, hs, hc⟩
  · split at heq
    · obtain ⟨rfl, rfl⟩ := Prod.mk.inj heq; exact ⟨h, hs, hc⟩
    · obtain ⟨rfl, rfl⟩ := Prod.mk.inj heq
      exact ⟨h.congr rfl rfl rfl rfl rfl rfl rfl rfl rfl rfl, hs, hc⟩
    · rename_i hadd
      have hfix : cfg.epollBypassFixed = true := by
        rcases hok.2.2.1 with hh | hh
        · exact hh
        · exact absurd hadd hh
      simp only [hfix, if_true] at heq
      have h1 := closeConn_rel c p terminatedWithError (h.toOpen hs hc) (h.stopDiscard hs hc)
      have f1 := closeConn_frame c terminatedWithError
      generalize hce : closeConn c terminatedWithError = rr at heq h1 f1
      obtain ⟨c1, l1⟩ := rr
      obtain ⟨t1, t2, t3, t4⟩ := h1
      simp only at t1 t2 t3 t4 f1
      have h2 := cleanupConnection_rel c1 _ t1 t3 (by rw [f1.1]; exact hs) (by rw [f1.2]; exact hc)
      have f2 := cleanupConnection_frame c1
      obtain ⟨rfl, rfl⟩ := Prod.mk.inj heq
      refine ⟨?_, ?_, ?_⟩
      · rw [Protocol.run_append]; exact h2.1
      · simp only; rw [f2.1, f1.1]; exact hs
      · simp only; rw [f2.2, f1.2]; exact hc

theorem handleIdle_eq {σ} (cfg : Cfg) (app : App σ) (env : IdleEnv) (hok : EnvOk cfg env) (c : Conn σ) (p : PSt)
    (h : Rel c p) (hs : c.started = true) (hc : c.cleaned = false)
    (c' : Conn σ) (l : List LEv) (heq : handleIdle cfg app env c = (c', l)) : Post p c' l := by
  unfold handleIdle handleIdleWith at heq
  generalize hce : idleLoop cfg app env _ _ = rr at heq
  obtain ⟨c1, l1, f1⟩ := rr
  obtain ⟨t1, t2, t3⟩ := idleLoop_eq cfg app env hok _ _ p (h.congr (c2 := { c with touched := false }) rfl rfl rfl rfl rfl rfl rfl rfl rfl rfl)
    (by simpa using hs) (by simpa using hc) c1 l1 f1 hce
  simp only at heq
  have hrest : ∀ (c' : Conn σ) (l : List LEv),
      (if env.timedOut = true ∧ ¬ c1.touched = true ∧ ¬ c1.suspended = true then
        ((closeConn c1 terminatedTimeoutReached).1, l1 ++ (closeConn c1 terminatedTimeoutReached).2)
       else
        if (updateEventLoopInfo cfg env c1).1.state = .closed then
          ((cleanupConnection (updateEventLoopInfo cfg env c1).1).1,
            l1 ++ (updateEventLoopInfo cfg env c1).2 ++ (cleanupConnection (updateEventLoopInfo cfg env c1).1).2)
        else
        if ¬ (updateEventLoopInfo cfg env c1).1.suspended = true ∧ cfg.epoll = true then
          ((epollUpdate cfg env (updateEventLoopInfo cfg env c1).1).1,
            l1 ++ (updateEventLoopInfo cfg env c1).2 ++ (epollUpdate cfg env (updateEventLoopInfo cfg env c1).1).2)
        else ((updateEventLoopInfo cfg env c1).1, l1 ++ (updateEventLoopInfo cfg env c1).2)) = (c', l) → Post p c' l := by
    intro c' l heq
    split at heq
    · have h1 := closeConn_rel c1 _ terminatedTimeoutReached (t1.toOpen t2 t3) (t1.stopDiscard t2 t3)
      have f1 := closeConn_frame c1 terminatedTimeoutReached
      obtain ⟨rfl, rfl⟩ := Prod.mk.inj heq
      refine ⟨?_, by rw [f1.1]; exact t2, by rw [f1.2]; exact t3⟩
      rw [Protocol.run_append]; exact h1.1
    · have hu := updateEventLoopInfo_eq cfg env hok c1 _ t1 t2 t3 _ _ rfl
      split at heq
      · rename_i hcl
        have hcu := cleanupConnection_rel _ _ hu.1 hcl hu.2.1 hu.2.2
        have hfr := cleanupConnection_frame (updateEventLoopInfo cfg env c1).1
        obtain ⟨rfl, rfl⟩ := Prod.mk.inj heq
        refine ⟨?_, by rw [hfr.1]; exact hu.2.1, by rw [hfr.2]; exact hu.2.2⟩
        rw [Protocol.run_append, Protocol.run_append]; exact hcu.1
      split at heq
      · have he := epollUpdate_eq cfg env hok _ _ hu.1 hu.2.1 hu.2.2 _ _ rfl
        obtain ⟨rfl, rfl⟩ := Prod.mk.inj heq
        refine ⟨?_, he.2.1, he.2.2⟩
        rw [Protocol.run_append, Protocol.run_append]; exact he.1
      · obtain ⟨rfl, rfl⟩ := Prod.mk.inj heq
        refine ⟨?_, hu.2.1, hu.2.2⟩
        rw [Protocol.run_append]; exact hu.1
  cases f1 with
  | dead => obtain ⟨rfl, rfl⟩ := Prod.mk.inj heq; exact ⟨t1, t2, t3⟩
  | keep => obtain ⟨rfl, rfl⟩ := Prod.mk.inj heq; exact ⟨t1, t2, t3⟩
  | again => exact hrest c' l (by simpa using heq)
  | stop => exact hrest c' l (by simpa using heq)


theorem closeConn_post {σ} (c : Conn σ) (p : PSt) (code : Nat) (h : Open c p)
    (hsd : c.stopWithError = true → c.discard = true) (hs : c.started = true) (hc : c.cleaned = false) :
    Post p (closeConn c code).1 (closeConn c code).2 := by
  have h1 := closeConn_rel c p code h hsd
  have f1 := closeConn_frame c code
  exact ⟨h1.1, by rw [f1.1]; exact hs, by rw [f1.2]; exact hc⟩

theorem closeError_post {σ} (c : Conn σ) (p : PSt) (h : Open c p) (hs : c.started = true) (hc : c.cleaned = false) :
    Post p (closeError c).1 (closeError c).2 := by
  have h1 := closeError_rel c p h
  have f1 := closeError_frame c
  exact ⟨h1.1, by rw [f1.1]; exact hs, by rw [f1.2]; exact hc⟩

theorem handleRead_eq {σ} (c : Conn σ) (p : PSt) (e : Ev)
    (h : Rel c p) (hs : c.started = true) (hc : c.cleaned = false) :
    Post p (handleRead c e).1 (handleRead c e).2 := by
  have hop := h.toOpen hs hc
  have hsd := h.stopDiscard hs hc
  have hop' : ∀ (c2 : Conn σ), c2.started = c.started → c2.cleaned = c.cleaned → c2.clientAware = c.clientAware →
      c2.ctx = c.ctx → Open c2 p := by
    intro c2 e1 e2 e3 e4
    cases p <;> simp_all [Rel, Open, respOrUpg]
  unfold handleRead
  cases e with
  | recv toks =>
    simp only
    split
    · exact ⟨h, hs, hc⟩
    · exact ⟨h.congr rfl rfl rfl rfl rfl rfl rfl rfl rfl rfl, hs, hc⟩
  | recvEof =>
    simp only
    split
    · exact ⟨h, hs, hc⟩
    · split
      · exact closeConn_post _ p _ (hop' _ rfl rfl rfl rfl) (by simp) hs hc
      · split
        · exact closeConn_post _ p _ (hop' _ rfl rfl rfl rfl) (by simpa using hsd) hs hc
        · exact closeConn_post _ p _ (hop' _ rfl rfl rfl rfl) (by simpa using hsd) hs hc
  | recvErr reset =>
    simp only
    split
    · exact ⟨h, hs, hc⟩
    · split
      · split
        · exact closeConn_post _ p _ (hop' _ rfl rfl rfl rfl) (by simp) hs hc
        · exact closeConn_post _ p _ hop hsd hs hc
      · exact closeError_post c p hop hs hc
  | start => exact ⟨h, hs, hc⟩
  | idle env => exact ⟨h, hs, hc⟩
  | write r => exact ⟨h, hs, hc⟩
  | forceClose => exact ⟨h, hs, hc⟩
  | resume => exact ⟨h, hs, hc⟩
  | shutdownClose => exact ⟨h, hs, hc⟩
  | cleanup => exact ⟨h, hs, hc⟩
  | appQueue r env => exact ⟨h, hs, hc⟩
  | upgradeDone => exact ⟨h, hs, hc⟩
  | startFailed => exact ⟨h, hs, hc⟩

theorem handleWrite_eq {σ} (c : Conn σ) (p : PSt) (r : WriteRes)
    (h : Rel c p) (hs : c.started = true) (hc : c.cleaned = false) :
    Post p (handleWrite c r).1 (handleWrite c r).2 := by
  have hop := h.toOpen hs hc
  unfold handleWrite
  split
  · exact ⟨h, hs, hc⟩
  · cases hst : c.state <;> simp only <;> first
      | exact ⟨h, hs, hc⟩
      | (cases r <;> simp only <;> first
          | exact ⟨h, hs, hc⟩
          | exact closeError_post c p hop hs hc
          | (refine ⟨?_, hs, hc⟩; simp only [run_nil]; rel_fin))


/-- the event does not exercise a path that is known to be defective in an unrepaired tree -/
def EvOk (cfg : Cfg) : Ev → Prop
  | .idle env => EnvOk cfg env
  | .appQueue _ env => EnvOk cfg env
  | _ => True

theorem envOk_of_fixed (cfg : Cfg) (h9 : cfg.f9Fixed = true) (ha : cfg.allocBypassFixed = true)
    (he : cfg.epollBypassFixed = true) (h14 : cfg.f14Fixed = true ∧ cfg.f14ClearsAware = true) (env : IdleEnv) :
    EnvOk cfg env :=
  ⟨Or.inl h9, Or.inl ha, Or.inl he, Or.inl h14⟩

theorem evOk_of_fixed (cfg : Cfg) (h9 : cfg.f9Fixed = true) (ha : cfg.allocBypassFixed = true)
    (he : cfg.epollBypassFixed = true) (h14 : cfg.f14Fixed = true ∧ cfg.f14ClearsAware = true) (e : Ev) : EvOk cfg e := by
  cases e <;> simp [EvOk] <;> exact envOk_of_fixed cfg h9 ha he h14 _

theorem step_rel {σ} (cfg : Cfg) (app : App σ) (c : Conn σ) (p : PSt) (e : Ev) (h : Rel c p) (hok : EvOk cfg e) :
    Rel (step cfg app c e).1 (Protocol.run p (step cfg app c e).2) := by
  unfold step
  split
  · exact h
  · cases e with
    | start =>
      simp only
      split
      · exact h
      · rename_i hns
        cases p <;> simp_all [Rel, Inv, respOrUpg] <;> grind
    | startFailed =>
      simp only
      split
      · exact h
      · rename_i hns
        cases p <;> simp_all [Rel, Inv, respOrUpg]
    | recv toks =>
      simp only
      split
      · exact h
      · rename_i hlive
        simp only [Bool.not_eq_true', Bool.or_eq_true, Bool.not_eq_eq_eq_not, Bool.not_true, not_or, Bool.not_eq_false] at hlive
        split
        · exact h
        · exact (handleRead_eq c p _ h hlive.1 (by simpa using hlive.2)).1
    | recvEof =>
      simp only
      split
      · exact h
      · rename_i hlive
        simp only [Bool.not_eq_true', Bool.or_eq_true, Bool.not_eq_eq_eq_not, Bool.not_true, not_or, Bool.not_eq_false] at hlive
        split
        · exact h
        · exact (handleRead_eq c p _ h hlive.1 (by simpa using hlive.2)).1
    | recvErr reset =>
      simp only
      split
      · exact h
      · rename_i hlive
        simp only [Bool.not_eq_true', Bool.or_eq_true, Bool.not_eq_eq_eq_not, Bool.not_true, not_or, Bool.not_eq_false] at hlive
        split
        · exact h
        · exact (handleRead_eq c p _ h hlive.1 (by simpa using hlive.2)).1
    | idle env =>
      simp only
      split
      · exact h
      · rename_i hlive
        simp only [Bool.not_eq_true', Bool.or_eq_true, Bool.not_eq_eq_eq_not, Bool.not_true, not_or, Bool.not_eq_false] at hlive
        split
        · exact h
        · exact (handleIdle_eq cfg app env hok c p h hlive.1 (by simpa using hlive.2) _ _ rfl).1
    | write r =>
      simp only
      split
      · exact h
      · rename_i hlive
        simp only [Bool.not_eq_true', Bool.or_eq_true, Bool.not_eq_eq_eq_not, Bool.not_true, not_or, Bool.not_eq_false] at hlive
        split
        · exact h
        · exact (handleWrite_eq c p r h hlive.1 (by simpa using hlive.2)).1
    | forceClose =>
      simp only
      split
      · exact h
      · rename_i hlive
        simp only [Bool.not_eq_true', Bool.or_eq_true, Bool.not_eq_eq_eq_not, Bool.not_true, not_or, Bool.not_eq_false] at hlive
        have hc : c.cleaned = false := by simpa using hlive.2
        split
        · exact h
        · exact (closeConn_post c p _ (h.toOpen hlive.1 hc) (h.stopDiscard hlive.1 hc) hlive.1 hc).1
    | resume =>
      simp only
      split
      · exact h
      · split
        · exact h
        · exact h.congr rfl rfl rfl rfl rfl rfl rfl rfl rfl rfl
    | shutdownClose =>
      simp only
      split
      · exact h
      · rename_i hlive
        simp only [Bool.not_eq_true', Bool.or_eq_true, Bool.not_eq_eq_eq_not, Bool.not_true, not_or, Bool.not_eq_false] at hlive
        have hc : c.cleaned = false := by simpa using hlive.2
        split
        · exact h
        · have h1 := closeConn_rel c p terminatedDaemonShutdown (h.toOpen hlive.1 hc) (h.stopDiscard hlive.1 hc)
          obtain ⟨t1, t2, t3, t4⟩ := h1
          simp only
          rw [t2] at t1 ⊢
          simp only [Rel, Inv, respOrUpg] at t1 ⊢
          simp_all
    | appQueue r env =>
      simp only
      split
      · exact h
      · rename_i hlive
        simp only [Bool.not_eq_true', Bool.or_eq_true, Bool.not_eq_eq_eq_not, Bool.not_true, not_or, Bool.not_eq_false] at hlive
        have hc : c.cleaned = false := by simpa using hlive.2
        split
        · exact h
        · rename_i hgo
          have haw : c.clientAware = true := by
            cases hh : c.clientAware <;> simp_all
          -- the effect of MHD_queue_response
          have hq : Rel (queueResponse env c r).1 (Protocol.run p (queueResponse env c r).2.1) ∧
              (queueResponse env c r).1.started = true ∧ (queueResponse env c r).1.cleaned = false := by
            have hinv : Inv c := by cases p <;> simp_all [Rel, respOrUpg]
            simp only [Inv] at hinv
            unfold queueResponse
            cases hr : c.response with
            | some r0 => simp [hr, h, hlive.1, hc]
            | none =>
              simp only [hr, Option.isSome_none, Bool.false_eq_true, if_false]
              split
              · exact ⟨h, hlive.1, hc⟩
              · rename_i hst
                split
                · exact ⟨h, hlive.1, hc⟩
                · split
                  · exact ⟨h, hlive.1, hc⟩
                  · refine ⟨?_, ?_, ?_⟩
                    · simp only [run_cons, run_nil]
                      have hst' : c.state = .headersProcessed ∨ c.state = .fullReqReceived := by
                        by_cases h5 : c.state = .headersProcessed
                        · exact Or.inl h5
                        · by_cases h11 : c.state = .fullReqReceived
                          · exact Or.inr h11
                          · exact absurd ⟨h5, h11⟩ hst
                      clear hgo hok
                      rcases hst' with h5 | h11
                      · cases p <;> simp_all [Rel, Inv, respOrUpg, stateSite] <;> grind
                      · cases p <;> simp_all [Rel, Inv, respOrUpg, stateSite] <;> grind
                    · split <;> simpa using hlive.1
                    · split <;> simpa using hc
          split
          · have hi := handleIdle_eq cfg app env hok _ _ hq.1 hq.2.1 hq.2.2 _ _ rfl
            simp only
            rw [Protocol.run_append]
            exact hi.1
          · exact hq.1
    | cleanup =>
      simp only
      split
      · exact h
      · rename_i hlive
        simp only [Bool.not_eq_true', Bool.or_eq_true, Bool.not_eq_eq_eq_not, Bool.not_true, not_or, Bool.not_eq_false] at hlive
        have hc : c.cleaned = false := by simpa using hlive.2
        split
        · rename_i hic
          have hinv : Inv c := by cases p <;> simp_all [Rel, respOrUpg]
          simp only [Inv] at hinv
          have hcl := hinv.2.2.2.2.2.1 hic
          simp only [dropResp, hcl.2.2]
          cases p <;> simp_all [Rel, respOrUpg]
        · exact h
    | upgradeDone =>
      simp only
      split
      · exact h
      · rename_i hlive
        simp only [Bool.not_eq_true', Bool.or_eq_true, Bool.not_eq_eq_eq_not, Bool.not_true, not_or, Bool.not_eq_false] at hlive
        have hc : c.cleaned = false := by simpa using hlive.2
        split
        · exact h
        · rename_i hgo
          unfold notify
          cases p <;> simp_all [Rel, Inv, respOrUpg] <;> grind

/-- the relation is preserved along every event sequence -/
theorem run_rel {σ} (cfg : Cfg) (app : App σ) :
    ∀ (evs : List Ev) (c : Conn σ) (p : PSt), Rel c p → (∀ e ∈ evs, EvOk cfg e) →
      Rel (run cfg app c evs).1 (Protocol.run p (run cfg app c evs).2) := by
  intro evs
  induction evs with
  | nil => intro c p h _; exact h
  | cons e es ih =>
    intro c p h hok
    simp only [run]
    rw [Protocol.run_append]
    exact ih _ _ (step_rel cfg app c p e h (hok e (by simp))) (fun e' he' => hok e' (by simp [he']))

theorem init_rel {σ} (s : σ) : Rel (Conn.init s) .fresh := by
  simp [Rel, Inv, respOrUpg, Conn.init]

end Mhd.ConnSM
