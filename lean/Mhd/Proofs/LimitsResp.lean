/-
  C09 helper lemmas, part 5: the response reference count refines the multiset
  of its holders (the application + every connection that has it queued).
-/
import Mhd.Proofs.LimitsStep

namespace Mhd.Limits


/-- connections of `l` that have response `r` queued -/
def hold (r : Nat) (l : List Conn) : Nat := l.countP (fun c => c.resp == some r)
def hold1 (r : Nat) (c : Conn) : Nat := if c.resp = some r then 1 else 0

@[simp] theorem hold_nil (r) : hold r [] = 0 := rfl
@[simp] theorem hold_cons (r) (c : Conn) (l) : hold r (c :: l) = hold r l + hold1 r c := by
  simp [hold, hold1, List.countP_cons]
@[simp] theorem hold_append (r) (l₁ l₂ : List Conn) : hold r (l₁ ++ l₂) = hold r l₁ + hold r l₂ := by
  simp [hold, List.countP_append]
@[simp] theorem hold_reverse (r) (l : List Conn) : hold r l.reverse = hold r l := by
  simp [hold, List.countP_reverse]
theorem hold_map (r) (f : Conn → Conn) (hf : ∀ c, (f c).resp = c.resp) (l : List Conn) : hold r (l.map f) = hold r l := by
  induction l with
  | nil => rfl
  | cons c l ih => simp [ih, hold1, hf]
theorem hold_filter_split (r) (q : Conn → Bool) (l : List Conn) :
    hold r (l.filter q) + hold r (l.filter (fun c => !q c)) = hold r l := by
  induction l with
  | nil => rfl
  | cons c l ih =>
    by_cases h : q c = true
    · simp [h]; omega
    · simp [h]; omega
theorem hold_updConn (r id : Nat) (f : Conn → Conn) (hf : ∀ c, (f c).resp = c.resp) (l : List Conn) :
    hold r (updConn id f l) = hold r l := by
  unfold updConn
  apply hold_map
  intro c
  by_cases h : c.id = id <;> simp [h, hf]
theorem hold_none (r) (l : List Conn) (h : ∀ c ∈ l, c.resp = none) : hold r l = 0 := by
  induction l with
  | nil => rfl
  | cons c l ih =>
    have h1 := h c (List.mem_cons_self ..)
    have h2 := ih (fun x hx => h x (List.mem_cons_of_mem _ hx))
    simp [h2, hold1, h1]

def appN (x : Resp) : Nat := if x.app then 1 else 0

/-- reference-count refinement for response `r`: the counter is the application's own reference
    plus `h` connection holders; the object is freed exactly when the counter is zero -/
def RT1 (r : Nat) (T : Nat → Option Resp) (h : Nat) : Prop :=
  match T r with
  | none => h = 0
  | some x => x.rc = appN x + h ∧ (x.freed = true ↔ x.rc = 0)

/-- no reference-count fault -/
def RFree (f : Option Fault) : Prop := f ≠ some .unknownResp ∧ f ≠ some .useAfterFree ∧ f ≠ some .rcUnderflow

theorem acquire_rt (R R' : RespTab) (r0 : Nat) (ha : acquire R r0 = some R') (r : Nat) (h : Nat)
    (hr : RT1 r R.tab h) : RT1 r R'.tab (h + if r0 = r then 1 else 0) ∧ R'.fault = R.fault := by
  unfold acquire at ha
  split at ha
  · rename_i x hx
    split at ha
    · rename_i hcond
      simp at ha; subst ha
      simp only [and_true]
      unfold RT1 at hr ⊢
      by_cases e : r0 = r
      · subst e
        simp only [setFn, if_true, hx] at hr ⊢
        simp at hcond
        obtain ⟨h1, h2⟩ := hr
        refine ⟨by simp only [appN] at h1 ⊢; omega, ?_⟩
        simp [hcond.2]
      · have : (setFn R.tab r0 (some { x with rc := x.rc + 1 })) r = R.tab r := by
          simp [setFn, Ne.symm e]
        simp only [this, e, if_false, Nat.add_zero]; exact hr
    · simp at ha
  · simp at ha

theorem release_rt (R : RespTab) (r0 : Nat) (r : Nat) (h : Nat) (hr : RT1 r R.tab h)
    (hpos : r0 = r → 1 ≤ h) (hkn : R.tab r0 ≠ none) :
    RT1 r (release R r0).1.tab (h - if r0 = r then 1 else 0) := by
  unfold release
  split
  · rename_i hx; exact absurd hx hkn
  · rename_i x hx
    by_cases e : r0 = r
    · subst e
      have hp := hpos rfl
      unfold RT1 at hr
      simp only [hx] at hr
      obtain ⟨h1, h2⟩ := hr
      have hnf : x.freed = false := by
        cases hf : x.freed with
        | false => rfl
        | true => have := h2.mp hf; omega
      have hrc : x.rc ≠ 0 := by omega
      simp only [hnf, hrc, if_false, Bool.false_eq_true]
      split
      · rename_i h1'
        unfold RT1
        simp only [setFn, if_true]
        simp [appN] at h1 ⊢
        have : x.app = false := by
          cases ha : x.app with
          | false => rfl
          | true => simp [ha] at h1; omega
        simp [this] at h1 ⊢; omega
      · unfold RT1
        simp only [setFn, if_true]
        refine ⟨by simp [appN] at h1 ⊢; omega, ?_⟩
        simp [hnf]; omega
    · have hsame : ∀ y, (setFn R.tab r0 y) r = R.tab r := by intro y; simp [setFn, Ne.symm e]
      simp only [e, if_false, Nat.sub_zero]
      split
      · exact hr
      · split
        · exact hr
        · split
          · unfold RT1; simp only [hsame]; exact hr
          · unfold RT1; simp only [hsame]; exact hr


theorem release_fault (R : RespTab) (r0 : Nat) (h : Nat) (hr : RT1 r0 R.tab h) (hpos : 1 ≤ h) :
    (release R r0).1.fault = R.fault := by
  unfold release
  unfold RT1 at hr
  split
  · rename_i hx; simp [hx] at hr; omega
  · rename_i x hx
    simp only [hx] at hr
    obtain ⟨h1, h2⟩ := hr
    have hnf : x.freed = false := by
      cases hf : x.freed with
      | false => rfl
      | true => have := h2.mp hf; omega
    have hrc : x.rc ≠ 0 := by omega
    simp only [hnf, hrc, if_false, Bool.false_eq_true]
    split <;> rfl

theorem release_known (R : RespTab) (r0 : Nat) (h : Nat) (hr : RT1 r0 R.tab h) (hpos : 1 ≤ h) : R.tab r0 ≠ none := by
  unfold RT1 at hr
  intro hn
  simp [hn] at hr; omega

/-- the holder predicate summed over a connection `c` that is being processed: `H + hold1 r c` -/
theorem closeConn_rt (R : RespTab) (c : Conn) (H : Nat → Nat) (hr : ∀ r, RT1 r R.tab (H r + hold1 r c)) :
    (∀ r, RT1 r (closeConn R c).1.tab (H r + hold1 r (closeConn R c).2.1)) ∧
    (closeConn R c).1.fault = R.fault ∧ (closeConn R c).2.1.resp = none := by
  unfold closeConn
  cases hc : c.resp with
  | none =>
    simp only
    refine ⟨fun r => ?_, ?_, ?_⟩
    · have := hr r
      simpa [hold1, hc] using this
    all_goals first | rfl | trivial | exact hc
  | some r0 =>
    simp only
    have h0 := hr r0
    have hp : 1 ≤ H r0 + hold1 r0 c := by simp [hold1, hc]
    refine ⟨fun r => ?_, ?_, ?_⟩
    · have := release_rt R r0 r _ (hr r) (fun e => by subst e; exact hp) (release_known R r0 _ h0 hp)
      by_cases e : r0 = r
      · subst e
        simp [hold1, hc] at this ⊢
        exact this
      · have hne : some r0 ≠ some r := fun hh => e (Option.some.inj hh)
        simp [hold1, hc, e, hne] at this ⊢
        exact this
    · exact release_fault R r0 _ h0 hp
    · first | rfl | trivial

theorem finishReply_rt (R : RespTab) (c : Conn) (H : Nat → Nat) (hr : ∀ r, RT1 r R.tab (H r + hold1 r c)) :
    (∀ r, RT1 r (finishReply R c).1.tab (H r + hold1 r (finishReply R c).2.1)) ∧
    (finishReply R c).1.fault = R.fault := by
  unfold finishReply
  have := closeConn_rt R c H hr
  simp only [hold1] at this ⊢
  exact ⟨this.1, this.2.1⟩

/-- result of handling one connection: the table still refines, with the connection's new holder state -/
def HRt (R : RespTab) (H : Nat → Nat) (q : RespTab × Conn × Disp × List Ev) : Prop :=
  (∀ r, RT1 r q.1.tab (H r + hold1 r q.2.1)) ∧ (RFree R.fault → RFree q.1.fault)

theorem runReply_rt (R0 R1 : RespTab) (c1 : Conn) (r0 : Nat) (cl : Bool) (H : Nat → Nat)
    (h1 : ∀ r, RT1 r R1.tab (H r + hold1 r c1)) (hf1 : RFree R0.fault → RFree R1.fault) :
    HRt R0 H (runReply R1 c1 r0 cl) := by
  unfold runReply
  split
  · have := closeConn_rt R1 _ H h1
    exact ⟨this.1, fun hh => by rw [this.2.1]; exact hf1 hh⟩
  · split
    · have := closeConn_rt R1 _ H h1
      refine ⟨fun r => ?_, fun hh => by rw [this.2.1]; exact hf1 hh⟩
      have h2 := this.1 r
      simpa [hold1, this.2.2] using h2
    · split
      · exact ⟨fun r => by simpa [hold1] using h1 r, hf1⟩
      · have := finishReply_rt R1 { c1 with closeAfter := cl } H
          (fun r => by simpa [hold1] using h1 r)
        exact ⟨this.1, fun hh => by rw [this.2]; exact hf1 hh⟩

theorem doReply_rt (cfg : Cfg) (R : RespTab) (c : Conn) (r0 : Nat) (cl : Bool) (H : Nat → Nat)
    (hr : ∀ r, RT1 r R.tab (H r + hold1 r c)) : HRt R H (doReply cfg R c r0 cl) := by
  unfold doReply
  split
  · exact ⟨fun r => by simpa [hold1] using hr r, id⟩
  · rename_i hns
    have hc : c.resp = none := by
      cases h : c.resp with
      | none => rfl
      | some x => simp [h] at hns
    have hr0 : ∀ r, RT1 r R.tab (H r) := by
      intro r; have := hr r; simpa [hold1, hc] using this
    split
    · exact ⟨fun r => by simpa [hold1, hc] using hr0 r, id⟩
    · split
      · exact ⟨fun r => by simpa [hold1, hc] using hr0 r, id⟩
      · rename_i R1 hacq
        have h1 : ∀ r, RT1 r R1.tab (H r + hold1 r { c with req := none, resp := some r0 }) := by
          intro r
          have := (acquire_rt R R1 r0 hacq r (H r) (hr0 r)).1
          by_cases e : r0 = r
          · subst e; simpa [hold1] using this
          · have hne : some r0 ≠ some r := fun hh => e (Option.some.inj hh)
            simpa [hold1, e, hne] using this
        have hf1 : R1.fault = R.fault := (acquire_rt R R1 r0 hacq r0 (H r0) (hr0 r0)).2
        exact runReply_rt R R1 _ r0 cl H h1 (fun hh => by rw [hf1]; exact hh)

/-- an interim reply takes a reference and gives it back: the table refines the same holders -/
theorem interimOne_rt (R : RespTab) (c : Conn) (r0 : Nat) (H : Nat → Nat) (hr : ∀ r, RT1 r R.tab (H r)) :
    (∀ r, RT1 r (interimOne R c r0).1.tab (H r)) ∧ (interimOne R c r0).1.fault = R.fault := by
  unfold interimOne
  split
  · exact ⟨hr, rfl⟩
  · split
    · exact ⟨hr, rfl⟩
    · rename_i R1 hacq
      have h1 : ∀ r, RT1 r R1.tab (H r + if r0 = r then 1 else 0) := fun r => (acquire_rt R R1 r0 hacq r (H r) (hr r)).1
      have hf1 : R1.fault = R.fault := (acquire_rt R R1 r0 hacq r0 (H r0) (hr r0)).2
      have hp : 1 ≤ H r0 + (if r0 = r0 then 1 else 0) := by simp
      refine ⟨fun r => ?_, (release_fault R1 r0 _ (h1 r0) hp).trans hf1⟩
      have := release_rt R1 r0 r _ (h1 r) (fun e => by subst e; exact hp) (release_known R1 r0 _ (h1 r0) hp)
      by_cases e : r0 = r
      · subst e; simpa using this
      · simpa [e] using this

theorem interims_rt (c : Conn) (l : List Nat) : ∀ (R : RespTab) (H : Nat → Nat), (∀ r, RT1 r R.tab (H r)) →
    (∀ r, RT1 r (interims R c l).1.tab (H r)) ∧ (interims R c l).1.fault = R.fault := by
  induction l with
  | nil => intro R H hr; exact ⟨hr, rfl⟩
  | cons r0 rest ih =>
    intro R H hr
    unfold interims
    have h1 := interimOne_rt R c r0 H hr
    generalize interimOne R c r0 = q at h1 ⊢
    obtain ⟨R1, ok, e⟩ := q
    cases ok with
    | false => exact h1
    | true =>
      have := ih R1 H h1.1
      exact ⟨this.1, this.2.trans h1.2⟩

theorem replyPre_rt (cfg : Cfg) (R : RespTab) (c : Conn) (r0 : Nat) (cl : Bool) (pre : List Nat) (H : Nat → Nat)
    (hr : ∀ r, RT1 r R.tab (H r + hold1 r c)) : HRt R H (replyPre cfg R c r0 cl pre) := by
  unfold replyPre
  have h1 := interims_rt c pre R (fun r => H r + hold1 r c) hr
  generalize interims R c pre = q at h1 ⊢
  obtain ⟨R1, ok, e⟩ := q
  obtain ⟨a1, a2⟩ := h1
  simp only at a1 a2
  cases ok with
  | false => exact ⟨fun r => by simpa [hold1] using a1 r, fun hh => by rw [a2]; exact hh⟩
  | true =>
    have := doReply_rt cfg R1 c r0 (cl || !pre.isEmpty) H a1
    exact ⟨this.1, fun hh => this.2 (by rw [a2]; exact hh)⟩

theorem handleReq_rt (cfg : Cfg) (R : RespTab) (c : Conn) (H : Nat → Nat)
    (hr : ∀ r, RT1 r R.tab (H r + hold1 r c)) :
    (∀ r, RT1 r (handleReq cfg R c).1.tab (H r + hold1 r (handleReq cfg R c).2.1)) := by
  unfold handleReq
  split
  · exact hr
  · split
    · exact fun r => by simpa [hold1] using hr r
    · exact fun r => by simpa [hold1] using hr r
  · exact (replyPre_rt cfg R c _ _ _ H hr).1
  · exact fun r => by simpa [hold1] using hr r
  · exact (replyPre_rt cfg R { c with inClose := true } _ _ _ H (fun r => by simpa [hold1] using hr r)).1
  · split
    · exact (runReply_rt R R _ _ true H (fun r => by simpa [hold1] using hr r) id).1
    · exact fun r => by simpa [hold1] using hr r

theorem handleReq_rfree (cfg : Cfg) (R : RespTab) (c : Conn) (H : Nat → Nat)
    (hr : ∀ r, RT1 r R.tab (H r + hold1 r c)) (hf : RFree R.fault) : RFree (handleReq cfg R c).1.fault := by
  unfold handleReq
  split
  · exact hf
  · split
    · exact hf
    · simp [RFree]
  · exact (replyPre_rt cfg R c _ _ _ H hr).2 hf
  · exact hf
  · exact (replyPre_rt cfg R { c with inClose := true } _ _ _ H (fun r => by simpa [hold1] using hr r)).2 hf
  · split
    · exact (runReply_rt R R _ _ true H (fun r => by simpa [hold1] using hr r) id).2 hf
    · exact hf

theorem afterReq_rt (R : RespTab) (c : Conn) (H : Nat → Nat) (hr : ∀ r, RT1 r R.tab (H r + hold1 r c)) :
    (∀ r, RT1 r (afterReq R c).1.tab (H r + hold1 r (afterReq R c).2.1)) ∧ (afterReq R c).1.fault = R.fault := by
  unfold afterReq
  split
  · have := closeConn_rt R c H hr; exact ⟨this.1, this.2.1⟩
  · split
    · exact finishReply_rt R c H hr
    · exact ⟨hr, rfl⟩

theorem handleConn_rt (cfg : Cfg) (R : RespTab) (c : Conn) (H : Nat → Nat)
    (hr : ∀ r, RT1 r R.tab (H r + hold1 r c)) (hf : RFree R.fault) :
    (∀ r, RT1 r (handleConn cfg R c).1.tab (H r + hold1 r (handleConn cfg R c).2.1)) ∧
    RFree (handleConn cfg R c).1.fault := by
  unfold handleConn
  have h1 := handleReq_rt cfg R c H hr
  have h2 := handleReq_rfree cfg R c H hr hf
  generalize handleReq cfg R c = q at h1 h2 ⊢
  obtain ⟨R1, c1, d, e⟩ := q
  simp only at h1 h2 ⊢
  cases d with
  | keep =>
    simp only
    have := afterReq_rt R1 c1 H h1
    exact ⟨this.1, by rw [this.2]; exact h2⟩
  | clean => exact ⟨h1, h2⟩
  | susp => exact ⟨h1, h2⟩

theorem handleList_rt (cfg : Cfg) (l : List Conn) : ∀ (acc : HAcc) (H : Nat → Nat),
    (∀ r, RT1 r acc.R.tab (H r + hold r acc.kept + hold r acc.clean + hold r acc.susp + hold r l)) → RFree acc.R.fault →
    (∀ r, RT1 r (handleList cfg acc l).R.tab (H r + hold r (handleList cfg acc l).kept + hold r (handleList cfg acc l).clean +
        hold r (handleList cfg acc l).susp)) ∧ RFree (handleList cfg acc l).R.fault := by
  induction l with
  | nil => intro acc H h hf; exact ⟨fun r => by simpa [handleList] using h r, hf⟩
  | cons x rest ih =>
    intro acc H h hf
    unfold handleList
    have hk := handleConn_rt cfg acc.R x (fun r => H r + hold r acc.kept + hold r acc.clean + hold r acc.susp + hold r rest)
      (fun r => by have := h r; simp only [hold_cons] at this; simpa [Nat.add_assoc] using this) hf
    generalize handleConn cfg acc.R x = q at hk ⊢
    obtain ⟨R1, c1, d, e⟩ := q
    obtain ⟨a1, a2⟩ := hk
    simp only at a1 a2
    cases d with
    | keep =>
      simp only
      exact ih { acc with R := R1, kept := c1 :: acc.kept, evs := acc.evs ++ e } H
        (fun r => by have := a1 r; simp only [hold_cons]; have e1 : H r + (hold r acc.kept + hold1 r c1) + hold r acc.clean + hold r acc.susp + hold r rest = H r + hold r acc.kept + hold r acc.clean + hold r acc.susp + hold r rest + hold1 r c1 := by omega
                     rw [e1]; exact this) a2
    | clean =>
      simp only
      exact ih { acc with R := R1, clean := c1 :: acc.clean, evs := acc.evs ++ e } H
        (fun r => by have := a1 r; simp only [hold_cons]; have e1 : H r + hold r acc.kept + (hold r acc.clean + hold1 r c1) + hold r acc.susp + hold r rest = H r + hold r acc.kept + hold r acc.clean + hold r acc.susp + hold r rest + hold1 r c1 := by omega
                     rw [e1]; exact this) a2
    | susp =>
      simp only
      exact ih { acc with R := R1, susp := c1 :: acc.susp, evs := acc.evs ++ e } H
        (fun r => by have := a1 r; simp only [hold_cons]; have e1 : H r + hold r acc.kept + hold r acc.clean + (hold r acc.susp + hold1 r c1) + hold r rest = H r + hold r acc.kept + hold r acc.clean + hold r acc.susp + hold r rest + hold1 r c1 := by omega
                     rw [e1]; exact this) a2

theorem closeList_rt (l : List Conn) : ∀ (acc : CAcc) (H : Nat → Nat),
    (∀ r, RT1 r acc.R.tab (H r + hold r acc.moved + hold r l)) →
    (∀ r, RT1 r (closeList acc l).R.tab (H r + hold r (closeList acc l).moved)) ∧ (closeList acc l).R.fault = acc.R.fault := by
  induction l with
  | nil => intro acc H h; exact ⟨fun r => by simpa [closeList] using h r, rfl⟩
  | cons x rest ih =>
    intro acc H h
    unfold closeList
    have hk := closeConn_rt acc.R x (fun r => H r + hold r acc.moved + hold r rest)
      (fun r => by have := h r; simp only [hold_cons] at this; simpa [Nat.add_assoc] using this)
    generalize closeConn acc.R x = q at hk ⊢
    obtain ⟨R1, c1, e⟩ := q
    obtain ⟨a1, a2, _⟩ := hk
    simp only at a1 a2 ⊢
    have := ih { R := R1, moved := c1 :: acc.moved, evs := acc.evs ++ e } H
      (fun r => by have := a1 r; simp only [hold_cons]; have e1 : H r + (hold r acc.moved + hold1 r c1) + hold r rest = H r + hold r acc.moved + hold r rest + hold1 r c1 := by omega
                   rw [e1]; exact this)
    exact ⟨this.1, this.2.trans a2⟩



def holders (r : Nat) (s : St) : Nat := hold r s.newL + hold r s.active + hold r s.susp + hold r s.cleanup

/-- refinement invariant of the response table; `pend`: detached connections that still hold -/
structure RInvG (s : St) (pend : List Conn) : Prop where
  rt : ∀ r, RT1 r s.resps (holders r s + hold r pend)
  newNone : ∀ c ∈ s.newL, c.resp = none
  rf : RFree s.fault

abbrev RInv (s : St) : Prop := RInvG s []

theorem RInvG.congr {s s' : St} {pend : List Conn} (h : RInvG s pend) (h1 : s'.resps = s.resps)
    (h2 : s'.newL = s.newL) (h3 : s'.active = s.active) (h4 : s'.susp = s.susp) (h5 : s'.cleanup = s.cleanup)
    (h6 : RFree s'.fault) : RInvG s' pend := by
  refine ⟨?_, ?_, h6⟩
  · intro r; have := h.rt r; simp only [holders] at this ⊢; rw [h1, h2, h3, h4, h5]; exact this
  · rw [h2]; exact h.newNone

theorem ipDel_rfree (s : St) (a : Nat) (h : RFree s.fault) : RFree (ipDel s a).fault := by
  unfold ipDel
  split
  · exact h
  · split
    · exact h
    · split
      · simp [RFree]
      · exact h

@[simp] theorem ipDel_resps (s : St) (a : Nat) : (ipDel s a).resps = s.resps := (ipDel_fields s a).2.2.2.2.2.2.1
@[simp] theorem ipDel_newL' (s : St) (a : Nat) : (ipDel s a).newL = s.newL := (ipDel_fields s a).2.2.1
@[simp] theorem ipDel_active' (s : St) (a : Nat) : (ipDel s a).active = s.active := (ipDel_fields s a).2.2.2.1
@[simp] theorem ipDel_susp' (s : St) (a : Nat) : (ipDel s a).susp = s.susp := (ipDel_fields s a).2.2.2.2.1
@[simp] theorem ipDel_cleanup' (s : St) (a : Nat) : (ipDel s a).cleanup = s.cleanup := (ipDel_fields s a).2.2.2.2.2.1

theorem ipDel_rinv (s : St) (a : Nat) (pend : List Conn) (h : RInvG s pend) : RInvG (ipDel s a) pend :=
  h.congr (by simp) (by simp) (by simp) (by simp) (by simp) (ipDel_rfree s a h.rf)

theorem hold1_none (r : Nat) (c : Conn) (h : c.resp = none) : hold1 r c = 0 := by simp [hold1, h]

theorem process_rinv (s : St) (cn : Conn) (pend : List Conn) (hc : cn.resp = none) (h : RInvG s pend) :
    RInvG (process s cn).1 pend := by
  unfold process
  by_cases hp : s.armed = some .pool
  · simp only [hp, if_true]
    exact ipDel_rinv _ _ _ (h.congr rfl rfl rfl rfl rfl h.rf)
  · simp only [hp, if_false]
    by_cases hl : s.connections ≥ s.cfg.limit
    · simp only [hl, if_true]
      exact ipDel_rinv _ _ _ h
    · simp only [hl, if_false]
      have hf := lateFail_fields { s with connections := s.connections + 1, active := cn :: s.active }
      generalize lateFail { s with connections := s.connections + 1, active := cn :: s.active } = q at hf ⊢
      obtain ⟨s2, fl, e⟩ := q
      simp only at hf
      obtain ⟨f1, f2, f3, f4, f5, f6, f7, f8, f9, _⟩ := hf
      cases fl with
      | false =>
        simp only
        refine ⟨?_, ?_, by rw [f8]; exact h.rf⟩
        · intro r; have := h.rt r
          simp only [holders, f4, f5, f6, f7, f9, hold_cons, hold1_none r cn hc] at this ⊢; simpa using this
        · rw [f4]; exact h.newNone
      | true =>
        simp only
        apply ipDel_rinv
        refine ⟨?_, ?_, by simp only [f8]; exact h.rf⟩
        · intro r; have := h.rt r
          simp only [holders, f4, f5, f6, f7, f9, List.tail_cons] at this ⊢; exact this
        · simp only [f4]; exact h.newNone

theorem processList_rinv (l : List Conn) : ∀ (s : St) (pend : List Conn), (∀ c ∈ l, c.resp = none) → RInvG s pend →
    RInvG (processList s l).1 pend := by
  induction l with
  | nil => intro s pend _ h; exact h
  | cons cn rest ih =>
    intro s pend hl h
    unfold processList
    have h1 := process_rinv s cn pend (hl cn (List.mem_cons_self ..)) h
    generalize process s cn = q at h1 ⊢
    obtain ⟨s1, ok, e⟩ := q
    exact ih s1 pend (fun c hc => hl c (List.mem_cons_of_mem _ hc)) h1

theorem processNew_rinv (s : St) (h : RInv s) : RInv (processNew s).1 := by
  unfold processNew
  apply processList_rinv
  · intro c hc; exact h.newNone c (List.mem_reverse.mp hc)
  · refine ⟨?_, by simp, h.rf⟩
    intro r; have := h.rt r
    simp only [holders, hold_nil, hold_none r s.newL h.newNone] at this ⊢; simpa using this

theorem releaseOpt_rt (R : RespTab) (o : Option Nat) (H : Nat → Nat)
    (hr : ∀ r, RT1 r R.tab (H r + if o = some r then 1 else 0)) :
    (∀ r, RT1 r (releaseOpt R o).1.tab (H r)) ∧ (releaseOpt R o).1.fault = R.fault := by
  cases o with
  | none => exact ⟨fun r => by simpa [releaseOpt] using hr r, rfl⟩
  | some r0 =>
    simp only [releaseOpt]
    have h0 := hr r0
    have hp : 1 ≤ H r0 + (if some r0 = some r0 then 1 else 0) := by simp
    refine ⟨fun r => ?_, release_fault R r0 _ h0 hp⟩
    have := release_rt R r0 r _ (hr r) (fun e => by subst e; exact hp) (release_known R r0 _ h0 hp)
    by_cases e : r0 = r
    · subst e; simpa using this
    · have hne : some r0 ≠ some r := fun hh => e (Option.some.inj hh)
      simpa [e, hne] using this

theorem rfree_merge {a b : Option Fault} (ha : RFree a) (hb : RFree b) : RFree (mergeFault a b) := by
  unfold mergeFault; split <;> assumption

theorem rfree_none : RFree none := by simp [RFree]

theorem cleanupOne_rinv (s : St) (c : Conn) (pend : List Conn) (h : RInvG s (c :: pend)) :
    RInvG (cleanupOne s c).1 pend := by
  unfold cleanupOne
  simp only
  have hr := releaseOpt_rt { tab := (ipDel s c.addr).resps, fault := none } c.resp
    (fun r => holders r s + hold r pend)
    (fun r => by have := h.rt r; simp only [hold_cons, hold1, ipDel_resps] at this ⊢; simpa [Nat.add_assoc] using this)
  generalize releaseOpt { tab := (ipDel s c.addr).resps, fault := none } c.resp = q at hr ⊢
  obtain ⟨h1, h2⟩ := hr
  have hfree : RFree (mergeFault (ipDel s c.addr).fault q.1.fault) :=
    rfree_merge (ipDel_rfree s c.addr h.rf) (by rw [h2]; exact rfree_none)
  split
  · refine ⟨?_, by simpa using h.newNone, rfree_merge hfree (by simp [RFree])⟩
    intro r; have := h1 r; simp only [holders, ipDel_newL', ipDel_active', ipDel_susp', ipDel_cleanup'] at this ⊢; exact this
  · refine ⟨?_, by simpa using h.newNone, hfree⟩
    intro r; have := h1 r; simp only [holders, ipDel_newL', ipDel_active', ipDel_susp', ipDel_cleanup'] at this ⊢; exact this

theorem cleanupList_rinv (l : List Conn) : ∀ (s : St) (pend : List Conn), RInvG s (l ++ pend) →
    RInvG (cleanupList s l).1 pend := by
  induction l with
  | nil => intro s pend h; exact h
  | cons c rest ih =>
    intro s pend h
    unfold cleanupList
    have h1 := cleanupOne_rinv s c (rest ++ pend) h
    generalize cleanupOne s c = q at h1 ⊢
    obtain ⟨s1, e⟩ := q
    exact ih s1 pend h1

theorem cleanupAll_rinv (s : St) (h : RInv s) : RInv (cleanupAll s).1 := by
  unfold cleanupAll
  apply cleanupList_rinv
  refine ⟨?_, h.newNone, h.rf⟩
  intro r; have := h.rt r
  simp only [holders, hold_nil, hold_append, hold_reverse] at this ⊢
  have e1 : hold r s.newL + hold r s.active + hold r s.susp + 0 + (hold r s.cleanup + 0) = hold r s.newL + hold r s.active + hold r s.susp + hold r s.cleanup + 0 := by omega
  rw [e1]; exact this


theorem clearResuming_resp (c : Conn) : (clearResuming c).resp = c.resp := rfl
theorem markAppClosed_resp (c : Conn) : (markAppClosed c).resp = c.resp := rfl

theorem resumePass_rinv (s : St) (h : RInv s) : RInv (resumePass s).1 := by
  unfold resumePass
  by_cases hr : (!s.resuming) = true
  · rw [if_pos hr]; exact h
  · rw [if_neg hr]
    refine ⟨?_, h.newNone, h.rf⟩
    intro r; have := h.rt r
    have h1 := hold_filter_split r canResume s.susp
    have h2 := hold_filter_split r (fun c => c.urh) (s.susp.filter canResume)
    simp only [holders, hold_append, hold_nil, hold_map r _ clearResuming_resp] at this ⊢
    have e1 : hold r s.newL + (hold r ((s.susp.filter canResume).filter (fun c => !c.urh)) + hold r s.active) +
        hold r (s.susp.filter (fun c => !canResume c)) + (hold r ((s.susp.filter canResume).filter (fun c => c.urh)) + hold r s.cleanup) + 0
        = hold r s.newL + hold r s.active + hold r s.susp + hold r s.cleanup + 0 := by omega
    rw [e1]; exact this

theorem handlePass_rinv (s : St) (h : RInv s) : RInv (handlePass s).1 := by
  unfold handlePass
  have hs := handleList_rt s.cfg s.active.reverse
    { R := { tab := s.resps, fault := none }, kept := [], clean := [], susp := [], evs := [] }
    (fun r => hold r s.newL + hold r s.susp + hold r s.cleanup)
    (fun r => by
      have := h.rt r
      simp only [holders, hold_nil, hold_reverse] at this ⊢
      have e1 : hold r s.newL + hold r s.susp + hold r s.cleanup + 0 + 0 + 0 + hold r s.active
          = hold r s.newL + hold r s.active + hold r s.susp + hold r s.cleanup + 0 := by omega
      rw [e1]; exact this) rfree_none
  generalize handleList s.cfg _ s.active.reverse = acc at hs ⊢
  obtain ⟨h1, h2⟩ := hs
  refine ⟨?_, h.newNone, rfree_merge h.rf h2⟩
  intro r; have := h1 r
  simp only [holders, hold_append, hold_nil] at this ⊢
  have e1 : hold r s.newL + hold r acc.kept + (hold r acc.susp + hold r s.susp) + (hold r acc.clean + hold r s.cleanup) + 0
      = hold r s.newL + hold r s.susp + hold r s.cleanup + hold r acc.kept + hold r acc.clean + hold r acc.susp := by omega
  rw [e1]; exact this

theorem round_rinv (s : St) (h : RInv s) : RInv (round s).1 := by
  unfold round
  have h1 : RInv (if s.cfg.allowSuspend then resumePass s else (s, [])).1 := by
    split
    · exact resumePass_rinv s h
    · exact h
  exact cleanupAll_rinv _ (handlePass_rinv _ (processNew_rinv _ h1))

theorem closeNewList_rinv (l : List Conn) : ∀ (s : St) (pend : List Conn), RInvG s pend → RInvG (closeNewList s l).1 pend := by
  induction l with
  | nil => intro s pend h; exact h
  | cons x rest ih =>
    intro s pend h
    unfold closeNewList
    exact ih _ pend (ipDel_rinv s x.addr pend h)

theorem markUpgraded_rinv (s : St) (h : RInv s) : RInv (markUpgraded s) := by
  unfold markUpgraded
  split
  · refine ⟨?_, h.newNone, h.rf⟩
    intro r; have := h.rt r
    simp only [holders, hold_map r _ markAppClosed_resp] at this ⊢; exact this
  · exact h

theorem forceResume_rinv (flag : Bool) (s : St) (h : RInv s) : RInv (forceResume flag s).1 := by
  unfold forceResume
  split
  · exact resumePass_rinv _ (h.congr rfl rfl rfl rfl rfl h.rf)
  · exact h

theorem closeActive_rinv (s : St) (h : RInv s) : RInv (closeActive s).1 := by
  unfold closeActive
  have hs := closeList_rt s.active.reverse { R := { tab := s.resps, fault := none }, moved := [], evs := [] }
    (fun r => hold r s.newL + hold r s.susp + hold r s.cleanup)
    (fun r => by
      have := h.rt r
      simp only [holders, hold_nil, hold_reverse] at this ⊢
      have e1 : hold r s.newL + hold r s.susp + hold r s.cleanup + 0 + hold r s.active
          = hold r s.newL + hold r s.active + hold r s.susp + hold r s.cleanup + 0 := by omega
      rw [e1]; exact this)
  generalize closeList _ s.active.reverse = acc at hs ⊢
  obtain ⟨h1, h2⟩ := hs
  refine ⟨?_, h.newNone, rfree_merge h.rf (by rw [h2]; exact rfree_none)⟩
  intro r; have := h1 r
  simp only [holders, hold_append, hold_nil] at this ⊢
  have e1 : hold r s.newL + 0 + hold r s.susp + (hold r acc.moved + hold r s.cleanup) + 0
      = hold r s.newL + hold r s.susp + hold r s.cleanup + hold r acc.moved := by omega
  rw [e1]; exact this

theorem stopTail_rinv (s : St) (h : RInv s) : RInv (stopTail s).1 := by
  unfold stopTail
  exact cleanupAll_rinv _ (closeActive_rinv _ (forceResume_rinv _ _ (markUpgraded_rinv s h)))

theorem stop_rinv (s : St) (h : RInv s) : RInv (stop s).1 := by
  unfold stop
  have h1 : RInv (closeNewList { s with shutdown := true, newL := [] } s.newL.reverse).1 := by
    apply closeNewList_rinv
    refine ⟨?_, by simp, h.rf⟩
    intro r; have := h.rt r
    simp only [holders, hold_nil, hold_none r s.newL h.newNone] at this ⊢; simpa using this
  have h2 := forceResume_rinv (closeNewList { s with shutdown := true, newL := [] } s.newL.reverse).1.cfg.allowSuspend _ h1
  simp only
  split
  · exact h2.congr rfl rfl rfl rfl rfl (by simp [RFree])
  · exact stopTail_rinv _ h2

theorem prepare_rinv (s : St) (c a : Nat) (v : Bool) (h : RInv s) :
    RInv (prepare s c a v).1 ∧ ∀ cn, (prepare s c a v).2.1 = some cn → cn.resp = none := by
  unfold prepare
  by_cases hl : s.connections = s.cfg.limit
  · simp only [hl, if_true]; exact ⟨h, fun _ hh => by simp at hh⟩
  · simp only [hl, if_false]
    have hf := ipAdd_fields s a
    generalize ipAdd s a = q at hf ⊢
    obtain ⟨s1, ok, e1⟩ := q
    simp only at hf
    obtain ⟨f1, f2, f3, f4, f5, f6, f7, f8, _⟩ := hf
    have h1 : RInv s1 := h.congr f8 f3 f4 f5 f6 (by rw [f7]; exact h.rf)
    cases ok with
    | false => exact ⟨h1, fun _ hh => by simp at hh⟩
    | true =>
      simp only
      by_cases hv : (!v) = true
      · simp only [hv, if_true]; exact ⟨ipDel_rinv _ _ _ h1, fun _ hh => by simp at hh⟩
      · simp only [hv]
        by_cases hc : s1.armed = some .conn
        · simp only [hc, if_true]
          exact ⟨ipDel_rinv _ _ _ (h1.congr rfl rfl rfl rfl rfl h1.rf), fun _ hh => by simp at hh⟩
        · simp only [hc, if_false]
          by_cases ha : s1.armed = some .addr
          · simp only [ha, if_true]
            exact ⟨ipDel_rinv _ _ _ (h1.congr rfl rfl rfl rfl rfl h1.rf), fun _ hh => by simp at hh⟩
          · simp only [ha, if_false]
            refine ⟨h1, fun cn hh => ?_⟩
            simp at hh; subst hh; rfl

theorem admitConn_rinv (s : St) (c a : Nat) (v ext : Bool) (h : RInv s) : RInv (admitConn s c a v ext).1 := by
  unfold admitConn
  have hp := prepare_rinv s c a v h
  generalize prepare s c a v = p at hp ⊢
  obtain ⟨s1, oc, e1⟩ := p
  simp only at hp ⊢
  obtain ⟨h1, h2⟩ := hp
  cases oc with
  | none => exact h1
  | some cn =>
    have hcn := h2 cn rfl
    simp only
    split
    · refine ⟨?_, ?_, h1.rf⟩
      · intro r; have := h1.rt r
        simp only [holders, hold_cons, hold1_none r cn hcn] at this ⊢; simpa using this
      · intro x hx
        simp only [List.mem_cons] at hx
        cases hx with
        | inl e => subst e; exact hcn
        | inr e => exact h1.newNone x e
    · exact process_rinv s1 cn [] hcn h1

theorem arrive_rinv (s : St) (a : Nat) (v ext : Bool) (h : RInv s) : RInv (arrive s a v ext).1 := by
  unfold arrive
  simp only
  apply admitConn_rinv
  split
  · exact cleanupAll_rinv _ (h.congr rfl rfl rfl rfl rfl h.rf)
  · exact h.congr rfl rfl rfl rfl rfl h.rf


theorem updConn_none (id : Nat) (f : Conn → Conn) (hf : ∀ c, (f c).resp = c.resp) (l : List Conn)
    (h : ∀ c ∈ l, c.resp = none) : ∀ c ∈ updConn id f l, c.resp = none := by
  intro c hc
  unfold updConn at hc
  simp only [List.mem_map] at hc
  obtain ⟨y, hy, rfl⟩ := hc
  by_cases e : y.id = id <;> simp [e, hf, h y hy]

theorem mapAll_rinv (s : St) (id : Nat) (f : Conn → Conn) (hf : ∀ c, (f c).resp = c.resp) (h : RInv s) :
    RInv (mapAll s (updConn id f)) := by
  unfold mapAll
  refine ⟨?_, updConn_none id f hf _ h.newNone, h.rf⟩
  intro r; have := h.rt r
  simp only [holders, hold_updConn r id f hf] at this ⊢; exact this

theorem suspUpd_rinv (s : St) (id : Nat) (f : Conn → Conn) (hf : ∀ c, (f c).resp = c.resp) (h : RInv s) :
    RInv { s with susp := updConn id f s.susp, resuming := true } := by
  refine ⟨?_, h.newNone, h.rf⟩
  intro r; have := h.rt r
  simp only [holders, hold_updConn r id f hf] at this ⊢; exact this

theorem respCreate_rinv (s : St) (r0 : Nat) (big hasCb upg : Bool) (hn : s.resps r0 = none) (h : RInv s) :
    RInv { s with resps := setFn s.resps r0 (some { rc := 1, app := true, freed := false, big := big, hasCb := hasCb, upg := upg }) } := by
  refine ⟨?_, h.newNone, h.rf⟩
  intro r
  have := h.rt r
  by_cases e : r = r0
  · subst e
    unfold RT1 at this ⊢
    simp only [hn] at this
    simp only [holders, hold_nil, Nat.add_zero] at this
    simp [setFn, holders, appN, this]
  · unfold RT1 at this ⊢
    simp only [setFn, e, if_false]
    exact this

theorem respDrop_rinv (s : St) (r0 : Nat) (x : Resp) (hx : s.resps r0 = some x) (hl : (x.app && !x.freed) = true) (h : RInv s) :
    RInv { s with resps := (release { tab := setFn s.resps r0 (some { x with app := false }), fault := none } r0).1.tab,
                  fault := (release { tab := setFn s.resps r0 (some { x with app := false }), fault := none } r0).1.fault } := by
  simp at hl
  -- the application's reference counts as one more holder of `r0`
  have hT : ∀ r, RT1 r (setFn s.resps r0 (some { x with app := false })) (holders r s + (if r0 = r then 1 else 0)) := by
    intro r
    have := h.rt r
    by_cases e : r0 = r
    · subst e
      unfold RT1 at this ⊢
      simp only [hx, hold_nil, Nat.add_zero] at this
      simp only [setFn, if_true]
      obtain ⟨a1, a2⟩ := this
      refine ⟨?_, a2⟩
      simp [appN, hl.1] at a1 ⊢; omega
    · unfold RT1 at this ⊢
      have hne : ¬ r = r0 := fun hh => e hh.symm
      simp only [setFn, hne, e, if_false, hold_nil, Nat.add_zero] at this ⊢
      exact this
  have hp : 1 ≤ holders r0 s + (if r0 = r0 then 1 else 0) := by simp
  have hk := release_known { tab := setFn s.resps r0 (some { x with app := false }), fault := none } r0 _ (hT r0) hp
  have hfl := release_fault { tab := setFn s.resps r0 (some { x with app := false }), fault := none } r0 _ (hT r0) hp
  refine ⟨?_, h.newNone, by rw [hfl]; exact rfree_none⟩
  intro r
  have := release_rt { tab := setFn s.resps r0 (some { x with app := false }), fault := none } r0 r _ (hT r)
    (fun e => by subst e; exact hp) hk
  simp only [holders, hold_nil, Nat.add_zero] at this ⊢
  by_cases e : r0 = r
  · subst e; simpa using this
  · simpa [e] using this

theorem hold_queueFirst (r' id r : Nat) (l : List Conn) (h : l.any (extQueueable id) = true) :
    hold r' (queueFirst id r l) = hold r' l + (if r = r' then 1 else 0) := by
  induction l with
  | nil => simp at h
  | cons x l ih =>
    unfold queueFirst
    by_cases hx : extQueueable id x = true
    · rw [if_pos hx]
      have hn : x.resp = none := by
        simp [extQueueable] at hx
        cases hh : x.resp with
        | none => rfl
        | some y => simp [hh] at hx
      by_cases e : r = r'
      · subst e; simp [hold1, setQueued, hn]
      · have hne : some r ≠ some r' := fun hh => e (Option.some.inj hh)
        simp [hold1, setQueued, hn, e, hne]
    · rw [if_neg hx]
      have : l.any (extQueueable id) = true := by simpa [hx] using h
      simp only [hold_cons, ih this]; omega

/-- a response queued from outside on a suspended connection: one more holder, one more reference -/
theorem extQueue_rinv (s : St) (c r : Nat) (hl : s.susp.any (extQueueable c) = true) (h : RInv s) :
    RInv (extQueue s c r).1 := by
  unfold extQueue
  split
  · exact h
  · split
    · exact h
    · rename_i R1 hacq
      refine ⟨fun r' => ?_, h.newNone, h.rf⟩
      have := (acquire_rt { tab := s.resps, fault := none } R1 r hacq r' _ (h.rt r')).1
      simp only [holders, hold_nil, Nat.add_zero, hold_queueFirst r' c r s.susp hl] at this ⊢
      have e1 : hold r' s.newL + hold r' s.active + (hold r' s.susp + if r = r' then 1 else 0) + hold r' s.cleanup
          = hold r' s.newL + hold r' s.active + hold r' s.susp + hold r' s.cleanup + if r = r' then 1 else 0 := by omega
      rw [e1]; exact this

theorem step_rinv (s : St) (o : Op) (h : RInv s) : RInv (step s o).1 := by
  unfold step
  split
  · exact h
  · rename_i hcond
    cases o with
    | arrive a v ext => exact arrive_rinv s a v ext h
    | armFail site => exact h.congr rfl rfl rfl rfl rfl h.rf
    | disarm => exact h.congr rfl rfl rfl rfl rfl h.rf
    | req c b => exact mapAll_rinv s c (setReq b) (fun _ => rfl) h
    | clientClose c => exact mapAll_rinv s c setClientClosed (fun _ => rfl) h
    | hold c => exact mapAll_rinv s c (setNodrain true) (fun _ => rfl) h
    | drain c => exact mapAll_rinv s c (setNodrain false) (fun _ => rfl) h
    | resume c => exact suspUpd_rinv s c setResuming (fun _ => rfl) h
    | upClose c => exact suspUpd_rinv s c markAppClosed (fun _ => rfl) h
    | round => exact round_rinv s h
    | query =>
      simp only
      split
      · exact h
      · exact cleanupAll_rinv s h
    | stop => exact stop_rinv s h
    | respCreate r big hasCb upg =>
      have hn : s.resps r = none := by
        simp [Op.legal] at hcond
        exact hcond.2
      exact respCreate_rinv s r big hasCb upg hn h
    | respDrop r =>
      simp only
      cases hx : s.resps r with
      | none => exact h
      | some x =>
        have hl : (x.app && !x.freed) = true := by
          simp [Op.legal, hx] at hcond
          simp [hcond.2]
        simp only
        exact respDrop_rinv s r x hx hl h
    | extQueue c r =>
      have hl : s.susp.any (extQueueable c) = true := by
        simp [Op.legal] at hcond
        simpa using hcond.2.2
      exact extQueue_rinv s c r hl h
    | acceptFail => exact h

theorem init_rinv (cfg : Cfg) : RInv (St.init cfg) := by
  refine ⟨?_, by simp [St.init], rfree_none⟩
  intro r; simp [RT1, St.init, holders]

theorem run_rinv (ops : List Op) : ∀ (s : St), RInv s → RInv (run s ops).1 := by
  induction ops with
  | nil => intro s h; exact h
  | cons o os ih =>
    intro s h
    unfold run
    exact ih _ (step_rinv s o h)


/-! ### local specification of `MHD_destroy_response` / `MHD_increment_response_rc` -/

theorem release_spec (R : RespTab) (r : Nat) (x : Resp) (hx : R.tab r = some x) (hnf : x.freed = false) (hrc : 1 ≤ x.rc) :
    (release R r).2 = (if x.rc = 1 ∧ x.hasCb = true then [Ev.freeCb r] else []) ∧
    (release R r).1.tab r = some { x with rc := x.rc - 1, freed := decide (x.rc = 1) } ∧
    (release R r).1.fault = R.fault := by
  unfold release
  have h0 : x.rc ≠ 0 := by omega
  by_cases h1 : x.rc = 1
  · cases hcb : x.hasCb <;> simp [hx, hnf, h1, setFn, hcb]
  · simp [hx, hnf, h0, h1, setFn]

theorem acquire_freed (R : RespTab) (r : Nat) (x : Resp) (hx : R.tab r = some x) (hf : x.freed = true) :
    acquire R r = none := by
  unfold acquire
  simp [hx, hf]

end Mhd.Limits
