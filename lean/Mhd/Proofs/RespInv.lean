/- The representation invariant of the response object ("flags_auto says exactly what the header list
   contains") and its preservation by every call of the response API. -/
import Mhd.Proofs.ReplyStr
import Mhd.Model.Resp
set_option linter.unusedSimpArgs false
set_option linter.unusedVariables false
namespace Mhd.Resp
open Mhd.ReplyStr

/-- bytes allowed in a stored header name (what `add_response_entry_n` checks, plus "no colon",
    which is the caller's obligation: the name must be an HTTP token) -/
def NameClean (n : Bytes) : Prop := n ≠ [] ∧ ∀ b ∈ n, b ≠ 58 ∧ b ≠ 32 ∧ b ≠ 9 ∧ b ≠ 13 ∧ b ≠ 10
def ValClean (v : Bytes) : Prop := v ≠ [] ∧ ∀ b ∈ v, b ≠ 13 ∧ b ≠ 10
def IsDigits (v : Bytes) : Prop := v ≠ [] ∧ ∀ b ∈ v, 48 ≤ b.toNat ∧ b.toNat ≤ 57

def cnt (key : Bytes) (hs : List Hdr) : Nat := (hs.filter (isHdr key)).length
def b2n (b : Bool) : Nat := if b then 1 else 0

/-- what must hold of a Connection value when the close flag is set -/
def ClosePrefix (v : Bytes) : Prop := v = sClose ∨ ∃ t, v = sCloseSep ++ t

/-- the representation invariant of a response object: `flags_auto` says exactly what the list contains -/
structure Inv (r : Resp) : Prop where
  clean : ∀ h ∈ r.hdrs, NameClean h.name ∧ ValClean h.value
  noInsanity : r.flags.insanity = false
  conn : if r.fa.connHdr then
           ∃ v rest, r.hdrs = ⟨.header, sConnection, v⟩ :: rest ∧ cnt sConnection rest = 0 ∧
             (r.fa.connClose = true → ClosePrefix v)
         else cnt sConnection r.hdrs = 0 ∧ r.fa.connClose = false
  te : cnt sTransferEncoding r.hdrs = b2n r.fa.transEnc
  teVal : ∀ h ∈ r.hdrs, isHdr sTransferEncoding h = true → strEqCaseless h.value sChunked = true
  cl : cnt sContentLength r.hdrs = b2n r.fa.contentLength
  clVal : ∀ h ∈ r.hdrs, isHdr sContentLength h = true → IsDigits h.value
  clHead : r.fa.contentLength = true → r.flags.headOnly = true
  teCl : ¬ (r.fa.transEnc = true ∧ r.fa.contentLength = true)
  headSize : r.flags.headOnly = true → r.totalSize = 0
  date : cnt sDate r.hdrs = b2n r.fa.date
  upg : r.upgrade = true → r.fa.connClose = false

/-- what the application must respect (MHD does not check it) -/
def Call.Legal : Call → Prop
  | .add n v => (∀ b ∈ n, b ≠ 58) ∧ (strEqCaseless n sContentLength = true → IsDigits v)
  | .del _ _ => True
  | .foot n _ => (∀ b ∈ n, b ≠ 58)
  | .opt f => f.insanity = false



/-! ### counting lemmas -/

theorem cnt_nil (k : Bytes) : cnt k [] = 0 := rfl
theorem cnt_cons (k : Bytes) (h : Hdr) (t : List Hdr) : cnt k (h :: t) = b2n (isHdr k h) + cnt k t := by
  unfold cnt b2n; by_cases hh : isHdr k h = true <;> simp [List.filter, hh]; omega
theorem cnt_append (k : Bytes) (a b : List Hdr) : cnt k (a ++ b) = cnt k a + cnt k b := by
  unfold cnt; simp [List.filter_append]
theorem cnt_single (k : Bytes) (h : Hdr) : cnt k [h] = b2n (isHdr k h) := by
  rw [cnt_cons, cnt_nil]; omega

theorem cnt_zero_of_mem (k : Bytes) (hs : List Hdr) (h0 : cnt k hs = 0) (h : Hdr) (hm : h ∈ hs) : isHdr k h = false := by
  induction hs with
  | nil => cases hm
  | cons x t ih =>
    rw [cnt_cons] at h0
    rcases List.mem_cons.1 hm with rfl | hm'
    · unfold b2n at h0; by_cases hh : isHdr k h = true
      · simp [hh] at h0
      · simpa using hh
    · exact ih (by omega) hm'

theorem cnt_pos_of_mem (k : Bytes) (hs : List Hdr) (h : Hdr) (hm : h ∈ hs) (hh : isHdr k h = true) : 1 ≤ cnt k hs := by
  induction hs with
  | nil => cases hm
  | cons x t ih =>
    rw [cnt_cons]
    rcases List.mem_cons.1 hm with rfl | hm'
    · simp [b2n, hh]
    · have := ih hm'; omega

theorem any_eq_false_of_cnt_zero (k : Bytes) (hs : List Hdr) (h0 : cnt k hs = 0) : hs.any (isHdr k) = false := by
  rw [List.any_eq_false]; intro h hm; simp [cnt_zero_of_mem k hs h0 h hm]

theorem find_none_of_cnt_zero (k : Bytes) (hs : List Hdr) (h0 : cnt k hs = 0) : hs.find? (isHdr k) = none := by
  rw [List.find?_eq_none]; intro h hm; simp [cnt_zero_of_mem k hs h0 h hm]

/-! ### eraseFirst / setValueFirst -/

theorem eraseFirst_spec (p : Hdr → Bool) : ∀ (l : List Hdr) (x : Hdr) (l' : List Hdr),
    eraseFirst p l = some (x, l') →
    p x = true ∧ x ∈ l ∧ (∀ k, cnt k l = b2n (isHdr k x) + cnt k l') ∧ (∀ h ∈ l', h ∈ l)
  | [], x, l', h => by simp [eraseFirst] at h
  | a :: t, x, l', h => by
    simp only [eraseFirst] at h
    by_cases hp : p a = true
    · simp [hp] at h; obtain ⟨rfl, rfl⟩ := h
      exact ⟨hp, by simp, fun k => cnt_cons k a t, fun h hm => by simp [hm]⟩
    · simp only [hp] at h
      cases he : eraseFirst p t with
      | none => rw [he] at h; simp at h
      | some q =>
        obtain ⟨y, t'⟩ := q
        rw [he] at h; simp at h; obtain ⟨rfl, rfl⟩ := h
        obtain ⟨h1, h2, h3, h4⟩ := eraseFirst_spec p t y t' he
        refine ⟨h1, by simp [h2], fun k => ?_, fun h hm => ?_⟩
        · rw [cnt_cons, cnt_cons, h3 k]; omega
        · rcases List.mem_cons.1 hm with rfl | hm'
          · simp
          · simp [h4 h hm']

theorem eraseFirst_cons_neg (p : Hdr → Bool) (a : Hdr) (t : List Hdr) (x : Hdr) (l' : List Hdr) (hp : p a = false)
    (h : eraseFirst p (a :: t) = some (x, l')) : ∃ t', l' = a :: t' ∧ eraseFirst p t = some (x, t') := by
  simp only [eraseFirst, hp] at h
  cases he : eraseFirst p t with
  | none => rw [he] at h; simp at h
  | some q =>
    obtain ⟨y, t'⟩ := q
    rw [he] at h; simp at h; obtain ⟨rfl, rfl⟩ := h
    exact ⟨t', rfl, rfl⟩

theorem eraseFirst_none (p : Hdr → Bool) : ∀ (l : List Hdr), eraseFirst p l = none → ∀ h ∈ l, p h = false
  | [], _, h, hm => by cases hm
  | a :: t, he, h, hm => by
    simp only [eraseFirst] at he
    by_cases hp : p a = true
    · simp [hp] at he
    · simp only [hp] at he
      cases he2 : eraseFirst p t with
      | some q => rw [he2] at he; simp at he
      | none =>
        rcases List.mem_cons.1 hm with rfl | hm'
        · simpa using hp
        · exact eraseFirst_none p t he2 h hm'

/-! ### names -/

theorem nameIs_of_strEq (n k : Bytes) (h : strEqCaseless n k = true) : nameIs n k = true := by
  unfold nameIs eqCaselessBin
  simp [strEqCaseless_length n k h, h]

theorem strEq_of_nameIs (n k : Bytes) (h : nameIs n k = true) : strEqCaseless n k = true := by
  unfold nameIs eqCaselessBin at h
  simp at h; exact h.2

theorem nameIs_length (n k : Bytes) (h : nameIs n k = true) : n.length = k.length := by
  unfold nameIs eqCaselessBin at h
  simp at h; exact h.1

theorem len_sConnection : sConnection.length = 10 := by decide
theorem len_sTransferEncoding : sTransferEncoding.length = 17 := by decide
theorem len_sDate : sDate.length = 4 := by decide
theorem len_sContentLength : sContentLength.length = 14 := by decide

theorem isHdr_of (k : Bytes) (h : Hdr) : isHdr k h = (h.kind == .header && nameIs h.name k) := rfl

/-! ### the invariant is preserved by appending an entry -/

theorem Inv_append (r : Resp) (e : Hdr) (fa' : AutoFlags) (hinv : Inv r)
    (hn : NameClean e.name) (hv : ValClean e.value)
    (hc : isHdr sConnection e = false)
    (hfc : fa'.connHdr = r.fa.connHdr) (hfcl : fa'.connClose = r.fa.connClose)
    (hte : b2n fa'.transEnc = b2n r.fa.transEnc + b2n (isHdr sTransferEncoding e))
    (htev : isHdr sTransferEncoding e = true → strEqCaseless e.value sChunked = true)
    (hcl : b2n fa'.contentLength = b2n r.fa.contentLength + b2n (isHdr sContentLength e))
    (hclv : isHdr sContentLength e = true → IsDigits e.value)
    (hclh : fa'.contentLength = true → r.flags.headOnly = true)
    (htecl : ¬ (fa'.transEnc = true ∧ fa'.contentLength = true))
    (hdate : b2n fa'.date = b2n r.fa.date + b2n (isHdr sDate e)) :
    Inv { r with hdrs := r.hdrs ++ [e], fa := fa' } := by
  refine ⟨?_, hinv.noInsanity, ?_, ?_, ?_, ?_, ?_, hclh, htecl, hinv.headSize, ?_, ?_⟩
  · intro h hm
    rcases List.mem_append.1 hm with h1 | h1
    · exact hinv.clean h h1
    · simp at h1; subst h1; exact ⟨hn, hv⟩
  · have hcn := hinv.conn
    simp only [hfc, hfcl]
    split
    · rename_i hf
      simp only [hf, if_true] at hcn
      obtain ⟨v, rest, h1, h2, h3⟩ := hcn
      refine ⟨v, rest ++ [e], by simp [h1], ?_, h3⟩
      rw [cnt_append, cnt_single, h2, hc]; rfl
    · rename_i hf
      simp only [hf] at hcn
      refine ⟨?_, hcn.2⟩
      simp only [cnt_append, cnt_single, hcn.1, hc]; rfl
  · simp only [cnt_append, cnt_single, hinv.te, hte]
  · intro h hm hh
    rcases List.mem_append.1 hm with h1 | h1
    · exact hinv.teVal h h1 hh
    · simp at h1; subst h1; exact htev hh
  · simp only [cnt_append, cnt_single, hinv.cl, hcl]
  · intro h hm hh
    rcases List.mem_append.1 hm with h1 | h1
    · exact hinv.clVal h h1 hh
    · simp at h1; subst h1; exact hclv hh
  · simp only [cnt_append, cnt_single, hinv.date, hdate]
  · intro hu; simp only [hfcl]; exact hinv.upg hu

theorem addEntry_true (r r' : Resp) (k : Kind) (n v : Bytes) (h : addEntry r k n v = (true, r')) :
    r' = { r with hdrs := r.hdrs ++ [⟨k, n, v⟩] } ∧ n ≠ [] ∧ v ≠ [] ∧
    (∀ b ∈ n, b ≠ 9 ∧ b ≠ 32 ∧ b ≠ 13 ∧ b ≠ 10) ∧ (∀ b ∈ v, b ≠ 13 ∧ b ≠ 10) := by
  unfold addEntry at h
  split at h
  · simp at h
  · split at h
    · simp at h
    · split at h
      · simp at h
      · split at h
        · simp at h
        · rename_i h1 h2 h3 h4
          simp at h
          refine ⟨h.symm, ?_, ?_, ?_, ?_⟩
          · intro hh; simp [hh] at h1
          · intro hh; simp [hh] at h2
          · intro b hb
            simp at h3
            refine ⟨?_, ?_, ?_, ?_⟩ <;> (intro hh; subst hh; simp_all)
          · intro b hb
            simp at h4
            refine ⟨?_, ?_⟩ <;> (intro hh; subst hh; simp_all)

theorem addEntry_false (r r' : Resp) (k : Kind) (n v : Bytes) (h : addEntry r k n v = (false, r')) : r' = r := by
  unfold addEntry at h
  split at h
  · simp at h; exact h.symm
  · split at h
    · simp at h; exact h.symm
    · split at h
      · simp at h; exact h.symm
      · split at h
        · simp at h; exact h.symm
        · simp at h

/-! ### the invariant is preserved by removing an entry that is not the Connection header -/

theorem b2n_le_one (b : Bool) : b2n b ≤ 1 := by cases b <;> simp [b2n]
theorem b2n_eq_one (b : Bool) : b2n b = 1 ↔ b = true := by cases b <;> simp [b2n]
theorem b2n_eq_zero (b : Bool) : b2n b = 0 ↔ b = false := by cases b <;> simp [b2n]

theorem Inv_erase (r : Resp) (p : Hdr → Bool) (x : Hdr) (hs' : List Hdr) (fa' : AutoFlags) (hinv : Inv r)
    (he : eraseFirst p r.hdrs = some (x, hs'))
    (hc : isHdr sConnection x = false)
    (hfc : fa'.connHdr = r.fa.connHdr) (hfcl : fa'.connClose = r.fa.connClose)
    (hte : b2n fa'.transEnc + b2n (isHdr sTransferEncoding x) = b2n r.fa.transEnc)
    (hcl : b2n fa'.contentLength + b2n (isHdr sContentLength x) = b2n r.fa.contentLength)
    (hdate : b2n fa'.date + b2n (isHdr sDate x) = b2n r.fa.date) :
    Inv { r with hdrs := hs', fa := fa' } := by
  obtain ⟨hp, hxm, hcnt, hsub⟩ := eraseFirst_spec p r.hdrs x hs' he
  have hte' : fa'.transEnc = true → r.fa.transEnc = true := by
    intro h; rw [← b2n_eq_one] at h ⊢; have := b2n_le_one r.fa.transEnc; omega
  have hcl' : fa'.contentLength = true → r.fa.contentLength = true := by
    intro h; rw [← b2n_eq_one] at h ⊢; have := b2n_le_one r.fa.contentLength; omega
  refine ⟨fun h hm => hinv.clean h (hsub h hm), hinv.noInsanity, ?_, ?_, fun h hm => hinv.teVal h (hsub h hm), ?_,
    fun h hm => hinv.clVal h (hsub h hm), fun h => hinv.clHead (hcl' h), fun h => hinv.teCl ⟨hte' h.1, hcl' h.2⟩,
    hinv.headSize, ?_, ?_⟩
  · have hcn := hinv.conn
    simp only [hfc, hfcl]
    split
    · rename_i hf
      simp only [hf, if_true] at hcn
      obtain ⟨v, rest, h1, h2, h3⟩ := hcn
      have hpc : p ⟨.header, sConnection, v⟩ = false := by
        by_cases hpc : p ⟨.header, sConnection, v⟩ = true
        · rw [h1] at he; simp [eraseFirst, hpc] at he
          obtain ⟨rfl, _⟩ := he
          have hnn : nameIs sConnection sConnection = true := by decide
          have : isHdr sConnection ⟨.header, sConnection, v⟩ = true := by simp [isHdr, isElem, hnn]
          rw [this] at hc; cases hc
        · simpa using hpc
      rw [h1] at he
      obtain ⟨t', ht', het⟩ := eraseFirst_cons_neg p _ rest x hs' hpc he
      obtain ⟨_, _, hcnt2, _⟩ := eraseFirst_spec p rest x t' het
      refine ⟨v, t', ht', ?_, h3⟩
      have := hcnt2 sConnection; omega
    · rename_i hf
      simp only [hf] at hcn
      refine ⟨?_, hcn.2⟩
      have := hcnt sConnection; have := hcn.1; omega
  · have := hcnt sTransferEncoding; have := hinv.te; simp only; omega
  · have := hcnt sContentLength; have := hinv.cl; simp only; omega
  · have := hcnt sDate; have := hinv.date; simp only; omega
  · intro hu; simp only [hfcl]; exact hinv.upg hu

theorem eraseFirst_some_of_cnt (k : Bytes) (hs : List Hdr) (h : 1 ≤ cnt k hs) :
    ∃ x hs', eraseFirst (isHdr k) hs = some (x, hs') := by
  cases he : eraseFirst (isHdr k) hs with
  | some q => exact ⟨q.1, q.2, rfl⟩
  | none =>
    have := eraseFirst_none _ hs he
    have h0 : cnt k hs = 0 := by
      unfold cnt
      rw [List.length_eq_zero_iff, List.filter_eq_nil_iff]
      intro a ha; simp [this a ha]
    omega

/-- the four managed names have different lengths -/
theorem nameIs_excl (n k1 k2 : Bytes) (h1 : nameIs n k1 = true) (hl : k1.length ≠ k2.length) : nameIs n k2 = false := by
  by_cases h2 : nameIs n k2 = true
  · have := nameIs_length n k1 h1; have := nameIs_length n k2 h2; omega
  · simpa using h2

theorem isHdr_footer (k n v : Bytes) : isHdr k ⟨.footer, n, v⟩ = false := by simp [isHdr, isElem]
theorem isHdr_header (k n v : Bytes) : isHdr k ⟨.header, n, v⟩ = nameIs n k := by simp [isHdr, isElem]

/-! ### each call preserves the invariant -/

theorem nameClean_of (n : Bytes) (h1 : n ≠ []) (h2 : ∀ b ∈ n, b ≠ 9 ∧ b ≠ 32 ∧ b ≠ 13 ∧ b ≠ 10) (h3 : ∀ b ∈ n, b ≠ 58) :
    NameClean n := ⟨h1, fun b hb => ⟨h3 b hb, (h2 b hb).2.1, (h2 b hb).1, (h2 b hb).2.2.1, (h2 b hb).2.2.2⟩⟩

theorem addFooter_inv (r : Resp) (n v : Bytes) (hinv : Inv r) (hl : ∀ b ∈ n, b ≠ 58) : Inv (addFooter r n v).2 := by
  unfold addFooter
  cases hae : addEntry r .footer n v with
  | mk ok r1 =>
    cases ok with
    | false => simpa using hinv
    | true =>
      obtain ⟨rfl, hn1, hv1, hn2, hv2⟩ := addEntry_true _ _ _ _ _ hae
      simp only
      have := Inv_append r ⟨.footer, n, v⟩ r.fa hinv (nameClean_of n hn1 hn2 hl) ⟨hv1, hv2⟩
        (isHdr_footer _ _ _) rfl rfl (by simp [isHdr_footer, b2n]) (by simp [isHdr_footer])
        (by simp [isHdr_footer, b2n]) (by simp [isHdr_footer]) hinv.clHead hinv.teCl (by simp [isHdr_footer, b2n])
      simpa using this

theorem not_nameIs_of_not_strEq (n k : Bytes) (h : strEqCaseless n k = false) : nameIs n k = false := by
  by_cases hh : nameIs n k = true
  · rw [strEq_of_nameIs n k hh] at h; cases h
  · simpa using hh

theorem lenNe_CT : sConnection.length ≠ sTransferEncoding.length := by decide
theorem lenNe_CD : sConnection.length ≠ sDate.length := by decide
theorem lenNe_CL : sConnection.length ≠ sContentLength.length := by decide
theorem lenNe_TD : sTransferEncoding.length ≠ sDate.length := by decide
theorem lenNe_TL : sTransferEncoding.length ≠ sContentLength.length := by decide
theorem lenNe_DL : sDate.length ≠ sContentLength.length := by decide

theorem setOptions_inv (r : Resp) (f : RFlags) (hinv : Inv r) (hl : f.insanity = false) : Inv (setOptions r f).2 := by
  unfold setOptions
  split
  · exact hinv
  · split
    · exact hinv
    · split
      · exact hinv
      · rename_i h1 h2 h3
        simp only
        refine ⟨hinv.clean, hl, hinv.conn, hinv.te, hinv.teVal, hinv.cl, hinv.clVal, ?_, hinv.teCl, ?_, hinv.date, hinv.upg⟩
        · intro hc
          have hh := hinv.clHead hc
          simp [hh, hl] at h2
          exact h2 hc
        · intro hh
          simp at h3
          exact h3 hh

theorem addHeader_rest_inv (r : Resp) (n v : Bytes) (hinv : Inv r) (hcolon : ∀ b ∈ n, b ≠ 58)
    (hdig : strEqCaseless n sContentLength = true → IsDigits v)
    (hconn : strEqCaseless n sConnection = false) : Inv (addHeader r n v).2 := by
  unfold addHeader
  simp only [hconn, Bool.false_eq_true, if_false]
  have hnc : nameIs n sConnection = false := not_nameIs_of_not_strEq _ _ hconn
  by_cases hte : strEqCaseless n sTransferEncoding = true
  · -- Transfer-Encoding
    simp only [hte, if_true]
    have hnt := nameIs_of_strEq _ _ hte
    split
    · exact hinv
    · split
      · exact hinv
      · split
        · exact hinv
        · rename_i hch hfl hcl
          cases hae : addEntry r .header n v with
          | mk ok r1 =>
            cases ok with
            | false => simpa using hinv
            | true =>
              obtain ⟨rfl, hn1, hv1, hn2, hv2⟩ := addEntry_true _ _ _ _ _ hae
              have hclf : r.fa.contentLength = false := by
                simp [hinv.noInsanity] at hcl; simpa using hcl
              have hflf : r.fa.transEnc = false := by simpa using hfl
              have := Inv_append r ⟨.header, n, v⟩ { r.fa with transEnc := true } hinv
                (nameClean_of n hn1 hn2 hcolon) ⟨hv1, hv2⟩
                (by rw [isHdr_header]; exact hnc) rfl rfl
                (by simp [isHdr_header, hnt, b2n, hflf])
                (by intro _; simpa using hch)
                (by simp [isHdr_header, nameIs_excl n _ _ hnt lenNe_TL, b2n])
                (by simp [isHdr_header, nameIs_excl n _ _ hnt lenNe_TL])
                (by simp [hclf]) (by simp [hclf])
                (by simp [isHdr_header, nameIs_excl n _ _ hnt lenNe_TD, b2n])
              simpa using this
  · simp only [hte, Bool.false_eq_true, if_false]
    have hte' : strEqCaseless n sTransferEncoding = false := by simpa using hte
    have hnte := not_nameIs_of_not_strEq _ _ hte'
    by_cases hd : strEqCaseless n sDate = true
    · -- Date
      simp only [hd, if_true]
      have hnd := nameIs_of_strEq _ _ hd
      -- the response after the old Date header (if any) has been removed
      have hr0 : ∀ r0, (if r.fa.date = true then
            match eraseFirst (isHdr sDate) r.hdrs with
            | none => none
            | some (_, hs') => some { r with hdrs := hs', fa := { r.fa with date := false } }
          else some r) = some r0 → Inv r0 ∧ r0.fa.date = false := by
        intro r0 h0
        by_cases hfd : r.fa.date = true
        · simp only [hfd, if_true] at h0
          cases he : eraseFirst (isHdr sDate) r.hdrs with
          | none => rw [he] at h0; simp at h0
          | some q =>
            obtain ⟨x, hs'⟩ := q
            rw [he] at h0; simp at h0; subst h0
            obtain ⟨hp, hxm, _, _⟩ := eraseFirst_spec _ _ _ _ he
            have hxn : nameIs x.name sDate = true := by
              rw [isHdr_of] at hp; simp at hp; exact hp.2
            have hxk : x.kind = .header := by
              rw [isHdr_of] at hp; simp at hp; exact hp.1
            refine ⟨Inv_erase r _ x hs' _ hinv he ?_ rfl rfl ?_ ?_ ?_, rfl⟩
            · rw [isHdr_of]; simp [nameIs_excl _ _ _ hxn lenNe_CD.symm]
            · rw [isHdr_of]; simp [nameIs_excl _ _ _ hxn lenNe_TD.symm, b2n]
            · rw [isHdr_of]; simp [nameIs_excl _ _ _ hxn lenNe_DL, b2n]
            · simp [hp, b2n, hfd]
        · simp only [hfd, Bool.false_eq_true, if_false] at h0
          simp at h0; subst h0
          exact ⟨hinv, by simpa using hfd⟩
      split
      · exact hinv
      · rename_i r0 hr0eq
        obtain ⟨hinv0, hd0⟩ := hr0 r0 hr0eq
        cases hae : addEntry r0 .header n v with
        | mk ok r1 =>
          cases ok with
          | false => simpa using hinv0
          | true =>
            obtain ⟨rfl, hn1, hv1, hn2, hv2⟩ := addEntry_true _ _ _ _ _ hae
            have := Inv_append r0 ⟨.header, n, v⟩ { r0.fa with date := true } hinv0
              (nameClean_of n hn1 hn2 hcolon) ⟨hv1, hv2⟩
              (by rw [isHdr_header]; exact hnc) rfl rfl
              (by simp [isHdr_header, hnte, b2n])
              (by simp [isHdr_header, hnte])
              (by simp [isHdr_header, nameIs_excl n _ _ hnd lenNe_DL, b2n])
              (by simp [isHdr_header, nameIs_excl n _ _ hnd lenNe_DL])
              hinv0.clHead hinv0.teCl
              (by simp [isHdr_header, hnd, b2n, hd0])
            simpa using this
    · simp only [hd, Bool.false_eq_true, if_false]
      have hd' : strEqCaseless n sDate = false := by simpa using hd
      have hnd := not_nameIs_of_not_strEq _ _ hd'
      by_cases hl : strEqCaseless n sContentLength = true
      · -- Content-Length
        simp only [hl, if_true]
        have hnl := nameIs_of_strEq _ _ hl
        split
        · rename_i hcond
          simp [hinv.noInsanity] at hcond
          obtain ⟨⟨hho, htf⟩, hcf⟩ := hcond
          cases hae : addEntry r .header n v with
          | mk ok r1 =>
            cases ok with
            | false => simpa using hinv
            | true =>
              obtain ⟨rfl, hn1, hv1, hn2, hv2⟩ := addEntry_true _ _ _ _ _ hae
              have := Inv_append r ⟨.header, n, v⟩ { r.fa with contentLength := true } hinv
                (nameClean_of n hn1 hn2 hcolon) ⟨hv1, hv2⟩
                (by rw [isHdr_header]; exact hnc) rfl rfl
                (by simp [isHdr_header, hnte, b2n])
                (by simp [isHdr_header, hnte])
                (by simp [isHdr_header, hnl, b2n, hcf])
                (by intro _; exact hdig hl)
                (by intro _; exact hho) (by simp [htf])
                (by simp [isHdr_header, hnd, b2n])
              simpa using this
        · exact hinv
      · simp only [hl, Bool.false_eq_true, if_false]
        have hl' : strEqCaseless n sContentLength = false := by simpa using hl
        have hnl := not_nameIs_of_not_strEq _ _ hl'
        cases hae : addEntry r .header n v with
        | mk ok r1 =>
          cases ok with
          | false => simpa using hinv
          | true =>
            obtain ⟨rfl, hn1, hv1, hn2, hv2⟩ := addEntry_true _ _ _ _ _ hae
            have := Inv_append r ⟨.header, n, v⟩ r.fa hinv
              (nameClean_of n hn1 hn2 hcolon) ⟨hv1, hv2⟩
              (by rw [isHdr_header]; exact hnc) rfl rfl
              (by simp [isHdr_header, hnte, b2n])
              (by simp [isHdr_header, hnte])
              (by simp [isHdr_header, hnl, b2n])
              (by simp [isHdr_header, hnl])
              hinv.clHead hinv.teCl
              (by simp [isHdr_header, hnd, b2n])
            simpa using this

theorem delHeader_rest_inv (r : Resp) (n v : Bytes) (hinv : Inv r)
    (hbr : (r.fa.connHdr && nameIs n sConnection) = false) : Inv (delHeader r n v).2 := by
  unfold delHeader
  simp only [hbr, Bool.false_eq_true, if_false]
  cases he : eraseFirst (fun h => h.name == n && h.value == v) r.hdrs with
  | none => exact hinv
  | some q =>
    obtain ⟨x, hs'⟩ := q
    simp only
    obtain ⟨hp, hxm, hcnt, _⟩ := eraseFirst_spec _ _ _ _ he
    have hxn : x.name = n := by simp at hp; exact hp.1
    -- the removed entry is not the Connection header
    have hxc : isHdr sConnection x = false := by
      by_cases hf : r.fa.connHdr = true
      · simp [hf] at hbr
        rw [isHdr_of, hxn, hbr]; simp
      · have hcn := hinv.conn
        simp only [hf] at hcn
        exact cnt_zero_of_mem _ _ hcn.1 x hxm
    by_cases hk : x.kind = .header
    · have hkk : (x.kind != Kind.header) = false := by simp [hk]
      simp only [hkk, Bool.false_eq_true, if_false]
      have hisK : ∀ k, isHdr k x = nameIs n k := by intro k; rw [isHdr_of, hk, hxn]; simp
      have flag_of : ∀ (k : Bytes) (b : Bool), cnt k r.hdrs = b2n b → nameIs n k = true → b = true := by
        intro k b hc hn
        have := cnt_pos_of_mem k r.hdrs x hxm (by rw [hisK]; exact hn)
        rw [← b2n_eq_one]; have := b2n_le_one b; omega
      by_cases h1 : nameIs n sTransferEncoding = true
      · simp only [h1, if_true]
        have := flag_of _ _ hinv.te h1
        exact Inv_erase r _ x hs' _ hinv he hxc rfl rfl
          (by simp [hisK, h1, b2n, this])
          (by simp [hisK, nameIs_excl n _ _ h1 lenNe_TL, b2n])
          (by simp [hisK, nameIs_excl n _ _ h1 lenNe_TD, b2n])
      · simp only [h1, Bool.false_eq_true, if_false]
        have h1' : nameIs n sTransferEncoding = false := by simpa using h1
        by_cases h2 : nameIs n sDate = true
        · simp only [h2, if_true]
          have := flag_of _ _ hinv.date h2
          exact Inv_erase r _ x hs' _ hinv he hxc rfl rfl
            (by simp [hisK, h1', b2n])
            (by simp [hisK, nameIs_excl n _ _ h2 lenNe_DL, b2n])
            (by simp [hisK, h2, b2n, this])
        · simp only [h2, Bool.false_eq_true, if_false]
          have h2' : nameIs n sDate = false := by simpa using h2
          by_cases h3 : nameIs n sContentLength = true
          · simp only [h3, if_true]
            have hfl := flag_of _ _ hinv.cl h3
            have hc0 : cnt sContentLength hs' = 0 := by
              have := hcnt sContentLength
              rw [hisK, h3, hinv.cl, hfl] at this
              simp [b2n] at this; omega
            simp only [any_eq_false_of_cnt_zero _ _ hc0, Bool.not_false, if_true]
            exact Inv_erase r _ x hs' _ hinv he hxc rfl rfl
              (by simp [hisK, h1', b2n])
              (by simp [hisK, h3, b2n, hfl])
              (by simp [hisK, h2', b2n])
          · simp only [h3, Bool.false_eq_true, if_false]
            have h3' : nameIs n sContentLength = false := by simpa using h3
            exact Inv_erase r _ x hs' _ hinv he hxc rfl rfl
              (by simp [hisK, h1', b2n]) (by simp [hisK, h3', b2n]) (by simp [hisK, h2', b2n])
    · have hkk : (x.kind != Kind.header) = true := by simp [hk]
      simp only [hkk, if_true]
      have hisK : ∀ k, isHdr k x = false := by
        intro k; rw [isHdr_of]; cases hx : x.kind <;> simp_all
      exact Inv_erase r _ x hs' _ hinv he hxc rfl rfl
        (by simp [hisK, b2n]) (by simp [hisK, b2n]) (by simp [hisK, b2n])

/-! ### the "Connection" header -/

theorem nameIs_conn_conn : nameIs sConnection sConnection = true := by decide
theorem nameIs_conn_te : nameIs sConnection sTransferEncoding = false := by decide
theorem nameIs_conn_cl : nameIs sConnection sContentLength = false := by decide
theorem nameIs_conn_date : nameIs sConnection sDate = false := by decide
theorem nameClean_conn : NameClean sConnection := by
  refine ⟨by decide, ?_⟩
  have : ∀ b ∈ sConnection, (b != 58 && b != 32 && b != 9 && b != 13 && b != 10) = true := by decide
  intro b hb
  have h := this b hb
  simp at h
  exact ⟨h.1.1.1.1, h.1.1.1.2, h.1.1.2, h.1.2, h.2⟩

theorem cnt_connHdr_cons (k : Bytes) (v : Bytes) (rest : List Hdr) (hk : nameIs sConnection k = false) :
    cnt k (⟨.header, sConnection, v⟩ :: rest) = cnt k rest := by
  rw [cnt_cons, isHdr_header, hk]; simp [b2n]

/-- replace (or keep) the value of the leading Connection header -/
theorem Inv_setConn (r : Resp) (v0 v : Bytes) (rest : List Hdr) (cc : Bool) (hinv : Inv r)
    (hf : r.fa.connHdr = true) (hh : r.hdrs = ⟨.header, sConnection, v0⟩ :: rest)
    (hv : ValClean v) (hcp : cc = true → ClosePrefix v) (hup : r.upgrade = true → cc = false) :
    Inv { r with hdrs := ⟨.header, sConnection, v⟩ :: rest, fa := { r.fa with connClose := cc } } := by
  have hcn := hinv.conn
  simp only [hf, if_true] at hcn
  obtain ⟨v1, rest1, h1, h2, h3⟩ := hcn
  rw [hh] at h1
  simp at h1
  obtain ⟨rfl, rfl⟩ := h1
  have hsub : ∀ h ∈ rest, h ∈ r.hdrs := by intro h hm; rw [hh]; simp [hm]
  refine ⟨?_, hinv.noInsanity, ?_, ?_, ?_, ?_, ?_, hinv.clHead, hinv.teCl, hinv.headSize, ?_, hup⟩
  · intro h hm
    rcases List.mem_cons.1 hm with rfl | hm'
    · exact ⟨nameClean_conn, hv⟩
    · exact hinv.clean h (hsub h hm')
  · simp only [hf, if_true]
    exact ⟨v, rest, rfl, h2, hcp⟩
  · have := hinv.te; rw [hh, cnt_connHdr_cons _ _ _ nameIs_conn_te] at this
    simpa [cnt_connHdr_cons _ _ _ nameIs_conn_te] using this
  · intro h hm hh2
    rcases List.mem_cons.1 hm with rfl | hm'
    · rw [isHdr_header, nameIs_conn_te] at hh2; cases hh2
    · exact hinv.teVal h (hsub h hm') hh2
  · have := hinv.cl; rw [hh, cnt_connHdr_cons _ _ _ nameIs_conn_cl] at this
    simpa [cnt_connHdr_cons _ _ _ nameIs_conn_cl] using this
  · intro h hm hh2
    rcases List.mem_cons.1 hm with rfl | hm'
    · rw [isHdr_header, nameIs_conn_cl] at hh2; cases hh2
    · exact hinv.clVal h (hsub h hm') hh2
  · have := hinv.date; rw [hh, cnt_connHdr_cons _ _ _ nameIs_conn_date] at this
    simpa [cnt_connHdr_cons _ _ _ nameIs_conn_date] using this

/-- create the Connection header in front of the list -/
theorem Inv_newConn (r : Resp) (v : Bytes) (cc : Bool) (hinv : Inv r) (hf : r.fa.connHdr = false)
    (hv : ValClean v) (hcp : cc = true → ClosePrefix v) (hup : r.upgrade = true → cc = false) :
    Inv { r with hdrs := ⟨.header, sConnection, v⟩ :: r.hdrs, fa := { r.fa with connHdr := true, connClose := cc } } := by
  have hcn := hinv.conn
  simp only [hf] at hcn
  refine ⟨?_, hinv.noInsanity, ?_, ?_, ?_, ?_, ?_, hinv.clHead, hinv.teCl, hinv.headSize, ?_, hup⟩
  · intro h hm
    rcases List.mem_cons.1 hm with rfl | hm'
    · exact ⟨nameClean_conn, hv⟩
    · exact hinv.clean h hm'
  · simp only [if_true]
    exact ⟨v, r.hdrs, rfl, hcn.1, hcp⟩
  · simpa [cnt_connHdr_cons _ _ _ nameIs_conn_te] using hinv.te
  · intro h hm hh2
    rcases List.mem_cons.1 hm with rfl | hm'
    · rw [isHdr_header, nameIs_conn_te] at hh2; cases hh2
    · exact hinv.teVal h hm' hh2
  · simpa [cnt_connHdr_cons _ _ _ nameIs_conn_cl] using hinv.cl
  · intro h hm hh2
    rcases List.mem_cons.1 hm with rfl | hm'
    · rw [isHdr_header, nameIs_conn_cl] at hh2; cases hh2
    · exact hinv.clVal h hm' hh2
  · simpa [cnt_connHdr_cons _ _ _ nameIs_conn_date] using hinv.date

/-- drop the leading Connection header -/
theorem Inv_dropConn (r : Resp) (v0 : Bytes) (rest : List Hdr) (hinv : Inv r)
    (hf : r.fa.connHdr = true) (hh : r.hdrs = ⟨.header, sConnection, v0⟩ :: rest) :
    Inv { r with hdrs := rest, fa := { r.fa with connHdr := false, connClose := false } } := by
  have hcn := hinv.conn
  simp only [hf, if_true] at hcn
  obtain ⟨v1, rest1, h1, h2, h3⟩ := hcn
  rw [hh] at h1
  simp at h1
  obtain ⟨rfl, rfl⟩ := h1
  have hsub : ∀ h ∈ rest, h ∈ r.hdrs := by intro h hm; rw [hh]; simp [hm]
  refine ⟨fun h hm => hinv.clean h (hsub h hm), hinv.noInsanity, ?_, ?_, fun h hm => hinv.teVal h (hsub h hm), ?_,
    fun h hm => hinv.clVal h (hsub h hm), hinv.clHead, hinv.teCl, hinv.headSize, ?_, fun _ => rfl⟩
  · simp only [Bool.false_eq_true, if_false]; exact ⟨h2, trivial⟩
  · have := hinv.te; rw [hh, cnt_connHdr_cons _ _ _ nameIs_conn_te] at this; simpa using this
  · have := hinv.cl; rw [hh, cnt_connHdr_cons _ _ _ nameIs_conn_cl] at this; simpa using this
  · have := hinv.date; rw [hh, cnt_connHdr_cons _ _ _ nameIs_conn_date] at this; simpa using this

def NoCRLF (b : UInt8) : Prop := b ≠ 13 ∧ b ≠ 10

theorem allQ_sClose : AllQ NoCRLF sClose := by
  have : ∀ b ∈ sClose, (b != 13 && b != 10) = true := by decide
  intro b hb; have h := this b hb; simp at h; exact h
theorem allQ_sSep : AllQ NoCRLF sSep := by
  have : ∀ b ∈ sSep, (b != 13 && b != 10) = true := by decide
  intro b hb; have h := this b hb; simp at h; exact h

theorem sCloseSep_eq : sCloseSep = sClose ++ sSep := by decide

theorem noCRLF_44 : NoCRLF 44 := ⟨by decide, by decide⟩
theorem noCRLF_32 : NoCRLF 32 := ⟨by decide, by decide⟩

theorem allQ_ite {Q} (c : Prop) [Decidable c] (x y : Bytes) (hx : AllQ Q x) (hy : AllQ Q y) :
    AllQ Q (if c then x else y) := by split <;> assumption

theorem mergeConn_allQ (ins : Bool) (old : Option Bytes) (norm : Bytes)
    (ho : ∀ o, old = some o → AllQ NoCRLF o) (hn : AllQ NoCRLF norm) : AllQ NoCRLF (mergeConn ins old norm) := by
  unfold mergeConn
  simp only
  cases old with
  | none =>
    simp only [List.append_nil]
    exact allQ_append _ _ (allQ_ite _ _ _ allQ_sClose allQ_nil)
      (allQ_ite _ _ _ allQ_nil (allQ_append _ _ (allQ_ite _ _ _ allQ_nil allQ_sSep) hn))
  | some o =>
    simp only
    exact allQ_append _ _
      (allQ_append _ _ (allQ_ite _ _ _ allQ_sClose allQ_nil)
        (allQ_append _ _ (allQ_ite _ _ _ allQ_nil allQ_sSep) (ho o rfl)))
      (allQ_ite _ _ _ allQ_nil (allQ_append _ _ (allQ_ite _ _ _ allQ_nil allQ_sSep) hn))

theorem mergeConn_ne_nil (ins : Bool) (old : Option Bytes) (norm : Bytes) (h : ins = true ∨ norm ≠ []) :
    mergeConn ins old norm ≠ [] := by
  unfold mergeConn
  simp only
  rcases h with h | h
  · subst h
    simp [sClose]
  · have : norm.isEmpty = false := by cases norm <;> simp_all
    simp only [this, Bool.false_eq_true, if_false]
    intro hh
    have := congrArg List.length hh
    simp at this
    cases norm with
    | nil => exact h rfl
    | cons a t => simp at this

theorem mergeConn_close_ins (old : Option Bytes) (norm : Bytes) : ClosePrefix (mergeConn true old norm) := by
  unfold mergeConn ClosePrefix
  simp only [if_true]
  have hne : sClose.isEmpty = false := by decide
  cases old with
  | none =>
    simp only [List.append_nil]
    by_cases hn : norm.isEmpty = true
    · left; simp [hn]
    · right; simp only [hn, Bool.false_eq_true, if_false, hne]
      exact ⟨norm, by rw [sCloseSep_eq]; simp⟩
  | some o =>
    right
    simp only [hne, Bool.false_eq_true, if_false]
    rw [sCloseSep_eq]
    exact ⟨o ++ (if norm.isEmpty = true then [] else (if (sClose ++ (sSep ++ o)).isEmpty = true then [] else sSep) ++ norm),
      by simp [List.append_assoc]⟩

theorem mergeConn_close_keep (o : Bytes) (norm : Bytes) (h : ClosePrefix o) :
    ClosePrefix (mergeConn false (some o) norm) := by
  unfold mergeConn
  simp only [Bool.false_eq_true, if_false, List.nil_append, List.isEmpty_nil, if_true]
  by_cases hn : norm.isEmpty = true
  · simpa [hn] using h
  · simp only [hn, Bool.false_eq_true, if_false]
    have hone : o.isEmpty = false := by
      rcases h with h | ⟨t, h⟩ <;> (subst h; simp [sClose, sCloseSep])
    simp only [hone, Bool.false_eq_true, if_false]
    right
    rcases h with h | ⟨t, h⟩
    · subst h; exact ⟨norm, by rw [sCloseSep_eq]; simp⟩
    · subst h; exact ⟨t ++ (sSep ++ norm), by simp [List.append_assoc]⟩

theorem conn_shape (r : Resp) (hinv : Inv r) (hf : r.fa.connHdr = true) :
    ∃ v rest, r.hdrs = ⟨.header, sConnection, v⟩ :: rest ∧ cnt sConnection rest = 0 ∧
      (r.fa.connClose = true → ClosePrefix v) ∧ ValClean v := by
  have hcn := hinv.conn
  simp only [hf, if_true] at hcn
  obtain ⟨v, rest, h1, h2, h3⟩ := hcn
  exact ⟨v, rest, h1, h2, h3, (hinv.clean ⟨.header, sConnection, v⟩ (by rw [h1]; simp)).2⟩

theorem isHdr_conn_head (v : Bytes) : isHdr sConnection ⟨.header, sConnection, v⟩ = true := by
  rw [isHdr_header]; exact nameIs_conn_conn

theorem addHeaderConnection_inv (r : Resp) (value : Bytes) (hinv : Inv r) : Inv (addHeaderConnection r value).2 := by
  unfold addHeaderConnection
  by_cases hcr : (value.contains 13 || value.contains 10) = true
  · simp only [hcr, if_true]; exact hinv
  · simp only [hcr, Bool.false_eq_true, if_false]
    have hvq : AllQ NoCRLF value := by
      simp at hcr
      intro b hb; constructor <;> (intro hh; subst hh; simp_all)
    cases hrt : removeTokenCaseless value sClose (value.length + value.length / 2 + 1) with
    | none => exact hinv
    | some res =>
      obtain ⟨norm0, vhc⟩ := res
      simp only
      have hn0 : AllQ NoCRLF norm0 :=
        removeTokenCaseless_allQ value sClose _ _ noCRLF_44 noCRLF_32 hvq hrt
      by_cases hupg : (r.upgrade && vhc) = true
      · simp only [hupg, if_true]; exact hinv
      · simp only [hupg, Bool.false_eq_true, if_false]
        have hupc : r.upgrade = true → vhc = false := by
          intro hu; simp [hu] at hupg; simpa using hupg
        cases hnorm : (if norm0.isEmpty = true then some norm0
            else Option.map (fun x => x.out) (removeTokensCaseless norm0 sKeepAliveLower)) with
        | none => exact hinv
        | some norm =>
          simp only
          have hnq : AllQ NoCRLF norm := by
            split at hnorm
            · simp at hnorm; subst hnorm; exact hn0
            · cases hrts : removeTokensCaseless norm0 sKeepAliveLower with
              | none => rw [hrts] at hnorm; simp at hnorm
              | some res2 =>
                rw [hrts] at hnorm; simp at hnorm; subst hnorm
                exact removeTokensCaseless_allQ _ _ _ noCRLF_44 noCRLF_32 hn0 hrts
          by_cases hc1 : (norm.isEmpty && !vhc) = true
          · simp only [hc1, if_true]; exact hinv
          · simp only [hc1, Bool.false_eq_true, if_false]
            by_cases hf : r.fa.connHdr = true
            · obtain ⟨v0, rest, hh, hc0, hcp, hvc⟩ := conn_shape r hinv hf
              have hfind : r.hdrs.find? (isHdr sConnection) = some ⟨.header, sConnection, v0⟩ := by
                rw [hh]; simp [List.find?, isHdr_conn_head]
              simp only [hf, if_true, hfind, Option.map_some]
              by_cases hc2 : (norm.isEmpty && r.fa.connClose) = true
              · simp only [hc2, if_true]; exact hinv
              · simp only [hc2, Bool.false_eq_true, if_false]
                have hset : setValueFirst (isHdr sConnection)
                    (mergeConn (vhc && !r.fa.connClose) (some v0) norm) r.hdrs
                    = ⟨.header, sConnection, mergeConn (vhc && !r.fa.connClose) (some v0) norm⟩ :: rest := by
                  rw [hh]; simp [setValueFirst, isHdr_conn_head]
                rw [hset]
                have hvne : mergeConn (vhc && !r.fa.connClose) (some v0) norm ≠ [] := by
                  apply mergeConn_ne_nil
                  by_cases hne : norm.isEmpty = true
                  · left
                    simp [hne] at hc1 hc2
                    simp [hc1, hc2]
                  · right; intro hh2; subst hh2; simp at hne
                have hvcl : ValClean (mergeConn (vhc && !r.fa.connClose) (some v0) norm) :=
                  ⟨hvne, mergeConn_allQ _ _ _ (by intro o ho; simp at ho; subst ho; exact hvc.2) hnq⟩
                by_cases hins : (vhc && !r.fa.connClose) = true
                · simp only [hins, if_true]
                  have := Inv_setConn r v0 _ rest true hinv hf hh hvcl
                    (by intro _; rw [hins]; exact mergeConn_close_ins _ _)
                    (by intro hu; have := hupc hu; simp [this] at hins)
                  simp only [hins, hf] at this
                  exact this
                · simp only [hins, Bool.false_eq_true, if_false]
                  have hins' : (vhc && !r.fa.connClose) = false := by simpa using hins
                  have := Inv_setConn r v0 _ rest r.fa.connClose hinv hf hh hvcl
                    (by intro hcc; rw [hins']; exact mergeConn_close_keep _ _ (hcp hcc))
                    (by intro hu; exact hinv.upg hu)
                  simp only [hins'] at this
                  exact this
            · have hf' : r.fa.connHdr = false := by simpa using hf
              have hcn := hinv.conn
              simp only [hf'] at hcn
              simp only [hf', Bool.false_eq_true, if_false, Option.map_none, Bool.and_false]
              have hvne : mergeConn (vhc && !false) none norm ≠ [] := by
                apply mergeConn_ne_nil
                by_cases hne : norm.isEmpty = true
                · left
                  simp [hne] at hc1
                  simp [hc1]
                · right; intro hh2; subst hh2; simp at hne
              have := Inv_newConn r (mergeConn (vhc && !false) none norm) (r.fa.connClose || vhc) hinv hf'
                ⟨hvne, mergeConn_allQ _ _ _ (by intro o ho; cases ho) hnq⟩
                (by intro hcc
                    have : vhc = true := by simpa [hcn.2] using hcc
                    subst this
                    exact mergeConn_close_ins _ _)
                (by intro hu; simp [hcn.2, hupc hu])
              simpa using this

theorem delHeaderConnection_inv (r : Resp) (value : Bytes) (hinv : Inv r) (hf : r.fa.connHdr = true) :
    Inv (delHeaderConnection r value).2 := by
  unfold delHeaderConnection
  obtain ⟨v0, rest, hh, hc0, hcp, hvc⟩ := conn_shape r hinv hf
  have hfind : r.hdrs.find? (isHdr sConnection) = some ⟨.header, sConnection, v0⟩ := by
    rw [hh]; simp [List.find?, isHdr_conn_head]
  simp only [hfind]
  cases hrt : removeTokensCaseless v0 value with
  | none => exact hinv
  | some res =>
    obtain ⟨v', removed⟩ := res
    simp only
    have hvq : AllQ NoCRLF v' := removeTokensCaseless_allQ _ _ _ noCRLF_44 noCRLF_32 hvc.2 hrt
    by_cases hrm : removed = true
    · simp only [hrm, Bool.not_true, Bool.false_eq_true, if_false]
      by_cases hemp : v'.isEmpty = true
      · simp only [hemp, if_true]
        have her : eraseFirst (isHdr sConnection) r.hdrs = some (⟨.header, sConnection, v0⟩, rest) := by
          rw [hh]; simp [eraseFirst, isHdr_conn_head]
        simp only [her]
        exact Inv_dropConn r v0 rest hinv hf hh
      · simp only [hemp, Bool.false_eq_true, if_false]
        have hset : setValueFirst (isHdr sConnection) v' r.hdrs = ⟨.header, sConnection, v'⟩ :: rest := by
          rw [hh]; simp [setValueFirst, isHdr_conn_head]
        rw [hset]
        have hvne : v' ≠ [] := by intro h2; subst h2; simp at hemp
        have hvcl : ValClean v' := ⟨hvne, hvq⟩
        simp only [hf, Bool.true_or, Bool.true_and]
        by_cases hkeep : (if v'.length == 5 then v' == sClose else if 7 < v'.length then v'.take 7 == sCloseSep else false) = true
        · simp only [hkeep, Bool.not_true, Bool.false_eq_true, if_false]
          have hcp' : ClosePrefix v' := by
            split at hkeep
            · left; simpa using hkeep
            · split at hkeep
              · right
                refine ⟨v'.drop 7, ?_⟩
                have h7 : v'.take 7 = sCloseSep := by simpa using hkeep
                rw [← h7, List.take_append_drop]
              · simp at hkeep
          have := Inv_setConn r v0 v' rest r.fa.connClose hinv hf hh hvcl (fun _ => hcp') (fun hu => hinv.upg hu)
          exact this
        · simp only [hkeep, Bool.not_false, if_true]
          have := Inv_setConn r v0 v' rest false hinv hf hh hvcl (by intro h; cases h) (fun _ => rfl)
          simpa [hf] using this
    · simp only [hrm, Bool.not_false, if_true]
      exact hinv

theorem addHeader_inv (r : Resp) (n v : Bytes) (hinv : Inv r) (hl : (Call.add n v).Legal) : Inv (addHeader r n v).2 := by
  by_cases hc : strEqCaseless n sConnection = true
  · have : addHeader r n v = addHeaderConnection r v := by unfold addHeader; simp [hc]
    rw [this]; exact addHeaderConnection_inv r v hinv
  · exact addHeader_rest_inv r n v hinv hl.1 hl.2 (by simpa using hc)

theorem delHeader_inv (r : Resp) (n v : Bytes) (hinv : Inv r) : Inv (delHeader r n v).2 := by
  by_cases hbr : (r.fa.connHdr && nameIs n sConnection) = true
  · have : delHeader r n v = delHeaderConnection r v := by unfold delHeader; simp [hbr]
    rw [this]
    simp at hbr
    exact delHeaderConnection_inv r v hinv hbr.1
  · exact delHeader_rest_inv r n v hinv (by simpa using hbr)

/-- every legal call preserves the invariant -/
theorem applyCall_inv (r : Resp) (c : Call) (hinv : Inv r) (hl : c.Legal) : Inv (applyCall r c).2 := by
  cases c with
  | add n v => exact addHeader_inv r n v hinv hl
  | del n v => exact delHeader_inv r n v hinv
  | foot n v => exact addFooter_inv r n v hinv hl
  | opt f => exact setOptions_inv r f hinv hl

/-- … hence it holds after every finite sequence of legal calls -/
theorem runCalls_inv (cs : List Call) : ∀ (r : Resp), Inv r → (∀ c ∈ cs, c.Legal) → Inv (runCalls r cs) := by
  induction cs with
  | nil => intro r h _; exact h
  | cons c cs ih =>
    intro r h hl
    unfold runCalls
    simp only [List.foldl]
    exact ih _ (applyCall_inv r c h (hl c (by simp))) (fun c' hc' => hl c' (by simp [hc']))

theorem inv_of_nil (r : Resp) (h1 : r.hdrs = []) (h2 : r.fa = {}) (h3 : r.flags.insanity = false)
    (h4 : r.flags.headOnly = true → r.totalSize = 0) : Inv r := by
  refine ⟨?_, h3, ?_, ?_, ?_, ?_, ?_, ?_, ?_, h4, ?_, ?_⟩
  · intro h hm; rw [h1] at hm; cases hm
  · rw [h2, h1]; simp [cnt]
  · rw [h2, h1]; simp [cnt, b2n]
  · intro h hm; rw [h1] at hm; cases hm
  · rw [h2, h1]; simp [cnt, b2n]
  · intro h hm; rw [h1] at hm; cases hm
  · rw [h2]; intro h; cases h
  · rw [h2]; intro h; cases h.1
  · rw [h2, h1]; simp [cnt, b2n]
  · rw [h2]; intro _; rfl

theorem create_inv (size : Nat) : Inv (Resp.create size) :=
  inv_of_nil _ rfl rfl rfl (by intro h; cases h)

theorem createEmpty_inv (f : RFlags) (hf : f.insanity = false) : Inv (Resp.createEmpty f) :=
  inv_of_nil _ rfl rfl hf (fun _ => rfl)

theorem createUpgrade_inv : Inv Resp.createUpgrade := by
  unfold Resp.createUpgrade
  apply addHeader_inv
  · exact inv_of_nil _ rfl rfl rfl (by intro h; cases h)
  · refine ⟨by decide, ?_⟩
    intro h
    have : strEqCaseless sConnection sContentLength = false := by decide
    rw [this] at h; cases h
end Mhd.Resp
