/-
  C07 — progress: transient faults never close the connection, every productive round strictly
  decreases a measure, hence transient-only fault scripts deliver the complete reply within a
  bounded number of productive rounds.
-/
import Mhd.Proofs.SendFaults
namespace Mhd.Send
open Mhd.Gen.Send

/-- the sender did not fail hard -/
def OnlyAgain (o : SendOut) : Prop := ∀ e, o.ret = .error e → e = .again

theorem transient_err {e : Errno} (h : (SockRes.err e).isTransient = true) : mapSendErr e = .again := by
  simp only [SockRes.isTransient, Bool.or_eq_true] at h
  unfold mapSendErr
  rcases h with h | h
  · simp [h]
  · by_cases h1 : e.isEagain = true <;> simp [h1, h]

theorem sysSend_transient (req : Bytes) (s : SockRes) (h : s.isTransient = true) : OnlyAgain (sysSend req s) := by
  intro e he
  cases s with
  | full => cases he
  | short k => cases he
  | err e' =>
    simp only [sysSend, SendOut.fail, Except.error.injEq] at he
    rw [← he]; exact transient_err h

theorem sendData_transient (buf : Bytes) (s : SockRes) (h : s.isTransient = true) : OnlyAgain (sendData false buf s) := by
  simp only [sendData, Bool.false_eq_true, if_false]
  exact sysSend_transient _ s h

theorem transient_legal {s : SockRes} (h : s.isTransient = true) : s.Legal := by
  cases s with
  | full => trivial
  | short k => simpa [SockRes.isTransient, SockRes.Legal] using h
  | err e => trivial

theorem data_transient {s : SockRes} (h : s.isData = true) : s.isTransient = true := by
  cases s with
  | full => rfl
  | short k => simpa [SockRes.isData, SockRes.isTransient] using h
  | err e => simp [SockRes.isData] at h

theorem sendHdrAndBody_transient (noVec nonblk : Bool) (hdr body : Bytes) (s1 s2 : SockRes)
    (h1 : s1.isTransient = true) (h2 : s2.isTransient = true) :
    OnlyAgain (sendHdrAndBody false noVec nonblk hdr body s1 s2) := by
  unfold sendHdrAndBody
  simp only [Bool.false_eq_true, if_false]
  split
  · have ho1 := sendData_transient hdr s1 h1
    cases hr : (sendData false hdr s1).ret with
    | error e => simp only []; exact ho1
    | ok ret =>
      simp only []
      split
      · generalize (if ssizeMax - ret < body.length then ssizeMax - ret else body.length) = bsz
        have ho2 := sendData_transient (body.take bsz) s2 h2
        cases hr2 : (sendData false (body.take bsz) s2).ret with
        | ok ret2 =>
          simp only []
          split <;> (intro e he; cases he)
        | error e =>
          have := ho2 e hr2
          subst this
          simp only []
          intro e he; cases he
      · exact ho1
  · exact sysSend_transient _ s1 h1

theorem sendHdrAndBody_data (noVec nonblk : Bool) (hdr body : Bytes) (s1 s2 : SockRes)
    (h1 : s1.isData = true) (h2 : s2.isTransient = true) (hne : hdr ≠ []) :
    ∃ n, (sendHdrAndBody false noVec nonblk hdr body s1 s2).ret = .ok n ∧ 1 ≤ n := by
  unfold sendHdrAndBody
  simp only [Bool.false_eq_true, if_false]
  split
  · obtain ⟨n1, hr, hn1⟩ := sendData_data hdr s1 h1 hne
    rw [hr]
    simp only []
    split
    · rename_i hc
      obtain ⟨hc1, hc2, hc3, hc4⟩ := hc
      generalize hbs : (if ssizeMax - n1 < body.length then ssizeMax - n1 else body.length) = bsz
      have hbpos : 1 ≤ bsz := by
        have : 1 ≤ body.length := Nat.pos_of_ne_zero hc3
        rw [← hbs]; split <;> omega
      have hne2 : body.take bsz ≠ [] := by
        apply ne_nil_of_length_pos
        have : 1 ≤ body.length := Nat.pos_of_ne_zero hc3
        simp only [List.length_take]; omega
      have ho2 := sendData_transient (body.take bsz) s2 h2
      cases hr2 : (sendData false (body.take bsz) s2).ret with
      | ok ret2 =>
        simp only []
        have hp := sendData_legal_pos _ s2 (transient_legal h2) hne2 ret2 hr2
        rw [if_pos (by omega)]
        exact ⟨n1 + ret2, rfl, by omega⟩
      | error e =>
        have := ho2 e hr2
        subst this
        exact ⟨n1, rfl, hn1⟩
    · exact ⟨n1, hr, hn1⟩
  · apply sysSend_data _ s1 h1
    intro h
    have := congrArg List.length h
    simp only [List.length_append, List.length_nil] at this
    have := length_pos_of_ne_nil hne
    omega


/-! ### Progress measure -/

/-- reply descriptions for which transient-only fault scripts can always make progress -/
structure WFp (r : Resp) : Prop where
  wf : WF r
  buf_pos : 1 ≤ r.bufSize
  wb_ok : r.chunked = true → minChunkBuf ≤ r.wbSize
  chunk_kind : r.chunked = true → r.kind ≠ .iovec
  sf_known : r.sendfile = true → r.sizeKnown = true

/-- no hard error, no application error, no allocation failure in this round -/
def Round.transient (x : Round) : Prop :=
  x.s1.isTransient = true ∧ x.s2.isTransient = true ∧ x.appW ≠ .err ∧ x.appI ≠ .err ∧
  x.allocW = true ∧ x.allocI = true

/-- a productive round: the socket is write-ready and takes data, the content reader is ready -/
def Round.good (x : Round) : Prop :=
  x.wr = true ∧ x.s1.isData = true ∧ x.s2.isData = true ∧ x.appW = .ready ∧ x.appI = .ready ∧
  x.allocW = true ∧ x.allocI = true

theorem Round.good.transient {x : Round} (h : x.good) : x.transient :=
  ⟨data_transient h.2.1, data_transient h.2.2.1, by rw [h.2.2.2.1]; decide, by rw [h.2.2.2.2.1]; decide,
   h.2.2.2.2.2.1, h.2.2.2.2.2.2⟩

theorem Round.transient.legal {x : Round} (h : x.transient) : x.Legal := transient_legal h.2.1

/-- rank of NORMAL_BODY_READY: 2 = only the final check is left, 5 = sendfile may still fall
    back, 4 = the content reader has to be asked first, 0 = data is at hand -/
def rankR (r : Resp) (c : Conn) : Nat :=
  if c.tot = 0 ∨ c.rp = c.tot then 2
  else if r.kind = .iovec ∨ r.kind = .buffer then 0
  else if c.sf = true then 5
  else if c.ds ≤ c.rp ∧ c.rp < c.dz + c.ds then 0
  else 4

/-- how many byte-less steps the state may still need before the next byte has to flow -/
def rank (r : Resp) (c : Conn) : Nat :=
  match c.st with
  | .headersSent => 7
  | .normalBodyUnready => if c.sf = true then 6 else 3
  | .normalBodyReady => rankR r c
  | .chunkedBodyUnready => 2
  | .chunkedBodySent => 1
  | .fullReplySent => 1
  | _ => 0

theorem rankR_le (r : Resp) (c : Conn) : rankR r c ≤ 5 := by
  unfold rankR
  (repeat' split) <;> omega

theorem rank_le (r : Resp) (c : Conn) : rank r c ≤ 7 := by
  have := rankR_le r c
  unfold rank
  split <;> (try split) <;> omega

/-- progress measure: eight units per byte still to deliver, plus the rank of the state -/
def mu (r : Resp) (c : Conn) : Nat := 8 * ((stream r).length - c.out.length) + rank r c

/-- at least one more byte went out (and the result is still consistent): the measure drops -/
theorem mu_bytes {r : Resp} {c c' : Conn} (h' : Inv r c') (hb : c.out.length + 1 ≤ c'.out.length) :
    mu r c' < mu r c := by
  have hl := h'.pfx.length_le
  have := rank_le r c'
  unfold mu
  omega

theorem mu_same {r : Resp} {c c' : Conn} (ho : c'.out = c.out) (hr : rank r c' ≤ rank r c) : mu r c' ≤ mu r c := by
  unfold mu; rw [ho]; omega

theorem mu_rank {r : Resp} {c c' : Conn} (ho : c'.out = c.out) (hr : rank r c' < rank r c) : mu r c' < mu r c := by
  unfold mu; rw [ho]; omega

/-- what a step did, as far as the measure is concerned -/
structure Eff (r : Resp) (c c' : Conn) : Prop where
  open_ : c'.st ≠ .closed
  mono : c.out.length + 1 ≤ c'.out.length ∨ (c'.out = c.out ∧ rank r c' ≤ rank r c)

/-- … and strictly so -/
def Strict (r : Resp) (c c' : Conn) : Prop :=
  c.out.length + 1 ≤ c'.out.length ∨ (c'.out = c.out ∧ rank r c' < rank r c)

theorem Eff.mu_le {r : Resp} {c c' : Conn} (h' : Inv r c') (e : Eff r c c') : mu r c' ≤ mu r c := by
  rcases e.mono with hb | ⟨ho, hr⟩
  · exact Nat.le_of_lt (mu_bytes h' hb)
  · exact mu_same ho hr

theorem Strict.mu_lt {r : Resp} {c c' : Conn} (h' : Inv r c') (e : Strict r c c') : mu r c' < mu r c := by
  rcases e with hb | ⟨ho, hr⟩
  · exact mu_bytes h' hb
  · exact mu_rank ho hr

theorem Eff.refl (r : Resp) (c : Conn) (h : c.st ≠ .closed) : Eff r c c := ⟨h, Or.inr ⟨rfl, Nat.le_refl _⟩⟩

theorem Eff.trans {r : Resp} {a b c : Conn} (h1 : Eff r a b) (h2 : Eff r b c) : Eff r a c := by
  refine ⟨h2.open_, ?_⟩
  rcases h1.mono with hb1 | ⟨ho1, hr1⟩ <;> rcases h2.mono with hb2 | ⟨ho2, hr2⟩
  · left; omega
  · left; rw [ho2]; exact hb1
  · left; rw [ho1] at hb2; exact hb2
  · right; exact ⟨by rw [ho2, ho1], Nat.le_trans hr2 hr1⟩

theorem Strict.trans_left {r : Resp} {a b c : Conn} (h1 : Strict r a b) (h2 : Eff r b c) : Strict r a c := by
  rcases h1 with hb1 | ⟨ho1, hr1⟩ <;> rcases h2.mono with hb2 | ⟨ho2, hr2⟩
  · left; omega
  · left; rw [ho2]; exact hb1
  · left; rw [ho1] at hb2; exact hb2
  · right; exact ⟨by rw [ho2, ho1], Nat.lt_of_le_of_lt hr2 hr1⟩

theorem Strict.trans_right {r : Resp} {a b c : Conn} (h1 : Eff r a b) (h2 : Strict r b c) : Strict r a c := by
  rcases h1.mono with hb1 | ⟨ho1, hr1⟩ <;> rcases h2 with hb2 | ⟨ho2, hr2⟩
  · left; omega
  · left; rw [ho2]; exact hb1
  · left; rw [ho1] at hb2; exact hb2
  · right; exact ⟨by rw [ho2, ho1], Nat.lt_of_lt_of_le hr2 hr1⟩


theorem rank_wb {r : Resp} {c : Conn} (h : isWbState c.st) : rank r c = 0 := by
  unfold rank
  rcases h with h | h | h <;> rw [h]

theorem checkWriteDone_st (c : Conn) (next : St) : (checkWriteDone c next).st = c.st ∨ (checkWriteDone c next).st = next := by
  unfold checkWriteDone; split
  · left; rfl
  · right; rfl

theorem checkWriteDone_out (c : Conn) (next : St) : (checkWriteDone c next).out = c.out := by
  unfold checkWriteDone; split <;> rfl

theorem checkWriteDone_same (c : Conn) (next : St) (h : c.ao ≠ c.so) : checkWriteDone c next = c := by
  unfold checkWriteDone; rw [if_pos h]

/-- effect of sending from the write buffer -/
theorem wbAccount_eff {r : Resp} {c : Conn} (h : Inv r c) (hs : isWbState c.st) (o : SendOut) (next : St)
    (hspec : SendSpec o (slice c.wb c.so (c.ao - c.so))) (hoa : OnlyAgain o) (hnext : next ≠ .closed) :
    Eff r c (wbAccount c o next) ∧
    ((∃ n, o.ret = .ok n ∧ 1 ≤ n) → c.out.length + 1 ≤ (wbAccount c o next).out.length) := by
  have hne : c.st ≠ .closed := by
    intro e; rw [e] at hs; rcases hs with x | x | x <;> cases x
  obtain ⟨hlt, hle⟩ := h.wbuf hs
  have hlen := (wbPending_some h hs).2
  unfold wbAccount
  simp only []
  cases hr : o.ret with
  | error e =>
    have := hoa e hr
    subst this
    have hw : o.wire = [] := hspec.again hr
    simp only [hw, List.append_nil]
    exact ⟨Eff.refl r c hne, fun ⟨n, hn, _⟩ => by cases hn⟩
  | ok n =>
    obtain ⟨hn, hw⟩ := hspec.ok n hr
    rw [hlen] at hn
    have hwl : o.wire.length = n := by
      rw [hw, List.length_take, hlen]; omega
    simp only []
    constructor
    · constructor
      · rcases checkWriteDone_st { c with out := c.out ++ o.wire, so := c.so + n } next with e | e
        · rw [e]; exact hne
        · rw [e]; exact hnext
      · by_cases h0 : n = 0
        · right
          subst h0
          have hwn : o.wire = [] := List.eq_nil_of_length_eq_zero hwl
          rw [checkWriteDone_same _ _ (by show c.ao ≠ c.so + 0; omega)]
          refine ⟨by show c.out ++ o.wire = c.out; rw [hwn, List.append_nil], ?_⟩
          rw [rank_wb hs]
          exact Nat.le_of_eq (rank_wb (c := { c with out := c.out ++ o.wire, so := c.so + 0 }) hs)
        · left
          rw [checkWriteDone_out]
          show c.out.length + 1 ≤ (c.out ++ o.wire).length
          rw [List.length_append, hwl]; omega
    · intro ⟨m, hm, hm1⟩
      cases hm
      rw [checkWriteDone_out]
      show c.out.length + 1 ≤ (c.out ++ o.wire).length
      rw [List.length_append, hwl]; omega


theorem hwHeaders_eff {r : Resp} {c : Conn} (h : Inv r c) (hs : c.st = .headersSending) (s1 s2 : SockRes)
    (h1 : s1.isTransient = true) (h2 : s2.isTransient = true) :
    Eff r c (hwHeaders r c s1 s2) ∧
    (s1.isData = true → c.out.length + 1 ≤ (hwHeaders r c s1 s2).out.length) := by
  have hwb : isWbState c.st := Or.inl hs
  have hne : c.st ≠ .closed := by rw [hs]; decide
  obtain ⟨hlt, hle⟩ := h.wbuf hwb
  have hlen := (wbPending_some h hwb).2
  have hpne : slice c.wb c.so (c.ao - c.so) ≠ [] := ne_nil_of_length_pos (by rw [hlen]; omega)
  unfold hwHeaders
  simp only [(wbPending_some h hwb).1]
  generalize hb : (if r.sendBody = true ∧ r.kind = Kind.buffer ∧ c.rp = 0 ∧ ¬r.chunked = true
      then sendHdrAndBody false r.noVec r.nonblk (slice c.wb c.so (c.ao - c.so)) (slice r.body 0 c.dz) s1 s2
      else sendHdrAndBody false r.noVec r.nonblk (slice c.wb c.so (c.ao - c.so)) [] s1 s2) = o
  have hprops : OnlyAgain o ∧ (∃ body', SendSpec o (slice c.wb c.so (c.ao - c.so) ++ body')) ∧
      (s1.isData = true → ∃ n, o.ret = .ok n ∧ 1 ≤ n) := by
    rw [← hb]
    split
    · exact ⟨sendHdrAndBody_transient _ _ _ _ _ _ h1 h2, ⟨_, sendHdrAndBody_spec _ _ _ _ _ _ (transient_legal h2)⟩,
             fun hd => sendHdrAndBody_data _ _ _ _ _ _ hd h2 hpne⟩
    · exact ⟨sendHdrAndBody_transient _ _ _ _ _ _ h1 h2, ⟨_, sendHdrAndBody_spec _ _ _ _ _ _ (transient_legal h2)⟩,
             fun hd => sendHdrAndBody_data _ _ _ _ _ _ hd h2 hpne⟩
  obtain ⟨hoa, ⟨body', hspec⟩, hdata⟩ := hprops
  cases hr : o.ret with
  | error e =>
    have := hoa e hr
    subst this
    have hw : o.wire = [] := hspec.again hr
    simp only [hw, List.append_nil]
    refine ⟨Eff.refl r c hne, fun hd => ?_⟩
    obtain ⟨n, hn, _⟩ := hdata hd
    rw [hr] at hn; cases hn
  | ok ret =>
    obtain ⟨hn, hw⟩ := hspec.ok ret hr
    have hwl : o.wire.length = ret := by
      rw [hw, List.length_take]; omega
    simp only []
    have hst : ∀ c2 : Conn, c2.st = c.st → (checkWriteDone c2 .headersSent).st ≠ .closed := by
      intro c2 h2s
      rcases checkWriteDone_st c2 .headersSent with e | e
      · rw [e, h2s]; exact hne
      · rw [e]; decide
    by_cases h0 : ret = 0
    · subst h0
      have hwn : o.wire = [] := List.eq_nil_of_length_eq_zero hwl
      rw [if_neg (by omega)]
      rw [checkWriteDone_same _ _ (by show c.ao ≠ c.so + 0; omega)]
      refine ⟨⟨hne, Or.inr ⟨by show c.out ++ o.wire = c.out; rw [hwn, List.append_nil], ?_⟩⟩, fun hd => ?_⟩
      · rw [rank_wb hwb]
        exact Nat.le_of_eq (rank_wb (c := { c with out := c.out ++ o.wire, so := c.so + 0 }) hwb)
      · obtain ⟨n, hn', hn1⟩ := hdata hd
        rw [hr] at hn'; cases hn'; omega
    · have hgrow : ∀ c2 : Conn, c2.out = c.out ++ o.wire → c.out.length + 1 ≤ (checkWriteDone c2 .headersSent).out.length := by
        intro c2 h2o
        rw [checkWriteDone_out, h2o, List.length_append, hwl]; omega
      split
      · exact ⟨⟨hst _ rfl, Or.inl (hgrow _ rfl)⟩, fun _ => hgrow _ rfl⟩
      · exact ⟨⟨hst _ rfl, Or.inl (hgrow _ rfl)⟩, fun _ => hgrow _ rfl⟩


theorem capMax_pos (m n : Nat) (h : 1 ≤ n) : 1 ≤ capMax m n := by
  unfold capMax; split <;> omega

/-- a ready content reader hands out at least one byte as long as content is left -/
theorem crcCall_ready {r : Resp} {pos max : Nat} (hpos : pos < r.body.length) (hmax : 1 ≤ max) :
    ∃ n, crcCall r pos max .ready = .data n ∧ 1 ≤ n := by
  have hx : 1 ≤ min max (r.body.length - pos) := by omega
  unfold crcCall
  split
  · simp only [readerGives, Nat.not_le.mpr hpos, if_false]
    exact ⟨_, rfl, capMax_pos _ _ hx⟩
  · simp only [readerGives, Nat.not_le.mpr hpos, if_false]
    exact ⟨_, rfl, capMax_pos _ _ hx⟩

theorem crcCall_not_err {r : Resp} {pos max : Nat} {app : AppAns} (h : app ≠ .err) : crcCall r pos max app ≠ .err := by
  unfold crcCall
  split
  · split
    · exact absurd rfl h
    · simp
    · unfold readerGives; split <;> simp
  · unfold readerGives; split <;> simp

/-- effect of `try_ready_normal_body` when nothing fails -/
theorem tryReady_eff {r : Resp} {c : Conn} (hw : WFp r) (h : Inv r c) (hst : isNb c.st) (app : AppAns)
    (happ : app ≠ .err) (c' : Conn) (ok : Bool) (hres : tryReadyNormalBody r c app true = (c', ok)) :
    c'.out = c.out ∧
    (ok = true → c'.st = c.st ∧ rankR r c' ≤ rankR r c ∧ (rankR r c = 4 → rankR r c' = 0) ∧
                 (rankR r c = 5 → c'.sf = true)) ∧
    (ok = false → rankR r c = 4 ∧ (c'.st = .done ∨ (c'.st = .normalBodyUnready ∧ c'.sf = false ∧ app ≠ .ready))) := by
  have hcore := h.core hst.ne_closed
  obtain ⟨hsb, hnc⟩ := h.stBody (by rcases hst with e | e; exact Or.inr e; exact Or.inl e)
  have hrp := hcore.rpLe hsb
  unfold tryReadyNormalBody at hres
  by_cases h0 : c.tot = 0 ∨ c.rp = c.tot
  · rw [if_pos h0] at hres
    simp only [Prod.mk.injEq] at hres; obtain ⟨rfl, rfl⟩ := hres
    refine ⟨rfl, fun _ => ⟨rfl, Nat.le_refl _, ?_, ?_⟩, fun x => by cases x⟩
    · intro h4; simp [rankR, h0] at h4
    · intro h5; simp [rankR, h0] at h5
  · rw [if_neg h0] at hres
    by_cases hk : r.kind = .iovec
    · rw [if_pos hk] at hres
      have hr0 : ∀ c2 : Conn, c2.tot = c.tot → c2.rp = c.rp → rankR r c2 = 0 := by
        intro c2 e1 e2
        unfold rankR; rw [e1, e2, if_neg h0, if_pos (Or.inl hk)]
      by_cases hset : c.iovSet = true
      · rw [if_pos hset] at hres
        simp only [Prod.mk.injEq] at hres; obtain ⟨rfl, rfl⟩ := hres
        refine ⟨rfl, fun _ => ⟨rfl, Nat.le_refl _, ?_, ?_⟩, fun x => by cases x⟩
        · intro h4; rw [hr0 c rfl rfl] at h4; cases h4
        · intro h5; rw [hr0 c rfl rfl] at h5; cases h5
      · rw [if_neg hset] at hres
        simp only [if_true, Prod.mk.injEq] at hres; obtain ⟨rfl, rfl⟩ := hres
        refine ⟨rfl, fun _ => ⟨rfl, ?_, ?_, ?_⟩, fun x => by cases x⟩
        · rw [hr0 c rfl rfl]; exact Nat.le_of_eq (hr0 _ rfl rfl)
        · intro h4; rw [hr0 c rfl rfl] at h4; cases h4
        · intro h5; rw [hr0 c rfl rfl] at h5; cases h5
    · rw [if_neg hk] at hres
      by_cases hkb : r.kind = .buffer
      · rw [if_pos hkb] at hres
        simp only [Prod.mk.injEq] at hres; obtain ⟨rfl, rfl⟩ := hres
        have hr0 : rankR r c = 0 := by unfold rankR; rw [if_neg h0, if_pos (Or.inr hkb)]
        refine ⟨rfl, fun _ => ⟨rfl, Nat.le_refl _, ?_, ?_⟩, fun x => by cases x⟩
        · intro h4; rw [hr0] at h4; cases h4
        · intro h5; rw [hr0] at h5; cases h5
      · rw [if_neg hkb] at hres
        have hkk : ¬ (r.kind = .iovec ∨ r.kind = .buffer) := fun x => x.elim hk hkb
        by_cases hwin : c.ds ≤ c.rp ∧ c.rp < c.dz + c.ds
        · rw [if_pos hwin] at hres
          simp only [Prod.mk.injEq] at hres; obtain ⟨rfl, rfl⟩ := hres
          have hsf : ¬ c.sf = true := by
            intro hsf; have := hcore.sfWin hsf; omega
          have hr0 : rankR r c = 0 := by
            unfold rankR; rw [if_neg h0, if_neg hkk, if_neg hsf, if_pos hwin]
          refine ⟨rfl, fun _ => ⟨rfl, Nat.le_refl _, ?_, ?_⟩, fun x => by cases x⟩
          · intro h4; rw [hr0] at h4; cases h4
          · intro h5; rw [hr0] at h5; cases h5
        · rw [if_neg hwin] at hres
          by_cases hsf : c.sf = true
          · rw [if_pos hsf] at hres
            simp only [Prod.mk.injEq] at hres; obtain ⟨rfl, rfl⟩ := hres
            have hr5 : rankR r c = 5 := by
              unfold rankR; rw [if_neg h0, if_neg hkk, if_pos hsf]
            refine ⟨rfl, fun _ => ⟨rfl, Nat.le_refl _, ?_, fun _ => hsf⟩, fun x => by cases x⟩
            intro h4; rw [hr5] at h4; cases h4
          · rw [if_neg hsf] at hres
            have hr4 : rankR r c = 4 := by
              unfold rankR; rw [if_neg h0, if_neg hkk, if_neg hsf, if_neg hwin]
            cases hcrc : crcCall r c.rp (min r.bufSize (c.tot - c.rp)) app with
            | err => exact absurd hcrc (crcCall_not_err happ)
            | eos =>
              rw [hcrc] at hres
              simp only [Prod.mk.injEq] at hres; obtain ⟨rfl, rfl⟩ := hres
              exact ⟨rfl, (fun x => by cases x), fun _ => ⟨hr4, Or.inl rfl⟩⟩
            | data n =>
              rw [hcrc] at hres
              cases n with
              | zero =>
                simp only [Prod.mk.injEq] at hres; obtain ⟨rfl, rfl⟩ := hres
                refine ⟨rfl, (fun x => by cases x), fun _ => ⟨hr4, Or.inr ⟨rfl, by simpa using hsf, ?_⟩⟩⟩
                intro hready
                subst hready
                -- a ready reader would have produced data or the end of the stream
                by_cases hpos : c.rp < r.body.length
                · have hmax : 1 ≤ min r.bufSize (c.tot - c.rp) := by
                    have hb := hw.buf_pos
                    have ht := hcore.tot
                    have hsz := hw.wf.size
                    unfold TotOk at ht
                    split at ht
                    · omega
                    · rcases ht with ht | ht <;> omega
                  obtain ⟨m, hm, hm1⟩ := crcCall_ready (r := r) hpos hmax
                  rw [hm] at hcrc
                  simp only [CbRes.data.injEq] at hcrc; omega
                · have : crcCall r c.rp (min r.bufSize (c.tot - c.rp)) .ready = .eos := by
                    unfold crcCall; split <;> simp [readerGives, Nat.not_lt.mp hpos]
                  rw [this] at hcrc; cases hcrc
              | succ m =>
                simp only [Prod.mk.injEq] at hres; obtain ⟨rfl, rfl⟩ := hres
                refine ⟨rfl, fun _ => ⟨rfl, ?_, ?_, ?_⟩, fun x => by cases x⟩
                · rw [hr4]
                  have : rankR r { c with ds := c.rp, dz := m + 1 } = 0 := by
                    unfold rankR
                    rw [if_neg h0, if_neg hkk, if_neg hsf, if_pos ⟨Nat.le_refl _, by show c.rp < m + 1 + c.rp; omega⟩]
                  rw [this]; omega
                · intro _
                  unfold rankR
                  rw [if_neg h0, if_neg hkk, if_neg hsf, if_pos ⟨Nat.le_refl _, by show c.rp < m + 1 + c.rp; omega⟩]
                · intro h5; rw [hr4] at h5; cases h5



theorem sysSend_bytes (req : Bytes) (s : SockRes) (ht : s.isTransient = true) (hne : req ≠ []) :
    (∃ n w, sysSend req s = ⟨.ok n, w⟩ ∧ 1 ≤ n ∧ w.length = n) ∨ (∃ e, s = .err e ∧ sysSend req s = .fail .again) := by
  have hl := length_pos_of_ne_nil hne
  cases s with
  | full => left; exact ⟨req.length, req, rfl, hl, rfl⟩
  | short k =>
    left
    have hk : 1 ≤ k := by simpa [SockRes.isTransient] using ht
    refine ⟨min k req.length, req.take (min k req.length), rfl, by omega, ?_⟩
    rw [List.length_take]; omega
  | err e => right; exact ⟨e, rfl, by rw [sysSend_err, transient_err ht]⟩

theorem sysSend_data' (s : SockRes) (hd : s.isData = true) : ∀ e, s ≠ .err e := by
  intro e he; rw [he] at hd; simp [SockRes.isData] at hd

theorem sendData_bytes (buf : Bytes) (s : SockRes) (ht : s.isTransient = true) (hne : buf ≠ []) :
    (∃ n w, sendData false buf s = ⟨.ok n, w⟩ ∧ 1 ≤ n ∧ w.length = n) ∨
    (∃ e, s = .err e ∧ sendData false buf s = .fail .again) := by
  simp only [sendData, Bool.false_eq_true, if_false]
  apply sysSend_bytes _ s ht
  apply ne_nil_of_length_pos
  have hl := length_pos_of_ne_nil hne
  have p1 := ssizeMax_pos
  have p2 := sendMax_pos
  simp only [List.length_take]
  omega

theorem chunk_pos : 1 ≤ sendfileChunk ∧ 1 ≤ sendfileChunkThr := by decide

theorem sendSendfile_overflow (t : Bool) (file : Bytes) (fdOff pos total : Nat) (s : SockRes)
    (h : off64Max < pos + fdOff) : sendSendfile t file fdOff pos total s = ⟨.fail .again, false⟩ := by
  unfold sendSendfile; simp only []; rw [if_pos h]

theorem sendSendfile_bytes (t : Bool) (file : Bytes) (fdOff pos total : Nat) (s : SockRes)
    (h : ¬ off64Max < pos + fdOff) (ht : s.isTransient = true) (hpos : pos < file.length) (htot : pos < total) :
    (∃ n w, sendSendfile t file fdOff pos total s = ⟨⟨.ok n, w⟩, true⟩ ∧ 1 ≤ n ∧ w.length = n) ∨
    (∃ e, s = .err e ∧ sendSendfile t file fdOff pos total s = ⟨.fail .again, true⟩) := by
  unfold sendSendfile
  simp only []
  rw [if_neg h]
  cases s with
  | err e =>
    right
    refine ⟨e, rfl, ?_⟩
    have hag : (e.isEagain || e.isEintr) = true := ht
    simp only [Bool.or_eq_true] at hag
    simp only []
    rcases hag with x | x
    · simp [x]
    · by_cases y : e.isEagain = true <;> simp [x, y]
  | full =>
    left
    simp only []
    have hne : (List.take (if (if t = true then sendfileChunkThr else sendfileChunk) <
          (if ssizeMax < total - pos then ssizeMax else total - pos)
          then (if t = true then sendfileChunkThr else sendfileChunk)
          else (if ssizeMax < total - pos then ssizeMax else total - pos)) (List.drop pos file)) ≠ [] := by
      apply ne_nil_of_length_pos
      have := chunk_pos
      have := ssizeMax_pos
      simp only [List.length_take, List.length_drop]
      split <;> split <;> (try split) <;> omega
    rcases sysSend_bytes _ .full ht hne with ⟨n, w, hx, hn, hwl⟩ | ⟨e, he, _⟩
    · exact ⟨n, w, by rw [hx], hn, hwl⟩
    · cases he
  | short k =>
    left
    simp only []
    have hne : (List.take (if (if t = true then sendfileChunkThr else sendfileChunk) <
          (if ssizeMax < total - pos then ssizeMax else total - pos)
          then (if t = true then sendfileChunkThr else sendfileChunk)
          else (if ssizeMax < total - pos then ssizeMax else total - pos)) (List.drop pos file)) ≠ [] := by
      apply ne_nil_of_length_pos
      have := chunk_pos
      have := ssizeMax_pos
      simp only [List.length_take, List.length_drop]
      split <;> split <;> (try split) <;> omega
    rcases sysSend_bytes _ (.short k) ht hne with ⟨n, w, hx, hn, hwl⟩ | ⟨e, he, _⟩
    · exact ⟨n, w, by rw [hx], hn, hwl⟩
    · cases he

theorem iovMax_pos : 1 ≤ iovMax := by decide

theorem sendIovec_bytes (sent : Nat) (rest : List Bytes) (s : SockRes) (ht : s.isTransient = true)
    (hne : rest ≠ []) (hel : ∀ e ∈ rest, e ≠ []) :
    (∃ n w k l, sendIovec false sent rest s = ⟨⟨.ok n, w⟩, k, l, false⟩ ∧ 1 ≤ n ∧ w.length = n) ∨
    (∃ e, s = .err e ∧ sendIovec false sent rest s = ⟨.fail .again, sent, rest, false⟩) := by
  unfold sendIovec
  simp only [Bool.false_eq_true, if_false]
  rw [if_neg (fun x => iovMax_ne_zero x.2)]
  generalize hit : (if iovMax < rest.length then iovMax else rest.length) = items
  have hitems : 1 ≤ items := by
    have := iovMax_pos
    have := length_pos_of_ne_nil hne
    rw [← hit]; split <;> omega
  have hXne : (rest.take items).flatten ≠ [] := by
    cases rest with
    | nil => exact absurd rfl hne
    | cons e t =>
      have he := hel e (List.mem_cons_self)
      cases items with
      | zero => omega
      | succ m =>
        simp only [List.take_succ_cons, List.flatten_cons]
        intro hnil
        exact he (List.append_eq_nil_iff.mp hnil).1
  have hX : (rest.take items).flatten <+: rest.flatten := flatten_take_prefix rest items
  rcases sysSend_bytes _ s ht hXne with ⟨n, w, hx, hn, hwl⟩ | ⟨e, he, hx⟩
  · left
    rw [hx]
    simp only []
    have hspec := sysSend_spec (rest.take items).flatten s
    rw [hx] at hspec
    obtain ⟨hle, _⟩ := hspec.ok n rfl
    have hle2 : n ≤ rest.flatten.length := Nat.le_trans hle hX.length_le
    obtain ⟨k, l', h1, _, _, _⟩ := iovAdvance_spec rest n hle2
    rw [h1]
    exact ⟨n, w, sent + k, l', rfl, hn, hwl⟩
  · right
    refine ⟨e, he, ?_⟩
    rw [hx]
    rfl


theorem rank_R {r : Resp} {c : Conn} (h : c.st = .normalBodyReady) : rank r c = rankR r c := by
  unfold rank; rw [h]

theorem rp_le_tot {r : Resp} {c : Conn} (hw : WF r) (hc : Core r c) (hsb : r.sendBody = true) : c.rp ≤ c.tot := by
  have ht := hc.tot
  have hrp := hc.rpLe hsb
  have hsz := hw.size
  unfold TotOk at ht
  split at ht
  · omega
  · rcases ht with ht | ht <;> omega

theorem sysSend_pos (req : Bytes) (s : SockRes) (ht : s.isTransient = true) (hne : req ≠ []) (n : Nat)
    (h : (sysSend req s).ret = .ok n) : 1 ≤ n := sysSend_legal_pos req s (transient_legal ht) hne n h

theorem finish_out (c : Conn) : (if c.rp = c.tot then { c with st := St.fullReplySent } else c).out = c.out := by
  split <;> rfl

theorem finish_st (c : Conn) (h : c.st = .normalBodyReady) :
    (if c.rp = c.tot then { c with st := St.fullReplySent } else c).st ≠ .closed := by
  split
  · simp
  · rw [h]; decide

theorem hwNormalBody_eff {r : Resp} {c : Conn} (hw : WFp r) (h : Inv r c) (hs : c.st = .normalBodyReady)
    (s : SockRes) (hs1 : s.isTransient = true) (app : AppAns) (happ : app ≠ .err) :
    Eff r c (hwNormalBody r c s app true) ∧
    (s.isData = true → app = .ready → Strict r c (hwNormalBody r c s app true)) := by
  have hst : isNb c.st := Or.inl hs
  have hcore := h.core hst.ne_closed
  obtain ⟨hsb, hnc⟩ := h.stBody (Or.inr hs)
  have hrt := rp_le_tot hw.wf hcore hsb
  have hrank := rank_R (r := r) hs
  unfold hwNormalBody
  simp only []
  by_cases hlt : c.rp < c.tot
  · rw [if_pos hlt]
    cases hres : tryReadyNormalBody r c app true with
    | mk c' ok =>
      obtain ⟨hinv', hyes, _⟩ := tryReady_spec hw.wf h hst app true c' ok hres
      obtain ⟨hout', hyes2, hno2⟩ := tryReady_eff hw h hst app happ c' ok hres
      cases ok with
      | false =>
        simp only []
        obtain ⟨hr4, hcase⟩ := hno2 rfl
        rcases hcase with hd | ⟨hu, hsf', hnr⟩
        · have hr0 : rank r c' = 0 := by unfold rank; rw [hd]
          exact ⟨⟨by rw [hd]; decide, Or.inr ⟨hout', by rw [hr0]; exact Nat.zero_le _⟩⟩,
                 fun _ _ => Or.inr ⟨hout', by rw [hr0, hrank, hr4]; decide⟩⟩
        · have hr3 : rank r c' = 3 := by unfold rank; rw [hu]; simp [hsf']
          exact ⟨⟨by rw [hu]; decide, Or.inr ⟨hout', by rw [hr3, hrank, hr4]; decide⟩⟩,
                 fun _ ha => absurd ha hnr⟩
      | true =>
        obtain ⟨e1, e2, e3, e4, e5, hready⟩ := hyes rfl
        obtain ⟨_, hrle, hr40, hr5sf⟩ := hyes2 rfl
        have hst' : isNb c'.st := by rw [e1]; exact hst
        have hs' : c'.st = .normalBodyReady := by rw [e1]; exact hs
        have hcore' := hinv'.core hst'.ne_closed
        have hlt' : c'.rp < c'.tot := by rw [e3, e4]; exact hlt
        have hrank' := rank_R (r := r) hs'
        have h0' : ¬ (c'.tot = 0 ∨ c'.rp = c'.tot) := by omega
        have hrple := hcore'.rpLe hsb
        -- the three tails share this shape
        have hbytes : ∀ c2 : Conn, c2.st = .normalBodyReady → ∀ w : Bytes, c2.out = c'.out ++ w → 1 ≤ w.length →
            Eff r c (if c2.rp = c2.tot then { c2 with st := St.fullReplySent } else c2) ∧
            Strict r c (if c2.rp = c2.tot then { c2 with st := St.fullReplySent } else c2) := by
          intro c2 h2s w h2o hwl
          have hg : c.out.length + 1 ≤ (if c2.rp = c2.tot then { c2 with st := St.fullReplySent } else c2).out.length := by
            rw [finish_out, h2o, List.length_append, hout']; omega
          exact ⟨⟨finish_st c2 h2s, Or.inl hg⟩, Or.inl hg⟩
        have hsame : ∀ c2 : Conn, c2.st = .normalBodyReady → c2.out = c'.out → rankR r c2 ≤ rankR r c' → Eff r c c2 := by
          intro c2 h2s h2o h2r
          refine ⟨by rw [h2s]; decide, Or.inr ⟨by rw [h2o, hout'], ?_⟩⟩
          rw [rank_R h2s, hrank]; exact Nat.le_trans h2r hrle
        simp only []
        by_cases hsf : c'.sf = true
        · -- sendfile
          rw [if_pos hsf]
          have hsfr := hcore'.sfOk hsf
          have hkf := hw.wf.sf_kind hsfr
          have hkn := hw.sf_known hsfr
          have htot : c'.tot = r.body.length := by
            have := hcore'.tot; unfold TotOk at this; rw [if_pos hkn] at this; exact this
          have hkk : ¬ (r.kind = .iovec ∨ r.kind = .buffer) := by rw [hkf]; intro x; rcases x with x | x <;> cases x
          have hr5 : rankR r c' = 5 := by unfold rankR; rw [if_neg h0', if_neg hkk, if_pos hsf]
          by_cases hov : off64Max < c'.rp + r.fdOff
          · -- fall back to the standard sender, nothing sent
            rw [sendSendfile_overflow _ _ _ _ _ _ hov]
            simp only [SendOut.fail, List.append_nil]
            have hdz := hcore'.sfWin hsf
            have hr4 : rankR r { c' with out := c'.out, sf := false } = 4 := by
              unfold rankR
              rw [if_neg h0', if_neg hkk]
              simp only [Bool.false_eq_true, if_false]
              rw [if_neg (by rw [hdz]; omega)]
            have heff := hsame { c' with out := c'.out, sf := false } hs' rfl (by rw [hr4, hr5]; decide)
            refine ⟨heff, fun _ _ => Or.inr ⟨by show c'.out = c.out; exact hout', ?_⟩⟩
            rw [rank_R (c := { c' with out := c'.out, sf := false }) hs', hr4, hrank]
            have : rankR r c = 5 := by
              have := hrle; rw [hr5] at this; have := rankR_le r c; omega
            rw [this]; decide
          · rcases sendSendfile_bytes r.thrPerConn r.body r.fdOff c'.rp c'.tot s hov hs1 (by omega) hlt' with
              ⟨n, w, hx, hn1, hwl⟩ | ⟨e, he, hx⟩
            · rw [hx]
              simp only []
              have := hbytes { c' with out := c'.out ++ w, sf := true, rp := c'.rp + n } hs' w rfl (by omega)
              exact ⟨this.1, fun _ _ => this.2⟩
            · rw [hx]
              simp only [SendOut.fail, List.append_nil]
              have heff := hsame { c' with out := c'.out, sf := true } hs' rfl (by
                have : rankR r { c' with out := c'.out, sf := true } = 5 := by
                  unfold rankR; rw [if_neg h0', if_neg hkk]; simp
                rw [this, hr5]; decide)
              exact ⟨heff, fun hd => absurd he (sysSend_data' s hd e)⟩
        · rw [if_neg hsf]
          by_cases hk : r.kind = .iovec
          · -- iovec
            rw [if_pos hk]
            have hset : c'.iovSet = true := by
              rcases hready hlt' with x | x | x
              · exact absurd x hsf
              · exact x.2
              · exact absurd hk x.1
            have hio := hcore'.iovOk hk hsb
            rw [if_pos hset] at hio
            have hkn := hw.wf.known (Or.inr hk)
            have htot : c'.tot = r.body.length := by
              have := hcore'.tot; unfold TotOk at this; rw [if_pos hkn] at this; exact this
            have hne : c'.irest ≠ [] := by
              intro hnil
              rw [hnil] at hio
              have := congrArg List.length hio
              simp at this; omega
            rcases sendIovec_bytes c'.isent c'.irest s hs1 hne hcore'.iovNe with ⟨n, w, k, l, hx, hn1, hwl⟩ | ⟨e, he, hx⟩
            · rw [hx]
              simp only [Bool.false_eq_true, if_false]
              have := hbytes { c' with out := c'.out ++ w, isent := k, irest := l, rp := c'.rp + n } hs' w rfl (by omega)
              exact ⟨this.1, fun _ _ => this.2⟩
            · rw [hx]
              simp only [Bool.false_eq_true, if_false, SendOut.fail, List.append_nil]
              have heff := hsame { c' with out := c'.out, isent := c'.isent, irest := c'.irest } hs' rfl (by
                unfold rankR; exact Nat.le_refl _)
              exact ⟨heff, fun hd => absurd he (sysSend_data' s hd e)⟩
          · -- standard sender
            rw [if_neg hk]
            have hwin : c'.ds ≤ c'.rp ∧ c'.rp < c'.ds + c'.dz := by
              rcases hready hlt' with x | x | x
              · exact absurd x hsf
              · exact absurd x.1 hk
              · exact x.2
            have hbound : c'.ds + c'.dz ≤ r.body.length := by
              have := hcore'.win
              split at this
              · omega
              · exact this
            have hnf : ¬ (c'.rp < c'.ds ∨ c'.dz < c'.rp - c'.ds ∨ r.body.length < c'.ds + c'.dz) := by omega
            rw [if_neg hnf]
            have hbne : slice r.body (c'.ds + (c'.rp - c'.ds)) (c'.dz - (c'.rp - c'.ds)) ≠ [] := by
              apply ne_nil_of_length_pos
              simp only [slice, List.length_take, List.length_drop]; omega
            rcases sendData_bytes _ s hs1 hbne with ⟨n, w, hx, hn1, hwl⟩ | ⟨e, he, hx⟩
            · rw [hx]
              simp only []
              have := hbytes { c' with out := c'.out ++ w, rp := c'.rp + n } hs' w rfl (by omega)
              exact ⟨this.1, fun _ _ => this.2⟩
            · rw [hx]
              simp only [SendOut.fail, List.append_nil]
              have heff := hsame { c' with out := c'.out } hs' rfl (by unfold rankR; exact Nat.le_refl _)
              exact ⟨heff, fun hd => absurd he (sysSend_data' s hd e)⟩
  · -- nothing left but the final check
    rw [if_neg hlt]
    have heq : c.rp = c.tot := by omega
    rw [if_pos heq]
    have hr2 : rankR r c = 2 := by unfold rankR; rw [if_pos (Or.inr heq)]
    have hr1 : rank r { c with st := St.fullReplySent } = 1 := by unfold rank; rfl
    exact ⟨⟨by simp, Or.inr ⟨rfl, by rw [hr1, hrank, hr2]; decide⟩⟩,
           fun _ _ => Or.inr ⟨rfl, by rw [hr1, hrank, hr2]; decide⟩⟩


theorem handleWrite_eff {r : Resp} {c : Conn} (hw : WFp r) (h : Inv r c) (hne : c.st ≠ .closed)
    (s1 s2 : SockRes) (h1 : s1.isTransient = true) (h2 : s2.isTransient = true) (app : AppAns) (happ : app ≠ .err) :
    Eff r c (handleWrite r c s1 s2 app true) ∧
    (s1.isData = true → app = .ready →
       (c.st = .headersSending ∨ c.st = .normalBodyReady ∨ c.st = .chunkedBodyReady ∨ c.st = .footersSending) →
       Strict r c (handleWrite r c s1 s2 app true)) := by
  cases hs : c.st with
  | headersSending =>
    unfold handleWrite; rw [hs]; simp only []
    obtain ⟨e, g⟩ := hwHeaders_eff h hs s1 s2 h1 h2
    exact ⟨e, fun hd _ _ => Or.inl (g hd)⟩
  | normalBodyReady =>
    unfold handleWrite; rw [hs]; simp only []
    obtain ⟨e, g⟩ := hwNormalBody_eff hw h hs s1 h1 app happ
    exact ⟨e, fun hd ha _ => g hd ha⟩
  | chunkedBodyReady =>
    have hwb : isWbState c.st := Or.inr (Or.inl hs)
    obtain ⟨hlt, hle⟩ := h.wbuf hwb
    have hlen := (wbPending_some h hwb).2
    have hpne : slice c.wb c.so (c.ao - c.so) ≠ [] := ne_nil_of_length_pos (by rw [hlen]; omega)
    unfold handleWrite; rw [hs]; simp only [(wbPending_some h hwb).1]
    have hnx : (if c.tot = c.rp then St.chunkedBodySent else St.chunkedBodyUnready) ≠ St.closed := by split <;> decide
    obtain ⟨e, g⟩ := wbAccount_eff h hwb (sendData false (slice c.wb c.so (c.ao - c.so)) s1) _
      (sendData_spec _ s1) (sendData_transient _ s1 h1) hnx
    exact ⟨e, fun hd _ _ => Or.inl (g (sendData_data _ s1 hd hpne))⟩
  | footersSending =>
    have hwb : isWbState c.st := Or.inr (Or.inr hs)
    obtain ⟨hlt, hle⟩ := h.wbuf hwb
    have hlen := (wbPending_some h hwb).2
    have hpne : slice c.wb c.so (c.ao - c.so) ≠ [] := ne_nil_of_length_pos (by rw [hlen]; omega)
    unfold handleWrite; rw [hs]; simp only [(wbPending_some h hwb).1]
    obtain ⟨e, g⟩ := wbAccount_eff h hwb (sendData false (slice c.wb c.so (c.ao - c.so)) s1) .fullReplySent
      (sendData_spec _ s1) (sendData_transient _ s1 h1) (by decide)
    exact ⟨e, fun hd _ _ => Or.inl (g (sendData_data _ s1 hd hpne))⟩
  | headersSent =>
    unfold handleWrite; rw [hs]; simp only []
    exact ⟨Eff.refl r c hne, fun _ _ x => by rcases x with x | x | x | x <;> cases x⟩
  | normalBodyUnready =>
    unfold handleWrite; rw [hs]; simp only []
    exact ⟨Eff.refl r c hne, fun _ _ x => by rcases x with x | x | x | x <;> cases x⟩
  | chunkedBodyUnready =>
    unfold handleWrite; rw [hs]; simp only []
    exact ⟨Eff.refl r c hne, fun _ _ x => by rcases x with x | x | x | x <;> cases x⟩
  | chunkedBodySent =>
    unfold handleWrite; rw [hs]; simp only []
    exact ⟨Eff.refl r c hne, fun _ _ x => by rcases x with x | x | x | x <;> cases x⟩
  | fullReplySent =>
    unfold handleWrite; rw [hs]; simp only []
    exact ⟨Eff.refl r c hne, fun _ _ x => by rcases x with x | x | x | x <;> cases x⟩
  | done =>
    unfold handleWrite; rw [hs]; simp only []
    exact ⟨Eff.refl r c hne, fun _ _ x => by rcases x with x | x | x | x <;> cases x⟩
  | closed => exact absurd hs hne


/-- effect of `try_ready_chunked_body` when nothing fails: never closes; `none` only when the
    content reader is not ready -/
theorem tryChunk_eff {r : Resp} {c : Conn} (hw : WFp r) (h : Inv r c) (hs : c.st = .chunkedBodyUnready)
    (app : AppAns) (happ : app ≠ .err) (c' : Conn) (res : Option Bool)
    (hres : tryReadyChunkedBody r c app = (c', res)) :
    c'.out = c.out ∧ (res = none → c'.st = .chunkedBodyUnready ∧ app ≠ .ready) := by
  have hne : c.st ≠ .closed := by rw [hs]; decide
  have hcore := h.core hne
  obtain ⟨hsb, hch⟩ := h.stChunk (Or.inl hs)
  have hrp := hcore.rpLe hsb
  have hwbs := hw.wb_ok hch
  have hov : maxChunkOverhead = chunkHdrDigits + 2 + 2 := rfl
  have hmc : maxChunkHdrLen = chunkHdrDigits + 2 := rfl
  have h128 := minChunkBuf_val
  have h6 := chunkHdrDigits_val
  unfold tryReadyChunkedBody at hres
  rw [if_neg (by omega)] at hres
  simp only [] at hres
  generalize hleft : (if c.tot = sizeUnknown then sizeUnknown else c.tot - c.rp) = left at hres
  generalize hstf : (if left < sizeToFill0 r then left else sizeToFill0 r) = stf at hres
  have hs0 : 1 ≤ sizeToFill0 r := by
    unfold sizeToFill0; simp only []
    have : 0 < maxChunk := by decide
    split <;> omega
  have hstf_le : stf ≤ r.wbSize - maxChunkOverhead := by
    rw [← hstf]; have := (sizeToFill0_le r).2; split <;> omega
  -- the data case never closes
  have hdata : ∀ n, n ≠ 0 → n ≤ stf →
      (if stf < n then (closeErr c, (none : Option Bool))
       else if r.wbSize < maxChunkHdrLen + n + 2 then (setFault c, none)
       else ({ c with wb := List.replicate (maxChunkHdrLen - ((hexOf n).length + 2)) 0 ++ hexOf n ++ crlf ++ slice r.body c.rp n ++ crlf,
                      so := maxChunkHdrLen - ((hexOf n).length + 2), ao := maxChunkHdrLen + n + 2, rp := c.rp + n }, some false))
        = (c', res) → c'.out = c.out ∧ (res = none → c'.st = .chunkedBodyUnready ∧ app ≠ .ready) := by
    intro n _ hn hres'
    rw [if_neg (by omega), if_neg (by omega)] at hres'
    simp only [Prod.mk.injEq] at hres'; obtain ⟨rfl, rfl⟩ := hres'
    exact ⟨rfl, fun x => by cases x⟩
  by_cases hl0 : left = 0
  · rw [if_pos hl0] at hres
    simp only [Prod.mk.injEq] at hres; obtain ⟨rfl, rfl⟩ := hres
    exact ⟨rfl, fun x => by cases x⟩
  · rw [if_neg hl0] at hres
    have hstf1 : 1 ≤ stf := by rw [← hstf]; split <;> omega
    by_cases hwin : c.ds ≤ c.rp ∧ c.rp < c.ds + c.dz
    · rw [if_pos hwin] at hres
      generalize hn : (if stf < c.dz - (c.rp - c.ds) then stf else c.dz - (c.rp - c.ds)) = n at hres
      have hn1 : 1 ≤ n ∧ n ≤ stf := by rw [← hn]; split <;> omega
      cases n with
      | zero => omega
      | succ m =>
        simp only [] at hres
        exact hdata (m + 1) (Nat.succ_ne_zero m) hn1.2 hres
    · rw [if_neg hwin] at hres
      by_cases hk : r.kind = .buffer ∨ r.kind = .iovec
      · -- impossible: a buffer response always covers the position, an iovec response is never chunked
        exfalso
        rcases hk with hk | hk
        · have hwin2 := hcore.win
          rw [if_pos hk] at hwin2
          have ht := hcore.tot
          unfold TotOk at ht
          rw [if_pos (hw.wf.known (Or.inl hk))] at ht
          have hsz := hw.wf.size
          have : c.rp < r.body.length := by
            rw [← hleft] at hl0
            split at hl0 <;> omega
          exact hwin ⟨by omega, by omega⟩
        · exact hw.chunk_kind hch hk
      · rw [if_neg hk] at hres
        cases hcrc : crcCall r c.rp stf app with
        | err => exact absurd hcrc (crcCall_not_err happ)
        | eos =>
          rw [hcrc] at hres; simp only [Prod.mk.injEq] at hres; obtain ⟨rfl, rfl⟩ := hres
          exact ⟨rfl, fun x => by cases x⟩
        | data n =>
          rw [hcrc] at hres
          cases n with
          | zero =>
            simp only [Prod.mk.injEq] at hres; obtain ⟨rfl, rfl⟩ := hres
            refine ⟨rfl, fun _ => ⟨rfl, ?_⟩⟩
            intro hready
            subst hready
            by_cases hpos : c.rp < r.body.length
            · obtain ⟨m, hm, hm1⟩ := crcCall_ready (r := r) hpos hstf1
              rw [hm] at hcrc
              simp only [CbRes.data.injEq] at hcrc; omega
            · have : crcCall r c.rp stf .ready = .eos := by
                unfold crcCall; split <;> simp [readerGives, Nat.not_lt.mp hpos]
              rw [this] at hcrc; cases hcrc
          | succ m =>
            simp only [] at hres
            have hd := crcCall_data hcrc (Nat.succ_ne_zero m)
            exact hdata (m + 1) (Nat.succ_ne_zero m) hd.2.2 hres


def idleActive (s : St) : Prop :=
  s = .headersSent ∨ s = .normalBodyUnready ∨ s = .chunkedBodyUnready ∨ s = .chunkedBodySent ∨ s = .fullReplySent

theorem rankR_4_nosf {r : Resp} {c : Conn} (h : rankR r c = 4) : ¬ c.sf = true := by
  intro hsf
  unfold rankR at h
  by_cases h0 : c.tot = 0 ∨ c.rp = c.tot
  · rw [if_pos h0] at h; cases h
  · rw [if_neg h0] at h
    by_cases hk : r.kind = .iovec ∨ r.kind = .buffer
    · rw [if_pos hk] at h; cases h
    · rw [if_neg hk, if_pos hsf] at h; cases h

theorem rankR_nosf_cases {r : Resp} {c : Conn} (h : ¬ c.sf = true) : rankR r c = 4 ∨ rankR r c ≤ 2 := by
  unfold rankR
  by_cases h0 : c.tot = 0 ∨ c.rp = c.tot
  · rw [if_pos h0]; right; omega
  · rw [if_neg h0]
    by_cases hk : r.kind = .iovec ∨ r.kind = .buffer
    · rw [if_pos hk]; right; omega
    · rw [if_neg hk, if_neg h]
      by_cases hwin : c.ds ≤ c.rp ∧ c.rp < c.dz + c.ds
      · rw [if_pos hwin]; right; omega
      · rw [if_neg hwin]; left; rfl

theorem idleStep_eff {r : Resp} {c : Conn} (hw : WFp r) (h : Inv r c) (hne : c.st ≠ .closed)
    (app : AppAns) (happ : app ≠ .err) :
    Eff r c (idleStep r c app true) ∧ (app = .ready → idleActive c.st → Strict r c (idleStep r c app true)) := by
  have hsame : ∀ (c2 : Conn) (P : Prop), c2.out = c.out → c2.st ≠ .closed → rank r c2 < rank r c →
      Eff r c c2 ∧ (app = .ready → P → Strict r c c2) := by
    intro c2 P ho hs2 hr
    exact ⟨⟨hs2, Or.inr ⟨ho, Nat.le_of_lt hr⟩⟩, fun _ _ => Or.inr ⟨ho, hr⟩⟩
  have hidle : ∀ s, ¬ idleActive s → idleStep r c app true = c →
      Eff r c (idleStep r c app true) ∧ (app = .ready → idleActive s → Strict r c (idleStep r c app true)) := by
    intro s hna he
    rw [he]
    exact ⟨Eff.refl r c hne, fun _ x => absurd x hna⟩
  cases hs : c.st with
  | headersSent =>
    have hr7 : rank r c = 7 := by unfold rank; rw [hs]
    unfold idleStep; rw [hs]; simp only []
    split
    · split
      · refine hsame _ _ ?_ ?_ ?_
        · exact rfl
        · simp
        · rw [hr7]; unfold rank; simp
      · refine hsame _ _ ?_ ?_ ?_
        · exact rfl
        · simp
        · rw [hr7]; unfold rank; simp only []; split <;> omega
    · refine hsame _ _ ?_ ?_ ?_
      · exact rfl
      · simp
      · rw [hr7]; unfold rank; simp
  | normalBodyUnready =>
    have hst : isNb c.st := Or.inr hs
    obtain ⟨hsb, hnc⟩ := h.stBody (Or.inl hs)
    have hru : rank r c = if c.sf = true then 6 else 3 := by unfold rank; rw [hs]
    unfold idleStep; rw [hs]; simp only []
    by_cases h0 : c.tot = 0
    · rw [if_pos h0]
      simp only [hnc, Bool.false_eq_true, if_false]
      refine hsame _ _ ?_ ?_ ?_
      · exact rfl
      · simp
      -- rank
      rw [hru]; unfold rank; simp only []; split <;> omega
    · rw [if_neg h0]
      cases hres : tryReadyNormalBody r c app true with
      | mk c' ok =>
        obtain ⟨hout', hyes2, hno2⟩ := tryReady_eff hw h hst app happ c' ok hres
        cases ok with
        | true =>
          simp only [if_true]
          obtain ⟨e1, hrle, hr40, _⟩ := hyes2 rfl
          refine hsame _ _ ?_ ?_ ?_
          · exact hout'
          · simp
          -- rank
          rw [rank_R (c := { c' with st := St.normalBodyReady }) rfl, hru]
          have hrr : rankR r { c' with st := St.normalBodyReady } = rankR r c' := rfl
          rw [hrr]
          by_cases hsf : c.sf = true
          · rw [if_pos hsf]; have := rankR_le r c'; omega
          · rw [if_neg hsf]
            rcases rankR_nosf_cases (r := r) hsf with h4 | h2
            · rw [hr40 h4]; omega
            · omega
        | false =>
          simp only [Bool.false_eq_true, if_false]
          obtain ⟨hr4, hcase⟩ := hno2 rfl
          have hsf := rankR_4_nosf hr4
          rw [if_neg hsf] at hru
          rcases hcase with hd | ⟨hu, hsf', hnr⟩
          · refine hsame _ _ ?_ ?_ ?_
            · exact hout'
            · rw [hd]; decide
            -- rank
            rw [hru]; unfold rank; rw [hd]; simp
          · have hr3 : rank r c' = 3 := by unfold rank; rw [hu]; simp [hsf']
            exact ⟨⟨by rw [hu]; decide, Or.inr ⟨hout', by rw [hr3, hru]; exact Nat.le_refl _⟩⟩,
                   fun ha _ => absurd ha hnr⟩
  | chunkedBodyUnready =>
    have hr2 : rank r c = 2 := by unfold rank; rw [hs]
    unfold idleStep; rw [hs]; simp only []
    by_cases h0 : c.tot = 0 ∨ c.rp = c.tot
    · rw [if_pos h0]
      refine hsame _ _ ?_ ?_ ?_
      · exact rfl
      · simp
      · rw [hr2]; unfold rank; simp
    · rw [if_neg h0]
      cases hres : tryReadyChunkedBody r c app with
      | mk c' res =>
        obtain ⟨hout', hnone⟩ := tryChunk_eff hw h hs app happ c' res hres
        cases res with
        | none =>
          simp only []
          obtain ⟨hu, hnr⟩ := hnone rfl
          have hr2' : rank r c' = 2 := by unfold rank; rw [hu]
          exact ⟨⟨by rw [hu]; decide, Or.inr ⟨hout', by rw [hr2', hr2]; exact Nat.le_refl _⟩⟩,
                 fun ha _ => absurd ha hnr⟩
        | some fin =>
          simp only []
          refine hsame _ _ ?_ ?_ ?_
          · exact hout'
          · simp only []; split <;> decide
          -- rank
          rw [hr2]; unfold rank; simp only []
          cases fin <;> simp
  | chunkedBodySent =>
    have hr1 : rank r c = 1 := by unfold rank; rw [hs]
    unfold idleStep; rw [hs]; simp only [if_true]
    refine hsame _ _ ?_ ?_ ?_
    · exact rfl
    · simp
    · rw [hr1]; unfold rank; simp
  | fullReplySent =>
    have hr1 : rank r c = 1 := by unfold rank; rw [hs]
    unfold idleStep; rw [hs]; simp only []
    refine hsame _ _ ?_ ?_ ?_
    · exact rfl
    · simp
    · rw [hr1]; unfold rank; simp
  | headersSending =>
    exact hidle _ (by intro x; rcases x with x | x | x | x | x <;> cases x) (by unfold idleStep; rw [hs])
  | normalBodyReady =>
    exact hidle _ (by intro x; rcases x with x | x | x | x | x <;> cases x) (by unfold idleStep; rw [hs])
  | chunkedBodyReady =>
    exact hidle _ (by intro x; rcases x with x | x | x | x | x <;> cases x) (by unfold idleStep; rw [hs])
  | footersSending =>
    exact hidle _ (by intro x; rcases x with x | x | x | x | x <;> cases x) (by unfold idleStep; rw [hs])
  | done =>
    exact hidle _ (by intro x; rcases x with x | x | x | x | x <;> cases x) (by unfold idleStep; rw [hs])
  | closed => exact absurd hs hne


theorem rank_idleClosed (r : Resp) (c : Conn) : rank r (idleClosed c) = rank r c := by
  unfold idleClosed; split <;> rfl

theorem Eff.idleClosed {r : Resp} {c c' : Conn} (e : Eff r c c') : Eff r c (idleClosed c') :=
  ⟨by rw [idleClosed_st]; exact e.open_, by rw [idleClosed_out, rank_idleClosed]; exact e.mono⟩

theorem Strict.idleClosed {r : Resp} {c c' : Conn} (e : Strict r c c') : Strict r c (idleClosed c') := by
  unfold Strict; rw [idleClosed_out, rank_idleClosed]; exact e

theorem handleIdle_eff {r : Resp} {c : Conn} (hw : WFp r) (h : Inv r c) (hne : c.st ≠ .closed)
    (app : AppAns) (happ : app ≠ .err) :
    Eff r c (handleIdle r c app true) ∧ (app = .ready → idleActive c.st → Strict r c (handleIdle r c app true)) := by
  unfold handleIdle
  obtain ⟨e1, g1⟩ := idleStep_eff hw h hne app happ
  have i1 := idleStep_inv hw.wf h app true
  obtain ⟨e2, _⟩ := idleStep_eff hw i1 e1.open_ app happ
  have i2 := idleStep_inv hw.wf i1 app true
  obtain ⟨e3, _⟩ := idleStep_eff hw i2 e2.open_ app happ
  have i3 := idleStep_inv hw.wf i2 app true
  obtain ⟨e4, _⟩ := idleStep_eff hw i3 e3.open_ app happ
  exact ⟨((e1.trans e2).trans (e3.trans e4)).idleClosed,
         fun ha hi => ((g1 ha hi).trans_left (e2.trans (e3.trans e4))).idleClosed⟩

theorem nonfinal_cases {s : St} (h1 : s ≠ .closed) (h2 : s ≠ .done) :
    (s = .headersSending ∨ s = .normalBodyReady ∨ s = .chunkedBodyReady ∨ s = .footersSending) ∨ idleActive s := by
  unfold idleActive
  cases s <;> simp at *

/-- One round with transient answers only: the connection stays open and the measure does not
    grow; a productive round strictly decreases it unless the reply is already complete. -/
theorem round_eff {r : Resp} {c : Conn} (hw : WFp r) (h : Inv r c) (hne : c.st ≠ .closed) (x : Round)
    (hx : x.transient) :
    Eff r c (round r c x) ∧ (x.good → c.st ≠ .done → Strict r c (round r c x)) := by
  obtain ⟨t1, t2, ta, tb, tc, td⟩ := hx
  unfold round
  rw [tc, td]
  by_cases hwr : x.wr = true
  · rw [if_pos hwr]
    obtain ⟨ew, gw⟩ := handleWrite_eff hw h hne x.s1 x.s2 t1 t2 x.appW ta
    have iw := handleWrite_inv hw.wf h x.s1 x.s2 (transient_legal t2) x.appW true
    obtain ⟨ei, gi⟩ := handleIdle_eff hw iw ew.open_ x.appI tb
    refine ⟨ew.trans ei, fun hg hnd => ?_⟩
    obtain ⟨_, g1, g2, g3, g4, _, _⟩ := hg
    rcases nonfinal_cases hne hnd with hwa | hia
    · exact (gw g1 g3 hwa).trans_left ei
    · -- handle_write does nothing in these states
      have hid : handleWrite r c x.s1 x.s2 x.appW true = c := by
        unfold handleWrite
        rcases hia with e | e | e | e | e <;> rw [e]
      rw [hid] at ei gi ⊢
      exact gi g4 hia
  · rw [if_neg hwr]
    obtain ⟨ei, _⟩ := handleIdle_eff hw h hne x.appI tb
    exact ⟨ei, fun hg _ => absurd hg.1 hwr⟩

instance : DecidablePred Round.good := fun x => by unfold Round.good; exact inferInstance

instance : DecidablePred Round.transient := fun x => by unfold Round.transient; exact inferInstance

/-- number of productive rounds in a script -/
def countGood (xs : List Round) : Nat := xs.countP (fun x => decide x.good)

/-- Transient-only scripts: the connection is never closed, and the measure pays for every
    productive round until the reply is complete. -/
theorem run_progress {r : Resp} (hw : WFp r) : ∀ (xs : List Round) (c : Conn), Inv r c → c.st ≠ .closed →
    (∀ x ∈ xs, x.transient) →
    (run r c xs).st ≠ .closed ∧ ((run r c xs).st = .done ∨ mu r (run r c xs) + countGood xs ≤ mu r c)
  | [], c, _, hne, _ => ⟨hne, Or.inr (by simp [run, countGood])⟩
  | x :: xs, c, h, hne, hx => by
    have hxt := hx x (List.mem_cons_self)
    obtain ⟨e, g⟩ := round_eff hw h hne x hxt
    have h1 := round_inv hw.wf h x hxt.legal
    have ih := run_progress hw xs (round r c x) h1 e.open_ (fun y hy => hx y (List.mem_cons_of_mem _ hy))
    have hrun : run r c (x :: xs) = run r (round r c x) xs := by simp [run]
    rw [hrun]
    refine ⟨ih.1, ?_⟩
    rcases ih.2 with hd | hm
    · exact Or.inl hd
    · by_cases hdone : c.st = .done
      · left
        have hst : (idleClosed c).st = .closed ∨ (idleClosed c).st = .done :=
          Or.inr (by rw [idleClosed_st]; exact hdone)
        rw [round_final x (Or.inr hdone)]
        rcases run_final (r := r) xs (idleClosed c) hst with e' | e' <;> rw [e'] <;>
          simp only [idleClosed_st] <;> exact hdone
      · right
        have hle := e.mu_le h1
        unfold countGood at hm ⊢
        rw [List.countP_cons]
        by_cases hg : x.good
        · have hlt := (g hg hdone).mu_lt h1
          simp only [hg, decide_true, if_true]
          omega
        · simp only [hg, decide_false, Bool.false_eq_true, if_false]
          omega

theorem mu_start (r : Resp) : mu r (startReply r true) = 8 * (stream r).length := by
  simp [mu, startReply, initConn, rank]


end Mhd.Send
