/-
  C11 — a suspended connection is frozen: `frozen_step`.  For every operation of the daemon
  model, a connection that sits in the suspended list without a pending (or scheduled) resume
  request keeps its whole processing state, gets no event and stays in the suspended list —
  it is in no list the event loops traverse (`WF`), and a `send` of its client only grows
  the socket's receive queue.
-/
import Mhd.Proofs.SuspDaemon
namespace Mhd.Susp

/-- the processing state of a connection: everything but the socket's receive queue, the
    ghost copy of what the client sent, the script thread's timer and the per-turn flag `dres` -/
def Conn.core (k : Conn) : Conn := { k with inbox := [], sent := [], timer := none, dres := false }

/-- `c` is suspended and nobody has asked to resume it -/
def Frz (c : Nat) (d : Daemon) : Prop := c ∈ d.susp ∧ (d.conn c).resuming = false

/-- a daemon-level step leaves the suspended connection `c` alone -/
def FZ (c : Nat) (d : Daemon) (evs : List Ev) (d' : Daemon) : Prop :=
  WF d → Frz c d →
    WF d' ∧ (∀ a, Known d a → Known d' a) ∧ proj c evs = [] ∧ Frz c d' ∧ (d'.conn c).core = (d.conn c).core ∧
    (d'.conn c).inbox = (d.conn c).inbox

theorem FZ_rel (c : Nat) : DRel (FZ c) where
  refl := fun _ hw hf => ⟨hw, fun _ h => h, rfl, hf, rfl, rfl⟩
  trans := by
    intro d e1 d1 e2 d2 h1 h2 hw hf
    have a := h1 hw hf
    have b := h2 a.1 a.2.2.2.1
    refine ⟨b.1, fun x hx => b.2.1 x (a.2.1 x hx), ?_, b.2.2.2.1, b.2.2.2.2.1.trans a.2.2.2.2.1, b.2.2.2.2.2.trans a.2.2.2.2.2⟩
    rw [proj_append, a.2.2.1, b.2.2.1]; rfl

/-- from a `WK` fact plus "the record of `c` is not touched and `c` stays in the suspended list" -/
theorem FZ_of_WK {c : Nat} {d d' : Daemon} {evs : List Ev} (hwk : WK d evs d')
    (hp : WF d → Frz c d → proj c evs = []) (hconn : WF d → Frz c d → d'.conn c = d.conn c) (hs : WF d → Frz c d → c ∈ d'.susp) :
    FZ c d evs d' := by
  intro hw hf
  have a := hwk hw
  have e := hconn hw hf
  exact ⟨a.1, a.2, hp hw hf, ⟨hs hw hf, by rw [e]; exact hf.2⟩, by rw [e], by rw [e]⟩

theorem sync_susp_mem (d : Daemon) (a c : Nat) (h : c ∈ d.susp) : c ∈ (sync d a).susp := by
  unfold sync
  simp only []
  split <;> split <;> (try split) <;> simp_all

theorem FZ_turnWith (c : Nat) (f : Conn → Conn × List CEv) (hf : ∀ k, FrS k (f k).1)
    (hfs : ∀ k, k.suspended = true → f k = (k, [])) (d : Daemon) (a : Nat) (hka : Known d a) (hne : a ≠ c) :
    FZ c d (turnWith f d a).2 (turnWith f d a).1 := by
  apply FZ_of_WK (fun hw => WF_turnWith f hf hfs hw hka)
  · intro _ _; rw [turnWith_evs]; exact proj_tag_ne hne _
  · intro _ _; rw [turnWith_conn]; exact setConn_ne _ _ (Ne.symm hne)
  · intro _ h
    simp only [turnWith]
    exact sync_susp_mem _ a c h.1

theorem FZ_turn (g : Guards) (hg : g.Sound) (c : Nat) (d : Daemon) (a : Nat) (rr wr : Bool) (hka : Known d a) (hne : a ≠ c) :
    FZ c d (turn g d a rr wr).2 (turn g d a rr wr).1 :=
  FZ_turnWith c _ (FrS_callHandlers g hg d.isEpoll rr wr) (callHandlers_suspended g hg d.isEpoll rr wr) d a hka hne

theorem FZ_idleTurn (g : Guards) (hg : g.Sound) (c : Nat) (d : Daemon) (a : Nat) (hka : Known d a) (hne : a ≠ c) :
    FZ c d (idleTurn g d a).2 (idleTurn g d a).1 :=
  FZ_turnWith c _ (Fr_handleIdle g hg.2.2.2.2.2.2.2 d.isEpoll) (handleIdle_suspended g hg d.isEpoll) d a hka hne

theorem FZ_travSelect (g : Guards) (hg : g.Sound) (c : Nat) (fr fw rd wr : Nat → Bool) :
    ∀ (l : List Nat) (d : Daemon), (∀ a ∈ l, Known d a ∧ a ≠ c) →
      FZ c d (travSelect g fr fw rd wr l d).2 (travSelect g fr fw rd wr l d).1 := by
  intro l
  induction l with
  | nil => intro d _; exact (FZ_rel c).refl d
  | cons a rest ih =>
    intro d hl
    simp only [travSelect]
    have ha := hl a List.mem_cons_self
    have h1 := FZ_turn g hg c d a (fr a && rd a) (fw a && wr a) ha.1 ha.2
    split
    · exact h1
    · intro hw hf
      have x := h1 hw hf
      have y := ih _ (fun b hb => ⟨x.2.1 b (hl b (List.mem_cons_of_mem _ hb)).1, (hl b (List.mem_cons_of_mem _ hb)).2⟩)
      exact (FZ_rel c).trans _ _ _ _ _ h1 y hw hf

theorem FZ_travAll (g : Guards) (hg : g.Sound) (c : Nat) (fr fw rd wr : Nat → Bool) :
    ∀ (l : List Nat) (d : Daemon), (∀ a ∈ l, Known d a ∧ a ≠ c) →
      FZ c d (travAll g fr fw rd wr l d).2 (travAll g fr fw rd wr l d).1 := by
  intro l
  induction l with
  | nil => intro d _; exact (FZ_rel c).refl d
  | cons a rest ih =>
    intro d hl
    simp only [travAll]
    have ha := hl a List.mem_cons_self
    have h1 := FZ_turn g hg c d a (fr a && rd a) (fw a && wr a) ha.1 ha.2
    intro hw hf
    have x := h1 hw hf
    have y := ih _ (fun b hb => ⟨x.2.1 b (hl b (List.mem_cons_of_mem _ hb)).1, (hl b (List.mem_cons_of_mem _ hb)).2⟩)
    exact (FZ_rel c).trans _ _ _ _ _ h1 y hw hf

theorem sync_susp_eq_of_unsusp (d : Daemon) (a : Nat) (h : (d.conn a).suspended = false) : (sync d a).susp = d.susp := by
  unfold sync
  simp only [h, Bool.false_and, Bool.false_eq_true, if_false]
  split
  · rfl
  · split <;> rfl

theorem FZ_ereadyPost (c : Nat) (d : Daemon) (a : Nat) (hne : a ≠ c) : FZ c d [] (ereadyPost d a) := by
  apply FZ_of_WK (WK_ereadyPost d a) (fun _ _ => rfl)
  · intro _ _
    simp only [ereadyPost]
    split
    · rw [sync_conn]; exact setConn_ne _ _ (Ne.symm hne)
    · rfl
  · intro _ h
    simp only [ereadyPost]
    split
    · exact sync_susp_mem _ a c h.1
    · exact h.1

theorem FZ_travEready (g : Guards) (hg : g.Sound) (c : Nat) :
    ∀ (l : List Nat) (d : Daemon), (∀ a ∈ l, Known d a ∧ a ≠ c) →
      FZ c d (travEready g l d).2 (travEready g l d).1 := by
  intro l
  induction l with
  | nil => intro d _; exact (FZ_rel c).refl d
  | cons a rest ih =>
    intro d hl
    simp only [travEready]
    have ha := hl a List.mem_cons_self
    have h1 := FZ_turn g hg c d a (d.conn a).readReady (d.conn a).writeReady ha.1 ha.2
    have h2 := FZ_ereadyPost c (turn g d a (d.conn a).readReady (d.conn a).writeReady).1 a ha.2
    have h12 := (FZ_rel c).trans _ _ _ _ _ h1 h2
    intro hw hf
    have x := h12 hw hf
    have y := ih _ (fun b hb => ⟨x.2.1 b (hl b (List.mem_cons_of_mem _ hb)).1, (hl b (List.mem_cons_of_mem _ hb)).2⟩)
    have := (FZ_rel c).trans _ _ _ _ _ h12 y hw hf
    simpa using this

theorem FZ_resumeReq (c : Nat) (d : Daemon) (a : Nat) (hne : a ≠ c) : FZ c d (resumeReq d a).2 (resumeReq d a).1 := by
  apply FZ_of_WK (WK_resumeReq d a)
  · intro _ _; simp only [resumeReq]; exact proj_cons_ne hne _ _
  · intro _ _; simp only [resumeReq]; exact setConn_ne _ _ (Ne.symm hne)
  · intro _ h; exact h.1

/-- an update of the record of `a ≠ c` that keeps the flags of `a` -/
theorem FZ_setOther (c : Nat) (d : Daemon) (a : Nat) (k : Conn) (hne : a ≠ c)
    (hs : k.suspended = (d.conn a).suspended) (hr : k.resuming = (d.conn a).resuming) :
    FZ c d [] { d with conn := setConn d.conn a k } := by
  apply FZ_of_WK (WK_of_eq (fun hw => ⟨WF_setConn_same_flags hw a k hs (fun h => Or.inl (hr ▸ h)), rfl, rfl⟩)) (fun _ _ => rfl)
  · intro _ _; exact setConn_ne _ _ (Ne.symm hne)
  · intro _ h; exact h.1

/-- an update of the record of `c` itself that keeps its core and its flags -/
theorem FZ_setSelf (c : Nat) (d : Daemon) (k : Conn) (hcore : k.core = (d.conn c).core) (hi : k.inbox = (d.conn c).inbox) :
    FZ c d [] { d with conn := setConn d.conn c k } := by
  intro hw hf
  have hs : k.suspended = (d.conn c).suspended := congrArg (fun x => x.suspended) hcore
  have hr : k.resuming = (d.conn c).resuming := congrArg (fun x => x.resuming) hcore
  have a := WF_setConn_same_flags hw c k hs (fun h => Or.inl (hr ▸ h))
  refine ⟨a, fun _ h => h, rfl, ⟨hf.1, ?_⟩, ?_, ?_⟩
  · show (setConn d.conn c k c).resuming = false
    rw [setConn_same, hr]; exact hf.2
  · show (setConn d.conn c k c).core = _
    rw [setConn_same]; exact hcore
  · show (setConn d.conn c k c).inbox = _
    rw [setConn_same]; exact hi

theorem FZ_timerScan (c : Nat) : ∀ (l : List Nat) (d : Daemon), l.Nodup → ((d.conn c).timer ≠ some 0 ∨ c ∉ l) →
    FZ c d (timerScan l d).2 (timerScan l d).1 := by
  intro l
  induction l with
  | nil => intro d _ _; exact (FZ_rel c).refl d
  | cons a rest ih =>
    intro d hnd ht
    have hnd' := List.nodup_cons.1 hnd
    by_cases hac : a = c
    · subst hac
      have ht' : (d.conn a).timer ≠ some 0 := by
        rcases ht with h | h
        · exact h
        · exact absurd List.mem_cons_self h
      simp only [timerScan]
      split
      · next h => exact absurd h ht'
      · next n h =>
        have h1 := FZ_setSelf a d { (d.conn a) with timer := some n } rfl rfl
        have h2 := ih { d with conn := setConn d.conn a { (d.conn a) with timer := some n } } hnd'.2 (Or.inr hnd'.1)
        have := (FZ_rel a).trans _ _ _ _ _ h1 h2
        simpa using this
      · exact ih d hnd'.2 (Or.inr hnd'.1)
    · have ht2 : ∀ (d2 : Daemon), d2.conn c = d.conn c → ((d2.conn c).timer ≠ some 0 ∨ c ∉ rest) := by
        intro d2 e
        rcases ht with h | h
        · exact Or.inl (by rw [e]; exact h)
        · exact Or.inr (fun hm => h (List.mem_cons_of_mem _ hm))
      simp only [timerScan]
      split
      · have h1 := FZ_setOther c d a { (d.conn a) with timer := none } hac rfl rfl
        have h2 := FZ_resumeReq c { d with conn := setConn d.conn a { (d.conn a) with timer := none } } a hac
        have h3 := ih (resumeReq { d with conn := setConn d.conn a { (d.conn a) with timer := none } } a).1 hnd'.2
          (ht2 _ (by
            simp only [resumeReq]
            rw [setConn_ne _ _ (Ne.symm hac)]
            exact setConn_ne _ _ (Ne.symm hac)))
        have := (FZ_rel c).trans _ _ _ _ _ ((FZ_rel c).trans _ _ _ _ _ h1 h2) h3
        simpa using this
      · next n _ =>
        have h1 := FZ_setOther c d a { (d.conn a) with timer := some n } hac rfl rfl
        have h3 := ih { d with conn := setConn d.conn a { (d.conn a) with timer := some n } } hnd'.2
          (ht2 _ (setConn_ne _ _ (Ne.symm hac)))
        have := (FZ_rel c).trans _ _ _ _ _ h1 h3
        simpa using this
      · exact ih d hnd'.2 (ht2 d rfl)

theorem resumeScan_frame (g : Guards) (c : Nat) : ∀ (l : List Nat) (d : Daemon),
    (d.conn c).resuming = false → c ∈ d.susp →
    (resumeScan g l d).1.conn c = d.conn c ∧ c ∈ (resumeScan g l d).1.susp ∧ proj c (resumeScan g l d).2 = [] := by
  intro l
  induction l with
  | nil => intro d _ hs; exact ⟨rfl, hs, rfl⟩
  | cons a rest ih =>
    intro d hr hs
    simp only [resumeScan]
    split
    · next hres =>
      have hac : a ≠ c := by intro e; subst e; simp [hr] at hres
      have e : (moveBack g d a).conn c = d.conn c := moveBack_conn_ne g d (Ne.symm hac)
      have r := ih (moveBack g d a) (by rw [e]; exact hr)
        (by simp only [moveBack]; exact (List.mem_erase_of_ne (Ne.symm hac)).2 hs)
      exact ⟨r.1.trans e, r.2.1, by rw [proj_cons_ne hac]; exact r.2.2⟩
    · exact ih d hr hs

theorem FZ_resumeSuspended (g : Guards) (c : Nat) : DSat (FZ c) (resumeSuspended g) := by
  intro d
  apply FZ_of_WK (WK_resumeSuspended g d)
  · intro _ hf
    simp only [resumeSuspended]
    split
    · exact (resumeScan_frame g c d.susp.reverse { d with resuming := false } hf.2 hf.1).2.2
    · rfl
  · intro _ hf
    simp only [resumeSuspended]
    split
    · exact (resumeScan_frame g c d.susp.reverse { d with resuming := false } hf.2 hf.1).1
    · rfl
  · intro _ hf
    simp only [resumeSuspended]
    split
    · exact (resumeScan_frame g c d.susp.reverse { d with resuming := false } hf.2 hf.1).2.1
    · exact hf.1

theorem processNew_frame (c : Nat) : ∀ (l : List Nat) (d : Daemon), c ∉ l →
    (processNew l d).1.conn c = d.conn c ∧ (processNew l d).1.susp = d.susp ∧ proj c (processNew l d).2 = [] := by
  intro l
  induction l with
  | nil => intro d _; exact ⟨rfl, rfl, rfl⟩
  | cons a rest ih =>
    intro d hc
    simp only [processNew]
    have hac : a ≠ c := fun e => hc (e ▸ List.mem_cons_self)
    have r := ih { d with conn := setConn d.conn a { (d.conn a) with eli := Eli.read, inSet := d.isEpoll },
                          active := a :: d.active, normalTO := a :: d.normalTO } (fun hm => hc (List.mem_cons_of_mem _ hm))
    refine ⟨r.1.trans (setConn_ne _ _ (Ne.symm hac)), r.2.1, ?_⟩
    rw [proj_cons_ne hac]; exact r.2.2

theorem FZ_newPhase (c : Nat) : DSat (FZ c) newPhase := by
  intro d
  have hn : WF d → Frz c d → c ∉ d.newConns := fun hw hf hm => (hw.new_fresh c hm).2 hf.1
  apply FZ_of_WK (WK_newPhase d)
  · intro hw hf; exact (processNew_frame c d.newConns { d with pending := false } (hn hw hf)).2.2
  · intro hw hf; exact (processNew_frame c d.newConns { d with pending := false } (hn hw hf)).1
  · intro hw hf
    simp only [newPhase]
    rw [(processNew_frame c d.newConns { d with pending := false } (hn hw hf)).2.1]; exact hf.1

theorem epollEvents_frame (c : Nat) : ∀ (l : List (Nat × Bool × Bool)) (d : Daemon), c ∉ d.active → c ∈ d.susp →
    (epollEvents l d).conn c = d.conn c ∧ c ∈ (epollEvents l d).susp ∧ c ∉ (epollEvents l d).active := by
  intro l
  induction l with
  | nil => intro d h1 h2; exact ⟨rfl, h2, h1⟩
  | cons e rest ih =>
    intro d h1 h2
    obtain ⟨a, i, o⟩ := e
    simp only [epollEvents]
    split
    · exact ih d h1 h2
    · next hcond =>
      have hca : a ∈ d.active := by
        simp only [Bool.or_eq_true, Bool.not_eq_true', not_or, Bool.not_eq_false] at hcond
        exact List.contains_iff_mem.1 hcond.2
      have hac : a ≠ c := fun e => h1 (e ▸ hca)
      have hact : (sync { d with conn := setConn d.conn a (epollMark (d.conn a) i o) } a).active ⊆ d.active := by
        unfold sync; simp only []
        split <;> split <;> (try split) <;> intro x hx <;> first | exact hx | exact List.mem_of_mem_erase hx
      have r := ih (sync { d with conn := setConn d.conn a (epollMark (d.conn a) i o) } a)
        (fun hm => h1 (hact hm)) (sync_susp_mem _ a c h2)
      refine ⟨r.1.trans ?_, r.2.1, r.2.2⟩
      rw [sync_conn]; exact setConn_ne _ _ (Ne.symm hac)

theorem not_active_of_frz {c : Nat} {d : Daemon} (hw : WF d) (hf : Frz c d) : c ∉ d.active :=
  fun hm => hw.act_nosusp c hm hf.1

/-- `f` followed by a traversal whose list is taken from the state `f` produced -/
theorem FZ_active_trav (c : Nat) {T : List Nat → Daemon → Daemon × List Ev}
    (hT : ∀ (l : List Nat) (d : Daemon), (∀ a ∈ l, Known d a ∧ a ≠ c) → FZ c d (T l d).2 (T l d).1) :
    DSat (FZ c) (fun d => T d.active.reverse d) := by
  intro d hw hf
  have hna := not_active_of_frz hw hf
  exact hT d.active.reverse d (fun a ha => ⟨Or.inl (List.mem_reverse.1 ha), fun e => hna (e ▸ List.mem_reverse.1 ha)⟩) hw hf

theorem FZ_roundSelect (g : Guards) (hg : g.Sound) (c : Nat) (ids : List Nat) (rd wr : Nat → Bool) (d : Daemon)
    (hnd : ids.Nodup) (ht : (d.conn c).timer ≠ some 0) :
    FZ c d (roundSelect g d ids rd wr).2 (roundSelect g d ids rd wr).1 := by
  simp only [roundSelect]
  refine dsat_bindD (FZ_rel c) (FZ_active_trav c (FZ_travSelect g hg c _ _ rd wr)) ?_
  refine dsat_bindD (FZ_rel c) (FZ_newPhase c) ?_
  exact dsat_bindD (FZ_rel c) (FZ_resumeSuspended g c) (FZ_timerScan c ids d hnd (Or.inl ht))

theorem FZ_pollPhase (g : Guards) (hg : g.Sound) (c : Nat) (rd wr : Nat → Bool) : DSat (FZ c) (pollPhase g rd wr) := by
  intro d hw hf
  simp only [pollPhase]
  have hna := not_active_of_frz hw hf
  have a := FZ_newPhase c d hw hf
  have b := FZ_travAll g hg c (fun c => (d.conn c).eli.hasRead) (fun c => (d.conn c).eli == .write) rd wr d.active.reverse
    (newPhase d).1 (fun x hx => ⟨a.2.1 x (Or.inl (List.mem_reverse.1 hx)), fun e => hna (e ▸ List.mem_reverse.1 hx)⟩)
  simp only [bindD]
  exact (FZ_rel c).trans _ _ _ _ _ (FZ_newPhase c d) b hw hf

theorem FZ_roundPoll (g : Guards) (hg : g.Sound) (c : Nat) (ids : List Nat) (rd wr : Nat → Bool) (d : Daemon)
    (hnd : ids.Nodup) (ht : (d.conn c).timer ≠ some 0) :
    FZ c d (roundPoll g d ids rd wr).2 (roundPoll g d ids rd wr).1 := by
  simp only [roundPoll]
  refine dsat_bindD (FZ_rel c) (FZ_pollPhase g hg c rd wr) ?_
  exact dsat_bindD (FZ_rel c) (FZ_resumeSuspended g c) (FZ_timerScan c ids d hnd (Or.inl ht))

theorem FZ_timeoutScan (g : Guards) (hg : g.Sound) (c : Nat) : DSat (FZ c) (timeoutScan g) := by
  intro d hw hf
  simp only [timeoutScan]
  split
  · next a ha =>
    have hact : a ∈ d.active := hw.to_sub a (List.mem_of_getLast? ha)
    exact FZ_idleTurn g hg c d a (Or.inl hact) (fun e => not_active_of_frz hw hf (e ▸ hact)) hw hf
  · exact (FZ_rel c).refl d hw hf

theorem FZ_ereadyTrav (g : Guards) (hg : g.Sound) (c : Nat) : DSat (FZ c) (fun d => travEready g d.eready.reverse d) := by
  intro d hw hf
  have hna := not_active_of_frz hw hf
  exact FZ_travEready g hg c d.eready.reverse d
    (fun a ha => ⟨Or.inl (hw.er_sub a (List.mem_reverse.1 ha)), fun e => hna (e ▸ hw.er_sub a (List.mem_reverse.1 ha))⟩) hw hf

theorem FZ_epollPhase (c : Nat) (evs : List (Nat × Bool × Bool)) :
    DSat (FZ c) (pureD (fun d => epollEvents evs { d with pending := false })) := by
  intro d
  simp only [pureD]
  have hwk : WK d [] (epollEvents evs { d with pending := false }) := by
    have h3 : WK d [] { d with pending := false } :=
      WK_of_eq (fun hw => ⟨⟨hw.susp_iff, hw.act_nosusp, hw.nd_active, hw.nd_susp, hw.er_sub, hw.to_sub, hw.new_fresh,
        hw.nd_new, hw.nd_eready, hw.nd_to, hw.no_lost⟩, rfl, rfl⟩)
    have := WK_rel.trans _ _ _ _ _ h3 (WK_epollEvents evs { d with pending := false })
    simpa using this
  apply FZ_of_WK hwk (fun _ _ => rfl)
  · intro hw hf
    exact (epollEvents_frame c evs { d with pending := false } (fun hm => hw.act_nosusp c hm hf.1) hf.1).1
  · intro hw hf
    exact (epollEvents_frame c evs { d with pending := false } (fun hm => hw.act_nosusp c hm hf.1) hf.1).2.1

theorem FZ_roundEpoll (g : Guards) (hg : g.Sound) (c : Nat) (ids : List Nat) (evs : List (Nat × Bool × Bool)) (d : Daemon)
    (hnd : ids.Nodup) (ht : (d.conn c).timer ≠ some 0) :
    FZ c d (roundEpoll g d ids evs).2 (roundEpoll g d ids evs).1 := by
  simp only [roundEpoll]
  refine dsat_bindD (FZ_rel c) (FZ_ereadyTrav g hg c) ?_
  refine dsat_bindD (FZ_rel c) (FZ_timeoutScan g hg c) ?_
  refine dsat_bindD (FZ_rel c) (FZ_newPhase c) ?_
  refine dsat_bindD (FZ_rel c) (FZ_epollPhase c evs) ?_
  exact dsat_bindD (FZ_rel c) (FZ_resumeSuspended g c) (FZ_timerScan c ids d hnd (Or.inl ht))

/-- While a connection is suspended and nobody has asked (or is scheduled) to resume it, no
    operation touches its processing state, emits an event for it, or moves it out of the
    suspended list; a `send` of its client only grows the socket's receive queue. -/
theorem frozen_step (g : Guards) (hg : g.Sound) (d : Daemon) (hw : WF d) (c : Nat) (hf : Frz c d)
    (ht : (d.conn c).timer ≠ some 0) (op : Op)
    (hop : match op with
      | .resume c' => c' ≠ c
      | .round ids _ _ => ids.Nodup
      | .eround ids _ => ids.Nodup
      | _ => True) :
    proj c (step g d op).2 = [] ∧ Frz c (step g d op).1 ∧ ((step g d op).1.conn c).core = (d.conn c).core ∧
    ((step g d op).1.conn c).inbox = (d.conn c).inbox ++ (match op with | .send c' syms => if c' = c then syms else [] | _ => []) := by
  cases op with
  | arrive a =>
    simp only [step]
    split
    · exact ⟨rfl, hf, rfl, by simp⟩
    · exact ⟨rfl, hf, rfl, by simp⟩
  | send a syms =>
    simp only [step]
    by_cases hac : a = c
    · subst hac
      refine ⟨rfl, ⟨hf.1, ?_⟩, ?_, ?_⟩
      · show (setConn d.conn a _ a).resuming = false
        rw [setConn_same]; exact hf.2
      · show (setConn d.conn a _ a).core = _
        rw [setConn_same]; rfl
      · show (setConn d.conn a _ a).inbox = _
        rw [setConn_same]; simp
    · have hca : c ≠ a := Ne.symm hac
      refine ⟨rfl, ⟨hf.1, ?_⟩, ?_, ?_⟩
      · show (setConn d.conn a _ c).resuming = false
        rw [setConn_ne _ _ hca]; exact hf.2
      · show (setConn d.conn a _ c).core = _
        rw [setConn_ne _ _ hca]
      · show (setConn d.conn a _ c).inbox = _
        rw [setConn_ne _ _ hca]; simp [hac]
  | resume a =>
    simp only [step, resumeReq]
    have hca : c ≠ a := Ne.symm hop
    refine ⟨proj_cons_ne hop _ _, ⟨hf.1, ?_⟩, ?_, ?_⟩
    · show (setConn (setConn d.conn a _) a _ c).resuming = false
      rw [setConn_ne _ _ hca, setConn_ne _ _ hca]; exact hf.2
    · show (setConn (setConn d.conn a _) a _ c).core = _
      rw [setConn_ne _ _ hca, setConn_ne _ _ hca]
    · show (setConn (setConn d.conn a _) a _ c).inbox = _
      rw [setConn_ne _ _ hca, setConn_ne _ _ hca]; simp
  | round ids rd wr =>
    simp only [step]
    split
    · have r := FZ_roundSelect g hg c ids rd wr d hop ht hw hf
      exact ⟨r.2.2.1, r.2.2.2.1, r.2.2.2.2.1, by simpa using r.2.2.2.2.2⟩
    · have r := FZ_roundPoll g hg c ids rd wr d hop ht hw hf
      exact ⟨r.2.2.1, r.2.2.2.1, r.2.2.2.2.1, by simpa using r.2.2.2.2.2⟩
    · exact ⟨rfl, hf, rfl, by simp⟩
  | eround ids evs =>
    simp only [step]
    split
    · have r := FZ_roundEpoll g hg c ids evs d hop ht hw hf
      exact ⟨r.2.2.1, r.2.2.2.1, r.2.2.2.2.1, by simpa using r.2.2.2.2.2⟩
    · exact ⟨rfl, hf, rfl, by simp⟩

end Mhd.Susp
