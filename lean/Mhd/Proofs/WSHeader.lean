/-
  C19 helper lemmas, part 13: the header phase of the decoder on explicit header bytes
  (used for the round-trip theorem).
-/
import Mhd.Proofs.WSSplit
namespace Mhd.WS

/-! ### the header phase: `frame_header` as "bytes stored so far ++ old tail" -/

/-- `frame_header` after the bytes `p` were stored from index 0 on -/
def hp (t p : List UInt8) : List UInt8 := p ++ t.drop p.length

theorem hp_nil (t : List UInt8) : hp t [] = t := by simp [hp]

theorem hp_length (t p : List UInt8) (h : p.length ≤ t.length) : (hp t p).length = t.length := by
  simp only [hp, List.length_append, List.length_drop]; omega

theorem hp_set (t p : List UInt8) (b : UInt8) (h : p.length < t.length) :
    (hp t p).set p.length b = hp t (p ++ [b]) := by
  unfold hp
  rw [List.set_append_right _ _ (Nat.le_refl _)]
  simp only [Nat.sub_self, List.length_append, List.length_cons, List.length_nil, List.append_assoc]
  congr 1
  have : (t.drop p.length) = t[p.length] :: t.drop (p.length + 1) := by
    rw [List.drop_eq_getElem_cons h]
  rw [this]
  rfl

theorem hp_get (t p : List UInt8) (i : Nat) (h : i < p.length) : (hp t p)[i]? = p[i]? := by
  unfold hp; rw [List.getElem?_append_left h]

theorem hp_drop_take (t p : List UInt8) (off k : Nat) (h : off + k ≤ p.length) :
    ((hp t p).drop off).take k = (p.drop off).take k := by
  unfold hp
  rw [List.drop_append_of_le_length (by omega), List.take_append_of_le_length (by simp only [List.length_drop]; omega)]

/-- the decoder state while a frame header is read: only these six fields of `ws` change -/
def hdrPhase (ws : WS) (p : List UInt8) (step psz : Nat) (key : List UInt8) (v : Nat) : WS :=
  { ws with hdr := hp ws.hdr p, hdrSize := p.length, step := step, payloadSize := psz, maskKey := key, validity := v }

theorem pushHdr_phase (ws : WS) (p : List UInt8) (s psz : Nat) (key : List UInt8) (v : Nat) (b : UInt8)
    (hl : ws.hdr.length = 32) (hp32 : p.length < 32) :
    pushHdr (hdrPhase ws p s psz key v) b = some (hdrPhase ws (p ++ [b]) s psz key v) := by
  unfold pushHdr hdrPhase
  simp only [hp_length _ _ (by omega : p.length ≤ ws.hdr.length), hl, hp32, if_true,
    hp_set _ _ _ (by omega : p.length < ws.hdr.length), List.length_append, List.length_cons, List.length_nil]

end Mhd.WS
namespace Mhd.WS

theorem afterLength_phase (ws : WS) (p : List UInt8) (s psz : Nat) (key : List UInt8) (v size : Nat) (masked : Bool) :
    afterLength (hdrPhase ws p s psz key v) size masked =
      if masked then hdrPhase ws p 12 size key v else hdrPhase ws p 16 size [0, 0, 0, 0] v := by
  unfold afterLength hdrPhase
  cases masked <;> rfl

/-- first header byte of a text/binary frame, accepted -/
theorem stepStart_data (ws : WS) (psz : Nat) (key : List UInt8) (v : Nat) (b0 : UInt8)
    (hl : ws.hdr.length = 32) (hv : v ≠ 0) (hv2 : v ≠ 2) (hr : rsvBits b0 = 0)
    (hop : opcodeOf b0 = 1 ∨ opcodeOf b0 = 2) (hdt : ws.dataType = 0) :
    stepStart (hdrPhase ws [] 0 psz key v) b0 = .cont (hdrPhase ws [b0] 1 psz key v) 1 := by
  have hpush := pushHdr_phase ws [] 0 psz key v b0 hl (by simp)
  unfold stepStart
  have hvv : (hdrPhase ws [] 0 psz key v).validity = v := rfl
  have hdd : (hdrPhase ws [] 0 psz key v).dataType = ws.dataType := rfl
  simp only [hvv, hdd, hv, hv2, hr, hdt, ne_eq, not_false_eq_true, not_true_eq_false, if_true, if_false, hpush]
  rcases hop with h | h <;> simp only [h] <;> rfl

/-- first header byte of a continuation frame, accepted -/
theorem stepStart_cont (ws : WS) (psz : Nat) (key : List UInt8) (v : Nat) (b0 : UInt8)
    (hl : ws.hdr.length = 32) (hv : v ≠ 0) (hv2 : v ≠ 2) (hr : rsvBits b0 = 0)
    (hop : opcodeOf b0 = 0) (hdt : ws.dataType ≠ 0) :
    stepStart (hdrPhase ws [] 0 psz key v) b0 = .cont (hdrPhase ws [b0] 1 psz key v) 1 := by
  have hpush := pushHdr_phase ws [] 0 psz key v b0 hl (by simp)
  unfold stepStart
  have hvv : (hdrPhase ws [] 0 psz key v).validity = v := rfl
  have hdd : (hdrPhase ws [] 0 psz key v).dataType = ws.dataType := rfl
  simp only [hvv, hdd, hv, hv2, hr, hdt, hop, ne_eq, not_false_eq_true, not_true_eq_false, if_true, if_false, hpush]
  rfl

/-- first header byte of a ping/pong (validity unchanged) or close frame (validity 2), accepted -/
theorem stepStart_ctrl (ws : WS) (psz : Nat) (key : List UInt8) (v : Nat) (b0 : UInt8)
    (hl : ws.hdr.length = 32) (hv : v ≠ 0) (hr : rsvBits b0 = 0) (hfin : finBit b0 = true)
    (hop : opcodeOf b0 = 8 ∨ opcodeOf b0 = 9 ∨ opcodeOf b0 = 10) :
    stepStart (hdrPhase ws [] 0 psz key v) b0 =
      .cont (hdrPhase ws [b0] 1 psz key (if opcodeOf b0 = 8 then 2 else v)) 1 := by
  have hpush : ∀ v, pushHdr (hdrPhase ws [] 0 psz key v) b0 = some (hdrPhase ws [b0] 0 psz key v) := by
    intro v; exact pushHdr_phase ws [] 0 psz key v b0 hl (by simp)
  have hv2 : ({ hdrPhase ws [] 0 psz key v with validity := 2 } : WS) = hdrPhase ws [] 0 psz key 2 := rfl
  unfold stepStart
  have hvv : (hdrPhase ws [] 0 psz key v).validity = v := rfl
  simp only [hvv, hv, hr, hfin, ne_eq, not_false_eq_true, not_true_eq_false, if_true, if_false, hpush, hv2]
  rcases hop with h | h | h <;> simp only [h] <;> rfl

end Mhd.WS
namespace Mhd.WS

theorem phase_hdr0 (ws : WS) (b0 : UInt8) (p : List UInt8) (s psz : Nat) (key : List UInt8) (v : Nat) :
    (hdrPhase ws (b0 :: p) s psz key v).hdr[0]? = some b0 := by
  show (hp ws.hdr (b0 :: p))[0]? = some b0
  rw [hp_get _ _ 0 (by simp)]; rfl

theorem stepLen1_phase (ws : WS) (psz : Nat) (key : List UInt8) (v : Nat) (b0 b1 : UInt8)
    (hl : ws.hdr.length = 32) (hv : v ≠ 0) (hm : finBit b1 = !ws.isClient)
    (hc : ¬ (126 ≤ len7 b1 ∧ ctlBit b0 = true)) (h1 : ¬ (len7 b1 = 1 ∧ opcodeOf b0 = 8)) :
    stepLen1 (hdrPhase ws [b0] 1 psz key v) b1 =
      if len7 b1 = 126 then .cont (hdrPhase ws [b0, b1] 2 psz key v) 1
      else if len7 b1 = 127 then .cont (hdrPhase ws [b0, b1] 4 psz key v) 1
      else if ws.maxPayload ≠ 0 ∧ ws.maxPayload < len7 b1 then errRet (hdrPhase ws [b0, b1] 1 psz key v) 1009 (-5) 1
      else .cont (if finBit b1 then hdrPhase ws [b0, b1] 12 (len7 b1) key v
                  else hdrPhase ws [b0, b1] 16 (len7 b1) [0, 0, 0, 0] v) 1 := by
  have hpush := pushHdr_phase ws [b0] 1 psz key v b1 hl (by simp)
  unfold stepLen1
  have hvv : (hdrPhase ws [b0] 1 psz key v).validity = v := rfl
  have hcl : (hdrPhase ws [b0] 1 psz key v).isClient = ws.isClient := rfl
  have hmx : (hdrPhase ws [b0, b1] 1 psz key v).maxPayload = ws.maxPayload := rfl
  simp only [phase_hdr0, hpush, hvv, hcl]
  rw [if_neg]
  · simp only [List.cons_append, List.nil_append, hmx, afterLength_phase]
    repeat' split
    all_goals rfl
  · simp only [hv, ne_eq, not_false_eq_true, true_and, decide_eq_true_eq, Bool.not_eq_true, not_or, not_and, hm]
    cases hci : ws.isClient <;> simp_all

end Mhd.WS
namespace Mhd.WS

theorem stepStore_phase (ws : WS) (p : List UInt8) (s psz : Nat) (key : List UInt8) (v : Nat) (b : UInt8)
    (hl : ws.hdr.length = 32) (hp32 : p.length < 32) :
    stepStore (hdrPhase ws p s psz key v) b = .cont (hdrPhase ws (p ++ [b]) (s + 1) psz key v) 1 := by
  unfold stepStore
  rw [pushHdr_phase ws p s psz key v b hl hp32]
  rfl

theorem phase_hdrBytes (ws : WS) (p : List UInt8) (s psz : Nat) (key : List UInt8) (v : Nat) (off k : Nat)
    (hl : ws.hdr.length = 32) (hp32 : p.length ≤ 32) (hk : off + k ≤ p.length) :
    hdrBytes (hdrPhase ws p s psz key v) off k = some ((p.drop off).take k) := by
  unfold hdrBytes
  show (if off + k ≤ (hp ws.hdr p).length then some (((hp ws.hdr p).drop off).take k) else none) = _
  rw [hp_length _ _ (by omega), if_pos (by omega), hp_drop_take _ _ _ _ hk]

theorem phase_hdr1 (ws : WS) (b0 b1 : UInt8) (p : List UInt8) (s psz : Nat) (key : List UInt8) (v : Nat) :
    (hdrPhase ws (b0 :: b1 :: p) s psz key v).hdr[1]? = some b1 := by
  show (hp ws.hdr (b0 :: b1 :: p))[1]? = some b1
  rw [hp_get _ _ 1 (by simp)]; rfl

theorem stepLen2of2_phase (ws : WS) (psz : Nat) (key : List UInt8) (v : Nat) (b0 b1 l1 l2 : UInt8)
    (hl : ws.hdr.length = 32) :
    stepLen2of2 (hdrPhase ws [b0, b1, l1] 3 psz key v) l2 =
      if beVal [l1, l2] ≤ 125 then errRet (hdrPhase ws [b0, b1, l1, l2] 3 psz key v) 1002 (-1) 1
      else if ws.maxPayload ≠ 0 ∧ ws.maxPayload < beVal [l1, l2] then
        errRet (hdrPhase ws [b0, b1, l1, l2] 3 psz key v) 1009 (-5) 1
      else .cont (if finBit b1 then hdrPhase ws [b0, b1, l1, l2] 12 (beVal [l1, l2]) key v
                  else hdrPhase ws [b0, b1, l1, l2] 16 (beVal [l1, l2]) [0, 0, 0, 0] v) 1 := by
  unfold stepLen2of2
  rw [pushHdr_phase ws _ 3 psz key v l2 hl (by simp)]
  simp only [List.cons_append, List.nil_append]
  rw [phase_hdrBytes ws _ 3 psz key v 2 2 hl (by simp) (by simp), phase_hdr1]
  simp only [List.drop_succ_cons, List.drop_zero, List.take_succ_cons, List.take_zero, afterLength_phase]
  have hmx : (hdrPhase ws [b0, b1, l1, l2] 3 psz key v).maxPayload = ws.maxPayload := rfl
  rw [hmx]
  repeat' split
  all_goals rfl

theorem stepLen8of8_phase (ws : WS) (psz : Nat) (key : List UInt8) (v : Nat) (b0 b1 : UInt8) (ls : List UInt8)
    (hls : ls.length = 7) (l8 : UInt8) (hl : ws.hdr.length = 32) :
    stepLen8of8 (hdrPhase ws (b0 :: b1 :: ls) 11 psz key v) l8 =
      if 0x7fffffffffffffff < beVal (ls ++ [l8]) then
        errRet { hdrPhase ws (b0 :: b1 :: (ls ++ [l8])) 11 psz key v with step := 99 } 1002 (-1) 1
      else if beVal (ls ++ [l8]) ≤ 65535 then errRet (hdrPhase ws (b0 :: b1 :: (ls ++ [l8])) 11 psz key v) 1002 (-1) 1
      else if ws.maxPayload ≠ 0 ∧ ws.maxPayload < beVal (ls ++ [l8]) then
        errRet (hdrPhase ws (b0 :: b1 :: (ls ++ [l8])) 11 psz key v) 1009 (-5) 1
      else .cont (if finBit b1 then hdrPhase ws (b0 :: b1 :: (ls ++ [l8])) 12 (beVal (ls ++ [l8])) key v
                  else hdrPhase ws (b0 :: b1 :: (ls ++ [l8])) 16 (beVal (ls ++ [l8])) [0, 0, 0, 0] v) 1 := by
  unfold stepLen8of8
  rw [pushHdr_phase ws _ 11 psz key v l8 hl (by simp [hls])]
  simp only [List.cons_append]
  rw [phase_hdrBytes ws _ 11 psz key v 2 8 hl (by simp [hls]) (by simp [hls]), phase_hdr1]
  have htk : ((b0 :: b1 :: (ls ++ [l8])).drop 2).take 8 = ls ++ [l8] := by
    simp only [List.drop_succ_cons, List.drop_zero]
    exact List.take_of_length_le (by simp [hls])
  rw [htk]
  simp only [afterLength_phase]
  have hmx : (hdrPhase ws (b0 :: b1 :: (ls ++ [l8])) 11 psz key v).maxPayload = ws.maxPayload := rfl
  rw [hmx]
  repeat' split
  all_goals rfl

theorem stepMask4_phase (ws : WS) (p : List UInt8) (psz : Nat) (key : List UInt8) (v : Nat) (m1 m2 m3 m4 : UInt8)
    (hl : ws.hdr.length = 32) (hp32 : p.length + 3 < 32) :
    stepMask4 (hdrPhase ws (p ++ [m1, m2, m3]) 15 psz key v) m4 =
      .cont (hdrPhase ws (p ++ [m1, m2, m3, m4]) 16 psz [m1, m2, m3, m4] v) 1 := by
  unfold stepMask4
  rw [pushHdr_phase ws _ 15 psz key v m4 hl (by simp; omega)]
  have hpp : p ++ [m1, m2, m3] ++ [m4] = p ++ [m1, m2, m3, m4] := by simp
  rw [hpp]
  simp only []
  have hsz : (hdrPhase ws (p ++ [m1, m2, m3, m4]) 15 psz key v).hdrSize = p.length + 4 := by
    show (p ++ [m1, m2, m3, m4]).length = _; simp
  rw [if_neg (show ¬ (hdrPhase ws (p ++ [m1, m2, m3, m4]) 15 psz key v).hdrSize < 4 by rw [hsz]; omega)]
  have hb : hdrBytes (hdrPhase ws (p ++ [m1, m2, m3, m4]) 15 psz key v)
      ((hdrPhase ws (p ++ [m1, m2, m3, m4]) 15 psz key v).hdrSize - 4) 4 = some [m1, m2, m3, m4] := by
    rw [hsz, phase_hdrBytes ws _ 15 psz key v (p.length + 4 - 4) 4 hl (by simp; omega) (by simp)]
    rw [Nat.add_sub_cancel, List.drop_left]; rfl
  rw [hb]
  rfl

end Mhd.WS
